//go:build verif

package deploy

// Verification hook (build tag `verif` only; add-only): thin exported wrappers around the
// unexported pure helpers of this package, so that the correspondence harness of /verif
// (harness/deployhelpers) can execute them side by side with their Lean model. Nothing here
// changes behaviour; without the tag the file is not compiled.

import (
	"errors"

	"github.com/nspcc-dev/neo-go/pkg/core/transaction"
	"github.com/nspcc-dev/neo-go/pkg/neorpc/result"
	"github.com/nspcc-dev/neo-go/pkg/util"
)

// VerifDivideFundsEvenly runs divideFundsEvenly and records the callback invocations in order.
// panicked reports a run-time panic of the helper (integer division by zero for n = 0).
func VerifDivideFundsEvenly(fullAmount uint64, n int) (inds []int, amounts []uint64, panicked bool) {
	defer func() {
		if r := recover(); r != nil {
			panicked = true
		}
	}()
	divideFundsEvenly(fullAmount, n, func(ind int, amount uint64) {
		inds = append(inds, ind)
		amounts = append(amounts, amount)
	})
	return
}

// VerifRuntimeTxWindow applies neoFSRuntimeTransactionModifier for the given height to a fresh
// transaction whose test invocation ended in the given VM state and returns what it set.
func VerifRuntimeTxWindow(height uint32, vmState string) (nonce, vub uint32, err error) {
	var res result.Invoke
	res.State = vmState
	var tx transaction.Transaction
	err = neoFSRuntimeTransactionModifier(func() uint32 { return height })(&res, &tx)
	return tx.Nonce, tx.ValidUntilBlock, err
}

// VerifRuntimeTxWindowSeq builds ONE modifier with neoFSRuntimeTransactionModifier — as
// syncNeoFSContract and updateNNSContract do before their loops — over a height source that
// reports heights[0] while the modifier is constructed and heights[i] during the i-th application,
// and applies it to len(heights) fresh transactions whose test invocations ended in the given VM
// state. It returns what each application set.
func VerifRuntimeTxWindowSeq(heights []uint32, vmState string) (nonces, vubs []uint32, errs []error) {
	if len(heights) == 0 {
		return
	}
	cur := heights[0]
	m := neoFSRuntimeTransactionModifier(func() uint32 { return cur })
	for _, h := range heights {
		cur = h
		var res result.Invoke
		res.State = vmState
		var tx transaction.Transaction
		err := m(&res, &tx)
		nonces, vubs, errs = append(nonces, tx.Nonce), append(vubs, tx.ValidUntilBlock), append(errs, err)
	}
	return
}

// VerifSharedTxData mirrors sharedTransactionData.
type VerifSharedTxData struct {
	Sender          util.Uint160
	ValidUntilBlock uint32
	Nonce           uint32
}

func (x VerifSharedTxData) in() sharedTransactionData {
	return sharedTransactionData{sender: x.Sender, validUntilBlock: x.ValidUntilBlock, nonce: x.Nonce}
}

// Bytes = sharedTransactionData.bytes.
func (x VerifSharedTxData) Bytes() []byte { return x.in().bytes() }

// EncodeToString = sharedTransactionData.encodeToString.
func (x VerifSharedTxData) EncodeToString() string { return x.in().encodeToString() }

// VerifDecodeSharedTxData = sharedTransactionData.decodeString on a zero value.
func VerifDecodeSharedTxData(s string) (VerifSharedTxData, error) {
	var d sharedTransactionData
	err := d.decodeString(s)
	return VerifSharedTxData{Sender: d.sender, ValidUntilBlock: d.validUntilBlock, Nonce: d.nonce}, err
}

// UnshiftChecksum = sharedTransactionData.unshiftChecksum.
func (x VerifSharedTxData) UnshiftChecksum(data []byte) []byte { return x.in().unshiftChecksum(data) }

// ShiftChecksum = sharedTransactionData.shiftChecksum.
func (x VerifSharedTxData) ShiftChecksum(data []byte) (bool, []byte) {
	return x.in().shiftChecksum(data)
}

// Matches = sharedTxDataMatches for a transaction with the given nonce, ValidUntilBlock and signer accounts.
func (x VerifSharedTxData) Matches(nonce, vub uint32, signers []util.Uint160) bool {
	tx := &transaction.Transaction{Nonce: nonce, ValidUntilBlock: vub}
	for _, s := range signers {
		tx.Signers = append(tx.Signers, transaction.Signer{Account: s})
	}
	return sharedTxDataMatches(tx, x.in())
}

// VerifDesignateNotarySignatureDomainForMember = designateNotarySignatureDomainForMember.
func VerifDesignateNotarySignatureDomainForMember(memberIndex int) string {
	return designateNotarySignatureDomainForMember(memberIndex)
}

// VerifAlphabetContractAddressDomain = calculateAlphabetContractAddressDomain.
func VerifAlphabetContractAddressDomain(index int) string {
	return calculateAlphabetContractAddressDomain(index)
}

// VerifDomains returns the fixed NNS names used by the deployment procedure.
func VerifDomains() map[string]string {
	return map[string]string{
		"bootstrap": domainBootstrap, "notaryTx": domainDesignateNotaryTx, "contracts": domainContractAddresses,
		"audit": domainAudit, "balance": domainBalance, "container": domainContainer, "neofsid": domainNeoFSID,
		"netmap": domainNetmap, "proxy": domainProxy, "reputation": domainReputation,
	}
}

// VerifErrIs reports the error classes the harness distinguishes.
func VerifErrIs(err error) string {
	switch {
	case err == nil:
		return "ok"
	case errors.Is(err, errMissingDomain):
		return "missing-domain"
	case errors.Is(err, errMissingDomainRecord):
		return "missing-record"
	}
	return "error"
}
