// Execution harness for the committee-run deployment procedure (C13, layer 3 — validation by execution, not proof).
//
// An in-process FS chain (core.Blockchain + network.Server + RPC server + Notary service + own block
// producer signing with the validators' keys, loopback only) on which the REAL, unmodified deploy.Deploy of the
// repository under test is run concurrently by every committee member over its own WebSocket client.
// One op line = one schedule:
//
//	op deploy n=<size> delays=<ms,...> absent=<members|-> cancel=<members|all>@<blocks>|<members|all>@<notary|alphabet>+<k>|- rerun=<0|1>
//	op boot   n=<size> live=<members> [leaderdown=<off>]   (Notary bootstrap only, also for live sets that must stall; leaderdown:
//	                                             the leader is down from the moment the shared data shows on the chain until
//	                                             height ValidUntilBlock+off of that data, the blocks in between are produced fast)
//	op upgrade n=<size> delays=<ms,...> before=<blocks>   (previous-version executables on chain, then the procedure with the
//	                                             supplied ones, entered <blocks> ahead of a multiple of 100: every contract is
//	                                             updated exactly once, the next run is inert)
//
// For `deploy` the observation is the outcome the property speaks about (never an interleaving); the property
// monitor is evaluated on it. For `boot` the observation is compared with the Lean bootstrap model
// (NeoFS/Model/NotaryBootstrap.lean through drv_notaryboot): designated or stalled, number of signatures in the
// accepted designation transaction, signers within the live set in key order.
package mininode

import (
	"bytes"
	"context"
	"encoding/json"
	"fmt"
	"net"
	"os"
	"path/filepath"
	"sort"
	"strconv"
	"strings"
	"sync"
	"sync/atomic"
	"testing"
	"time"

	"github.com/nspcc-dev/neo-go/pkg/config"
	"github.com/nspcc-dev/neo-go/pkg/config/netmode"
	"github.com/nspcc-dev/neo-go/pkg/core"
	"github.com/nspcc-dev/neo-go/pkg/core/block"
	"github.com/nspcc-dev/neo-go/pkg/core/native/nativenames"
	"github.com/nspcc-dev/neo-go/pkg/core/native/noderoles"
	"github.com/nspcc-dev/neo-go/pkg/core/state"
	"github.com/nspcc-dev/neo-go/pkg/core/storage"
	"github.com/nspcc-dev/neo-go/pkg/core/transaction"
	"github.com/nspcc-dev/neo-go/pkg/crypto/hash"
	"github.com/nspcc-dev/neo-go/pkg/crypto/keys"
	"github.com/nspcc-dev/neo-go/pkg/encoding/fixedn"
	"github.com/nspcc-dev/neo-go/pkg/neorpc/result"
	"github.com/nspcc-dev/neo-go/pkg/neotest"
	"github.com/nspcc-dev/neo-go/pkg/network"
	"github.com/nspcc-dev/neo-go/pkg/rpcclient"
	"github.com/nspcc-dev/neo-go/pkg/services/notary"
	"github.com/nspcc-dev/neo-go/pkg/services/rpcsrv"
	"github.com/nspcc-dev/neo-go/pkg/smartcontract"
	"github.com/nspcc-dev/neo-go/pkg/smartcontract/trigger"
	"github.com/nspcc-dev/neo-go/pkg/util"
	"github.com/nspcc-dev/neo-go/pkg/vm"
	"github.com/nspcc-dev/neo-go/pkg/vm/opcode"
	"github.com/nspcc-dev/neo-go/pkg/vm/stackitem"
	"github.com/nspcc-dev/neo-go/pkg/wallet"
	"github.com/nspcc-dev/neofs-contract/common"
	"github.com/nspcc-dev/neofs-contract/contracts"
	"github.com/nspcc-dev/neofs-contract/deploy"
	"go.uber.org/zap"
	"go.uber.org/zap/zapcore"

	"verifharness/chainx"
	"verifharness/deployhelpers"
	"verifharness/hx"
)

var blockEvery = 50 * time.Millisecond // VERIF_BLOCK_MS overrides (experiments with one tick per block)

func init() {
	if v, err := strconv.Atoi(os.Getenv("VERIF_BLOCK_MS")); err == nil && v > 0 {
		blockEvery = time.Duration(v) * time.Millisecond
	}
}

const (
	timePerBlock = 100 * time.Millisecond // what the members poll with (protocol configuration)
	fundGAS      = 1000_0000_0000         // 1000 GAS to every member before the start (the leader pays for NNS)
	walletPass   = "verif"
)

// ---------------------------------------------------------------- chain

type node struct {
	t        testing.TB
	n        int
	accs     []*wallet.Account // committee members sorted by public key
	pubs     keys.PublicKeys
	bc       *core.Blockchain
	e        *neotest.Executor
	serv     *network.Server
	rpc      *rpcsrv.Server
	endpoint string
	stop     chan struct{}
	done     sync.WaitGroup
	prodErr  atomic.Value
	fsc      []contracts.Contract
	cliMu    sync.Mutex
	clients  []*rpcclient.WSClient
	// experiment (outside the property's quantifier): the first transaction that calls designateAsRole is never put
	// into a block, i.e. it is lost and expires
	loseFirstDesignation bool
	lost                 util.Uint256
	lostSeen             atomic.Int32
	fastUntil            atomic.Uint32 // the producer does not wait between blocks below this height
}

func freePort(t testing.TB) string {
	l, err := net.Listen("tcp", "127.0.0.1:0")
	if err != nil {
		t.Fatal(err)
	}
	defer l.Close()
	return l.Addr().String()
}

func multisigAccs(accs []*wallet.Account, m int) []*wallet.Account {
	pubs := make(keys.PublicKeys, len(accs))
	for i := range accs {
		pubs[i] = accs[i].PublicKey()
	}
	out := make([]*wallet.Account, len(accs))
	for i := range accs {
		out[i] = wallet.NewAccountFromPrivateKey(accs[i].PrivateKey())
		if err := out[i].ConvertMultisig(m, pubs); err != nil {
			panic(err)
		}
	}
	return out
}

func newNode(t testing.TB, n int) *node {
	nd := &node{t: t, n: n, accs: chainx.MemberAccounts(n), stop: make(chan struct{})}
	sc := make([]string, n)
	for i, a := range nd.accs {
		nd.pubs = append(nd.pubs, a.PublicKey())
		sc[i] = a.PublicKey().StringCompressed()
	}
	var err error
	nd.fsc, err = contracts.GetFS()
	if err != nil {
		t.Fatalf("embedded contracts of the repository under test are unreadable: %v", err)
	}
	dir := t.TempDir()
	// Notary service wallet: member 0's key
	wpath := filepath.Join(dir, "notary.json")
	w, err := wallet.NewWallet(wpath)
	if err != nil {
		t.Fatal(err)
	}
	w.Scrypt = keys.ScryptParams{N: 2, R: 1, P: 1}
	acc0 := wallet.NewAccountFromPrivateKey(nd.accs[0].PrivateKey())
	if err = acc0.Encrypt(walletPass, w.Scrypt); err != nil {
		t.Fatal(err)
	}
	w.AddAccount(acc0)
	if err = w.Save(); err != nil {
		t.Fatal(err)
	}
	rpcAddr := freePort(t)
	cfg := config.Config{
		ProtocolConfiguration: config.ProtocolConfiguration{
			Magic:                           netmode.UnitTestNet,
			MaxTraceableBlocks:              200000,
			TimePerBlock:                    timePerBlock,
			StandbyCommittee:                sc,
			ValidatorsCount:                 uint32(n),
			VerifyTransactions:              true,
			P2PSigExtensions:                true,
			P2PNotaryRequestPayloadPoolSize: 1000,
			MemPoolSize:                     50000,
		},
		ApplicationConfiguration: config.ApplicationConfiguration{
			P2P: config.P2P{Addresses: []string{freePort(t)}, MinPeers: 0, MaxPeers: 10, AttemptConnPeers: 1},
			RPC: config.RPC{
				BasicService:           config.BasicService{Enabled: true, Addresses: []string{rpcAddr}},
				MaxGasInvoke:           fixedn.Fixed8FromInt64(200),
				MaxIteratorResultItems: 100,
				MaxFindResultItems:     100,
				MaxWebSocketClients:    64,
				SessionEnabled:         true,
				SessionExpirationTime:  60,
				SessionPoolSize:        200,
			},
			P2PNotary: config.P2PNotary{Enabled: true, UnlockWallet: config.Wallet{Path: wpath, Password: walletPass}},
		},
	}
	log := zap.NewNop()
	nd.bc, err = core.NewBlockchain(storage.NewMemoryStore(), cfg.Blockchain(), log)
	if err != nil {
		t.Fatal(err)
	}
	go nd.bc.Run()
	validators := multisigAccs(nd.accs, smartcontract.GetDefaultHonestNodeCount(n))
	committee := multisigAccs(nd.accs, smartcontract.GetMajorityHonestNodeCount(n))
	nd.e = neotest.NewExecutor(t, nd.bc, neotest.NewMultiSigner(validators...), neotest.NewMultiSigner(committee...))

	scfg, err := network.NewServerConfig(cfg)
	if err != nil {
		t.Fatal(err)
	}
	nd.serv, err = network.NewServer(scfg, nd.bc, nd.bc.GetStateSyncModule(), log)
	if err != nil {
		t.Fatal(err)
	}
	ntr, err := notary.NewNotary(notary.Config{MainCfg: cfg.ApplicationConfiguration.P2PNotary, Chain: nd.bc, Log: log},
		nd.serv.Net, nd.serv.GetNotaryPool(), func(tx *transaction.Transaction) error { return nd.serv.RelayTxn(tx) })
	if err != nil {
		t.Fatal(err)
	}
	nd.serv.AddService(ntr)
	nd.bc.SetNotary(ntr)
	errCh := make(chan error, 16)
	nd.rpc = rpcsrv.New(nd.bc, cfg.ApplicationConfiguration.RPC, nd.serv, nil, log, errCh)
	nd.serv.AddService(nd.rpc)
	nd.serv.Start()
	nd.endpoint = "ws://" + rpcAddr + "/ws"
	// wait for the RPC server
	for i := 0; ; i++ {
		c, err := net.DialTimeout("tcp", rpcAddr, time.Second)
		if err == nil {
			c.Close()
			break
		}
		if i > 200 {
			t.Fatalf("RPC server does not listen: %v", err)
		}
		time.Sleep(10 * time.Millisecond)
	}
	// funding block: the leader must be able to pay for the NNS deployment
	gas := nd.e.NativeHash(t, nativenames.Gas)
	var txs []*transaction.Transaction
	for _, a := range nd.accs {
		txs = append(txs, nd.e.NewTx(t, []neotest.Signer{nd.e.Validator}, gas, "transfer", nd.e.Validator.ScriptHash(), a.ScriptHash(), int64(fundGAS), nil))
	}
	nd.e.AddNewBlock(t, txs...)
	for _, tx := range txs {
		nd.e.CheckHalt(t, tx.Hash())
	}
	nd.done.Add(1)
	go nd.produce()
	return nd
}

// produce: one block every blockEvery with whatever the memory pool holds, signed by the validators.
func (nd *node) produce() {
	defer nd.done.Done()
	tk := time.NewTicker(blockEvery)
	defer tk.Stop()
	for {
		if nd.bc.BlockHeight() < nd.fastUntil.Load() {
			// fast-forward (a member is down across a validity window): blocks are produced back to back
			select {
			case <-nd.stop:
				return
			default:
			}
		} else {
			select {
			case <-nd.stop:
				return
			case <-tk.C:
			}
		}
		txs := nd.bc.GetMemPool().GetVerifiedTransactions()
		if nd.loseFirstDesignation {
			kept := txs[:0:0]
			for _, tx := range txs {
				if bytes.Contains(tx.Script, []byte("designateAsRole")) {
					if nd.lost.Equals(util.Uint256{}) {
						nd.lost = tx.Hash()
					}
					if tx.Hash().Equals(nd.lost) {
						nd.lostSeen.Add(1)
						continue
					}
				}
				kept = append(kept, tx)
			}
			txs = kept
		}
		b := nd.newBlock(txs)
		if err := nd.bc.AddBlock(b); err != nil {
			// a transaction may have become invalid between pool and block (conflicts, expiry): retry empty
			b = nd.newBlock(nil)
			if err2 := nd.bc.AddBlock(b); err2 != nil {
				nd.prodErr.Store(fmt.Errorf("block producer: %v; empty block: %v", err, err2))
				return
			}
		}
	}
}

func (nd *node) newBlock(txs []*transaction.Transaction) *block.Block {
	last, err := nd.bc.GetBlock(nd.bc.GetHeaderHash(nd.bc.BlockHeight()))
	if err != nil {
		panic(err)
	}
	b := &block.Block{Header: block.Header{
		NextConsensus: nd.e.Validator.ScriptHash(),
		Script:        transaction.Witness{VerificationScript: nd.e.Validator.Script()},
		Timestamp:     last.Timestamp + 1,
		PrevHash:      last.Hash(),
		Index:         last.Index + 1,
	}, Transactions: txs}
	b.RebuildMerkleRoot()
	nd.e.SignBlock(b)
	return b
}

func (nd *node) close() {
	time.Sleep(300 * time.Millisecond) // background waiters of cancelled runs finish unsubscribing
	nd.cliMu.Lock()
	for _, c := range nd.clients {
		c.Close()
	}
	nd.cliMu.Unlock()
	close(nd.stop)
	nd.done.Wait()
	nd.serv.Shutdown()
	nd.bc.Close()
}

func (nd *node) height() uint32 { return nd.bc.BlockHeight() }

// waitHeight blocks until the chain reaches h or the deadline passes.
func (nd *node) waitHeight(h uint32, deadline time.Time) bool {
	for nd.height() < h {
		if time.Now().After(deadline) || nd.prodErr.Load() != nil {
			return false
		}
		time.Sleep(blockEvery / 2)
	}
	return true
}

// ---------------------------------------------------------------- member = one Deploy run

type chainClient struct{ *rpcclient.WSClient }

func (c chainClient) SubscribeToNewBlocks() (<-chan *block.Block, error) {
	ch := make(chan *block.Block, 4096)
	_, err := c.ReceiveBlocks(nil, ch)
	return ch, err
}

func (c chainClient) SubscribeToNotaryRequests() (<-chan *result.NotaryRequestEvent, error) {
	ch := make(chan *result.NotaryRequestEvent, 4096)
	_, err := c.ReceiveNotaryRequests(nil, ch)
	return ch, err
}

type glagolitsa struct{}

func (glagolitsa) Size() int { return 41 }
func (glagolitsa) LetterByIndex(i int) string {
	return fmt.Sprintf("letter%02d", i)
}

// logTap counts log messages of one member and remembers the last one (diagnostics of a stalled run).
type logTap struct {
	mu    sync.Mutex
	count map[string]int
	last  string
}

func (l *logTap) core() zapcore.Core { return tapCore{l} }

type tapCore struct{ l *logTap }

func (c tapCore) Enabled(zapcore.Level) bool        { return true }
func (c tapCore) With([]zapcore.Field) zapcore.Core { return c }
func (c tapCore) Check(e zapcore.Entry, ce *zapcore.CheckedEntry) *zapcore.CheckedEntry {
	return ce.AddCore(e, c)
}
func (c tapCore) Write(e zapcore.Entry, _ []zapcore.Field) error {
	c.l.mu.Lock()
	c.l.count[e.Message]++
	if e.Message != "new block arrived" && !strings.Contains(e.Message, "otary balance") && !strings.Contains(e.Message, "to the Notary contract") {
		c.l.last = e.Message
	}
	c.l.mu.Unlock()
	return nil
}
func (c tapCore) Sync() error { return nil }

type member struct {
	idx    int
	cancel context.CancelFunc
	res    chan error
	tap    *logTap
	cli    *rpcclient.WSClient
}

func (nd *node) prm(i int, cli *rpcclient.WSClient, tap *logTap) deploy.Prm {
	vAcc := wallet.NewAccountFromPrivateKey(nd.accs[i].PrivateKey())
	if err := vAcc.ConvertMultisig(smartcontract.GetDefaultHonestNodeCount(nd.n), nd.pubs); err != nil {
		panic(err)
	}
	var p deploy.Prm
	p.Logger = zap.New(tap.core())
	p.Blockchain = chainClient{cli}
	p.LocalAccount = wallet.NewAccountFromPrivateKey(nd.accs[i].PrivateKey())
	p.ValidatorMultiSigAccount = vAcc
	p.Glagolitsa = glagolitsa{}
	c := func(k int) deploy.CommonDeployPrm {
		return deploy.CommonDeployPrm{NEF: nd.fsc[k].NEF, Manifest: nd.fsc[k].Manifest}
	}
	// order of contracts.GetFS: nns, proxy, audit, netmap, balance, reputation, neofsid, container, alphabet
	p.NNS.Common, p.NNS.SystemEmail = c(0), "ops@verif.example"
	p.ProxyContract.Common = c(1)
	p.AuditContract.Common = c(2)
	p.NetmapContract.Common = c(3)
	p.NetmapContract.Config = deploy.NetworkConfiguration{MaxObjectSize: 64 << 20, StoragePrice: 1, AuditFee: 1, EpochDuration: 240,
		ContainerFee: 1000, ContainerAliasFee: 500, EigenTrustIterations: 4, EigenTrustAlpha: 0.1, IRCandidateFee: 100, WithdrawalFee: 1}
	p.BalanceContract.Common = c(4)
	p.ReputationContract.Common = c(5)
	p.NeoFSIDContract.Common = c(6)
	p.ContainerContract.Common = c(7)
	p.AlphabetContract.Common = c(8)
	return p
}

// start runs deploy.Deploy for member i in its own goroutine over its own WebSocket connection.
func (nd *node) start(i int, delay time.Duration) *member {
	m := &member{idx: i, res: make(chan error, 1), tap: &logTap{count: map[string]int{}}}
	ctx, cancel := context.WithCancel(context.Background())
	m.cancel = cancel
	go func() {
		select {
		case <-time.After(delay):
		case <-ctx.Done():
			m.res <- ctx.Err()
			return
		}
		cli, err := rpcclient.NewWS(ctx, nd.endpoint, rpcclient.WSOptions{})
		if err != nil {
			m.res <- fmt.Errorf("harness: dial: %w", err)
			return
		}
		if err = cli.Init(); err != nil {
			m.res <- fmt.Errorf("harness: init client: %w", err)
			return
		}
		m.cli = cli
		// the connection is closed only when the node goes down: closing it right after Deploy returns races with
		// neo-go's event-based waiters that are still unsubscribing (close of closed channel in waiter.WaitAny)
		nd.cliMu.Lock()
		nd.clients = append(nd.clients, cli)
		nd.cliMu.Unlock()
		func() {
			defer func() {
				if r := recover(); r != nil {
					err = fmt.Errorf("panic in deploy.Deploy: %v", r)
				}
			}()
			err = deploy.Deploy(ctx, nd.prm(i, cli, m.tap))
		}()
		m.res <- err
	}()
	return m
}

// ---------------------------------------------------------------- observations

func sameKeys(a, b keys.PublicKeys) bool {
	if len(a) != len(b) {
		return false
	}
	x, y := a.Copy(), b.Copy()
	sort.Sort(x)
	sort.Sort(y)
	for i := range x {
		if !x[i].Equal(y[i]) {
			return false
		}
	}
	return true
}

func (nd *node) roleIs(r noderoles.Role) bool {
	ks, _, err := nd.bc.GetDesignatedByRole(r)
	return err == nil && sameKeys(ks, nd.pubs)
}

// contractsOnChain lists all deployed (non-native) contracts.
func (nd *node) contractsOnChain() []*state.Contract {
	var out []*state.Contract
	for id := int32(1); id < 200; id++ {
		h, err := nd.bc.GetContractScriptHash(id)
		if err != nil {
			break
		}
		if cs := nd.bc.GetContractState(h); cs != nil {
			out = append(out, cs)
		}
	}
	return out
}

// resolve test-invokes NNS.resolve(name, TXT) on the chain itself.
func (nd *node) resolve(nns util.Uint160, name string) ([]string, error) {
	script, err := smartcontract.CreateCallScript(nns, "resolve", name, int64(16))
	if err != nil {
		return nil, err
	}
	tx := transaction.New(script, 0)
	tx.ValidUntilBlock = nd.height() + 5
	tx.Signers = []transaction.Signer{{Account: nd.accs[0].ScriptHash(), Scopes: transaction.None}}
	tx.SystemFee = 100_0000_0000
	v, err := nd.e.TestInvoke(tx)
	if err != nil {
		return nil, err
	}
	if v.Estack().Len() != 1 {
		return nil, fmt.Errorf("resolve left %d items", v.Estack().Len())
	}
	it := v.Estack().Pop().Item()
	if _, ok := it.(stackitem.Null); ok {
		return nil, nil
	}
	arr, ok := it.Value().([]stackitem.Item)
	if !ok {
		return nil, fmt.Errorf("resolve returned %s", it.Type())
	}
	var out []string
	for _, x := range arr {
		b, err := x.TryBytes()
		if err != nil {
			return nil, err
		}
		out = append(out, string(b))
	}
	return out, nil
}

// fingerprint of everything a deployment run may change: contracts (hash, update counter, NEF checksum), the whole
// NNS storage, the role designations with the height they were made at.
func (nd *node) fingerprint() map[string]string {
	fp := map[string]string{}
	for _, cs := range nd.contractsOnChain() {
		fp[fmt.Sprintf("contract %d", cs.ID)] = fmt.Sprintf("%s upd=%d nef=%d name=%s", cs.Hash.StringLE(), cs.UpdateCounter, cs.NEF.Checksum, cs.Manifest.Name)
	}
	if h, err := nd.bc.GetContractScriptHash(1); err == nil {
		if cs := nd.bc.GetContractState(h); cs != nil {
			hs := hash.Sha256(nil)
			cnt := 0
			nd.bc.SeekStorage(cs.ID, nil, func(k, v []byte) bool {
				hs = hash.Sha256(append(append(hs.BytesBE(), k...), v...))
				cnt++
				return true
			})
			fp["nns-storage"] = fmt.Sprintf("%d items %s", cnt, hs.StringLE())
		}
	}
	for _, r := range []noderoles.Role{noderoles.P2PNotary, noderoles.NeoFSAlphabet} {
		ks, h, _ := nd.bc.GetDesignatedByRole(r)
		fp["role "+r.String()] = fmt.Sprintf("%d keys designated at %d", len(ks), h)
	}
	return fp
}

type txInfo struct {
	kind     string // what the transaction did, by the notifications/entry script (diagnostics)
	halt     bool
	fallback bool // fallback transaction of an earlier Notary request
}

// txsBetween returns the transactions accepted into blocks (from, to].
func (nd *node) txsBetween(from, to uint32) []txInfo {
	var out []txInfo
	for h := from + 1; h <= to; h++ {
		b, err := nd.bc.GetBlock(nd.bc.GetHeaderHash(h))
		if err != nil {
			continue
		}
		for _, tx := range b.Transactions {
			ti := txInfo{kind: "other"}
			// fallback transactions of Notary requests that were never completed become valid at their NotValidBefore
			// height and are then relayed by the Notary service: consequences of requests sent long before
			if tx.HasAttribute(transaction.NotValidBeforeT) && tx.HasAttribute(transaction.ConflictsT) && tx.HasAttribute(transaction.NotaryAssistedT) {
				ti.fallback = true
			}
			if aer, err := nd.bc.GetAppExecResults(tx.Hash(), trigger.Application); err == nil && len(aer) == 1 {
				ti.halt = aer[0].VMState.HasFlag(1) // vmstate.Halt
				var names []string
				for _, e := range aer[0].Events {
					names = append(names, e.Name)
				}
				ti.kind = strings.Join(names, "+")
				if ti.kind == "" {
					ti.kind = "no-events"
				}
			}
			out = append(out, ti)
		}
	}
	return out
}

// designationTx finds the accepted transaction that designated the Notary role and returns the committee indices
// whose signatures its committee witness carries, in script order.
func (nd *node) designationTx() (found bool, signers []int, valid bool) {
	_, dh, err := nd.bc.GetDesignatedByRole(noderoles.P2PNotary)
	if err != nil || dh == 0 {
		return false, nil, false
	}
	// the designation becomes effective in the block after the transaction's
	for h := dh; h+2 > dh && h > 0; h-- {
		b, err := nd.bc.GetBlock(nd.bc.GetHeaderHash(h))
		if err != nil {
			continue
		}
		for _, tx := range b.Transactions {
			aer, err := nd.bc.GetAppExecResults(tx.Hash(), trigger.Application)
			if err != nil || len(aer) != 1 {
				continue
			}
			isDes := false
			for _, e := range aer[0].Events {
				if e.Name == "Designation" {
					isDes = true
				}
			}
			if !isDes || len(tx.Scripts) < 2 {
				continue
			}
			// the committee witness is the multi-signature one
			for _, w := range tx.Scripts {
				if _, _, ok := vm.ParseMultiSigContract(w.VerificationScript); !ok {
					continue
				}
				valid = true
				inv := w.InvocationScript
				for len(inv) > 0 {
					if len(inv) < 66 || inv[0] != byte(opcode.PUSHDATA1) || inv[1] != 64 {
						valid = false
						break
					}
					sig := inv[2:66]
					inv = inv[66:]
					who := -1
					for i, k := range nd.pubs {
						if k.VerifyHashable(sig, uint32(nd.bc.GetConfig().Magic), tx) {
							who = i
						}
					}
					if who < 0 {
						valid = false
					}
					signers = append(signers, who)
				}
				return true, signers, valid
			}
		}
	}
	return false, nil, false
}

// ---------------------------------------------------------------- op execution

type world struct {
	t   testing.TB
	run *hx.Run
	wf  bool
	// first attempt of a node-layer operation: violations are held back; an operation that produced any is repeated once on a
	// fresh in-process chain and judged by that second run only. The orchestration layer runs on real time, goroutines, an RPC
	// server and a WebSocket client inside this process: on an overloaded machine a run can lose its connection or miss its
	// budget without any fault of the code under test. A genuine defect is a property of the schedule and shows again.
	holdBack bool
	held     int
	hw  *deployhelpers.World // helper op lines (replay of layer-1 findings through the same entry point)
}

func parseKV(ws []string) map[string]string {
	m := map[string]string{}
	for _, w := range ws {
		if i := strings.IndexByte(w, '='); i > 0 {
			m[w[:i]] = w[i+1:]
		}
	}
	return m
}

func parseInts(s string) []int {
	if s == "-" || s == "" {
		return nil
	}
	var out []int
	for _, x := range strings.Split(s, ",") {
		v, err := strconv.Atoi(x)
		if err != nil {
			panic("bad int list " + s)
		}
		out = append(out, v)
	}
	return out
}

func has(xs []int, v int) bool {
	for _, x := range xs {
		if x == v {
			return true
		}
	}
	return false
}

func (w *world) execOp(line string) string {
	if deployhelpers.IsHelperOp(line) {
		if w.hw == nil {
			w.hw = deployhelpers.NewWorld(w.run, w.wf)
		}
		return w.hw.Exec(line)
	}
	ws := strings.Fields(line)
	if len(ws) < 2 || ws[0] != "op" {
		w.t.Fatalf("bad op line %q", line)
	}
	kv := parseKV(ws[2:])
	n, _ := strconv.Atoi(kv["n"])
	if n < 1 || n > 7 {
		w.t.Fatalf("bad committee size in %q", line)
	}
	w.run.Count("op." + ws[1])
	switch ws[1] {
	case "deploy":
		return w.twice(func() string { return w.opDeploy(line, n, kv) })
	case "boot":
		return w.twice(func() string { return w.opBoot(line, n, kv) })
	case "upgrade":
		return w.opUpgrade(line, n, kv)
	}
	w.t.Fatalf("bad op %q", line)
	return ""
}

func (w *world) viol(site, what, detail, line string) {
	if w.holdBack {
		w.held++
		return
	}
	if w.wf {
		w.run.Violation("C13", site, what, detail+" | schedule: "+line)
	}
}

// twice runs a node-layer operation; when the first attempt reports a violation it is repeated once and only the repetition counts
func (w *world) twice(op func() string) string {
	w.holdBack, w.held = true, 0
	out := op()
	w.holdBack = false
	if w.held == 0 {
		return out
	}
	w.run.Count("node.repeated-after-failure")
	return op()
}

func majority(n int) int { return n - (n-1)/2 }

// opBoot: only the members of `live` run the procedure; observe whether the Notary role gets designated to the
// committee within the block budget and by which signatures.
func (w *world) opBoot(line string, n int, kv map[string]string) string {
	live := parseInts(kv["live"])
	budget := 70 // blocks; the model needs 5 rounds, a real run about 12-25 blocks after NNS is on chain
	if b, err := strconv.Atoi(kv["blocks"]); err == nil {
		budget = b
	}
	nd := newNode(w.t, n)
	defer nd.close()
	nd.loseFirstDesignation = kv["lose"] == "1"
	var ms []*member
	for _, i := range live {
		ms = append(ms, nd.start(i, 0))
	}
	start := nd.height()
	deadline := time.Now().Add(90 * time.Second)
	designated := false
	// leaderdown=<off>: the leader is interrupted as soon as the shared transaction data shows on the chain, the other live
	// members publish their signatures of it, the chain runs (fast) to height ValidUntilBlock+off of that data (read from the
	// record itself), then the leader is restarted with an empty process state: around the expiry the data is regenerated
	// and every member has to REPLACE its published signature
	if ld, ok := kv["leaderdown"]; ok && has(live, 0) && n > 1 {
		off, err := strconv.Atoi(ld)
		if err != nil {
			w.t.Fatalf("bad leaderdown in %q", line)
		}
		stalled := func(what string) string {
			for _, m := range ms {
				m.cancel()
			}
			w.viol("deploy.enableNotary", "bootstrap-stalled", fmt.Sprintf("n=%d live=%v: %s after %d blocks", n, live, what, nd.height()-start), line)
			w.run.Count("out.boot.stalled")
			return "HALT ret=stalled"
		}
		rec := func(name string) string {
			h, err := nd.bc.GetContractScriptHash(1)
			if err != nil {
				return ""
			}
			rs, err := nd.resolve(h, name)
			if err != nil || len(rs) == 0 {
				return ""
			}
			return rs[0]
		}
		var vub uint32
		for {
			if r := rec(deploy.VerifDomains()["notaryTx"]); r != "" {
				d, err := deploy.VerifDecodeSharedTxData(r)
				if err != nil {
					w.t.Fatalf("shared transaction data on chain does not decode: %v", err)
				}
				vub = d.ValidUntilBlock
				break
			}
			if nd.height() > start+uint32(budget) || time.Now().After(deadline) {
				return stalled("the leader has not published the shared transaction data")
			}
			time.Sleep(2 * time.Millisecond)
		}
		ms[0].cancel() // live is sorted: ms[0] is the leader
		<-ms[0].res
		for _, j := range live[1:] {
			for rec(deploy.VerifDesignateNotarySignatureDomainForMember(j)) == "" {
				if nd.height() > start+uint32(budget) || time.Now().After(deadline) {
					return stalled(fmt.Sprintf("member %d has not published its signature", j))
				}
				time.Sleep(5 * time.Millisecond)
			}
		}
		if nd.roleIs(noderoles.P2PNotary) {
			w.t.Fatalf("harness: the role was designated before the leader could be interrupted (%q)", line)
		}
		target := uint32(int64(vub) + int64(off))
		nd.fastUntil.Store(target)
		if !nd.waitHeight(target, deadline) {
			return stalled("the chain did not reach the expiry of the shared data")
		}
		w.run.Count(fmt.Sprintf("out.boot.leaderdown.restart-at-vub%+d", off))
		ms[0] = nd.start(0, 0)
		start = nd.height()
		budget = 200 // restart (NNS lookup, pre-checks), possibly one more wait for the expiry, re-signing, collection
	}
	for nd.height() < start+uint32(budget) && time.Now().Before(deadline) {
		if nd.roleIs(noderoles.P2PNotary) {
			designated = true
			break
		}
		time.Sleep(blockEvery / 2)
	}
	took := nd.height() - start
	lastLogs := ""
	for _, m := range ms {
		m.tap.mu.Lock()
		lastLogs += fmt.Sprintf(" [%d: %s]", m.idx, m.tap.last)
		m.tap.mu.Unlock()
	}
	nd.waitHeight(nd.height()+2, deadline) // let the members see the designation themselves
	for _, m := range ms {
		m.cancel()
	}
	for _, m := range ms {
		<-m.res
	}
	expect := has(live, 0) && len(live) >= majority(n) && !nd.loseFirstDesignation
	if nd.loseFirstDesignation {
		w.run.Count(fmt.Sprintf("out.boot.lost-designation.seen-in-pool-%v", nd.lostSeen.Load() > 0))
	}
	if !designated {
		w.run.Count("out.boot.stalled")
		if os.Getenv("VERIF_DEBUG") != "" {
			for _, m := range ms {
				m.tap.mu.Lock()
				for _, k := range hx.SortedKeys(m.tap.count) {
					if strings.Contains(k, "sending") || strings.Contains(k, "expired") || strings.Contains(k, "recreate") {
						fmt.Printf("member %d: %3d x %s\n", m.idx, m.tap.count[k], k)
					}
				}
				m.tap.mu.Unlock()
			}
		}
		if expect {
			w.viol("deploy.enableNotary", "bootstrap-stalled", fmt.Sprintf("n=%d live=%v: Notary role not designated after %d blocks; last log lines:%s", n, live, took, lastLogs), line)
		}
		return "HALT ret=stalled"
	}
	w.run.Count("out.boot.designated")
	found, signers, valid := nd.designationTx()
	if os.Getenv("VERIF_DEBUG") != "" {
		for _, m := range ms {
			m.tap.mu.Lock()
			for _, k := range hx.SortedKeys(m.tap.count) {
				if strings.Contains(k, "sending") || strings.Contains(k, "expired") || strings.Contains(k, "recreate") {
					fmt.Printf("member %d: %3d x %s\n", m.idx, m.tap.count[k], k)
				}
			}
			m.tap.mu.Unlock()
		}
		fmt.Println("txs:", nd.txsBetween(start, nd.height()))
	}
	within, asc := true, true
	for i, s := range signers {
		if !has(live, s) {
			within = false
		}
		if i > 0 && signers[i-1] >= s {
			asc = false
		}
	}
	if n == 1 {
		// single-member committee: designation to the local account, plain 1-of-1 witness
		return fmt.Sprintf("HALT ret=designated nsigs=%d within=%v ordered=%v", len(signers), within, asc)
	}
	if !found || !valid || len(signers) < majority(n) || !within || !asc || !has(signers, 0) {
		w.viol("deploy.enableNotary", "bad-designation-witness", fmt.Sprintf("n=%d live=%v: designation transaction found=%v valid=%v signers=%v (need %d of the live members, leader included, in key order)",
			n, live, found, valid, signers, majority(n)), line)
	}
	w.run.Count(fmt.Sprintf("out.boot.blocks<%d", (took/10+1)*10))
	return fmt.Sprintf("HALT ret=designated nsigs=%d within=%v ordered=%v", len(signers), within, asc)
}

// checkFinal: the state the property demands after all runs returned: roles, NNS id, names, executables (nd.fsc = the
// supplied set), every contract once (Alphabet once per member). wantUpdates >= 0: every contract's update counter.
func (nd *node) checkFinal(n int, out *outcome, wantUpdates int) []string {
	var bad []string
	out.Notary, out.Alphabet = nd.roleIs(noderoles.P2PNotary), nd.roleIs(noderoles.NeoFSAlphabet)
	if !out.Notary {
		bad = append(bad, "Notary role is not designated to exactly the committee")
	}
	if !out.Alphabet {
		bad = append(bad, "NeoFSAlphabet role is not designated to exactly the committee")
	}
	cs := nd.contractsOnChain()
	out.Contracts = len(cs)
	var nns util.Uint160
	if len(cs) > 0 && cs[0].ID == 1 && cs[0].Manifest.Name == nd.fsc[0].Manifest.Name && cs[0].NEF.Checksum == nd.fsc[0].NEF.Checksum {
		out.NNSID1 = true
		nns = cs[0].Hash
	} else {
		bad = append(bad, "contract with ID 1 is not the supplied NNS executable")
	}
	byHash := map[util.Uint160]*state.Contract{}
	perName := map[string]int{}
	for _, c := range cs {
		byHash[c.Hash] = c
		perName[c.Manifest.Name]++
	}
	resolved := map[util.Uint160]string{}
	check := func(name string, fsKey string) {
		recs, err := nd.resolve(nns, name+".neofs")
		if err != nil || len(recs) != 1 {
			bad = append(bad, fmt.Sprintf("%s.neofs resolves to %d records (%v)", name, len(recs), err))
			return
		}
		h, err := util.Uint160DecodeStringLE(recs[0])
		if err != nil {
			bad = append(bad, fmt.Sprintf("%s.neofs holds %q", name, recs[0]))
			return
		}
		c := byHash[h]
		want := nd.fsc[fsIndex[fsKey]]
		switch {
		case c == nil:
			bad = append(bad, fmt.Sprintf("%s.neofs points at %s which is not on chain", name, recs[0]))
		case c.NEF.Checksum != want.NEF.Checksum || string(c.NEF.Script) != string(want.NEF.Script) || c.Manifest.Name != want.Manifest.Name:
			bad = append(bad, fmt.Sprintf("%s.neofs points at a contract that does not carry the supplied executable", name))
		}
		if prev, dup := resolved[h]; dup {
			bad = append(bad, fmt.Sprintf("%s.neofs and %s.neofs name the same contract", name, prev))
		}
		resolved[h] = name
		out.Names[name] = recs[0]
	}
	if out.NNSID1 {
		for _, nm := range systemNames {
			check(nm, nm)
		}
		for i := 0; i < n; i++ {
			check(fmt.Sprintf("alphabet%d", i), "alphabet")
		}
	}
	// exactly once: nothing on chain besides NNS and the named contracts, every system executable once, Alphabet n times
	if len(cs) != 1+len(systemNames)+n {
		bad = append(bad, fmt.Sprintf("%d contracts on chain, expected %d", len(cs), 1+len(systemNames)+n))
	}
	for _, nm := range append([]string{"nns"}, systemNames...) {
		if k := perName[nd.fsc[fsIndex[nm]].Manifest.Name]; k != 1 {
			bad = append(bad, fmt.Sprintf("%d contracts named %q on chain", k, nd.fsc[fsIndex[nm]].Manifest.Name))
		}
	}
	if k := perName[nd.fsc[8].Manifest.Name]; k != n {
		bad = append(bad, fmt.Sprintf("%d Alphabet contracts on chain for %d members", k, n))
	}
	if wantUpdates >= 0 {
		for _, c := range cs {
			if int(c.UpdateCounter) != wantUpdates {
				bad = append(bad, fmt.Sprintf("contract %d (%s) was updated %d times, expected %d", c.ID, c.Manifest.Name, c.UpdateCounter, wantUpdates))
			}
		}
	}
	return bad
}

type outcome struct {
	Errors         []string          `json:"errors"`
	Notary         bool              `json:"notary_role_is_committee"`
	Alphabet       bool              `json:"alphabet_role_is_committee"`
	NNSID1         bool              `json:"nns_has_id_1"`
	Names          map[string]string `json:"names"`
	Contracts      int               `json:"contracts_on_chain"`
	Height         uint32            `json:"height"`
	Txs            int               `json:"transactions_in_blocks"`
	RerunTxs       int               `json:"rerun_transactions"`
	RerunFallbacks int               `json:"rerun_window_fallbacks_of_first_run,omitempty"`
	RerunSends     []string          `json:"rerun_sends_logged,omitempty"`
	RerunKinds     []string          `json:"rerun_transaction_kinds,omitempty"`
	RerunChanged   []string          `json:"rerun_changed,omitempty"`
	RerunErrors    []string          `json:"rerun_errors,omitempty"`
	BootSigners    []int             `json:"bootstrap_signers"`
	AnchorAt       uint32            `json:"role_designation_seen_at,omitempty"`
	CancelledAt    uint32            `json:"cancelled_at,omitempty"`
	RolesAtCancel  string            `json:"roles_on_chain_at_cancel,omitempty"`
	RolesAtRestart string            `json:"roles_on_chain_at_restart,omitempty"`
	CancelOutcome  string            `json:"cancel_outcome,omitempty"`
}

var systemNames = []string{"proxy", "audit", "netmap", "balance", "reputation", "neofsid", "container"}

// index into contracts.GetFS() by NNS name
var fsIndex = map[string]int{"nns": 0, "proxy": 1, "audit": 2, "netmap": 3, "balance": 4, "reputation": 5, "neofsid": 6, "container": 7, "alphabet": 8}

func (w *world) opDeploy(line string, n int, kv map[string]string) string {
	delays := parseInts(kv["delays"])
	absent := parseInts(kv["absent"])
	rerun := kv["rerun"] != "0"
	// cancel=<member|all>@<blocks>            blocks after the start of the run
	// cancel=<member|all>@notary+<k>          k blocks after the chain first shows the Notary role designated to the committee
	// cancel=<member|all>@alphabet+<k>        the same for the NeoFSAlphabet role (the anchors are observed on the chain, not assumed)
	var cancelWho []int
	cancelAnchor, cancelAt := "", 0
	if c := kv["cancel"]; c != "" && c != "-" {
		p := strings.SplitN(c, "@", 2)
		if len(p) != 2 {
			w.t.Fatalf("bad cancel spec in %q", line)
		}
		if p[0] == "all" {
			for i := 0; i < n; i++ {
				cancelWho = append(cancelWho, i)
			}
		} else {
			cancelWho = parseInts(p[0])
		}
		at := p[1]
		if i := strings.IndexByte(at, '+'); i > 0 {
			cancelAnchor, at = at[:i], at[i+1:]
			if cancelAnchor != "notary" && cancelAnchor != "alphabet" {
				w.t.Fatalf("bad cancel anchor in %q", line)
			}
		}
		var err error
		if cancelAt, err = strconv.Atoi(at); err != nil {
			w.t.Fatalf("bad cancel spec in %q", line)
		}
	}
	timeout := 150 * time.Second
	nd := newNode(w.t, n)
	defer nd.close()
	start := nd.height()
	deadline := time.Now().Add(timeout)
	out := outcome{Names: map[string]string{}}

	delayOf := func(i int) time.Duration {
		if i < len(delays) {
			return time.Duration(delays[i]) * time.Millisecond
		}
		return 0
	}
	ms := make([]*member, n)
	for i := 0; i < n; i++ {
		if !has(absent, i) {
			ms[i] = nd.start(i, delayOf(i))
		}
	}
	fail := func(what, detail string) string {
		for _, m := range ms {
			if m != nil {
				m.cancel()
			}
		}
		last := ""
		for _, m := range ms {
			if m != nil {
				last += fmt.Sprintf(" [%d: %s]", m.idx, m.tap.last)
			}
		}
		w.viol("deploy.Deploy", what, detail+"; last log lines:"+last, line)
		w.run.Count("out.deploy." + what)
		return "HALT ret=" + what
	}
	// a minority of non-leading members stays away until the Notary role is designated
	if len(absent) > 0 {
		// the model needs 5 rounds, a real run 15-30 blocks; 250 blocks also cover one expiry of the shared data (120)
		for !nd.roleIs(noderoles.P2PNotary) {
			if nd.height() > start+250 || time.Now().After(deadline) || nd.prodErr.Load() != nil {
				return fail("bootstrap-stalled", fmt.Sprintf("n=%d absent=%v: Notary role not designated by the majority at height %d (producer: %v)", n, absent, nd.height(), nd.prodErr.Load()))
			}
			time.Sleep(blockEvery / 2)
		}
		for _, i := range absent {
			ms[i] = nd.start(i, delayOf(i))
		}
	}
	// members are cancelled at a given block (or k blocks after a role designation shows on the chain) and restarted
	// with a fresh process state a few blocks later
	if len(cancelWho) > 0 {
		reached := true
		switch cancelAnchor {
		case "":
			reached = nd.waitHeight(start+uint32(cancelAt), deadline)
		default:
			role := noderoles.P2PNotary
			if cancelAnchor == "alphabet" {
				role = noderoles.NeoFSAlphabet
			}
			for !nd.roleIs(role) {
				if nd.height() > start+600 || time.Now().After(deadline) || nd.prodErr.Load() != nil {
					return fail("not-converged", fmt.Sprintf("n=%d: %s role not designated after %d blocks (producer: %v)", n, role, nd.height()-start, nd.prodErr.Load()))
				}
				time.Sleep(2 * time.Millisecond)
			}
			out.AnchorAt = nd.height()
			if cancelAt > 0 {
				reached = nd.waitHeight(out.AnchorAt+uint32(cancelAt), deadline)
			}
		}
		if reached {
			out.CancelledAt = nd.height()
			out.RolesAtCancel = fmt.Sprintf("notary=%v alphabet=%v", nd.roleIs(noderoles.P2PNotary), nd.roleIs(noderoles.NeoFSAlphabet))
			for _, i := range cancelWho {
				if i >= 0 && i < n && ms[i] != nil {
					ms[i].cancel()
				}
			}
			interrupted, finished := 0, 0
			for _, i := range cancelWho {
				if i >= 0 && i < n && ms[i] != nil {
					if err := <-ms[i].res; err == nil {
						finished++
					} else {
						interrupted++
					}
				}
			}
			switch {
			case interrupted == 0:
				out.CancelOutcome = "had finished"
			case finished == 0:
				out.CancelOutcome = "interrupted"
			default:
				out.CancelOutcome = "some interrupted"
			}
			out.RolesAtRestart = ""
			nd.waitHeight(nd.height()+3, deadline)
			out.RolesAtRestart = fmt.Sprintf("notary=%v alphabet=%v", nd.roleIs(noderoles.P2PNotary), nd.roleIs(noderoles.NeoFSAlphabet))
			for _, i := range cancelWho {
				if i >= 0 && i < n {
					ms[i] = nd.start(i, 0)
				}
			}
		}
	}
	// all runs terminate successfully
	// a converging run needs 70-250 blocks; 1200 blocks (or the wall-clock deadline under load) mean it does not converge
	for i, m := range ms {
		returned := false
		for !returned {
			select {
			case err := <-m.res:
				if err != nil {
					out.Errors = append(out.Errors, fmt.Sprintf("member %d: %v", i, err))
				}
				returned = true
			case <-time.After(200 * time.Millisecond):
				if nd.height() > start+1200 || time.Now().After(deadline) || nd.prodErr.Load() != nil {
					return fail("not-converged", fmt.Sprintf("n=%d: member %d has not returned after %d blocks (height %d, producer: %v)", n, i, nd.height()-start, nd.height(), nd.prodErr.Load()))
				}
			}
		}
	}
	if len(out.Errors) > 0 {
		return fail("deploy-error", strings.Join(out.Errors, "; "))
	}
	end := nd.height()
	out.Height = end
	out.Txs = len(nd.txsBetween(start, end))

	// afterwards: roles, NNS id, names, executables
	bad := nd.checkFinal(n, &out, 0)
	// the Notary bootstrap: signatures of the accepted designation
	if n > 1 {
		found, signers, valid := nd.designationTx()
		out.BootSigners = signers
		live := []int{}
		for i := 0; i < n; i++ {
			if !has(absent, i) {
				live = append(live, i)
			}
		}
		okSet := found && valid && len(signers) >= majority(n) && has(signers, 0)
		for i, s := range signers {
			if !has(live, s) || (i > 0 && signers[i-1] >= s) {
				okSet = false
			}
		}
		if !okSet {
			bad = append(bad, fmt.Sprintf("designation transaction found=%v valid=%v signers=%v live=%v", found, valid, signers, live))
		}
	}
	if len(bad) > 0 {
		w.viol("deploy.Deploy", "wrong-final-state", strings.Join(bad, "; "), line)
		w.run.Count("out.deploy.wrong-final-state")
	}
	// running the procedure again on the finished chain deploys, updates, registers and designates nothing
	if rerun {
		nd.waitHeight(end+2, deadline) // let stragglers of the first run (background deposits) settle
		h0 := nd.height()
		before := nd.fingerprint()
		rs := make([]*member, n)
		for i := range rs {
			rs[i] = nd.start(i, 0)
		}
		rdl := time.Now().Add(90 * time.Second)
		for i, m := range rs {
			select {
			case err := <-m.res:
				if err != nil {
					out.RerunErrors = append(out.RerunErrors, fmt.Sprintf("member %d: %v", i, err))
				}
			case <-time.After(time.Until(rdl)):
				for _, m := range rs {
					m.cancel()
				}
				out.RerunErrors = append(out.RerunErrors, fmt.Sprintf("member %d has not returned", i))
			}
		}
		nd.waitHeight(nd.height()+3, deadline) // whatever was sent gets into a block
		h1 := nd.height()
		after := nd.fingerprint()
		for _, k := range hx.SortedKeys(after) {
			if before[k] != after[k] {
				out.RerunChanged = append(out.RerunChanged, fmt.Sprintf("%s: %s -> %s", k, before[k], after[k]))
			}
		}
		for _, k := range hx.SortedKeys(before) {
			if _, ok := after[k]; !ok {
				out.RerunChanged = append(out.RerunChanged, k+" disappeared")
			}
		}
		for _, ti := range nd.txsBetween(h0, h1) {
			if ti.fallback {
				out.RerunFallbacks++ // of Notary requests of the first run (e.g. of the cancelled member); not sent by the second run
				continue
			}
			out.RerunTxs++
			out.RerunKinds = append(out.RerunKinds, ti.kind)
		}
		// what the second run says it sent (its own log): nothing but, possibly, a Notary deposit top-up
		for _, m := range rs {
			m.tap.mu.Lock()
			for msg, k := range m.tap.count {
				if strings.HasPrefix(msg, "sending ") && !strings.Contains(msg, "to the Notary contract") {
					out.RerunSends = append(out.RerunSends, fmt.Sprintf("member %d: %dx %s", m.idx, k, msg))
				}
			}
			m.tap.mu.Unlock()
		}
		sort.Strings(out.RerunSends)
		if len(out.RerunErrors) > 0 {
			w.viol("deploy.Deploy", "rerun-error", strings.Join(out.RerunErrors, "; "), line)
		}
		if len(out.RerunChanged) > 0 || out.RerunTxs > 0 || len(out.RerunSends) > 0 {
			w.viol("deploy.Deploy", "rerun-not-idempotent", fmt.Sprintf("second run: %d transactions in blocks %v, sends logged %v, state changed %v", out.RerunTxs, out.RerunKinds, out.RerunSends, out.RerunChanged), line)
		}
	}
	if out.RerunFallbacks > 0 {
		w.run.Count("out.deploy.rerun-window-saw-fallbacks-of-first-run")
	}
	w.run.Count("out.deploy.converged")
	w.run.Count(fmt.Sprintf("out.deploy.n%d", n))
	if out.CancelOutcome != "" {
		w.run.Count("out.deploy.cancel." + strings.ReplaceAll(out.CancelOutcome, " ", "-"))
	}
	j, _ := json.Marshal(out)
	w.run.Sample(line + "  =>  " + string(j))
	verdict := "ok"
	if len(bad) > 0 {
		verdict = "wrong-final-state"
	}
	rr := "-"
	if rerun {
		rr = fmt.Sprintf("%d/%d", out.RerunTxs, len(out.RerunChanged))
	}
	return fmt.Sprintf("HALT ret=%s | notary=%v alphabet=%v nns1=%v contracts=%d names=%d rerun=%s", verdict, out.Notary, out.Alphabet, out.NNSID1, out.Contracts-1-len(systemNames), len(out.Names), rr)
}

// oldContracts compiles the nine FS-chain contracts of the repository under test in a scratch copy whose
// common.Version is one less than the current one: executables that the procedure has to UPDATE to the supplied ones.
func oldContracts(t testing.TB, cur []contracts.Contract) ([]contracts.Contract, func()) {
	sc, err := chainx.NewScratch()
	if err != nil {
		t.Fatal(err)
	}
	root, err := sc.Dir(common.Version - 1)
	if err != nil {
		sc.Close()
		t.Fatal(err)
	}
	names := []string{"nns", "proxy", "audit", "netmap", "balance", "reputation", "neofsid", "container", "alphabet"}
	out := make([]contracts.Contract, len(names))
	for i, nm := range names {
		p := filepath.Join(root, "contracts", nm)
		ct := neotest.CompileFile(t, util.Uint160{}, p, filepath.Join(p, "config.yml"))
		out[i] = contracts.Contract{NEF: *ct.NEF, Manifest: *ct.Manifest}
		if out[i].Manifest.Name != cur[i].Manifest.Name {
			t.Fatalf("scratch contract %s is named %q, embedded one %q", nm, out[i].Manifest.Name, cur[i].Manifest.Name)
		}
	}
	return out, sc.Close
}

// opUpgrade: the committee first deploys executables of the previous version, then every member runs the procedure
// with the supplied (current) executables: every contract has to be UPDATED exactly once through Notary requests of
// the committee. The second run starts `before` blocks ahead of a multiple of 100 and the members enter it with the
// given delays, so that the update stages straddle a boundary of the nonce/ValidUntilBlock window.
func (w *world) opUpgrade(line string, n int, kv map[string]string) string {
	delays := parseInts(kv["delays"])
	before, _ := strconv.Atoi(kv["before"])
	nd := newNode(w.t, n)
	defer nd.close()
	cur := nd.fsc
	old, cleanup := oldContracts(w.t, cur)
	defer cleanup()
	deadline := time.Now().Add(240 * time.Second)
	fail := func(ms []*member, what, detail string) string {
		last := ""
		for _, m := range ms {
			if m != nil {
				m.tap.mu.Lock()
				last += fmt.Sprintf(" [%d: %s]", m.idx, m.tap.last)
				m.tap.mu.Unlock()
				m.cancel()
			}
		}
		w.viol("deploy.Deploy", what, detail+"; last log lines:"+last, line)
		w.run.Count("out.upgrade." + what)
		return "HALT ret=" + what
	}
	wait := func(ms []*member, phase string, start uint32) (string, bool) {
		var errs []string
		for i, m := range ms {
			returned := false
			for !returned {
				select {
				case err := <-m.res:
					if err != nil {
						errs = append(errs, fmt.Sprintf("member %d: %v", i, err))
					}
					returned = true
				case <-time.After(200 * time.Millisecond):
					if nd.height() > start+1200 || time.Now().After(deadline) || nd.prodErr.Load() != nil {
						return fail(ms, "not-converged", fmt.Sprintf("%s, n=%d: member %d has not returned after %d blocks (height %d, producer: %v)", phase, n, i, nd.height()-start, nd.height(), nd.prodErr.Load())), false
					}
				}
			}
		}
		if len(errs) > 0 {
			return fail(ms, "deploy-error", phase+": "+strings.Join(errs, "; ")), false
		}
		return "", true
	}
	// 1. deployment of the previous version
	nd.fsc = old
	s0 := nd.height()
	ms := make([]*member, n)
	for i := range ms {
		ms[i] = nd.start(i, 0)
	}
	if r, ok := wait(ms, "deployment of the previous version", s0); !ok {
		return r
	}
	var out outcome
	out.Names = map[string]string{}
	if bad := nd.checkFinal(n, &out, 0); len(bad) > 0 {
		w.viol("deploy.Deploy", "wrong-final-state", "after deploying the previous version: "+strings.Join(bad, "; "), line)
		return "HALT ret=wrong-final-state"
	}
	// 2. the procedure with the supplied executables, entered shortly before a multiple of 100
	nd.fsc = cur
	target := (nd.height()/100+1)*100 - uint32(before)
	if target <= nd.height() {
		target += 100
	}
	nd.waitHeight(target, deadline)
	s1 := nd.height()
	for i := range ms {
		d := 0
		if i < len(delays) {
			d = delays[i]
		}
		ms[i] = nd.start(i, time.Duration(d)*time.Millisecond)
	}
	if r, ok := wait(ms, "update to the supplied executables", s1); !ok {
		return r
	}
	end := nd.height()
	out = outcome{Names: map[string]string{}, Height: end}
	bad := nd.checkFinal(n, &out, 1)
	if len(bad) > 0 {
		w.viol("deploy.Deploy", "wrong-final-state", "after the update: "+strings.Join(bad, "; "), line)
		w.run.Count("out.upgrade.wrong-final-state")
	}
	// 3. once more: nothing left to do
	nd.waitHeight(end+2, deadline)
	h0 := nd.height()
	fp := nd.fingerprint()
	for i := range ms {
		ms[i] = nd.start(i, 0)
	}
	if r, ok := wait(ms, "run after the update", h0); !ok {
		return r
	}
	nd.waitHeight(nd.height()+3, deadline)
	var changed []string
	after := nd.fingerprint()
	for _, k := range hx.SortedKeys(after) {
		if fp[k] != after[k] {
			changed = append(changed, fmt.Sprintf("%s: %s -> %s", k, fp[k], after[k]))
		}
	}
	sent := 0
	for _, ti := range nd.txsBetween(h0, nd.height()) {
		if !ti.fallback {
			sent++
		}
	}
	if len(changed) > 0 || sent > 0 {
		w.viol("deploy.Deploy", "rerun-not-idempotent", fmt.Sprintf("run after the update: %d transactions in blocks, state changed %v", sent, changed), line)
	}
	w.run.Count("out.upgrade.converged")
	w.run.Count(fmt.Sprintf("out.upgrade.crossed-window-%v", s1/100 != end/100))
	j, _ := json.Marshal(out)
	w.run.Sample(fmt.Sprintf("%s  =>  second run from height %d to %d: %s", line, s1, end, string(j)))
	verdict := "ok"
	if len(bad) > 0 {
		verdict = "wrong-final-state"
	}
	return fmt.Sprintf("HALT ret=%s | notary=%v alphabet=%v nns1=%v contracts=%d names=%d updated=%v rerun=%d/%d", verdict, out.Notary, out.Alphabet, out.NNSID1,
		out.Contracts-1-len(systemNames), len(out.Names), len(bad) == 0, sent, len(changed))
}

// ---------------------------------------------------------------- schedules

type sched struct {
	kind string
	line string
}

func liveStr(xs []int) string {
	if len(xs) == 0 {
		return "-"
	}
	s := make([]string, len(xs))
	for i, x := range xs {
		s[i] = strconv.Itoa(x)
	}
	return strings.Join(s, ",")
}

func schedules(run *hx.Run) []sched {
	rng := run.Rand(0)
	var out []sched
	delays := func(n int, maxMs int) string {
		d := make([]int, n)
		for i := range d {
			if maxMs > 0 {
				d[i] = rng.IntN(maxMs)
			}
		}
		return liveStr(d)
	}
	// a random minority of non-leading members
	minority := func(n int) []int {
		k := n - majority(n)
		if k == 0 {
			return nil
		}
		k = 1 + rng.IntN(k)
		p := rng.Perm(n - 1)
		var a []int
		for _, x := range p[:k] {
			a = append(a, x+1)
		}
		sort.Ints(a)
		return a
	}
	liveWithout := func(n int, absent []int) []int {
		var l []int
		for i := 0; i < n; i++ {
			if !has(absent, i) {
				l = append(l, i)
			}
		}
		return l
	}
	if run.Tier == "search" {
		// targeted search for a failing schedule after a proof obligation about the bootstrap broke: every exact
		// majority with the leader for n = 2..4, and repeated full bootstraps with three remote signatures (a wrong
		// append order shows only for some Go map iteration orders)
		for n := 2; n <= 4; n++ {
			m := majority(n)
			var rec func(start int, cur []int)
			rec = func(start int, cur []int) {
				if len(cur) == m {
					out = append(out, sched{"wf", fmt.Sprintf("op boot n=%d live=%s", n, liveStr(cur))})
					return
				}
				for j := start; j < n; j++ {
					rec(j+1, append(append([]int{}, cur...), j))
				}
			}
			rec(1, []int{0})
		}
		for i := 0; i < 12; i++ {
			out = append(out, sched{"wf", "op boot n=7 live=0,1,2,3,4,5,6"})
		}
		return out
	}
	if run.Tier != "thorough" {
		out = append(out, sched{"wf", "op deploy n=1 delays=0 absent=- cancel=- rerun=1"})
		ab := minority(3)
		out = append(out, sched{"wf", fmt.Sprintf("op deploy n=3 delays=%s absent=%s cancel=%d@%d rerun=1", delays(3, 400), liveStr(ab), rng.IntN(3), 20+rng.IntN(50))})
		out = append(out, sched{"wf", fmt.Sprintf("op deploy n=2 delays=%s absent=- cancel=0@%d rerun=1", delays(2, 300), 3+rng.IntN(40))})
		out = append(out, sched{"wf", "op boot n=4 live=0,2,3"})
		out = append(out, sched{"wf", "op boot n=2 live=0,1"})
		out = append(out, sched{"nonwf", "op boot n=2 live=0 blocks=40"})
		// restart INSIDE the window between two stages whose pre-checks are read at (re)start: the single member is cancelled
		// at every block from the one that shows the Notary role on the chain until the NeoFSAlphabet role is there as well
		// (the window is two blocks long here; one block beyond it is swept too), and right after the Alphabet designation
		for k := 0; k <= 2; k++ {
			out = append(out, sched{"wf", fmt.Sprintf("op deploy n=1 delays=0 absent=- cancel=0@notary+%d rerun=1", k)})
		}
		out = append(out, sched{"wf", "op deploy n=1 delays=0 absent=- cancel=0@alphabet+0 rerun=1"})
		// the leader down across the validity window of the shared data while the member whose signature is required has
		// already signed: the data is regenerated and the member has to REPLACE its signature record
		out = append(out, sched{"wf", "op boot n=2 live=0,1 leaderdown=+1"})
		return out
	}
	for _, off := range []string{"-1", "0", "+1", "+30"} {
		out = append(out, sched{"wf", "op boot n=2 live=0,1 leaderdown=" + off})
		out = append(out, sched{"wf", "op boot n=3 live=0,1 leaderdown=" + off}) // third member absent: member 1 is required
	}
	out = append(out, sched{"wf", "op boot n=3 live=0,2 leaderdown=+1"})
	out = append(out, sched{"wf", "op boot n=3 live=0,1,2 leaderdown=+1"})
	out = append(out, sched{"wf", "op boot n=5 live=0,1,4 leaderdown=0"})
	// the single member restarted at EVERY block of its run (an uninterrupted run takes about 70 blocks), and at every
	// block of the role windows observed on the chain
	for k := 1; k <= 75; k++ {
		out = append(out, sched{"wf", fmt.Sprintf("op deploy n=1 delays=0 absent=- cancel=0@%d rerun=%d", k, k%2)})
	}
	for k := 0; k <= 4; k++ {
		out = append(out, sched{"wf", fmt.Sprintf("op deploy n=1 delays=0 absent=- cancel=0@notary+%d rerun=1", k)})
	}
	for k := 0; k <= 2; k++ {
		out = append(out, sched{"wf", fmt.Sprintf("op deploy n=1 delays=0 absent=- cancel=0@alphabet+%d rerun=1", k)})
	}
	// ALL members restarted in the window (nobody who ran the pre-checks on the fresh chain is left to do the skipped stage)
	for _, n := range []int{2, 3, 4, 5} {
		for k := 0; k <= 1; k++ {
			out = append(out, sched{"wf", fmt.Sprintf("op deploy n=%d delays=%s absent=- cancel=all@notary+%d rerun=1", n, delays(n, 0), k)})
		}
	}
	out = append(out, sched{"wf", fmt.Sprintf("op deploy n=4 delays=%s absent=- cancel=all@notary+2 rerun=1", delays(4, 200))})
	out = append(out, sched{"wf", fmt.Sprintf("op deploy n=4 delays=%s absent=- cancel=all@alphabet+0 rerun=1", delays(4, 200))})
	out = append(out, sched{"wf", fmt.Sprintf("op deploy n=4 delays=%s absent=- cancel=all@%d rerun=1", delays(4, 200), 10+rng.IntN(60))})
	out = append(out, sched{"wf", fmt.Sprintf("op deploy n=4 delays=%s absent=- cancel=1,2,3@notary+0 rerun=1", delays(4, 200))})
	// outside the property's quantifier, compared with the model only: the designation transaction is lost once;
	// the model says the leader never sends another one (triedDesignateRoleTx is never reset)
	out = append(out, sched{"nonwf", "op boot n=2 live=0,1 lose=1 blocks=330"})
	// the UPDATE path: executables of the previous version are on chain, the members enter the procedure with the
	// supplied ones shortly before a multiple of 100 (boundary of the nonce/ValidUntilBlock window) with seeded delays
	out = append(out, sched{"wf", fmt.Sprintf("op upgrade n=2 delays=0,%d before=%d", 800+rng.IntN(1500), 5+rng.IntN(20))})
	out = append(out, sched{"wf", fmt.Sprintf("op upgrade n=4 delays=%s before=%d", delays(4, 2500), 5+rng.IntN(20))})
	for n := 1; n <= 7; n++ {
		// plain run, all members at once
		out = append(out, sched{"wf", fmt.Sprintf("op deploy n=%d delays=%s absent=- cancel=- rerun=1", n, delays(n, 0))})
		// seeded start order and speed, one absent minority during the bootstrap, one member cancelled and restarted
		for rep := 0; rep < 3; rep++ {
			ab := minority(n)
			out = append(out, sched{"wf", fmt.Sprintf("op deploy n=%d delays=%s absent=%s cancel=%d@%d rerun=1", n, delays(n, 1500), liveStr(ab), rng.IntN(n), 5+rng.IntN(110))})
		}
		if n >= 2 {
			// the leader itself is cancelled early (inside NNS deployment / bootstrap) and late
			out = append(out, sched{"wf", fmt.Sprintf("op deploy n=%d delays=%s absent=- cancel=0@%d rerun=1", n, delays(n, 300), 3+rng.IntN(25))})
			out = append(out, sched{"wf", fmt.Sprintf("op deploy n=%d delays=%s absent=- cancel=%d@%d rerun=0", n, delays(n, 800), rng.IntN(n), 5+rng.IntN(60))})
			// the leader with the LAST majority-minus-one members: the set the pre-fix loop under-read
			if mm := majority(n); mm < n {
				var last []int
				last = append(last, 0)
				for j := n - (mm - 1); j < n; j++ {
					last = append(last, j)
				}
				out = append(out, sched{"wf", fmt.Sprintf("op boot n=%d live=%s", n, liveStr(last))})
			}
			// bootstrap alone: exactly a majority with the leader, the full committee, and sets that cannot finish
			m := majority(n)
			p := rng.Perm(n - 1)
			var s []int
			for _, x := range p[:m-1] {
				s = append(s, x+1)
			}
			s = append(s, 0)
			sort.Ints(s)
			out = append(out, sched{"wf", fmt.Sprintf("op boot n=%d live=%s", n, liveStr(s))})
			// the last member together with the leader: the set the old leader loop never read (F11)
			if m == 2 {
				out = append(out, sched{"wf", fmt.Sprintf("op boot n=%d live=0,%d", n, n-1)})
			}
			out = append(out, sched{"nonwf", fmt.Sprintf("op boot n=%d live=%s blocks=40", n, liveStr(liveWithout(n, []int{0})))}) // no leader
			out = append(out, sched{"nonwf", fmt.Sprintf("op boot n=%d live=%s blocks=40", n, liveStr(s[:len(s)-1]))})             // one short of a majority
		}
	}
	return out
}

func TestRun(t *testing.T) {
	run := hx.Open(t)
	defer run.Close()
	if run.Mode == "replay" {
		var w *world
		for _, l := range run.ReplayLines() {
			if strings.HasPrefix(l, "case ") {
				f := strings.Fields(l)
				w = &world{t: t, run: run, wf: len(f) > 2 && f[2] == "wf"}
				run.Case(f[1], f[2:]...)
				continue
			}
			if w == nil {
				t.Fatal("op before case")
			}
			run.Op(l, w.execOp(l))
		}
		return
	}
	all := schedules(run)
	for i, s := range all {
		if i%run.Shards != run.Shard {
			continue
		}
		w := &world{t: t, run: run, wf: s.kind == "wf"}
		run.Case(fmt.Sprintf("s%d.%d", run.Seed, i), s.kind)
		run.Op(s.line, w.execOp(s.line))
	}
}
