// Correspondence harness for the main-chain governance contracts (C17, C19): NeoFS (both the Notary
// mode and the vote-collecting mode the repository's tests never deploy), Alphabet (emit), Proxy and
// Processing (payment callbacks). This file: actors, tag resolution, shared decoding helpers.
package neofs

import (
	"bytes"
	"fmt"
	"math/big"
	"path/filepath"
	"runtime"
	"sort"
	"strings"
	"testing"

	"github.com/nspcc-dev/neo-go/pkg/core/state"
	"github.com/nspcc-dev/neo-go/pkg/neotest"
	"github.com/nspcc-dev/neo-go/pkg/util"
	"github.com/nspcc-dev/neo-go/pkg/vm/stackitem"

	"verifharness/chainx"
	"verifharness/hx"
)

func thisDir() string {
	_, f, _, _ := runtime.Caller(0)
	return filepath.Dir(f)
}

// actor: a named account of a case. Single-key accounts have a public key; contracts and
// multisignature accounts have none.
type actor struct {
	tag    string
	signer neotest.Signer
	key    []byte
	acc    util.Uint160
}

type actors struct {
	t     testing.TB
	list  []*actor
	byTag map[string]*actor
}

func (a *actors) add(tag string, s neotest.Signer, key []byte, acc util.Uint160) *actor {
	x := &actor{tag, s, key, acc}
	if a.byTag == nil {
		a.byTag = map[string]*actor{}
	}
	if old, ok := a.byTag[tag]; ok {
		*old = *x
		return old
	}
	a.list = append(a.list, x)
	a.byTag[tag] = x
	return x
}

func (a *actors) user(c *chainx.Chain, tag string) *actor {
	u := c.User(tag)
	return a.add(tag, u, u.Account().PublicKey().Bytes(), u.ScriptHash())
}

// tab is the case-line table `tag:key:account` the model resolves op tokens with.
func (a *actors) tab() string {
	var xs []string
	for _, x := range a.list {
		xs = append(xs, fmt.Sprintf("%s:%s:%s", x.tag, hx.Hex(x.key), hx.Hex(x.acc.BytesBE())))
	}
	return strings.Join(xs, ",")
}

// val resolves an op token: `#TAG` public key, `@TAG` account hash, `-` empty, otherwise hex.
func (a *actors) val(tok string) []byte {
	if strings.HasPrefix(tok, "#") {
		x, ok := a.byTag[tok[1:]]
		if !ok {
			a.t.Fatalf("unknown actor %s", tok)
		}
		return x.key
	}
	if strings.HasPrefix(tok, "@") {
		x, ok := a.byTag[tok[1:]]
		if !ok {
			a.t.Fatalf("unknown actor %s", tok)
		}
		return x.acc.BytesBE()
	}
	return hx.UnHex(tok)
}

// show prints a byte string the way both sides do: the tag of a known key (`#TAG`) or account (`@TAG`,
// except the mutable `saddr`), otherwise hex.
func (a *actors) show(b []byte) string {
	for _, x := range a.list {
		if len(b) == 33 && x.key != nil && bytes.Equal(x.key, b) {
			return "#" + x.tag
		}
	}
	for _, x := range a.list {
		if len(b) == 20 && x.tag != "saddr" && bytes.Equal(x.acc.BytesBE(), b) {
			return "@" + x.tag
		}
	}
	return hx.Hex(b)
}

func (a *actors) showItem(it stackitem.Item) string {
	if _, ok := it.(stackitem.Null); ok {
		return "null"
	}
	b, err := it.TryBytes()
	if err != nil {
		return "?" + it.Type().String()
	}
	return a.show(b)
}

func (a *actors) signers(sig string) []neotest.Signer {
	var out []neotest.Signer
	if sig == "-" {
		return out
	}
	seen := map[util.Uint160]bool{}
	for _, tg := range strings.Split(sig, ",") {
		x, ok := a.byTag[tg]
		if !ok || x.signer == nil {
			a.t.Fatalf("unknown signer %s", tg)
		}
		if seen[x.signer.ScriptHash()] {
			continue // the same account twice: one witness
		}
		seen[x.signer.ScriptHash()] = true
		out = append(out, x.signer)
	}
	return out
}

func (a *actors) witnessed(sig string, acc util.Uint160) bool {
	if sig == "-" {
		return false
	}
	for _, tg := range strings.Split(sig, ",") {
		if x, ok := a.byTag[tg]; ok && x.acc == acc {
			return true
		}
	}
	return false
}

// ---- op line attributes ----

// splitOp separates positional words from `k=v` attributes computed by the harness (h, fin, idh, na).
func splitOp(line string) (pos []string, attr map[string]string) {
	attr = map[string]string{}
	for _, w := range strings.Fields(line) {
		if i := strings.IndexByte(w, '='); i > 0 && !strings.HasPrefix(w, "#") && !strings.HasPrefix(w, "@") {
			attr[w[:i]] = w[i+1:]
		} else {
			pos = append(pos, w)
		}
	}
	return
}

// ---- decoding helpers ----

func bytesToInt(b []byte) *big.Int {
	if len(b) == 0 {
		return new(big.Int)
	}
	z, err := stackitem.NewByteArray(b).TryInteger()
	if err != nil {
		panic(err)
	}
	return z
}

func intToBytes(v int64) []byte {
	b, err := stackitem.NewBigInteger(big.NewInt(v)).TryBytes()
	if err != nil {
		panic(err)
	}
	return b
}

func itemBytes(it stackitem.Item) []byte {
	if _, ok := it.(stackitem.Null); ok {
		return nil
	}
	b, err := it.TryBytes()
	if err != nil {
		panic(err)
	}
	return b
}

func itemHex(it stackitem.Item) string {
	if _, ok := it.(stackitem.Null); ok {
		return "null"
	}
	b, err := it.TryBytes()
	if err != nil {
		return "?" + it.Type().String()
	}
	return hx.Hex(b)
}

func itemInt(it stackitem.Item) *big.Int {
	z, err := it.TryInteger()
	if err != nil {
		panic(err)
	}
	return z
}

func sortedHex(xs [][]byte) []string {
	sort.Slice(xs, func(i, j int) bool { return bytes.Compare(xs[i], xs[j]) < 0 })
	out := make([]string, len(xs))
	for i := range xs {
		out[i] = hx.Hex(xs[i])
	}
	return out
}

// gasEvents renders the notifications of one transaction: native GAS/NEO transfers as T(from,to,amt) /
// N(from,to,amt), the events of the contracts under test by name; the transaction hash inside an
// event is compared with the real one and printed symbolically.
func renderEvents(c *chainx.Chain, a *actors, res chainx.Result, own map[util.Uint160]string, evs []state.NotificationEvent) []string {
	var out []string
	itemHex := a.showItem
	for _, e := range evs {
		it, _ := e.Item.Value().([]stackitem.Item)
		switch {
		case e.ScriptHash == c.GAS && e.Name == "Transfer":
			if _, mint := it[0].(stackitem.Null); mint {
				continue // GAS generated by the NEO native for a NEO holder: not an effect of the contracts under test
			}
			out = append(out, fmt.Sprintf("T(%s,%s,%s)", itemHex(it[0]), itemHex(it[1]), itemInt(it[2])))
		case e.ScriptHash == c.NEO && e.Name == "Transfer":
			out = append(out, fmt.Sprintf("N(%s,%s,%s)", itemHex(it[0]), itemHex(it[1]), itemInt(it[2])))
		default:
			if _, ok := own[e.ScriptHash]; !ok {
				continue
			}
			tx := func(x stackitem.Item) string {
				if bytes.Equal(itemBytes(x), res.Tx.BytesBE()) {
					return "tx"
				}
				return "badtx"
			}
			switch e.Name {
			case "Deposit":
				out = append(out, fmt.Sprintf("Deposit(%s,%s,%s,%s)", itemHex(it[0]), itemInt(it[1]), itemHex(it[2]), tx(it[3])))
			case "Withdraw":
				out = append(out, fmt.Sprintf("Withdraw(%s,%s,%s)", itemHex(it[0]), itemInt(it[1]), tx(it[2])))
			case "Cheque":
				out = append(out, fmt.Sprintf("Cheque(%s,%s,%s,%s)", itemHex(it[0]), itemHex(it[1]), itemInt(it[2]), itemHex(it[3])))
			case "AlphabetUpdate":
				var ks []string
				for _, k := range it[1].Value().([]stackitem.Item) {
					ks = append(ks, itemHex(k))
				}
				out = append(out, fmt.Sprintf("AlphabetUpdate(%s,[%s])", itemHex(it[0]), strings.Join(ks, ",")))
			case "SetConfig":
				out = append(out, fmt.Sprintf("SetConfig(%s,%s,%s)", itemHex(it[0]), itemHex(it[1]), itemHex(it[2])))
			default:
				out = append(out, "?"+e.Name)
			}
		}
	}
	return out
}
