package neofs

// The NeoFS main-chain contract deployed in Notary mode or in vote mode (`notaryDisabled = true`),
// with the real Processing contract, n Alphabet actors (plain single-key accounts), users, Inner Ring
// candidates, a stranger and a calling probe contract.

import (
	"bytes"
	"crypto/sha256"
	"fmt"
	"sort"
	"strconv"
	"strings"
	"testing"

	"github.com/nspcc-dev/neo-go/pkg/core/transaction"
	"github.com/nspcc-dev/neo-go/pkg/neotest"
	"github.com/nspcc-dev/neo-go/pkg/util"
	"github.com/nspcc-dev/neo-go/pkg/vm/stackitem"

	"verifharness/chainx"
	"verifharness/hx"
)

const (
	maxAlpha = 7
	nUsers   = 3
	nCands   = 3
)

type mainCfg struct {
	nd    bool
	n     int
	wfee  string // decimal, or "none": key absent
	cfee  string
	light bool // skip the read-API comparison after every block (exhaustive family)
	// cn: size of the CHAIN's committee (default 1). In Notary mode cheque / setConfig / alphabetUpdate ask for the
	// 2cn/3+1 multisignature of neo.GetCommittee() (`cmt`); the cn/2+1 committee majority (`maj`) is another account
	// for every cn outside {1, 2, 4} and is no Alphabet approval
	cn int
}

func (m mainCfg) attrs() []string {
	nd := "0"
	if m.nd {
		nd = "1"
	}
	out := []string{"nd=" + nd, fmt.Sprintf("n=%d", m.n), "wfee=" + m.wfee, "cfee=" + m.cfee}
	if m.light {
		out = append(out, "light=1")
	}
	if m.cn > 1 {
		out = append(out, fmt.Sprintf("cn=%d", m.cn))
	}
	return out
}

func parseMainCfg(attr map[string]string) mainCfg {
	n, _ := strconv.Atoi(attr["n"])
	if n < 1 {
		n = 1
	}
	m := mainCfg{nd: attr["nd"] == "1", n: n, wfee: attr["wfee"], cfee: attr["cfee"], light: attr["light"] == "1"}
	if cn, _ := strconv.Atoi(attr["cn"]); cn > 1 && cn <= 7 {
		m.cn = cn
	}
	if m.wfee == "" {
		m.wfee = "7"
	}
	if m.cfee == "" {
		m.cfee = "11"
	}
	return m
}

// decoded raw storage of the NeoFS contract
type ballot struct {
	id     []byte
	voters [][]byte
	height int64
}

type mainState struct {
	nd      string
	keys    [][]byte
	proc    []byte
	cfg     map[string][]byte // hex key -> value
	cands   [][]byte
	ballots []ballot
	hasBal  bool
	other   []string
	gas     []int64
}

type mainWorld struct {
	t       testing.TB
	run     *hx.Run
	c       *chainx.Chain
	cfg     mainCfg
	act     actors
	neofs   util.Uint160
	proc    util.Uint160
	probe   util.Uint160
	tracked []*actor
	wf      bool
	prev    mainState
	mon     *mainMonitor
	// multisignature signer over a proposed Alphabet list, installed as `saddr` once the update executes
	pendingSaddr neotest.Signer
}

func newMain(t testing.TB, run *hx.Run, mc mainCfg) *mainWorld {
	cn := mc.cn
	if cn < 1 {
		cn = 1
	}
	c := chainx.New(t, cn)
	w := &mainWorld{t: t, run: run, c: c, cfg: mc}
	w.act.t = t
	for i := 0; i < maxAlpha; i++ {
		w.act.user(c, fmt.Sprintf("A%d", i))
	}
	for i := 0; i < nUsers; i++ {
		w.act.user(c, fmt.Sprintf("U%d", i))
	}
	for i := 0; i < nCands; i++ {
		w.act.user(c, fmt.Sprintf("K%d", i))
	}
	w.act.user(c, "S0")
	pr := c.CompileFor("processing")
	nf := c.CompileFor("neofs")
	c.Deploy(pr, []any{nf.Hash})
	var keys []any
	var ks []neotest.SingleSigner
	for i := 0; i < mc.n; i++ {
		a := w.act.byTag[fmt.Sprintf("A%d", i)]
		keys = append(keys, a.key)
		ks = append(ks, a.signer.(neotest.SingleSigner))
	}
	var conf []any
	if mc.wfee != "none" {
		conf = append(conf, []byte("WithdrawFee"), intToBytes(hx.Big(mc.wfee).Int64()))
	}
	if mc.cfee != "none" {
		conf = append(conf, []byte("InnerRingCandidateFee"), intToBytes(hx.Big(mc.cfee).Int64()))
	}
	if conf == nil {
		conf = []any{}
	}
	c.Deploy(nf, []any{mc.nd, pr.Hash, keys, conf})
	pb := c.CompileDirFor(filepath_probe())
	c.Deploy(pb, nil)
	w.neofs, w.proc, w.probe = nf.Hash, pr.Hash, pb.Hash
	w.act.add("self", nil, nil, nf.Hash)
	w.act.add("proc", nil, nil, pr.Hash)
	w.act.add("probe", nil, nil, pb.Hash)
	w.act.add("cmt", c.Alpha, nil, c.Alpha.ScriptHash())
	// the committee-majority account cn/2+1 of the SAME key set (the chain's committee): not the Alphabet account
	// unless both thresholds coincide (cn = 1, 2, 4)
	w.act.add("maj", c.Cmt, nil, c.Cmt.ScriptHash())
	sa := chainx.MultisigOf(mc.n*2/3+1, ks)
	w.act.add("saddr", sa, nil, sa.ScriptHash())
	// the n/2+1 account of the stored keys as deployed (candidate removal asks for their 2n/3+1 account `saddr`)
	sm := chainx.MultisigOf(mc.n/2+1, ks)
	w.act.add("smaj", sm, nil, sm.ScriptHash())
	for _, tg := range []string{"self", "proc", "U0", "U1", "U2", "K0", "K1", "K2", "S0", "A0", "A1", "A2", "A3", "A4", "A5", "A6"} {
		w.tracked = append(w.tracked, w.act.byTag[tg])
	}
	w.prev = w.scan()
	w.mon = newMainMonitor(w)
	return w
}

func filepath_probe() string { return thisDir() + "/../probes/caller" }

func (w *mainWorld) caseAttrs() []string {
	out := []string{"main"}
	if w.wf {
		out = append(out, "wf")
	} else {
		out = append(out, "nonwf")
	}
	out = append(out, w.cfg.attrs()...)
	var ks []string
	for i := 0; i < w.cfg.n; i++ {
		ks = append(ks, fmt.Sprintf("A%d", i))
	}
	var tr []string
	for i, a := range w.tracked {
		tr = append(tr, fmt.Sprintf("%s:%d", a.tag, w.prev.gas[i]))
	}
	out = append(out, "keys="+strings.Join(ks, ","), "tab="+w.act.tab(), "gas="+strings.Join(tr, ","))
	return out
}

// scan decodes the whole contract storage by key family plus the GAS balances of the tracked accounts.
func (w *mainWorld) scan() mainState {
	s := mainState{cfg: map[string][]byte{}, nd: "?"}
	for _, kv := range w.c.Scan(w.neofs) {
		k := string(kv.K)
		switch {
		case k == "alphabet":
			it, err := stackitem.Deserialize(kv.V)
			if err != nil {
				w.t.Fatalf("bad alphabet record %x", kv.V)
			}
			for _, x := range it.Value().([]stackitem.Item) {
				s.keys = append(s.keys, itemBytes(x))
			}
		case k == "processingScriptHash":
			s.proc = kv.V
		case k == "notary":
			s.nd = hx.Hex(kv.V)
		case k == "ballots":
			s.hasBal = true
			it, err := stackitem.Deserialize(kv.V)
			if err != nil {
				w.t.Fatalf("bad ballots record %x", kv.V)
			}
			for _, x := range it.Value().([]stackitem.Item) {
				f := x.Value().([]stackitem.Item)
				b := ballot{id: itemBytes(f[0]), height: itemInt(f[2]).Int64()}
				for _, v := range f[1].Value().([]stackitem.Item) {
					b.voters = append(b.voters, itemBytes(v))
				}
				s.ballots = append(s.ballots, b)
			}
		case strings.HasPrefix(k, "config"):
			s.cfg[hx.Hex(kv.K[6:])] = kv.V
		case strings.HasPrefix(k, "candidates"):
			s.cands = append(s.cands, append([]byte{}, kv.K[10:]...))
			if !bytes.Equal(kv.V, []byte{1}) {
				s.other = append(s.other, fmt.Sprintf("candval:%x", kv.V))
			}
		default:
			s.other = append(s.other, fmt.Sprintf("%x=%x", kv.K, kv.V))
		}
	}
	for _, a := range w.tracked {
		s.gas = append(s.gas, w.c.GASOf(a.acc))
	}
	return s
}

func (s mainState) render(a *actors) string {
	sh := a.show
	var ks, cf, bl, gs, cs []string
	for _, k := range s.keys {
		ks = append(ks, sh(k))
	}
	ck := make([][]byte, 0, len(s.cfg))
	for k := range s.cfg {
		ck = append(ck, hx.UnHex(k))
	}
	for _, k := range sortedHex(ck) {
		cf = append(cf, k+":"+hx.Hex(s.cfg[k]))
	}
	for _, b := range s.ballots {
		var vs []string
		for _, v := range b.voters {
			vs = append(vs, sh(v))
		}
		bl = append(bl, fmt.Sprintf("%s:%d:%s", hx.Hex(b.id), b.height, strings.Join(vs, ",")))
	}
	for _, g := range s.gas {
		gs = append(gs, fmt.Sprint(g))
	}
	bal := "none"
	if s.hasBal {
		bal = "[" + strings.Join(bl, ";") + "]"
	}
	cands := make([][]byte, len(s.cands))
	copy(cands, s.cands)
	for _, k := range sortedHex(cands) {
		cs = append(cs, sh(hx.UnHex(k)))
	}
	o := ""
	if len(s.other) > 0 {
		o = " other=" + strings.Join(s.other, ";")
	}
	return fmt.Sprintf("nd=%s keys=[%s] proc=%s cfg=[%s] cand=[%s] bal=%s gas=[%s]%s", s.nd, strings.Join(ks, ","),
		sh(s.proc), strings.Join(cf, ";"), strings.Join(cs, ","), bal, strings.Join(gs, ","), o)
}

// readAPI compares the contract's read methods with the decoded raw storage; "ok" or a description.
func (w *mainWorld) readAPI(s mainState) string {
	if w.cfg.light {
		return "-"
	}
	var bad []string
	chk := func(name string, got, want string) {
		if got != want {
			bad = append(bad, fmt.Sprintf("%s:%s!=%s", name, got, want))
		}
	}
	list := func(method string) string {
		st, err := w.c.Call(w.neofs, method)
		if err != nil {
			return "err"
		}
		var xs []string
		for _, x := range st[0].Value().([]stackitem.Item) {
			xs = append(xs, itemHex(x.Value().([]stackitem.Item)[0]))
		}
		return strings.Join(xs, ",")
	}
	var ks []string
	for _, k := range s.keys {
		ks = append(ks, hx.Hex(k))
	}
	chk("alphabetList", list("alphabetList"), strings.Join(ks, ","))
	cands := make([][]byte, len(s.cands))
	copy(cands, s.cands)
	chk("innerRingCandidates", list("innerRingCandidates"), strings.Join(sortedHex(cands), ","))
	st, err := w.c.Call(w.neofs, "listConfig")
	if err != nil {
		bad = append(bad, "listConfig:err")
	} else {
		var xs, want []string
		if _, isNull := st[0].(stackitem.Null); !isNull {
			for _, x := range st[0].Value().([]stackitem.Item) {
				f := x.Value().([]stackitem.Item)
				xs = append(xs, itemHex(f[0])+":"+itemHex(f[1]))
			}
		}
		ck := make([][]byte, 0, len(s.cfg))
		for k := range s.cfg {
			ck = append(ck, hx.UnHex(k))
		}
		for _, k := range sortedHex(ck) {
			want = append(want, k+":"+hx.Hex(s.cfg[k]))
		}
		chk("listConfig", strings.Join(xs, ";"), strings.Join(want, ";"))
	}
	for _, k := range []string{"WithdrawFee", "InnerRingCandidateFee"} {
		st, err := w.c.Call(w.neofs, "config", []byte(k))
		got := "err"
		if err == nil {
			got = itemHex(st[0])
		}
		want := "null"
		if v, ok := s.cfg[hx.Hex([]byte(k))]; ok {
			want = hx.Hex(v)
		}
		chk("config."+k, got, want)
	}
	if len(bad) == 0 {
		return "ok"
	}
	sort.Strings(bad)
	return "BAD(" + strings.Join(bad, "|") + ")"
}

// dataArg: `nil` | `b:<hex>` | `i:<int>` | `a` (empty array)
func (w *mainWorld) dataArg(tok string) any {
	switch {
	case tok == "nil":
		return nil
	case tok == "a":
		return []any{}
	case tok == "t":
		return true
	case tok == "f":
		return false
	case strings.HasPrefix(tok, "i:"):
		return hx.Big(tok[2:])
	case strings.HasPrefix(tok, "b:"):
		b := w.act.val(tok[2:])
		if b == nil {
			b = []byte{}
		}
		return b
	}
	w.t.Fatalf("bad data token %q", tok)
	return nil
}

func nz(b []byte) []byte {
	if b == nil {
		return []byte{}
	}
	return b
}

// buildTx turns positional words `op <sig> <method> <args…>` into a transaction (nil for `skip`).
// extra returns the attributes the model needs and only the harness can compute (digests).
func (w *mainWorld) buildTx(pos []string) (tx *transaction.Transaction, extra []string) {
	sig, method, args := pos[1], pos[2], pos[3:]
	signers := w.act.signers(sig)
	v := w.act.val
	switch method {
	case "deposit": // GAS.transfer(from, NeoFS, amount, data)
		tx = w.c.NewTx(signers, w.c.GAS, "transfer", nz(v(args[0])), w.neofs, hx.Big(args[1]), w.dataArg(args[2]))
	case "xfer": // GAS.transfer between plain accounts
		tx = w.c.NewTx(signers, w.c.GAS, "transfer", nz(v(args[0])), nz(v(args[1])), hx.Big(args[2]), nil)
	case "pay": // direct call of the payment callback: via e(ntry script) | p(robe contract)
		cargs := []any{nz(v(args[1])), hx.Big(args[2]), w.dataArg(args[3])}
		if args[0] == "p" {
			tx = w.c.NewTx(signers, w.probe, "call", w.neofs, "onNEP17Payment", cargs)
		} else {
			tx = w.c.NewTx(signers, w.neofs, "onNEP17Payment", cargs...)
		}
	case "withdraw":
		tx = w.c.NewTx(signers, w.neofs, "withdraw", nz(v(args[0])), hx.Big(args[1]))
	case "cheque":
		tx = w.c.NewTx(signers, w.neofs, "cheque", nz(v(args[0])), nz(v(args[1])), hx.Big(args[2]), nz(v(args[3])))
	case "candadd":
		tx = w.c.NewTx(signers, w.neofs, "innerRingCandidateAdd", nz(v(args[0])))
	case "candrm":
		k := nz(v(args[0]))
		d := sha256.Sum256(append(append([]byte{}, k...), []byte("delete")...))
		extra = append(extra, "idh="+hx.Hex(d[:]))
		tx = w.c.NewTx(signers, w.neofs, "innerRingCandidateRemove", k)
	case "aupd":
		var ks []any
		var ss []neotest.SingleSigner
		known := true
		if args[1] != "-" {
			for _, tk := range strings.Split(args[1], ",") {
				ks = append(ks, nz(v(tk)))
				if a, ok := w.act.byTag[strings.TrimPrefix(tk, "#")]; ok && strings.HasPrefix(tk, "#") && a.key != nil {
					ss = append(ss, a.signer.(neotest.SingleSigner))
				} else {
					known = false
				}
			}
		}
		if ks == nil {
			ks = []any{}
		}
		na := "-"
		if known && len(ss) > 0 && distinctSigners(ss) {
			ms := chainx.MultisigOf(len(ss)*2/3+1, ss)
			na = hx.Hex(ms.ScriptHash().BytesBE())
			w.pendingSaddr = ms
		} else {
			w.pendingSaddr = nil
		}
		extra = append(extra, "na="+na)
		tx = w.c.NewTx(signers, w.neofs, "alphabetUpdate", nz(v(args[0])), ks)
	case "setcfg":
		var val any
		if args[2] != "nil" {
			val = nz(v(args[2]))
		}
		tx = w.c.NewTx(signers, w.neofs, "setConfig", nz(v(args[0])), nz(v(args[1])), val)
	default:
		w.t.Fatalf("bad method %q", method)
	}
	return
}

func distinctSigners(ss []neotest.SingleSigner) bool {
	seen := map[util.Uint160]bool{}
	for _, s := range ss {
		if seen[s.ScriptHash()] {
			return false
		}
		seen[s.ScriptHash()] = true
	}
	return true
}

// execGroup executes op lines that share one block (a single `skip` op stands alone) and returns the
// completed op lines (attributes h, fin and digests added) with their observation lines.
func (w *mainWorld) execGroup(lines []string) (outLines, obs []string, post func()) {
	var posts []func()
	post = func() {
		for _, f := range posts {
			f()
		}
	}
	type item struct {
		pos     []string
		attr    map[string]string
		extra   []string
		tx      *transaction.Transaction
		pending neotest.Signer
	}
	items := make([]*item, len(lines))
	var txs []*transaction.Transaction
	for i, l := range lines {
		pos, attr := splitOp(l)
		if len(pos) < 3 || pos[0] != "op" {
			w.t.Fatalf("bad op line %q", l)
		}
		it := &item{pos: pos, attr: attr}
		items[i] = it
		if pos[2] == "skip" {
			if len(lines) != 1 {
				w.t.Fatalf("skip must stand alone")
			}
			k, _ := strconv.Atoi(pos[3])
			for j := 0; j < k; j++ {
				w.c.AddBlock()
			}
			st := w.scan()
			h := int64(w.c.BC.BlockHeight()) - 1
			w.run.Count("op.skip")
			line := fmt.Sprintf("%s h=%d fin=1", strings.Join(pos, " "), h)
			prev := w.prev
			posts = append(posts, func() { w.mon.skip(prev, st) })
			w.prev = st
			return []string{line}, []string{"HALT ret=null ev=[] | " + st.render(&w.act) + " api=" + w.readAPI(st)}, post
		}
		w.pendingSaddr = nil
		it.tx, it.extra = w.buildTx(pos)
		it.pending = w.pendingSaddr
		txs = append(txs, it.tx)
	}
	results := w.c.Exec(txs...)
	st := w.scan()
	own := map[util.Uint160]string{w.neofs: "neofs"}
	for i, it := range items {
		res := results[i]
		method := it.pos[2]
		w.run.Count("op." + method)
		var sb strings.Builder
		evs := renderEvents(w.c, &w.act, res, own, res.Events)
		if !res.Halt {
			sb.WriteString("FAULT")
			evs = nil
			w.run.Count("out.fault." + method)
		} else {
			ret := "null"
			if len(res.Stack) == 1 {
				if _, isNull := res.Stack[0].(stackitem.Null); !isNull {
					if b, err := res.Stack[0].TryBool(); err == nil {
						ret = fmt.Sprint(b)
					} else {
						ret = "?"
					}
				}
			}
			w.run.Count("out.halt." + method)
			fmt.Fprintf(&sb, "HALT ret=%s ev=[%s]", ret, strings.Join(evs, ";"))
			for _, e := range evs {
				if strings.HasPrefix(e, "AlphabetUpdate(") {
					sa := w.act.byTag["saddr"]
					if it.pending != nil {
						sa.signer, sa.acc = it.pending, it.pending.ScriptHash()
					} else {
						sa.signer, sa.acc = nil, util.Uint160{}
					}
				}
			}
		}
		fin := i == len(items)-1
		h := int64(res.Height) - 1
		line := strings.Join(it.pos, " ")
		if _, same := it.attr["blk"]; same && i > 0 {
			line += " blk=s"
		}
		for _, x := range it.extra {
			line += " " + x
		}
		if fin {
			line += fmt.Sprintf(" h=%d fin=1", h)
			sb.WriteString(" | " + st.render(&w.act) + " api=" + w.readAPI(st))
		} else {
			line += fmt.Sprintf(" h=%d fin=0", h)
			sb.WriteString(" | ~")
		}
		outLines = append(outLines, line)
		obs = append(obs, sb.String())
		prev, pos := w.prev, it.pos
		single := len(items) == 1
		posts = append(posts, func() { w.mon.single = single; w.mon.observe(line, pos, h, res, evs, fin, prev, st) })
	}
	w.prev = st
	return
}
