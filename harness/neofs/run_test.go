package neofs

import (
	"strings"
	"testing"

	"verifharness/hx"
)

// world: one deployed case; execGroup runs the op lines of one block.
type world interface {
	// post runs the property monitors; it is called after the op lines have been recorded, so that a
	// monitor report carries the failing op itself
	execGroup(lines []string) (outLines, obs []string, post func())
}

// Case ids carry the deployment parameters (`main~nd=1~n=4~wfee=7~cfee=11~name`), because the check
// framework rebuilds the case line of a replay from the id alone (`case <id> wf`).
func encodeID(kind string, cfg []string, name string) string {
	if _, _, _, ok := decodeID(name); ok {
		return name
	}
	return kind + "~" + strings.Join(cfg, "~") + "~" + name
}

func decodeID(id string) (kind string, attr map[string]string, name string, ok bool) {
	f := strings.Split(id, "~")
	if len(f) < 3 || (f[0] != "main" && f[0] != "gov") {
		return
	}
	attr = map[string]string{}
	for _, x := range f[1 : len(f)-1] {
		if i := strings.IndexByte(x, '='); i > 0 {
			attr[x[:i]] = x[i+1:]
		}
	}
	return f[0], attr, f[len(f)-1], true
}

func isSameBlock(line string) bool {
	_, attr := splitOp(line)
	_, ok := attr["blk"]
	return ok
}

func TestRun(t *testing.T) {
	run := hx.Open(t)
	defer run.Close()
	if run.Mode == "replay" {
		replay(t, run)
		return
	}
	generate(t, run)
}

func replay(t *testing.T, run *hx.Run) {
	var w world
	var sample []string
	lines := run.ReplayLines()
	for i := 0; i < len(lines); i++ {
		l := lines[i]
		if strings.HasPrefix(l, "case ") {
			f := strings.Fields(l)
			if len(f) < 2 {
				t.Fatalf("bad case line %q", l)
			}
			kind, attr, _, ok := decodeID(f[1])
			wf := !strings.Contains(l, " nonwf")
			if !ok {
				if len(f) < 3 {
					t.Fatalf("bad case line %q", l)
				}
				kind = f[2]
				_, attr = splitOp(l)
			}
			switch kind {
			case "main":
				mc := parseMainCfg(attr)
				mw := newMain(t, run, mc)
				mw.wf = wf
				run.Case(encodeID("main", mc.attrs(), f[1]), mw.caseAttrs()...)
				w = mw
			case "gov":
				gc := parseGovCfg(attr)
				gw := newGov(t, run, gc)
				gw.wf = wf
				run.Case(encodeID("gov", gc.attrs(), f[1]), gw.caseAttrs()...)
				w = gw
			default:
				t.Fatalf("unknown case kind %q", kind)
			}
			continue
		}
		if w == nil {
			t.Fatal("op before case")
		}
		grp := []string{l}
		for i+1 < len(lines) && !strings.HasPrefix(lines[i+1], "case ") && isSameBlock(lines[i+1]) && !strings.Contains(l, " skip ") {
			i++
			grp = append(grp, lines[i])
		}
		ol, ob, post := w.execGroup(grp)
		for j := range ol {
			run.Op(ol[j], ob[j])
			if len(sample) < 6 {
				o := ob[j]
				if len(o) > 260 {
					o = o[:260] + "…"
				}
				sample = append(sample, ol[j]+"  =>  "+o)
			}
		}
		post()
	}
	// (stats.json must carry a non-null sample list: checks/flow.py iterates over it)
	run.Sample(strings.Join(sample, "\n"))
}
