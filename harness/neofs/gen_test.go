package neofs

// Seeded generators. Families (env VERIF_KINDS, default all):
//   vote  NeoFS in vote mode, n = 1..7: vote-collected methods with two competing ids per method, voters from
//         the stored keys, strangers, several signers, repeated votes, gaps of 19/20/21 blocks, several votes
//         per block, occasional Alphabet updates and cross-method ids
//   exh   exhaustive voter sequences (voter x id) of bounded length for small n, one sequence per block
//   gas   NeoFS in both modes: deposits/payments with boundary amounts and data shapes, withdraw and candidate
//         fees at the balance boundaries, cheques around the contract balance, fee changes, malformed arguments
//   gov   Alphabet emit with balances 0..10^12 and Inner Ring sizes 1..7, payment callbacks of Alphabet/Proxy/Processing

import (
	"fmt"
	"math/big"
	"math/rand/v2"
	"os"
	"strings"
	"testing"

	"verifharness/hx"
)

// int20: an integer whose NeoVM byte form has 20 bytes (an Integer item of "Hash160 length")
var int20 = new(big.Int).Add(new(big.Int).Lsh(big.NewInt(1), 156), big.NewInt(1))

func kindEnabled(k string) bool {
	v := os.Getenv("VERIF_KINDS")
	if v == "" {
		return true
	}
	for _, x := range strings.Split(v, ",") {
		if x == k {
			return true
		}
	}
	return false
}

func emitGroup(run *hx.Run, w world, grp []string, sample *[]string) {
	ol, ob, post := w.execGroup(grp)
	defer post()
	for j := range ol {
		run.Op(ol[j], ob[j])
		if sample != nil && len(*sample) < 8 {
			o := ob[j]
			if len(o) > 260 {
				o = o[:260] + "…"
			}
			*sample = append(*sample, ol[j]+"  =>  "+o)
		}
	}
}

func generate(t *testing.T, run *hx.Run) {
	thorough := run.Tier == "thorough"
	ci := 0
	caseID := func(kind string) string {
		ci++
		return fmt.Sprintf("%s.s%d.%d.%d", kind, run.Seed, run.Shard, ci)
	}
	if kindEnabled("vote") {
		cases, nops := 9, 70
		if thorough {
			cases, nops = 14, 160
		}
		for i := 0; i < cases; i++ {
			rng := run.Rand(1000 + i)
			n := 1 + (i+run.Shard)%7
			w := newMain(t, run, mainCfg{nd: true, n: n, wfee: "7", cfee: "11"})
			w.wf = true
			run.Case(encodeID("main", w.cfg.attrs(), caseID("vote")), w.caseAttrs()...)
			g := &voteGen{w: w, rng: rng, n: n}
			var sample []string
			for _, l := range []string{"op U0 deposit @U0 100000 nil", "op K0 candadd #K0", "op K1 candadd #K1"} {
				emitGroup(run, w, []string{l}, nil)
			}
			for _, grp := range competingAcceptance(n, i+run.Shard) {
				emitGroup(run, w, grp, nil)
				run.Count("directed.competing-acceptance")
			}
			for j := 0; j < nops; j++ {
				emitGroup(run, w, g.next(), &sample)
			}
			run.Sample(strings.Join(sample, "\n"))
		}
	}
	if kindEnabled("exh") {
		exhaustive(t, run, caseID)
	}
	if kindEnabled("gas") {
		cases, nops := 10, 100
		if thorough {
			cases, nops = 12, 200
		}
		fees := []string{"7", "0", "1", "100000000", "none", "-3", "900000000000", "900000000001"}
		for i := 0; i < cases; i++ {
			rng := run.Rand(2000 + i)
			mc := mainCfg{nd: (i+run.Shard)%2 == 1, n: 1 + rng.IntN(7), wfee: "7", cfee: "11"}
			if i >= 2 {
				mc.wfee, mc.cfee = hx.Pick(rng, fees), hx.Pick(rng, fees)
			}
			if !mc.nd {
				// Notary mode: the Alphabet is the chain's committee; sizes whose n/2+1 majority account differs from the
				// 2n/3+1 Alphabet account (3, 5, 6, 7) and sizes where both coincide (1, 4)
				mc.cn = []int{6, 5, 7, 3, 4, 1}[(i/2+run.Shard)%6]
			}
			w := newMain(t, run, mc)
			w.wf = true
			run.Case(encodeID("main", w.cfg.attrs(), caseID("gas")), w.caseAttrs()...)
			g := &gasGen{w: w, rng: rng}
			var sample []string
			for _, grp := range g.majoritySigner(i + run.Shard) {
				emitGroup(run, w, grp, nil)
				run.Count("directed.majority-signer")
			}
			for _, grp := range g.candidateFees(i + run.Shard) {
				emitGroup(run, w, grp, nil)
				run.Count("directed.candidate-fee")
			}
			for j := 0; j < nops; j++ {
				emitGroup(run, w, g.next(), &sample)
			}
			run.Sample(strings.Join(sample, "\n"))
		}
	}
	if kindEnabled("gov") {
		cases, nops := 7, 120
		if thorough {
			cases, nops = 14, 200
		}
		for i := 0; i < cases; i++ {
			rng := run.Rand(3000 + i)
			n := 1 + (i+run.Shard)%7
			gc := govCfg{n: n, i0: rng.IntN(n), i1: rng.IntN(n)}
			w := newGov(t, run, gc)
			w.wf = true
			run.Case(encodeID("gov", w.cfg.attrs(), caseID("gov")), w.caseAttrs()...)
			g := &govGen{w: w, rng: rng}
			var sample []string
			for _, l := range g.ringVsCommittee() {
				emitGroup(run, w, []string{l}, &sample)
				run.Count("directed.ring-vs-committee")
			}
			for j := 0; j < nops; j++ {
				emitGroup(run, w, []string{g.next()}, &sample)
			}
			run.Sample(strings.Join(sample, "\n"))
		}
	}
}

// ---------------------------------------------------------------- vote mode

type voteGen struct {
	w   *mainWorld
	rng *rand.Rand
	n   int
}

func (g *voteGen) storedTags() []string {
	var out []string
	for _, k := range g.w.prev.keys {
		s := g.w.act.show(k)
		if strings.HasPrefix(s, "#") {
			out = append(out, s[1:])
		}
	}
	if len(out) == 0 {
		out = []string{"A0"}
	}
	return out
}

func (g *voteGen) voter() string {
	st := g.storedTags()
	r := g.rng.IntN(100)
	switch {
	case r < 74:
		return hx.Pick(g.rng, st)
	case r < 82:
		return hx.Pick(g.rng, []string{"S0", "U0", "-", fmt.Sprintf("A%d", g.rng.IntN(maxAlpha)), "K0"})
	case r < 92:
		return hx.Pick(g.rng, st) + "," + hx.Pick(g.rng, st)
	default:
		return "S0," + hx.Pick(g.rng, st)
	}
}

func (g *voteGen) voteOp() string {
	v := g.voter()
	r := g.rng.IntN(100)
	switch {
	case r < 30:
		id := hx.Pick(g.rng, []string{"c1", "c2"})
		if g.rng.IntN(15) == 0 {
			id = "01" // the id of a setConfig decision: ballots are keyed by id only
		}
		amt := "50"
		switch g.rng.IntN(12) {
		case 0:
			amt = fmt.Sprint(g.w.prev.gas[0] + 1)
		case 1:
			amt = "0"
		case 2:
			amt = "77"
		}
		user := "@U1"
		if g.rng.IntN(12) == 0 {
			user = hx.Pick(g.rng, []string{"@U2", "@self", "0102"})
		}
		return fmt.Sprintf("op %s cheque %s %s %s bb", v, id, user, amt)
	case r < 60:
		id := hx.Pick(g.rng, []string{"01", "02"})
		key, val := "6b", hx.Pick(g.rng, []string{"76", "77"})
		if g.rng.IntN(10) == 0 {
			key, val = hx.Hex([]byte("WithdrawFee")), hx.Pick(g.rng, []string{"09", "-", "00"})
		}
		if g.rng.IntN(25) == 0 {
			val = "nil"
		}
		return fmt.Sprintf("op %s setcfg %s %s %s", v, id, key, val)
	case r < 78:
		k := hx.Pick(g.rng, []string{"#K0", "#K1"})
		if g.rng.IntN(10) == 0 {
			return fmt.Sprintf("op %s candrm %s", k[1:], k) // the candidate itself
		}
		if g.rng.IntN(10) == 0 {
			return fmt.Sprintf("op %s candadd %s", k[1:], k)
		}
		return fmt.Sprintf("op %s candrm %s", v, k)
	case r < 88:
		id := hx.Pick(g.rng, []string{"a1", "a2"})
		st := g.storedTags()
		var list []string
		switch g.rng.IntN(8) {
		case 0: // drop the last key
			if len(st) > 1 {
				st = st[:len(st)-1]
			}
		case 1: // add one
			st = append(st, fmt.Sprintf("A%d", g.rng.IntN(maxAlpha)))
		case 2:
			g.rng.Shuffle(len(st), func(i, j int) { st[i], st[j] = st[j], st[i] })
		}
		for _, t := range st {
			list = append(list, "#"+t)
		}
		ks := strings.Join(list, ",")
		switch g.rng.IntN(30) {
		case 0:
			ks = "-"
		case 1:
			ks += ",0102"
		}
		return fmt.Sprintf("op %s aupd %s %s", v, id, ks)
	case r < 94:
		return fmt.Sprintf("op U0 withdraw @U0 %d", g.rng.IntN(3))
	default:
		return fmt.Sprintf("op U0 deposit @U0 %d nil", 1+g.rng.IntN(500))
	}
}

func (g *voteGen) next() []string {
	if g.rng.IntN(100) < 10 {
		return []string{fmt.Sprintf("op - skip %d", hx.Pick(g.rng, []int{18, 19, 20, 21, 18, 19, 20, 21, 1, 2, 5, 40}))}
	}
	// a vote round: the same decision voted by several members, in separate blocks or in one block
	if g.rng.IntN(100) < 35 {
		base := g.voteOp()
		f := strings.Fields(base)
		st := g.storedTags()
		g.rng.Shuffle(len(st), func(i, j int) { st[i], st[j] = st[j], st[i] })
		k := 1 + g.rng.IntN(len(st))
		var grp []string
		for i := 0; i < k && i < 5; i++ {
			f[1] = st[i]
			l := strings.Join(f, " ")
			if i > 0 {
				l += " blk=s"
			}
			grp = append(grp, l)
		}
		return grp
	}
	k := 1
	if g.rng.IntN(100) < 25 {
		k = 2 + g.rng.IntN(3)
	}
	var grp []string
	for i := 0; i < k; i++ {
		l := g.voteOp()
		if i > 0 {
			l += " blk=s"
		}
		grp = append(grp, l)
	}
	return grp
}

// competingAcceptance: directed histories inside C17's quantifier (two competing ids, several votes per block,
// gaps at the window). Decision B collects threshold-1 votes in block h; decision A collects threshold-1 votes in
// block h+1 and is accepted in the block at height h+gap, gap in {19,20,21}; in that SAME block B receives its
// threshold-th distinct vote, after or before A's accepting vote. B must fire for gaps 19 and 20 (whatever happens
// to A in that block) and must start a new ballot for gap 21.
func competingAcceptance(n, variant int) (groups [][]string) {
	thr := n*2/3 + 1
	if thr < 2 {
		return nil
	}
	mk := func(method, id string, voter, k int) string {
		switch method {
		case "cheque":
			return fmt.Sprintf("op A%d cheque %s @U1 %d bb", voter, id, 3+k)
		case "aupd": // the same list again: executes, keys unchanged
			var ks []string
			for i := 0; i < n; i++ {
				ks = append(ks, fmt.Sprintf("#A%d", i))
			}
			return fmt.Sprintf("op A%d aupd %s %s", voter, id, strings.Join(ks, ","))
		}
		return fmt.Sprintf("op A%d setcfg %s 6d %02x", voter, id, 0x40+k)
	}
	same := func(ls []string) []string {
		for i := 1; i < len(ls); i++ {
			ls[i] += " blk=s"
		}
		return ls
	}
	k := 0
	for _, gap := range []int{20, 19, 21} {
		for _, bAfter := range []bool{true, false} {
			k++
			mA := []string{"setcfg", "cheque", "aupd"}[(k+variant)%3]
			mB := []string{"cheque", "setcfg"}[(k+variant/3)%2]
			idA, idB := fmt.Sprintf("da%02x", k), fmt.Sprintf("db%02x", k)
			var bVotes, aVotes []string
			for v := 0; v < thr-1; v++ {
				bVotes = append(bVotes, mk(mB, idB, v, k))
				aVotes = append(aVotes, mk(mA, idA, v, k))
			}
			last := []string{mk(mA, idA, thr-1, k), mk(mB, idB, thr-1, k)}
			if !bAfter {
				last[0], last[1] = last[1], last[0]
			}
			groups = append(groups, same(bVotes), same(aVotes), []string{fmt.Sprintf("op - skip %d", gap-2)}, same(last))
		}
	}
	return
}

// exhaustive: every sequence over (voter, id) of length <= L for n <= N, one sequence per block, fresh ids per
// sequence so that one deployment serves many sequences (earlier ballots stay around until they expire).
func exhaustive(t *testing.T, run *hx.Run, caseID func(string) string) {
	maxN, maxL := 2, 4
	if run.Tier == "thorough" {
		maxN, maxL = 4, 6
	}
	const perChain = 1500
	for n := 1; n <= maxN; n++ {
		voters := []string{"S0"}
		for i := 0; i < n; i++ {
			voters = append(voters, fmt.Sprintf("A%d", i))
		}
		base := len(voters) * 2
		L := maxL
		if n == 4 && L > 5 {
			L = 5 // 10^5 sequences of 5 votes; length 6 is covered for n <= 3
		}
		var w *mainWorld
		inChain := 0
		seq := 0
		for l := 1; l <= L; l++ {
			total := 1
			for i := 0; i < l; i++ {
				total *= base
			}
			for x := 0; x < total; x++ {
				seq++
				if seq%run.Shards != run.Shard {
					continue
				}
				if w == nil || inChain >= perChain {
					w = newMain(t, run, mainCfg{nd: true, n: n, wfee: "7", cfee: "11", light: true})
					w.wf = true
					run.Case(encodeID("main", w.cfg.attrs(), caseID(fmt.Sprintf("exh%d", n))), w.caseAttrs()...)
					emitGroup(run, w, []string{"op U0 deposit @U0 100000000 nil"}, nil)
					inChain = 0
				}
				inChain++
				var grp []string
				y := x
				for i := 0; i < l; i++ {
					c := y % base
					y /= base
					id := fmt.Sprintf("%08x%02x", seq, 1+c%2)
					var line string
					if seq%2 == 0 {
						line = fmt.Sprintf("op %s setcfg %s 6b %02x", voters[c/2], id, 1+i)
					} else {
						line = fmt.Sprintf("op %s cheque %s @U1 %d bb", voters[c/2], id, 1+i)
					}
					if i > 0 {
						line += " blk=s"
					}
					grp = append(grp, line)
				}
				emitGroup(run, w, grp, nil)
				run.Count("exh.sequences")
			}
		}
	}
}

// ---------------------------------------------------------------- GAS accounting

type gasGen struct {
	w     *mainWorld
	rng   *rand.Rand
	round []string // pending votes of a decision in vote mode
}

func (g *gasGen) bal(tag string) int64 {
	for i, a := range g.w.tracked {
		if a.tag == tag {
			return g.w.prev.gas[i]
		}
	}
	return 0
}

func (g *gasGen) fee(name string) int64 {
	v, ok := g.w.prev.cfg[hx.Hex([]byte(name))]
	if !ok || len(v) > 8 {
		return 0
	}
	return bytesToInt(v).Int64()
}

func (g *gasGen) data() string {
	return hx.Pick(g.rng, []string{"nil", "nil", "nil", "b:-", "b:@U1", "b:@U1", "b:@self", "b:570b", "b:0102",
		"b:" + strings.Repeat("ab", 19), "b:" + strings.Repeat("ab", 21), "b:570b00", "i:0", "i:5", "i:2903",
		"i:" + int20.String(), "a", "t"})
}

func (g *gasGen) amount(tag string) string {
	b := g.bal(tag)
	return fmt.Sprint(hx.Pick(g.rng, []int64{0, 1, 2, -1, maxDeposit - 1, maxDeposit, maxDeposit + 1, maxDeposit, 1000, 100000,
		int64(g.rng.IntN(1000000)), int64(g.rng.IntN(1000000)), b, b + 1, b - 1}))
}

// alphaRound: the op voted by enough stored Alphabet members (vote mode) or signed by the multisignature
func (g *gasGen) alpha(method, rest string, cand bool) []string {
	if !g.w.cfg.nd {
		sig := "cmt"
		if cand {
			sig = "saddr"
			if g.w.act.byTag["saddr"].signer == nil {
				sig = "cmt"
			}
		}
		switch g.rng.IntN(10) {
		case 0:
			sig = hx.Pick(g.rng, []string{"-", "S0", "A0", "cmt", "saddr", "maj", "smaj", "maj,smaj"})
			if sig == "saddr" && g.w.act.byTag["saddr"].signer == nil {
				sig = "-"
			}
		case 1: // the n/2+1 majority account of the key set the method asks the 2n/3+1 account of, alone or next to a user
			sig = "maj"
			if cand {
				sig = "smaj"
			}
			if g.rng.IntN(3) == 0 {
				sig += "," + hx.Pick(g.rng, []string{"S0", "U1", "A0"})
			}
		}
		return []string{fmt.Sprintf("op %s %s %s", sig, method, rest)}
	}
	var st []string
	for _, k := range g.w.prev.keys {
		if s := g.w.act.show(k); strings.HasPrefix(s, "#") {
			st = append(st, s[1:])
		}
	}
	thr := len(g.w.prev.keys)*2/3 + 1
	// mostly exactly the threshold; sometimes one vote short (the ballot stays pending), sometimes the remaining
	// members vote late, after the decision has executed (each late vote must open a new ballot, pay nothing)
	k := thr
	switch g.rng.IntN(10) {
	case 0, 1:
		k = thr - 1
	case 2, 3, 4:
		k = len(st)
	}
	g.rng.Shuffle(len(st), func(i, j int) { st[i], st[j] = st[j], st[i] })
	var grp []string
	for i := 0; i < k && i < len(st); i++ {
		l := fmt.Sprintf("op %s %s %s", st[i], method, rest)
		if i > 0 && g.rng.IntN(2) == 0 {
			l += " blk=s"
		}
		grp = append(grp, l)
	}
	if len(grp) == 0 {
		grp = []string{fmt.Sprintf("op S0 %s %s", method, rest)}
	}
	return grp
}

var gasID int

// candidateFees: directed histories inside C19's quantifier ("fee settings", "candidate operations"): the Alphabet
// sets InnerRingCandidateFee to 0, 9000 GAS + 1 and one of {1, 9000 GAS, 20 000 GAS}, and after each setting a
// candidate holding 100 000 GAS registers (and withdraws its candidacy again): exactly the configured fee is charged.
func (g *gasGen) candidateFees(variant int) (groups [][]string) {
	key := hx.Hex([]byte("InnerRingCandidateFee"))
	fees := []int64{0, maxDeposit + 1, []int64{1, maxDeposit, 2000000000000}[variant%3]}
	for i, fee := range fees {
		gasID++
		groups = append(groups, g.alphaExact("setcfg", fmt.Sprintf("%04x %s %s", gasID, key, hx.Hex(intToBytes(fee)))))
		k := fmt.Sprintf("K%d", (i+variant)%nCands)
		groups = append(groups, []string{fmt.Sprintf("op %s candadd #%s", k, k)}, []string{fmt.Sprintf("op %s candrm #%s", k, k)})
	}
	return
}

// majoritySigner: directed histories inside C19's quantifier ("sequences of deposit/withdraw/cheque/candidate
// operations", "fee settings") for Notary mode. The contract is funded, then every Alphabet-gated operation is
// requested under exactly the n/2+1 majority account of the key set whose 2n/3+1 account it asks for — the chain's
// committee for cheque / setConfig / alphabetUpdate (`maj` vs `cmt`), the stored keys for a candidate removal (`smaj`
// vs `saddr`) — alone and next to an unrelated user; then under the right account. For key sets of 3, 5, 6, 7 members
// the majority account is no Alphabet approval: nothing may be paid or configured; for 1, 2, 4 members it is the same
// account.
func (g *gasGen) majoritySigner(variant int) (groups [][]string) {
	if g.w.cfg.nd {
		return nil
	}
	var ks []string
	for i := 0; i < g.w.cfg.n; i++ {
		ks = append(ks, fmt.Sprintf("#A%d", i))
	}
	one := func(l string) { groups = append(groups, []string{l}) }
	id := func() string { gasID++; return fmt.Sprintf("%04x", gasID) }
	user := []string{"S0", "U2", "A0"}[variant%3]
	one("op U0 deposit @U0 100000 nil")
	one("op K0 candadd #K0")
	for _, sig := range []string{"maj", "maj," + user} {
		one(fmt.Sprintf("op %s cheque %s @U1 %d bb", sig, id(), 50+variant%7))
		one(fmt.Sprintf("op %s setcfg %s 6d 41", sig, id()))
		one(fmt.Sprintf("op %s setcfg %s %s 09", sig, id(), hx.Hex([]byte("WithdrawFee"))))
		one(fmt.Sprintf("op %s aupd %s %s", sig, id(), strings.Join(ks, ",")))
	}
	one("op smaj candrm #K0")
	one(fmt.Sprintf("op smaj,%s candrm #K0", user))
	one(fmt.Sprintf("op cmt cheque %s @U1 %d bb", id(), 60+variant%7))
	one(fmt.Sprintf("op cmt setcfg %s 6d 42", id()))
	one("op saddr candrm #K0")
	return
}

// alphaExact: the decision approved by exactly the needed Alphabet votes (vote mode, one block) or the multisignature
func (g *gasGen) alphaExact(method, rest string) []string {
	if !g.w.cfg.nd {
		return []string{fmt.Sprintf("op cmt %s %s", method, rest)}
	}
	thr := g.w.cfg.n*2/3 + 1
	var grp []string
	for i := 0; i < thr; i++ {
		l := fmt.Sprintf("op A%d %s %s", i, method, rest)
		if i > 0 {
			l += " blk=s"
		}
		grp = append(grp, l)
	}
	return grp
}

func (g *gasGen) next() []string {
	users := []string{"U0", "U1", "U2"}
	u := hx.Pick(g.rng, users)
	sigOf := func(owner string) string {
		switch g.rng.IntN(12) {
		case 0:
			return "-"
		case 1:
			return hx.Pick(g.rng, []string{"S0", "U0", "U1", "cmt"})
		case 2:
			return owner + ",S0"
		}
		return owner
	}
	addr := func(tag string) string {
		if g.rng.IntN(25) == 0 {
			return hx.Pick(g.rng, []string{"-", "0102", strings.Repeat("cd", 19), strings.Repeat("cd", 21), "#U0"})
		}
		return "@" + tag
	}
	gasID++
	id := fmt.Sprintf("%04x", gasID)
	r := g.rng.IntN(100)
	n := int64(len(g.w.prev.keys))
	switch {
	case r < 22:
		return []string{fmt.Sprintf("op %s deposit %s %s %s", sigOf(u), addr(u), g.amount(u), g.data())}
	case r < 28:
		return []string{fmt.Sprintf("op %s pay %s %s %s %s", sigOf(u), hx.Pick(g.rng, []string{"e", "p"}), addr(u), g.amount(u), g.data())}
	case r < 36: // bring an account to a boundary of what the next fee needs
		who := hx.Pick(g.rng, []string{"U2", "K2"})
		need := g.fee("WithdrawFee")
		if g.w.cfg.nd {
			need *= n
		}
		if who == "K2" {
			need = g.fee("InnerRingCandidateFee")
		}
		target := need + hx.Pick(g.rng, []int64{-1, 0, 1, -need / 2, 5})
		if target < 0 {
			target = 0
		}
		d := g.bal(who) - target
		if d <= 0 {
			return []string{fmt.Sprintf("op S0 xfer @S0 @%s %d", who, -d)}
		}
		return []string{fmt.Sprintf("op %s xfer @%s @S0 %d", who, who, d)}
	case r < 40:
		to := hx.Pick(g.rng, []string{"@U1", "@S0", "@proc", "@probe", "@self", "@" + u, "0102"})
		return []string{fmt.Sprintf("op %s xfer %s %s %s", sigOf(u), addr(u), to, g.amount(u))}
	case r < 56:
		amt := hx.Pick(g.rng, []string{"0", "1", "5", "9000", "9001", "-1", "8999", "12"})
		return []string{fmt.Sprintf("op %s withdraw %s %s", sigOf(u), addr(u), amt)}
	case r < 66:
		k := hx.Pick(g.rng, []string{"K0", "K1", "K2"})
		key := "#" + k
		if g.rng.IntN(20) == 0 {
			key = hx.Pick(g.rng, []string{"0102", "-", "05" + strings.Repeat("11", 32), "@K0"})
		}
		return []string{fmt.Sprintf("op %s candadd %s", sigOf(k), key)}
	case r < 74:
		k := hx.Pick(g.rng, []string{"K0", "K1", "K2"})
		if g.rng.IntN(3) == 0 {
			return []string{fmt.Sprintf("op %s candrm #%s", sigOf(k), k)}
		}
		return g.alpha("candrm", "#"+k, true)
	case r < 88:
		sb := g.bal("self")
		amt := hx.Pick(g.rng, []int64{0, 1, sb - 1, sb, sb + 1, -1, sb / 2, 50, 50})
		user := hx.Pick(g.rng, []string{"@U1", "@U1", "@U0", "@self", "@proc", "@probe", "0102", "-"})
		return g.alpha("cheque", fmt.Sprintf("%s %s %d %s", id, user, amt, hx.Pick(g.rng, []string{"bb", "-", "@U1"})), false)
	case r < 95:
		key := hx.Hex([]byte(hx.Pick(g.rng, []string{"WithdrawFee", "InnerRingCandidateFee", "k"})))
		val := hx.Pick(g.rng, []string{"-", "00", "01", "07", "ff", "0001", "00e1f505", strings.Repeat("01", 32), strings.Repeat("01", 33), "nil"})
		switch g.rng.IntN(12) {
		case 0:
			key = strings.Repeat("6b", 58)
		case 1:
			key = strings.Repeat("6b", 59)
		case 2:
			key = "-"
		}
		return g.alpha("setcfg", fmt.Sprintf("%s %s %s", id, key, val), false)
	case r < 98:
		var list []string
		k := 1 + g.rng.IntN(maxAlpha)
		for i := 0; i < k; i++ {
			list = append(list, fmt.Sprintf("#A%d", (i+g.rng.IntN(2))%maxAlpha))
		}
		if g.rng.IntN(6) == 0 {
			list = append(list, hx.Pick(g.rng, []string{"0102", "05" + strings.Repeat("11", 32)}))
		}
		return g.alpha("aupd", fmt.Sprintf("%s %s", id, strings.Join(list, ",")), false)
	default:
		return []string{"op - skip 1"}
	}
}

// ---------------------------------------------------------------- Alphabet emit and callbacks

type govGen struct {
	w   *govWorld
	rng *rand.Rand
}

func (g *govGen) bal(tag string) int64 {
	for i, a := range g.w.gasTrack {
		if a.tag == tag {
			return g.w.prev.gas[i]
		}
	}
	return 0
}

// ring: a NeoFSAlphabet role list of 1..7 keys. The Inner Ring is designated independently of the committee, so the
// lists cover: non-committee nodes only, exactly the committee, the committee plus extra nodes whose keys sort before /
// after / around the committee keys, and arbitrary mixtures (the role list is kept sorted by key by the native contract,
// so extra nodes with smaller keys shift the committee members away from their Alphabet index).
func (g *govGen) ring() []string {
	w := g.w
	var cm, before, after, mid []string
	for i := 0; i < w.cfg.n; i++ {
		cm = append(cm, fmt.Sprintf("M%d", i))
	}
	for i := 0; i < nIR; i++ {
		t := fmt.Sprintf("I%d", i)
		lo, hi := true, true
		for _, m := range cm {
			if w.keyCmp(t, m) > 0 {
				lo = false
			}
			if w.keyCmp(t, m) < 0 {
				hi = false
			}
		}
		switch {
		case lo:
			before = append(before, t)
		case hi:
			after = append(after, t)
		default:
			mid = append(mid, t)
		}
	}
	pick := func(pool []string, k int) []string {
		p := append([]string{}, pool...)
		g.rng.Shuffle(len(p), func(i, j int) { p[i], p[j] = p[j], p[i] })
		if k > len(p) {
			k = len(p)
		}
		return p[:k]
	}
	all := append(append(append([]string{}, before...), mid...), after...)
	var tags []string
	room := nIR - len(cm)
	switch g.rng.IntN(8) {
	case 0, 1: // non-committee nodes only
		tags = pick(all, 1+g.rng.IntN(nIR))
	case 2: // exactly the committee
		tags = cm
	case 3: // the committee and extra nodes with smaller keys
		tags = append(append([]string{}, cm...), pick(before, 1+g.rng.IntN(room+1))...)
	case 4: // the committee and extra nodes with larger keys
		tags = append(append([]string{}, cm...), pick(after, 1+g.rng.IntN(room+1))...)
	case 5: // the committee and any extra nodes
		tags = append(append([]string{}, cm...), pick(all, 1+g.rng.IntN(room+1))...)
	default: // any mixture
		tags = pick(append(append([]string{}, cm...), all...), 1+g.rng.IntN(nIR))
	}
	if len(tags) > nIR {
		tags = tags[:nIR]
	}
	if len(tags) == 0 {
		tags = []string{"I0"}
	}
	out := make([]string, len(tags))
	for i, t := range tags {
		out[i] = "#" + t
	}
	return out
}

// ringVsCommittee: directed histories inside C19's quantifier ("Inner Ring sizes 1..7", emit): instance a0 is funded and
// the role list is set to (1) non-committee nodes only, (2) the committee plus extra nodes, (3) exactly the committee;
// under each list the emission is requested by the Inner Ring node sitting at the contract's Alphabet index, by another
// Alphabet node, by a stranger, and by the contract's own Alphabet node: only the last one may trigger it, and it must.
func (g *govGen) ringVsCommittee() (ops []string) {
	w := g.w
	idx := w.cfg.i0
	own := fmt.Sprintf("M%d", idx)
	var cm, is []string
	for i := 0; i < w.cfg.n; i++ {
		cm = append(cm, fmt.Sprintf("#M%d", i))
	}
	for i := 0; i < nIR; i++ {
		is = append(is, fmt.Sprintf("#I%d", i))
	}
	k := idx + 1 + g.rng.IntN(nIR-idx)
	lists := [][]string{is[:k], append(append([]string{}, cm...), is[:nIR-len(cm)]...), cm}
	for _, l := range lists {
		if len(l) == 0 {
			continue
		}
		sorted := w.sortKeyTags(l)
		ops = append(ops, fmt.Sprintf("op F fund @F @a0 %d", 1000+g.rng.IntN(1000)), "op cmt desig "+strings.Join(l, ","))
		if idx < len(sorted) && sorted[idx][1:] != own {
			ops = append(ops, fmt.Sprintf("op %s emit @a0", sorted[idx][1:]))
		}
		if w.cfg.n > 1 {
			ops = append(ops, fmt.Sprintf("op M%d emit @a0", (idx+1)%w.cfg.n))
		}
		ops = append(ops, "op S0 emit @a0", fmt.Sprintf("op %s emit @a0", own))
	}
	return
}

func (g *govGen) next() string {
	w := g.w
	r := g.rng.IntN(100)
	inst := hx.Pick(g.rng, []string{"a0", "a0", "a0", "a1", "a1", "aX", "aN"})
	switch {
	case r < 12 || len(w.prev.ir) == 0 && r < 40:
		sig := "cmt"
		list := strings.Join(g.ring(), ",")
		switch g.rng.IntN(14) {
		case 0:
			sig = hx.Pick(g.rng, []string{"S0", "-", "M0"})
		case 1:
			list = "-"
		}
		return fmt.Sprintf("op %s desig %s", sig, list)
	case r < 40: // bring an instance to a chosen balance
		cur := g.bal(inst)
		target := hx.Pick(g.rng, []int64{0, 1, 2, 3, 4, 5, 7, 8, 9, 15, 16, 17, 31, 32, 33, 100, 1000, int64(g.rng.IntN(100000)),
			1000000 + int64(g.rng.IntN(1000)), 1000000000, 999999999999, 1000000000000, int64(g.rng.Uint64() % 1000000000000)})
		d := target - cur
		if d <= 0 {
			d = int64(g.rng.IntN(40))
		}
		sig := "F"
		if g.rng.IntN(15) == 0 {
			sig = hx.Pick(g.rng, []string{"-", "S0"})
		}
		if g.rng.IntN(20) == 0 {
			d = -d
		}
		return fmt.Sprintf("op %s fund @F @%s %d", sig, inst, d)
	case r < 78:
		idx := -1
		for _, in := range w.insts {
			if in.tag == inst {
				idx = in.index
			}
		}
		sig := "-"
		switch x := g.rng.IntN(12); {
		case x < 5 && idx >= 0 && idx < w.cfg.n: // its own Alphabet node
			sig = fmt.Sprintf("M%d", idx)
		case x < 7 && idx >= 0 && idx < len(w.prev.ir): // the Inner Ring node that sits at the contract's index
			sig = w.prev.ir[idx][1:]
		case x < 8: // some Alphabet node
			sig = fmt.Sprintf("M%d", g.rng.IntN(w.cfg.n))
		case x < 9:
			var all []string
			for i := 0; i < w.cfg.n; i++ {
				all = append(all, fmt.Sprintf("M%d", i))
			}
			sig = strings.Join(all, ",")
		case x < 10: // every Inner Ring node that is not the contract's own Alphabet node
			var all []string
			for _, t := range w.prev.ir {
				if t[1:] != fmt.Sprintf("M%d", idx) {
					all = append(all, t[1:])
				}
			}
			if len(all) > 0 {
				sig = strings.Join(all, ",")
			}
		case x < 11:
			sig = hx.Pick(g.rng, []string{"S0", "cmt", "val", "I0"})
		}
		return fmt.Sprintf("op %s emit @%s", sig, inst)
	case r < 84:
		return fmt.Sprintf("op F fund @F @%s %d", hx.Pick(g.rng, []string{"proxy", "proc", "aX", "I0", "S0"}), g.rng.IntN(50))
	case r < 90:
		return fmt.Sprintf("op %s neo @val @%s %d", hx.Pick(g.rng, []string{"val", "val", "val", "-"}), hx.Pick(g.rng, []string{"aY", "aY", "proxy", "proc", "probe"}), g.rng.IntN(4))
	case r < 98:
		return fmt.Sprintf("op %s call @%s %s", hx.Pick(g.rng, []string{"-", "F", "cmt"}), hx.Pick(g.rng, []string{"a0", "a1", "aX", "aY", "proxy", "proc"}), hx.Pick(g.rng, []string{"e", "p"}))
	default:
		return "op - skip 1"
	}
}
