package neofs

// Property monitors for the NeoFS main contract, evaluated on the implementation's own observations
// (transaction results, notifications, decoded storage, native GAS balances). They are an independent
// reading of the property statements: a tally per decision id (C17) and a cash book (C19); they do not
// look at the contract's ballot list.

import (
	"crypto/sha256"
	"fmt"
	"math/big"
	"regexp"
	"sort"
	"strings"

	"github.com/nspcc-dev/neo-go/pkg/util"
	"github.com/nspcc-dev/neo-go/pkg/vm/stackitem"

	"verifharness/chainx"
	"verifharness/hx"
)

func uint160(b []byte) util.Uint160 {
	var u util.Uint160
	if len(b) == 20 {
		copy(u[:], b)
	}
	return u
}

func mustBool(it stackitem.Item) bool {
	b, err := it.TryBool()
	return err == nil && b
}

const (
	voteWindow  = 20           // "no gap of more than 20 blocks between consecutive votes"
	maxDeposit  = 900000000000 // 9000 GAS
	maxWithdraw = 9000
)

type tally struct {
	voters map[string]bool
	last   int64
	cand   string // candidate key of a removal decision
}

type mainMonitor struct {
	w *mainWorld
	// C17: the monitor's own view of what the Alphabet has decided so far
	keys    []string          // stored Alphabet keys (hex), changed only by an executed alphabetUpdate
	cfg     map[string]string // configuration, changed only by an executed setConfig
	cands   map[string]bool   // candidates, changed by candidateAdd, the candidate itself or an executed removal
	open    map[string]*tally // decision id -> votes collected so far
	tainted map[string]bool   // decisions opened under another key list (outside the property's statement)
	// C19: cash book of the contract account
	selfGas int64
	paid    map[string]int   // cheque id -> payouts the Alphabet approved (reference)
	block   map[string]int64 // GAS deltas of the current block according to the Transfer notifications
	loose   map[string]bool  // candidates whose removal was being decided while the key list changed
	single  bool             // the current block holds one transaction (the previous state is its pre-state)
}

func newMainMonitor(w *mainWorld) *mainMonitor {
	m := &mainMonitor{w: w, cfg: map[string]string{}, cands: map[string]bool{}, open: map[string]*tally{},
		tainted: map[string]bool{}, block: map[string]int64{}, loose: map[string]bool{}, paid: map[string]int{}}
	for _, k := range w.prev.keys {
		m.keys = append(m.keys, hx.Hex(k))
	}
	for k, v := range w.prev.cfg {
		m.cfg[k] = hx.Hex(v)
	}
	m.selfGas = w.prev.gas[0]
	return m
}

func (m *mainMonitor) skip(prev, st mainState) { m.checkState("skip", prev, st) }

func (m *mainMonitor) thr() int { return len(m.keys)*2/3 + 1 }

// invoker: the first stored key whose account signed ("" if none)
func (m *mainMonitor) invoker(sig string) string {
	for _, k := range m.keys {
		for _, a := range m.w.act.list {
			if a.key != nil && hx.Hex(a.key) == k && m.w.act.witnessed(sig, a.acc) {
				return k
			}
		}
	}
	return ""
}

func (m *mainMonitor) cfgInt(name string) (int64, bool) {
	v, ok := m.cfg[hx.Hex([]byte(name))]
	if !ok {
		return 0, false
	}
	return bytesToInt(hx.UnHex(v)).Int64(), true
}

var evRe = regexp.MustCompile(`^(\w+)\((.*)\)$`)

type ev struct {
	name string
	args []string
}

func parseEvs(evs []string) []ev {
	var out []ev
	for _, e := range evs {
		mm := evRe.FindStringSubmatch(e)
		if mm == nil {
			continue
		}
		var args []string
		depth, cur := 0, ""
		for _, ch := range mm[2] {
			switch {
			case ch == '[':
				depth++
				cur += string(ch)
			case ch == ']':
				depth--
				cur += string(ch)
			case ch == ',' && depth == 0:
				args = append(args, cur)
				cur = ""
			default:
				cur += string(ch)
			}
		}
		args = append(args, cur)
		out = append(out, ev{mm[1], args})
	}
	return out
}

func i64(s string) (int64, bool) {
	z, ok := new(big.Int).SetString(s, 10)
	if !ok || !z.IsInt64() {
		return 0, false
	}
	return z.Int64(), true
}

// tok renders an op token the way observations print byte strings
func (m *mainMonitor) tok(t string) string { return m.w.act.show(m.w.act.val(t)) }

func (m *mainMonitor) observe(line string, pos []string, h int64, res chainx.Result, evs []string, fin bool, prev, st mainState) {
	if !m.w.wf {
		return
	}
	sig, method, args := pos[1], pos[2], pos[3:]
	site := "neofs." + method
	v := func(prop, what, detail string) { m.w.run.Violation(prop, site, what, detail+" after "+line) }
	pe := parseEvs(evs)
	if !res.Halt {
		pe = nil
	}
	count := func(name string) (n int) {
		for _, e := range pe {
			if e.name == name {
				n++
			}
		}
		return
	}
	// ---------------- C19: cash book from the Transfer notifications of this transaction
	delta := map[string]int64{}
	for _, e := range pe {
		if e.name == "T" {
			a, _ := i64(e.args[2])
			if e.args[0] != e.args[1] {
				delta[e.args[0]] -= a
				delta[e.args[1]] += a
				m.block[e.args[0]] -= a
				m.block[e.args[1]] += a
			}
		}
	}
	expect := map[string]int64{}
	exp := func(from, to string, a int64) {
		if from != to {
			expect[from] -= a
			expect[to] += a
		}
	}
	isMarker := func(d string) bool { return d == "b:570b" || d == "i:2903" }
	switch method {
	case "deposit", "xfer":
		amt, okAmt := i64(args[len(args)-1])
		to := "@self"
		data := "nil"
		if method == "deposit" {
			amt, okAmt = i64(args[1])
			data = args[2]
		} else {
			to = m.tok(args[1])
		}
		okRet := res.Halt && len(res.Stack) == 1 && mustBool(res.Stack[0])
		if okRet {
			if !okAmt {
				break
			}
			exp(m.tok(args[0]), to, amt)
			if !m.w.act.witnessed(sig, uint160(m.w.act.val(args[0]))) {
				v("C19", "unauthorised-transfer", "GAS left an account that did not sign")
			}
			if to == "@self" {
				nd := count("Deposit")
				if isMarker(data) {
					if nd != 0 {
						v("C19", "deposit-reported-for-ignored-transfer", "")
					}
				} else {
					rcv := m.tok(args[0])
					dl := -1
					switch {
					case data == "nil":
						dl = 0
					case strings.HasPrefix(data, "i:"): // an Integer item is taken through its byte form
						z, _ := new(big.Int).SetString(data[2:], 10)
						b, _ := stackitem.NewBigInteger(z).TryBytes()
						dl = len(b)
						if dl == 20 {
							rcv = m.w.act.show(b)
						}
					case strings.HasPrefix(data, "b:"):
						b := m.w.act.val(data[2:])
						dl = len(b)
						if dl == 20 {
							rcv = m.w.act.show(b)
						}
					}
					if amt <= 0 || amt > maxDeposit || (dl != 0 && dl != 20) {
						v("C19", "deposit-accepted-out-of-bounds", fmt.Sprintf("amount %d, data %s accepted", amt, data))
					} else if nd != 1 {
						v("C19", "deposit-not-reported", fmt.Sprintf("%d Deposit notifications for an accepted deposit", nd))
					} else {
						for _, e := range pe {
							if e.name == "Deposit" && (e.args[0] != m.tok(args[0]) || e.args[1] != fmt.Sprint(amt) || e.args[2] != rcv || e.args[3] != "tx") {
								v("C19", "deposit-misreported", fmt.Sprintf("got %v, want (%s,%d,%s,tx)", e.args, m.tok(args[0]), amt, rcv))
							}
						}
					}
				}
			}
		}
		if method == "deposit" && !okRet && okAmt && fin && m.single && !isMarker(data) {
			// a GAS transfer inside the stated bounds, from a signing account that can afford it, with a
			// well-shaped receiver is a deposit the contract takes
			dl := -1
			switch {
			case data == "nil":
				dl = 0
			case strings.HasPrefix(data, "b:"):
				dl = len(m.w.act.val(data[2:]))
			}
			from := m.w.act.val(args[0])
			bal := int64(-1)
			for i, a := range m.w.tracked {
				if len(from) == 20 && a.acc == uint160(from) && a.tag != "self" {
					bal = prev.gas[i]
				}
			}
			if amt > 0 && amt <= maxDeposit && (dl == 0 || dl == 20) && bal >= amt && m.w.act.witnessed(sig, uint160(from)) {
				v("C19", "valid-deposit-rejected", fmt.Sprintf("deposit of %d with data %s by a signing account holding %d was not accepted", amt, data, bal))
			}
		}
	case "pay":
		// the callback invoked by anything but GAS never reports a deposit
	case "withdraw":
		if res.Halt {
			amt, _ := i64(args[1])
			user := m.tok(args[0])
			fee, okFee := m.cfgInt("WithdrawFee")
			if !m.w.act.witnessed(sig, uint160(m.w.act.val(args[0]))) {
				v("C19", "withdraw-without-owner", "withdraw accepted without the user's witness")
			}
			if amt < 0 || amt > maxWithdraw || !okFee || fee < 0 {
				v("C19", "withdraw-accepted-out-of-bounds", fmt.Sprintf("amount %d fee %d(%v)", amt, fee, okFee))
			}
			if m.w.cfg.nd {
				for _, k := range m.keys {
					exp(user, "@"+strings.TrimPrefix(m.w.act.show(hx.UnHex(k)), "#"), fee) // account of the key
				}
			} else {
				exp(user, "@proc", fee)
			}
			want := fmt.Sprintf("Withdraw(%s,%d,tx)", user, amt*100000000)
			if count("Withdraw") != 1 || !contains(evs, want) {
				v("C19", "withdraw-misreported", "want exactly one "+want)
			}
		}
	case "candadd":
		if res.Halt {
			fee, okFee := m.cfgInt("InnerRingCandidateFee")
			if !okFee {
				v("C19", "candidate-fee-missing", "registration accepted without a configured fee")
			}
			k := m.w.act.val(args[0])
			exp("@"+strings.TrimPrefix(m.w.act.show(k), "#"), "@self", fee)
			m.cands[hx.Hex(k)] = true
			if count("Deposit") != 0 {
				v("C19", "candidate-fee-reported-as-deposit", "the registration fee is charged, not deposited")
			}
		} else if m.single && strings.HasPrefix(args[0], "#") {
			// "charges exactly the configured fee for ... a candidate registration": a registration by the candidate
			// itself (witness present), not listed yet, holding at least the configured non-negative fee, goes through
			// whatever the fee is (0, above 9000 GAS, ...: the fee transfer is no deposit, the deposit limits do not
			// apply); on HALT the exact movement and the listing are checked above and at the end of the block
			raw, okCfg := m.cfg[hx.Hex([]byte("InnerRingCandidateFee"))]
			if a, ok := m.w.act.byTag[args[0][1:]]; ok && a.key != nil && okCfg && len(hx.UnHex(raw)) <= 8 {
				fee := bytesToInt(hx.UnHex(raw)).Int64()
				bal := int64(-1)
				for i, t := range m.w.tracked {
					if t.acc == a.acc {
						bal = prev.gas[i]
					}
				}
				if fee >= 0 && bal >= fee && !m.cands[hx.Hex(a.key)] && m.w.act.witnessed(sig, a.acc) {
					v("C19", "candidate-fee-not-charged", fmt.Sprintf("registration of %s (holding %d GAS fractions, configured fee %d) was refused: no fee charged, candidate not listed", args[0], bal, fee))
				}
			}
		}
	}
	// Deposit notifications only come with GAS actually received by the contract in the same transaction
	for _, e := range pe {
		if e.name == "Deposit" {
			a, _ := i64(e.args[1])
			got := false
			for _, t := range pe {
				if t.name == "T" && t.args[0] == e.args[0] && t.args[1] == "@self" && t.args[2] == e.args[1] {
					got = true
				}
			}
			if !got || a <= 0 || a > maxDeposit {
				v("C19", "deposit-without-gas", fmt.Sprintf("Deposit%v without a matching GAS transfer in bounds", e.args))
			}
		}
	}
	// ---------------- C17 (vote mode) and the Alphabet-only effects
	voted := method == "cheque" || method == "setcfg" || method == "aupd" || method == "candrm"
	fired := false
	// the reference decision, kept independently of what the implementation did: `approved` = the Alphabet
	// approves the action in THIS invocation (vote mode: this vote brings the reference tally of the id to the
	// threshold; a decision that was approved is closed, a later vote for the same id opens a new tally that needs
	// the threshold again). `judged` = the reference can decide (not a ballot opened under another key list).
	approved, judged := false, false
	if voted {
		evName := map[string]string{"cheque": "Cheque", "setcfg": "SetConfig", "aupd": "AlphabetUpdate"}[method]
		var id string
		owner := false
		if method == "candrm" {
			k := m.w.act.val(args[0])
			d := sha256.Sum256(append(append([]byte{}, k...), []byte("delete")...))
			id = hx.Hex(d[:])
			for _, a := range m.w.act.list {
				if a.key != nil && string(a.key) == string(k) && m.w.act.witnessed(sig, a.acc) {
					owner = true
				}
			}
		} else {
			id = hx.Hex(m.w.act.val(args[0]))
		}
		if evName != "" {
			fired = count(evName) > 0
			if count(evName) > 1 {
				v("C17", "decision-notified-twice", fmt.Sprintf("%d %s notifications in one invocation", count(evName), evName))
			}
		}
		authorised := false
		switch {
		case owner:
			authorised = true
			if res.Halt {
				fired = true // removal requested by the candidate itself: immediate, no vote
			}
		case m.w.cfg.nd:
			inv := m.invoker(sig)
			authorised = inv != ""
			if inv == "" {
				judged = true // nobody approved anything
				if res.Halt {
					v("C17", "stranger-accepted", "invocation without the witness of a stored Alphabet key was not rejected")
				}
			} else if res.Halt {
				// the abstract tally of the property statement
				t := m.open[id]
				if t != nil && h-t.last > voteWindow {
					t = nil // stale ballot expired
					delete(m.tainted, id)
				}
				expectFire := false
				if t == nil {
					t = &tally{voters: map[string]bool{}, last: h}
					m.open[id] = t
				}
				if !t.voters[inv] {
					t.voters[inv] = true
					t.last = h
					if len(t.voters) >= m.thr() {
						expectFire = true
					}
				}
				if method == "candrm" {
					// no notification: the effect is the candidate leaving the list (seen at the end of the block)
					fired = expectFire
					t.cand = hx.Hex(m.w.act.val(args[0]))
					if m.tainted[id] {
						m.loose[t.cand] = true
					}
				} else if !m.tainted[id] {
					if fired && !expectFire {
						v("C17", "fired-below-threshold", fmt.Sprintf("decision %s executed with %d distinct live votes of %d needed", id, len(t.voters), m.thr()))
					}
					if !fired && expectFire {
						v("C17", "not-fired-at-threshold", fmt.Sprintf("decision %s not executed although %d distinct live votes were reached", id, len(t.voters)))
					}
				}
				if m.tainted[id] {
					approved = fired // outside the property's statement: follow the implementation
				} else {
					approved, judged = expectFire, true
				}
				if approved {
					delete(m.open, id) // an approved decision is closed
					delete(m.tainted, id)
				}
			}
		default: // Notary mode: the Alphabet multisignature decides at once
			addr := m.w.act.byTag["cmt"].acc
			if method == "candrm" {
				addr = m.w.act.byTag["saddr"].acc
			}
			authorised = m.w.act.witnessed(sig, addr) && addr != uint160(nil)
			if res.Halt {
				fired = true
				approved, judged = authorised, true
				if !authorised {
					v("C17", "stranger-accepted", "Alphabet-only method executed without the Alphabet multisignature")
					if method == "setcfg" || method == "aupd" {
						// C19: "the configured fee", "once the Alphabet approves": what the contract charges and whom it obeys is
						// configured by the Alphabet (2n/3+1 account) only; the n/2+1 majority account is not the Alphabet
						v("C19", "configured-without-alphabet-approval", fmt.Sprintf("%s executed under signers [%s], none of which is the Alphabet's 2n/3+1 account", method, sig))
					}
				}
			}
		}
		if method == "cheque" && res.Halt {
			// C19: "pays out exactly the cheque amount once the Alphabet approves": the payout follows the reference
			// decision, not the implementation's own bookkeeping
			amt, _ := i64(args[2])
			if judged && fired && !approved {
				what := "cheque-paid-without-approval"
				if m.paid[id] > 0 {
					what = "cheque-paid-twice"
				}
				why := "the Alphabet's votes for this id have not reached the threshold (again)"
				if !m.w.cfg.nd {
					why = fmt.Sprintf("the transaction's signers [%s] do not include the Alphabet's 2n/3+1 account (the n/2+1 majority account is not the Alphabet)", sig)
				}
				v("C19", what, fmt.Sprintf("cheque %s paid %d to %s although %s; approved payouts of this id so far: %d",
					id, amt, m.tok(args[1]), why, m.paid[id]))
			}
			if judged && approved && !fired {
				v("C19", "approved-cheque-not-paid", fmt.Sprintf("cheque %s reached the threshold and was not paid", id))
			}
			if approved {
				m.paid[id]++
				exp("@self", m.tok(args[1]), amt)
				want := fmt.Sprintf("Cheque(%s,%s,%d,%s)", m.tok(args[0]), m.tok(args[1]), amt, m.tok(args[3]))
				if fired && !contains(evs, want) {
					v("C19", "cheque-misreported", "want "+want)
				}
			}
		}
		if res.Halt && fired {
			switch method {
			case "setcfg":
				m.cfg[hx.Hex(m.w.act.val(args[1]))] = hx.Hex(m.w.act.val(args[2]))
			case "aupd":
				old := strings.Join(m.keys, ",")
				m.keys = nil
				if args[1] != "-" {
					for _, tk := range strings.Split(args[1], ",") {
						m.keys = append(m.keys, hx.Hex(m.w.act.val(tk)))
					}
				}
				if strings.Join(m.keys, ",") != old {
					// the stored list changed: ballots opened under the old list are outside the property's statement
					for id, t := range m.open {
						m.tainted[id] = true
						if t.cand != "" {
							m.loose[t.cand] = true
						}
					}
				}
			case "candrm":
				delete(m.cands, hx.Hex(m.w.act.val(args[0])))
			}
		}
	}
	// ---------------- C19: the transfers of this transaction are exactly the ones the property allows
	if !res.Halt {
		expect = map[string]int64{}
	}
	for _, k := range unionKeys(delta, expect) {
		if delta[k] != expect[k] {
			v("C19", "wrong-gas-movement", fmt.Sprintf("account %s moved by %d, the property allows %d (all: got %v want %v)", k, delta[k], expect[k], delta, expect))
			break
		}
	}
	m.selfGas += expect["@self"]
	if fin {
		m.checkState(site, prev, st)
	}
}

func (m *mainMonitor) checkState(site string, prev, st mainState) {
	if !m.w.wf {
		return
	}
	v := func(prop, what, detail string) {
		m.w.run.Violation(prop, site, what, detail)
	}
	// C19: balances moved exactly as the Transfer notifications of the block say, and the cash book holds
	for i, a := range m.w.tracked {
		d := st.gas[i] - prev.gas[i]
		if d != m.block["@"+a.tag] {
			v("C19", "gas-moved-silently", fmt.Sprintf("balance of %s changed by %d, Transfer notifications say %d", a.tag, d, m.block["@"+a.tag]))
		}
	}
	if st.gas[0] != m.selfGas {
		v("C19", "ledger-identity", fmt.Sprintf("contract holds %d GAS, everything received minus the cheques the Alphabet approved is %d", st.gas[0], m.selfGas))
		m.selfGas = st.gas[0] // reported; go on from the observed balance so that a further divergence is reported anew
	}
	// C17: the stored decisions are exactly the executed ones
	var ks []string
	for _, k := range st.keys {
		ks = append(ks, hx.Hex(k))
	}
	if strings.Join(ks, ",") != strings.Join(m.keys, ",") {
		v("C17", "alphabet-changed-without-decision", fmt.Sprintf("stored keys %v, decided %v", ks, m.keys))
	}
	got := map[string]string{}
	for k, val := range st.cfg {
		got[k] = hx.Hex(val)
	}
	for _, k := range unionKeysS(got, m.cfg) {
		if got[k] != m.cfg[k] {
			v("C17", "config-changed-without-decision", fmt.Sprintf("config %s = %q, decided %q", k, got[k], m.cfg[k]))
			break
		}
	}
	gotc := map[string]bool{}
	for _, k := range st.cands {
		gotc[hx.Hex(k)] = true
	}
	for k := range m.loose {
		if gotc[k] {
			m.cands[k] = true
		} else {
			delete(m.cands, k)
		}
	}
	for k := range m.cands {
		if !gotc[k] {
			v("C17", "candidate-removed-without-decision", "candidate "+k+" disappeared")
		}
	}
	for k := range gotc {
		if !m.cands[k] {
			v("C17", "candidate-not-removed", "candidate "+k+" still listed after its removal was decided (or never added)")
		}
	}
	m.block = map[string]int64{}
}

func contains(xs []string, x string) bool {
	for _, y := range xs {
		if y == x {
			return true
		}
	}
	return false
}

func unionKeys(a, b map[string]int64) []string {
	s := map[string]bool{}
	for k := range a {
		s[k] = true
	}
	for k := range b {
		s[k] = true
	}
	var out []string
	for k := range s {
		out = append(out, k)
	}
	sort.Strings(out)
	return out
}

func unionKeysS(a, b map[string]string) []string {
	s := map[string]bool{}
	for k := range a {
		s[k] = true
	}
	for k := range b {
		s[k] = true
	}
	var out []string
	for k := range s {
		out = append(out, k)
	}
	sort.Strings(out)
	return out
}
