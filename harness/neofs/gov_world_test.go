package neofs

// Alphabet contract instances (emit), the real Proxy and Processing contracts and a calling probe on a
// chain with an n-member committee; the Inner Ring is the NeoFSAlphabet role designated by the committee.

import (
	"fmt"
	"sort"
	"strconv"
	"strings"
	"testing"

	"github.com/nspcc-dev/neo-go/pkg/core/transaction"
	"github.com/nspcc-dev/neo-go/pkg/neotest"
	"github.com/nspcc-dev/neo-go/pkg/util"
	"github.com/nspcc-dev/neo-go/pkg/vm/stackitem"

	"verifharness/chainx"
	"verifharness/hx"
)

const nIR = 7

type govCfg struct {
	n      int
	i0, i1 int // committee indices of instances a0 and a1
}

func (g govCfg) attrs() []string {
	return []string{fmt.Sprintf("n=%d", g.n), fmt.Sprintf("i0=%d", g.i0), fmt.Sprintf("i1=%d", g.i1)}
}

func parseGovCfg(attr map[string]string) govCfg {
	n, _ := strconv.Atoi(attr["n"])
	if n < 1 {
		n = 1
	}
	i0, _ := strconv.Atoi(attr["i0"])
	i1, _ := strconv.Atoi(attr["i1"])
	return govCfg{n, i0, i1}
}

type govInst struct {
	tag   string
	hash  util.Uint160
	index int
}

type govState struct {
	ir   []string
	gas  []int64
	neo  []int64
	stor string
}

type govWorld struct {
	t        testing.TB
	run      *hx.Run
	c        *chainx.Chain
	cfg      govCfg
	act      actors
	insts    []govInst
	gasTrack []*actor
	neoTrack []*actor
	wf       bool
	prev     govState
	storage0 string
	mon      *govMonitor
}

func newGov(t testing.TB, run *hx.Run, gc govCfg) *govWorld {
	c := chainx.New(t, gc.n)
	w := &govWorld{t: t, run: run, c: c, cfg: gc}
	w.act.t = t
	for i := 0; i < nIR; i++ {
		w.act.user(c, fmt.Sprintf("I%d", i))
	}
	w.act.user(c, "F")
	w.act.user(c, "S0")
	for i, m := range c.Members {
		w.act.add(fmt.Sprintf("M%d", i), m, m.Account().PublicKey().Bytes(), m.ScriptHash())
	}
	w.act.add("cmt", c.Cmt, nil, c.Cmt.ScriptHash())
	w.act.add("val", c.Alpha, nil, c.Alpha.ScriptHash())
	px := c.CompileFor("proxy")
	c.Deploy(px, nil)
	pr := c.CompileFor("processing")
	c.Deploy(pr, []any{util.Uint160{1, 2, 3}})
	pb := c.CompileDirFor(filepath_probe())
	c.Deploy(pb, nil)
	w.act.add("proxy", nil, nil, px.Hash)
	w.act.add("proc", nil, nil, pr.Hash)
	w.act.add("probe", nil, nil, pb.Hash)
	al := c.CompileFor("alphabet")
	for _, in := range []struct {
		tag string
		idx int
	}{{"a0", gc.i0}, {"a1", gc.i1}, {"aX", gc.n}, {"aN", -1}, {"aY", gc.n + 1}} {
		ct := c.Renamed(al, "NeoFS Alphabet "+in.tag)
		c.Deploy(ct, []any{false, util.Uint160{9}, px.Hash, in.tag, int64(in.idx), int64(gc.n)})
		w.act.add(in.tag, nil, nil, ct.Hash)
		w.insts = append(w.insts, govInst{in.tag, ct.Hash, in.idx})
	}
	// aY and the probe may hold NEO; the GAS the NEO native generates for NEO holders is not tracked
	for _, tg := range []string{"a0", "a1", "aX", "aN", "proxy", "proc", "F", "S0", "I0", "I1", "I2", "I3", "I4", "I5", "I6"} {
		w.gasTrack = append(w.gasTrack, w.act.byTag[tg])
	}
	for _, tg := range []string{"a0", "a1", "aX", "aN", "aY", "proxy", "proc", "probe", "val"} {
		w.neoTrack = append(w.neoTrack, w.act.byTag[tg])
	}
	w.prev = w.scan()
	w.storage0 = w.prev.stor
	w.mon = newGovMonitor(w)
	return w
}

func (w *govWorld) caseAttrs() []string {
	out := []string{"gov"}
	if w.wf {
		out = append(out, "wf")
	} else {
		out = append(out, "nonwf")
	}
	out = append(out, w.cfg.attrs()...)
	var is, ms, gs, ns []string
	for _, in := range w.insts {
		is = append(is, fmt.Sprintf("%s:%d", in.tag, in.index))
	}
	for i := range w.c.Members {
		ms = append(ms, fmt.Sprintf("M%d", i))
	}
	for i, a := range w.gasTrack {
		gs = append(gs, fmt.Sprintf("%s:%d", a.tag, w.prev.gas[i]))
	}
	for i, a := range w.neoTrack {
		ns = append(ns, fmt.Sprintf("%s:%d", a.tag, w.prev.neo[i]))
	}
	return append(out, "inst="+strings.Join(is, ","), "cmtkeys="+strings.Join(ms, ","), "tab="+w.act.tab(),
		"gas="+strings.Join(gs, ","), "neo="+strings.Join(ns, ","))
}

func (w *govWorld) scan() govState {
	var s govState
	st, err := w.c.Call(w.c.NativeHash("RoleManagement"), "getDesignatedByRole", int64(16), int64(w.c.BC.BlockHeight()+1))
	if err != nil {
		w.t.Fatalf("getDesignatedByRole: %v", err)
	}
	for _, k := range st[0].Value().([]stackitem.Item) {
		kb := itemBytes(k)
		tag := "?"
		for _, a := range w.act.list {
			if a.key != nil && string(a.key) == string(kb) {
				tag = "@" + a.tag
			}
		}
		s.ir = append(s.ir, tag)
	}
	for _, a := range w.gasTrack {
		s.gas = append(s.gas, w.c.GASOf(a.acc))
	}
	for _, a := range w.neoTrack {
		s.neo = append(s.neo, w.c.NEOOf(a.acc))
	}
	// contract storage of the instances, Proxy and Processing never changes after deployment
	var ds []string
	for _, tg := range []string{"a0", "a1", "aX", "aN", "aY", "proxy", "proc"} {
		ds = append(ds, w.c.ScanDigest(w.act.byTag[tg].acc))
	}
	s.stor = strings.Join(ds, ".")
	return s
}

func (s govState) render(w *govWorld) string {
	var gs, ns []string
	for _, g := range s.gas {
		gs = append(gs, fmt.Sprint(g))
	}
	for _, g := range s.neo {
		ns = append(ns, fmt.Sprint(g))
	}
	o := ""
	if s.stor != w.storage0 {
		o = " storage-changed"
	}
	return fmt.Sprintf("ir=[%s] gas=[%s] neo=[%s]%s", strings.Join(s.ir, ","), strings.Join(gs, ","), strings.Join(ns, ","), o)
}

// keyCmp compares the public keys of two single-key actors the way the native contracts order keys.
func (w *govWorld) keyCmp(a, b string) int {
	ka := w.act.byTag[a].signer.(neotest.SingleSigner).Account().PublicKey()
	kb := w.act.byTag[b].signer.(neotest.SingleSigner).Account().PublicKey()
	return ka.Cmp(kb)
}

// sortKeyTags orders `#TAG` tokens the way the native RoleManagement contract stores the keys.
func (w *govWorld) sortKeyTags(toks []string) []string {
	out := append([]string{}, toks...)
	sort.SliceStable(out, func(i, j int) bool {
		a := w.act.byTag[strings.TrimPrefix(out[i], "#")].signer.(neotest.SingleSigner).Account().PublicKey()
		b := w.act.byTag[strings.TrimPrefix(out[j], "#")].signer.(neotest.SingleSigner).Account().PublicKey()
		return a.Cmp(b) < 0
	})
	return out
}

func (w *govWorld) buildTx(pos []string) *transaction.Transaction {
	sig, method, args := pos[1], pos[2], pos[3:]
	signers := w.act.signers(sig)
	v := w.act.val
	switch method {
	case "fund":
		return w.c.NewTx(signers, w.c.GAS, "transfer", nz(v(args[0])), nz(v(args[1])), hx.Big(args[2]), nil)
	case "neo":
		return w.c.NewTx(signers, w.c.NEO, "transfer", nz(v(args[0])), nz(v(args[1])), hx.Big(args[2]), nil)
	case "call":
		cargs := []any{w.act.byTag["F"].acc, int64(1), nil}
		if args[1] == "p" {
			return w.c.NewTx(signers, w.act.byTag["probe"].acc, "call", util.Uint160(v(args[0])), "onNEP17Payment", cargs)
		}
		return w.c.NewTx(signers, util.Uint160(v(args[0])), "onNEP17Payment", cargs...)
	case "desig":
		var ks []any
		if args[0] != "-" {
			for _, tk := range strings.Split(args[0], ",") {
				ks = append(ks, v(tk))
			}
		}
		if ks == nil {
			ks = []any{}
		}
		return w.c.NewTx(signers, w.c.NativeHash("RoleManagement"), "designateAsRole", int64(16), ks)
	case "emit":
		return w.c.NewTx(signers, util.Uint160(v(args[0])), "emit")
	}
	w.t.Fatalf("bad gov method %q", method)
	return nil
}

// execGroup: gov cases run one transaction per block.
func (w *govWorld) execGroup(lines []string) (outLines, obs []string, post func()) {
	var posts []func()
	post = func() {
		for _, f := range posts {
			f()
		}
	}
	for _, l := range lines {
		pos, _ := splitOp(l)
		if len(pos) < 3 || pos[0] != "op" {
			w.t.Fatalf("bad op line %q", l)
		}
		method := pos[2]
		w.run.Count("op." + method)
		if method == "skip" {
			k, _ := strconv.Atoi(pos[3])
			for j := 0; j < k; j++ {
				w.c.AddBlock()
			}
			st := w.scan()
			w.prev = st
			outLines = append(outLines, strings.Join(pos, " "))
			obs = append(obs, "HALT ret=null ev=[] | "+st.render(w))
			continue
		}
		if method == "desig" && pos[3] != "-" {
			pos[3] = strings.Join(w.sortKeyTags(strings.Split(pos[3], ",")), ",")
		}
		res := w.c.Exec(w.buildTx(pos))[0]
		st := w.scan()
		var sb strings.Builder
		var evs []string
		if !res.Halt {
			sb.WriteString("FAULT")
			w.run.Count("out.fault." + method)
		} else {
			ret := "null"
			if len(res.Stack) == 1 {
				if _, isNull := res.Stack[0].(stackitem.Null); !isNull {
					if b, err := res.Stack[0].TryBool(); err == nil {
						ret = fmt.Sprint(b)
					}
				}
			}
			w.run.Count("out.halt." + method)
			evs = renderEvents(w.c, &w.act, res, map[util.Uint160]string{}, res.Events)
			fmt.Fprintf(&sb, "HALT ret=%s ev=[%s]", ret, strings.Join(evs, ";"))
		}
		sb.WriteString(" | " + st.render(w))
		line := strings.Join(pos, " ")
		outLines = append(outLines, line)
		obs = append(obs, sb.String())
		prev := w.prev
		posts = append(posts, func() { w.mon.observe(line, pos, res, evs, prev, st) })
		w.prev = st
	}
	return
}
