package neofs

// Property monitor (C19) for Alphabet emit and the payment callbacks of Alphabet, Proxy and Processing,
// evaluated on native balances and transaction results only.

import (
	"fmt"

	"verifharness/chainx"
)

type govMonitor struct {
	w *govWorld
}

func newGovMonitor(w *govWorld) *govMonitor { return &govMonitor{w: w} }

func (m *govMonitor) idx(tag string) int {
	for i, a := range m.w.gasTrack {
		if a.tag == tag {
			return i
		}
	}
	return -1
}

func (m *govMonitor) observe(line string, pos []string, res chainx.Result, evs []string, prev, st govState) {
	if !m.w.wf {
		return
	}
	w := m.w
	sig, method, args := pos[1], pos[2], pos[3:]
	v := func(what, detail string) { w.run.Violation("C19", "alphabet."+method, what, detail+" after "+line) }
	want := append([]int64{}, prev.gas...)
	var untracked int64 // GAS sent to parties whose balance is not tracked
	switch method {
	case "emit":
		var inst *govInst
		for i := range w.insts {
			if "@"+w.insts[i].tag == args[0] {
				inst = &w.insts[i]
			}
		}
		// "can be triggered only by its own Alphabet node": the committee member number `index` (the Alphabet =
		// neo.GetCommittee()), whatever the designated Inner Ring list looks like
		own := inst.index >= 0 && inst.index < len(w.c.Members) && w.act.witnessed(sig, w.c.Members[inst.index].ScriptHash())
		g := prev.gas[m.idx(inst.tag)]
		n := int64(len(prev.ir))
		toProxy := g / 2
		if res.Halt {
			if !own {
				v("emit-by-foreign-node", fmt.Sprintf("emit of instance %s (Alphabet index %d) executed for signers %s, none of which is Alphabet node %d; Inner Ring %v",
					inst.tag, inst.index, sig, inst.index, prev.ir))
			}
			if n == 0 || toProxy == 0 {
				v("emit-without-funds-or-ring", fmt.Sprintf("emit executed with balance %d and %d Inner Ring nodes", g, n))
				break
			}
			per := (g - toProxy) * 7 / 8 / n
			want[m.idx(inst.tag)] -= toProxy + per*n
			want[m.idx("proxy")] += toProxy
			for _, t := range prev.ir {
				if i := m.idx(t[1:]); i >= 0 {
					want[i] += per
				} else if per != 0 {
					// an Inner Ring node whose balance is not tracked (committee members collect block rewards): its
					// share is read off the native GAS Transfer notifications
					untracked += per
					need := fmt.Sprintf("T(@%s,%s,%d)", inst.tag, t, per)
					have, wantN := 0, 0
					for _, e := range evs {
						if e == need {
							have++
						}
					}
					for _, t2 := range prev.ir {
						if t2 == t {
							wantN++
						}
					}
					if have != wantN {
						v("wrong-gas-movement", fmt.Sprintf("%d transfers %s, the property says %d", have, need, wantN))
					}
				}
			}
			if g-toProxy-per*n < 0 {
				v("negative-remainder", "")
			}
		} else if own && toProxy > 0 && n > 0 {
			// its own Alphabet node, enough GAS to emit (floor(g/2) > 0) and a designated Inner Ring: nothing in the
			// property or the method's documentation lets the emission be refused
			v("emit-own-node-rejected", fmt.Sprintf("emit of instance %s (Alphabet index %d, balance %d) signed by its own Alphabet node %s was refused; Inner Ring %v",
				inst.tag, inst.index, g, sig, prev.ir))
		}
	case "fund":
		if res.Halt && len(res.Stack) == 1 && mustBool(res.Stack[0]) {
			a, _ := i64(args[2])
			if i := m.idx(args[0][1:]); i >= 0 {
				want[i] -= a
			}
			if i := m.idx(args[1][1:]); i >= 0 {
				want[i] += a
			}
		}
	case "neo":
		// Proxy and Processing accept nothing but GAS
		if res.Halt && len(res.Stack) == 1 && mustBool(res.Stack[0]) && (args[1] == "@proxy" || args[1] == "@proc") {
			v("foreign-token-accepted", args[1]+" accepted NEO")
		}
	case "call":
		// a payment callback invoked by anything but the GAS (Alphabet: or NEO) contract must abort
		if res.Halt && args[0] != "@probe" {
			v("callback-from-foreign-caller", args[0]+".onNEP17Payment accepted a call that does not come from a token contract")
		}
	}
	var sumPrev, sumNow int64
	for i := range st.gas {
		sumPrev += prev.gas[i]
		sumNow += st.gas[i]
		if st.gas[i] != want[i] {
			v("wrong-gas-movement", fmt.Sprintf("%s holds %d, the property says %d (before %d)", w.gasTrack[i].tag, st.gas[i], want[i], prev.gas[i]))
		}
	}
	if sumPrev != sumNow+untracked {
		v("gas-created-or-lost", fmt.Sprintf("total over all parties %d -> %d", sumPrev, sumNow))
	}
	if st.stor != w.storage0 {
		v("storage-changed", "contract storage changed")
	}
}
