package neofs

// Property monitor (C19) for Alphabet emit and the payment callbacks of Alphabet, Proxy and Processing,
// evaluated on native balances and transaction results only.

import (
	"fmt"

	"verifharness/chainx"
)

type govMonitor struct {
	w *govWorld
}

func newGovMonitor(w *govWorld) *govMonitor { return &govMonitor{w: w} }

func (m *govMonitor) idx(tag string) int {
	for i, a := range m.w.gasTrack {
		if a.tag == tag {
			return i
		}
	}
	return -1
}

func (m *govMonitor) observe(line string, pos []string, res chainx.Result, evs []string, prev, st govState) {
	if !m.w.wf {
		return
	}
	w := m.w
	sig, method, args := pos[1], pos[2], pos[3:]
	v := func(what, detail string) { w.run.Violation("C19", "alphabet."+method, what, detail+" after "+line) }
	want := append([]int64{}, prev.gas...)
	switch method {
	case "emit":
		var inst *govInst
		for i := range w.insts {
			if "@"+w.insts[i].tag == args[0] {
				inst = &w.insts[i]
			}
		}
		if res.Halt {
			// only its own Alphabet node: committee member number `index`
			ok := inst.index >= 0 && inst.index < len(w.c.Members) && w.act.witnessed(sig, w.c.Members[inst.index].ScriptHash())
			if !ok {
				v("emit-by-foreign-invoker", fmt.Sprintf("emit of instance %s (index %d) executed for signers %s", inst.tag, inst.index, sig))
			}
			g := prev.gas[m.idx(inst.tag)]
			n := int64(len(prev.ir))
			toProxy := g / 2
			if n == 0 || toProxy == 0 {
				v("emit-without-funds-or-ring", fmt.Sprintf("emit executed with balance %d and %d Inner Ring nodes", g, n))
				break
			}
			per := (g - toProxy) * 7 / 8 / n
			want[m.idx(inst.tag)] -= toProxy + per*n
			want[m.idx("proxy")] += toProxy
			for _, t := range prev.ir {
				want[m.idx(t[1:])] += per
			}
			if g-toProxy-per*n < 0 {
				v("negative-remainder", "")
			}
		}
	case "fund":
		if res.Halt && len(res.Stack) == 1 && mustBool(res.Stack[0]) {
			a, _ := i64(args[2])
			if i := m.idx(args[0][1:]); i >= 0 {
				want[i] -= a
			}
			if i := m.idx(args[1][1:]); i >= 0 {
				want[i] += a
			}
		}
	case "neo":
		// Proxy and Processing accept nothing but GAS
		if res.Halt && len(res.Stack) == 1 && mustBool(res.Stack[0]) && (args[1] == "@proxy" || args[1] == "@proc") {
			v("foreign-token-accepted", args[1]+" accepted NEO")
		}
	case "call":
		// a payment callback invoked by anything but the GAS (Alphabet: or NEO) contract must abort
		if res.Halt && args[0] != "@probe" {
			v("callback-from-foreign-caller", args[0]+".onNEP17Payment accepted a call that does not come from a token contract")
		}
	}
	var sumPrev, sumNow int64
	for i := range st.gas {
		sumPrev += prev.gas[i]
		sumNow += st.gas[i]
		if st.gas[i] != want[i] {
			v("wrong-gas-movement", fmt.Sprintf("%s holds %d, the property says %d (before %d)", w.gasTrack[i].tag, st.gas[i], want[i], prev.gas[i]))
		}
	}
	if sumPrev != sumNow {
		v("gas-created-or-lost", fmt.Sprintf("total over all parties %d -> %d", sumPrev, sumNow))
	}
	if st.stor != w.storage0 {
		v("storage-changed", "contract storage changed")
	}
}
