package access

// "Role change" schedule: the requirement of some methods depends on the CURRENT Inner Ring list (keys holding the
// NeoFSAlphabet role, read through common.InnerRingNodes / roles.GetDesignatedByRole): audit.put (the reporter must be a
// member), update of NeoFS and Processing (majority account of the list). The list is re-designated in block B (one
// member dismissed, one new key added); in block B+1 - both transactions in the SAME block, the first one after the
// designation - and again in block B+2 the method is executed (a) by the dismissed member / with the majority account
// of the old list and (b) by the new member / with the majority account of the new list.
// Dismissed: no longer a required witness => inert. New: exactly the required witness => HALT and effect.

import (
	"bytes"
	"fmt"
	"sort"
	"strings"

	"github.com/nspcc-dev/neo-go/pkg/neotest"
	"github.com/nspcc-dev/neo-go/pkg/wallet"

	"verifharness/chainx"
)

// roleTx is one transaction of the schedule.
type roleTx struct {
	args   []any
	signer neotest.Signer
	trace  func() bool // did THIS transaction leave its own trace in storage (nil: judged by its notifications)
}

func auditReport(cid, key []byte, tail ...byte) []byte {
	raw := []byte{0x0a, 0x00, 0x10}
	raw = append(raw, 1, 0, 0, 0, 0, 0, 0, 0) // epoch 1
	raw = append(raw, 0x1a, 34, 0x0a, 32)
	raw = append(raw, cid...)
	raw = append(raw, 0x22, 33)
	raw = append(raw, key...)
	return append(raw, tail...)
}

func (w *world) auditHas(cid []byte) bool {
	for _, kv := range w.c.Scan(w.h["audit"]) {
		if bytes.Contains(kv.K, cid) {
			return true
		}
	}
	return false
}

func majorityOf(list []neotest.SingleSigner) neotest.Signer {
	return chainx.AccessMultisig(accountsOf(list), len(list)/2+1)
}

func roleChangeBuilders(b map[string]builder) {
	b["audit.put#rolechange"] = func(w *world) *plan {
		return &plan{req: never, doc: "the key named in the header, which must hold the NeoFSAlphabet role NOW",
			role: func(w *world, old, cur []neotest.SingleSigner, dismissed bool, round int) roleTx {
				who := cur[len(cur)-1]
				if dismissed {
					who = old[len(old)-1]
				}
				cid := digest("audit-role", w.n, w.next())
				return roleTx{args: []any{auditReport(cid, pub(who))}, signer: who, trace: func() bool { return w.auditHas(cid) }}
			}}
	}
	for _, name := range []string{"neofs", "neofs-vote", "processing"} {
		name := name
		b[name+".update#rolechange"] = func(w *world) *plan {
			return &plan{req: never, doc: "majority (n/2+1) account of the keys holding the NeoFSAlphabet role NOW",
				role: func(w *world, old, cur []neotest.SingleSigner, dismissed bool, round int) roleTx {
					list := cur
					if dismissed {
						list = old
					}
					return roleTx{args: w.updateArgs(name), signer: majorityOf(list)}
				}}
		}
	}
}

// execRoleChange runs the schedule for one method and returns the observation line.
func (w *world) execRoleChange(m meth, p *plan, v func(what, detail string)) string {
	old := append([]neotest.SingleSigner{}, w.ir...)
	x := neotest.NewSingleSigner(wallet.NewAccountFromPrivateKey(chainx.Key(fmt.Sprintf("ir-new-%d-%d", w.n, w.next()))))
	w.track = append(w.track, x.ScriptHash())
	// the new member replaces the last one; both lists end with the member that makes the difference
	cur := append(append([]neotest.SingleSigner{}, old[:len(old)-1]...), x)
	w.designate(cur) // block B
	var parts []string
	first := "FAULT"
	for round := 1; round <= 2; round++ {
		td := p.role(w, old, cur, true, round)
		tn := p.role(w, old, cur, false, round)
		txD := w.buildTx(m, &plan{args: td.args}, []neotest.Signer{td.signer})
		txN := w.buildTx(m, &plan{args: tn.args}, []neotest.Signer{tn.signer})
		before := w.snapshot()
		rs := w.c.Exec(txD, txN) // same block: B+round
		after := w.snapshot()
		var changed []string
		for _, name := range w.order {
			if before.dig[name] != after.dig[name] {
				changed = append(changed, name)
			}
		}
		moved := after.paid-before.paid != -(txD.SystemFee + txD.NetworkFee + txN.SystemFee + txN.NetworkFee)
		for a, g := range before.gas {
			if after.gas[a] != g || after.neo[a] != before.neo[a] {
				moved = true
			}
		}
		d, n := rs[0], rs[1]
		var evD []string
		if d.Halt {
			for _, e := range d.Events {
				evD = append(evD, w.eventName(e))
			}
		}
		traceD := td.trace != nil && td.trace()
		traceN := n.Halt && (len(n.Events) > 0 || tn.trace != nil && tn.trace())
		effectD := d.Halt && (len(evD) > 0 || traceD || (len(changed) > 0 || moved) && !traceN)
		where := fmt.Sprintf("block B+%d after designateAsRole(NeoFSAlphabet) in block B (n=%s, one member dismissed, one added)", round, w.tag)
		if effectD || traceD {
			v("effect-without-witness", fmt.Sprintf("%s: the DISMISSED member's transaction (%s) took effect: own storage trace %t, notifications %v, changed contracts %v",
				where, vmOf(d.Halt), traceD, evD, changed))
		}
		if !n.Halt {
			v("required-witnesses-rejected", fmt.Sprintf("%s: the NEW member's transaction, carrying exactly the required witness, FAULTed: %s", where, n.Fault))
		} else if !traceN {
			v("required-witnesses-rejected", fmt.Sprintf("%s: the NEW member's transaction HALTed but nothing took effect", where))
		}
		if round == 1 && n.Halt {
			first = "HALT"
		}
		sort.Strings(changed)
		parts = append(parts, fmt.Sprintf("B+%d[dismissed=%s new=%s changed=[%s] moved=%t]", round, vmOf(d.Halt), vmOf(n.Halt), strings.Join(changed, ","), moved))
		w.run.Count("rolechange.tx")
		w.run.Count("rolechange.tx")
	}
	// restore the original list; one more block so that it is in force whatever height the contracts read it at
	w.designate(old)
	w.c.AddBlock()
	w.run.Count("cell." + m.contract + "." + m.key)
	w.run.Count("set.schedule")
	return first + " " + strings.Join(parts, " ")
}

func vmOf(halt bool) string {
	if halt {
		return "HALT"
	}
	return "FAULT"
}
