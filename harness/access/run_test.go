// Dynamic product of C03: every method of every manifest compiled from the repository under test x signer
// sets x committee sizes, executed as real transactions on neo-go's VM in-process, judged by a monitor that
// reads the property statement on the implementation's own observations (VM state, raw storage of ALL
// deployed contracts, notifications, GAS/NEO balances). There is no model driver for this property: the Lean
// side decides a static abstraction of the same methods (lean/NeoFS/Props/C03.lean); this harness ties the
// requirement table and the translator to the compiled contracts.
package access

import (
	"fmt"
	"sort"
	"strconv"
	"strings"
	"testing"

	"github.com/nspcc-dev/neo-go/pkg/core/state"
	"github.com/nspcc-dev/neo-go/pkg/core/transaction"
	"github.com/nspcc-dev/neo-go/pkg/neotest"
	"github.com/nspcc-dev/neo-go/pkg/smartcontract"
	"github.com/nspcc-dev/neo-go/pkg/smartcontract/manifest"
	"github.com/nspcc-dev/neo-go/pkg/util"
	"github.com/nspcc-dev/neo-go/pkg/vm/stackitem"

	"verifharness/chainx"
	"verifharness/hx"
)

const prop = "C03"

// ---------------------------------------------------------------- signer sets

type sset struct {
	label string
	atoms []string
}

func (s sset) String() string {
	if len(s.atoms) == 0 {
		return s.label + ":-"
	}
	return s.label + ":" + strings.Join(s.atoms, "+")
}

func parseSet(s string) sset {
	i := strings.IndexByte(s, ':')
	if i < 0 {
		return sset{label: s}
	}
	out := sset{label: s[:i]}
	if s[i+1:] != "-" {
		out.atoms = strings.Split(s[i+1:], "+")
	}
	return out
}

func (w *world) signer(atom string, p *plan) neotest.Signer {
	switch atom {
	case "A":
		return w.c.Alpha
	case "C":
		return w.c.Cmt
	case "IRA":
		return w.ira
	case "IRM":
		return w.irm
	case "C-":
		return w.short["C-"]
	case "A-":
		return w.short["A-"]
	case "IRM-":
		return w.short["IRM-"]
	case "IRA-":
		return w.short["IRA-"]
	case "V", "VA", "VC": // validators-only accounts (committee larger than the validator set)
		return w.short[atom]
	case "MN": // a committee member that is NOT a validator
		if w.v > 0 {
			return w.c.Members[w.n-1]
		}
		return nil
	case "M0":
		return w.c.Members[0]
	case "IR0":
		return w.ir[0]
	case "S":
		return w.user("stranger")
	}
	if strings.HasPrefix(atom, "K") && p != nil {
		i, err := strconv.Atoi(atom[1:])
		if err == nil && i >= 1 && i <= len(p.keys) {
			return p.keys[i-1]
		}
	}
	return nil
}

func (w *world) signersOf(atoms []string, p *plan) []neotest.Signer {
	var out []neotest.Signer
	for _, a := range atoms {
		if s := w.signer(a, p); s != nil {
			out = append(out, s)
		}
	}
	return dedupe(out)
}

// holdsFor: an atom holds when the account it stands for is among the accounts of the signer set
// (for a one-key committee the Alphabet and the committee accounts are the same account).
func (w *world) holdsFor(atoms []string, p *plan) holds {
	hs := map[util.Uint160]bool{}
	for _, s := range w.signersOf(atoms, p) {
		hs[s.ScriptHash()] = true
	}
	return func(atom string) bool {
		s := w.signer(atom, p)
		return s != nil && hs[s.ScriptHash()]
	}
}

func (w *world) setKey(atoms []string, p *plan) string {
	var hs []string
	for _, s := range w.signersOf(atoms, p) {
		hs = append(hs, s.ScriptHash().StringLE())
	}
	sort.Strings(hs)
	return strings.Join(hs, ",")
}

func (w *world) universe(p *plan) []string {
	u := []string{"S", "M0", "IR0", "C", "A", "IRA", "IRM"}
	if w.n >= 2 { // the accounts one signature short of the documented ones
		u = append(u, "C-", "A-", "IRM-", "IRA-")
	}
	if w.v > 0 {
		u = append(u, "V", "VA", "VC", "MN")
	}
	for i := range p.keys {
		u = append(u, fmt.Sprintf("K%d", i+1))
	}
	return u
}

// setsFor: the property's signer sets for one method: nobody relevant, a stranger, a single Alphabet member,
// a single Inner Ring key, the committee-majority and the Alphabet accounts (each is "the wrong one" where the other
// is required), the accounts ONE SIGNATURE SHORT of them ((n/2)-of-n, (2n/3)-of-n), the named keys alone and with the
// wrong multi-signature, every MAXIMAL set that does not meet the requirement (everybody signs except what is
// required), and every MINIMAL set that meets it (exactly the documented requirement). Sets with the same accounts
// are executed once. Unmet sets come first.
func (w *world) setsFor(p *plan) []sset {
	if p.role != nil {
		return []sset{{"schedule", nil}}
	}
	u := w.universe(p)
	var cand []sset
	add := func(label string, atoms ...string) { cand = append(cand, sset{label, atoms}) }
	add("none")
	add("stranger", "S")
	add("alpha1", "M0")
	add("ir1", "IR0")
	add("cmt", "C")
	add("alpha", "A")
	add("ira", "IRA")
	add("irm", "IRM")
	if w.n >= 2 {
		add("cmt-1", "C-")
		add("alpha-1", "A-")
		add("irm-1", "IRM-")
		add("ira-1", "IRA-")
	}
	if w.v > 0 {
		add("validators", "V")
		add("val-alpha", "VA")
		add("val-cmt", "VC")
		add("member-nv", "MN")
	}
	var ks []string
	for i := range p.keys {
		ks = append(ks, fmt.Sprintf("K%d", i+1))
	}
	if len(ks) > 0 {
		add("key", ks...)
		if len(ks) > 1 {
			for _, k := range ks {
				add("key-"+strings.ToLower(k), k)
			}
		}
		add("cmt+key", append([]string{"C"}, ks...)...)
		add("alpha+key", append([]string{"A"}, ks...)...)
		if w.n >= 2 {
			add("alpha-1+key", append([]string{"A-"}, ks...)...)
		}
	}
	// bitmask evaluation of the requirement over the universe (atoms standing for the same account hold together)
	// (atoms standing for the same account - e.g. A- and C for n = 6, V/VA/VC for 4 validators - are one bit)
	idx := map[string]int{}
	var hash []util.Uint160
	var uu []string
	for _, a := range u {
		h := w.signer(a, p).ScriptHash()
		k := -1
		for j := range hash {
			if hash[j] == h {
				k = j
			}
		}
		if k < 0 {
			k = len(hash)
			hash = append(hash, h)
			uu = append(uu, a)
		}
		idx[a] = k
	}
	u = uu
	nu := len(u)
	same := make([]int, nu)
	for i := range u {
		same[i] = 1 << i
	}
	memo := make([]int8, 1<<nu)
	metMask := func(mask int) bool {
		if memo[mask] == 0 {
			memo[mask] = -1
			if p.req(func(atom string) bool { i, ok := idx[atom]; return ok && mask&same[i] != 0 }) {
				memo[mask] = 1
			}
		}
		return memo[mask] > 0
	}
	maskOf := func(atoms []string) int {
		m := 0
		for _, a := range atoms {
			if i, ok := idx[a]; ok {
				m |= 1 << i
			}
		}
		return m
	}
	met := func(atoms []string) bool { return metMask(maskOf(atoms)) }
	pick := func(mask int) []string {
		var a []string
		for i := 0; i < nu; i++ {
			if mask&(1<<i) != 0 {
				a = append(a, u[i])
			}
		}
		return a
	}
	var maxUnmet, minMet [][]string
	for mask := 0; mask < 1<<nu; mask++ {
		if metMask(mask) {
			minimal := true
			for i := 0; i < nu && minimal; i++ {
				if mask&(1<<i) != 0 && metMask(mask&^(1<<i)) {
					minimal = false
				}
			}
			if minimal {
				minMet = append(minMet, pick(mask))
			}
		} else {
			maximal := true
			for i := 0; i < nu && maximal; i++ {
				if mask&(1<<i) == 0 && !metMask(mask|(1<<i)) {
					maximal = false
				}
			}
			if maximal {
				maxUnmet = append(maxUnmet, pick(mask))
			}
		}
	}
	for i, a := range maxUnmet {
		add(fmt.Sprintf("allbut%d", i+1), a...)
	}
	var exact []sset
	for i, a := range minMet {
		l := "exact"
		if i > 0 {
			l = fmt.Sprintf("exact%d", i+1)
		}
		exact = append(exact, sset{l, a})
	}
	// order: unmet candidates, exact sets, remaining met candidates; unique by accounts (exact labels win)
	seen := map[string]bool{}
	exactKeys := map[string]bool{}
	for _, s := range exact {
		exactKeys[w.setKey(s.atoms, p)] = true
	}
	var out, later []sset
	for _, s := range cand {
		k := w.setKey(s.atoms, p)
		if seen[k] || exactKeys[k] {
			continue
		}
		seen[k] = true
		if met(s.atoms) {
			later = append(later, s)
		} else {
			out = append(out, s)
		}
	}
	// the same unmet extremes once more through a contract that CATCHES the callee's exception (the transaction
	// HALTs): a guard that comes after an effect is inert only because the VM discards the callee's changes
	if !p.viaProbe && p.target == nil {
		for _, s := range out {
			if s.label == "none" || strings.HasPrefix(s.label, "allbut") {
				out = append(out, sset{"catch-" + s.label, s.atoms})
			}
		}
	}
	for _, s := range exact {
		k := w.setKey(s.atoms, p)
		if seen[k] {
			continue
		}
		seen[k] = true
		out = append(out, s)
	}
	if len(p.quorum) > 1 {
		out = append(out, sset{"quorum", []string{"Q"}})
		// one stored Alphabet key repeating its vote as often as the threshold asks for distinct keys: never the required witnesses
		out = append(out, sset{"repeat", []string{"IR0"}})
	}
	return append(out, later...)
}

// ---------------------------------------------------------------- observations

type snap struct {
	dig  map[string]string
	gas  map[util.Uint160]int64
	neo  map[util.Uint160]int64
	paid int64
	enr  string
}

func (w *world) snapshot() snap {
	s := snap{dig: map[string]string{}, gas: map[util.Uint160]int64{}, neo: map[util.Uint160]int64{}}
	for _, name := range w.order {
		h := w.h[name]
		cs := w.c.BC.GetContractState(h)
		s.dig[name] = fmt.Sprintf("%s/%d/%d", w.c.ScanDigest(h), cs.UpdateCounter, cs.NEF.Checksum)
	}
	for _, a := range w.track {
		s.gas[a] = w.gasOf(a)
		s.neo[a] = w.neoOf(a)
	}
	for _, m := range w.c.Members {
		s.neo[m.ScriptHash()] = w.neoOf(m.ScriptHash())
	}
	s.paid = w.gasOf(w.c.Payer.ScriptHash())
	if vs, err := w.c.BC.GetEnrollments(); err == nil {
		for _, v := range vs {
			s.enr += fmt.Sprintf("%x=%s;", v.Key.Bytes(), v.Votes)
		}
	}
	return s
}

type outcome struct {
	halt    bool
	fault   string
	ret     string
	changed []string // contracts whose raw storage (or executable) changed
	ev      int
	evNames []string
	moved   []string
}

func (o outcome) inert() bool { return len(o.changed) == 0 && o.ev == 0 && len(o.moved) == 0 }

func (o outcome) String() string {
	s := "FAULT"
	if o.halt {
		s = "HALT"
	}
	s += fmt.Sprintf(" changed=[%s] ev=%d moved=%t", strings.Join(o.changed, ","), o.ev, len(o.moved) > 0)
	if o.ret != "" {
		s += " ret=" + o.ret
	}
	return s
}

func (o outcome) what() string {
	var parts []string
	if len(o.changed) > 0 {
		parts = append(parts, "storage of "+strings.Join(o.changed, ","))
	}
	if o.ev > 0 {
		parts = append(parts, fmt.Sprintf("%d notification(s) %v", o.ev, o.evNames))
	}
	if len(o.moved) > 0 {
		parts = append(parts, "tokens: "+strings.Join(o.moved, "; "))
	}
	if len(parts) == 0 {
		return "nothing"
	}
	return strings.Join(parts, "; ")
}

func (w *world) nameOf(h util.Uint160) string {
	for n, x := range w.h {
		if x == h {
			return n
		}
	}
	for t, u := range w.users {
		if u.ScriptHash() == h {
			return "user:" + t
		}
	}
	return h.StringLE()[:8]
}

// observe runs one transaction and compares the world before and after.
func (w *world) observe(tx *transaction.Transaction) outcome {
	before := w.snapshot()
	r := w.c.Exec(tx)[0]
	after := w.snapshot()
	o := outcome{halt: r.Halt, fault: r.Fault}
	for _, name := range w.order {
		if before.dig[name] != after.dig[name] {
			o.changed = append(o.changed, name)
		}
	}
	if before.enr != after.enr {
		o.changed = append(o.changed, "native:NEO-votes")
	}
	// notifications of a FAULTed execution are discarded with the rest of its effects (neo-go keeps them in the
	// application log for debugging but never delivers them to subscribers): only HALTed executions emit
	if r.Halt {
		o.ev = len(r.Events)
		for _, e := range r.Events {
			o.evNames = append(o.evNames, w.eventName(e))
		}
	} else if len(r.Events) > 0 {
		w.run.Count("note.fault-with-discarded-notifications")
	}
	accs := make([]util.Uint160, 0, len(after.neo))
	for a := range after.neo {
		accs = append(accs, a)
	}
	sort.Slice(accs, func(i, j int) bool { return accs[i].Less(accs[j]) })
	for _, a := range accs {
		if g0, ok := before.gas[a]; ok && g0 != after.gas[a] {
			o.moved = append(o.moved, fmt.Sprintf("GAS of %s %+d", w.nameOf(a), after.gas[a]-g0))
		}
		if before.neo[a] != after.neo[a] {
			o.moved = append(o.moved, fmt.Sprintf("NEO of %s %+d", w.nameOf(a), after.neo[a]-before.neo[a]))
		}
	}
	if d := after.paid - before.paid; d != -(tx.SystemFee + tx.NetworkFee) {
		o.moved = append(o.moved, fmt.Sprintf("GAS of the fee payer %+d beyond the fees", d+tx.SystemFee+tx.NetworkFee))
	}
	if r.Halt && len(r.Stack) == 1 {
		switch it := r.Stack[0].(type) {
		case stackitem.Null:
		case *stackitem.Bool, stackitem.Bool:
			b, _ := it.TryBool()
			o.ret = fmt.Sprint(b)
		}
	}
	return o
}

func (w *world) eventName(e state.NotificationEvent) string {
	src := w.nameOf(e.ScriptHash)
	if e.ScriptHash == w.c.GAS {
		src = "GAS"
	} else if e.ScriptHash == w.c.NEO {
		src = "NEO"
	}
	return src + "." + e.Name
}

// ---------------------------------------------------------------- methods of the manifests

type meth struct {
	contract string // harness name (neofs-vote = second deployment of neofs)
	name     string
	key      string // name, or name/<parameter count> when overloaded
	safe     bool
	params   []string
}

func (w *world) methods(contract string) []meth {
	m := w.man[contract]
	cnt := map[string]int{}
	for _, x := range m.ABI.Methods {
		cnt[x.Name]++
	}
	var out []meth
	for _, x := range m.ABI.Methods {
		if strings.HasPrefix(x.Name, "_") {
			continue
		}
		k := x.Name
		if cnt[x.Name] > 1 {
			k = fmt.Sprintf("%s/%d", x.Name, len(x.Parameters))
		}
		mm := meth{contract: contract, name: x.Name, key: k, safe: x.Safe}
		for _, p := range x.Parameters {
			mm.params = append(mm.params, p.Type.String())
		}
		out = append(out, mm)
	}
	sort.Slice(out, func(i, j int) bool { return out[i].key < out[j].key })
	return out
}

func (w *world) findMethod(contract, key string) (meth, bool) {
	base := key
	if i := strings.IndexByte(base, '#'); i >= 0 {
		base = base[:i]
	}
	for _, m := range w.methods(contract) {
		if m.key == base {
			return m, true
		}
	}
	return meth{}, false
}

func manifestOf(w *world, contract string) *manifest.Manifest { return w.man[contract] }

// ---------------------------------------------------------------- one cell

var table = builders()

func site(w *world, m meth) string { return w.src[m.contract] + "." + m.name }

func (w *world) mode(contract string) string {
	if contract == "neofs-vote" {
		return " (NeoFS deployed with notary disabled: vote mode)"
	}
	return ""
}

func (w *world) buildTx(m meth, p *plan, signers []neotest.Signer) *transaction.Transaction {
	target, method := w.h[m.contract], m.name
	if p.target != nil {
		target, method = *p.target, p.tmethod
	}
	if p.viaCatcher {
		return w.c.NewTx(signers, w.h["catcher"], "tryCall", target, method, p.args)
	}
	if p.viaProbe {
		return w.c.NewTx(signers, w.h["probe"], "call", target, method, p.args)
	}
	return w.c.NewTx(signers, target, method, p.args...)
}

// planFor calls the builder of a method; a method the requirement table does not know gets the default requirement
// "with no witness of any of the known accounts it is inert" (neutral arguments; fuzzed like the others), so that a new
// guarded method is not an alarm and a new unguarded one is.
func (w *world) planFor(contract, key string, m meth) *plan {
	var p *plan
	if bld := table[contract+"."+key]; bld != nil {
		p = bld(w)
	} else {
		p = &plan{args: zeroArgs(m.params), req: never, fuzzable: true, doc: "method unknown to the requirement table: default requirement (some witness)"}
	}
	if p.req == nil {
		p.req = never
	}
	return p
}

// execCell executes the cell <contract>.<key> x set (x fuzz) and runs the monitor. Returns the observation line.
func (w *world) execCell(contract, key string, set sset, fuzz string) string {
	m, ok := w.findMethod(contract, key)
	if !ok {
		w.t.Fatalf("no method %s in the manifest of %s", key, contract)
	}
	if m.safe {
		return w.execSafe(m, set)
	}
	p := w.planFor(contract, key, m)
	if table[contract+"."+key] == nil {
		w.run.Count("unmapped." + site(w, m))
	}
	if fuzz != "" {
		w.applyFuzz(m, p, fuzz)
	}
	cellID := fmt.Sprintf("%s.%s set=%s n=%s%s", contract, key, set, w.tag, w.mode(contract))
	if fuzz != "" {
		cellID += " fuzz=" + fuzz
	}
	v := func(what, detail string) {
		w.violation(site(w, m), what, cellID+": "+detail+"; documented requirement: "+p.doc)
	}
	if p.role != nil {
		return w.execRoleChange(m, p, v)
	}
	if set.label == "quorum" {
		return w.execQuorum(m, p, v)
	}
	if set.label == "repeat" {
		return w.execRepeat(m, p, v)
	}
	if strings.HasPrefix(set.label, "catch-") {
		p.viaCatcher = true
		if p.args == nil {
			p.args = []any{}
		}
	}
	met := fuzz == "" && p.req(w.holdsFor(set.atoms, p))
	signers := w.signersOf(set.atoms, p)
	o := w.observe(w.buildTx(m, p, signers))
	w.run.Count("cell." + contract + "." + key)
	w.run.Count("set." + set.label)
	switch {
	case !met || p.inertAlways:
		w.run.Count("dir.unmet")
		if !o.inert() {
			v("effect-without-witness", fmt.Sprintf("requirement not met, yet the transaction (%s) changed %s", vmState(o), o.what()))
		}
		if p.inertAlways && fuzz == "" && !o.halt {
			w.run.Count("note.inert-method-fault")
		}
	default:
		minimal := strings.HasPrefix(set.label, "exact")
		w.run.Count("dir.met")
		if minimal && !p.noHalt {
			if !o.halt {
				v("required-witnesses-rejected", "exactly the required witnesses, yet FAULT: "+o.fault)
			} else if o.ret == "false" {
				v("required-witnesses-rejected", "exactly the required witnesses, yet the method answered false")
			} else if p.effect && o.inert() {
				v("required-witnesses-rejected", "exactly the required witnesses, HALT, but nothing took effect")
			}
		}
		if p.noHalt {
			w.run.Count("note.positive-not-checked." + contract + "." + key)
		}
	}
	return o.String()
}

func vmState(o outcome) string {
	if o.halt {
		return "HALT"
	}
	return "FAULT"
}

// execQuorum: vote mode, full positive direction: one transaction per stored Alphabet key, 2n/3+1 of them;
// every one HALTs, the last one executes the action.
func (w *world) execQuorum(m meth, p *plan, v func(what, detail string)) string {
	var last outcome
	for i, s := range p.quorum {
		last = w.observe(w.buildTx(m, p, []neotest.Signer{s}))
		if !last.halt {
			v("required-witnesses-rejected", fmt.Sprintf("vote %d of %d by a stored Alphabet key FAULTed: %s", i+1, len(p.quorum), last.fault))
			break
		}
	}
	w.run.Count("cell." + m.contract + "." + m.key)
	w.run.Count("set.quorum")
	if last.halt && last.ev == 0 && len(last.moved) == 0 && m.name != "innerRingCandidateRemove" {
		v("required-witnesses-rejected", fmt.Sprintf("%d votes of distinct stored Alphabet keys (2n/3+1) did not execute the action", len(p.quorum)))
	}
	if last.halt && m.name == "innerRingCandidateRemove" && w.isIRCandidate(m.contract, p.args[0].([]byte)) {
		v("required-witnesses-rejected", fmt.Sprintf("%d votes of distinct stored Alphabet keys (2n/3+1) did not remove the candidate", len(p.quorum)))
	}
	return last.String()
}

// execRepeat: vote mode, negative direction of the threshold: ONE stored Alphabet key sends the same vote as many
// times as the threshold asks for distinct keys (after every older ballot has expired); the action must not execute.
func (w *world) execRepeat(m meth, p *plan, v func(what, detail string)) string {
	for i := 0; i < 22; i++ { // ballots older than 20 blocks are purged by the next vote
		w.c.AddBlock()
	}
	s := p.quorum[len(p.quorum)-1]
	wasCand := m.name == "innerRingCandidateRemove" && w.isIRCandidate(m.contract, p.args[0].([]byte))
	var last outcome
	for i := range p.quorum {
		last = w.observe(w.buildTx(m, p, []neotest.Signer{s}))
		if !last.halt {
			break
		}
		if last.ev != 0 || len(last.moved) != 0 || (wasCand && !w.isIRCandidate(m.contract, p.args[0].([]byte))) {
			v("effect-without-witness", fmt.Sprintf("vote %d of ONE stored Alphabet key repeated (threshold %d distinct keys) executed the action: %s", i+1, len(p.quorum), last.what()))
			break
		}
	}
	w.run.Count("cell." + m.contract + "." + m.key)
	w.run.Count("set.repeat")
	return last.String()
}

// execSafe: methods declared safe never modify state, whoever signs. `verify` of Proxy/Alphabet/Processing
// additionally answers true only under the Alphabet multi-signature.
func (w *world) execSafe(m meth, set sset) string {
	args := safeArgs(w, m.contract, m.key)
	if args == nil {
		args = zeroArgs(m.params)
	}
	p := &plan{args: args}
	signers := w.signersOf(set.atoms, p)
	cellID := fmt.Sprintf("%s.%s set=%s n=%s", m.contract, m.key, set, w.tag)
	o := w.observe(w.buildTx(m, p, signers))
	w.run.Count("safe." + m.contract + "." + m.key)
	w.run.Count("set." + set.label)
	if !o.inert() {
		w.violation(site(w, m), "safe-method-mutates", cellID+": "+vmState(o)+", changed "+o.what())
	} else if !o.halt && strings.Contains(o.fault, "missing call flags") {
		w.violation(site(w, m), "safe-method-mutates", cellID+": the method attempted a write/notification and was stopped only by the VM's read-only call flags: "+o.fault)
	}
	if !o.halt {
		w.run.Count("note.safe-fault." + m.contract + "." + m.key)
	}
	if m.name == "verify" {
		h := w.holdsFor(set.atoms, p)
		want := h("A") || h("C")
		doc := "the Alphabet multi-signature (2n/3+1) or the committee-majority one"
		if w.src[m.contract] == "processing" {
			want = h("IRA")
			doc = "the 2n/3+1 multi-signature of the Alphabet keys stored in the NeoFS contract"
		}
		got := o.halt && o.ret == "true"
		// the same through a test invocation (how the repository's tests and the Notary service evaluate it)
		st, err := w.c.CallAs(signers, w.h[m.contract], "verify")
		tgot := err == nil && len(st) == 1 && func() bool { b, e := st[0].TryBool(); return e == nil && b }()
		// and the way it is used for real: the contract is the SENDER of a transaction (pays its fees); the node admits
		// the transaction only if verify, run with the Verification trigger, answers true
		vgot := w.verifiesAsSender(m.contract, signers)
		if got && !want || tgot && !want || vgot && !want {
			w.violation(site(w, m), "verify-accepts", cellID+fmt.Sprintf(": verify answered true (transaction %t, test invocation %t, as fee-paying sender %t) without ", got, tgot, vgot)+doc)
		}
		if want && (!got || !tgot || !vgot) {
			w.violation(site(w, m), "required-witnesses-rejected", cellID+fmt.Sprintf(": verify answered false or FAULTed (transaction %t, test invocation %t, as fee-paying sender %t) under ", got, tgot, vgot)+doc)
		}
		return o.String() + fmt.Sprintf(" test=%t sender=%t", tgot, vgot)
	}
	return o.String()
}

// verifiesAsSender: would the node admit a transaction whose sender is the contract (witness = its verify method)
// and whose other signers are the given ones?
func (w *world) verifiesAsSender(contract string, signers []neotest.Signer) bool {
	h := w.h[contract]
	w.ensureGAS(h, 10_0000_0000)
	script, err := smartcontract.CreateCallScript(h, "version")
	if err != nil {
		w.t.Fatal(err)
	}
	cs := neotest.NewContractSigner(h, func(*transaction.Transaction) []any { return nil })
	tx := transaction.New(script, 1_0000_0000)
	tx.Nonce = neotest.Nonce()
	tx.ValidUntilBlock = w.c.BC.BlockHeight() + 1
	tx.Signers = []transaction.Signer{{Account: h, Scopes: transaction.None}}
	all := []neotest.Signer{cs}
	for _, s := range signers {
		tx.Signers = append(tx.Signers, transaction.Signer{Account: s.ScriptHash(), Scopes: transaction.Global})
		all = append(all, s)
	}
	// network fee: generous fixed amount (the verification cost itself is part of what is being tested)
	tx.NetworkFee = 1_0000_0000
	for _, s := range all {
		if err := s.SignTx(w.c.BC.GetConfig().Magic, tx); err != nil {
			w.t.Fatal(err)
		}
	}
	return w.c.BC.VerifyTx(tx) == nil
}

func safeSets(w *world, m meth) []sset {
	if m.name == "verify" {
		return []sset{{"none", nil}, {"stranger", []string{"S"}}, {"alpha1", []string{"M0"}}, {"ir1", []string{"IR0"}}, {"cmt", []string{"C"}},
			{"alpha", []string{"A"}}, {"ira", []string{"IRA"}}, {"irm", []string{"IRM"}}, {"singles", []string{"S", "M0", "IR0"}},
			{"fs-multisigs", []string{"C", "A"}}, {"ir-multisigs", []string{"IRA", "IRM"}}, {"all", []string{"S", "M0", "IR0", "C", "A", "IRA", "IRM"}},
			{"cmt-1", []string{"C-"}}, {"alpha-1", []string{"A-"}}, {"irm-1", []string{"IRM-"}}, {"ira-1", []string{"IRA-"}},
			{"all-short", []string{"S", "M0", "IR0", "C-", "A-", "IRM-", "IRA-"}},
			{"validators", []string{"V"}}, {"val-alpha", []string{"VA"}}, {"val-cmt", []string{"VC"}}, {"member-nv", []string{"MN"}},
			{"all-validators", []string{"S", "M0", "MN", "IR0", "V", "VA", "VC", "C-", "IRM-"}}}
	}
	return []sset{{"none", nil}, {"stranger", []string{"S"}}, {"alpha", []string{"A"}}, {"cmt", []string{"C"}}, {"validators", []string{"V"}},
		{"all", []string{"S", "M0", "IR0", "C", "A", "IRA", "IRM", "V", "MN"}}}
}

func uniqueSets(w *world, in []sset) []sset {
	seen := map[string]bool{}
	var out []sset
	for _, s := range in {
		k := w.setKey(s.atoms, &plan{})
		if seen[k] {
			continue
		}
		seen[k] = true
		out = append(out, s)
	}
	return out
}

// violation queues a monitor hit; it is reported after the op line has been recorded, so that the op is part of the replay.
func (w *world) violation(site, what, detail string) {
	w.pending = append(w.pending, [3]string{site, what, detail})
}

func (w *world) flush() {
	for _, v := range w.pending {
		w.run.Violation(prop, v[0], v[1], v[2])
	}
	w.pending = nil
}

// ---------------------------------------------------------------- op lines

func opLine(n string, contract, key string, set sset, fuzz string) string {
	l := fmt.Sprintf("op n=%s %s %s set=%s", n, contract, key, set)
	if fuzz != "" {
		l += " fuzz=" + fuzz
	}
	return l
}

type opSpec struct {
	n, v          int
	contract, key string
	set           sset
	fuzz          string
}

func parseOp(line string) (opSpec, error) {
	f := strings.Fields(line)
	if len(f) < 5 || f[0] != "op" || !strings.HasPrefix(f[1], "n=") || !strings.HasPrefix(f[4], "set=") {
		return opSpec{}, fmt.Errorf("bad op line %q", line)
	}
	nv := strings.SplitN(f[1][2:], "/", 2) // n=<committee>[/<validators>]
	n, err := strconv.Atoi(nv[0])
	if err != nil {
		return opSpec{}, err
	}
	v := 0
	if len(nv) == 2 {
		if v, err = strconv.Atoi(nv[1]); err != nil {
			return opSpec{}, err
		}
	}
	o := opSpec{n: n, v: v, contract: f[2], key: f[3], set: parseSet(f[4][4:])}
	if len(f) > 5 && strings.HasPrefix(f[5], "fuzz=") {
		o.fuzz = f[5][5:]
	}
	return o, nil
}

// ---------------------------------------------------------------- run

type unit struct {
	n, v     int
	contract string
	kind     string // cells | safe | fuzz
}

func TestRun(t *testing.T) {
	run := hx.Open(t)
	defer run.Close()
	defer cleanupScratch()
	worlds := map[[2]int]*world{}
	get := func(n, v int) *world {
		if w, ok := worlds[[2]int{n, v}]; ok {
			return w
		}
		w := newWorld(t, run, n, v)
		worlds[[2]int{n, v}] = w
		return w
	}
	if run.Mode == "replay" {
		var w *world
		for _, l := range run.ReplayLines() {
			if strings.HasPrefix(l, "case ") {
				f := strings.Fields(l)
				run.Case(f[1], f[2:]...)
				w = nil // every case runs on a fresh deployment
				continue
			}
			o, err := parseOp(l)
			if err != nil {
				t.Fatal(err)
			}
			if w == nil || w.n != o.n || w.v != o.v {
				w = newWorld(t, run, o.n, o.v)
			}
			run.Op(l, w.execCell(o.contract, o.key, o.set, o.fuzz))
			w.flush()
		}
		return
	}
	// committee sizes: 1 (the repository's own tests), 3 and 7 (2n/3+1 and n/2+1 accounts differ), 6 (EVEN: n/2+1 differs
	// from ceil(n/2), and 2n/3+1, n/2+1, n/2 are three different thresholds). Quick runs the even size on the
	// threshold-sensitive part only (update, verify, a few Alphabet- and committee-gated methods).
	sizes := []int{1, 3}
	if run.Tier == "thorough" {
		sizes = []int{1, 3, 5, 6, 7}
	}
	contracts := append(append([]string{}, repoContracts...), "neofs-vote")
	var units []unit
	// 6/4: a committee of 6 of which only 4 are validators (neo.GetCommittee() != neo.GetNextBlockValidators()); the six
	// committee keys give the same thresholds as the plain size 6, so quick runs the even size on this chain
	if run.Tier != "thorough" {
		units = append(units, unit{6, 4, "*", "lite"})
		units = append(units, unit{5, 0, "*", "lite"}) // n ≡ 2 (mod 3): 2n/3+1 = 4 differs from floor(n/3)*2+1 = 3 = n/2+1
	}
	for _, n := range sizes {
		for _, c := range contracts {
			units = append(units, unit{n, 0, c, "cells"}, unit{n, 0, c, "safe"}, unit{n, 0, c, "fuzz"})
		}
	}
	if run.Tier == "thorough" {
		for _, c := range contracts {
			units = append(units, unit{6, 4, c, "cells"}, unit{6, 4, c, "safe"})
		}
		units = append(units, unit{7, 5, "*", "lite"}) // 7/5: 2k/3+1 = 4 and k/2+1 = 3 over the validators are different accounts
	}
	lite := map[string]bool{"balance.mint": true, "netmap.addPeerIR": true, "netmap.newEpoch": true, "neofsid.addKey": true, "reputation.put": true,
		"container.delete": true, "audit.put": true, "neofs.setConfig": true, "neofs.innerRingCandidateRemove": true, "nns.setPrice": true, "nns.registerTLD": true, "alphabet.vote": true, "alphabet.emit": true,
		"container.put/4": true, "netmap.addPeer": true, "balance.transferX": true}
	for ui, u := range units {
		if ui%run.Shards != run.Shard {
			continue
		}
		w := get(u.n, u.v)
		cs := []string{u.contract}
		if u.contract == "*" {
			cs = contracts
		}
		run.Case(fmt.Sprintf("n%s.%s.%s", strings.ReplaceAll(w.tag, "/", "v"), u.contract, u.kind), "wf")
		var sample []string
		for _, cname := range cs {
			do := func(key string, set sset, fuzz string) {
				l := opLine(w.tag, cname, key, set, fuzz)
				obs := w.execCell(cname, key, set, fuzz)
				run.Op(l, obs)
				w.flush()
				if len(sample) < 8 {
					sample = append(sample, l+"  =>  "+obs)
				}
			}
			cells := func(m meth) {
				keys := append([]string{m.key}, variantsOf(table, cname+"."+m.key)...)
				for i, k := range keys {
					if i > 0 {
						k = k[len(cname)+1:]
					}
					for _, s := range w.setsFor(w.planFor(cname, k, m)) {
						do(k, s, "")
					}
				}
			}
			for _, m := range w.methods(cname) {
				switch {
				case u.kind == "lite":
					if m.name == "verify" {
						for _, s := range uniqueSets(w, safeSets(w, m)) {
							do(m.key, s, "")
						}
					} else if m.name == "update" || lite[cname+"."+m.key] {
						cells(m)
					}
				case u.kind == "safe" && m.safe:
					for _, s := range uniqueSets(w, safeSets(w, m)) {
						do(m.key, s, "")
					}
					run.Count("methods.safe")
				case u.kind == "cells" && !m.safe:
					cells(m)
					run.Count("methods.mutating")
				case u.kind == "fuzz" && !m.safe:
					for _, fz := range w.fuzzPlan(m, run, ui) {
						do(m.key, fz.set, fz.spec)
					}
				}
			}
		}
		if len(sample) > 0 && (u.kind == "cells" || u.kind == "lite" || run.Shard > 0) {
			run.Sample(strings.Join(sample, "\n"))
		}
	}
	_ = chainx.Repo
}
