package access

// Requirement table (the documented witnesses per contract method, mirroring lean/NeoFS/Model/AccessExpect.lean
// and DESIGN.md appendix H) together with the per-method argument builders: each builder returns VALID
// arguments - with exactly the required witnesses the call HALTs and takes effect - after having created
// whatever state the call needs (set-up transactions carry every privileged witness).

import (
	"fmt"
	"math"
	"sort"
	"strings"

	"github.com/nspcc-dev/neo-go/pkg/neotest"
	"github.com/nspcc-dev/neo-go/pkg/util"
	"github.com/nspcc-dev/neo-go/pkg/vm/stackitem"

	"verifharness/chainx"
)

// holds tells which witness atoms a signer set carries.
// Atoms: A = Alphabet account (2n/3+1 of the committee), C = committee majority (n/2+1), IRA / IRM = 2/3+1 and
// majority accounts of the keys holding the NeoFSAlphabet role (= the Alphabet keys stored in the NeoFS contract),
// M0 = a single committee member, IR0 = a single Inner Ring / stored Alphabet key, S = a stranger, K1.. = the keys named in the arguments.
type holds func(atom string) bool

type plan struct {
	target      *util.Uint160 // contract invoked by the transaction when it is not the method's contract (payment callbacks through GAS/NEO)
	tmethod     string
	args        []any
	viaProbe    bool // invoked through the caller probe (calling script hash = probe)
	viaCatcher  bool // invoked through the catcher probe (the callee's exception is caught, the transaction HALTs)
	keys        []neotest.Signer
	req         func(h holds) bool
	effect      bool             // with the requirement met the call changes something observable
	inertAlways bool             // the method has no effect on any path: inert and HALT whoever signs
	noHalt      bool             // the positive direction is not checked (documented exception, e.g. an already updated contract)
	quorum      []neotest.Signer // vote mode: full positive direction = one transaction per listed key, the last one fires
	fuzzable    bool             // requirement is a pure witness requirement: random arguments under unmet witnesses must stay inert
	doc         string           // the requirement in words (for violation details)
	// role-change schedule (rolechange_test.go): builds the transaction of the dismissed / of the new Inner Ring member
	role func(w *world, old, cur []neotest.SingleSigner, dismissed bool, round int) roleTx
}

func never(holds) bool { return false }
func rA(h holds) bool  { return h("A") }
func rC(h holds) bool  { return h("C") }
func rK1(h holds) bool { return h("K1") }

type builder func(w *world) *plan

func alphabetOnly(args func(w *world) []any, effect bool) builder {
	return func(w *world) *plan {
		return &plan{args: args(w), req: rA, effect: effect, fuzzable: true, doc: "Alphabet (2n/3+1)"}
	}
}

// ---- update: committee majority; neofs / processing: majority of the NeoFSAlphabet role keys

func updateBuilder(name string) builder {
	return func(w *world) *plan {
		src := w.src[name]
		p := &plan{args: w.updateArgs(name), effect: true, fuzzable: true}
		if src == "neofs" || src == "processing" {
			p.req = func(h holds) bool { return h("IRM") }
			p.doc = "majority (n/2+1) of the NeoFSAlphabet role keys"
		} else {
			p.req = rC
			p.doc = "committee majority (n/2+1)"
		}
		return p
	}
}

// parseVersion evaluates common.Version of the sources under root (independent of how its components are called).
func parseVersion(root string) int64 {
	v, err := chainx.SourceVersion(root)
	if err != nil {
		panic(err)
	}
	return v
}

// ---- payment callbacks: direct call, through the probe, through real GAS / NEO transfers

func callbackBuilders(name string, acceptsNEO bool) map[string]builder {
	out := map[string]builder{}
	direct := func(w *world) []any {
		u := w.user("payer2")
		return []any{u.ScriptHash(), int64(100), u.ScriptHash()}
	}
	out["onNEP17Payment"] = func(w *world) *plan {
		return &plan{args: direct(w), req: never, fuzzable: true, doc: "calling contract must be GAS" + map[bool]string{true: " or NEO", false: ""}[acceptsNEO]}
	}
	out["onNEP17Payment#viaprobe"] = func(w *world) *plan {
		return &plan{args: direct(w), req: never, viaProbe: true, doc: "calling contract must be GAS (called from another contract)"}
	}
	out["onNEP17Payment#gas"] = func(w *world) *plan {
		u := w.user("payer2")
		w.ensureGAS(u.ScriptHash(), 1000)
		return &plan{target: &w.c.GAS, tmethod: "transfer", args: []any{u.ScriptHash(), w.h[name], int64(100), u.ScriptHash()},
			keys: []neotest.Signer{u}, req: rK1, effect: true, doc: "GAS transfer signed by the payer"}
	}
	out["onNEP17Payment#neo"] = func(w *world) *plan {
		u := w.user("payer2")
		w.ensureNEO(u.ScriptHash(), 10)
		p := &plan{target: &w.c.NEO, tmethod: "transfer", args: []any{u.ScriptHash(), w.h[name], int64(1), u.ScriptHash()},
			keys: []neotest.Signer{u}, req: never, doc: "NEO is not accepted"}
		if acceptsNEO {
			p.req, p.effect, p.doc = rK1, true, "NEO transfer signed by the payer"
		}
		return p
	}
	return out
}

// ---- the table

func builders() map[string]builder {
	b := map[string]builder{}
	add := func(contract string, m map[string]builder) {
		for k, v := range m {
			b[contract+"."+k] = v
		}
	}
	for _, name := range append(append([]string{}, repoContracts...), "neofs-vote") {
		b[name+".update"] = updateBuilder(name)
	}

	// ------------------------------------------------------------ alphabet
	add("alphabet", callbackBuilders("alphabet", true))
	b["alphabet.emit"] = func(w *world) *plan {
		w.ensureGAS(w.h["alphabet"], 1_0000_0000)
		w.ensureNEO(w.h["alphabet"], 10)
		return &plan{args: nil, keys: []neotest.Signer{w.c.Members[w.idx]}, req: rK1, effect: true, fuzzable: true,
			doc: "the contract's own Alphabet node key (committee[index])"}
	}
	b["alphabet.vote"] = func(w *world) *plan {
		w.ensureNEO(w.h["alphabet"], 10)
		w.ensureNEOCandidate()
		return &plan{args: []any{w.epoch(), []any{pub(w.c.Members[0])}}, req: rA, effect: true, fuzzable: true, doc: "Alphabet (2n/3+1)"}
	}

	// ------------------------------------------------------------ audit
	roleChangeBuilders(b)
	existingBuilders(b)
	auditBlob := func(w *world, key []byte) []byte {
		raw := []byte{0x0a, 0x00, 0x10}
		raw = append(raw, 1, 0, 0, 0, 0, 0, 0, 0) // epoch 1
		raw = append(raw, 0x1a, 34, 0x0a, 32)
		raw = append(raw, digest("audit-cid", w.next())...)
		raw = append(raw, 0x22, 33)
		raw = append(raw, key...)
		return raw
	}
	b["audit.put"] = func(w *world) *plan {
		return &plan{args: []any{auditBlob(w, pub(w.ir[0]))}, keys: []neotest.Signer{w.ir[0]}, req: rK1, effect: true, fuzzable: true,
			doc: "the Inner Ring member key named in the header"}
	}
	b["audit.put#nonmember"] = func(w *world) *plan {
		s := w.user("stranger")
		return &plan{args: []any{auditBlob(w, pub(s))}, req: never, doc: "key named in the header does not hold the NeoFSAlphabet role"}
	}

	// ------------------------------------------------------------ balance
	b["balance.transfer"] = func(w *world) *plan {
		o, u := w.user("owner"), w.user("u2")
		w.ensureBalance(o.ScriptHash(), 10)
		return &plan{args: []any{o.ScriptHash(), u.ScriptHash(), int64(3), nil}, keys: []neotest.Signer{o}, req: rK1, effect: true, fuzzable: true,
			doc: "the holder (`from`)"}
	}
	b["balance.transfer#fromcaller"] = func(w *world) *plan {
		w.ensureBalance(w.h["probe"], 10)
		return &plan{args: []any{w.h["probe"], w.user("u2").ScriptHash(), int64(3), nil}, viaProbe: true, req: func(holds) bool { return true }, effect: true,
			doc: "the holder is the calling contract"}
	}
	b["balance.transfer#viaprobe"] = func(w *world) *plan {
		o, u := w.user("owner"), w.user("u2")
		w.ensureBalance(o.ScriptHash(), 10)
		return &plan{args: []any{o.ScriptHash(), u.ScriptHash(), int64(3), nil}, viaProbe: true, keys: []neotest.Signer{o}, req: rK1, effect: true,
			doc: "the holder (`from`), call relayed by another contract"}
	}
	b["balance.transferX"] = func(w *world) *plan {
		o, u := w.user("owner"), w.user("u2")
		w.ensureBalance(o.ScriptHash(), 10)
		return &plan{args: []any{o.ScriptHash(), u.ScriptHash(), int64(2), []byte{0xaa}}, req: rA, effect: true, fuzzable: true, doc: "Alphabet (2n/3+1)"}
	}
	b["balance.lock"] = func(w *world) *plan {
		o := w.user("owner")
		w.ensureBalance(o.ScriptHash(), 10)
		lockAcc, _ := util.Uint160DecodeBytesBE(digest("lock", w.n, w.next())[:20])
		return &plan{args: []any{[]byte{1, 2}, o.ScriptHash(), lockAcc, int64(1), w.epoch() + 100}, req: rA, effect: true, fuzzable: true, doc: "Alphabet (2n/3+1)"}
	}
	b["balance.mint"] = alphabetOnly(func(w *world) []any { return []any{w.user("owner").ScriptHash(), int64(50), []byte{7}} }, true)
	b["balance.burn"] = func(w *world) *plan {
		o := w.user("owner")
		w.ensureBalance(o.ScriptHash(), 10)
		return &plan{args: []any{o.ScriptHash(), int64(1), []byte{8}}, req: rA, effect: true, fuzzable: true, doc: "Alphabet (2n/3+1)"}
	}
	b["balance.newEpoch"] = func(w *world) *plan {
		// something to release: a lock account that expired long ago
		o := w.user("owner")
		lockAcc, _ := util.Uint160DecodeBytesBE(digest("expired-lock", w.n)[:20])
		if !w.storageHas("balance", append([]byte{'a'}, lockAcc.BytesBE()...)) {
			w.ensureBalance(o.ScriptHash(), 10)
			w.must(w.god(), w.h["balance"], "lock", []byte{9}, o.ScriptHash(), lockAcc, int64(1), int64(1))
		}
		return &plan{args: []any{w.epoch() + 1}, req: rA, effect: true, fuzzable: true, doc: "Alphabet (2n/3+1)"}
	}

	// ------------------------------------------------------------ container
	putArgs := func(w *world, extra ...any) []any {
		o := w.user("owner")
		w.ensureBalance(o.ScriptHash(), int64((containerFee+containerAliasFee)*w.n))
		cn := w.containerFor(o.ScriptHash(), fmt.Sprint("fresh", w.next()))
		return append([]any{cn.blob, cn.sig, cn.pub, cn.token}, extra...)
	}
	b["container.put/4"] = alphabetOnly(func(w *world) []any { return putArgs(w) }, true)
	b["container.put/5"] = alphabetOnly(func(w *world) []any { return putArgs(w, true) }, true)
	b["container.putNamed"] = alphabetOnly(func(w *world) []any { return putArgs(w, fmt.Sprintf("cnt%dx%d", w.n, w.next()), "") }, true)
	b["container.delete"] = func(w *world) *plan {
		var cn cnt
		for i := 0; ; i++ { // deletion is final: take the first container of the series that was not deleted yet
			cn = w.containerFor(w.user("owner").ScriptHash(), fmt.Sprint("to-delete", i))
			if !w.storageHas("container", append([]byte{'d'}, cn.id...)) {
				cn = w.ensureContainer(fmt.Sprint("to-delete", i))
				break
			}
		}
		return &plan{args: []any{cn.id, cn.sig, cn.token}, req: rA, effect: true, fuzzable: true, doc: "Alphabet (2n/3+1)"}
	}
	b["container.delete#missing"] = func(w *world) *plan { // documented: a missing container is an effect-free return, before the witness check
		return &plan{args: []any{digest("no-such-container"), digest("s"), []byte{}}, req: never, inertAlways: true, doc: "missing container: effect-free return"}
	}
	b["container.setEACL"] = func(w *world) *plan {
		cn := w.ensureContainer("std")
		e := make([]byte, 50)
		copy(e[6:], cn.id)
		e[40] = byte(w.next())
		return &plan{args: []any{e, cn.sig, cn.pub, cn.token}, req: rA, effect: true, fuzzable: true, doc: "Alphabet (2n/3+1)"}
	}
	b["container.addNextEpochNodes"] = alphabetOnly(func(w *world) []any {
		return []any{digest("roster-cid"), int64(0), []any{pub(w.user("node0")), pub(w.user("node1"))}}
	}, true)
	b["container.commitContainerListUpdate"] = alphabetOnly(func(w *world) []any { return []any{digest("roster-cid"), []byte{1}} }, true)
	b["container.newEpoch"] = alphabetOnly(func(w *world) []any { return []any{w.epoch() + 1} }, false)
	b["container.startContainerEstimation"] = alphabetOnly(func(w *world) []any { return []any{w.epoch()} }, true)
	b["container.stopContainerEstimation"] = alphabetOnly(func(w *world) []any { return []any{w.epoch()} }, true)
	b["container.putContainerSize"] = func(w *world) *plan {
		cn := w.ensureContainer("std")
		nd := w.user("node0")
		w.ensureInPreviousNetmap(nd)
		return &plan{args: []any{w.epoch(), cn.id, int64(100 + w.next()), pub(nd)}, keys: []neotest.Signer{nd}, req: rK1, effect: true, fuzzable: true,
			doc: "the storage node key named in the arguments, present in the previous epoch's network map"}
	}
	b["container.putContainerSize#nonnode"] = func(w *world) *plan {
		cn := w.ensureContainer("std")
		w.ensureInPreviousNetmap(w.user("node0"))
		s := w.user("stranger")
		return &plan{args: []any{w.epoch(), cn.id, int64(7), pub(s)}, req: never, doc: "named key is not in the previous epoch's network map"}
	}
	meta := func(w *world, cid []byte) []byte {
		m := stackitem.NewMapWithValue([]stackitem.MapElement{
			{Key: stackitem.Make("network"), Value: stackitem.Make(int64(w.c.BC.GetConfig().Magic))},
			{Key: stackitem.Make("cid"), Value: stackitem.Make(cid)},
			{Key: stackitem.Make("oid"), Value: stackitem.Make(digest("oid", w.next()))},
			{Key: stackitem.Make("size"), Value: stackitem.Make(123)},
			{Key: stackitem.Make("deleted"), Value: stackitem.Make([]any{digest("del")})},
			{Key: stackitem.Make("locked"), Value: stackitem.Make([]any{digest("lck")})},
			{Key: stackitem.Make("validuntil"), Value: stackitem.Make(math.MaxInt32)},
		})
		raw, err := stackitem.Serialize(m)
		if err != nil {
			panic(err)
		}
		return raw
	}
	submit := func(good int, repeat bool) builder {
		return func(w *world) *plan {
			cn := w.ensureContainer("std")
			w.ensureRoster(cn.id)
			raw := meta(w, cn.id)
			var sigs []any
			ks := w.placementKeys()
			for i := 0; i < good; i++ {
				k := ks[i]
				if repeat {
					k = ks[0]
				}
				sigs = append(sigs, k.Sign(raw))
			}
			for len(sigs) < 2 {
				sigs = append(sigs, chainx.Key("not-a-member").Sign(raw))
			}
			p := &plan{args: []any{raw, []any{sigs}}, req: never, doc: "REP (2) signatures of distinct members of the committed roster"}
			if good >= 2 && !repeat {
				p.req, p.effect = func(holds) bool { return true }, true
			}
			return p
		}
	}
	b["container.submitObjectPut"] = submit(2, false)
	b["container.submitObjectPut#onesig"] = submit(1, false)
	b["container.submitObjectPut#samesig"] = submit(2, true)
	b["container.submitObjectPut#nosig"] = submit(0, false)
	b["container.onNEP11Payment"] = func(w *world) *plan {
		return &plan{args: []any{w.user("u2").ScriptHash(), int64(1), []byte("x.container"), nil}, inertAlways: true, req: never, fuzzable: true, doc: "no effect on any path"}
	}

	// ------------------------------------------------------------ neofs (notary mode and vote mode)
	for _, nf := range []string{"neofs", "neofs-vote"} {
		nf := nf
		vote := nf == "neofs-vote"
		add(nf, callbackBuilders(nf, false))
		b[nf+".onNEP17Payment#ignore"] = func(w *world) *plan {
			u := w.user("payer2")
			return &plan{args: []any{u.ScriptHash(), int64(100), []byte{0x57, 0x0b}}, req: never, inertAlways: true, doc: "ignore marker: accepted from anyone without effect"}
		}
		// Alphabet of the main contract: notary = Alphabet multi-signature; vote mode = a stored Alphabet key (threshold counted by C17)
		mainA := func(w *world, p *plan) *plan {
			if vote {
				p.req = func(h holds) bool { return h("IR0") }
				p.doc = "a stored Alphabet key (vote mode; executes at 2n/3+1 votes)"
				for i := 0; i < w.n*2/3+1; i++ {
					p.quorum = append(p.quorum, w.ir[i])
				}
			} else {
				p.req = rA
				p.doc = "Alphabet (2n/3+1)"
			}
			p.effect, p.fuzzable = true, true
			return p
		}
		b[nf+".setConfig"] = func(w *world) *plan {
			k := w.next()
			return mainA(w, &plan{args: []any{digest("cfg-id", nf, k), []byte(fmt.Sprint("key", k)), []byte("val")}})
		}
		b[nf+".alphabetUpdate"] = func(w *world) *plan {
			return mainA(w, &plan{args: []any{digest("au-id", nf, w.next()), pubsAny(w.ir)}})
		}
		b[nf+".cheque"] = func(w *world) *plan {
			if w.gasOf(w.h[nf]) < 1000 {
				u := w.user("payer2")
				w.must([]neotest.Signer{u}, w.c.GAS, "transfer", u.ScriptHash(), w.h[nf], int64(100000), []byte{0x57, 0x0b})
			}
			return mainA(w, &plan{args: []any{digest("chq-id", nf, w.next()), w.user("u2").ScriptHash(), int64(5), []byte{1, 2, 3}}})
		}
		userOnly := func(method string, args func(w *world, u util.Uint160) []any) {
			b[nf+"."+method] = func(w *world) *plan {
				u := w.user("wduser")
				w.ensureGAS(u.ScriptHash(), 1_0000_0000)
				w.ensureGAS(w.h[nf], 1000)
				return &plan{args: args(w, u.ScriptHash()), keys: []neotest.Signer{u}, req: rK1, effect: true, fuzzable: true, doc: "the user named in the arguments"}
			}
			b[nf+"."+method+"#self"] = func(w *world) *plan {
				w.ensureGAS(w.h[nf], 1000)
				return &plan{args: args(w, w.h[nf]), req: never, doc: "the user named in the arguments (here: the contract's own account, nobody can witness it)"}
			}
			b[nf+"."+method+"#processing"] = func(w *world) *plan {
				return &plan{args: args(w, w.h["processing"]), req: never, doc: "the user named in the arguments (here: the Processing contract's account)"}
			}
		}
		userOnly("withdraw", func(w *world, u util.Uint160) []any { return []any{u, int64(1)} })
		userOnly("bind", func(w *world, u util.Uint160) []any { return []any{u, []any{pub(w.user("u2"))}} })
		userOnly("unbind", func(w *world, u util.Uint160) []any { return []any{u, []any{pub(w.user("u2"))}} })
		b[nf+".innerRingCandidateAdd"] = func(w *world) *plan {
			cd := w.user("cand")
			if w.isIRCandidate(nf, pub(cd)) {
				w.must(w.god(cd), w.h[nf], "innerRingCandidateRemove", pub(cd))
			}
			return &plan{args: []any{pub(cd)}, keys: []neotest.Signer{cd}, req: rK1, effect: true, fuzzable: true, doc: "the candidate key"}
		}
		b[nf+".innerRingCandidateRemove"] = func(w *world) *plan {
			cd := w.user("cand2")
			if !w.isIRCandidate(nf, pub(cd)) {
				w.must(w.god(cd), w.h[nf], "innerRingCandidateAdd", pub(cd))
			}
			p := &plan{args: []any{pub(cd)}, keys: []neotest.Signer{cd}, effect: true, fuzzable: true}
			if vote {
				p.req = func(h holds) bool { return h("K1") || h("IR0") }
				p.doc = "the candidate key or a stored Alphabet key (vote mode; executes at 2n/3+1 votes)"
				for i := 0; i < w.n*2/3+1; i++ {
					p.quorum = append(p.quorum, w.ir[i])
				}
			} else {
				p.req = func(h holds) bool { return h("K1") || h("IRA") }
				p.doc = "the candidate key or the 2/3+1 account of the stored Alphabet keys"
			}
			return p
		}
	}

	// ------------------------------------------------------------ neofsid
	idArgs := func(w *world) []any {
		return []any{ownerID(w.user("owner").ScriptHash()), []any{pub(w.user("idkey"))}}
	}
	b["neofsid.addKey"] = func(w *world) *plan {
		a := idArgs(w)
		k := append(append([]byte{'o'}, a[0].([]byte)...), pub(w.user("idkey"))...)
		if w.storageHas("neofsid", k) {
			w.must(w.god(), w.h["neofsid"], "removeKey", a...)
		}
		return &plan{args: a, req: rA, effect: true, fuzzable: true, doc: "Alphabet (2n/3+1)"}
	}
	b["neofsid.removeKey"] = func(w *world) *plan {
		a := idArgs(w)
		k := append(append([]byte{'o'}, a[0].([]byte)...), pub(w.user("idkey"))...)
		if !w.storageHas("neofsid", k) {
			w.must(w.god(), w.h["neofsid"], "addKey", a...)
		}
		return &plan{args: a, req: rA, effect: true, fuzzable: true, doc: "Alphabet (2n/3+1)"}
	}

	// ------------------------------------------------------------ netmap
	nodeAndAlphabet := func(h holds) bool { return h("A") && h("K1") }
	b["netmap.addPeerIR"] = alphabetOnly(func(w *world) []any { return []any{nodeInfo(w.user("node1"), byte(w.next()))} }, true)
	b["netmap.addPeer"] = func(w *world) *plan {
		nd := w.user("node1")
		return &plan{args: []any{nodeInfo(nd, byte(w.next()))}, keys: []neotest.Signer{nd}, req: nodeAndAlphabet, effect: true, fuzzable: true,
			doc: "the node key sewn into the node info AND the Alphabet"}
	}
	b["netmap.addNode"] = func(w *world) *plan {
		nd := w.user("node1")
		n2 := stackitem.NewStruct([]stackitem.Item{
			stackitem.NewArray([]stackitem.Item{stackitem.Make("grpcs://192.0.2.100:8090")}),
			stackitem.NewMapWithValue([]stackitem.MapElement{{Key: stackitem.Make("Capacity"), Value: stackitem.Make(fmt.Sprint(100 + w.next()))}}),
			stackitem.NewByteArray(pub(nd)),
			stackitem.Make(1),
		})
		return &plan{args: []any{n2}, keys: []neotest.Signer{nd}, req: nodeAndAlphabet, effect: true, doc: "the node key of the structure AND the Alphabet"}
	}
	b["netmap.updateState"] = func(w *world) *plan {
		nd := w.user("node1")
		w.ensureCandidate(nd)
		return &plan{args: []any{int64(3), pub(nd)}, keys: []neotest.Signer{nd}, req: nodeAndAlphabet, effect: true, fuzzable: true,
			doc: "the node key named in the arguments AND the Alphabet"}
	}
	b["netmap.updateStateIR"] = func(w *world) *plan {
		nd := w.user("node1")
		w.ensureCandidate(nd)
		return &plan{args: []any{int64(3), pub(nd)}, req: rA, effect: true, fuzzable: true, doc: "Alphabet (2n/3+1)"}
	}
	b["netmap.deleteNode"] = func(w *world) *plan {
		nd := w.user("node2")
		w.ensureCandidate(nd)
		return &plan{args: []any{pub(nd)}, req: rA, effect: true, fuzzable: true, doc: "Alphabet (2n/3+1)"}
	}
	b["netmap.newEpoch"] = alphabetOnly(func(w *world) []any { return []any{w.epoch() + 1} }, true)
	b["netmap.setConfig"] = alphabetOnly(func(w *world) []any {
		return []any{digest("nm-cfg", w.next()), []byte(fmt.Sprint("verif-key-", w.seq)), []byte("v")}
	}, true)
	b["netmap.updateSnapshotCount"] = func(w *world) *plan {
		cur := w.storageInt("netmap", "snapshotCount")
		nw := int64(11)
		if cur != 10 {
			nw = 10
		}
		return &plan{args: []any{nw}, req: rA, effect: true, fuzzable: true, doc: "Alphabet (2n/3+1)"}
	}
	b["netmap.subscribeForNewEpoch"] = func(w *world) *plan {
		already := false
		for _, kv := range w.c.Scan(w.h["netmap"]) {
			if len(kv.K) == 22 && kv.K[0] == 'e' && string(kv.K[2:]) == string(w.h["epochsub"].BytesBE()) {
				already = true
			}
		}
		return &plan{args: []any{w.h["epochsub"]}, req: rA, effect: !already, fuzzable: true, doc: "Alphabet (2n/3+1)"}
	}
	b["netmap.lastEpochBlock"] = func(w *world) *plan {
		return &plan{inertAlways: true, req: never, fuzzable: true, doc: "read-only (merely not listed as safe)"}
	}

	// ------------------------------------------------------------ nns
	soa := []any{"verif@nspcc.io", int64(3600), int64(600), int64(yearSec), int64(3600)}
	b["nns.registerTLD"] = func(w *world) *plan {
		return &plan{args: append([]any{fmt.Sprintf("t%dx%d", w.n, w.next())}, soa...), req: rC, effect: true, fuzzable: true, doc: "committee majority (n/2+1)"}
	}
	b["nns.setPrice"] = func(w *world) *plan {
		cur := w.callInt(w.h["nns"], "getPrice")
		return &plan{args: []any{int64(10_0000_0000 + (cur+1)%5)}, req: rC, effect: true, fuzzable: true, doc: "committee majority (n/2+1)"}
	}
	b["nns.register"] = func(w *world) *plan {
		o := w.user("nnsC")
		return &plan{args: append([]any{fmt.Sprintf("n%dx%d.org", w.n, w.next()), o.ScriptHash()}, soa...), keys: []neotest.Signer{o}, req: rK1, effect: true, fuzzable: true,
			doc: "the new owner (second-level name)"}
	}
	b["nns.register#sub"] = func(w *world) *plan {
		name, a, ad := w.ensureAlice()
		o := w.user("nnsC")
		return &plan{args: append([]any{fmt.Sprintf("s%dx%d.%s", w.n, w.next(), name), o.ScriptHash()}, soa...), keys: []neotest.Signer{o, a, ad},
			req: func(h holds) bool { return h("K1") && (h("K2") || h("K3")) }, effect: true,
			doc: "the new owner AND the parent's owner or admin (third-level name)"}
	}
	b["nns.register#taken"] = func(w *world) *plan { // not expired: returns false, nothing changes (whoever signs)
		name, _, _ := w.ensureAlice()
		o := w.user("nnsC")
		return &plan{args: append([]any{name, o.ScriptHash()}, soa...), keys: []neotest.Signer{o}, req: never, doc: "name is taken and not expired: refusal, no change"}
	}
	ownerOrAdmin := func(h holds) bool { return h("K1") || h("K2") }
	rec := func(method string, args func(w *world, name string) []any, pre func(w *world, name string)) {
		b["nns."+method] = func(w *world) *plan {
			name, a, ad := w.ensureAlice()
			if pre != nil {
				pre(w, name)
			}
			return &plan{args: args(w, name), keys: []neotest.Signer{a, ad}, req: ownerOrAdmin, effect: true, fuzzable: true, doc: "the name's owner or admin"}
		}
	}
	ensureTXT := func(w *world, name string) {
		if rs := w.nnsRecords(name, 16); len(rs) == 0 {
			w.must(w.god(w.user("nnsA")), w.h["nns"], "addRecord", name, int64(16), "seed")
		} else if len(rs) > 10 {
			w.must(w.god(w.user("nnsA")), w.h["nns"], "deleteRecords", name, int64(16))
			w.must(w.god(w.user("nnsA")), w.h["nns"], "addRecord", name, int64(16), "seed")
		}
	}
	rec("addRecord", func(w *world, name string) []any { return []any{name, int64(16), fmt.Sprint("txt-", w.next())} }, ensureTXT)
	rec("setRecord", func(w *world, name string) []any {
		return []any{name, int64(16), int64(0), fmt.Sprint("set-", w.next())}
	}, ensureTXT)
	rec("deleteRecords", func(w *world, name string) []any { return []any{name, int64(16)} }, ensureTXT)
	rec("updateSOA", func(w *world, name string) []any {
		return []any{name, "soa@nspcc.io", int64(100 + w.next()), int64(600), int64(yearSec), int64(3600)}
	}, nil)
	b["nns.addRecord#cmtname"] = func(w *world) *plan { // a name owned by the committee account (system names are registered like this)
		w.ensureName("verif.neofs", w.c.Cmt, nil, nil)
		return &plan{args: []any{"verif.neofs", int64(16), fmt.Sprint("c-", w.next())}, req: rC, effect: true, doc: "the name's owner (here: the committee majority account)"}
	}
	renewName := func(w *world) (string, neotest.SingleSigner, neotest.SingleSigner) {
		a, ad := w.user("nnsA"), w.user("nnsB")
		now := int64(w.c.E.TopBlock(w.t).Timestamp)
		for i := 0; ; i++ {
			name := fmt.Sprintf("renew%d.org", i)
			exp, ok := w.nnsExpiration(name)
			if !ok {
				w.ensureName(name, a, ad, nil)
				return name, a, ad
			}
			if exp < now+8*yearMs {
				return name, a, ad
			}
		}
	}
	b["nns.renew/1"] = func(w *world) *plan {
		name, a, ad := renewName(w)
		return &plan{args: []any{name}, keys: []neotest.Signer{a, ad}, req: ownerOrAdmin, effect: true, fuzzable: true, doc: "the name's owner or admin"}
	}
	b["nns.renew/2"] = func(w *world) *plan {
		name, a, ad := renewName(w)
		return &plan{args: []any{name, int64(1)}, keys: []neotest.Signer{a, ad}, req: ownerOrAdmin, effect: true, fuzzable: true, doc: "the name's owner or admin"}
	}
	b["nns.renew/2#tld"] = func(w *world) *plan {
		return &plan{args: []any{"org", int64(1)}, req: rC, effect: true, doc: "committee majority (committee-owned top-level domain)"}
	}
	// transfer / setAdmin: the name HAS an admin (nnsB) who is neither the owner nor the new admin: his witness must not help
	ensureAdmin := func(w *world, name string, owner neotest.Signer, adm neotest.SingleSigner) {
		it, ok := w.call(w.h["nns"], "properties", name)
		cur := []byte(nil)
		if ok {
			for _, e := range it.Value().([]stackitem.MapElement) {
				if k, _ := e.Key.TryBytes(); string(k) == "admin" {
					if _, isNull := e.Value.(stackitem.Null); !isNull {
						cur, _ = e.Value.TryBytes()
					}
				}
			}
		}
		if string(cur) != string(adm.ScriptHash().BytesBE()) {
			w.must(w.god(owner, adm), w.h["nns"], "setAdmin", name, adm.ScriptHash())
		}
	}
	b["nns.transfer"] = func(w *world) *plan {
		x, y, adm := w.user("nnsA"), w.user("nnsC"), w.user("nnsB")
		w.ensureName("xfer.org", x, nil, nil)
		cur, _ := w.nnsOwner("xfer.org")
		from, to := x, y
		if cur == y.ScriptHash() {
			from, to = y, x
		}
		ensureAdmin(w, "xfer.org", from, adm)
		return &plan{args: []any{to.ScriptHash(), []byte("xfer.org"), nil}, keys: []neotest.Signer{from, adm, to}, req: rK1, effect: true, fuzzable: true,
			doc: "the name's owner (K2 = the name's admin, K3 = the receiver)"}
	}
	b["nns.setAdmin"] = func(w *world) *plan {
		a, ad, cur := w.user("nnsA"), w.user("nnsD"), w.user("nnsB")
		w.ensureName("adm.org", a, nil, nil)
		ensureAdmin(w, "adm.org", a, cur)
		return &plan{args: []any{"adm.org", ad.ScriptHash()}, keys: []neotest.Signer{a, ad, cur}, req: func(h holds) bool { return h("K1") && h("K2") }, effect: true, fuzzable: true,
			doc: "the name's owner AND the new admin (K3 = the current admin)"}
	}
	b["nns.setAdmin#nil"] = func(w *world) *plan {
		a, cur := w.user("nnsA"), w.user("nnsB")
		w.ensureName("adm.org", a, nil, nil)
		ensureAdmin(w, "adm.org", a, cur)
		return &plan{args: []any{"adm.org", nil}, keys: []neotest.Signer{a, cur}, req: rK1, effect: true, doc: "the name's owner (admin removed; K2 = the current admin)"}
	}

	// ------------------------------------------------------------ processing, proxy
	add("processing", callbackBuilders("processing", false))
	add("proxy", callbackBuilders("proxy", false))

	// ------------------------------------------------------------ reputation
	b["reputation.put"] = alphabetOnly(func(w *world) []any { return []any{int64(1), []byte("peer"), []byte{byte(w.next())}} }, true)
	b["reputation.version"] = func(w *world) *plan {
		return &plan{inertAlways: true, req: never, fuzzable: true, doc: "constant (merely not listed as safe)"}
	}
	return b
}

// ---- safe methods: valid arguments (they must HALT and change nothing whoever signs)

func safeArgs(w *world, contract, mkey string) []any {
	std := func() cnt { return w.ensureContainer("std") }
	switch contract + "." + mkey {
	case "audit.get":
		return []any{[]byte("none")}
	case "audit.listByCID":
		return []any{int64(1), digest("x")}
	case "audit.listByEpoch":
		return []any{int64(1)}
	case "audit.listByNode":
		return []any{int64(1), digest("x"), pub(w.ir[0])}
	case "balance.balanceOf":
		return []any{w.user("owner").ScriptHash()}
	case "container.alias", "container.eACL", "container.get", "container.owner":
		return []any{std().id}
	case "container.containersOf", "container.list":
		return []any{ownerID(w.user("owner").ScriptHash())}
	case "container.getContainerSize":
		return []any{append(append([]byte("cnr"), 1), std().id...)}
	case "container.iterateAllContainerSizes", "container.listContainerSizes":
		return []any{int64(1)}
	case "container.iterateContainerSizes":
		return []any{int64(1), std().id}
	case "container.nodes":
		return []any{std().id, int64(0)}
	case "container.replicasNumbers":
		return []any{std().id}
	case "container.verifyPlacementSignatures":
		return []any{std().id, []byte("msg"), []any{[]any{}}}
	case "neofs.config", "neofs-vote.config":
		return []any{[]byte("WithdrawFee")}
	case "neofsid.key":
		return []any{ownerID(w.user("owner").ScriptHash())}
	case "netmap.config":
		return []any{[]byte("ContainerFee")}
	case "netmap.listNodes/1", "netmap.snapshotByEpoch":
		return []any{w.epoch()}
	case "netmap.snapshot":
		return []any{int64(0)}
	case "nns.balanceOf", "nns.tokensOf":
		return []any{w.user("nnsA").ScriptHash()}
	case "nns.getAllRecords", "nns.ownerOf", "nns.properties":
		n, _, _ := w.ensureAlice()
		return []any{n}
	case "nns.getRecords", "nns.resolve":
		n, _, _ := w.ensureAlice()
		return []any{n, int64(16)}
	case "nns.isAvailable":
		return []any{"free-name.org"}
	case "reputation.get":
		return []any{int64(1), []byte("peer")}
	case "reputation.getByID":
		return []any{[]byte{1, 'p'}}
	case "reputation.listByEpoch":
		return []any{int64(1)}
	}
	return nil
}

// zeroArgs builds neutral arguments from the manifest types (methods the table does not know).
func zeroArgs(params []string) []any {
	out := make([]any, len(params))
	for i, t := range params {
		switch t {
		case "Integer":
			out[i] = int64(0)
		case "Boolean":
			out[i] = false
		case "String":
			out[i] = ""
		case "Array":
			out[i] = []any{}
		case "Hash160":
			out[i] = util.Uint160{}
		case "Hash256":
			out[i] = make([]byte, 32)
		case "PublicKey":
			out[i] = make([]byte, 33)
		case "Signature":
			out[i] = make([]byte, 64)
		case "ByteArray":
			out[i] = []byte{}
		default:
			out[i] = nil
		}
	}
	return out
}

func variantsOf(tbl map[string]builder, base string) []string {
	var out []string
	for k := range tbl {
		if strings.HasPrefix(k, base+"#") {
			out = append(out, k)
		}
	}
	sort.Strings(out)
	return out
}
