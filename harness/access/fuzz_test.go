package access

// Argument fuzz: random / malformed / adversarial arguments under signer sets that do not meet the
// requirement must stay inert. Every fuzz cell is reproducible from its op line (kind.seed).

import (
	"fmt"
	"hash/fnv"
	"math/big"
	"math/rand/v2"
	"strconv"
	"strings"

	"github.com/nspcc-dev/neo-go/pkg/util"

	"verifharness/chainx"
	"verifharness/hx"
)

type fuzzCell struct {
	set  sset
	spec string
}

// fuzzSets: nobody, a stranger and - outside NNS, where names may be owned by the multi-signature accounts -
// every multi-signature account that does not meet the requirement, all at once.
func (w *world) fuzzSets(m meth, p *plan) []sset {
	out := []sset{{"none", nil}, {"stranger", []string{"S"}}}
	if w.src[m.contract] == "nns" {
		return out
	}
	var multi []string
	atoms := []string{"C", "A", "IRA", "IRM"}
	if w.n >= 2 {
		atoms = append(atoms, "C-", "A-", "IRM-", "IRA-")
	}
	if w.v > 0 {
		atoms = append(atoms, "V", "VA", "VC")
	}
	for _, a := range atoms {
		if !p.req(w.holdsFor(append(append([]string{}, multi...), a), p)) {
			multi = append(multi, a)
		}
	}
	if len(multi) > 0 {
		out = append(out, sset{"multisigs", multi})
	}
	return out
}

func (w *world) fuzzPlan(m meth, run *hx.Run, ui int) []fuzzCell {
	p := w.planFor(m.contract, m.key, m)
	if !p.fuzzable {
		return nil
	}
	sets := w.fuzzSets(m, p)
	var out []fuzzCell
	// deterministic adversarial class (both tiers): every account-like parameter replaced by the called
	// contract's own account, another contract's account and the zero account
	for i, t := range m.params {
		if t == "Hash160" || t == "PublicKey" || t == "ByteArray" {
			for _, who := range []string{"self", "proc", "zero"} {
				if t != "Hash160" && who != "self" {
					continue
				}
				for _, s := range sets {
					out = append(out, fuzzCell{s, fmt.Sprintf("%s.%d", who, i)})
				}
			}
		}
	}
	// boundary class: one or two of the parameters at the zero value of their type - empty byte string / array / string,
	// integer 0, false (optional fields such as session tokens and signatures, zero amounts: a guard that depends on
	// them, or an early return before the guard, must not open a path)
	var zi []int
	for i, t := range m.params {
		switch t {
		case "ByteArray", "Signature", "PublicKey", "Hash160", "Hash256", "Array", "String", "Any", "Integer", "Boolean":
			zi = append(zi, i)
		}
	}
	esets := sets
	if run.Tier != "thorough" {
		esets = sets[:1]
	}
	for a := 0; a < len(zi); a++ {
		for b := a; b < len(zi); b++ {
			for _, s := range esets {
				out = append(out, fuzzCell{s, fmt.Sprintf("empty.%d", 1<<zi[a]|1<<zi[b])})
			}
		}
	}
	k := 2
	if run.Tier == "thorough" {
		k = 40
	}
	rng := run.Rand(1000 + ui)
	for i := 0; i < k; i++ {
		kind := "mut"
		if i%3 == 2 {
			kind = "rnd"
		}
		out = append(out, fuzzCell{sets[rng.IntN(len(sets))], fmt.Sprintf("%s.%d", kind, rng.Uint32())})
	}
	return out
}

func methodSeed(m meth) uint64 {
	h := fnv.New64a()
	h.Write([]byte(m.contract + "." + m.key))
	return h.Sum64()
}

// applyFuzz rewrites p.args according to spec.
func (w *world) applyFuzz(m meth, p *plan, spec string) {
	i := strings.IndexByte(spec, '.')
	if i < 0 {
		w.t.Fatalf("bad fuzz spec %q", spec)
	}
	kind := spec[:i]
	num, err := strconv.ParseUint(spec[i+1:], 10, 64)
	if err != nil {
		w.t.Fatalf("bad fuzz spec %q", spec)
	}
	if p.args == nil {
		p.args = zeroArgs(m.params)
	}
	args := append([]any{}, p.args...)
	for len(args) < len(m.params) {
		args = append(args, nil)
	}
	switch kind {
	case "self", "proc", "zero":
		idx := int(num)
		if idx >= len(args) {
			return
		}
		var h util.Uint160
		switch kind {
		case "self":
			h = w.h[m.contract]
		case "proc":
			h = w.h["processing"]
			if m.contract == "processing" {
				h = w.h["proxy"]
			}
		}
		args[idx] = h.BytesBE()
	case "empty":
		for j := range args {
			if num&(1<<j) != 0 {
				switch m.params[j] {
				case "Array":
					args[j] = []any{}
				case "String":
					args[j] = ""
				case "Integer":
					args[j] = int64(0)
				case "Boolean":
					args[j] = false
				default:
					args[j] = []byte{}
				}
			}
		}
	case "mut":
		rng := rand.New(rand.NewPCG(num, methodSeed(m)))
		if len(args) == 0 {
			break
		}
		for k := 0; k < 1+rng.IntN(2); k++ {
			j := rng.IntN(len(args))
			args[j] = w.mutate(rng, args[j], m.params[j], m)
		}
	case "rnd":
		rng := rand.New(rand.NewPCG(num, methodSeed(m)))
		for j := range args {
			args[j] = w.fuzzVal(rng, m.params[j], m)
		}
	default:
		w.t.Fatalf("bad fuzz kind %q", kind)
	}
	p.args = args
	p.keys = nil
	w.run.Count("fuzz." + kind)
}

// mutate: a small change of a valid argument (flip a byte, cut, extend, off-by-one), or a fresh value of the type.
func (w *world) mutate(rng *rand.Rand, v any, typ string, m meth) any {
	switch x := v.(type) {
	case []byte:
		if len(x) > 0 && rng.IntN(4) != 0 {
			y := append([]byte{}, x...)
			switch rng.IntN(4) {
			case 0:
				y[rng.IntN(len(y))] ^= byte(1 + rng.IntN(255))
			case 1:
				y = y[:rng.IntN(len(y))]
			case 2:
				y = append(y, byte(rng.IntN(256)))
			case 3:
				y = y[1:]
			}
			return y
		}
	case int64:
		switch rng.IntN(5) {
		case 0:
			return x + 1
		case 1:
			return x - 1
		case 2:
			return -x
		case 3:
			return int64(0)
		}
	case string:
		if len(x) > 0 && rng.IntN(3) != 0 {
			b := []byte(x)
			switch rng.IntN(3) {
			case 0:
				b[rng.IntN(len(b))] = "az09-._A"[rng.IntN(8)]
			case 1:
				b = b[:rng.IntN(len(b))]
			case 2:
				b = append(b, ".org"...)
			}
			return string(b)
		}
	case []any:
		if len(x) > 0 && rng.IntN(3) != 0 {
			y := append([]any{}, x...)
			j := rng.IntN(len(y))
			switch rng.IntN(3) {
			case 0:
				y[j] = w.mutate(rng, y[j], "Any", m)
			case 1:
				y = y[:j]
			case 2:
				y = append(y, y[j])
			}
			return y
		}
	case util.Uint160:
		return w.fuzzVal(rng, "Hash160", m)
	}
	return w.fuzzVal(rng, typ, m)
}

func randBytes(rng *rand.Rand, n int) []byte {
	b := make([]byte, n)
	for i := range b {
		b[i] = byte(rng.IntN(256))
	}
	return b
}

// fuzzVal: a value of (or deliberately not of) the manifest type. Accounts and keys come from a pool that
// never contains an account of the signer sets used with fuzzing (stranger, multi-signature accounts).
func (w *world) fuzzVal(rng *rand.Rand, typ string, m meth) any {
	switch typ {
	case "Hash160":
		switch rng.IntN(9) {
		case 0:
			return w.h[m.contract].BytesBE()
		case 1:
			return make([]byte, 20)
		case 2:
			return []byte{}
		case 3:
			return randBytes(rng, 19)
		case 4:
			return randBytes(rng, 21)
		case 5:
			return w.user("owner").ScriptHash().BytesBE()
		case 6:
			return nil
		case 7:
			return w.h[hx.Pick(rng, w.order)].BytesBE()
		}
		return randBytes(rng, 20)
	case "PublicKey":
		switch rng.IntN(7) {
		case 0:
			return randBytes(rng, 33)
		case 1:
			return randBytes(rng, 32)
		case 2:
			return []byte{}
		case 3:
			return nil
		case 4:
			return pub(w.user("owner"))
		case 5:
			return pub(w.user("node0"))
		}
		return chainx.Key(fmt.Sprint("fuzz-", rng.IntN(4))).PublicKey().Bytes()
	case "Integer":
		switch rng.IntN(9) {
		case 0:
			return int64(0)
		case 1:
			return int64(1)
		case 2:
			return int64(-1)
		case 3:
			return new(big.Int).Lsh(big.NewInt(1), 63)
		case 4:
			return new(big.Int).Neg(new(big.Int).Lsh(big.NewInt(1), 70))
		case 5:
			return w.epoch()
		case 6:
			return int64(255 + rng.IntN(3))
		}
		return int64(rng.IntN(100000))
	case "Boolean":
		return rng.IntN(2) == 0
	case "String":
		switch rng.IntN(8) {
		case 0:
			return ""
		case 1:
			return "alice.org"
		case 2:
			return "x"
		case 3:
			return strings.Repeat("a", 256)
		case 4:
			return "free" + fmt.Sprint(rng.IntN(1000)) + ".org"
		case 5:
			return "sub.alice.org"
		case 6:
			return "a..b"
		}
		return string(randBytes(rng, 1+rng.IntN(20)))
	case "Array":
		switch rng.IntN(6) {
		case 0:
			return []any{}
		case 1:
			return nil
		case 2:
			return []any{randBytes(rng, 33)}
		case 3:
			return []any{[]any{randBytes(rng, 64)}, []any{}}
		case 4:
			return []any{pub(w.user("owner")), []byte{}}
		}
		return []any{int64(rng.IntN(5)), randBytes(rng, rng.IntN(40)), "s"}
	case "Hash256":
		switch rng.IntN(4) {
		case 0:
			return w.containerFor(w.user("owner").ScriptHash(), "std").id
		case 1:
			return randBytes(rng, 31)
		case 2:
			return []byte{}
		}
		return randBytes(rng, 32)
	case "Signature":
		if rng.IntN(3) == 0 {
			return randBytes(rng, rng.IntN(70))
		}
		return randBytes(rng, 64)
	default: // ByteArray, Any, Map, ...
		switch rng.IntN(8) {
		case 0:
			return []byte{}
		case 1:
			return nil
		case 2:
			return w.containerFor(w.user("owner").ScriptHash(), "std").id
		case 3:
			return ownerID(w.user("owner").ScriptHash())
		case 4:
			return randBytes(rng, 100)
		case 5:
			return []byte{0x57, 0x0b}
		case 6:
			return w.h[m.contract].BytesBE()
		}
		return randBytes(rng, 1+rng.IntN(60))
	}
}
