package access

// The world of one committee size: the whole NeoFS contract system (FS-chain and main-chain contracts on
// one in-process chain, as /repo/tests does) compiled from the repository under test, plus the fixtures
// the per-method argument builders act on.

import (
	"bytes"
	"crypto/sha256"
	"encoding/json"
	"fmt"
	"math/big"
	"os"
	"path/filepath"
	"regexp"
	"runtime"
	"sort"
	"strings"
	"testing"

	"github.com/mr-tron/base58"
	"github.com/nspcc-dev/neo-go/pkg/core/native/nativenames"
	"github.com/nspcc-dev/neo-go/pkg/core/native/noderoles"
	"github.com/nspcc-dev/neo-go/pkg/core/state"
	"github.com/nspcc-dev/neo-go/pkg/core/transaction"
	"github.com/nspcc-dev/neo-go/pkg/crypto/keys"
	"github.com/nspcc-dev/neo-go/pkg/encoding/address"
	"github.com/nspcc-dev/neo-go/pkg/neotest"
	"github.com/nspcc-dev/neo-go/pkg/smartcontract"
	"github.com/nspcc-dev/neo-go/pkg/smartcontract/manifest"
	"github.com/nspcc-dev/neo-go/pkg/util"
	"github.com/nspcc-dev/neo-go/pkg/vm/stackitem"
	"github.com/nspcc-dev/neo-go/pkg/wallet"
	"github.com/stretchr/testify/require"

	"verifharness/chainx"
	"verifharness/hx"
)

const (
	containerFee      = 100
	containerAliasFee = 50
	candidateFee      = 100
	withdrawFee       = 10
	yearSec           = 365 * 24 * 3600
	yearMs            = int64(yearSec) * 1000
)

// contracts of the repository in deployment order (harness name -> source directory)
var repoContracts = []string{"nns", "netmap", "balance", "neofsid", "container", "reputation", "audit", "proxy", "alphabet", "processing", "neofs"}

type world struct {
	t       testing.TB
	run     *hx.Run
	c       *chainx.Chain
	n       int
	h       map[string]util.Uint160 // every deployed contract (repository contracts, vote-mode NeoFS, probes)
	src     map[string]string       // harness name -> repository contract directory ("" for probes)
	order   []string
	man     map[string]*manifest.Manifest
	ir      []neotest.SingleSigner // keys holding the NeoFSAlphabet role == Alphabet keys stored in the NeoFS contract
	ira     neotest.Signer         // 2n/3+1 of ir
	irm     neotest.Signer         // n/2+1 of ir
	idx     int                    // index of the deployed Alphabet contract (its own node = committee[idx])
	seq     int
	users   map[string]neotest.SingleSigner
	track   []util.Uint160 // accounts whose GAS/NEO balances are compared around every transaction
	desig   util.Uint160
	mgmt    util.Uint160
	v       int                       // validators when fewer than the committee (0: all members are validators)
	tag     string                    // "6" or "6/4": committee[/validators] as written on op lines
	pending [][3]string               // monitor hits of the current cell (reported after the op line is recorded)
	short   map[string]neotest.Signer // accounts one signature short of the documented ones: C- = (n/2)-of-n committee, A- = (2n/3)-of-n committee, IRM- / IRA- likewise over the role keys
}

func thisDir() string {
	_, f, _, _ := runtime.Caller(0)
	return filepath.Dir(f)
}

func pub(s neotest.SingleSigner) []byte { return s.Account().PublicKey().Bytes() }

// ownerID is the 25-byte NeoFS owner id (decoded address) of an account.
func ownerID(h util.Uint160) []byte {
	b, err := base58.Decode(address.Uint160ToString(h))
	if err != nil {
		panic(err)
	}
	return b
}

func digest(parts ...any) []byte {
	s := sha256.Sum256([]byte(fmt.Sprint(parts...)))
	return s[:]
}

func (w *world) next() int { w.seq++; return w.seq }

// user returns a funded single-key account and makes its balances observed.
func (w *world) user(tag string) neotest.SingleSigner {
	if u, ok := w.users[tag]; ok {
		return u
	}
	u := w.c.User(tag)
	w.users[tag] = u
	w.track = append(w.track, u.ScriptHash())
	return u
}

func dedupe(signers []neotest.Signer) []neotest.Signer {
	seen := map[util.Uint160]bool{}
	var out []neotest.Signer
	for _, s := range signers {
		if s == nil || seen[s.ScriptHash()] {
			continue
		}
		seen[s.ScriptHash()] = true
		out = append(out, s)
	}
	return out
}

// god is the signer set of set-up transactions: every privileged account plus the given keys, so that
// a misplaced guard in the repository under test does not stop the set-up.
func (w *world) god(extra ...neotest.Signer) []neotest.Signer {
	all := []neotest.Signer{w.c.Alpha, w.c.Cmt, w.ira, w.irm}
	for _, a := range []string{"V", "VA", "VC"} { // committee larger than the validator set: the validators' accounts too
		if s := w.short[a]; s != nil {
			all = append(all, s)
		}
	}
	return dedupe(append(all, extra...))
}

// invoke executes one transaction (fees paid by Payer with scope None, signers with Global scope).
func (w *world) invoke(signers []neotest.Signer, h util.Uint160, method string, args ...any) chainx.Result {
	return w.c.Invoke(dedupe(signers), h, method, args...)
}

// must executes a set-up transaction (it carries every privileged witness and should HALT). A FAULT is counted and
// the run goes on: the repository under test may be broken in exactly that method, and then the cell that needed
// the set-up reports it (required-witnesses-rejected) instead of the whole run stopping.
func (w *world) must(signers []neotest.Signer, h util.Uint160, method string, args ...any) chainx.Result {
	r := w.invoke(signers, h, method, args...)
	if !r.Halt {
		w.run.Count("note.setup-fault." + w.nameOf(h) + "." + method)
		w.t.Logf("set-up transaction %s.%s faulted (n=%s): %s", w.nameOf(h), method, w.tag, r.Fault)
	}
	return r
}

// call test-invokes a read method; ok=false when it faults.
func (w *world) call(h util.Uint160, method string, args ...any) (stackitem.Item, bool) {
	st, err := w.c.Call(h, method, args...)
	if err != nil || len(st) == 0 {
		return nil, false
	}
	return st[0], true
}

// callInt reads an integer through the read API; a failing read is counted, not fatal (the read methods
// themselves are under test: a mutant may break them).
func (w *world) callInt(h util.Uint160, method string, args ...any) int64 {
	it, ok := w.call(h, method, args...)
	if !ok {
		w.run.Count("note.read-failed." + method)
		return 0
	}
	z, err := it.TryInteger()
	if err != nil {
		w.run.Count("note.read-failed." + method)
		return 0
	}
	return z.Int64()
}

// storageInt reads an integer item from raw storage (0 when absent).
func (w *world) storageInt(contract string, key string) int64 {
	for _, kv := range w.c.Scan(w.h[contract]) {
		if string(kv.K) == key {
			return bigOf(stackitem.NewByteArray(kv.V)).Int64()
		}
	}
	return 0
}

// compile returns the contract compiled from the repository under test with the hash it gets when
// deployed by sender (neotest caches per source path, the hash depends on the sender).
func (w *world) compileDir(dir string, sender util.Uint160) *neotest.Contract {
	ct := neotest.CompileFile(w.t, sender, dir, filepath.Join(dir, "config.yml"))
	cp := *ct
	cp.Hash = state.CreateContractHash(sender, ct.NEF.Checksum, ct.Manifest.Name)
	chainx.CoverTrack(&cp)
	return &cp
}

func (w *world) compile(name string, sender util.Uint160) *neotest.Contract {
	if chainx.UseEmbedded() {
		ct := w.c.LoadEmbedded(name)
		ct.Hash = state.CreateContractHash(sender, ct.NEF.Checksum, ct.Manifest.Name)
		return ct
	}
	return w.compileDir(filepath.Join(chainx.Repo(), "contracts", name), sender)
}

// deploy deploys ct in a transaction sent by sender (which fixes the contract hash) that also carries
// the witnesses of extra (Balance and Container subscribe to new epochs while being deployed: Alphabet).
func (w *world) deploy(name, src string, ct *neotest.Contract, sender neotest.Signer, extra []neotest.Signer, data any) util.Uint160 {
	rawManifest, err := json.Marshal(ct.Manifest)
	require.NoError(w.t, err)
	neb, err := ct.NEF.Bytes()
	require.NoError(w.t, err)
	script, err := smartcontract.CreateCallScript(w.mgmt, "deploy", neb, rawManifest, data)
	require.NoError(w.t, err)
	r := w.c.Exec(w.rawTx(append([]neotest.Signer{sender}, extra...), script, 100_0000_0000))[0]
	if !r.Halt {
		w.t.Fatalf("deployment of %s faulted (n=%s): %s", name, w.tag, r.Fault)
	}
	if w.c.BC.GetContractState(ct.Hash) == nil {
		w.t.Fatalf("deployment of %s: contract hash mismatch", name)
	}
	w.h[name] = ct.Hash
	w.src[name] = src
	w.man[name] = ct.Manifest
	w.order = append(w.order, name)
	w.track = append(w.track, ct.Hash)
	return ct.Hash
}

// rawTx builds a transaction whose sender (fee payer) is the first signer; all signers have Global scope.
func (w *world) rawTx(signers []neotest.Signer, script []byte, sysFee int64) *transaction.Transaction {
	tx := transaction.New(script, 0)
	tx.Nonce = neotest.Nonce()
	tx.ValidUntilBlock = w.c.BC.BlockHeight() + 1
	all := dedupe(signers)
	for _, s := range all {
		tx.Signers = append(tx.Signers, transaction.Signer{Account: s.ScriptHash(), Scopes: transaction.Global})
	}
	neotest.AddNetworkFee(w.t, w.c.BC, tx, all...)
	tx.SystemFee = sysFee
	for _, s := range all {
		require.NoError(w.t, s.SignTx(w.c.BC.GetConfig().Magic, tx))
	}
	return tx
}

// ensureNEOCandidate registers the first committee member as a validator candidate (so that alphabet.vote has
// somebody to vote for; one candidate never changes the committee).
func (w *world) ensureNEOCandidate() {
	vs, err := w.c.BC.GetEnrollments()
	require.NoError(w.t, err)
	for _, v := range vs {
		if v.Key.Equal(w.c.Members[0].Account().PublicKey()) {
			return
		}
	}
	script, err := smartcontract.CreateCallScript(w.c.NEO, "registerCandidate", pub(w.c.Members[0]))
	require.NoError(w.t, err)
	r := w.c.Exec(w.rawTx([]neotest.Signer{w.c.Members[0]}, script, 1100_0000_0000))[0]
	require.True(w.t, r.Halt, r.Fault)
}

func (w *world) registerNNS(names map[string]util.Uint160) {
	nns := w.h["nns"]
	var txs []*transaction.Transaction
	ks := hx.SortedKeys(names)
	for _, k := range ks {
		txs = append(txs, w.c.NewTx([]neotest.Signer{w.c.Cmt}, nns, "register", k+".neofs", w.c.Cmt.ScriptHash(), "ops@nspcc.ru",
			int64(3600), int64(600), int64(10*yearSec), int64(3600)))
	}
	for _, r := range w.c.Exec(txs...) {
		require.True(w.t, r.Halt, r.Fault)
	}
	txs = txs[:0]
	for _, k := range ks {
		txs = append(txs, w.c.NewTx([]neotest.Signer{w.c.Cmt}, nns, "addRecord", k+".neofs", int64(16), names[k].StringLE()))
	}
	for _, r := range w.c.Exec(txs...) {
		require.True(w.t, r.Halt, r.Fault)
	}
}

func pubsAny(ss []neotest.SingleSigner) []any {
	out := make([]any, len(ss))
	for i := range ss {
		out[i] = pub(ss[i])
	}
	return out
}

// newWorld deploys the system on a chain with an n-member committee. v = number of consensus nodes when the committee is
// LARGER than the validator set (chainx.NewCV: neo.GetCommittee() has n keys, neo.GetNextBlockValidators() only the
// first v of them; Alphabet and committee accounts are over the whole committee); v = 0: every member is a validator.
func newWorld(t testing.TB, run *hx.Run, n, v int) *world {
	var c *chainx.Chain
	tag := fmt.Sprint(n)
	if v > 0 && v < n {
		c = chainx.NewCV(t, n, v)
		tag = fmt.Sprintf("%d/%d", n, v)
	} else {
		v = 0
		c = chainx.New(t, n)
	}
	w := &world{t: t, run: run, c: c, n: n, v: v, tag: tag, h: map[string]util.Uint160{}, src: map[string]string{}, man: map[string]*manifest.Manifest{},
		users: map[string]neotest.SingleSigner{}}
	w.desig = c.E.NativeHash(t, nativenames.Designation)
	w.mgmt = c.BC.ManagementContractHash()
	// Inner Ring / main-chain Alphabet keys: a key set of its own, so that the FS-chain committee accounts
	// (c.Alpha, c.Cmt) and the accounts of the NeoFSAlphabet role keys (ira, irm) are different accounts.
	accs := make([]*wallet.Account, n)
	for i := range accs {
		accs[i] = wallet.NewAccountFromPrivateKey(chainx.Key(fmt.Sprintf("ir-%d", i)))
	}
	sort.Slice(accs, func(i, j int) bool { return accs[i].PublicKey().Cmp(accs[j].PublicKey()) < 0 })
	for i := range accs {
		w.ir = append(w.ir, neotest.NewSingleSigner(wallet.NewAccountFromPrivateKey(accs[i].PrivateKey())))
		w.track = append(w.track, w.ir[i].ScriptHash())
	}
	w.ira = chainx.AccessMultisig(accs, n*2/3+1)
	w.irm = chainx.AccessMultisig(accs, n/2+1)
	w.track = append(w.track, c.Alpha.ScriptHash(), c.Cmt.ScriptHash(), w.ira.ScriptHash(), w.irm.ScriptHash())
	w.short = map[string]neotest.Signer{}
	if n >= 2 {
		w.short["C-"] = c.AccessCommitteeMultisig(n / 2)
		w.short["A-"] = c.AccessCommitteeMultisig(n * 2 / 3)
		w.short["IRM-"] = chainx.AccessMultisig(accs, n/2)
		w.short["IRA-"] = chainx.AccessMultisig(accs, n*2/3)
		for _, s := range w.short {
			w.track = append(w.track, s.ScriptHash())
		}
	}
	if w.v > 0 {
		// accounts over the VALIDATORS only: the block signer, and what 2k/3+1 / k/2+1 give when they are computed
		// over neo.GetNextBlockValidators() instead of neo.GetCommittee(); none of them is the Alphabet or the committee
		// account, all must be refused everywhere
		var vacc []*wallet.Account
		for _, m := range c.Members[:w.v] {
			vacc = append(vacc, m.Account())
		}
		w.short["V"] = c.ValidatorsSigner()
		w.short["VA"] = chainx.AccessMultisig(vacc, w.v*2/3+1)
		w.short["VC"] = chainx.AccessMultisig(vacc, w.v/2+1)
		for _, a := range []string{"V", "VA", "VC"} {
			w.track = append(w.track, w.short[a].ScriptHash())
		}
	}
	w.must([]neotest.Signer{c.Cmt}, w.desig, "designateAsRole", int64(noderoles.NeoFSAlphabet), pubsAny(w.ir))

	cmt := c.Cmt.ScriptHash()
	ct := map[string]*neotest.Contract{}
	for _, name := range repoContracts {
		ct[name] = w.compile(name, cmt)
	}
	// deployments carry every FS-chain account a (possibly broken) tree may ask for: Balance and Container subscribe to
	// new epochs in _deploy (Alphabet witness); a tree that builds the Alphabet account from the wrong key list must
	// still deploy, so that the cells - not the set-up - report it
	both := []neotest.Signer{c.Alpha}
	for _, a := range []string{"V", "VA", "VC"} {
		if s := w.short[a]; s != nil {
			both = append(both, s)
		}
	}
	w.deploy("nns", "nns", ct["nns"], c.Cmt, nil, []any{[]any{[]any{"neofs", "ops@nspcc.io"}, []any{"org", "ops@nspcc.io"}}})
	if c.NNSHash() != w.h["nns"] {
		t.Fatal("NNS must have id 1")
	}
	w.deploy("netmap", "netmap", ct["netmap"], c.Cmt, nil, []any{false, util.Uint160{}, util.Uint160{}, []any{pub(c.Members[0])},
		[]any{"ContainerFee", int64(containerFee), "ContainerAliasFee", int64(containerAliasFee)}})
	w.registerNNS(map[string]util.Uint160{"netmap": w.h["netmap"]})
	w.deploy("balance", "balance", ct["balance"], c.Cmt, both, []any{false, util.Uint160{}, util.Uint160{}})
	w.deploy("neofsid", "neofsid", ct["neofsid"], c.Cmt, nil, []any{false, util.Uint160{}, util.Uint160{}})
	w.registerNNS(map[string]util.Uint160{"balance": w.h["balance"], "neofsid": w.h["neofsid"]})
	w.deploy("container", "container", ct["container"], c.Cmt, both, []any{int64(0), w.h["netmap"], w.h["balance"], w.h["neofsid"], w.h["nns"], ""})
	w.deploy("reputation", "reputation", ct["reputation"], c.Cmt, nil, []any{false})
	w.deploy("audit", "audit", ct["audit"], c.Cmt, nil, []any{false})
	w.deploy("proxy", "proxy", ct["proxy"], c.Cmt, nil, nil)
	w.idx = n - 1
	w.deploy("alphabet", "alphabet", ct["alphabet"], c.Cmt, nil, []any{false, w.h["netmap"], w.h["proxy"], "Az", int64(w.idx), int64(n)})
	w.registerNNS(map[string]util.Uint160{"container": w.h["container"], "reputation": w.h["reputation"], "audit": w.h["audit"],
		"proxy": w.h["proxy"], "alphabet0": w.h["alphabet"]})
	// main-chain contracts: NeoFS with notary (Alphabet multi-signature), Processing bound to it
	cfg := []any{"InnerRingCandidateFee", int64(candidateFee), "WithdrawFee", int64(withdrawFee)}
	w.deploy("neofs", "neofs", ct["neofs"], c.Cmt, nil, []any{false, ct["processing"].Hash, pubsAny(w.ir), cfg})
	w.deploy("processing", "processing", ct["processing"], c.Cmt, nil, []any{w.h["neofs"]})
	// NeoFS in vote mode (notary disabled): the stored Alphabet keys vote one transaction each
	dep := w.user("deployer")
	vct := w.compile("neofs", dep.ScriptHash())
	w.deploy("neofs-vote", "neofs", vct, dep, nil, []any{true, w.h["processing"], pubsAny(w.ir), cfg})
	// probes
	pr := w.compileDir(filepath.Join(thisDir(), "..", "probes", "caller"), cmt)
	w.deploy("probe", "", pr, c.Cmt, nil, nil)
	es := w.compileDir(filepath.Join(thisDir(), "..", "probes", "accesssub"), cmt)
	w.deploy("epochsub", "", es, c.Cmt, nil, nil)
	ca := w.compileDir(filepath.Join(thisDir(), "..", "probes", "accesscatch"), cmt)
	w.deploy("catcher", "", ca, c.Cmt, nil, nil)
	w.user("stranger")
	return w
}

// ---------------------------------------------------------------- fixtures ("ensure": create only what is missing)

func (w *world) epoch() int64 { return w.storageInt("netmap", "snapshotEpoch") }

func (w *world) neofsBalance(h util.Uint160) int64 { return w.callInt(w.h["balance"], "balanceOf", h) }

func (w *world) ensureBalance(h util.Uint160, min int64) {
	if w.neofsBalance(h) < min {
		w.must(w.god(), w.h["balance"], "mint", h, 10*min+1000, digest("mint", w.next())[:8])
	}
}

type cnt struct {
	id, blob, sig, pub, token []byte
}

// containerFor builds a deterministic container blob (V2 layout as far as the contract reads it).
func (w *world) containerFor(owner util.Uint160, tag string) cnt {
	v := make([]byte, 100)
	for i := 0; i < 100; i += 32 {
		copy(v[i:], digest("cnt", tag, i))
	}
	v[1] = 0
	copy(v[6:], ownerID(owner))
	id := sha256.Sum256(v)
	p := pub(w.user("cntkey"))
	return cnt{id: id[:], blob: v, sig: append(digest("sig", tag), digest("sig2", tag)...), pub: p, token: digest("tok", tag)[:20]}
}

func (w *world) containerExists(id []byte) bool {
	_, ok := w.call(w.h["container"], "owner", id)
	return ok
}

// ensureContainer registers the container <tag> of the standard owner (meta-on-chain enabled).
func (w *world) ensureContainer(tag string) cnt {
	o := w.user("owner")
	cn := w.containerFor(o.ScriptHash(), tag)
	if !w.containerExists(cn.id) {
		w.ensureBalance(o.ScriptHash(), int64(containerFee*w.n))
		w.must(w.god(), w.h["container"], "put", cn.blob, cn.sig, cn.pub, cn.token, true)
	}
	return cn
}

func nodeInfo(s neotest.SingleSigner, salt byte) []byte {
	ni := make([]byte, 66)
	ni[0] = salt
	copy(ni[2:], pub(s))
	return ni
}

func (w *world) isCandidate(key []byte) bool {
	for _, kv := range w.c.Scan(w.h["netmap"]) {
		if bytes.Equal(kv.K, append([]byte("candidate"), key...)) {
			return true
		}
	}
	return false
}

func (w *world) ensureCandidate(s neotest.SingleSigner) {
	if !w.isCandidate(pub(s)) {
		w.must(w.god(s), w.h["netmap"], "addPeerIR", nodeInfo(s, 1))
	}
}

// ensureInPreviousNetmap makes s a storage node of the previous epoch's network map (snapshot(1)).
func (w *world) ensureInPreviousNetmap(s neotest.SingleSigner) {
	it, ok := w.call(w.h["netmap"], "snapshot", int64(1))
	if ok {
		for _, nd := range it.Value().([]stackitem.Item) {
			blob, _ := nd.Value().([]stackitem.Item)[0].TryBytes()
			if len(blob) >= 35 && bytes.Equal(blob[2:35], pub(s)) {
				return
			}
		}
	}
	w.ensureCandidate(s)
	e := w.epoch()
	w.must(w.god(), w.h["netmap"], "newEpoch", e+1)
	w.must(w.god(), w.h["netmap"], "newEpoch", e+2)
}

func (w *world) storageHas(contract string, key []byte) bool {
	for _, kv := range w.c.Scan(w.h[contract]) {
		if bytes.Equal(kv.K, key) {
			return true
		}
	}
	return false
}

// placement keys of the roster of the standard container
func (w *world) placementKeys() []*keys.PrivateKey {
	return []*keys.PrivateKey{chainx.Key("place-0"), chainx.Key("place-1"), chainx.Key("place-2")}
}

// ensureRoster commits a roster (one placement vector, REP 2 of 3 keys) for the container.
func (w *world) ensureRoster(cid []byte) {
	// exactly the three placement keys in vector 0, REP 2, nothing pending?
	var nodes, pending int
	good := true
	rep := []byte(nil)
	pk := w.placementKeys()
	for _, kv := range w.c.Scan(w.h["container"]) {
		switch {
		case bytes.HasPrefix(kv.K, append([]byte{'n'}, cid...)):
			nodes++
			found := false
			for _, k := range pk {
				found = found || bytes.Equal(kv.V, k.PublicKey().Bytes())
			}
			good = good && found && kv.K[33] == 0
		case bytes.HasPrefix(kv.K, append([]byte{'u'}, cid...)):
			pending++
		case bytes.Equal(kv.K, append(append([]byte{'r'}, cid...), 0)):
			rep = kv.V
		}
	}
	if good && nodes == len(pk) && pending == 0 && len(rep) == 1 && rep[0] == 2 {
		return
	}
	if nodes > 0 || pending > 0 {
		w.must(w.god(), w.h["container"], "commitContainerListUpdate", cid, []byte{}) // flush whatever is pending
	}
	var ks []any
	for _, k := range pk {
		ks = append(ks, k.PublicKey().Bytes())
	}
	w.must(w.god(), w.h["container"], "addNextEpochNodes", cid, int64(0), ks)
	w.must(w.god(), w.h["container"], "commitContainerListUpdate", cid, []byte{2})
}

func (w *world) nnsExpiration(name string) (int64, bool) {
	it, ok := w.call(w.h["nns"], "properties", name)
	if !ok {
		return 0, false
	}
	for _, e := range it.Value().([]stackitem.MapElement) {
		k, _ := e.Key.TryBytes()
		if string(k) == "expiration" {
			z, _ := e.Value.TryInteger()
			return z.Int64(), true
		}
	}
	return 0, false
}

func (w *world) nnsOwner(name string) (util.Uint160, bool) {
	it, ok := w.call(w.h["nns"], "ownerOf", name)
	if !ok {
		return util.Uint160{}, false
	}
	b, err := it.TryBytes()
	if err != nil || len(b) != 20 {
		return util.Uint160{}, false
	}
	h, _ := util.Uint160DecodeBytesBE(b)
	return h, true
}

// ensureName registers a name (parents must exist) for owner; admin is set when given.
func (w *world) ensureName(name string, owner neotest.Signer, admin neotest.Signer, parentOwner neotest.Signer) {
	if _, ok := w.nnsOwner(name); ok {
		return
	}
	w.must(w.god(owner, parentOwner), w.h["nns"], "register", name, owner.ScriptHash(), "verif@nspcc.io", int64(3600), int64(600), int64(yearSec), int64(3600))
	if admin != nil {
		w.must(w.god(owner, admin), w.h["nns"], "setAdmin", name, admin.ScriptHash())
	}
}

func (w *world) nnsRecords(name string, typ int64) []string {
	it, ok := w.call(w.h["nns"], "getRecords", name, typ)
	if !ok {
		return nil
	}
	var out []string
	arr, _ := it.Value().([]stackitem.Item)
	for _, r := range arr {
		b, _ := r.TryBytes()
		out = append(out, string(b))
	}
	return out
}

// alice is the standard NNS name: owner nnsA, admin nnsB.
func (w *world) ensureAlice() (string, neotest.SingleSigner, neotest.SingleSigner) {
	a, b := w.user("nnsA"), w.user("nnsB")
	w.ensureName("alice.org", a, b, nil)
	return "alice.org", a, b
}

func (w *world) gasOf(h util.Uint160) int64 { return w.c.GASOf(h) }

func (w *world) neoOf(h util.Uint160) int64 {
	b, _ := w.c.BC.GetGoverningTokenBalance(h)
	return b.Int64()
}

func (w *world) ensureGAS(h util.Uint160, min int64) {
	if w.gasOf(h) < min {
		w.c.FundGAS(100*min, h)
	}
}

func (w *world) ensureNEO(h util.Uint160, min int64) {
	if w.neoOf(h) < min {
		src := w.c.ValidatorsSigner() // the genesis NEO sits on the block signers' account (== Alpha unless committee > validators)
		r := w.invoke([]neotest.Signer{src}, w.c.NEO, "transfer", src.ScriptHash(), h, 100*min, nil)
		require.True(w.t, r.Halt, r.Fault)
	}
}

func (w *world) isIRCandidate(contract string, key []byte) bool {
	return w.storageHas(contract, append([]byte("candidates"), key...))
}

// contractVersion reads version() of a deployed contract.
func (w *world) contractVersion(name string) int64 { return w.callInt(w.h[name], "version") }

// ---------------------------------------------------------------- bumped-version executables for `update`

var scratchRoots = map[int]string{}

// bumpedK compiles contracts/<src> from a scratch copy of the repository under test whose
// common/version.go has patch+k (an `update` succeeds only towards a higher version).
func (w *world) bumpedK(src string, k int) *neotest.Contract {
	root := scratchRoots[k]
	if root == "" {
		d, err := os.MkdirTemp("", "verif-access-")
		require.NoError(w.t, err)
		root = d
		scratchRoots[k] = d
		repo := chainx.Repo()
		for _, f := range []string{"go.mod", "go.sum"} {
			b, err := os.ReadFile(filepath.Join(repo, f))
			require.NoError(w.t, err)
			require.NoError(w.t, os.WriteFile(filepath.Join(d, f), b, 0o644))
		}
		for _, sub := range []string{"common", "contracts"} {
			err := filepath.Walk(filepath.Join(repo, sub), func(p string, info os.FileInfo, err error) error {
				if err != nil {
					return err
				}
				rel, _ := filepath.Rel(repo, p)
				if info.IsDir() {
					return os.MkdirAll(filepath.Join(d, rel), 0o755)
				}
				if strings.HasSuffix(p, "_test.go") || !(strings.HasSuffix(p, ".go") || strings.HasSuffix(p, ".yml")) {
					return nil
				}
				b, err := os.ReadFile(p)
				if err != nil {
					return err
				}
				return os.WriteFile(filepath.Join(d, rel), b, 0o644)
			})
			require.NoError(w.t, err)
		}
		vf := filepath.Join(d, "common", "version.go")
		b, err := os.ReadFile(vf)
		require.NoError(w.t, err)
		// `Version = <expr>` is replaced by the evaluated version + k (independent of how the components are called)
		cur, err := chainx.SourceVersion(repo)
		require.NoError(w.t, err)
		re := regexp.MustCompile(`(?m)^(\s*)Version\s*=.*$`)
		if !re.Match(b) {
			w.t.Fatal("common/version.go: no `Version = …` line to patch")
		}
		b = re.ReplaceAll(b, []byte(fmt.Sprintf("${1}Version = %d", cur+int64(k))))
		require.NoError(w.t, os.WriteFile(vf, b, 0o644))
	}
	return w.compileDir(filepath.Join(root, "contracts", src), w.c.Cmt.ScriptHash())
}

// bumpedNext: the executable of the deployed contract <name> one patch version above what it runs now
// (every successful `update` of a world moves the contract one version up, so each positive cell has its own).
func (w *world) bumpedNext(name string) *neotest.Contract {
	k := int(w.contractVersion(name)-parseVersion(chainx.Repo())) + 1
	if k < 1 || k > 8 {
		k = 1
	}
	return w.bumpedK(w.src[name], k)
}

// updateArgs: arguments of update() carrying the next version of the contract.
func (w *world) updateArgs(name string) []any {
	ct := w.bumpedNext(name)
	neb, _ := ct.NEF.Bytes()
	mb, _ := json.Marshal(ct.Manifest)
	if w.src[name] == "nns" {
		return []any{neb, string(mb), nil}
	}
	return []any{neb, mb, nil}
}

func cleanupScratch() {
	for k, d := range scratchRoots {
		os.RemoveAll(d)
		delete(scratchRoots, k)
	}
}

// ---------------------------------------------------------------- NeoFSAlphabet role (Inner Ring list)

// designate sets the NeoFSAlphabet role to the given keys (one block; effective for the blocks after it).
func (w *world) designate(keys []neotest.SingleSigner) {
	w.must([]neotest.Signer{w.c.Cmt, w.c.Alpha}, w.desig, "designateAsRole", int64(noderoles.NeoFSAlphabet), pubsAny(keys))
}

func accountsOf(ss []neotest.SingleSigner) []*wallet.Account {
	out := make([]*wallet.Account, len(ss))
	for i := range ss {
		out[i] = ss[i].Account()
	}
	return out
}

func bigOf(it stackitem.Item) *big.Int {
	z, err := it.TryInteger()
	if err != nil {
		return new(big.Int)
	}
	return z
}
