package access

// "Existing object" argument class: the per-method builders of table_test.go use FRESH objects (a new container, a new
// name, a new key), which is what the positive direction needs. A shortcut for objects that exist already ("idempotent
// re-put", "already registered", "nothing to do") sits on a different path, possibly in front of the witness check.
// The variants below name an ALREADY EXISTING object - the exact stored bytes of a registered container, a registered
// name / TLD, a present candidate, a stored report, a bound key, a stored configuration key, a subscribed contract - and
// run with every signer set of the product: every set that does not meet the requirement must leave the storage of all
// contracts, the token balances and the notification log untouched. A re-put of a registered container with the required
// witnesses must HALT, whether it changes anything or not is left open. Where the repository refuses the call even with
// the required witnesses ("already exists") the positive direction is not demanded (noHalt).

import (
	"bytes"
	"fmt"
	"math/big"

	"github.com/nspcc-dev/neo-go/pkg/encoding/bigint"
	"github.com/nspcc-dev/neo-go/pkg/neotest"
	"github.com/nspcc-dev/neo-go/pkg/util"
	"github.com/nspcc-dev/neo-go/pkg/vm/stackitem"
)

// ensurePlain registers the container <tag> of the standard owner WITHOUT the meta-on-chain option.
func (w *world) ensurePlain(tag string) cnt {
	o := w.user("owner")
	cn := w.containerFor(o.ScriptHash(), tag)
	if !w.containerExists(cn.id) {
		w.ensureBalance(o.ScriptHash(), int64(containerFee*w.n))
		w.must(w.god(), w.h["container"], "put", cn.blob, cn.sig, cn.pub, cn.token)
	}
	// a re-put by somebody with the Alphabet witness may have switched it on in an earlier positive cell: take the next one
	for i := 0; w.storageHas("container", append([]byte{'m'}, cn.id...)); i++ {
		cn = w.containerFor(o.ScriptHash(), fmt.Sprint(tag, "-", i))
		if !w.containerExists(cn.id) {
			w.ensureBalance(o.ScriptHash(), int64(containerFee*w.n))
			w.must(w.god(), w.h["container"], "put", cn.blob, cn.sig, cn.pub, cn.token)
		}
	}
	return cn
}

func stdEACL(cid []byte) []byte {
	e := make([]byte, 50)
	copy(e[6:], cid)
	e[45] = 0x77
	return e
}

func existingBuilders(b map[string]builder) {
	feeFor := func(w *world) {
		w.ensureBalance(w.user("owner").ScriptHash(), int64((containerFee+containerAliasFee)*w.n))
	}
	alpha := func(args []any, effect bool, doc string) *plan {
		return &plan{args: args, req: rA, effect: effect, doc: "Alphabet (2n/3+1); " + doc}
	}

	// ------------------------------------------------------------ container
	b["container.put/4#existing"] = func(w *world) *plan {
		cn := w.ensurePlain("plain")
		feeFor(w)
		return alpha([]any{cn.blob, cn.sig, cn.pub, cn.token}, false, "the exact stored bytes of an already registered container")
	}
	b["container.put/5#existing"] = func(w *world) *plan {
		cn := w.ensurePlain("plain")
		feeFor(w)
		return alpha([]any{cn.blob, cn.sig, cn.pub, cn.token, true}, false, "already registered container (meta-on-chain off), metaOnChain=true")
	}
	b["container.put/5#existing-off"] = func(w *world) *plan {
		cn := w.ensurePlain("plain")
		feeFor(w)
		return alpha([]any{cn.blob, cn.sig, cn.pub, cn.token, false}, false, "already registered container (meta-on-chain off), metaOnChain=false")
	}
	b["container.put/5#existing-meta"] = func(w *world) *plan {
		cn := w.ensureContainer("std")
		feeFor(w)
		return alpha([]any{cn.blob, cn.sig, cn.pub, cn.token, true}, false, "already registered container (meta-on-chain on), metaOnChain=true")
	}
	b["container.put/5#existing-meta-off"] = func(w *world) *plan {
		cn := w.ensureContainer("std")
		feeFor(w)
		return alpha([]any{cn.blob, cn.sig, cn.pub, cn.token, false}, false, "already registered container (meta-on-chain on), metaOnChain=false")
	}
	b["container.putNamed#existing"] = func(w *world) *plan {
		cn := w.ensurePlain("plain")
		feeFor(w)
		return alpha([]any{cn.blob, cn.sig, cn.pub, cn.token, fmt.Sprintf("ex%dx%d", w.n, w.next()), ""}, true, "already registered container, new alias")
	}
	b["container.putNamed#existing-noname"] = func(w *world) *plan {
		cn := w.ensurePlain("plain")
		feeFor(w)
		return alpha([]any{cn.blob, cn.sig, cn.pub, cn.token, "", ""}, false, "already registered container, no alias")
	}
	b["container.putNamed#existing-alias"] = func(w *world) *plan {
		o := w.user("owner")
		cn := w.containerFor(o.ScriptHash(), "aliased")
		name := fmt.Sprintf("aliased%d", w.n)
		if !w.containerExists(cn.id) {
			feeFor(w)
			w.must(w.god(), w.h["container"], "putNamed", cn.blob, cn.sig, cn.pub, cn.token, name, "")
		}
		feeFor(w)
		p := alpha([]any{cn.blob, cn.sig, cn.pub, cn.token, name, ""}, false, "already registered container with exactly this alias (refused: name is already taken)")
		p.noHalt = true
		return p
	}
	b["container.setEACL#existing"] = func(w *world) *plan {
		cn := w.ensureContainer("std")
		e := stdEACL(cn.id)
		if !w.storageValueContains("container", append([]byte("eACL"), cn.id...), e) {
			w.must(w.god(), w.h["container"], "setEACL", e, cn.sig, cn.pub, cn.token)
		}
		return alpha([]any{e, cn.sig, cn.pub, cn.token}, true, "exactly the table that is stored already")
	}
	b["container.delete#deleted"] = func(w *world) *plan {
		cn := w.containerFor(w.user("owner").ScriptHash(), "gone")
		if !w.storageHas("container", append([]byte{'d'}, cn.id...)) {
			w.ensureContainer("gone")
			w.must(w.god(), w.h["container"], "delete", cn.id, cn.sig, cn.token)
		}
		return &plan{args: []any{cn.id, cn.sig, cn.token}, req: never, inertAlways: true, doc: "already deleted container: effect-free return"}
	}
	b["container.addNextEpochNodes#existing"] = func(w *world) *plan {
		cn := w.ensureContainer("rostered")
		w.ensureRoster(cn.id)
		return alpha([]any{cn.id, int64(0), []any{pub(w.user("node1"))}}, true, "container with a committed roster, existing placement vector")
	}
	b["container.addNextEpochNodes#existing-next"] = func(w *world) *plan {
		cn := w.ensureContainer("rostered")
		w.ensureRoster(cn.id)
		// index 1 is admitted only when index 0 has pending nodes
		if !w.storageHasPrefix("container", append(append([]byte{'u'}, cn.id...), 0)) {
			w.must(w.god(), w.h["container"], "addNextEpochNodes", cn.id, int64(0), []any{pub(w.user("node0"))})
		}
		return alpha([]any{cn.id, int64(1), []any{pub(w.user("node1"))}}, true, "container with pending nodes, next placement vector")
	}
	b["container.commitContainerListUpdate#existing"] = func(w *world) *plan {
		cn := w.ensureContainer("rostered")
		w.ensureRoster(cn.id)
		return alpha([]any{cn.id, []byte{1}}, true, "container with a committed roster (the commit would replace it)")
	}
	b["container.putContainerSize#existing"] = func(w *world) *plan {
		cn := w.ensureContainer("std")
		nd := w.user("node0")
		w.ensureInPreviousNetmap(nd)
		e := w.epoch()
		if !w.storageHasPrefix("container", append(append([]byte("cnr"), bigint.ToBytes(big.NewInt(e))...), cn.id...)) {
			w.must(w.god(nd), w.h["container"], "putContainerSize", e, cn.id, int64(41), pub(nd))
		}
		return &plan{args: []any{e, cn.id, int64(1000 + w.next()), pub(nd)}, keys: []neotest.Signer{nd}, req: rK1, effect: true,
			doc: "the storage node key named in the arguments; an estimation of this node for this epoch and container is stored already"}
	}

	// ------------------------------------------------------------ nns
	soa := []any{"verif@nspcc.io", int64(3600), int64(600), int64(yearSec), int64(3600)}
	b["nns.registerTLD#existing"] = func(w *world) *plan {
		return &plan{args: append([]any{"org"}, soa...), req: rC, noHalt: true, doc: "committee majority (n/2+1); the TLD exists already (refused)"}
	}
	b["nns.addRecord#existing"] = func(w *world) *plan {
		name, a, ad := w.ensureAlice()
		has := false
		for _, r := range w.nnsRecords(name, 16) {
			has = has || r == "seed"
		}
		if !has {
			w.must(w.god(a), w.h["nns"], "addRecord", name, int64(16), "seed")
		}
		return &plan{args: []any{name, int64(16), "seed"}, keys: []neotest.Signer{a, ad}, req: func(h holds) bool { return h("K1") || h("K2") }, noHalt: true,
			doc: "the name's owner or admin; exactly this record exists already (refused)"}
	}
	b["nns.transfer#toself"] = func(w *world) *plan {
		x := w.user("nnsA")
		w.ensureName("self.org", x, nil, nil)
		return &plan{args: []any{x.ScriptHash(), []byte("self.org"), nil}, keys: []neotest.Signer{x}, req: rK1, effect: true, doc: "the name's owner (receiver = owner)"}
	}
	b["nns.setAdmin#same"] = func(w *world) *plan {
		a, ad := w.user("nnsA"), w.user("nnsB")
		w.ensureName("same.org", a, ad, nil)
		return &plan{args: []any{"same.org", ad.ScriptHash()}, keys: []neotest.Signer{a, ad}, req: func(h holds) bool { return h("K1") && h("K2") }, effect: true,
			doc: "the name's owner AND the admin (who is the admin already)"}
	}
	b["nns.register#sub-taken"] = func(w *world) *plan {
		name, a, ad := w.ensureAlice()
		o := w.user("nnsC")
		w.ensureName("taken."+name, o, nil, a)
		return &plan{args: append([]any{"taken." + name, o.ScriptHash()}, soa...), keys: []neotest.Signer{o, a, ad}, req: never,
			doc: "third-level name that is registered and not expired: refusal, no change"}
	}

	// ------------------------------------------------------------ netmap
	nodeAndAlphabet := func(h holds) bool { return h("A") && h("K1") }
	ensureBoth := func(w *world, nd neotest.SingleSigner) {
		w.ensureCandidate(nd)
		if !w.storageHas("netmap", append([]byte("2"), pub(nd)...)) {
			w.must(w.god(nd), w.h["netmap"], "addNode", node2(nd, "1"))
		}
	}
	b["netmap.addPeerIR#existing"] = func(w *world) *plan {
		nd := w.user("node0")
		ensureBoth(w, nd)
		return alpha([]any{nodeInfo(nd, byte(100+w.next()%100))}, true, "key of a present candidate, changed node info")
	}
	b["netmap.addPeer#existing"] = func(w *world) *plan {
		nd := w.user("node0")
		ensureBoth(w, nd)
		return &plan{args: []any{nodeInfo(nd, byte(100+w.next()%100))}, keys: []neotest.Signer{nd}, req: nodeAndAlphabet, effect: true,
			doc: "the node key AND the Alphabet; the key is a present candidate"}
	}
	b["netmap.addNode#existing"] = func(w *world) *plan {
		nd := w.user("node0")
		ensureBoth(w, nd)
		return &plan{args: []any{node2(nd, fmt.Sprint(500+w.next()))}, keys: []neotest.Signer{nd}, req: nodeAndAlphabet, effect: true,
			doc: "the node key AND the Alphabet; the key is a present candidate"}
	}
	b["netmap.updateState#offline"] = func(w *world) *plan {
		nd := w.user("node3")
		ensureBoth(w, nd)
		return &plan{args: []any{int64(2), pub(nd)}, keys: []neotest.Signer{nd}, req: nodeAndAlphabet, effect: true,
			doc: "the node key AND the Alphabet; present candidate switched Offline (removed)"}
	}
	b["netmap.updateStateIR#offline"] = func(w *world) *plan {
		nd := w.user("node3")
		ensureBoth(w, nd)
		return alpha([]any{int64(2), pub(nd)}, true, "present candidate switched Offline (removed)")
	}
	b["netmap.setConfig#existing"] = func(w *world) *plan {
		if !w.storageHas("netmap", []byte("configverif-existing")) {
			w.must(w.god(), w.h["netmap"], "setConfig", digest("x"), []byte("verif-existing"), []byte("0"))
		}
		return alpha([]any{digest("nm-cfg-ex", w.next()), []byte("verif-existing"), []byte(fmt.Sprint(w.seq))}, true, "a configuration key that is stored already")
	}
	b["netmap.subscribeForNewEpoch#existing"] = func(w *world) *plan {
		return alpha([]any{w.h["balance"]}, false, "a contract that is subscribed already (nothing to do)")
	}
	b["netmap.updateSnapshotCount#same"] = func(w *world) *plan {
		p := alpha([]any{w.storageInt("netmap", "snapshotCount")}, false, "the count that is stored already (refused)")
		p.noHalt = true
		return p
	}
	b["netmap.newEpoch#same"] = func(w *world) *plan {
		p := alpha([]any{w.epoch()}, false, "the current epoch number (refused)")
		p.noHalt = true
		return p
	}

	// ------------------------------------------------------------ reputation, audit, neofsid, balance
	b["reputation.put#existing"] = func(w *world) *plan {
		if !w.storageHas("reputation", append([]byte{'c', 7}, []byte("peer-ex")...)) {
			w.must(w.god(), w.h["reputation"], "put", int64(7), []byte("peer-ex"), []byte{1})
		}
		return alpha([]any{int64(7), []byte("peer-ex"), []byte{byte(w.next())}}, true, "epoch and peer that have a stored value already")
	}
	b["audit.put#existing"] = func(w *world) *plan {
		cid := digest("audit-existing", w.n)
		if !w.auditHas(cid) {
			w.must(w.god(w.ir[0]), w.h["audit"], "put", auditReport(cid, pub(w.ir[0])))
		}
		return &plan{args: []any{auditReport(cid, pub(w.ir[0]), byte(w.next()))}, keys: []neotest.Signer{w.ir[0]}, req: rK1, effect: true,
			doc: "the Inner Ring member key named in the header; a report with this header is stored already"}
	}
	idArgs := func(w *world, key string) ([]any, []byte) {
		o := ownerID(w.user("owner").ScriptHash())
		k := pub(w.user(key))
		return []any{o, []any{k}}, append(append([]byte{'o'}, o...), k...)
	}
	b["neofsid.addKey#existing"] = func(w *world) *plan {
		a, sk := idArgs(w, "idkey-bound")
		if !w.storageHas("neofsid", sk) {
			w.must(w.god(), w.h["neofsid"], "addKey", a...)
		}
		return alpha(a, false, "a key that is bound already")
	}
	b["neofsid.removeKey#missing"] = func(w *world) *plan {
		a, _ := idArgs(w, "idkey-never")
		return alpha(a, false, "a key that is not bound")
	}
	b["balance.lock#existing"] = func(w *world) *plan {
		o := w.user("owner")
		w.ensureBalance(o.ScriptHash(), 10)
		lockAcc, _ := util.Uint160DecodeBytesBE(digest("existing-lock", w.n)[:20])
		if !w.storageHas("balance", append([]byte{'a'}, lockAcc.BytesBE()...)) {
			w.must(w.god(), w.h["balance"], "lock", []byte{3}, o.ScriptHash(), lockAcc, int64(1), w.epoch()+1000)
		}
		return alpha([]any{[]byte{4}, o.ScriptHash(), lockAcc, int64(1), w.epoch() + 2000}, true, "a lock account that exists already")
	}

	// ------------------------------------------------------------ neofs (both modes)
	for _, nf := range []string{"neofs", "neofs-vote"} {
		nf := nf
		b[nf+".innerRingCandidateAdd#existing"] = func(w *world) *plan {
			cd := w.user("cand2")
			if !w.isIRCandidate(nf, pub(cd)) {
				w.must(w.god(cd), w.h[nf], "innerRingCandidateAdd", pub(cd))
			}
			return &plan{args: []any{pub(cd)}, keys: []neotest.Signer{cd}, req: rK1, noHalt: true, doc: "the candidate key; the candidate is in the list already (refused)"}
		}
		b[nf+".setConfig#existing"] = func(w *world) *plan {
			p := &plan{args: []any{digest("cfg-ex", nf, w.next()), []byte("WithdrawFee"), []byte{withdrawFee}}, effect: true}
			if nf == "neofs-vote" {
				p.req = func(h holds) bool { return h("IR0") }
				p.doc = "a stored Alphabet key (vote mode); the configuration key is stored already"
			} else {
				p.req = rA
				p.doc = "Alphabet (2n/3+1); the configuration key is stored already"
			}
			return p
		}
	}
}

func (w *world) storageHasPrefix(contract string, prefix []byte) bool {
	for _, kv := range w.c.Scan(w.h[contract]) {
		if bytes.HasPrefix(kv.K, prefix) {
			return true
		}
	}
	return false
}

func (w *world) storageValueContains(contract string, key, part []byte) bool {
	for _, kv := range w.c.Scan(w.h[contract]) {
		if bytes.Equal(kv.K, key) {
			return bytes.Contains(kv.V, part)
		}
	}
	return false
}

// node2 builds the Node2 structure of netmap.addNode.
func node2(nd neotest.SingleSigner, capacity string) stackitem.Item {
	return stackitem.NewStruct([]stackitem.Item{
		stackitem.NewArray([]stackitem.Item{stackitem.Make("grpcs://192.0.2.100:8090")}),
		stackitem.NewMapWithValue([]stackitem.MapElement{{Key: stackitem.Make("Capacity"), Value: stackitem.Make(capacity)}}),
		stackitem.NewByteArray(pub(nd)),
		stackitem.Make(1),
	})
}
