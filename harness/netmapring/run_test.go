// Correspondence harness for the snapshot ring of the Netmap contract (C08): NewEpoch's ring advance and
// dropNetmap, UpdateSnapshotCount (move/delete arithmetic), Snapshot / SnapshotByEpoch / ListNodesEpoch /
// Netmap, fourBytesBE. Executes operation lines on the contract compiled from the repository under test,
// prints canonical observations (read API + decoded raw storage) for the diff with the Lean model
// NeoFS/Model/NetmapRing.lean, and evaluates the C08 monitor (the abstract history/valid specification)
// on the implementation's own observations.
package netmapring

import (
	"bytes"
	"fmt"
	"math/big"
	"math/rand/v2"
	"os"
	"path/filepath"
	"runtime"
	"sort"
	"strconv"
	"strings"
	"testing"
	"time"

	"github.com/nspcc-dev/neo-go/pkg/config"
	"github.com/nspcc-dev/neo-go/pkg/core/state"
	"github.com/nspcc-dev/neo-go/pkg/core/transaction"
	"github.com/nspcc-dev/neo-go/pkg/neotest"
	"github.com/nspcc-dev/neo-go/pkg/smartcontract"
	"github.com/nspcc-dev/neo-go/pkg/util"
	"github.com/nspcc-dev/neo-go/pkg/vm/stackitem"
	"github.com/nspcc-dev/neo-go/pkg/wallet"

	"verifharness/chainx"
	"verifharness/hx"
)

const nNodes = 5

type node struct {
	id     int
	signer neotest.SingleSigner
	pub    []byte
	blob   []byte // legacy node info: blob[0] = id, blob[2:35] = public key
	v2     stackitem.Item
}

// chain-wide fixtures shared by all cases of one process: every case deploys its own Netmap instance.
type fixture struct {
	c      *chainx.Chain
	nm     *neotest.Contract
	obs    util.Uint160
	nodes  []*node
	ncases int
}

func thisDir() string {
	_, f, _, _ := runtime.Caller(0)
	return filepath.Dir(f)
}

// newFixture: n = committee size. n = 5 gives Alphabet = 4 of 5 and committee majority = 3 of 5 (different
// accounts, for the signer-set cases); n = 1 is the cheap chain of the bounded-scope cases.
func newFixture(t testing.TB, n int) *fixture {
	c := chainx.New(t, n, func(cfg *config.Blockchain) {
		// the single-member chain of the bounded-scope cases does not re-verify the (always Alphabet-signed)
		// transaction signatures when a block is added; witnesses are still what CheckWitness sees
		cfg.VerifyTransactions = n != 1
	})
	fx := &fixture{c: c, nm: c.Compile("netmap")}
	pr := c.CompileDir(filepath.Join(thisDir(), "..", "probes", "ringobs"))
	// neotest caches compiled contracts together with the hash derived from the first deployer: recompute it for this chain
	prc := &neotest.Contract{NEF: pr.NEF, Manifest: pr.Manifest}
	prc.Hash = state.CreateContractHash(c.Cmt.ScriptHash(), pr.NEF.Checksum, pr.Manifest.Name)
	fx.obs = c.Deploy(prc, nil)
	var ns []*node
	for i := 0; i < nNodes; i++ {
		acc := wallet.NewAccountFromPrivateKey(chainx.Key(fmt.Sprintf("ring-node-%d", i)))
		ns = append(ns, &node{signer: neotest.NewSingleSigner(acc), pub: acc.PublicKey().Bytes()})
	}
	// node ids follow the byte order of the public keys: storage.Find lists candidates in key order
	sort.Slice(ns, func(i, j int) bool { return bytes.Compare(ns[i].pub, ns[j].pub) < 0 })
	for i, n := range ns {
		n.id = i
		n.blob = make([]byte, 66)
		n.blob[0] = byte(i)
		copy(n.blob[2:], n.pub)
		n.v2 = stackitem.NewStruct([]stackitem.Item{
			stackitem.NewArray([]stackitem.Item{stackitem.Make(fmt.Sprintf("grpcs://n%d:8090", i))}),
			stackitem.NewMapWithValue([]stackitem.MapElement{{Key: stackitem.Make("id"), Value: stackitem.Make(strconv.Itoa(i))}}),
			stackitem.NewByteArray(n.pub),
			stackitem.Make(1), // nodestate.Online
		})
	}
	fx.nodes = ns
	return fx
}

// deployInstance deploys a fresh Netmap contract (same NEF, distinct manifest name => distinct hash).
func (fx *fixture) deployInstance() util.Uint160 {
	fx.ncases++
	m := *fx.nm.Manifest
	m.Name = fmt.Sprintf("%s #%d", fx.nm.Manifest.Name, fx.ncases)
	ct := &neotest.Contract{NEF: fx.nm.NEF, Manifest: &m}
	ct.Hash = state.CreateContractHash(fx.c.Cmt.ScriptHash(), ct.NEF.Checksum, m.Name)
	fx.c.Deploy(ct, []any{false, util.Uint160{}, util.Uint160{}, []any{fx.c.Members[0].Account().PublicKey().Bytes()}, []any{}})
	return ct.Hash
}

type pub struct{ legacy, v2 string } // one published network map (both representations), canonical text

type world struct {
	fx  *fixture
	nm  util.Uint160
	run *hx.Run
	wf  bool
	// what the implementation showed after the previous op (candidates are what the next tick publishes)
	lastC1, lastC2 string
	last           rawState
	// C08 specification state, driven only by the implementation's observations
	spN     int64 // snapshot count N
	spCur   int64
	spValid int64
	spHist  []pub // newest first
	monOff  bool  // the case left the property's quantifier (epoch jump)
}

func newWorld(fx *fixture, run *hx.Run, wf bool) *world {
	w := &world{fx: fx, nm: fx.deployInstance(), run: run, wf: wf, spN: 10}
	w.last = w.scan()
	return w
}

// ---------- decoding ----------

func ids(xs []int) string {
	s := make([]string, len(xs))
	for i, x := range xs {
		s[i] = strconv.Itoa(x)
	}
	return strings.Join(s, ".")
}

// legacyID decodes a Node struct {BLOB, State} to the node id ("?" when it is not one of ours, unchanged and Online).
func (w *world) legacyID(it stackitem.Item) string {
	f, ok := it.Value().([]stackitem.Item)
	if !ok || len(f) != 2 {
		return "?"
	}
	b, err := f[0].TryBytes()
	if err != nil || len(b) != 66 || int(b[0]) >= nNodes || !bytes.Equal(b, w.fx.nodes[b[0]].blob) {
		return "?"
	}
	st, err := f[1].TryInteger()
	if err != nil || st.Int64() != 1 {
		return "?"
	}
	return strconv.Itoa(int(b[0]))
}

// v2ID decodes a Node2 struct to the node id.
func (w *world) v2ID(it stackitem.Item) string {
	f, ok := it.Value().([]stackitem.Item)
	if !ok || len(f) != 4 {
		return "?"
	}
	k, err := f[2].TryBytes()
	if err != nil {
		return "?"
	}
	for _, n := range w.fx.nodes {
		if bytes.Equal(n.pub, k) {
			if !it.Equals(n.v2) {
				a, _ := stackitem.Serialize(it)
				b, _ := stackitem.Serialize(n.v2)
				if !bytes.Equal(a, b) {
					return "?"
				}
			}
			return strconv.Itoa(n.id)
		}
	}
	return "?"
}

func (w *world) legacyList(it stackitem.Item) string {
	if _, isNull := it.(stackitem.Null); isNull {
		return "F"
	}
	arr, ok := it.Value().([]stackitem.Item)
	if !ok {
		return "?"
	}
	s := make([]string, len(arr))
	for i := range arr {
		s[i] = w.legacyID(arr[i])
	}
	return strings.Join(s, ".")
}

func (w *world) v2List(it stackitem.Item) string {
	if _, isNull := it.(stackitem.Null); isNull {
		return "F"
	}
	arr, ok := it.Value().([]stackitem.Item)
	if !ok {
		return "?"
	}
	s := make([]string, len(arr))
	for i := range arr {
		s[i] = w.v2ID(arr[i])
	}
	return strings.Join(s, ".")
}

func bytesToInt(b []byte) *big.Int {
	z, err := stackitem.NewByteArray(b).TryInteger()
	if err != nil {
		panic(err)
	}
	return z
}

type rawState struct {
	cnt, id, cur *big.Int
	ring         map[int]string   // slot byte -> published legacy map
	pl           map[string][]int // hex(4-byte epoch key) -> node ids
	c1, c2       []int
	unknown      []string
}

func (w *world) pubID(k []byte) int {
	for _, n := range w.fx.nodes {
		if bytes.Equal(n.pub, k) {
			return n.id
		}
	}
	return -1
}

// scan decodes the raw storage of the contract into the key families the property is about.
func (w *world) scan() rawState {
	rs := rawState{ring: map[int]string{}, pl: map[string][]int{}}
	for _, kv := range w.fx.c.Scan(w.nm) {
		k := string(kv.K)
		switch {
		case k == "snapshotCount":
			rs.cnt = bytesToInt(kv.V)
		case k == "snapshotCurrent":
			rs.id = bytesToInt(kv.V)
		case k == "snapshotEpoch":
			rs.cur = bytesToInt(kv.V)
		case k == "snapshotBlock":
			// block height of the last tick: not part of C08
		case strings.HasPrefix(k, "snapshot_") && len(k) == 10:
			it, err := stackitem.Deserialize(kv.V)
			if err != nil {
				rs.ring[int(kv.K[9])] = "?"
			} else {
				rs.ring[int(kv.K[9])] = w.legacyList(it)
			}
		case strings.HasPrefix(k, "candidate") && len(k) == 9+33:
			it, err := stackitem.Deserialize(kv.V)
			id := w.pubID(kv.K[9:])
			if err != nil || id < 0 || w.legacyID(it) != strconv.Itoa(id) {
				rs.unknown = append(rs.unknown, hx.Hex(kv.K))
			} else {
				rs.c1 = append(rs.c1, id)
			}
		case k[0] == '2' && len(k) == 1+33:
			it, err := stackitem.Deserialize(kv.V)
			id := w.pubID(kv.K[1:])
			if err != nil || id < 0 || w.v2ID(it) != strconv.Itoa(id) {
				rs.unknown = append(rs.unknown, hx.Hex(kv.K))
			} else {
				rs.c2 = append(rs.c2, id)
			}
		case k[0] == 'p' && len(k) == 1+4+33:
			it, err := stackitem.Deserialize(kv.V)
			id := w.pubID(kv.K[5:])
			if err != nil || id < 0 || w.v2ID(it) != strconv.Itoa(id) {
				rs.unknown = append(rs.unknown, hx.Hex(kv.K))
			} else {
				e := hx.Hex(kv.K[1:5])
				rs.pl[e] = append(rs.pl[e], id)
			}
		default:
			rs.unknown = append(rs.unknown, hx.Hex(kv.K))
		}
	}
	return rs
}

func bigStr(z *big.Int) string {
	if z == nil {
		return "nil"
	}
	return z.String()
}

func (rs rawState) String() string {
	var ring []string
	var slots []int
	for k := range rs.ring {
		slots = append(slots, k)
	}
	sort.Ints(slots)
	for _, k := range slots {
		ring = append(ring, fmt.Sprintf("%d:%s", k, rs.ring[k]))
	}
	var pl []string
	for _, e := range hx.SortedKeys(rs.pl) {
		xs := rs.pl[e]
		sort.Ints(xs)
		pl = append(pl, e+":"+ids(xs))
	}
	s := fmt.Sprintf("cnt=%s id=%s cur=%s ring=[%s] pl=[%s] c1=[%s] c2=[%s]", bigStr(rs.cnt), bigStr(rs.id), bigStr(rs.cur),
		strings.Join(ring, ";"), strings.Join(pl, ";"), ids(rs.c1), ids(rs.c2))
	if len(rs.unknown) > 0 {
		s += " unknown=" + strings.Join(rs.unknown, ",")
	}
	return s
}

// ---------- observation windows (the model's driver computes the same sets) ----------

const winCap = 13

func uniqSorted(xs []int64) []int64 {
	sort.Slice(xs, func(i, j int) bool { return xs[i] < xs[j] })
	var out []int64
	for i, x := range xs {
		if i == 0 || x != xs[i-1] {
			out = append(out, x)
		}
	}
	return out
}

// diffs queried with snapshot(d): -1 .. min(count,13)+1 and the boundary count-1, count, count+1
func diffWindow(cnt int64) []int64 {
	m := cnt
	if m > winCap {
		m = winCap
	}
	var xs []int64
	for d := int64(-1); d <= m+1; d++ {
		xs = append(xs, d)
	}
	xs = append(xs, cnt-1, cnt, cnt+1)
	return uniqSorted(xs)
}

// epochs queried with snapshotByEpoch(e) / listNodes(e): cur-min(count,13)-2 .. cur+2 and cur-count-1 .. cur-count+1
func epochWindow(cnt, cur int64) []int64 {
	m := cnt
	if m > winCap {
		m = winCap
	}
	var xs []int64
	for e := cur - m - 2; e <= cur+2; e++ {
		xs = append(xs, e)
	}
	xs = append(xs, cur-cnt-1, cur-cnt, cur-cnt+1)
	return uniqSorted(xs)
}

func clampI64(z *big.Int, max int64) int64 {
	if z.Sign() < 0 {
		return 0
	}
	if !z.IsInt64() || z.Int64() > max {
		return max
	}
	return z.Int64()
}

type readObs struct {
	ds, es  []int64
	snap    []string // per d
	byE, ln []string // per e
	nm      string
	ep      string
	next    string
}

func i64s(xs []int64) []any {
	out := make([]any, len(xs))
	for i, x := range xs {
		out[i] = x
	}
	return out
}

// testInvoke runs a test invocation (no block, nothing persisted) with the given witnesses; unlike
// chainx.CallAs it does not sign the throw-away transaction.
func (fx *fixture) testInvoke(signers []util.Uint160, h util.Uint160, method string, args ...any) ([]stackitem.Item, error) {
	script, err := smartcontract.CreateCallScript(h, method, args...)
	if err != nil {
		return nil, err
	}
	tx := transaction.New(script, 0)
	tx.ValidUntilBlock = fx.c.BC.BlockHeight() + 2
	tx.Signers = []transaction.Signer{{Account: fx.c.Payer.ScriptHash(), Scopes: transaction.None}}
	for _, a := range signers {
		tx.Signers = append(tx.Signers, transaction.Signer{Account: a, Scopes: transaction.Global})
	}
	v, err := fx.c.TestInvoke(tx)
	if err != nil {
		return nil, err
	}
	return v.Estack().ToArray(), nil
}

// batch evaluates method(x) for all xs through the observer probe; falls back to single test invocations
// when the batch itself FAULTs (a VM-level fault inside the callee cannot be caught by the probe).
func (w *world) batch(probeMethod, method string, xs []int64, dec func(stackitem.Item) string) []string {
	out := make([]string, len(xs))
	st, err := w.fx.testInvoke(nil, w.fx.obs, probeMethod, w.nm, method, i64s(xs))
	if err == nil && len(st) == 1 {
		if arr, ok := st[0].Value().([]stackitem.Item); ok && len(arr) == len(xs) {
			for i := range arr {
				out[i] = dec(arr[i])
			}
			return out
		}
	}
	w.run.Count("obs.fallback")
	for i, x := range xs {
		st, err := w.fx.testInvoke(nil, w.fx.obs, probeMethod, w.nm, method, []any{x})
		if err != nil || len(st) != 1 {
			out[i] = "F"
			continue
		}
		arr, ok := st[0].Value().([]stackitem.Item)
		if !ok || len(arr) != 1 {
			out[i] = "?"
			continue
		}
		out[i] = dec(arr[0])
	}
	return out
}

func (w *world) read(rs rawState) readObs {
	var ro readObs
	// the windows are computed from min(count, 2^40) and min(epoch, 2^41) (the model's driver does the same)
	cnt, cur := int64(10), int64(0)
	if rs.cnt != nil {
		cnt = clampI64(rs.cnt, 1<<40)
	}
	if rs.cur != nil {
		cur = clampI64(rs.cur, 1<<41)
	}
	ro.ds, ro.es = diffWindow(cnt), epochWindow(cnt, cur)
	intStr := func(it stackitem.Item) string {
		if _, isNull := it.(stackitem.Null); isNull {
			return "F"
		}
		z, err := it.TryInteger()
		if err != nil {
			return "?"
		}
		return z.String()
	}
	nd, ne := len(ro.ds), len(ro.es)
	st, err := w.fx.testInvoke(nil, w.fx.obs, "observe", w.nm, i64s(ro.ds), i64s(ro.es))
	var arr []stackitem.Item
	if err == nil && len(st) == 1 {
		arr, _ = st[0].Value().([]stackitem.Item)
	}
	if len(arr) == nd+2*ne+2 {
		for i := 0; i < nd; i++ {
			ro.snap = append(ro.snap, w.legacyList(arr[i]))
		}
		for i := 0; i < ne; i++ {
			ro.byE = append(ro.byE, w.legacyList(arr[nd+i]))
			ro.ln = append(ro.ln, w.v2List(arr[nd+ne+i]))
		}
		ro.nm = w.legacyList(arr[nd+2*ne])
		ro.ep = intStr(arr[nd+2*ne+1])
	} else {
		// a VM-level fault inside one callee cannot be caught by the probe: ask one by one
		w.run.Count("obs.fallback")
		ro.snap = w.batch("ints", "snapshot", ro.ds, w.legacyList)
		ro.byE = w.batch("ints", "snapshotByEpoch", ro.es, w.legacyList)
		ro.ln = w.batch("lists", "listNodes", ro.es, w.v2List)
		ro.nm, ro.ep = "F", "F"
		if st, err := w.fx.testInvoke(nil, w.nm, "netmap"); err == nil && len(st) == 1 {
			ro.nm = w.legacyList(st[0])
		}
		if st, err := w.fx.testInvoke(nil, w.nm, "epoch"); err == nil && len(st) == 1 {
			ro.ep = intStr(st[0])
		}
	}
	// would the next consecutive tick of the Inner Ring HALT?
	ro.next = "F"
	if rs.cur != nil {
		nx := new(big.Int).Add(rs.cur, big.NewInt(1))
		if _, err := w.fx.testInvoke([]util.Uint160{w.fx.c.Alpha.ScriptHash()}, w.nm, "newEpoch", nx); err == nil {
			ro.next = "H"
		}
	}
	return ro
}

func kvs(keys []int64, vals []string) string {
	s := make([]string, len(keys))
	for i := range keys {
		s[i] = fmt.Sprintf("%d:%s", keys[i], vals[i])
	}
	return strings.Join(s, ";")
}

func (ro readObs) String() string {
	return fmt.Sprintf("snap=[%s] byE=[%s] ln=[%s] nm=%s ep=%s next=%s", kvs(ro.ds, ro.snap), kvs(ro.es, ro.byE), kvs(ro.es, ro.ln), ro.nm, ro.ep, ro.next)
}

// ---------- execution ----------

func (w *world) signers(sig string, nd *node) []neotest.Signer {
	var out []neotest.Signer
	if sig == "-" {
		return out
	}
	for _, s := range strings.Split(sig, "+") {
		switch s {
		case "alpha":
			out = append(out, w.fx.c.Alpha)
		case "cmt":
			out = append(out, w.fx.c.Cmt)
		case "m0":
			out = append(out, w.fx.c.Members[0])
		case "node":
			if nd != nil {
				out = append(out, nd.signer)
			} else {
				out = append(out, w.fx.nodes[0].signer)
			}
		default:
			w.run.T.Fatalf("unknown signer %q", s)
		}
	}
	return out
}

// execOp executes one "op <sig> <method> <arg>" line and returns the observation line.
func (w *world) execOp(line string) string {
	ws := strings.Fields(line)
	if (len(ws) != 4 && !(len(ws) == 5 && ws[4] == "q")) || ws[0] != "op" {
		w.run.T.Fatalf("bad op line %q", line)
	}
	quiet := len(ws) == 5 // "q": the read API is not queried after this op (raw storage still is)
	sig, method := ws[1], ws[2]
	arg := hx.Big(ws[3])
	var nd *node
	var name string
	var cargs []any
	switch method {
	case "tick":
		name, cargs = "newEpoch", []any{arg}
	case "resize":
		name, cargs = "updateSnapshotCount", []any{arg}
	case "addpeer", "addnode", "delnode":
		if !arg.IsInt64() || arg.Int64() < 0 || arg.Int64() >= nNodes {
			w.run.T.Fatalf("bad node id in %q", line)
		}
		nd = w.fx.nodes[arg.Int64()]
		switch method {
		case "addpeer":
			name, cargs = "addPeerIR", []any{nd.blob}
		case "addnode":
			name, cargs = "addNode", []any{nd.v2}
		default:
			name, cargs = "deleteNode", []any{nd.pub}
		}
	default:
		w.run.T.Fatalf("bad method %q", method)
	}
	res := w.fx.c.Invoke(w.signers(sig, nd), w.nm, name, cargs...)
	w.run.Count("op." + method)
	var sb strings.Builder
	if !res.Halt {
		sb.WriteString("FAULT")
		w.run.Count("out.fault." + method)
	} else {
		w.run.Count("out.halt." + method)
		var es []string
		for _, e := range res.Events {
			if e.ScriptHash != w.nm {
				continue
			}
			if e.Name == "NewEpoch" {
				it := e.Item.Value().([]stackitem.Item)
				z, _ := it[0].TryInteger()
				es = append(es, fmt.Sprintf("NewEpoch(%s)", z))
			} else {
				es = append(es, e.Name)
			}
		}
		fmt.Fprintf(&sb, "HALT ev=[%s]", strings.Join(es, ";"))
	}
	rs := w.scan()
	sb.WriteString(" | " + rs.String())
	if method == "tick" || method == "resize" {
		var ro *readObs
		if !quiet {
			r := w.read(rs)
			ro = &r
			sb.WriteString(" | " + ro.String())
		}
		if w.wf && !w.monOff {
			w.monitor(line, sig, method, arg, res.Halt, rs, ro)
		}
	}
	w.lastC1, w.lastC2 = ids(rs.c1), ids(rs.c2)
	w.last = rs
	return sb.String()
}

// ---------- C08 monitor: the property statement evaluated on the implementation's observations ----------
//
// Specification state: N (count accepted last), cur, hist (maps published by the ticks, newest first) and
// valid (how many of them the contract still has to know: a tick adds one up to N, a resize to K cuts it to
// min(valid, K) — "preserves the most recent min(old,new) maps, never resurrects older ones").
func (w *world) monitor(line, sig, method string, arg *big.Int, halted bool, rs rawState, ro *readObs) {
	v := func(what, detail string) {
		site := "netmap.newEpoch"
		if method == "resize" {
			site = "netmap.updateSnapshotCount"
		}
		w.run.Violation("C08", site, what, detail+" after "+line)
	}
	// "… leaves the contract able to tick again": the Inner Ring's tick of the next epoch must never FAULT
	if !halted && method == "tick" && sig == "alpha" && arg.IsInt64() && arg.Int64() == w.spCur+1 {
		v("cannot-tick", fmt.Sprintf("the Alphabet's newEpoch(%d) FAULTed (accepted count N=%d, %d ticks so far)", w.spCur+1, w.spN, w.spCur))
	}
	if halted && method == "tick" {
		if !arg.IsInt64() || arg.Int64() != w.spCur+1 {
			w.monOff = true // not a consecutive tick: outside the property's quantifier
			return
		}
		w.spCur++
		w.spHist = append([]pub{{w.lastC1Dots(), w.lastC2Dots()}}, w.spHist...)
		if w.spValid < w.spN {
			w.spValid++
		}
		if int64(len(w.spHist)) > 600 {
			w.spHist = w.spHist[:600]
		}
	}
	if halted && method == "resize" {
		// every accepted count is inside the property ("any accepted count …"), whatever its size
		w.spN = clampI64(arg, 1<<62)
		if w.spValid > w.spN {
			w.spValid = w.spN
		}
		if ro != nil && ro.next != "H" {
			v("cannot-tick", fmt.Sprintf("count %s was accepted but the next tick (epoch %d) would FAULT", arg, w.spCur+1))
		}
	}
	if ro != nil && ro.next != "H" && method == "tick" {
		v("cannot-tick", fmt.Sprintf("after epoch %d the next tick would FAULT (accepted count N=%d)", w.spCur, w.spN))
	}
	if w.spValid > int64(len(w.spHist)) {
		return // more maps retained than this monitor remembers (only with counts > 600)
	}
	// the structured lists as stored: listNodes(e) reads exactly the keys p‖BE4(e)‖key, so a stored list whose
	// epoch is outside the retained range is a map that listNodes still answers
	for eh, xs := range rs.pl {
		e := int64(new(big.Int).SetBytes(hx.UnHex(eh)).Uint64())
		d := w.spCur - e
		if !(d >= 0 && d < w.spValid) && len(xs) > 0 {
			v("listNodes-leak", fmt.Sprintf("node list of epoch %d (key %s) is still stored: [%s]; cur=%d N=%d retained=%d", e, eh, ids(xs), w.spCur, w.spN, w.spValid))
		}
	}
	if ro == nil {
		return
	}
	if ro.ep != strconv.FormatInt(w.spCur, 10) {
		v("epoch", fmt.Sprintf("epoch() = %s, %d ticks succeeded", ro.ep, w.spCur))
	}
	nothing := func(s string) bool { return s == "" || s == "F" }
	// snapshot(d): the map published d ticks ago for the retained ones, nothing for older / future ones
	for i, d := range ro.ds {
		got := ro.snap[i]
		if d >= 0 && d < w.spValid {
			if got != w.spHist[d].legacy {
				v("snapshot-wrong", fmt.Sprintf("snapshot(%d) = [%s], the map published %d ticks ago (epoch %d) is [%s]; N=%d retained=%d", d, got, d, w.spCur-d, w.spHist[d].legacy, w.spN, w.spValid))
			}
		} else if !nothing(got) {
			v("snapshot-leak", fmt.Sprintf("snapshot(%d) = [%s] but only %d maps are retained (N=%d, epoch %d)", d, got, w.spValid, w.spN, w.spCur))
		}
	}
	for i, e := range ro.es {
		if e < 0 {
			continue // not an epoch number
		}
		d := w.spCur - e
		in := d >= 0 && d < w.spValid
		if in {
			if ro.byE[i] != w.spHist[d].legacy {
				v("snapshotByEpoch-wrong", fmt.Sprintf("snapshotByEpoch(%d) = [%s], published was [%s]; cur=%d N=%d retained=%d", e, ro.byE[i], w.spHist[d].legacy, w.spCur, w.spN, w.spValid))
			}
			if ro.ln[i] != w.spHist[d].v2 {
				v("listNodes-wrong", fmt.Sprintf("listNodes(%d) = [%s], published was [%s]; cur=%d N=%d retained=%d", e, ro.ln[i], w.spHist[d].v2, w.spCur, w.spN, w.spValid))
			}
		} else {
			if !nothing(ro.byE[i]) {
				v("snapshotByEpoch-leak", fmt.Sprintf("snapshotByEpoch(%d) = [%s]; cur=%d N=%d retained=%d", e, ro.byE[i], w.spCur, w.spN, w.spValid))
			}
			if !nothing(ro.ln[i]) {
				v("listNodes-leak", fmt.Sprintf("listNodes(%d) = [%s] for an epoch that is older than the %d retained ones or in the future; cur=%d N=%d", e, ro.ln[i], w.spValid, w.spCur, w.spN))
			}
		}
	}
	want := ""
	if w.spValid > 0 {
		want = w.spHist[0].legacy
	}
	if ro.nm != want {
		v("netmap-wrong", fmt.Sprintf("netmap() = [%s], current map is [%s]", ro.nm, want))
	}
}

func (w *world) lastC1Dots() string { return w.lastC1 }
func (w *world) lastC2Dots() string { return w.lastC2 }

// ---------- generation ----------

// gray-code walk over the node pool: the map published at consecutive epochs differs in exactly one node,
// and any 32 consecutive maps are pairwise different (so an off-by-one in a ring index is visible).
func gray(i int) int { return i ^ (i >> 1) }

type gen struct {
	w     *world
	rng   *rand.Rand
	step  int // position of the gray walk
	first []string
	nops  int
}

func (g *gen) emit(l string) {
	obs := g.w.execOp(l)
	g.w.run.Op(l, obs)
	g.nops++
	if len(g.first) < 400 {
		g.first = append(g.first, l+"  =>  "+clip(obs, 260))
	}
}

func clip(s string, n int) string {
	if len(s) > n {
		return s[:n] + "…"
	}
	return s
}

func (g *gen) cur() int64 {
	if g.w.last.cur != nil && g.w.last.cur.IsInt64() {
		return g.w.last.cur.Int64()
	}
	return 0
}
func (g *gen) cnt() int64 {
	if g.w.last.cnt != nil && g.w.last.cnt.IsInt64() {
		return g.w.last.cnt.Int64()
	}
	return 10
}
func (g *gen) id() int64 {
	if g.w.last.id != nil && g.w.last.id.IsInt64() {
		return g.w.last.id.Int64()
	}
	return 0
}

// toggle emits the candidate operations that move the candidate set to the next gray-code set.
func (g *gen) toggle() {
	g.step++
	a, b := gray(g.step-1)%(1<<nNodes), gray(g.step)%(1<<nNodes)
	for i := 0; i < nNodes; i++ {
		if (a^b)>>i&1 == 1 {
			if b>>i&1 == 1 {
				g.emit(fmt.Sprintf("op alpha addpeer %d", i))
				g.emit(fmt.Sprintf("op alpha+node addnode %d", i))
			} else {
				g.emit(fmt.Sprintf("op alpha delnode %d", i))
			}
		}
	}
}

func (g *gen) tick() {
	g.toggle()
	g.emit(fmt.Sprintf("op alpha tick %d", g.cur()+1))
}

// quietTick: the read API is not queried afterwards (the decoded raw storage still is)
func (g *gen) quietTick() {
	g.toggle()
	g.emit(fmt.Sprintf("op alpha tick %d q", g.cur()+1))
}

func (g *gen) sample(title string) {
	// the sample shows the head of the case and the lines around the count changes
	var out []string
	for i, l := range g.first {
		if i < 3 || strings.Contains(l, " resize ") || (i > 0 && strings.Contains(g.first[i-1], " resize ")) {
			out = append(out, l)
		}
	}
	if len(out) > 9 {
		out = out[:9]
	}
	g.w.run.Sample(title + "\n" + strings.Join(out, "\n"))
}

// scopeCase runs tick^a · resize k1 · tick^b · resize k2 · tick^c (the bounded scope named by the property).
func scopeCase(fx *fixture, run *hx.Run, id string, a, k1, b, k2, c int) {
	w := newWorld(fx, run, true)
	run.Case(id, "wf")
	g := &gen{w: w}
	for i := 0; i < a; i++ {
		// the first a ticks run at the deployed count and are the same in 13*15*13 cases: the read API is queried
		// after the last one only (and in full in the a = 14 cases)
		if i == a-1 || a == scopeA-1 {
			g.tick()
		} else {
			g.quietTick()
		}
	}
	g.emit(fmt.Sprintf("op alpha resize %d", k1))
	for i := 0; i < b; i++ {
		g.tick()
	}
	g.emit(fmt.Sprintf("op alpha resize %d", k2))
	for i := 0; i < c; i++ {
		g.tick()
	}
	run.Count("case.scope")
	g.sample(fmt.Sprintf("bounded scope: tick^%d resize(%d) tick^%d resize(%d) tick^%d", a, k1, b, k2, c))
}

func scopeC(a, b, k2 int) int {
	c := k2 + 2
	if a+b+c > 30 {
		c = 30 - a - b
	}
	return c
}

var sigsBad = []string{"-", "cmt", "m0", "node", "cmt+node", "m0+node"}

// randomCase: a seeded longer history inside the property's quantifier (consecutive or stale ticks, counts
// <= 256), with boundary counts derived from the model's comparisons and all signer sets.
func randomCase(fx *fixture, run *hx.Run, id string, rng *rand.Rand, nops int) {
	w := newWorld(fx, run, true)
	run.Case(id, "wf")
	g := &gen{w: w, rng: rng}
	for g.nops < nops {
		r := rng.IntN(100)
		switch {
		case r < 50: // tick
			if rng.IntN(10) < 7 {
				g.toggle()
			}
			e := g.cur() + 1
			switch rng.IntN(16) {
			case 0:
				e = g.cur()
			case 1:
				e = g.cur() - 1
			case 2:
				e = 0
			}
			sig := "alpha"
			if rng.IntN(12) == 0 {
				sig = hx.Pick(rng, sigsBad)
			}
			g.emit(fmt.Sprintf("op %s tick %d", sig, e))
		case r < 72: // resize
			old, id := g.cnt(), g.id()
			cands := []int64{0, 1, 2, 3, id, id + 1, id + 2, old - 1, old, old + 1, old + 2, old / 2, 2 * old, old + id + 1, old - id,
				int64(1 + rng.IntN(14)), int64(1 + rng.IntN(14)), int64(1 + rng.IntN(14)), int64(1 + rng.IntN(14)), int64(1 + rng.IntN(40)), -1}
			ks := fmt.Sprint(hx.Pick(rng, cands))
			if rng.IntN(12) == 0 {
				// around the upper guard of the method (one-byte ring index) and far beyond it
				ks = hx.Pick(rng, []string{"128", "200", "254", "255", "256", "257", "258", "300", "511", "65536", "9223372036854775808"})
			}
			sig := "alpha"
			if rng.IntN(10) == 0 {
				sig = hx.Pick(rng, sigsBad)
			}
			g.emit(fmt.Sprintf("op %s resize %s", sig, ks))
		default: // candidate changes, all signer sets
			i := rng.IntN(nNodes)
			sig := "alpha"
			m := hx.Pick(rng, []string{"addpeer", "addnode", "delnode"})
			if m == "addnode" {
				sig = "alpha+node"
			}
			if rng.IntN(6) == 0 {
				sig = hx.Pick(rng, append(sigsBad, "alpha", "alpha+node"))
			}
			g.emit(fmt.Sprintf("op %s %s %d", sig, m, i))
		}
	}
	run.Count("case.random")
	g.sample("random history inside the quantifier")
}

// bigCountCase: inside the quantifier. The ring position is brought to old-1 (where a grow has nothing to move and
// therefore cannot FAULT in a move), then a count beyond the one-byte ring index is requested and 262 ticks follow:
// the count must be refused, or else the contract must go on ticking and answering.
func bigCountCase(fx *fixture, run *hx.Run, id string, rng *rand.Rand) {
	w := newWorld(fx, run, true)
	run.Case(id, "wf")
	g := &gen{w: w, rng: rng}
	big := hx.Pick(rng, []string{"257", "300", "511", "9223372036854775808"})
	switch rng.IntN(3) {
	case 0: // count 1: the current index is always old-1
		g.tick()
		g.emit("op alpha resize 1")
	case 1: // deployed count, 9 ticks: index 9 = old-1
		for i := 0; i < 9; i++ {
			g.tick()
		}
	default: // largest legal count first
		g.emit("op alpha resize 256")
		g.tick()
		g.emit("op alpha resize 2") // index 1 = old-1
	}
	g.emit("op alpha resize " + big)
	g.emit("op alpha resize 256")
	for i := 0; i < 262; i++ {
		if i%64 == 63 {
			g.tick()
		} else {
			g.emit(fmt.Sprintf("op alpha tick %d q", g.cur()+1))
		}
	}
	g.emit("op alpha resize " + big)
	g.emit("op alpha resize 5")
	g.tick()
	g.tick()
	run.Count("case.bigcount")
	g.sample("count beyond the one-byte ring index requested at ring position old-1, then 262 ticks")
}

// malformedCase: outside the property's quantifier (monitor off, compared with the model only): epoch jumps over
// the encoding boundaries of fourBytesBE, negative / huge arguments, counts beyond the one-byte index.
func malformedCase(fx *fixture, run *hx.Run, id string, rng *rand.Rand, nops int) {
	w := newWorld(fx, run, false)
	run.Case(id, "nonwf")
	g := &gen{w: w, rng: rng}
	bigs := []string{"127", "128", "129", "255", "256", "257", "32767", "32768", "65535", "65536", "65537", "8388607", "8388608", "16777215", "16777216",
		"2147483647", "2147483648", "4294967295", "4294967296", "4294967297", "4294967551", "1099511627776",
		"-1", "-128", "-129", "-255", "-256", "-32768", "-32769", "0"}
	hugeCounts := []string{"2147483648", "9223372036854775807", "9223372036854775808", "-9223372036854775809", "340282366920938463463374607431768211456"}
	for g.nops < nops {
		r := rng.IntN(100)
		switch {
		case r < 45:
			if rng.IntN(2) == 0 {
				g.toggle()
			}
			e := fmt.Sprint(g.cur() + 1)
			switch rng.IntN(6) {
			case 0:
				e = fmt.Sprint(g.cur() + int64(2+rng.IntN(12)))
			case 1:
				e = hx.Pick(rng, bigs)
			case 2:
				// land just before an encoding boundary so that the following consecutive ticks cross it
				bs := []int64{126, 254, 32766, 65534, 16777214, 2147483646, 4294967294}
				b := hx.Pick(rng, bs)
				if b > g.cur() {
					e = fmt.Sprint(b)
				}
			}
			sig := "alpha"
			if rng.IntN(15) == 0 {
				sig = hx.Pick(rng, sigsBad)
			}
			g.emit(fmt.Sprintf("op %s tick %s", sig, e))
		case r < 75:
			old, id := g.cnt(), g.id()
			k := fmt.Sprint(hx.Pick(rng, []int64{0, 1, 2, id, id + 1, old - 1, old + 1, 2 * old, old + 250, int64(1 + rng.IntN(20)), int64(1 + rng.IntN(20)),
				254, 255, 256, 257, 258, 300, 511, 512, 65536}))
			if rng.IntN(8) == 0 {
				k = hx.Pick(rng, append(bigs, hugeCounts...))
			}
			g.emit(fmt.Sprintf("op alpha resize %s", k))
		default:
			i := rng.IntN(nNodes)
			m := hx.Pick(rng, []string{"addpeer", "addnode", "delnode"})
			sig := "alpha+node"
			if rng.IntN(8) == 0 {
				sig = hx.Pick(rng, sigsBad)
			}
			g.emit(fmt.Sprintf("op %s %s %d", sig, m, i))
		}
	}
	run.Count("case.malformed")
	g.sample("malformed stream (outside the quantifier, model comparison only)")
}

const (
	scopeA, scopeK, scopeB = 15, 13, 15 // a in 0..14, k in 0..12, b in 0..14
	scopeSize              = scopeA * scopeK * scopeB * scopeK
)

func scopeParams(i int) (a, k1, b, k2 int) {
	k2 = i % scopeK
	i /= scopeK
	b = i % scopeB
	i /= scopeB
	k1 = i % scopeK
	i /= scopeK
	a = i % scopeA
	return
}

func TestRun(t *testing.T) {
	run := hx.Open(t)
	defer run.Close()
	if run.Mode == "replay" {
		fx := newFixture(t, 5)
		var w *world
		var smp []string
		for _, l := range run.ReplayLines() {
			if strings.HasPrefix(l, "case ") {
				f := strings.Fields(l)
				w = newWorld(fx, run, len(f) > 2 && f[2] == "wf")
				run.Case(f[1], f[2:]...)
				continue
			}
			if w == nil {
				t.Fatal("op before case")
			}
			obs := w.execOp(l)
			run.Op(l, obs)
			if strings.Contains(l, " resize ") {
				smp = append(smp, l+"  =>  "+clip(obs, 260))
			}
		}
		// (stats.json must carry a list of samples, never null)
		run.Sample("replay of " + filepath.Base(run.OpsIn) + "\n" + strings.Join(smp, "\n"))
		return
	}
	// (1) the bounded scope named by the property: exhaustive in the thorough tier (sharded), sampled in quick
	t0 := time.Now()
	phase := os.Getenv("VERIF_RING_PHASE") // debugging aid: "scope" or "random" runs only that part
	var idx []int
	if phase == "random" {
		// skip the scope
	} else if run.Tier == "thorough" {
		for i := run.Shard; i < scopeSize; i += run.Shards {
			idx = append(idx, i)
		}
		run.Count("scope.exhaustive.shards")
	} else {
		rng := run.Rand(0)
		for ci := 0; ci < 30; ci++ {
			idx = append(idx, rng.IntN(scopeSize))
		}
	}
	// a new single-member chain every 12 cases keeps the in-memory store small (every storage.Find scans all of
	// it); the sub-test closes the chain when the batch is done
	for lo := 0; lo < len(idx); lo += 12 {
		hi := min(lo+12, len(idx))
		t.Run(fmt.Sprintf("scope%d", lo), func(st *testing.T) {
			fx := newFixture(st, 1)
			for _, i := range idx[lo:hi] {
				a, k1, b, k2 := scopeParams(i)
				scopeCase(fx, run, fmt.Sprintf("x%d", i), a, k1, b, k2, scopeC(a, b, k2))
			}
		})
	}
	t.Logf("scope phase: %d cases, %d ops, %.1fs", run.Stats["cases"], run.Stats["ops"], time.Since(t0).Seconds())
	// (2) random longer histories with all signer sets, (3) malformed stream
	nr, nm, nops := 4, 2, 160
	if run.Tier == "thorough" {
		nr, nm, nops = 24, 10, 240
	}
	if phase == "scope" {
		nr, nm = 0, 0
	}
	fx5 := newFixture(t, 5)
	for ci := 0; ci < nr; ci++ {
		randomCase(fx5, run, fmt.Sprintf("s%d.%d.r%d", run.Seed, run.Shard, ci), run.Rand(1000+ci), nops)
	}
	nb := 1
	if run.Tier == "thorough" {
		nb = 2
	}
	if phase == "scope" {
		nb = 0
	}
	for ci := 0; ci < nb; ci++ {
		bigCountCase(fx5, run, fmt.Sprintf("s%d.%d.b%d", run.Seed, run.Shard, ci), run.Rand(3000+ci))
	}
	for ci := 0; ci < nm; ci++ {
		malformedCase(fx5, run, fmt.Sprintf("s%d.%d.m%d", run.Seed, run.Shard, ci), run.Rand(2000+ci), nops)
	}
	t.Logf("all phases: %d cases, %d ops, %.1fs", run.Stats["cases"], run.Stats["ops"], time.Since(t0).Seconds())
}
