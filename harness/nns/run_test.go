// Correspondence harness for the NNS contract (C10, C11, C12): executes operation lines on the contract
// compiled from the repository under test, prints canonical observations (return value, notifications,
// decoded raw storage; read API answers for the q.* lines) for the diff with the Lean model, and runs the
// property monitors on the implementation's own observations.
//
// op line:  op <now> <sig> <cmt> <caller> <ip> <recv> <method> <args…>      (see lean/Driver/NNS.lean)
package nns

import (
	"bytes"
	"fmt"
	"math/big"
	"path/filepath"
	"runtime"
	"sort"
	"strconv"
	"strings"
	"testing"

	"github.com/nspcc-dev/neo-go/pkg/crypto/hash"
	"github.com/nspcc-dev/neo-go/pkg/neotest"
	"github.com/nspcc-dev/neo-go/pkg/util"
	"github.com/nspcc-dev/neo-go/pkg/vm/stackitem"

	"verifharness/chainx"
	"verifharness/hx"
)

const (
	nUsers   = 5
	msYear   = int64(365 * 24 * 3600 * 1000)
	typA     = 1
	typCNAME = 5
	typSOA   = 6
	typTXT   = 16
	typAAAA  = 28
)

// ---------------------------------------------------------------- decoded storage

type nameSt struct {
	owner []byte
	name  string // NameState.Name
	exp   *big.Int
	admin []byte
}

type recSt struct {
	token, name string // pre-images of the two hashes of the key ("?…" when unknown)
	tb, idb     int
	rname       string
	typ, id     *big.Int
	data        []byte
}

type snap struct {
	supply, price *big.Int
	roots         []string
	names         map[string]nameSt // by the pre-image of the key
	bal           map[string]*big.Int
	toks          map[string][]string // owner hex -> token ids (values)
	recs          []recSt
	str           string
}

func hexs(s string) string { return hx.Hex([]byte(s)) }

func bytesToInt(b []byte) *big.Int {
	z, err := stackitem.NewByteArray(b).TryInteger()
	if err != nil {
		panic(err)
	}
	return z
}

func itemBytes(it stackitem.Item) []byte {
	if _, ok := it.(stackitem.Null); ok {
		return nil
	}
	b, err := it.TryBytes()
	if err != nil {
		panic(err)
	}
	return b
}

func itemInt(it stackitem.Item) *big.Int {
	z, err := it.TryInteger()
	if err != nil {
		panic(err)
	}
	return z
}

func h160(s string) string { return string(hash.RipeMD160([]byte(s)).BytesBE()) }

// scan decodes the whole contract storage into the typed families and the canonical state string.
func (w *world) scan() *snap {
	s := &snap{supply: new(big.Int), price: new(big.Int), names: map[string]nameSt{}, bal: map[string]*big.Int{}, toks: map[string][]string{}}
	kvs := w.c.Scan(w.nns)
	byHash := map[string]string{}
	var eNames, eBal, eToks, eRecs, eRoots []string
	for _, kv := range kvs {
		if kv.K[0] == 0x21 {
			f := mustStruct(kv.V)
			ns := nameSt{owner: itemBytes(f[0]), name: string(itemBytes(f[1])), exp: itemInt(f[2]), admin: itemBytes(f[3])}
			key := ns.name
			if h160(ns.name) != string(kv.K[1:]) {
				key = "?" + string(kv.K[1:])
			}
			byHash[string(kv.K[1:])] = key
			s.names[key] = ns
			eNames = append(eNames, fmt.Sprintf("%s:%s:%s:%s:%s", hexs(key), hx.Hex(ns.owner), hexs(ns.name), ns.exp, hx.Hex(ns.admin)))
		}
	}
	pre := func(h []byte, claimed string) string {
		if h160(claimed) == string(h) {
			return claimed
		}
		if n, ok := byHash[string(h)]; ok {
			return n
		}
		return "?" + string(h)
	}
	for _, kv := range kvs {
		switch kv.K[0] {
		case 0x00:
			s.supply = bytesToInt(kv.V)
		case 0x10:
			s.price = bytesToInt(kv.V)
		case 0x01:
			o := hx.Hex(kv.K[1:])
			s.bal[o] = bytesToInt(kv.V)
			eBal = append(eBal, fmt.Sprintf("%s:%s", o, s.bal[o]))
		case 0x02:
			o := hx.Hex(kv.K[1:21])
			kn := pre(kv.K[21:], string(kv.V))
			s.toks[o] = append(s.toks[o], string(kv.V))
			eToks = append(eToks, fmt.Sprintf("%s/%s=%s", o, hexs(kn), hx.Hex(kv.V)))
		case 0x20:
			s.roots = append(s.roots, string(kv.K[1:]))
			eRoots = append(eRoots, hx.Hex(kv.K[1:]))
		case 0x21:
		case 0x22:
			f := mustStruct(kv.V)
			r := recSt{rname: string(itemBytes(f[0])), typ: itemInt(f[1]), data: itemBytes(f[2]), id: itemInt(f[3])}
			if len(kv.K) != 43 {
				r.token, r.name, r.tb, r.idb = "?"+string(kv.K[1:]), "?", -1, -1
			} else {
				r.token = "?" + string(kv.K[1:21])
				if n, ok := byHash[string(kv.K[1:21])]; ok {
					r.token = n
				}
				r.name = pre(kv.K[21:41], r.rname)
				r.tb, r.idb = int(kv.K[41]), int(kv.K[42])
			}
			s.recs = append(s.recs, r)
			eRecs = append(eRecs, fmt.Sprintf("%s/%s/%d/%d=%s/%s/%s/%s", hexs(r.token), hexs(r.name), r.tb, r.idb, hexs(r.rname), r.typ, hx.Hex(r.data), r.id))
		default:
			eRecs = append(eRecs, fmt.Sprintf("?%x=%x", kv.K, kv.V))
		}
	}
	j := func(xs []string) string { sort.Strings(xs); return strings.Join(xs, ";") }
	s.str = fmt.Sprintf("supply=%s price=%s roots=[%s] names=[%s] bal=[%s] toks=[%s] recs=[%s]",
		s.supply, s.price, j(eRoots), j(eNames), j(eBal), j(eToks), j(eRecs))
	return s
}

func mustStruct(v []byte) []stackitem.Item {
	it, err := stackitem.Deserialize(v)
	if err != nil {
		panic(fmt.Sprintf("bad stored struct %x", v))
	}
	f, ok := it.Value().([]stackitem.Item)
	if !ok || len(f) != 4 {
		panic(fmt.Sprintf("bad stored struct %x", v))
	}
	return f
}

// ---------------------------------------------------------------- world

type world struct {
	c      *chainx.Chain
	nns    util.Uint160
	probe  util.Uint160
	users  map[string]neotest.Signer // hex(script hash) -> signer (users and the committee)
	uhash  []string
	cmt    string
	n      int            // committee size
	cmtByK map[int]string // k -> hex hash of the k-of-n committee multisignature account
	run    *hx.Run
	wf     bool
	prev   *snap
	mon    *monitor
	// monitor evaluations of the current op, run after the op line has been recorded
	pending []func()
}

func thisDir() string {
	_, f, _, _ := runtime.Caller(0)
	return filepath.Dir(f)
}

// caseCommittee reads the committee size from the attributes of a case line (`n=4`); default 1.
func caseCommittee(attrs []string) int {
	for _, a := range attrs {
		if strings.HasPrefix(a, "n=") {
			if n, err := strconv.Atoi(a[2:]); err == nil && n >= 1 && n <= 7 {
				return n
			}
		}
	}
	return 1
}

func newWorld(t testing.TB, run *hx.Run, n int) *world {
	c := chainx.New(t, n)
	ct := c.Compile("nns")
	c.Deploy(ct, nil)
	pr := c.CompileDir(filepath.Join(thisDir(), "..", "probes", "caller"))
	c.Deploy(pr, nil)
	w := &world{c: c, nns: ct.Hash, probe: pr.Hash, users: map[string]neotest.Signer{}, run: run}
	for i := 0; i < nUsers; i++ {
		u := c.User(fmt.Sprintf("U%d", i))
		h := hx.Hex(u.ScriptHash().BytesBE())
		w.users[h] = u
		w.uhash = append(w.uhash, h)
	}
	w.cmt = hx.Hex(c.Cmt.ScriptHash().BytesBE())
	w.users[w.cmt] = c.Cmt
	// the k-of-n multisignature accounts of the committee keys, every k: signer classes of the committee gate
	w.n, w.cmtByK = n, map[int]string{}
	for k := 1; k <= n; k++ {
		sg := c.NNSCommitteeMultisig(k)
		h := hx.Hex(sg.ScriptHash().BytesBE())
		w.cmtByK[k] = h
		if h != w.cmt {
			w.users[h] = sg
		}
	}
	w.prev = w.scan()
	w.mon = newMonitor(w)
	return w
}

func (w *world) probeHex() string { return hx.Hex(w.probe.BytesBE()) }

// recvClass: what management.GetContract(h) means for postTransfer.
func (w *world) recvClass(hexh string) int {
	switch hexh {
	case w.probeHex():
		return 1
	case hx.Hex(w.nns.BytesBE()), hx.Hex(w.c.GAS.BytesBE()):
		return 2
	}
	return 0
}

func hashArg(s string) any {
	if s == "-" {
		return nil
	}
	return hx.UnHex(s)
}

func strArg(s string) any {
	b := hx.UnHex(s)
	if b == nil {
		return []byte{}
	}
	return b
}

type opLine struct {
	now                  uint64
	sig                  []string
	cmtK, cmtN           int // a k-of-n committee multisignature account signs (k = 0: none)
	ip                   bool
	caller, method, line string
	args                 []string
}

func parseLine(t testing.TB, line string) opLine {
	ws := strings.Fields(line)
	if len(ws) < 8 || ws[0] != "op" {
		t.Fatalf("bad op line %q", line)
	}
	now, err := strconv.ParseUint(ws[1], 10, 64)
	if err != nil {
		t.Fatalf("bad time in %q", line)
	}
	o := opLine{now: now, cmtN: 1, ip: ws[5] == "1", caller: ws[4], method: ws[7], args: ws[8:], line: line}
	if kn := strings.Split(ws[3], "/"); len(kn) == 2 {
		o.cmtK, _ = strconv.Atoi(kn[0])
		o.cmtN, _ = strconv.Atoi(kn[1])
	} else {
		o.cmtK, _ = strconv.Atoi(ws[3]) // short forms 0 and 1 = 0/1 and 1/1
	}
	if ws[2] != "-" {
		o.sig = strings.Split(ws[2], ",")
	}
	return o
}

// committee: the call carries the witness of the committee, i.e. of a multisignature account of at least the
// majority n/2+1 of the committee keys.
func (o opLine) committee() bool { return o.cmtN >= 1 && o.cmtK >= o.cmtN/2+1 }

func (o opLine) witnessed(h []byte) bool {
	if len(h) != 20 {
		return false
	}
	x := hx.Hex(h)
	if o.caller == x {
		return true
	}
	for _, s := range o.sig {
		if s == x {
			return true
		}
	}
	return false
}

type event struct {
	name     string
	from, to []byte
	token    string
	str      string
}

type outcome struct {
	fault  string // fault text (statistics and the committee-gate clause only; never compared with the model)
	halt   bool
	ret    string
	events []event
}

// execOp executes one "op ..." line and returns the observation line.
func (w *world) execOp(line string) string {
	o := parseLine(w.run.T, line)
	if strings.HasPrefix(o.method, "q.") {
		return w.execQuery(o)
	}
	var signers []neotest.Signer
	for _, h := range o.sig {
		u, ok := w.users[h]
		if !ok {
			w.run.T.Fatalf("unknown signer %s", h)
		}
		signers = append(signers, u)
	}
	a := o.args
	need := func(n int) {
		if len(a) != n {
			w.run.T.Fatalf("bad arity in %q", line)
		}
	}
	var name string
	var cargs []any
	burn := new(big.Int)
	switch o.method {
	case "tick":
		w.c.AddBlockAt(o.now)
		w.run.Count("op.tick")
		cur := w.scan()
		oc := outcome{halt: true, ret: "null"}
		w.after(func(prev *snap) { w.mon.afterOp(o, oc, prev, cur) })
		w.prev = cur
		return "HALT ret=null ev=[] | " + cur.str
	case "register":
		need(7)
		name, cargs = "register", []any{strArg(a[0]), hashArg(a[1]), strArg(a[2]), hx.Big(a[3]), hx.Big(a[4]), hx.Big(a[5]), hx.Big(a[6])}
		burn.Set(w.prev.price)
	case "registerTLD":
		need(6)
		name, cargs = "registerTLD", []any{strArg(a[0]), strArg(a[1]), hx.Big(a[2]), hx.Big(a[3]), hx.Big(a[4]), hx.Big(a[5])}
	case "transfer":
		need(2)
		name, cargs = "transfer", []any{hashArg(a[0]), strArg(a[1]), nil}
	case "renew":
		need(2)
		name, cargs = "renew", []any{strArg(a[0]), hx.Big(a[1])}
		burn.Mul(w.prev.price, hx.Big(a[1]))
	case "renewDefault":
		need(1)
		name, cargs = "renew", []any{strArg(a[0])}
		burn.Set(w.prev.price)
	case "updateSOA":
		need(6)
		name, cargs = "updateSOA", []any{strArg(a[0]), strArg(a[1]), hx.Big(a[2]), hx.Big(a[3]), hx.Big(a[4]), hx.Big(a[5])}
	case "setAdmin":
		need(2)
		name, cargs = "setAdmin", []any{strArg(a[0]), hashArg(a[1])}
	case "addRecord":
		need(3)
		name, cargs = "addRecord", []any{strArg(a[0]), hx.Big(a[1]), strArg(a[2])}
	case "setRecord":
		need(4)
		name, cargs = "setRecord", []any{strArg(a[0]), hx.Big(a[1]), hx.Big(a[2]), strArg(a[3])}
	case "deleteRecords":
		need(2)
		name, cargs = "deleteRecords", []any{strArg(a[0]), hx.Big(a[1])}
	case "setPrice":
		need(1)
		name, cargs = "setPrice", []any{hx.Big(a[0])}
	default:
		w.run.T.Fatalf("bad method %q", o.method)
	}
	// system fee: execution + the GAS burnt by register/renew (GAS limits are not part of the model)
	fee := int64(30_0000_0000)
	if burn.Sign() > 0 && burn.IsInt64() && burn.Int64() < 8000_0000_0000 {
		fee += burn.Int64()
	}
	var tx = w.c.NNSNewTxFee(fee, signers, w.nns, name, cargs...)
	if o.caller != "-" {
		if o.caller != w.probeHex() {
			w.run.T.Fatalf("unknown caller %s", o.caller)
		}
		tx = w.c.NNSNewTxFee(fee, signers, w.probe, "call", w.nns, name, cargs)
	}
	res := w.c.NNSExecAt(o.now, tx)
	w.run.Count("op." + o.method)
	oc := outcome{halt: res.Halt, fault: res.Fault}
	var sb strings.Builder
	if !res.Halt {
		sb.WriteString("FAULT")
		w.run.Count("out." + o.method + ".fault")
		w.run.Count("fault." + o.method + "." + faultKind(res.Fault))
	} else {
		oc.ret = "?"
		if len(res.Stack) == 1 {
			switch it := res.Stack[0].(type) {
			case stackitem.Null:
				oc.ret = "null"
			case stackitem.Bool:
				oc.ret = strconv.FormatBool(it.Value().(bool))
			case *stackitem.BigInteger:
				oc.ret = it.Value().(*big.Int).String()
			}
		}
		var es []string
		for _, e := range res.Events {
			if e.ScriptHash != w.nns {
				continue
			}
			it := e.Item.Value().([]stackitem.Item)
			ev := event{name: e.Name}
			switch e.Name {
			case "Transfer":
				ev.from, ev.to, ev.token = itemBytes(it[0]), itemBytes(it[1]), string(itemBytes(it[3]))
				ev.str = fmt.Sprintf("Transfer(%s,%s,%s,%s)", hx.Hex(ev.from), hx.Hex(ev.to), itemInt(it[2]), hexs(ev.token))
			case "SetAdmin":
				ev.str = fmt.Sprintf("SetAdmin(%s,%s,%s)", hx.Hex(itemBytes(it[0])), hx.Hex(itemBytes(it[1])), hx.Hex(itemBytes(it[2])))
			case "Renew":
				ev.str = fmt.Sprintf("Renew(%s,%s,%s)", hx.Hex(itemBytes(it[0])), itemInt(it[1]), itemInt(it[2]))
			default:
				ev.str = "?" + e.Name
			}
			oc.events = append(oc.events, ev)
			es = append(es, ev.str)
		}
		cls := oc.ret
		if cls != "true" && cls != "false" && cls != "null" {
			cls = "int"
		}
		w.run.Count("out." + o.method + "." + cls)
		fmt.Fprintf(&sb, "HALT ret=%s ev=[%s]", oc.ret, strings.Join(es, ";"))
	}
	cur := w.scan()
	sb.WriteString(" | " + cur.str)
	w.after(func(prev *snap) { w.mon.afterOp(o, oc, prev, cur) })
	w.prev = cur
	return sb.String()
}

// faultKind condenses a fault text to a short slug for the statistics (never compared with the model).
func faultKind(msg string) string {
	if i := strings.Index(msg, "unhandled exception: "); i >= 0 {
		msg = strings.Trim(msg[i+len("unhandled exception: "):], "\"")
		if j := strings.IndexByte(msg, ':'); j > 0 {
			msg = msg[:j]
		}
	} else if i := strings.Index(msg, "("); i >= 0 {
		msg = msg[i:]
	}
	f := strings.Fields(msg)
	if len(f) > 6 {
		f = f[:6]
	}
	return strings.Join(f, "_")
}

// ---------------------------------------------------------------- read API

type qres struct {
	halt  bool
	str   string   // canonical
	list  []string // raw strings for list answers
	recs  [][4]string
	bytes []byte
	int   *big.Int
	bool  bool
}

func (w *world) execQuery(o opLine) string {
	a := o.args
	var st []stackitem.Item
	var err error
	m := strings.TrimPrefix(o.method, "q.")
	call := func(args ...any) { st, err = w.c.NNSCallAt(o.now, nil, w.nns, m, args...) }
	switch m {
	case "totalSupply", "getPrice", "roots", "tokens":
		call()
	case "ownerOf", "properties", "isAvailable", "getAllRecords":
		call(strArg(a[0]))
	case "balanceOf", "tokensOf":
		call(hashArg(a[0]))
	case "getRecords", "resolve":
		call(strArg(a[0]), hx.Big(a[1]))
	default:
		w.run.T.Fatalf("bad query %q", o.method)
	}
	w.run.Count("op." + o.method)
	var q qres
	if err != nil || len(st) != 1 {
		w.run.Count("out." + o.method + ".fault")
		w.after(func(prev *snap) { w.mon.afterQuery(o, q, prev) })
		return "FAULT | -"
	}
	q.halt = true
	it := st[0]
	asList := func() []string {
		arr, ok := it.Value().([]stackitem.Item)
		if !ok {
			return nil
		}
		var out []string
		for _, x := range arr {
			out = append(out, string(itemBytes(x)))
		}
		return out
	}
	hexList := func(xs []string, sorted bool) string {
		hs := make([]string, len(xs))
		for i, x := range xs {
			hs[i] = hexs(x)
		}
		if sorted {
			sort.Strings(hs)
		}
		return "[" + strings.Join(hs, ",") + "]"
	}
	switch m {
	case "totalSupply", "getPrice", "balanceOf":
		q.int = itemInt(it)
		q.str = q.int.String()
	case "roots", "tokens", "tokensOf":
		q.list = asList()
		q.str = hexList(q.list, true)
	case "ownerOf":
		q.bytes = itemBytes(it)
		q.str = hx.Hex(q.bytes)
	case "properties":
		mp := it.Value().([]stackitem.MapElement)
		var n, e, ad string = "?", "?", "?"
		for _, el := range mp {
			switch string(itemBytes(el.Key)) {
			case "name":
				n = hx.Hex(itemBytes(el.Value))
			case "expiration":
				e = itemInt(el.Value).String()
			case "admin":
				ad = hx.Hex(itemBytes(el.Value))
			}
		}
		q.list = []string{n, e, ad}
		q.str = fmt.Sprintf("{%s,%s,%s}", n, e, ad)
	case "isAvailable":
		b, _ := it.TryBool()
		q.bool = b
		q.str = strconv.FormatBool(b)
	case "getRecords", "resolve":
		q.list = asList()
		q.str = hexList(q.list, false)
	case "getAllRecords":
		arr, _ := it.Value().([]stackitem.Item)
		var es []string
		for _, x := range arr {
			f := x.Value().([]stackitem.Item)
			r := [4]string{string(itemBytes(f[0])), itemInt(f[1]).String(), string(itemBytes(f[2])), itemInt(f[3]).String()}
			q.recs = append(q.recs, r)
			es = append(es, fmt.Sprintf("%s/%s/%s/%s", hexs(r[0]), r[1], hexs(r[2]), r[3]))
		}
		q.str = "[" + strings.Join(es, ",") + "]"
	}
	w.run.Count("out." + o.method + ".halt")
	w.after(func(prev *snap) { w.mon.afterQuery(o, q, prev) })
	return "HALT ret=" + q.str + " | -"
}

// ---------------------------------------------------------------- the harness's own knowledge of name syntax
// (RFC-1035-like rules the generator uses to know which of its names are well-formed; C18 is about the
// scanners themselves)

func alnum(c byte) bool { return c >= 'a' && c <= 'z' || c >= '0' && c <= '9' }

func validName(n string) bool {
	if len(n) < 3 || len(n) > 255 {
		return false
	}
	ls := strings.Split(n, ".")
	for i, l := range ls {
		root := i == len(ls)-1
		if len(l) == 0 || len(l) > 63 || root && len(l) > 16 {
			return false
		}
		if root && !(l[0] >= 'a' && l[0] <= 'z') || !alnum(l[0]) || !alnum(l[len(l)-1]) {
			return false
		}
		for j := 1; j < len(l)-1; j++ {
			if l[j] != '-' && !alnum(l[j]) {
				return false
			}
		}
	}
	return true
}

// ---------------------------------------------------------------- monitors (C10, C11, C12)
// Independent executable readings of the property statements, evaluated on the implementation's own
// observations: the decoded raw storage before/after each invocation, its result and notifications, and
// the read API answers.

type monitor struct {
	w      *world
	ever   map[string]bool     // C10: non-TLD names ever registered (register answered true)
	ref    map[string][]string // C12: (token, name, type) -> values in insertion order, built from successful calls
	broken map[string]bool     // state invariants already reported in this case
	// C11: who holds which role on a name according to the history of SUCCESSFUL calls, as the property text
	// describes them (independent of the owner/admin fields the contract keeps in storage)
	roles map[string]*roleRef
}

type roleRef struct {
	owner, admin []byte // owner nil: committee-owned (TLD)
}

func newMonitor(w *world) *monitor {
	return &monitor{w: w, ever: map[string]bool{}, ref: map[string][]string{}, broken: map[string]bool{}, roles: map[string]*roleRef{}}
}

func (m *monitor) v(prop string, o opLine, what, detail string) {
	// a broken state invariant stays broken: report it where it first shows up in a case, not after every
	// later invocation
	if stateChecks[what] {
		if m.broken[what] {
			return
		}
		m.broken[what] = true
	}
	m.w.run.Violation(prop, "nns."+strings.TrimPrefix(o.method, "q."), what, detail+" at "+o.line)
}

var stateChecks = map[string]bool{"supply-count": true, "supply-sum": true, "balance-count": true, "tokens-index": true,
	"record-ids": true, "record-duplicate": true, "record-limit": true, "record-mismatch": true}

func labels(n string) []string { return strings.Split(n, ".") }

func liveAt(s *snap, n string, t *big.Int) bool {
	ns, ok := s.names[n]
	return ok && t.Cmp(ns.exp) < 0
}

// chainLive: every enclosing name (the TLD … the direct parent), and the name itself when self is set, is
// registered and unexpired at t.
func chainLive(s *snap, n string, t *big.Int, self bool) bool {
	ls := labels(n)
	from := 1
	if self {
		from = 0
	}
	for i := from; i < len(ls); i++ {
		if !liveAt(s, strings.Join(ls[i:], "."), t) {
			return false
		}
	}
	return true
}

// enclosing: the longest registered unexpired name (of at least two labels) that n is or lies under.
func enclosing(s *snap, n string, t *big.Int) (string, bool) {
	ls := labels(n)
	for i := 0; i+1 < len(ls); i++ {
		c := strings.Join(ls[i:], ".")
		if liveAt(s, c, t) {
			return c, true
		}
	}
	return "", false
}

func parentOf(n string) string {
	i := strings.IndexByte(n, '.')
	if i < 0 {
		return ""
	}
	return n[i+1:]
}

// subnameRecords: the parent holds a record whose name is a true sub-name of n.
func subnameRecords(s *snap, n string) bool {
	p := parentOf(n)
	for _, r := range s.recs {
		if r.token == p && strings.HasSuffix(r.rname, "."+n) {
			return true
		}
	}
	return false
}

func refKey(token, name string, typ int64) string {
	return token + "\x00" + name + "\x00" + strconv.FormatInt(typ, 10)
}

func tld(n string) bool { return !strings.Contains(n, ".") }

func eqB(a, b []byte) bool { return bytes.Equal(a, b) }

// committeeGated: the methods whose only authority is the committee: registerTLD, setPrice, and renew/updateSOA of a
// TLD (TLDs are committee-owned and hold no records).
func committeeGated(o opLine) bool {
	switch o.method {
	case "registerTLD", "setPrice":
		return true
	case "updateSOA", "renew", "renewDefault":
		return len(o.args) > 0 && tld(string(hx.UnHex(o.args[0])))
	}
	return false
}

// roleAuth: the owner or the admin witnessed the call (the committee when the name is committee-owned).
func roleAuth(o opLine, r roleRef) bool {
	if len(r.owner) == 0 {
		return o.committee()
	}
	return o.witnessed(r.owner) || o.witnessed(r.admin)
}

// authorised: does the call carry the witnesses the property demands for its method, the roles being given by get?
// (The enclosing registered name of a record operation is found from the registration/expiration data.)
func (m *monitor) authorised(o opLine, get func(string) (roleRef, bool), prev *snap, t *big.Int) (bool, string) {
	a := o.args
	switch o.method {
	case "addRecord", "setRecord", "deleteRecords":
		tok, has := enclosing(prev, string(hx.UnHex(a[0])), t)
		r, known := get(tok)
		return has && known && roleAuth(o, r), "owner/admin of " + tok
	case "updateSOA", "renew", "renewDefault":
		r, known := get(string(hx.UnHex(a[0])))
		return known && roleAuth(o, r), "owner/admin of the name"
	case "transfer":
		r, known := get(string(hx.UnHex(a[1])))
		return known && o.witnessed(r.owner), "owner"
	case "setAdmin":
		r, known := get(string(hx.UnHex(a[0])))
		return known && o.witnessed(r.owner) && (a[1] == "-" || o.witnessed(hx.UnHex(a[1]))), "owner and new admin"
	case "register":
		n := string(hx.UnHex(a[0]))
		ok, why := o.witnessed(hx.UnHex(a[1])), "owner-to-be"
		if len(labels(n)) > 2 {
			r, known := get(parentOf(n))
			ok = ok && known && roleAuth(o, r)
			why += " and owner/admin of the enclosing name"
		}
		return ok, why
	case "registerTLD", "setPrice":
		return o.committee(), "committee"
	}
	return false, "nobody (no invocation)"
}

// updateRoles: the reference table follows the successful calls as the property describes them: a registration
// (first or after expiry) makes the given owner the owner with no admin; a transfer to somebody else makes the
// receiver the owner and clears the admin; setAdmin appoints (or removes) the admin; TLDs are committee-owned.
func (m *monitor) updateRoles(o opLine, success bool) {
	if !success {
		return
	}
	a := o.args
	switch o.method {
	case "registerTLD":
		m.roles[string(hx.UnHex(a[0]))] = &roleRef{}
	case "register":
		m.roles[string(hx.UnHex(a[0]))] = &roleRef{owner: hx.UnHex(a[1])}
	case "transfer":
		if r, ok := m.roles[string(hx.UnHex(a[1]))]; ok && !eqB(r.owner, hx.UnHex(a[0])) {
			r.owner, r.admin = hx.UnHex(a[0]), nil
		}
	case "setAdmin":
		if r, ok := m.roles[string(hx.UnHex(a[0]))]; ok {
			r.admin = hx.UnHex(a[1])
		}
	}
}

func (m *monitor) afterOp(o opLine, oc outcome, prev, cur *snap) {
	t := new(big.Int).SetUint64(o.now)
	changed := prev.str != cur.str
	success := oc.halt && oc.ret != "false"
	a := o.args
	// ---- C11: every change of the NNS state is authorised; refusals and failures change nothing
	if !success && changed {
		m.v("C11", o, "failed-call-effect", "a failed or refused invocation changed the state")
	}
	if !oc.halt && len(oc.events) > 0 {
		m.v("C11", o, "failed-call-effect", "a failed invocation left notifications")
	}
	if changed || success && o.method != "tick" {
		// judged twice: against the roles the history of successful calls establishes (reference table) and
		// against the roles recorded in storage before the call; both must authorise
		stored := func(n string) (roleRef, bool) {
			ns, ok := prev.names[n]
			return roleRef{ns.owner, ns.admin}, ok
		}
		hist := func(n string) (roleRef, bool) {
			r, ok := m.roles[n]
			if !ok {
				return roleRef{}, false
			}
			return *r, true
		}
		for _, view := range []struct {
			name string
			get  func(string) (roleRef, bool)
		}{{"the history of successful calls", hist}, {"storage", stored}} {
			ok, why := m.authorised(o, view.get, prev, t)
			if !ok {
				what := "unauthorised-" + o.method
				switch {
				case o.method == "setAdmin":
					// "only the owner can … together with the new admin, appoint an admin"
					if r, known := view.get(string(hx.UnHex(a[0]))); known && !o.witnessed(r.owner) {
						what = "setadmin-without-owner"
					}
				case committeeGated(o) && o.cmtK > 0:
					// a multisignature account of fewer than n/2+1 committee members opened the committee gate
					what = "committee-gate-accepts-minority"
					why = fmt.Sprintf("the committee majority (%d of %d members; the signing account holds %d)", o.cmtN/2+1, o.cmtN, o.cmtK)
				}
				m.v("C11", o, what, "state changed or call succeeded without the witness of "+why+" (roles according to "+view.name+")")
				break
			}
		}
	}
	// the committee gate must open for the genuine majority account (n/2+1 of n committee keys)
	if !oc.halt && o.cmtN >= 1 && o.cmtK == o.cmtN/2+1 && committeeGated(o) {
		legal := false
		switch o.method {
		case "setPrice":
			p := hx.Big(a[0])
			legal = p.Sign() >= 0 && p.Cmp(big.NewInt(1_0000_0000_0000)) <= 0
		case "registerTLD":
			n := string(hx.UnHex(a[0]))
			legal = tld(n) && validName(n) && !liveAt(prev, n, t)
		}
		if legal || strings.Contains(oc.fault, "not witnessed by committee") {
			m.v("C11", o, "committee-gate-rejects-majority", fmt.Sprintf("a committee-gated call signed by the majority account (%d of %d committee members) FAULTs", o.cmtK, o.cmtN))
		}
	}
	m.updateRoles(o, success)

	// ---- C10: accounting
	if success && o.method == "register" {
		m.ever[string(hx.UnHex(a[0]))] = true
	}
	nonTLD := 0
	ownerCount := map[string]int{}
	for n, ns := range cur.names {
		if !tld(n) {
			nonTLD++
			ownerCount[hx.Hex(ns.owner)]++
		}
	}
	if cur.supply.Cmp(big.NewInt(int64(len(m.ever)))) != 0 || cur.supply.Cmp(big.NewInt(int64(nonTLD))) != 0 {
		m.v("C10", o, "supply-count", fmt.Sprintf("totalSupply %s, non-TLD names ever registered %d, recorded %d", cur.supply, len(m.ever), nonTLD))
	}
	sum := new(big.Int)
	for ow, b := range cur.bal {
		sum.Add(sum, b)
		if b.Cmp(big.NewInt(int64(ownerCount[ow]))) != 0 {
			m.v("C10", o, "balance-count", fmt.Sprintf("balance of %s is %s, names recorded for it %d", ow, b, ownerCount[ow]))
		}
	}
	for ow, n := range ownerCount {
		if _, ok := cur.bal[ow]; !ok && n != 0 {
			m.v("C10", o, "balance-count", fmt.Sprintf("no balance for %s, names recorded for it %d", ow, n))
		}
	}
	if sum.Cmp(cur.supply) != 0 {
		m.v("C10", o, "supply-sum", fmt.Sprintf("totalSupply %s != sum of balances %s", cur.supply, sum))
	}
	// tokensOf(o) = names recorded for o
	for ow := range mergeKeys(cur.toks, ownerCount) {
		var want []string
		for n, ns := range cur.names {
			if !tld(n) && hx.Hex(ns.owner) == ow {
				want = append(want, n)
			}
		}
		got := append([]string{}, cur.toks[ow]...)
		sort.Strings(want)
		sort.Strings(got)
		if strings.Join(want, "\x00") != strings.Join(got, "\x00") {
			m.v("C10", o, "tokens-index", fmt.Sprintf("tokens of %s: %q, names recorded for it: %q", ow, got, want))
		}
	}
	// ---- C10: one Transfer(from, to, 1, name) per change of ownership
	nT := map[string]int{}
	for _, e := range oc.events {
		if e.name == "Transfer" {
			nT[e.token]++
		}
	}
	for n, ns := range cur.names {
		if tld(n) {
			continue
		}
		old, had := prev.names[n]
		if had && eqB(old.owner, ns.owner) {
			continue
		}
		var from []byte
		if had {
			from = old.owner
		}
		want := fmt.Sprintf("Transfer(%s,%s,1,%s)", hx.Hex(from), hx.Hex(ns.owner), hexs(n))
		cnt := 0
		for _, e := range oc.events {
			if e.str == want {
				cnt++
			}
		}
		if cnt != 1 || nT[n] != 1 {
			m.v("C10", o, "transfer-event", fmt.Sprintf("ownership of %s changed, %d matching and %d Transfer notifications for it (want exactly one %s)", n, cnt, nT[n], want))
		}
	}
	for n := range prev.names {
		if _, ok := cur.names[n]; !ok {
			m.v("C10", o, "name-lost", "the record of "+n+" disappeared")
		}
	}
	// ---- C10: life cycle of the touched name
	switch o.method {
	case "register":
		n := string(hx.UnHex(a[0]))
		old, had := prev.names[n]
		if oc.halt && had {
			if oc.ret == "true" && t.Cmp(old.exp) < 0 {
				m.v("C10", o, "register-unexpired", fmt.Sprintf("%s re-registered at %s before its expiration %s", n, t, old.exp))
			}
			if oc.ret == "false" && t.Cmp(old.exp) >= 0 {
				m.v("C10", o, "register-refused-expired", fmt.Sprintf("%s refused at %s although expired at %s", n, t, old.exp))
			}
		}
		if success && validName(n) {
			ns := cur.names[n]
			if !eqB(ns.owner, hx.UnHex(a[1])) {
				m.v("C10", o, "register-owner", "registered name is recorded for "+hx.Hex(ns.owner))
			}
			if had && !eqB(old.owner, ns.owner) {
				// takeover: moves from the old owner to the new one
				ob, nb := balOf(prev, old.owner), balOf(cur, old.owner)
				if new(big.Int).Sub(ob, nb).Cmp(big.NewInt(1)) != 0 {
					m.v("C10", o, "takeover-balance", fmt.Sprintf("old owner's balance %s -> %s", ob, nb))
				}
				ob, nb = balOf(prev, ns.owner), balOf(cur, ns.owner)
				if new(big.Int).Sub(nb, ob).Cmp(big.NewInt(1)) != 0 {
					m.v("C10", o, "takeover-balance", fmt.Sprintf("new owner's balance %s -> %s", ob, nb))
				}
			}
		}
	case "transfer":
		if success {
			n := string(hx.UnHex(a[1]))
			old, ns := prev.names[n], cur.names[n]
			if !eqB(ns.owner, hx.UnHex(a[0])) || ns.exp.Cmp(old.exp) != 0 || ns.name != old.name {
				m.v("C10", o, "transfer-effect", "transfer must set the owner and keep name and expiration")
			}
			if !eqB(old.owner, ns.owner) && len(ns.admin) != 0 {
				m.v("C10", o, "transfer-admin", "admin survives a transfer")
			}
			if len(oc.events) != 1 || oc.events[0].str != fmt.Sprintf("Transfer(%s,%s,1,%s)", hx.Hex(old.owner), a[0], a[1]) {
				m.v("C10", o, "transfer-event", "transfer must announce exactly Transfer(from,to,1,name)")
			}
			if !sameExcept(prev, cur, n, true) {
				m.v("C10", o, "transfer-frame", "transfer changed something besides the owner/admin of the name and the owners' accounts")
			}
		}
	case "renew", "renewDefault":
		if success {
			n := string(hx.UnHex(a[0]))
			old, ns := prev.names[n], cur.names[n]
			years := big.NewInt(1)
			if o.method == "renew" {
				years = hx.Big(a[1])
			}
			d := new(big.Int).Sub(ns.exp, old.exp)
			if years.Sign() <= 0 || years.Cmp(big.NewInt(10)) > 0 || d.Cmp(new(big.Int).Mul(years, big.NewInt(msYear))) != 0 {
				m.v("C10", o, "renew-years", fmt.Sprintf("expiration %s -> %s for %s years", old.exp, ns.exp, years))
			}
			if !tld(n) && ns.exp.Cmp(new(big.Int).Add(t, big.NewInt(10*msYear))) > 0 {
				m.v("C10", o, "renew-ten-years", fmt.Sprintf("expiration %s is more than ten years after %s", ns.exp, t))
			}
			if !eqB(old.owner, ns.owner) || !eqB(old.admin, ns.admin) || !sameExcept(prev, cur, n, false) {
				m.v("C10", o, "renew-frame", "renew changed something besides the expiration")
			}
		}
	}

	// ---- C12: records
	m.recordsAfterOp(o, oc, prev, cur, t, success)
}

func balOf(s *snap, owner []byte) *big.Int {
	if b, ok := s.bal[hx.Hex(owner)]; ok {
		return b
	}
	return new(big.Int)
}

func mergeKeys(a map[string][]string, b map[string]int) map[string]bool {
	out := map[string]bool{}
	for k := range a {
		out[k] = true
	}
	for k := range b {
		out[k] = true
	}
	return out
}

// sameExcept: the two snapshots agree on everything but the record of name n (and, for a transfer, the
// owners' balances and token lists).
func sameExcept(a, b *snap, n string, accounts bool) bool {
	strip := func(s *snap) string {
		var es []string
		for k, ns := range s.names {
			if k != n {
				es = append(es, fmt.Sprintf("%s:%x:%s:%s:%x", k, ns.owner, ns.name, ns.exp, ns.admin))
			}
		}
		for _, r := range s.recs {
			es = append(es, fmt.Sprintf("%s/%s/%d/%d=%s/%s/%x/%s", r.token, r.name, r.tb, r.idb, r.rname, r.typ, r.data, r.id))
		}
		if !accounts {
			for k, v := range s.bal {
				es = append(es, "b"+k+v.String())
			}
			for k, v := range s.toks {
				x := append([]string{}, v...)
				sort.Strings(x)
				es = append(es, "t"+k+strings.Join(x, ","))
			}
		}
		sort.Strings(es)
		return s.supply.String() + s.price.String() + strings.Join(s.roots, ",") + strings.Join(es, ";")
	}
	return strip(a) == strip(b)
}

func soaSerial(s *snap, token string) (string, bool) {
	for _, r := range s.recs {
		if r.token == token && r.rname == token && r.tb == typSOA && r.idb == 0 {
			f := strings.Fields(string(r.data))
			if len(f) == 7 {
				return f[2], true
			}
			return "", true
		}
	}
	return "", false
}

// authorisedBoth: the call carries the witnesses its method needs according to both role views (history of
// successful calls, storage before the call).
func (m *monitor) authorisedBoth(o opLine, prev *snap, t *big.Int) bool {
	stored := func(n string) (roleRef, bool) {
		ns, ok := prev.names[n]
		return roleRef{ns.owner, ns.admin}, ok
	}
	hist := func(n string) (roleRef, bool) {
		r, ok := m.roles[n]
		if !ok {
			return roleRef{}, false
		}
		return *r, true
	}
	ok1, _ := m.authorised(o, hist, prev, t)
	ok2, _ := m.authorised(o, stored, prev, t)
	return ok1 && ok2
}

func (m *monitor) recordsAfterOp(o opLine, oc outcome, prev, cur *snap, t *big.Int, success bool) {
	a := o.args
	// "setRecord replaces by index": a replacement the property allows must be carried out. Legal by the monitor's
	// own reading: well-formed name below a registered unexpired enclosing chain, a record type with data valid for
	// it, the owner's/admin's witness, an existing index, and a value that no OTHER record of the same name and type
	// holds (values of other types do not count: the lists are per name and type).
	if !oc.halt && o.method == "setRecord" && len(a) == 4 {
		n, v := string(hx.UnHex(a[0])), string(hx.UnHex(a[3]))
		typ, id := hx.Big(a[1]), hx.Big(a[2])
		tok, has := enclosing(prev, n, t)
		dataOK := false
		if typ.IsInt64() {
			switch typ.Int64() {
			case typA, typAAAA:
				dataOK = o.ip
			case typTXT:
				dataOK = len(v) <= 255
			case typCNAME:
				dataOK = validName(v)
			}
		}
		if has && dataOK && validName(n) && chainLive(prev, tok, t, true) && m.authorisedBoth(o, prev, t) && id.IsInt64() {
			vals := m.ref[refKey(tok, n, typ.Int64())]
			i := id.Int64()
			legal := i >= 0 && i < int64(len(vals))
			for j, x := range vals {
				if int64(j) != i && x == v {
					legal = false
				}
			}
			if ser, ok := soaSerial(prev, tok); !ok || ser == "" {
				legal = false // a malformed SOA record (e-mail with spaces) blocks every record mutation
			}
			if legal {
				m.v("C12", o, "legal-replacement-rejected", fmt.Sprintf("setRecord of index %d of %q (type %s, %d values, none of the others equal to the new one) FAULTs", i, n, typ, len(vals)))
			}
		}
	}
	if success {
		switch o.method {
		case "addRecord", "setRecord", "deleteRecords":
			n := string(hx.UnHex(a[0]))
			typ := hx.Big(a[1]).Int64()
			tok, _ := enclosing(prev, n, t)
			k := refKey(tok, n, typ)
			switch o.method {
			case "addRecord":
				m.ref[k] = append(m.ref[k], string(hx.UnHex(a[2])))
			case "setRecord":
				id := hx.Big(a[2]).Int64()
				if id < 0 || id >= int64(len(m.ref[k])) {
					m.v("C12", o, "set-unknown-id", fmt.Sprintf("setRecord replaced index %d of %d values", id, len(m.ref[k])))
				} else {
					m.ref[k][id] = string(hx.UnHex(a[3]))
				}
			case "deleteRecords":
				if typ == typSOA {
					m.v("C12", o, "soa-deleted", "deleteRecords accepted the SOA type")
				}
				delete(m.ref, k)
			}
			// every mutation refreshes the SOA serial of the enclosing registered name
			if ser, ok := soaSerial(cur, tok); !ok || ser != t.String() {
				m.v("C12", o, "soa-serial", fmt.Sprintf("SOA of %s: present %v, serial %q, block time %s", tok, ok, ser, t))
			}
		case "register":
			n := string(hx.UnHex(a[0]))
			if subnameRecords(prev, n) {
				m.v("C12", o, "register-over-subname-records", "registered although the parent holds records for sub-names of "+n)
			}
		}
	}
	// SOA records are never deleted
	for _, r := range prev.recs {
		if r.tb == typSOA {
			found := false
			for _, q := range cur.recs {
				if q.tb == typSOA && q.token == r.token && q.name == r.name && q.idb == r.idb {
					found = true
					break
				}
			}
			if !found {
				m.v("C12", o, "soa-deleted", "the SOA record of "+r.name+" disappeared")
			}
		}
	}
	// the stored records are exactly those of the successful calls: per (enclosing name, name, type) the
	// values in order with ids 0..k-1, at most 16, distinct, at most one CNAME
	got := map[string][]recSt{}
	for _, r := range cur.recs {
		if r.tb == typSOA {
			continue
		}
		k := refKey(r.token, r.name, int64(r.tb))
		got[k] = append(got[k], r)
	}
	for k, rs := range got {
		sort.Slice(rs, func(i, j int) bool { return rs[i].idb < rs[j].idb })
		var vals []string
		seen := map[string]bool{}
		for i, r := range rs {
			vals = append(vals, string(r.data))
			if r.idb != i || r.id.Int64() != int64(i) || r.typ.Int64() != int64(r.tb) || r.rname != r.name {
				m.v("C12", o, "record-ids", fmt.Sprintf("records %q: ids are not 0..k-1 or key and value disagree", k))
			}
			if seen[string(r.data)] {
				m.v("C12", o, "record-duplicate", fmt.Sprintf("records %q hold %q twice", k, r.data))
			}
			seen[string(r.data)] = true
		}
		if len(rs) > 16 || rs[0].tb == typCNAME && len(rs) > 1 {
			m.v("C12", o, "record-limit", fmt.Sprintf("records %q: %d values", k, len(rs)))
		}
		if strings.Join(vals, "\x00") != strings.Join(m.ref[k], "\x00") || len(vals) != len(m.ref[k]) {
			m.v("C12", o, "record-mismatch", fmt.Sprintf("records %q are %q, successful calls give %q", k, vals, m.ref[k]))
		}
	}
	for k, vals := range m.ref {
		if len(vals) > 0 && got[k] == nil {
			m.v("C12", o, "record-mismatch", fmt.Sprintf("records %q are missing, successful calls give %q", k, vals))
		}
	}
}

// expected answer of the record read paths according to the property: reachable only through the
// enclosing registered name while it and everything above it are unexpired.
func (m *monitor) expectAll(s *snap, n string, t *big.Int) ([]recSt, bool) {
	if !validName(n) {
		return nil, false
	}
	tok, ok := enclosing(s, n, t)
	if !ok && tld(n) && liveAt(s, n, t) {
		tok, ok = n, true
	}
	if !ok || !chainLive(s, tok, t, true) {
		return nil, false
	}
	var rs []recSt
	for _, r := range s.recs {
		if r.token == tok && r.name == n {
			rs = append(rs, r)
		}
	}
	sort.Slice(rs, func(i, j int) bool {
		if rs[i].tb != rs[j].tb {
			return rs[i].tb < rs[j].tb
		}
		return rs[i].idb < rs[j].idb
	})
	return rs, true
}

func ofType(rs []recSt, typ int64) []string {
	out := []string{}
	for _, r := range rs {
		if int64(r.tb) == typ {
			out = append(out, string(r.data))
		}
	}
	return out
}

func sameList(a, b []string) bool {
	if len(a) != len(b) {
		return false
	}
	for i := range a {
		if a[i] != b[i] {
			return false
		}
	}
	return true
}

func (m *monitor) afterQuery(o opLine, q qres, s *snap) {
	t := new(big.Int).SetUint64(o.now)
	a := o.args
	switch strings.TrimPrefix(o.method, "q.") {
	case "totalSupply":
		if !q.halt || q.int.Cmp(s.supply) != 0 {
			m.v("C10", o, "read-api", fmt.Sprintf("totalSupply answers %v, stored %s", q.str, s.supply))
		}
	case "balanceOf":
		if len(hx.UnHex(a[0])) == 20 && (!q.halt || q.int.Cmp(balOf(s, hx.UnHex(a[0]))) != 0) {
			m.v("C10", o, "read-api", fmt.Sprintf("balanceOf answers %v, stored %s", q.str, balOf(s, hx.UnHex(a[0]))))
		}
	case "tokensOf":
		if len(hx.UnHex(a[0])) == 20 {
			var want []string
			for n, ns := range s.names {
				if !tld(n) && hx.Hex(ns.owner) == a[0] {
					want = append(want, n)
				}
			}
			got := append([]string{}, q.list...)
			sort.Strings(want)
			sort.Strings(got)
			if !q.halt || !sameList(want, got) {
				m.v("C10", o, "tokensOf", fmt.Sprintf("tokensOf answers %q, names recorded for the owner %q", got, want))
			}
		}
	case "ownerOf", "properties":
		n := string(hx.UnHex(a[0]))
		if tld(n) {
			break
		}
		if q.halt && !chainLive(s, n, t, true) {
			m.v("C10", o, "answer-for-expired", "answered although the name or one of its parents is unregistered or expired")
		}
		if q.halt {
			ns := s.names[n]
			if o.method == "q.ownerOf" && !eqB(q.bytes, ns.owner) {
				m.v("C10", o, "read-api", "ownerOf answers "+q.str+", recorded "+hx.Hex(ns.owner))
			}
			if o.method == "q.properties" && (q.list[0] != hexs(ns.name) || q.list[1] != ns.exp.String() || q.list[2] != hx.Hex(ns.admin)) {
				m.v("C10", o, "read-api", "properties answer "+q.str)
			}
		}
	case "isAvailable":
		n := string(hx.UnHex(a[0]))
		if tld(n) || !validName(n) || !chainLive(s, n, t, false) {
			break // the property speaks of names below registered, unexpired parents
		}
		if liveAt(s, n, t) {
			if !q.halt || q.bool {
				m.v("C10", o, "available-while-registered", fmt.Sprintf("isAvailable answers %v for a registered unexpired name", q.str))
			}
		} else {
			want := !subnameRecords(s, n)
			if !q.halt || q.bool != want {
				m.v("C10", o, "availability", fmt.Sprintf("isAvailable answers %q for an unregistered or expired name (parent holds records of sub-names: %v)", q.str, !want))
				// C12's conflict rule: only records of sub-names of the name stand in the way, and they do
				m.v("C12", o, "conflict-rule", fmt.Sprintf("isAvailable answers %q although the parent holds records of sub-names: %v", q.str, !want))
			}
		}
	case "getRecords":
		n := string(hx.UnHex(a[0]))
		typ := hx.Big(a[1])
		if tld(n) || !typ.IsInt64() || typ.Int64() < 0 || typ.Int64() > 255 {
			break
		}
		rs, ok := m.expectAll(s, n, t)
		if !ok {
			if q.halt && validName(n) {
				m.v("C12", o, "reachable-expired", "getRecords answers for a name without a registered unexpired enclosing chain")
			}
			break
		}
		if !q.halt {
			m.v("C12", o, "records-unreadable", "getRecords fails although the enclosing name "+rs0(rs, s, n, t)+" and its parents are unexpired")
		} else if !sameList(q.list, ofType(rs, typ.Int64())) {
			m.v("C12", o, "records-read", fmt.Sprintf("getRecords answers %q, stored %q", q.list, ofType(rs, typ.Int64())))
		}
	case "getAllRecords":
		n := string(hx.UnHex(a[0]))
		if tld(n) {
			break
		}
		rs, ok := m.expectAll(s, n, t)
		if !ok {
			if q.halt && validName(n) {
				m.v("C12", o, "reachable-expired", "getAllRecords answers for a name without a registered unexpired enclosing chain")
			}
			break
		}
		if !q.halt {
			m.v("C12", o, "records-unreadable", "getAllRecords fails although the enclosing name "+rs0(rs, s, n, t)+" and its parents are unexpired")
			break
		}
		okAll := len(q.recs) == len(rs)
		for i := 0; okAll && i < len(rs); i++ {
			r := rs[i]
			okAll = q.recs[i] == [4]string{r.rname, r.typ.String(), string(r.data), r.id.String()}
		}
		if !okAll {
			m.v("C12", o, "records-read", fmt.Sprintf("getAllRecords answers %q, stored %d records", q.recs, len(rs)))
		}
	case "resolve":
		n := string(hx.UnHex(a[0]))
		typ := hx.Big(a[1])
		if tld(n) || !typ.IsInt64() || typ.Int64() < 0 || typ.Int64() > 255 {
			break
		}
		want, verdict := m.expectResolve(s, n, typ.Int64(), t)
		switch verdict {
		case "ok":
			if !q.halt {
				m.v("C12", o, "resolve-fails", fmt.Sprintf("resolve fails, expected %q", want))
			} else if !sameList(q.list, want) {
				m.v("C12", o, "resolve-answer", fmt.Sprintf("resolve answers %q, expected %q", q.list, want))
			}
		case "fault":
			if q.halt {
				m.v("C12", o, "resolve-should-fail", fmt.Sprintf("resolve answers %q for an unreachable name or a chain of four or more links", q.list))
			}
		}
	}
}

func rs0(rs []recSt, s *snap, n string, t *big.Int) string {
	tok, _ := enclosing(s, n, t)
	return tok
}

// expectResolve: the T-records of the name followed by those reached through a CNAME chain of up to two
// links; chains of four or more links fail; three links are left open by the property.
func (m *monitor) expectResolve(s *snap, n string, typ int64, t *big.Int) ([]string, string) {
	res := []string{}
	cur := n
	links := 0
	for {
		if strings.HasSuffix(cur, ".") {
			cur = cur[:len(cur)-1]
		}
		rs, ok := m.expectAll(s, cur, t)
		if !ok {
			if links <= 2 {
				return nil, "fault"
			}
			return nil, "open"
		}
		if links <= 2 {
			res = append(res, ofType(rs, typ)...)
		}
		cn := ofType(rs, typCNAME)
		if len(cn) == 0 || typ == typCNAME {
			if links <= 2 {
				return res, "ok"
			}
			return nil, "open"
		}
		links++
		if links >= 4 {
			return nil, "fault"
		}
		cur = cn[len(cn)-1]
	}
}

// ---------------------------------------------------------------- run

func TestRun(t *testing.T) {
	run := hx.Open(t)
	defer run.Close()
	if run.Mode == "replay" {
		var w *world
		var first []string
		for _, l := range run.ReplayLines() {
			if strings.HasPrefix(l, "case ") {
				f := strings.Fields(l)
				w = newWorld(t, run, caseCommittee(f[2:]))
				w.wf = len(f) > 2 && f[2] == "wf"
				run.Case(f[1], f[2:]...)
				continue
			}
			if w == nil {
				t.Fatal("op before case")
			}
			obs := w.do(l)
			if len(first) < 8 {
				first = append(first, l+"  =>  "+clip(obs, 300))
			}
		}
		// (hx marshals an empty sample list as null, which the evidence writer does not expect)
		run.Sample(strings.Join(first, "\n"))
		return
	}
	cases, nops := 10, 104
	if run.Tier == "thorough" {
		cases, nops = 24, 260
	}
	for ci := 0; ci < cases; ci++ {
		// committee sizes: mostly the single-member committee of the repository's tests; even sizes 4 and 6 (where
		// "half" and "majority" differ by one signature) in every tier, 3 and 5 in the thorough tier
		n := 1
		switch {
		case ci%4 == 1:
			n = 4
		case ci%8 == 2:
			n = 6
		case ci%8 == 6 && run.Tier == "thorough":
			n = 3 + 2*(ci/8%2)
		}
		w := newWorld(t, run, n)
		w.wf = ci%4 != 3
		kind := "wf"
		if !w.wf {
			kind = "nonwf"
		}
		run.Case(fmt.Sprintf("s%d.%d.%d", run.Seed, run.Shard, ci), kind, fmt.Sprintf("n=%d", n))
		g := newGen(w, run.Rand(ci), ci)
		var first []string
		for i := 0; i < nops; i++ {
			for _, l := range g.next() {
				obs := w.do(l)
				if len(first) < 8 {
					first = append(first, l+"  =>  "+clip(obs, 300))
				}
			}
		}
		run.Sample(strings.Join(first, "\n"))
	}
}

func clip(s string, n int) string {
	if len(s) > n {
		return s[:n] + "…"
	}
	return s
}

// after schedules a monitor evaluation; it runs once the op line has been recorded, so that a monitor report
// carries the failing line too. The snapshot before the op is captured now.
func (w *world) after(f func(prev *snap)) {
	if !w.wf {
		return
	}
	prev := w.prev
	w.pending = append(w.pending, func() { f(prev) })
}

func (w *world) do(l string) string {
	obs := w.execOp(l)
	w.run.Op(l, obs)
	for _, f := range w.pending {
		f()
	}
	w.pending = w.pending[:0]
	return obs
}
