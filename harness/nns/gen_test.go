package nns

// Seeded generator of NNS histories: structured and mostly valid, with boundary values taken from the
// comparisons of the model (expiration instants exp-1/exp/exp+1, the ten-year renewal limit, 16 records,
// one CNAME, redirect budget 0..4 links, byte range of type and id), several signer roles per method
// {owner, admin, former owner, former admin, parent owner, stranger, committee, nobody}, calls forwarded
// by a contract, and a malformed stream (cases marked nonwf).

import (
	"fmt"
	"math/big"
	"math/rand/v2"
	"sort"
	"strings"

	"verifharness/hx"
)

type gen struct {
	w      *world
	rng    *rand.Rand
	t      uint64 // time of the last block
	tlds   []string
	labs   []string
	fOwner map[string][]string // former owners per name
	fAdmin map[string][]string
	lastO  map[string]string
	lastA  map[string]string
	nTXT   int
}

func newGen(w *world, rng *rand.Rand, ci int) *gen {
	g := &gen{w: w, rng: rng, t: w.c.NNSTopTime(), tlds: []string{"com", "org"}, labs: []string{"a", "xa", "b"},
		fOwner: map[string][]string{}, fAdmin: map[string][]string{}, lastO: map[string]string{}, lastA: map[string]string{}}
	if ci%3 == 1 {
		g.tlds = []string{"com", "any-tld"}
	}
	return g
}

func (g *gen) p(n int) bool { return g.rng.IntN(100) < n }

func (g *gen) observe() {
	for n, ns := range g.w.prev.names {
		o, a := hx.Hex(ns.owner), hx.Hex(ns.admin)
		if lo, ok := g.lastO[n]; ok && lo != o && lo != "-" {
			g.fOwner[n] = append(g.fOwner[n], lo)
		}
		if la, ok := g.lastA[n]; ok && la != a && la != "-" {
			g.fAdmin[n] = append(g.fAdmin[n], la)
		}
		g.lastO[n], g.lastA[n] = o, a
	}
}

func (g *gen) user() string { return hx.Pick(g.rng, g.w.uhash) }

func (g *gen) regNames(minLabels int) []string {
	var out []string
	for n := range g.w.prev.names {
		if len(labels(n)) >= minLabels {
			out = append(out, n)
		}
	}
	sort.Strings(out)
	return out
}

func (g *gen) freshName(level int) string {
	n := hx.Pick(g.rng, g.tlds)
	for i := 1; i < level; i++ {
		n = hx.Pick(g.rng, g.labs) + "." + n
	}
	return n
}

var badNames = []string{"-a.com", "a-.com", "a..com", "A.com", "a.c_m", ".com", "a.com.", "ab", "a.0om", "a b.com",
	strings.Repeat("a", 64) + ".com", "a." + strings.Repeat("c", 17)}

// liveNames / deadNames: registered names whose whole chain is unexpired at the time of the next block /
// names that are registered but expired below an unexpired chain (candidates for a takeover)
func (g *gen) liveNames(minLabels int) []string {
	t := new(big.Int).SetUint64(g.t + 1)
	var out []string
	for _, n := range g.regNames(minLabels) {
		if chainLive(g.w.prev, n, t, true) {
			out = append(out, n)
		}
	}
	return out
}

func (g *gen) deadNames(minLabels int) []string {
	t := new(big.Int).SetUint64(g.t + 1)
	var out []string
	for _, n := range g.regNames(minLabels) {
		if !liveAt(g.w.prev, n, t) && chainLive(g.w.prev, n, t, false) {
			out = append(out, n)
		}
	}
	return out
}

// someName: a registered unexpired name (mostly), an expired one, a child of one, or a fresh one of level 2..4
func (g *gen) someName(minLabels int) string {
	ls, rs := g.liveNames(minLabels), g.regNames(minLabels)
	r := g.rng.IntN(100)
	switch {
	case r < 66 && len(ls) > 0:
		return hx.Pick(g.rng, ls)
	case r < 76 && len(rs) > 0:
		return hx.Pick(g.rng, rs)
	case r < 87 && len(ls) > 0:
		return hx.Pick(g.rng, g.labs) + "." + hx.Pick(g.rng, ls)
	case r < 90:
		return hx.Pick(g.rng, badNames)
	}
	return g.freshName(2 + g.rng.IntN(3))
}

// witnesses builds the signer part of an op line for the accounts whose witness is wanted.
func (g *gen) witnesses(hs ...string) (sig string, cmt string, caller string) {
	caller = "-"
	seen := map[string]bool{}
	var ss []string
	k := 0
	kOf := map[string]int{}
	for kk, h := range g.w.cmtByK {
		kOf[h] = kk
	}
	for _, h := range hs {
		if h == "" || h == "-" || seen[h] {
			continue
		}
		seen[h] = true
		switch {
		case h == g.w.probeHex():
			caller = h
		case kOf[h] > 0:
			// a k-of-n account of the committee keys; should several sign, the majority account decides
			if k == 0 || kOf[h] == g.w.n/2+1 {
				k = kOf[h]
			}
			ss = append(ss, h)
		default:
			if _, ok := g.w.users[h]; ok {
				ss = append(ss, h)
			}
		}
	}
	sig = "-"
	if len(ss) > 0 {
		sig = strings.Join(ss, ",")
	}
	cmt = fmt.Sprintf("%d/%d", k, g.w.n)
	return
}

// committee picks the committee account that signs a committee-gated call: mostly the majority account (n/2+1 of
// n), else half of the committee, majority minus one, majority plus one or a single member.
func (g *gen) committee() string {
	n := g.w.n
	if n == 1 {
		return g.w.cmt
	}
	maj := n/2 + 1
	k := maj
	switch r := g.rng.IntN(100); {
	case r < 62:
	case r < 80:
		k = n / 2 // exactly half for even n
	case r < 88:
		k = maj - 1
	case r < 94:
		k = maj + 1
	default:
		k = 1
	}
	if k < 1 {
		k = 1
	}
	if k > n {
		k = n
	}
	return g.w.cmtByK[k]
}

// role picks who signs an operation on a name whose state is ns (parent: the enclosing name's state).
func (g *gen) role(n string, ns nameSt, extra ...string) []string {
	owner, admin := hx.Hex(ns.owner), hx.Hex(ns.admin)
	if owner == "-" {
		owner = g.committee()
	}
	r := g.rng.IntN(100)
	var hs []string
	switch {
	case r < 58:
		hs = []string{owner}
	case r < 68:
		if admin != "-" {
			hs = []string{admin}
		} else {
			hs = []string{owner}
		}
	case r < 74:
		if f := g.fOwner[n]; len(f) > 0 {
			hs = []string{hx.Pick(g.rng, f)}
		} else {
			hs = []string{g.user()}
		}
	case r < 80:
		if f := g.fAdmin[n]; len(f) > 0 {
			hs = []string{hx.Pick(g.rng, f)}
		} else {
			hs = []string{g.user()}
		}
	case r < 85:
		if p, ok := g.w.prev.names[parentOf(n)]; ok && len(p.owner) == 20 {
			hs = []string{hx.Hex(p.owner)}
		} else {
			hs = []string{g.committee()}
		}
	case r < 90:
		hs = []string{g.user()} // possibly a stranger
	case r < 95:
		hs = []string{g.committee()}
	case r < 97:
		hs = []string{owner, g.user()}
	default:
		hs = nil
	}
	return append(hs, extra...)
}

func (g *gen) line(t uint64, hs []string, ip, recv int, method string, args ...string) string {
	sig, cmt, caller := g.witnesses(hs...)
	return fmt.Sprintf("op %d %s %s %s %d %d %s %s", t, sig, cmt, caller, ip, recv, method, strings.Join(args, " "))
}

func (g *gen) q(t uint64, method string, args ...string) string {
	return strings.TrimSpace(fmt.Sprintf("op %d - 0 - 0 0 q.%s %s", t, method, strings.Join(args, " ")))
}

var (
	okA     = []string{"1.2.3.4", "8.8.8.8", "166.15.14.13", "1.1.1.1", "223.255.255.254"}
	badA    = []string{"10.0.0.1", "1.2.3", "300.1.1.1", "1.2.3.04", "+1.2.3.4", "1.2.3.0", "224.0.0.1", "192.168.1.1"}
	okAAAA  = []string{"2001:4860:4860::8888", "2a00:1450:4010:c05::65", "2606:4700::1111", "2003:1:2:3:4:5:6::"}
	badAAAA = []string{"::1", "fe80::1", "2001:db8::1", "2002::1", "2001::1:", "12345::1"}
	types   = []int{typA, typCNAME, typTXT, typTXT, typTXT, typAAAA}
)

func (g *gen) recordData(typ int) (string, int) {
	switch typ {
	case typA:
		if g.p(80) {
			return hx.Pick(g.rng, okA), 1
		}
		return hx.Pick(g.rng, badA), 0
	case typAAAA:
		if g.p(80) {
			return hx.Pick(g.rng, okAAAA), 1
		}
		return hx.Pick(g.rng, badAAAA), 0
	case typCNAME:
		return g.someName(2), 0
	}
	r := g.rng.IntN(100)
	switch {
	case r < 3:
		return "", 0
	case r < 5:
		return strings.Repeat("x", 255), 0
	case r < 7:
		return strings.Repeat("y", 256), 0
	case r < 50:
		return hx.Pick(g.rng, []string{"one", "two", "three", "deep"}), 0
	case r < 62:
		// values shared with the other types: an IPv4/IPv6 string and a domain name are valid TXT data too, and the
		// lists are distinct per name AND type only
		switch g.rng.IntN(3) {
		case 0:
			return hx.Pick(g.rng, okA), 0
		case 1:
			return hx.Pick(g.rng, okAAAA), 0
		}
		return g.someName(2), 0
	}
	g.nTXT++
	return fmt.Sprintf("v%d", g.nTXT), 0
}

var expires = []int64{100, 100, 100, 1000, 1000, 1000, 30, 5, 1, 0, -1, 31536000, 9*31536000 + 100, 9*31536000 + 100, 5*31536000 + 200, 10 * 31536000, 1_000_000}

// advance chooses the time of the next block: mostly a few ms, sometimes a jump, often one of the
// boundaries exp-1 / exp / exp+1 of a registered name, or the instant at which a renewal reaches the
// ten-year limit.
func (g *gen) advance() uint64 {
	r := g.rng.IntN(100)
	t := g.t + 1 + uint64(g.rng.IntN(20))
	switch {
	case r < 55:
	case r < 65:
		t = g.t + 100 + uint64(g.rng.IntN(3000))
	default:
		// mostly boundaries in the near future; rarely up to a year ahead (which expires most names)
		window := uint64(20_000_000)
		if g.p(4) {
			window = uint64(msYear) + 2000
		}
		var cands []uint64
		for _, ns := range g.w.prev.names {
			if !ns.exp.IsUint64() {
				continue
			}
			e := ns.exp.Uint64()
			for _, y := range []uint64{0, 9, 5} { // expiry; ten-year boundary for renew by 1 or 5 years
				b := e - y*uint64(msYear)
				for _, d := range []uint64{0, 1, 2} {
					if c := b + d - 1; c > g.t && c < g.t+window {
						cands = append(cands, c)
					}
				}
			}
		}
		if len(cands) > 0 {
			sort.Slice(cands, func(i, j int) bool { return cands[i] < cands[j] })
			// prefer the nearest boundaries so that a case walks through many of them
			t = cands[g.rng.IntN(min(len(cands), 6))]
		}
	}
	g.t = t
	return t
}

// queries after an operation on name n: the read API for the touched names, at the block time and at
// expiration boundaries that are not in the past.
func (g *gen) queries(t uint64, n string, typ int, owners ...string) []string {
	var out []string
	hn := hexs(n)
	add := func(tt uint64) {
		out = append(out, g.q(tt, "isAvailable", hn))
		if g.p(70) {
			out = append(out, g.q(tt, "ownerOf", hn))
		}
		if g.p(40) {
			out = append(out, g.q(tt, "properties", hn))
		}
		if g.p(70) {
			out = append(out, g.q(tt, "getRecords", hn, fmt.Sprint(typ)))
		}
		if g.p(40) {
			out = append(out, g.q(tt, "getAllRecords", hn))
		}
		if g.p(60) {
			out = append(out, g.q(tt, "resolve", hn, fmt.Sprint(typ)))
		}
	}
	add(t)
	if g.p(35) {
		// boundary instants of the name, its enclosing names and its children
		var es []uint64
		for m, ns := range g.w.prev.names {
			if (m == n || strings.HasSuffix(n, "."+m) || strings.HasSuffix(m, "."+n)) && ns.exp.IsUint64() && ns.exp.Uint64() > t {
				es = append(es, ns.exp.Uint64())
			}
		}
		if len(es) > 0 {
			sort.Slice(es, func(i, j int) bool { return es[i] < es[j] })
			e := es[g.rng.IntN(len(es))]
			for _, tt := range []uint64{e - 1, e, e + 1} {
				if tt >= t {
					add(tt)
				}
			}
		}
	}
	for _, o := range owners {
		if o != "" {
			out = append(out, g.q(t, "balanceOf", o), g.q(t, "tokensOf", o))
		}
	}
	if g.p(30) {
		out = append(out, g.q(t, "totalSupply"))
	}
	if g.p(5) {
		out = append(out, g.q(t, "roots"), g.q(t, "tokens"), g.q(t, "getPrice"))
	}
	return out
}

func (g *gen) intArg(def int64) string {
	if !g.w.wf && g.p(15) {
		return hx.Pick(g.rng, []string{"-5", "0", "9223372036854775808", "1180591620717411303424"})
	}
	return fmt.Sprint(def)
}

func (g *gen) email() string {
	r := g.rng.IntN(100)
	switch {
	case r < 2:
		return hexs("a b@x") // eight SOA fields: later record mutations fail on the serial update
	case r < 3 && !g.w.wf:
		return "-"
	}
	return hexs("e@x")
}

func (g *gen) badHash() string {
	return hx.Pick(g.rng, []string{"-", "0102", strings.Repeat("ab", 19), strings.Repeat("cd", 21), strings.Repeat("02", 33)})
}

func (g *gen) next() []string {
	g.observe()
	w := g.w
	prev := w.prev
	// bootstrap: TLDs first
	if len(prev.roots) < len(g.tlds) && g.p(70) {
		t := g.advance()
		n := g.tlds[len(prev.roots)]
		e := int64(10 * 31536000)
		if len(prev.roots) > 0 && g.p(25) {
			e = 2000 // a TLD that expires early: everything below becomes unreachable
		}
		signer := w.cmt
		if g.p(12) {
			signer = g.committee()
		}
		return []string{g.line(t, []string{signer}, 0, 0, "registerTLD", hexs(n), g.email(), "1", "2", fmt.Sprint(e), "4"),
			g.q(t, "isAvailable", hexs(n)), g.q(t, "roots")}
	}
	r := g.rng.IntN(100)
	switch {
	case r < 5:
		return g.genRegisterTLD()
	case r < 8:
		if g.p(35) {
			return g.genRepeatedSuffix()
		}
		return g.genDeepConflict()
	case r < 11:
		return g.genCrossTypeSet()
	case r < 13:
		return g.genAdminAppoints()
	case r < 16 && g.w.n > 1:
		return g.genCommitteeGate()
	case r < 17:
		return g.genFullList()
	case r < 19:
		return g.genNestedOwners()
	case r < 28:
		return g.genRegister()
	case r < 36:
		return g.genTransfer()
	case r < 44:
		return g.genRenew()
	case r < 48:
		return g.genUpdateSOA()
	case r < 54:
		return g.genSetAdmin()
	case r < 70:
		return g.genAddRecord()
	case r < 76:
		return g.genSetRecord()
	case r < 81:
		return g.genDeleteRecords()
	case r < 83:
		return g.genSetPrice()
	case r < 86:
		return g.genBurst()
	case r < 91:
		return g.genCnameChain()
	case r < 94:
		return g.genSubnameConflict()
	case r < 96:
		return g.genRoleMatrix()
	case r < 98:
		return g.genFormerAdmin()
	default:
		t := g.advance()
		n := g.someName(2)
		return append([]string{g.line(t, nil, 0, 0, "tick")}, g.queries(t, n, typTXT)...)
	}
}

func (g *gen) genRegisterTLD() []string {
	t := g.advance()
	n := hx.Pick(g.rng, g.tlds)
	if g.p(15) {
		n = hx.Pick(g.rng, []string{"net", "a.com", "0com", "io", "x-y"})
	}
	hs := []string{g.committee()}
	if g.p(20) {
		hs = []string{g.user()}
	}
	e := hx.Pick(g.rng, []int64{31536000, 3000, 10 * 31536000})
	return []string{g.line(t, hs, 0, 0, "registerTLD", hexs(n), g.email(), g.intArg(1), g.intArg(2), fmt.Sprint(e), g.intArg(4)),
		g.q(t, "isAvailable", hexs(n)), g.q(t, "roots"), g.q(t, "totalSupply")}
}

func (g *gen) genRegister() []string {
	t := g.advance()
	prev := g.w.prev
	var n string
	ls, ds := g.liveNames(1), g.deadNames(2)
	r := g.rng.IntN(100)
	switch {
	case r < 38 && len(ls) > 0: // a child of a registered unexpired name (levels 2..4, sometimes 5)
		n = hx.Pick(g.rng, g.labs) + "." + hx.Pick(g.rng, ls)
	case r < 48 && len(g.liveNames(2)) > 0: // an existing unexpired name: refused
		n = hx.Pick(g.rng, g.liveNames(2))
	case r < 62 && len(ds) > 0: // an expired name below an unexpired chain: taken over
		n = hx.Pick(g.rng, ds)
	case r < 66:
		n = hx.Pick(g.rng, badNames)
	case r < 68:
		n = hx.Pick(g.rng, g.tlds)
	case r < 72 && len(g.regNames(1)) > 0: // below an expired or unregistered parent
		n = hx.Pick(g.rng, g.labs) + "." + hx.Pick(g.rng, g.regNames(1))
	case r < 92:
		n = g.freshName(2)
	default:
		n = g.freshName(3 + g.rng.IntN(2))
	}
	owner := g.user()
	or := g.rng.IntN(100)
	switch {
	case or < 10:
		owner = g.w.probeHex()
	case or < 15:
		owner = g.w.cmt
	case or < 18:
		owner = hx.Hex(g.w.nns.BytesBE())
	case or < 22:
		owner = g.badHash()
	}
	// signers: the owner-to-be, and for level > 2 somebody with a role on the enclosing name
	hs := []string{owner}
	if g.p(8) {
		hs = []string{g.user()}
	}
	if len(labels(n)) > 2 {
		if p, ok := prev.names[parentOf(n)]; ok {
			hs = append(hs, g.role(parentOf(n), p)...)
		} else {
			hs = append(hs, g.user())
		}
	} else if g.p(10) {
		hs = append(hs, g.w.cmt)
	}
	e := hx.Pick(g.rng, expires)
	l := g.line(t, hs, 0, g.w.recvClass(owner), "register", hexs(n), owner, g.email(), g.intArg(1), g.intArg(2), fmt.Sprint(e), g.intArg(4))
	var old string
	if ns, ok := prev.names[n]; ok {
		old = hx.Hex(ns.owner)
	}
	if len(owner) != 40 {
		owner = ""
	}
	return append([]string{l}, g.queries(t, n, typSOA, owner, old)...)
}

func (g *gen) genTransfer() []string {
	t := g.advance()
	n := g.someName(2)
	ns := g.w.prev.names[n]
	to := g.user()
	r := g.rng.IntN(100)
	switch {
	case r < 10:
		to = hx.Hex(ns.owner)
	case r < 20:
		to = g.w.probeHex()
	case r < 25:
		to = hx.Hex(g.w.nns.BytesBE())
	case r < 28:
		to = hx.Hex(g.w.c.GAS.BytesBE())
	case r < 33:
		to = g.badHash()
	case r < 38:
		to = g.w.cmt
	}
	l := g.line(t, g.role(n, ns), 0, g.w.recvClass(to), "transfer", to, hexs(n))
	if len(to) != 40 {
		to = ""
	}
	return append([]string{l}, g.queries(t, n, typTXT, to, hx.Hex(ns.owner))...)
}

func (g *gen) genRenew() []string {
	t := g.advance()
	n := g.someName(1)
	if ls := g.liveNames(2); len(ls) > 0 && g.p(70) {
		n = hx.Pick(g.rng, ls)
	}
	ns := g.w.prev.names[n]
	years := hx.Pick(g.rng, []string{"1", "1", "1", "1", "2", "5", "5", "9", "10", "0", "11", "-1"})
	hs := g.role(n, ns)
	var l string
	if g.p(15) {
		l = g.line(t, hs, 0, 0, "renewDefault", hexs(n))
	} else {
		l = g.line(t, hs, 0, 0, "renew", hexs(n), years)
	}
	return append([]string{l}, g.queries(t, n, typSOA)...)
}

func (g *gen) genUpdateSOA() []string {
	t := g.advance()
	n := g.someName(1)
	ns := g.w.prev.names[n]
	l := g.line(t, g.role(n, ns), 0, 0, "updateSOA", hexs(n), hexs("new@x"), g.intArg(11), g.intArg(12), g.intArg(13), g.intArg(14))
	return append([]string{l}, g.q(t, "getRecords", hexs(n), "6"), g.q(t, "getAllRecords", hexs(n)))
}

func (g *gen) genSetAdmin() []string {
	t := g.advance()
	n := g.someName(2)
	ns := g.w.prev.names[n]
	adm := g.user()
	r := g.rng.IntN(100)
	switch {
	case r < 15:
		adm = "-"
	case r < 22:
		adm = g.w.probeHex()
	case r < 27:
		adm = g.badHash()
	}
	hs := g.role(n, ns)
	if g.p(85) {
		hs = append(hs, adm)
	}
	l := g.line(t, hs, 0, 0, "setAdmin", hexs(n), adm)
	return append([]string{l}, g.q(t, "properties", hexs(n)), g.q(t, "ownerOf", hexs(n)))
}

// recordName: a registered name or a sub-name of it (one or two levels deeper)
func (g *gen) recordName() string {
	rs := g.liveNames(2)
	if len(rs) == 0 || g.p(8) {
		return g.someName(1)
	}
	n := hx.Pick(g.rng, rs)
	r := g.rng.IntN(100)
	switch {
	case r < 55:
	case r < 85:
		n = hx.Pick(g.rng, g.labs) + "." + n
	default:
		n = hx.Pick(g.rng, g.labs) + "." + hx.Pick(g.rng, g.labs) + "." + n
	}
	return n
}

func (g *gen) tokenState(n string, t uint64) nameSt {
	tok, ok := enclosing(g.w.prev, n, new(big.Int).SetUint64(t))
	if !ok {
		return g.w.prev.names[n]
	}
	return g.w.prev.names[tok]
}

var weirdTypes = []string{"0", "6", "7", "255", "256", "262", "272", "-1", "-128", "-129", "-250"}

func (g *gen) typ() string {
	if g.p(6) || !g.w.wf && g.p(20) {
		return hx.Pick(g.rng, weirdTypes)
	}
	return fmt.Sprint(hx.Pick(g.rng, types))
}

func (g *gen) genAddRecord() []string {
	t := g.advance()
	n := g.recordName()
	typ := hx.Pick(g.rng, types)
	data, ip := g.recordData(typ)
	ts := fmt.Sprint(typ)
	if g.p(4) {
		ts = hx.Pick(g.rng, weirdTypes) // never another valid type: the ip verdict belongs to typ
	}
	l := g.line(t, g.role(n, g.tokenState(n, t)), ip, 0, "addRecord", hexs(n), ts, hexs(data))
	return append([]string{l}, g.queries(t, n, typ)...)
}

func (g *gen) genSetRecord() []string {
	t := g.advance()
	// prefer a (name, type) that has records
	var n string
	typ := hx.Pick(g.rng, types)
	var rs []recSt
	for _, r := range g.w.prev.recs {
		if r.tb != typSOA || g.p(3) {
			rs = append(rs, r)
		}
	}
	if len(rs) > 0 && g.p(85) {
		r := rs[g.rng.IntN(len(rs))]
		n, typ = r.rname, r.tb
	} else {
		n = g.recordName()
	}
	cnt := 0
	var existing []string
	for _, r := range g.w.prev.recs {
		if r.rname == n && r.tb == typ {
			cnt++
			existing = append(existing, string(r.data))
		}
	}
	id := fmt.Sprint(g.rng.IntN(cnt + 1))
	if g.p(10) {
		id = hx.Pick(g.rng, []string{"-1", "15", "16", "255", "256", fmt.Sprint(cnt)})
	}
	data, ip := g.recordData(typ)
	if len(existing) > 0 && g.p(35) {
		data = hx.Pick(g.rng, existing) // another record's value (must be refused) or its own (accepted)
		ip = 1
	}
	l := g.line(t, g.role(n, g.tokenState(n, t)), ip, 0, "setRecord", hexs(n), fmt.Sprint(typ), id, hexs(data))
	return append([]string{l}, g.queries(t, n, typ)...)
}

func (g *gen) genDeleteRecords() []string {
	t := g.advance()
	var n string
	ts := g.typ()
	if rs := g.w.prev.recs; len(rs) > 0 && g.p(80) {
		r := rs[g.rng.IntN(len(rs))]
		n = r.rname
		if g.p(85) {
			ts = fmt.Sprint(r.tb)
		}
	} else {
		n = g.recordName()
	}
	l := g.line(t, g.role(n, g.tokenState(n, t)), 0, 0, "deleteRecords", hexs(n), ts)
	typ := typTXT
	fmt.Sscan(ts, &typ)
	return append([]string{l}, g.queries(t, n, typ)...)
}

func (g *gen) genSetPrice() []string {
	t := g.advance()
	hs := []string{g.committee()}
	if g.p(20) {
		hs = []string{g.user()}
	}
	p := hx.Pick(g.rng, []string{"1", "1000", "100000000", "1000000000", "0", "-1", "1000000000001", "1000000000000"})
	out := []string{g.line(t, hs, 0, 0, "setPrice", p), g.q(t, "getPrice")}
	if p == "0" || p == "1000000000000" {
		// exercise one register/renew under the extreme price, then return to a cheap one
		if p == "0" {
			out = append(out, g.genRegister()...)
			out = append(out, g.genRenew()...)
		}
		t2 := g.advance()
		out = append(out, g.line(t2, []string{g.w.cmt}, 0, 0, "setPrice", "1"))
	}
	return out
}

// genBurst: fill one (name, type) up to and beyond the limit of 16 records
func (g *gen) genBurst() []string {
	rs := g.liveNames(2)
	if len(rs) == 0 {
		return g.genRegister()
	}
	n := hx.Pick(g.rng, rs)
	if g.p(30) {
		n = hx.Pick(g.rng, g.labs) + "." + n
	}
	var out []string
	k := 14 + g.rng.IntN(5)
	typ := typTXT
	for i := 0; i < k; i++ {
		t := g.advance()
		ns := g.tokenState(n, t)
		g.nTXT++
		out = append(out, g.line(t, []string{hx.Hex(ns.owner)}, 0, 0, "addRecord", hexs(n), fmt.Sprint(typ), hexs(fmt.Sprintf("b%d", g.nTXT))))
	}
	out = append(out, g.q(g.t, "getRecords", hexs(n), fmt.Sprint(typ)), g.q(g.t, "getAllRecords", hexs(n)), g.q(g.t, "resolve", hexs(n), fmt.Sprint(typ)))
	return out
}

// genCnameChain: CNAME graphs of depth 0..4 over distinct names, optionally closed into a cycle, resolved
// with and without a trailing dot. An existing CNAME of a chosen name is deleted first so that the chain is
// the one intended.
func (g *gen) genCnameChain() []string {
	rs := g.liveNames(2)
	if len(rs) < 2 {
		return g.genRegister()
	}
	g.rng.Shuffle(len(rs), func(i, j int) { rs[i], rs[j] = rs[j], rs[i] })
	depth := g.rng.IntN(5)
	var chain []string
	for i := 0; i <= depth; i++ {
		n := rs[i%len(rs)]
		if i >= len(rs) || g.p(25) {
			n = hx.Pick(g.rng, g.labs) + "." + n // a sub-name kept under the registered name
		}
		chain = append(chain, n)
	}
	hasCname := func(n string) bool {
		for _, r := range g.w.prev.recs {
			if r.rname == n && r.tb == typCNAME {
				return true
			}
		}
		return false
	}
	var out []string
	for i, n := range chain {
		t := g.advance()
		ns := g.tokenState(n, t)
		out = append(out, g.line(t, []string{hx.Hex(ns.owner)}, 0, 0, "addRecord", hexs(n), fmt.Sprint(typTXT), hexs(fmt.Sprintf("hop%d.%d", i, g.rng.IntN(1000)))))
		var target string
		if i+1 < len(chain) {
			target = chain[i+1]
		} else if g.p(40) {
			target = chain[g.rng.IntN(len(chain))] // cycle
		}
		if hasCname(n) && g.p(90) {
			t = g.advance()
			out = append(out, g.line(t, []string{hx.Hex(ns.owner)}, 0, 0, "deleteRecords", hexs(n), fmt.Sprint(typCNAME)))
		}
		if target != "" {
			t = g.advance()
			out = append(out, g.line(t, []string{hx.Hex(ns.owner)}, 0, 0, "addRecord", hexs(n), fmt.Sprint(typCNAME), hexs(target)))
		}
	}
	for _, n := range chain {
		out = append(out, g.q(g.t, "resolve", hexs(n), fmt.Sprint(typTXT)))
	}
	out = append(out, g.q(g.t, "resolve", hexs(chain[0]+"."), fmt.Sprint(typTXT)), g.q(g.t, "resolve", hexs(chain[0]), fmt.Sprint(typCNAME)),
		g.q(g.t, "resolve", hexs(chain[0]), fmt.Sprint(typA)))
	if g.p(30) {
		out = append(out, g.q(g.t, "resolve", hexs(chain[0]+".."), fmt.Sprint(typTXT)))
	}
	return out
}

// genSubnameConflict: the parent holds records for names that end with the new name (true sub-names and
// mere string suffixes), then the name is registered
func (g *gen) genSubnameConflict() []string {
	rs := g.liveNames(2)
	if len(rs) == 0 {
		return g.genRegister()
	}
	p := hx.Pick(g.rng, rs)
	if len(labels(p)) > 3 {
		return g.genRegister()
	}
	ns := g.w.prev.names[p]
	owner := hx.Hex(ns.owner)
	var out []string
	rec := "xa." + p // ends with "a.<p>" without being a sub-name of it
	if g.p(45) {
		rec = hx.Pick(g.rng, g.labs) + ".a." + p // a true sub-name of a.<p>
	}
	t := g.advance()
	out = append(out, g.line(t, []string{owner}, 0, 0, "addRecord", hexs(rec), fmt.Sprint(typTXT), hexs("sub")))
	out = append(out, g.q(t, "isAvailable", hexs("a."+p)))
	t = g.advance()
	u := g.user()
	out = append(out, g.line(t, []string{owner, u}, 0, 0, "register", hexs("a."+p), u, hexs("e@x"), "1", "2", "1000", "4"))
	out = append(out, g.queries(t, "a."+p, typTXT, u)...)
	out = append(out, g.q(t, "getRecords", hexs(rec), fmt.Sprint(typTXT)), g.q(t, "resolve", hexs(rec), fmt.Sprint(typTXT)))
	if g.p(50) {
		t = g.advance()
		out = append(out, g.line(t, []string{owner}, 0, 0, "deleteRecords", hexs(rec), fmt.Sprint(typTXT)))
		out = append(out, g.q(t, "isAvailable", hexs("a."+p)))
	}
	return out
}

// genRoleMatrix: one mutating method on one name, called in turn by every signer role the property names:
// stranger, former owner, former admin, owner of the enclosing name, committee, nobody, admin, owner. The
// roles without authority come first, so the state they must leave unchanged is the same for all of them.
func (g *gen) genRoleMatrix() []string {
	ls := g.liveNames(2)
	if len(ls) == 0 {
		return g.genRegister()
	}
	n := hx.Pick(g.rng, ls)
	ns := g.w.prev.names[n]
	owner, admin := hx.Hex(ns.owner), hx.Hex(ns.admin)
	var out []string
	if admin == "-" {
		// appoint an admin first (owner and admin sign)
		admin = g.user()
		for admin == owner {
			admin = g.user()
		}
		out = append(out, g.line(g.advance(), []string{owner, admin}, 0, 0, "setAdmin", hexs(n), admin))
	}
	stranger := ""
	for _, u := range g.w.uhash {
		known := u == owner || u == admin
		for _, f := range append(append([]string{}, g.fOwner[n]...), g.fAdmin[n]...) {
			known = known || f == u
		}
		if p, ok := g.w.prev.names[parentOf(n)]; ok && hx.Hex(p.owner) == u {
			known = true
		}
		if !known {
			stranger = u
			break
		}
	}
	if stranger == "" {
		stranger = g.user() // every account has had a role on this name: any of them
	}
	pick := func(xs []string) string {
		if len(xs) == 0 {
			return stranger
		}
		return xs[len(xs)-1]
	}
	parentOwner := g.w.cmt
	if p, ok := g.w.prev.names[parentOf(n)]; ok && len(p.owner) == 20 {
		parentOwner = hx.Hex(p.owner)
	}
	roles := [][]string{{stranger}, {pick(g.fOwner[n])}, {pick(g.fAdmin[n])}, {parentOwner}, {g.committee()}, nil, {admin}, {owner}}
	method := hx.Pick(g.rng, []string{"addRecord", "setRecord", "deleteRecords", "updateSOA", "renew", "transfer", "setAdmin", "register"})
	g.nTXT++
	for i, hs := range roles {
		t := g.advance()
		switch method {
		case "addRecord":
			out = append(out, g.line(t, hs, 0, 0, "addRecord", hexs(n), fmt.Sprint(typTXT), hexs(fmt.Sprintf("r%d.%d", g.nTXT, i))))
		case "setRecord":
			out = append(out, g.line(t, hs, 0, 0, "setRecord", hexs(n), fmt.Sprint(typTXT), "0", hexs(fmt.Sprintf("s%d.%d", g.nTXT, i))))
		case "deleteRecords":
			out = append(out, g.line(t, hs, 0, 0, "deleteRecords", hexs(n), fmt.Sprint(typA)))
		case "updateSOA":
			out = append(out, g.line(t, hs, 0, 0, "updateSOA", hexs(n), hexs("m@x"), fmt.Sprint(20+i), "2", "3", "4"))
		case "renew":
			out = append(out, g.line(t, hs, 0, 0, "renew", hexs(n), "1"))
		case "transfer":
			to := stranger
			if i == len(roles)-1 {
				to = owner // the owner transfers to itself: ownership stays for the rest of the case
			}
			out = append(out, g.line(t, hs, 0, g.w.recvClass(to), "transfer", to, hexs(n)))
		case "setAdmin":
			// the new admin always signs too: what varies is the other witness
			out = append(out, g.line(t, append(append([]string{}, hs...), admin), 0, 0, "setAdmin", hexs(n), admin))
		case "register":
			// a sub-name: the owner-to-be always signs, what varies is the witness for the enclosing name
			child := fmt.Sprintf("m%d.%s", g.nTXT%7, n)
			u := stranger
			out = append(out, g.line(t, append(append([]string{}, hs...), u), 0, 0, "register", hexs(child), u, hexs("e@x"), "1", "2", "50", "4"))
		}
	}
	out = append(out, g.q(g.t, "properties", hexs(n)), g.q(g.t, "getRecords", hexs(n), fmt.Sprint(typTXT)), g.q(g.t, "getRecords", hexs(n), "6"))
	return out
}

// genFormerAdmin: the history "setAdmin(A); transfer to B; A alone mutates": the owner appoints an admin and
// transfers the name to somebody else; then the former admin alone, the former owner alone and both together try
// every kind of mutation (all must be refused: the transfer cleared the admin), and finally the new owner succeeds.
func (g *gen) genFormerAdmin() []string {
	var cands []string
	for _, n := range g.liveNames(2) {
		if ns := g.w.prev.names[n]; len(ns.owner) == 20 {
			if _, ok := g.w.users[hx.Hex(ns.owner)]; ok && hx.Hex(ns.owner) != g.w.cmt {
				cands = append(cands, n)
			}
		}
	}
	if len(cands) == 0 {
		return g.genRegister()
	}
	n := hx.Pick(g.rng, cands)
	owner := hx.Hex(g.w.prev.names[n].owner)
	var others []string
	for _, u := range g.w.uhash {
		if u != owner {
			others = append(others, u)
		}
	}
	g.rng.Shuffle(len(others), func(i, j int) { others[i], others[j] = others[j], others[i] })
	adm, to := others[0], others[1]
	g.nTXT++
	out := []string{
		g.line(g.advance(), []string{owner, adm}, 0, 0, "setAdmin", hexs(n), adm),
		g.line(g.advance(), []string{adm}, 0, 0, "addRecord", hexs(n), fmt.Sprint(typTXT), hexs(fmt.Sprintf("adm%d", g.nTXT))), // still the admin: accepted
		g.line(g.advance(), []string{owner}, 0, 0, "transfer", to, hexs(n)),
		g.q(g.t, "properties", hexs(n)),
	}
	mutate := func(hs []string, tag string) {
		kinds := []string{"addRecord", "setRecord", "deleteRecords", "updateSOA", "renew", "register", "setAdmin", "transfer"}
		g.rng.Shuffle(len(kinds), func(i, j int) { kinds[i], kinds[j] = kinds[j], kinds[i] })
		for _, k := range kinds[:3+g.rng.IntN(3)] {
			t := g.advance()
			switch k {
			case "addRecord":
				out = append(out, g.line(t, hs, 0, 0, "addRecord", hexs(n), fmt.Sprint(typTXT), hexs(fmt.Sprintf("%s%d", tag, g.nTXT))))
			case "setRecord":
				out = append(out, g.line(t, hs, 0, 0, "setRecord", hexs(n), fmt.Sprint(typTXT), "0", hexs(fmt.Sprintf("%ss%d", tag, g.nTXT))))
			case "deleteRecords":
				out = append(out, g.line(t, hs, 0, 0, "deleteRecords", hexs(n), fmt.Sprint(typTXT)))
			case "updateSOA":
				out = append(out, g.line(t, hs, 0, 0, "updateSOA", hexs(n), hexs("f@x"), "7", "2", "3", "4"))
			case "renew":
				out = append(out, g.line(t, hs, 0, 0, "renew", hexs(n), "1"))
			case "register":
				child := fmt.Sprintf("f%d.%s", g.nTXT%5, n)
				out = append(out, g.line(t, hs, 0, 0, "register", hexs(child), hs[0], hexs("e@x"), "1", "2", "50", "4"))
			case "setAdmin":
				out = append(out, g.line(t, hs, 0, 0, "setAdmin", hexs(n), hs[0]))
			case "transfer":
				out = append(out, g.line(t, hs, 0, 0, "transfer", hs[0], hexs(n)))
			}
		}
	}
	mutate([]string{adm}, "fa")
	mutate([]string{owner}, "fo")
	mutate([]string{adm, owner}, "fb")
	out = append(out, g.line(g.advance(), []string{to}, 0, 0, "addRecord", hexs(n), fmt.Sprint(typTXT), hexs(fmt.Sprintf("new%d", g.nTXT))),
		g.q(g.t, "getRecords", hexs(n), fmt.Sprint(typTXT)), g.q(g.t, "properties", hexs(n)))
	return out
}

// genDeepConflict: the sub-name conflict rule at every depth. Below a registered name p an unregistered name
// c = l1.p is chosen; the owner of p stores records (kept under p's token) for names two, three or four labels
// below c's parent — i.e. one or more labels below c, with further unregistered labels in between — and for the
// true-negative neighbours: a sibling whose text merely ends with c ("x"+c), a record exactly at c, a record one
// label below c. Then isAvailable(c) and register(c) are tried (and isAvailable of the deeper intermediate
// names), the records are deleted one by one with isAvailable(c) after each, and c is registered once free.
func (g *gen) genDeepConflict() []string {
	var cands []string
	for _, n := range g.liveNames(2) {
		if ns := g.w.prev.names[n]; len(labels(n)) <= 3 && len(ns.owner) == 20 {
			if _, ok := g.w.users[hx.Hex(ns.owner)]; ok {
				cands = append(cands, n)
			}
		}
	}
	if len(cands) == 0 {
		return g.genRegister()
	}
	p := hx.Pick(g.rng, cands)
	owner := hx.Hex(g.w.prev.names[p].owner)
	// an unregistered direct child of p
	c := ""
	for _, l := range []string{"fs", "cdn", "a", "b", "xa", "n1", "n2", "n3"} {
		if _, ok := g.w.prev.names[l+"."+p]; !ok && (c == "" || g.p(35)) {
			c = l + "." + p
		}
	}
	if c == "" {
		return g.genRegister()
	}
	deepLabs := []string{"node1", "cdn", "a", "xa", "b"}
	var recs []string
	add := func(n string) { recs = append(recs, n) }
	if g.p(85) { // two or more labels below c (three or more below p): the shape a one-label test misses
		n := c
		for i, d := 0, 2+g.rng.IntN(2); i < d; i++ {
			n = hx.Pick(g.rng, deepLabs) + "." + n
		}
		add(n)
	}
	if g.p(20) {
		add(hx.Pick(g.rng, deepLabs) + "." + c) // one label below c
	}
	if g.p(30) {
		add(c) // exactly at c: no sub-name
	}
	if g.p(30) {
		add("x" + c) // a sibling of c whose text ends with c
	}
	if g.p(20) {
		add(hx.Pick(g.rng, deepLabs) + ".x" + c) // below the sibling
	}
	if len(recs) == 0 {
		add("node1.cdn." + c)
	}
	g.rng.Shuffle(len(recs), func(i, j int) { recs[i], recs[j] = recs[j], recs[i] })
	var out []string
	u := g.user()
	tryRegister := func() {
		t := g.advance()
		out = append(out, g.q(t, "isAvailable", hexs(c)), g.q(t, "isAvailable", hexs("x"+c)))
		out = append(out, g.line(t, []string{owner, u}, 0, 0, "register", hexs(c), u, hexs("e@x"), "1", "2", "1000", "4"))
		out = append(out, g.q(t, "isAvailable", hexs(c)), g.q(t, "ownerOf", hexs(c)))
	}
	for _, r := range recs {
		g.nTXT++
		out = append(out, g.line(g.advance(), []string{owner}, 0, 0, "addRecord", hexs(r), fmt.Sprint(typTXT), hexs(fmt.Sprintf("d%d", g.nTXT))))
		out = append(out, g.q(g.t, "isAvailable", hexs(c)))
		// the intermediate names between the record and c
		for ls := labels(r); len(ls) > len(labels(c))+1; {
			ls = ls[1:]
			out = append(out, g.q(g.t, "isAvailable", hexs(strings.Join(ls, "."))))
		}
	}
	tryRegister()
	for _, r := range recs {
		out = append(out, g.q(g.t, "resolve", hexs(r), fmt.Sprint(typTXT)), g.q(g.t, "getRecords", hexs(r), fmt.Sprint(typTXT)))
	}
	if g.p(70) {
		for i, r := range recs {
			out = append(out, g.line(g.advance(), []string{owner}, 0, 0, "deleteRecords", hexs(r), fmt.Sprint(typTXT)))
			out = append(out, g.q(g.t, "isAvailable", hexs(c)))
			if i+1 < len(recs) && g.p(30) {
				tryRegister()
			}
		}
		tryRegister()
	}
	return out
}

// genRepeatedSuffix: sub-names that contain the whole name once more. Below a registered name p an unregistered direct
// child c = l.p is chosen; the owner of p stores records (kept under p's token) for names that END with "."+c — true
// sub-names of c — and contain the text of c a second time further to the left: at a label boundary ("c.c", "x.c.y.c",
// "c.c.c"; legal, since a TLD string is a valid inner label) and not at a label boundary ("xc.c": the first occurrence
// follows a letter, the last one a dot). True negatives with the same repetition: "c.xc" (ends with the text of c after a
// letter: a sub-name of the sibling xc), "c.n.p" (c occurs, but the record is no sub-name of c). Then isAvailable(c) and
// register(c), the read methods for the sub-names (before and after a registration of c, which shadows them), deletion
// one by one with isAvailable(c) after each, and the registration of c once it is free.
func (g *gen) genRepeatedSuffix() []string {
	var cands []string
	for _, n := range g.userOwned(2) {
		if len(labels(n)) <= 3 {
			cands = append(cands, n)
		}
	}
	if len(cands) == 0 {
		return g.genRegister()
	}
	p := hx.Pick(g.rng, cands)
	owner := hx.Hex(g.w.prev.names[p].owner)
	c := ""
	for _, l := range []string{"cdn", "fs", "a", "b", "xa", "r1", "r2", "r3"} {
		if _, ok := g.w.prev.names[l+"."+p]; !ok && (c == "" || g.p(35)) {
			c = l + "." + p
		}
	}
	if c == "" {
		return g.genRegister()
	}
	lab := func() string { return hx.Pick(g.rng, []string{"x", "y", "a", "xa", "node1"}) }
	var pos, neg []string
	switch g.rng.IntN(4) { // at least one blocking record, each shape with its own frequency below
	case 0:
		pos = append(pos, c+"."+c)
	case 1:
		pos = append(pos, "x"+c+"."+c)
	case 2:
		pos = append(pos, lab()+"."+c+"."+lab()+"."+c)
	}
	if g.p(40) {
		pos = append(pos, c+"."+c) // the first occurrence starts the record name
	}
	if g.p(40) {
		pos = append(pos, lab()+"."+c+"."+lab()+"."+c) // both occurrences follow a dot
	}
	if g.p(40) {
		pos = append(pos, "x"+c+"."+c) // the first occurrence follows a letter, the last one a dot
	}
	if g.p(15) {
		pos = append(pos, c+"."+c+"."+c) // three occurrences
	}
	if g.p(15) {
		pos = append(pos, lab()+".x"+c+"."+lab()+"."+c)
	}
	if g.p(30) {
		neg = append(neg, c+".x"+c) // the last occurrence follows a letter: below the sibling xc
	}
	if g.p(25) {
		neg = append(neg, c+"."+lab()+"."+p) // contains c, ends with p only
	}
	if g.p(15) {
		neg = append(neg, "x"+c+".x"+c)
	}
	seen := map[string]bool{}
	var recs []string
	for _, r := range append(pos, neg...) {
		if !seen[r] && len(r) <= 255 {
			seen[r] = true
			recs = append(recs, r)
		}
	}
	if len(recs) == 0 {
		recs = []string{c + "." + c}
	}
	g.rng.Shuffle(len(recs), func(i, j int) { recs[i], recs[j] = recs[j], recs[i] })
	var out []string
	u := g.user()
	tt := fmt.Sprint(typTXT)
	reads := func() {
		for _, r := range recs {
			out = append(out, g.q(g.t, "resolve", hexs(r), tt), g.q(g.t, "getRecords", hexs(r), tt))
			if g.p(40) {
				out = append(out, g.q(g.t, "getAllRecords", hexs(r)))
			}
		}
	}
	tryRegister := func() {
		t := g.advance()
		out = append(out, g.q(t, "isAvailable", hexs(c)), g.q(t, "isAvailable", hexs("x"+c)))
		out = append(out, g.line(t, []string{owner, u}, 0, 0, "register", hexs(c), u, hexs("e@x"), "1", "2", "1000", "4"))
		out = append(out, g.q(t, "isAvailable", hexs(c)), g.q(t, "ownerOf", hexs(c)))
	}
	for _, r := range recs {
		g.nTXT++
		out = append(out, g.line(g.advance(), []string{owner}, 0, 0, "addRecord", hexs(r), tt, hexs(fmt.Sprintf("r%d", g.nTXT))))
		out = append(out, g.q(g.t, "isAvailable", hexs(c)))
		if g.p(30) {
			out = append(out, g.q(g.t, "isAvailable", hexs(c+"."+c)), g.q(g.t, "isAvailable", hexs(p+"."+c)))
		}
	}
	reads()
	tryRegister()
	reads()
	if g.p(75) {
		for i, r := range recs {
			out = append(out, g.line(g.advance(), []string{owner}, 0, 0, "deleteRecords", hexs(r), tt))
			out = append(out, g.q(g.t, "isAvailable", hexs(c)))
			if i+1 < len(recs) && g.p(30) {
				tryRegister()
			}
		}
		tryRegister()
		reads()
	}
	return out
}

// userOwned: registered unexpired names (whole chain) owned by one of the user accounts.
func (g *gen) userOwned(minLabels int) []string {
	isUser := map[string]bool{}
	for _, u := range g.w.uhash {
		isUser[u] = true
	}
	var out []string
	for _, n := range g.liveNames(minLabels) {
		if isUser[hx.Hex(g.w.prev.names[n].owner)] {
			out = append(out, n)
		}
	}
	return out
}

// genCrossTypeSet: values shared between the types of one name. The name gets an A record, a CNAME and a few TXT
// records; then setRecord(TXT, i, v) with v the value of the A record / the CNAME / the AAAA record kept at another
// index (legal: the lists are per type), the same value at the same index, a value of another TXT record (refused)
// and the mirror image setRecord(A, 0, <a TXT value that is an address>).
func (g *gen) genCrossTypeSet() []string {
	cands := g.userOwned(2)
	if len(cands) == 0 {
		return g.genRegister()
	}
	n := hx.Pick(g.rng, cands)
	if g.p(25) {
		n = hx.Pick(g.rng, g.labs) + "." + n // a sub-name kept under the registered name
	}
	owner := hx.Hex(g.tokenState(n, g.t+1).owner)
	count := func(tb int) (vals []string) {
		for _, r := range g.w.prev.recs {
			if r.rname == n && r.tb == tb {
				vals = append(vals, string(r.data))
			}
		}
		return
	}
	var out []string
	add := func(typ int, v string, ip int) {
		out = append(out, g.line(g.advance(), []string{owner}, ip, 0, "addRecord", hexs(n), fmt.Sprint(typ), hexs(v)))
	}
	ipv, ip6, alias := hx.Pick(g.rng, okA), hx.Pick(g.rng, okAAAA), hx.Pick(g.rng, []string{"alias.com", "a.com", "b.org"})
	as, cs, ts, a6 := count(typA), count(typCNAME), count(typTXT), count(typAAAA)
	if len(as) == 0 {
		add(typA, ipv, 1)
	} else {
		ipv = as[0]
	}
	if len(cs) == 0 && g.p(70) {
		add(typCNAME, alias, 0)
	} else if len(cs) > 0 {
		alias = cs[0]
	}
	if len(a6) == 0 && g.p(50) {
		add(typAAAA, ip6, 1)
	} else if len(a6) > 0 {
		ip6 = a6[0]
	}
	nt := len(ts)
	for nt < 3 {
		g.nTXT++
		add(typTXT, fmt.Sprintf("x%d", g.nTXT), 0)
		nt++
	}
	set := func(typ int, id int, v string, ip int) {
		out = append(out, g.line(g.advance(), []string{owner}, ip, 0, "setRecord", hexs(n), fmt.Sprint(typ), fmt.Sprint(id), hexs(v)))
		out = append(out, g.q(g.t, "getRecords", hexs(n), fmt.Sprint(typ)))
	}
	shared := []string{ipv, alias, ip6}
	g.rng.Shuffle(len(shared), func(i, j int) { shared[i], shared[j] = shared[j], shared[i] })
	for k, v := range shared[:2+g.rng.IntN(2)] {
		set(typTXT, 1+(k+g.rng.IntN(2))%(nt-1), v, 0) // an index different from 0, where the other type keeps the value
	}
	set(typTXT, 0, ipv, 0)               // the same index as the A record: accepted as well
	set(typTXT, 2, ipv, 0)               // now another TXT record holds it (index 0): refused … unless it is index 2 itself
	set(typA, 0, hx.Pick(g.rng, okA), 1) // replace the A record by another address
	set(typA, 0, ipv, 1)                 // and back: TXT records hold the same text, which does not matter
	out = append(out, g.q(g.t, "getAllRecords", hexs(n)), g.q(g.t, "resolve", hexs(n), fmt.Sprint(typTXT)))
	return out
}

// genAdminAppoints: "only the owner can … together with the new admin, appoint an admin". On a name whose admin
// differs from the owner, the admin tries to hand the role on (admin + new admin sign), to drop it (admin alone), to
// re-appoint itself; the same after a transfer to a new owner who appointed a new admin; finally the owner does it.
func (g *gen) genAdminAppoints() []string {
	cands := g.userOwned(2)
	if len(cands) == 0 {
		return g.genRegister()
	}
	n := hx.Pick(g.rng, cands)
	ns := g.w.prev.names[n]
	owner := hx.Hex(ns.owner)
	var others []string
	for _, u := range g.w.uhash {
		if u != owner {
			others = append(others, u)
		}
	}
	g.rng.Shuffle(len(others), func(i, j int) { others[i], others[j] = others[j], others[i] })
	adm, x, newOwner, adm2 := others[0], others[1], others[2], others[3]
	var out []string
	sa := func(hs []string, a string) {
		out = append(out, g.line(g.advance(), hs, 0, 0, "setAdmin", hexs(n), a))
	}
	attempts := func(adm, x string) {
		sa([]string{adm, x}, x) // the admin hands the role to an accomplice
		sa([]string{adm}, "-")  // the admin drops the role
		sa([]string{adm}, adm)  // the admin re-appoints itself
		if g.p(50) {
			sa([]string{x}, x) // a stranger appoints itself
		}
		out = append(out, g.q(g.t, "properties", hexs(n)))
	}
	if a := hx.Hex(ns.admin); a != "-" && a != owner && g.p(60) {
		adm = a
		if x == adm {
			x = others[4%len(others)]
		}
	} else {
		sa([]string{owner, adm}, adm)
	}
	attempts(adm, x)
	if g.p(60) {
		// over an ownership history: transfer, the new owner appoints its own admin, who tries the same
		if newOwner == adm {
			newOwner, adm2 = adm2, newOwner
		}
		out = append(out, g.line(g.advance(), []string{owner}, 0, 0, "transfer", newOwner, hexs(n)))
		if adm2 == newOwner {
			adm2 = adm
		}
		sa([]string{newOwner, adm2}, adm2)
		y := owner // the former owner as accomplice
		attempts(adm2, y)
		sa([]string{newOwner, y}, y) // the owner may
	} else {
		sa([]string{owner, x}, x)
	}
	out = append(out, g.q(g.t, "properties", hexs(n)))
	return out
}

// genCommitteeGate (committees of more than one member): every committee-gated method — registerTLD, setPrice,
// renew and updateSOA of a TLD — called in turn by the signer classes single member, half of the committee,
// majority minus one, majority plus one and finally the majority account n/2+1 of n, which alone must pass.
func (g *gen) genCommitteeGate() []string {
	n := g.w.n
	maj := n/2 + 1
	ks := []int{1, n / 2, maj - 1, maj + 1, maj}
	var out []string
	tldLive := ""
	for _, r := range g.w.prev.roots {
		if liveAt(g.w.prev, r, new(big.Int).SetUint64(g.t+1000)) {
			tldLive = r
		}
	}
	methods := []string{"registerTLD", "setPrice", "renew", "updateSOA"}
	g.rng.Shuffle(len(methods), func(i, j int) { methods[i], methods[j] = methods[j], methods[i] })
	g.nTXT++
	for _, m := range methods[:2+g.rng.IntN(3)] {
		if (m == "renew" || m == "updateSOA") && tldLive == "" {
			continue
		}
		seen := map[int]bool{}
		for _, k := range ks {
			if k < 1 || k > n || seen[k] {
				continue
			}
			seen[k] = true
			hs := []string{g.w.cmtByK[k]}
			t := g.advance()
			switch m {
			case "registerTLD":
				out = append(out, g.line(t, hs, 0, 0, "registerTLD", hexs(fmt.Sprintf("t%d", g.nTXT%50)+"ld"), hexs("e@x"), "1", "2", "315360000", "4"))
			case "setPrice":
				out = append(out, g.line(t, hs, 0, 0, "setPrice", fmt.Sprint(1+k)))
			case "renew":
				out = append(out, g.line(t, hs, 0, 0, "renew", hexs(tldLive), "1"))
			case "updateSOA":
				out = append(out, g.line(t, hs, 0, 0, "updateSOA", hexs(tldLive), hexs("c@x"), fmt.Sprint(30+k), "2", "3", "4"))
			}
		}
	}
	out = append(out, g.line(g.advance(), []string{g.w.cmt}, 0, 0, "setPrice", "1"), g.q(g.t, "roots"), g.q(g.t, "getPrice"))
	return out
}

// genFullList: the boundary of 16 records. One (name, type) — TXT mostly, also A — is emptied and filled to the full 16
// values; a 17th addRecord must be refused; setRecord is probed at the ids 0, 14, 15 (the last valid one), 16 and 255,
// each with a fresh valid value and with the value the record already has; the read paths are queried; then the type
// is deleted, partly refilled and probed again.
func (g *gen) genFullList() []string {
	cands := g.userOwned(2)
	if len(cands) == 0 {
		return g.genRegister()
	}
	n := hx.Pick(g.rng, cands)
	if g.p(25) {
		n = hx.Pick(g.rng, g.labs) + "." + n // a sub-name kept under the registered name
	}
	owner := hx.Hex(g.tokenState(n, g.t+1).owner)
	typ, ip := typTXT, 0
	if g.p(30) {
		typ, ip = typA, 1
	}
	g.nTXT++
	tag := g.nTXT
	val := func(i int, gen int) string {
		if typ == typA {
			return fmt.Sprintf("%d.%d.%d.%d", 1+tag%9, 1+gen, 3, 1+i) // public unicast, last octet 1..254
		}
		return fmt.Sprintf("f%d.%d.%d", tag, gen, i)
	}
	ts := fmt.Sprint(typ)
	var out []string
	op := func(method string, args ...string) {
		out = append(out, g.line(g.advance(), []string{owner}, ip, 0, method, append([]string{hexs(n)}, args...)...))
	}
	reads := func() {
		out = append(out, g.q(g.t, "getRecords", hexs(n), ts), g.q(g.t, "resolve", hexs(n), ts))
		if g.p(50) {
			out = append(out, g.q(g.t, "getAllRecords", hexs(n)))
		}
	}
	op("deleteRecords", ts)
	for i := 0; i < 16; i++ {
		op("addRecord", ts, hexs(val(i, 0)))
	}
	op("addRecord", ts, hexs(val(16, 0))) // the 17th: refused
	reads()
	cur := map[int]string{}
	for i := 0; i < 16; i++ {
		cur[i] = val(i, 0)
	}
	ids := []int{0, 14, 15, 16, 255}
	g.rng.Shuffle(len(ids), func(i, j int) { ids[i], ids[j] = ids[j], ids[i] })
	for _, id := range ids {
		fresh := val(id%20, 1)
		op("setRecord", ts, fmt.Sprint(id), hexs(fresh)) // a fresh valid value
		if id < 16 {
			cur[id] = fresh
		}
		same := fresh
		if id >= 16 {
			same = cur[15]
		}
		op("setRecord", ts, fmt.Sprint(id), hexs(same)) // the identical value
	}
	op("setRecord", ts, "15", hexs(cur[14])) // the value of its neighbour: refused
	reads()
	op("deleteRecords", ts)
	k := 2 + g.rng.IntN(3)
	for i := 0; i < k; i++ {
		op("addRecord", ts, hexs(val(i, 2)))
	}
	op("setRecord", ts, fmt.Sprint(k-1), hexs(val(k-1, 3)))
	op("setRecord", ts, fmt.Sprint(k), hexs(val(k, 3))) // one past the end: refused
	op("setRecord", ts, "15", hexs(val(15, 3)))         // no such id now
	reads()
	return out
}

// genNestedOwners: names of four levels whose enclosing names have different owners. b = l.<tld> belongs to P,
// a.b is registered for X (P and X sign), then P alone — the owner of the second-level name, not of the directly
// enclosing one — tries to register evil.a.b (refused), as do P together with the owner-to-be and a stranger; X (owner
// of a.b) with the owner-to-be succeeds; one level deeper the same with the owner of evil.a.b.
func (g *gen) genNestedOwners() []string {
	var l2 []string
	for _, n := range g.userOwned(2) {
		if len(labels(n)) == 2 {
			l2 = append(l2, n)
		}
	}
	if len(l2) == 0 {
		return g.genRegister()
	}
	b := hx.Pick(g.rng, l2)
	p := hx.Hex(g.w.prev.names[b].owner)
	var others []string
	for _, u := range g.w.uhash {
		if u != p {
			others = append(others, u)
		}
	}
	g.rng.Shuffle(len(others), func(i, j int) { others[i], others[j] = others[j], others[i] })
	x, y, z := others[0], others[1], others[2]
	g.nTXT++
	a := fmt.Sprintf("o%d.%s", g.nTXT%9, b)
	reg := func(hs []string, name, owner string) string {
		return g.line(g.advance(), hs, 0, 0, "register", hexs(name), owner, hexs("e@x"), "1", "2", "1000", "4")
	}
	var out []string
	if ns, ok := g.w.prev.names[a]; ok && liveAt(g.w.prev, a, new(big.Int).SetUint64(g.t+1)) && len(ns.owner) == 20 {
		x = hx.Hex(ns.owner)
		if x == p {
			return g.genRegister()
		}
		if y == x {
			y = z
		}
	} else {
		out = append(out, reg([]string{p, x}, a, x))
	}
	c := "evil." + a
	out = append(out,
		reg([]string{p}, c, p),    // the owner of the second-level name alone, for itself
		reg([]string{p, y}, c, y), // … together with the owner-to-be
		reg([]string{y}, c, y),    // a stranger for itself
		g.q(g.t, "isAvailable", hexs(c)), g.q(g.t, "ownerOf", hexs(c)),
		reg([]string{x, y}, c, y), // the owner of the directly enclosing name with the owner-to-be: accepted
		g.q(g.t, "ownerOf", hexs(c)))
	if g.p(60) {
		d := "deep." + c
		w := others[3%len(others)]
		out = append(out,
			reg([]string{p, w}, d, w), // second-level owner
			reg([]string{x, w}, d, w), // third-level owner: not the directly enclosing name either
			g.q(g.t, "ownerOf", hexs(d)),
			reg([]string{y, w}, d, w), // the owner of evil.a.b: accepted
			g.q(g.t, "ownerOf", hexs(d)))
	}
	return out
}
