package placement

import (
	"encoding/hex"
	"fmt"
	"os"
	"strings"
	"testing"
)

// TestGenCorpus prints the corpus files (run by hand: VERIF_GENCORPUS=dir).
func TestGenCorpus(t *testing.T) {
	dir := os.Getenv("VERIF_GENCORPUS")
	if dir == "" {
		t.Skip()
	}
	meta, _ := MetaCIDs()
	m0 := hex.EncodeToString(meta[0])
	caseLine := func(id, kind string) string {
		return fmt.Sprintf("case %s %s meta=%s,%s", id, kind, hex.EncodeToString(meta[0]), hex.EncodeToString(meta[1]))
	}
	k := func(i int) string { return hex.EncodeToString(nodePub(i)) }
	bad := "bad=" + hexJoin(badKeys())
	var f5 []string
	f5 = append(f5, "# F5 (fixed by 05aaab2): REP 3 and one member's signature three times was accepted.",
		"# Also the (r, n-s) twin of a counted signature, and the submitObjectPut path.",
		caseLine("F5-repeated-signature", "wf"),
		fmt.Sprintf("op alpha add %s 0 %s,%s,%s,%s", m0, k(1), k(2), k(3), k(4)),
		fmt.Sprintf("op alpha add %s 1 %s,%s", m0, k(5), k(6)),
		fmt.Sprintf("op alpha commit %s b:0301", m0),
		fmt.Sprintf("op - verify %s aabbccdd %s sigs=ok.%s,ok.%s,ok.%s/ok.%s", m0, bad, k(1), k(2), k(3), k(5)),
		fmt.Sprintf("op - verify %s aabbccdd %s sigs=ok.%s,ok.%s,ok.%s/ok.%s", m0, bad, k(1), k(1), k(1), k(5)),
		fmt.Sprintf("op - verify %s aabbccdd %s sigs=ok.%s,mal.%s,ok.%s/ok.%s", m0, bad, k(1), k(1), k(2), k(5)),
		fmt.Sprintf("op - verify %s aabbccdd %s sigs=ok.%s,ok.%s,ok.%s,ok.%s/ok.%s", m0, bad, k(2), k(2), k(1), k(2), k(5)),
		fmt.Sprintf("op - verify %s aabbccdd %s sigs=ok.%s,ok.%s,ok.%s,ok.%s/mal.%s", m0, bad, k(2), k(2), k(1), k(4), k(6)),
		fmt.Sprintf("op - submit kind=map cid=%s oid=%s net=42 magic=42 size=10 del=- lock=- vubd=1 %s sigs=ok.%s,ok.%s,ok.%s/ok.%s",
			m0, strings.Repeat("11", 32), bad, k(3), k(3), k(3), k(5)),
		fmt.Sprintf("op - submit kind=map cid=%s oid=%s net=42 magic=42 size=10 del=- lock=- vubd=1 %s sigs=ok.%s,mal.%s,ok.%s,wm.%s/ok.%s",
			m0, strings.Repeat("11", 32), bad, k(3), k(3), k(4), k(1), k(5)),
		fmt.Sprintf("op - submit kind=map cid=%s oid=%s net=42 magic=42 size=10 del=- lock=- vubd=1 %s sigs=ok.%s,mal.%s,ok.%s,ok.%s/ok.%s",
			m0, strings.Repeat("11", 32), bad, k(3), k(3), k(4), k(1), k(5)),
	)
	os.WriteFile(dir+"/F5-repeated-signature.ops", []byte(strings.Join(f5, "\n")+"\n"), 0o644)

	// counter boundaries: 127|128 and 255|256 inside a batch and between batches, a re-commit, an empty commit
	var cb []string
	keys := func(from, n int) string {
		s := make([]string, n)
		for i := range s {
			s[i] = k(from + i)
		}
		return strings.Join(s, ",")
	}
	cb = append(cb, "# the two-byte counter across 127|128 (between batches) and 255|256 (inside a batch); submission order must survive the commit",
		caseLine("counter-boundaries", "wf"),
		fmt.Sprintf("op alpha add %s 0 %s", m0, keys(0, 127)),
		fmt.Sprintf("op alpha add %s 0 %s", m0, keys(127, 1)),
		fmt.Sprintf("op alpha add %s 0 %s", m0, keys(128, 130)),
		fmt.Sprintf("op alpha add %s 1 %s", m0, keys(258, 2)),
		fmt.Sprintf("op alpha add %s 0 %s", m0, keys(260, 40)),
		fmt.Sprintf("op alpha commit %s b:0201", m0),
		fmt.Sprintf("op - nodes %s 0", m0),
		fmt.Sprintf("op - nodes %s 1", m0),
		fmt.Sprintf("op - reps %s", m0),
		fmt.Sprintf("op - verify %s 01 %s sigs=ok.%s,ok.%s/ok.%s", m0, bad, k(299), k(255), k(259)),
		fmt.Sprintf("op - verify %s 01 %s sigs=ok.%s,ok.%s/ok.%s", m0, bad, k(256), k(256), k(259)),
		fmt.Sprintf("op alpha add %s 0 %s", m0, keys(300, 3)),
		fmt.Sprintf("op alpha commit %s a:1", m0),
		fmt.Sprintf("op - nodes %s 0", m0),
		fmt.Sprintf("op - nodes %s 1", m0),
		fmt.Sprintf("op alpha commit %s null", m0),
		fmt.Sprintf("op - nodes %s 0", m0),
		fmt.Sprintf("op - reps %s", m0),
	)
	os.WriteFile(dir+"/counter-boundaries.ops", []byte(strings.Join(cb, "\n")+"\n"), 0o644)

	// a node submitted again in a second batch: the vector lists its key twice, it is still one member
	var rk []string
	oid := strings.Repeat("22", 32)
	row1 := "ok." + k(1) + ",ok." + k(4)
	vfy := func(row0 string) string {
		return fmt.Sprintf("op - verify %s c0ffee %s sigs=%s/%s", m0, bad, row0, row1)
	}
	sub := func(row0 string) string {
		return fmt.Sprintf("op - submit kind=map cid=%s oid=%s net=42 magic=42 size=10 del=- lock=- vubd=1 %s sigs=%s/%s", m0, oid, bad, row0, row1)
	}
	rk = append(rk, "# seeded C14-10: counted members remembered by roster POSITION instead of by key. Vector 0 = [A, B, A, C] (A submitted again",
		"# in a second batch), vector 1 = [D, A], REP 2 and 2. Two signatures of the one node A (the same twice, a signature and its",
		"# (r, n-s) twin, two signatures with different nonces) are ONE distinct member and must be refused; A + C is legal.",
		caseLine("repeated-key-roster", "wf"),
		fmt.Sprintf("op alpha add %s 0 %s,%s", m0, k(1), k(2)),
		fmt.Sprintf("op alpha add %s 0 %s,%s", m0, k(1), k(3)),
		fmt.Sprintf("op alpha add %s 1 %s,%s", m0, k(4), k(1)),
		fmt.Sprintf("op alpha commit %s b:0202", m0),
		fmt.Sprintf("op - nodes %s 0", m0),
		vfy("ok."+k(1)+",ok."+k(1)),
		vfy("ok."+k(1)+",mal."+k(1)),
		vfy("ok."+k(1)+",ok2."+k(1)),
		vfy("ok2."+k(1)+",mal."+k(1)),
		vfy("ok."+k(1)+",ok."+k(3)),
		vfy("ok."+k(1)+",ok."+k(1)+",ok."+k(3)),
		sub("ok."+k(1)+",ok."+k(1)),
		sub("ok."+k(1)+",mal."+k(1)),
		sub("ok."+k(1)+",ok2."+k(1)),
		sub("ok."+k(1)+",ok."+k(2)),
		fmt.Sprintf("op - verify %s c0ffee %s sigs=ok.%s,ok.%s/ok.%s,ok2.%s", m0, bad, k(1), k(2), k(1), k(1)),
		// REP 3 on the same vector: A, A', B is two members
		fmt.Sprintf("op alpha add %s 0 %s,%s,%s,%s", m0, k(1), k(2), k(1), k(3)),
		fmt.Sprintf("op alpha commit %s b:03", m0),
		fmt.Sprintf("op - verify %s c0ffee %s sigs=ok.%s,mal.%s,ok.%s", m0, bad, k(1), k(1), k(2)),
		fmt.Sprintf("op - verify %s c0ffee %s sigs=ok.%s,ok.%s,ok.%s", m0, bad, k(1), k(3), k(2)),
	)
	os.WriteFile(dir+"/repeated-key-roster.ops", []byte(strings.Join(rk, "\n")+"\n"), 0o644)

	// outside the quantifier: vector number -1 is stored as vector byte 255 once vectors 0..254 exist
	var neg []string
	neg = append(neg, "# outside the property's quantifier (the vector number is a uint8): -1 passes `placementVector >= 255`, needs vector byte 254 and lands in vector byte 255;",
		"# compared with the model only (monitor off)",
		caseLine("negative-vector", "nonwf"))
	for v := 0; v < 255; v++ {
		neg = append(neg, fmt.Sprintf("op alpha add %s %d %s", m0, v, k(v)))
	}
	neg = append(neg,
		fmt.Sprintf("op alpha add %s 255 %s", m0, k(300)),
		fmt.Sprintf("op alpha add %s -1 %s", m0, k(301)),
		fmt.Sprintf("op alpha add %s -2 %s", m0, k(302)),
		fmt.Sprintf("op alpha add %s -128 %s", m0, k(303)),
		fmt.Sprintf("op alpha add %s -127 %s", m0, k(304)),
		fmt.Sprintf("op alpha commit %s b:%s", m0, strings.Repeat("01", 256)),
		fmt.Sprintf("op - nodes %s 255", m0),
		fmt.Sprintf("op - nodes %s -1", m0),
		fmt.Sprintf("op - nodes %s 254", m0),
		fmt.Sprintf("op - nodes %s 129", m0),
		fmt.Sprintf("op - reps %s", m0),
	)
	os.WriteFile(dir+"/negative-vector.ops", []byte(strings.Join(neg, "\n")+"\n"), 0o644)
}
