// Correspondence harness for the placement roster and placement signatures of the Container contract
// (C14): executes operation lines on the contract compiled from the repository under test, prints
// canonical observations (result, notifications, decoded raw storage of the roster families) for the
// diff with the Lean model, and runs the C14 monitor on the implementation's own observations.
package placement

import (
	"bytes"
	"crypto/elliptic"
	"crypto/sha256"
	"encoding/hex"
	"fmt"
	"math/big"
	"math/rand/v2"
	"strings"
	"sync"
	"testing"

	"github.com/mr-tron/base58"
	"github.com/nspcc-dev/neo-go/pkg/crypto/hash"
	"github.com/nspcc-dev/neo-go/pkg/crypto/keys"
	"github.com/nspcc-dev/neo-go/pkg/encoding/address"
	"github.com/nspcc-dev/neo-go/pkg/neotest"
	"github.com/nspcc-dev/neo-go/pkg/util"
	"github.com/nspcc-dev/neo-go/pkg/vm/stackitem"

	"verifharness/chainx"
	"verifharness/hx"
)

const (
	committeeSize = 5
	maxUniverse   = 330
)

// ---- deterministic key universe -------------------------------------------------------------

var uni struct {
	mu    sync.Mutex
	privs []*keys.PrivateKey
	pubs  [][]byte
	byPub map[string]*keys.PrivateKey
	bad   [][]byte // 33-byte strings that are not points of secp256r1
}

func nodeKey(i int) *keys.PrivateKey {
	uni.mu.Lock()
	defer uni.mu.Unlock()
	if uni.byPub == nil {
		uni.byPub = map[string]*keys.PrivateKey{}
	}
	for len(uni.privs) <= i {
		k := chainx.Key(fmt.Sprintf("placement-node-%d", len(uni.privs)))
		uni.privs = append(uni.privs, k)
		p := k.PublicKey().Bytes()
		uni.pubs = append(uni.pubs, p)
		uni.byPub[hex.EncodeToString(p)] = k
	}
	return uni.privs[i]
}

func nodePub(i int) []byte { nodeKey(i); return uni.pubs[i] }

func privOf(pubHex string) *keys.PrivateKey {
	uni.mu.Lock()
	k := uni.byPub[pubHex]
	uni.mu.Unlock()
	if k != nil {
		return k
	}
	// not generated yet in this process (replay): the universe is deterministic, extend it
	for i := 0; i < maxUniverse+8; i++ {
		nodeKey(i)
		if hex.EncodeToString(uni.pubs[i]) == pubHex {
			return uni.privs[i]
		}
	}
	return nil
}

// badKeys returns two 33-byte strings with a compressed-point prefix whose x has no point on the curve.
func badKeys() [][]byte {
	uni.mu.Lock()
	defer uni.mu.Unlock()
	if uni.bad != nil {
		return uni.bad
	}
	for seed := 1; len(uni.bad) < 2; seed++ {
		b := make([]byte, 33)
		b[0] = 2 + byte(len(uni.bad))
		b[7] = byte(seed)
		b[32] = byte(seed * 7)
		if _, err := keys.NewPublicKeyFromBytes(b, elliptic.P256()); err != nil {
			uni.bad = append(uni.bad, b)
		}
	}
	return uni.bad
}

// ---- signatures ------------------------------------------------------------------------------

// sigBytes turns a symbolic token into the bytes passed to the contract.
func sigBytes(tok string, msg []byte) []byte {
	kind, arg, _ := strings.Cut(tok, ".")
	signer := func() *keys.PrivateKey {
		k := privOf(arg)
		if k == nil {
			panic("unknown signer " + arg)
		}
		return k
	}
	switch kind {
	case "ok":
		return signer().Sign(msg)
	case "ok2": // a second, different valid signature of the same message by the same key (other nonce)
		return signOtherNonce(signer(), msg)
	case "mal": // (r, n-s): verifies for the same key
		s := signer().Sign(msg)
		n := elliptic.P256().Params().N
		sv := new(big.Int).Sub(n, new(big.Int).SetBytes(s[32:]))
		out := append([]byte{}, s[:32]...)
		return append(out, sv.FillBytes(make([]byte, 32))...)
	case "wm": // a valid signature of another message
		return signer().Sign(append(append([]byte{}, msg...), 0x77))
	case "sh":
		return signer().Sign(msg)[:63]
	case "lg":
		return append(signer().Sign(msg), 0)
	case "em":
		return []byte{}
	case "z":
		return make([]byte, 64)
	case "rnd":
		h1 := sha256.Sum256([]byte("rnd-sig-a|" + arg))
		h2 := sha256.Sum256([]byte("rnd-sig-b|" + arg))
		return append(h1[:], h2[:]...)
	}
	panic("bad signature token " + tok)
}

// signOtherNonce: ECDSA over secp256r1/SHA-256 with a nonce derived from (key, message) in another way than
// RFC 6979 does, so that the result differs from Sign(msg) and from its (r, n-s) twin but is reproducible.
func signOtherNonce(k *keys.PrivateKey, msg []byte) []byte {
	curve := elliptic.P256()
	n := curve.Params().N
	h := new(big.Int).SetBytes(hash.Sha256(msg).BytesBE())
	d := new(big.Int).SetBytes(k.Bytes())
	for ctr := 0; ; ctr++ {
		seed := sha256.Sum256(append(append([]byte(fmt.Sprintf("other-nonce|%d|", ctr)), k.Bytes()...), msg...))
		kk := new(big.Int).Mod(new(big.Int).SetBytes(seed[:]), n)
		if kk.Sign() == 0 {
			continue
		}
		x, _ := curve.ScalarBaseMult(kk.Bytes())
		r := new(big.Int).Mod(x, n)
		sv := new(big.Int).Mul(r, d)
		sv.Add(sv, h)
		sv.Mul(sv, new(big.Int).ModInverse(kk, n))
		sv.Mod(sv, n)
		if r.Sign() == 0 || sv.Sign() == 0 {
			continue
		}
		out := r.FillBytes(make([]byte, 32))
		out = append(out, sv.FillBytes(make([]byte, 32))...)
		if std := k.Sign(msg); bytes.Equal(std[:32], out[:32]) {
			continue // same nonce as the standard signature: take the next one
		}
		return out
	}
}

// verifying: the token kinds that are valid signatures of the op's message by the named key.
func verifying(kind string) bool { return kind == "ok" || kind == "mal" || kind == "ok2" }

// tokClaims: what the token says about itself (the model's oracle): verifies for pub or for nobody.
func tokClaims(tok string, pub []byte) bool {
	kind, arg, _ := strings.Cut(tok, ".")
	return verifying(kind) && arg == hex.EncodeToString(pub)
}

// realVerify is what crypto.VerifyWithECDsa(msg, pub, sig, Secp256r1Sha256) computes for a decodable key.
func realVerify(pub, sig, msg []byte) bool {
	pk, err := keys.NewPublicKeyFromBytes(pub, elliptic.P256())
	if err != nil {
		return false
	}
	return pk.Verify(sig, hash.Sha256(msg).BytesBE())
}

// ---- world -----------------------------------------------------------------------------------

type world struct {
	c    *chainx.Chain
	ct   util.Uint160
	run  *hx.Run
	wf   bool
	meta [][]byte // containers created with meta-on-chain
	nom  []byte   // container created without it
	user neotest.SingleSigner
	// the monitor's own book-keeping of what the property statement calls the roster, driven by the
	// implementation's verdicts (HALT / FAULT) only
	pend       map[string]map[int][][]byte
	comm       map[string]map[int][][]byte
	reps       map[string][]*big.Int
	cids       map[string]bool
	prevFam    string
	baseOther  string
	nops       int
	pendingMon func()
	lastFault  string
}

func containerBlob(owner util.Uint160, i int) []byte {
	val := make([]byte, 100)
	val[2] = byte(i + 1)
	ow, _ := base58.Decode(address.Uint160ToString(owner))
	copy(val[6:], ow)
	return val
}

var fixedOwner = chainx.UserHash("placement-owner")

// MetaCIDs are the ids of the containers every case creates (two with meta-on-chain, one without).
func MetaCIDs() (meta [][]byte, nometa []byte) {
	for i := 0; i < 3; i++ {
		h := sha256.Sum256(containerBlob(fixedOwner, i))
		if i < 2 {
			meta = append(meta, h[:])
		} else {
			nometa = h[:]
		}
	}
	return
}

func newWorld(t testing.TB, run *hx.Run) *world {
	c := chainx.New(t, committeeSize)
	c.FundGAS(300000_0000_0000, c.Payer.ScriptHash()) // for the few operations sent with a 2000 GAS system fee (invokeSized)
	nns := c.DeployNNS()
	nm := c.Compile("netmap")
	c.Deploy(nm, []any{false, util.Uint160{}, util.Uint160{}, []any{c.Members[0].Account().PublicKey().Bytes()},
		[]any{"ContainerFee", int64(0), "ContainerAliasFee", int64(0)}})
	c.RegisterNNS("netmap", nm.Hash)
	b := c.Compile("balance")
	ct := c.Compile("container")
	c.Deploy(b, []any{false, nm.Hash, ct.Hash})
	c.RegisterNNS("balance", b.Hash)
	c.Deploy(ct, []any{int64(0), nm.Hash, b.Hash, util.Uint160{}, nns, "container"})
	c.RegisterNNS("container", ct.Hash)
	w := &world{c: c, ct: ct.Hash, run: run, pend: map[string]map[int][][]byte{}, comm: map[string]map[int][][]byte{},
		reps: map[string][]*big.Int{}, cids: map[string]bool{}}
	w.user = c.User("placement-stranger")
	w.meta, w.nom = MetaCIDs()
	for i := 0; i < 3; i++ {
		r := c.Invoke([]neotest.Signer{c.Alpha}, ct.Hash, "put", containerBlob(fixedOwner, i), make([]byte, 64), nodePub(0), []byte{1}, i < 2)
		if !r.Halt {
			t.Fatalf("set-up: container put failed: %s", r.Fault)
		}
	}
	_, w.prevFam, w.baseOther = w.scan()
	return w
}

// gasCheck: GAS is outside the model; an invocation that runs out of the fixed system fee is a generator
// problem (or a contract that loops), never an observation to compare.
func outOfGas(res chainx.Result) bool {
	return !res.Halt && (strings.Contains(res.Fault, "insufficient amount of gas") || strings.Contains(res.Fault, "gas limit is exceeded"))
}

func (w *world) gasCheck(res chainx.Result) {
	if outOfGas(res) {
		w.run.T.Fatalf("invocation ran out of GAS even with the raised system fee: %s", res.Fault)
	}
}

// invokeSized is Invoke with a system fee that fits the work: the contract verifies every signature against the committed
// roster of its vector until it finds the signer, so a matrix over rosters of several hundred keys costs more than the 50 GAS the
// harness's transactions carry by default. Running out of the fee the HARNESS chose is not an observation of the contract, so
// such operations are sent with 2000 GAS from the start (estimate: signatures x roster length per vector).
func (w *world) invokeSized(signers []neotest.Signer, method string, cid []byte, m matrix, args ...any) chainx.Result {
	est := 0
	if cid != nil && !m.null {
		for i, row := range m.rows {
			est += len(row) * (len(w.comm[hx.Hex(cid)][i]) + 1)
		}
	}
	if est > 250 {
		w.run.Count("gas.rich")
		tx := w.c.NNSNewTxFee(2000_0000_0000, signers, w.ct, method, args...)
		return w.c.Exec(tx)[0]
	}
	res := w.c.Invoke(signers, w.ct, method, args...)
	if outOfGas(res) && method == "verifyPlacementSignatures" {
		// the estimate was too low; the call carries no block height, so it can simply be repeated (a FAULT changes no state)
		w.run.Count("gas.retried")
		res = w.c.Exec(w.c.NNSNewTxFee(2000_0000_0000, signers, w.ct, method, args...))[0]
	}
	return res
}

func isConfigKey(k []byte) bool {
	s := string(k)
	return s == "netmapScriptHash" || s == "nnsScriptHash" || s == "nnsRoot" || strings.HasPrefix(s, "nnsHasAlias")
}

func bytesToInt(b []byte) *big.Int {
	z, err := stackitem.NewByteArray(b).TryInteger()
	if err != nil {
		panic(err)
	}
	return z
}

// scan decodes the roster families from raw storage: observation text, digest of the roster families,
// digest of everything else.
func (w *world) scan() (string, string, string) {
	var u, n, r, m []string
	other := sha256.New()
	for _, kv := range w.c.Scan(w.ct) {
		item := func(val string) string { return hx.Hex(kv.K[1:]) + "=" + val }
		switch {
		case kv.K[0] == 'u':
			u = append(u, item(hx.Hex(kv.V)))
		case kv.K[0] == 'n' && !isConfigKey(kv.K):
			n = append(n, item(hx.Hex(kv.V)))
		case kv.K[0] == 'r':
			r = append(r, item(bytesToInt(kv.V).String()))
		case kv.K[0] == 'm':
			m = append(m, item(hx.Hex(kv.V)))
		default:
			fmt.Fprintf(other, "%x=%x;", kv.K, kv.V)
		}
	}
	fams := fmt.Sprintf("u=[%s] n=[%s] r=[%s] m=[%s]", strings.Join(u, ";"), strings.Join(n, ";"), strings.Join(r, ";"), strings.Join(m, ";"))
	return fams, fams, hex.EncodeToString(other.Sum(nil))
}

func (w *world) signers(sig string) []neotest.Signer {
	var out []neotest.Signer
	if sig == "-" {
		return nil
	}
	for _, s := range strings.Split(sig, ",") {
		switch s {
		case "alpha":
			out = append(out, w.c.Alpha)
		case "cmt":
			out = append(out, w.c.Cmt)
		case "m0":
			out = append(out, w.c.Members[0])
		case "u0":
			out = append(out, w.user)
		default:
			w.run.T.Fatalf("unknown signer %q", s)
		}
	}
	return out
}

func bytesArg(s string) []byte {
	b := hx.UnHex(s)
	if b == nil {
		return []byte{}
	}
	return b
}

func hexList(s string) [][]byte {
	if s == "-" {
		return [][]byte{}
	}
	var out [][]byte
	for _, x := range strings.Split(s, ",") {
		out = append(out, bytesArg(x))
	}
	return out
}

func anyList(bs [][]byte) []any {
	out := make([]any, len(bs))
	for i := range bs {
		out[i] = bs[i]
	}
	return out
}

func field(ws []string, k string) (string, bool) {
	for _, w := range ws {
		if strings.HasPrefix(w, k+"=") {
			return w[len(k)+1:], true
		}
	}
	return "", false
}

// matrix: nil = Null; rows[i] == nil && !isRow[i] = Null row
type matrix struct {
	null bool
	rows [][]string
	nul  []bool
}

func parseMatrix(s string) matrix {
	if s == "null" {
		return matrix{null: true}
	}
	if s == "empty" {
		return matrix{}
	}
	var m matrix
	for _, r := range strings.Split(s, "/") {
		switch r {
		case "null":
			m.rows, m.nul = append(m.rows, nil), append(m.nul, true)
		case "-":
			m.rows, m.nul = append(m.rows, nil), append(m.nul, false)
		default:
			m.rows, m.nul = append(m.rows, strings.Split(r, ",")), append(m.nul, false)
		}
	}
	return m
}

// resolve turns the tokens into signature bytes for msg.
func (m matrix) resolve(msg []byte) (any, [][][]byte) {
	if m.null {
		return nil, nil
	}
	arg := make([]any, len(m.rows))
	raw := make([][][]byte, len(m.rows))
	for i, row := range m.rows {
		if m.nul[i] {
			arg[i] = nil
			continue
		}
		l := make([]any, len(row))
		for j, tok := range row {
			b := sigBytes(tok, msg)
			l[j] = b
			raw[i] = append(raw[i], b)
		}
		arg[i] = l
	}
	return arg, raw
}

// selfCheck: the tokens' claims (the model's oracle) must be what a real verification says.
func (w *world) selfCheck(m matrix, raw [][][]byte, msg []byte, cid []byte) {
	if m.null {
		return
	}
	for i, row := range m.rows {
		members := w.comm[hx.Hex(cid)][i]
		for j, tok := range row {
			var probe [][]byte
			if _, arg, ok := strings.Cut(tok, "."); ok && len(arg) == 66 {
				probe = append(probe, hx.UnHex(arg))
			}
			for k := 0; k < len(members) && k < 6; k++ {
				probe = append(probe, members[(k*37+j)%len(members)])
			}
			for _, pub := range probe {
				if realVerify(pub, raw[i][j], msg) != tokClaims(tok, pub) {
					w.run.T.Fatalf("harness: token %s does not behave as it claims for key %x", tok, pub)
				}
			}
		}
	}
}

type metaSpec struct {
	kind                      string
	cid, oid, net, size, vubd string
	del, lock                 string
}

func (w *world) buildMeta(ms metaSpec, height uint32) []byte {
	switch ms.kind {
	case "junk":
		return []byte{0xff, 0x01, 0x02}
	case "notmap":
		b, _ := stackitem.Serialize(stackitem.Make(int64(7)))
		return b
	}
	var el []stackitem.MapElement
	add := func(k string, v stackitem.Item) {
		el = append(el, stackitem.MapElement{Key: stackitem.Make(k), Value: v})
	}
	list := func(s string) stackitem.Item {
		var it []stackitem.Item
		for _, b := range hexList(s) {
			it = append(it, stackitem.NewByteArray(b))
		}
		return stackitem.NewArray(it)
	}
	if ms.net != "absent" {
		add("network", stackitem.NewBigInteger(hx.Big(ms.net)))
	}
	if ms.cid != "absent" {
		add("cid", stackitem.NewByteArray(bytesArg(ms.cid)))
	}
	if ms.oid != "absent" {
		add("oid", stackitem.NewByteArray(bytesArg(ms.oid)))
	}
	if ms.size != "absent" {
		add("size", stackitem.NewBigInteger(hx.Big(ms.size)))
	}
	if ms.del != "absent" {
		add("deleted", list(ms.del))
	}
	if ms.lock != "absent" {
		add("locked", list(ms.lock))
	}
	if ms.vubd != "absent" {
		v := new(big.Int).Add(big.NewInt(int64(height)), hx.Big(ms.vubd))
		add("validuntil", stackitem.NewBigInteger(v))
	}
	b, err := stackitem.Serialize(stackitem.NewMapWithValue(el))
	if err != nil {
		w.run.T.Fatal(err)
	}
	return b
}

func itemsToBytes(items []stackitem.Item) [][]byte {
	out := make([][]byte, len(items))
	for i, it := range items {
		b, err := it.TryBytes()
		if err != nil {
			panic(err)
		}
		out[i] = b
	}
	return out
}

func (w *world) apiNodes(cid []byte, v int) ([][]byte, error) {
	it, err := w.c.CallIter(w.ct, "nodes", cid, v)
	if err != nil {
		return nil, err
	}
	return itemsToBytes(it), nil
}

func (w *world) apiReps(cid []byte) ([]*big.Int, error) {
	it, err := w.c.CallIter(w.ct, "replicasNumbers", cid)
	if err != nil {
		return nil, err
	}
	out := make([]*big.Int, len(it))
	for i := range it {
		out[i], err = it[i].TryInteger()
		if err != nil {
			return nil, err
		}
	}
	return out, nil
}

func hexJoin(bs [][]byte) string {
	s := make([]string, len(bs))
	for i := range bs {
		s[i] = hx.Hex(bs[i])
	}
	return strings.Join(s, ",")
}

// execOp executes one "op ..." line and returns the observation line.
func (w *world) execOp(line string) string {
	ws := strings.Fields(line)
	if len(ws) < 3 || ws[0] != "op" {
		w.run.T.Fatalf("bad op line %q", line)
	}
	sig, method, args := ws[1], ws[2], ws[3:]
	signers := w.signers(sig)
	w.run.Count("op." + method)
	w.nops++
	var (
		halt   bool
		ret    = "null"
		evs    []string
		cidArg []byte
		// for the soundness monitor
		accepted bool
		msg      []byte
		sigRaw   [][][]byte
		mtx      matrix
	)
	events := func(res chainx.Result) {
		for _, e := range res.Events {
			if e.ScriptHash != w.ct {
				continue
			}
			it := e.Item.Value().([]stackitem.Item)
			switch e.Name {
			case "NodesUpdate":
				b, _ := it[0].TryBytes()
				evs = append(evs, fmt.Sprintf("NodesUpdate(%s)", hx.Hex(b)))
			case "ObjectPut":
				b, _ := it[0].TryBytes()
				o, _ := it[1].TryBytes()
				evs = append(evs, fmt.Sprintf("ObjectPut(%s,%s)", hx.Hex(b), hx.Hex(o)))
			default:
				evs = append(evs, "?"+e.Name)
			}
		}
	}
	switch method {
	case "add":
		cidArg = bytesArg(args[0])
		var keysArg any
		if args[2] != "null" {
			keysArg = anyList(hexList(args[2]))
		}
		res := w.c.Invoke(signers, w.ct, "addNextEpochNodes", cidArg, hx.Big(args[1]), keysArg)
		halt = res.Halt
		w.gasCheck(res)
		events(res)
		if halt {
			v := int(hx.Big(args[1]).Int64())
			c := hx.Hex(cidArg)
			if w.pend[c] == nil {
				w.pend[c] = map[int][][]byte{}
			}
			w.pend[c][v] = append(w.pend[c][v], hexList(args[2])...)
		}
	case "commit":
		cidArg = bytesArg(args[0])
		var repsArg any
		var repVals []*big.Int
		switch {
		case args[1] == "null":
		case strings.HasPrefix(args[1], "b:"):
			b := bytesArg(args[1][2:])
			repsArg = b
			for _, x := range b {
				repVals = append(repVals, big.NewInt(int64(x)))
			}
		case strings.HasPrefix(args[1], "a:"):
			l := []any{}
			if args[1][2:] != "-" {
				for _, x := range strings.Split(args[1][2:], ",") {
					l = append(l, hx.Big(x))
					repVals = append(repVals, hx.Big(x))
				}
			}
			repsArg = l
		default:
			w.run.T.Fatalf("bad replicas %q", args[1])
		}
		res := w.c.Invoke(signers, w.ct, "commitContainerListUpdate", cidArg, repsArg)
		halt = res.Halt
		w.gasCheck(res)
		events(res)
		if halt {
			c := hx.Hex(cidArg)
			w.comm[c] = w.pend[c]
			if w.comm[c] == nil {
				w.comm[c] = map[int][][]byte{}
			}
			delete(w.pend, c)
			w.reps[c] = repVals
		}
	case "nodes":
		cidArg = bytesArg(args[0])
		it, err := w.c.CallIter(w.ct, "nodes", cidArg, hx.Big(args[1]))
		halt = err == nil
		if halt {
			ret = "[" + hexJoin(itemsToBytes(it)) + "]"
		}
	case "reps":
		cidArg = bytesArg(args[0])
		rs, err := w.apiReps(cidArg)
		halt = err == nil
		if halt {
			s := make([]string, len(rs))
			for i := range rs {
				s[i] = rs[i].String()
			}
			ret = "[" + strings.Join(s, ",") + "]"
		}
	case "verify":
		cidArg = bytesArg(args[0])
		msg = bytesArg(args[1])
		sg, _ := field(args, "sigs")
		mtx = parseMatrix(sg)
		var arg any
		arg, sigRaw = mtx.resolve(msg)
		w.selfCheck(mtx, sigRaw, msg, cidArg)
		res := w.invokeSized(signers, "verifyPlacementSignatures", cidArg, mtx, cidArg, msg, arg)
		halt = res.Halt
		w.lastFault = res.Fault
		w.gasCheck(res)
		if halt {
			b, err := res.Stack[0].TryBool()
			if err != nil {
				ret = "?"
			} else if b {
				ret, accepted = "true", true
			} else {
				ret = "false"
			}
		}
	case "submit":
		var ms metaSpec
		get := func(k string) string {
			v, ok := field(args, k)
			if !ok {
				if k == "kind" {
					w.run.T.Fatalf("submit line without kind: %q", line)
				}
				return "absent"
			}
			return v
		}
		ms = metaSpec{kind: get("kind"), cid: get("cid"), oid: get("oid"), net: get("net"), size: get("size"),
			vubd: get("vubd"), del: get("del"), lock: get("lock")}
		msg = w.buildMeta(ms, w.c.BC.BlockHeight())
		if ms.kind == "map" && ms.cid != "absent" {
			cidArg = bytesArg(ms.cid)
		}
		sg, _ := field(args, "sigs")
		mtx = parseMatrix(sg)
		var arg any
		arg, sigRaw = mtx.resolve(msg)
		if cidArg != nil {
			w.selfCheck(mtx, sigRaw, msg, cidArg)
		}
		res := w.invokeSized(signers, "submitObjectPut", cidArg, mtx, msg, arg)
		halt = res.Halt
		w.lastFault = res.Fault
		w.gasCheck(res)
		events(res)
		accepted = halt
	default:
		w.run.T.Fatalf("bad method %q", method)
	}
	if cidArg != nil {
		w.cids[hx.Hex(cidArg)] = true
	}
	var sb strings.Builder
	if halt {
		fmt.Fprintf(&sb, "HALT ret=%s ev=[%s]", ret, strings.Join(evs, ";"))
		w.run.Count("out.halt." + method)
		if method == "verify" {
			w.run.Count("out.verify." + ret)
		}
	} else {
		sb.WriteString("FAULT")
		w.run.Count("out.fault." + method)
	}
	obs, fam, other := w.scan()
	o := "same"
	if other != w.baseOther {
		o = "changed"
	}
	fmt.Fprintf(&sb, " | %s other=%s", obs, o)
	// the monitor runs after the op line has been recorded, so that a violation's op list ends with this op
	prevFam := w.prevFam
	w.pendingMon = func() {
		if w.wf {
			w.monitor(line, method, halt, cidArg, fam, prevFam, accepted, msg, mtx, sigRaw)
		}
	}
	w.prevFam = fam
	return sb.String()
}

// do executes one op line, records it and then lets the monitor look at it.
func (w *world) do(line string) string {
	obs := w.execOp(line)
	w.run.Op(line, obs)
	w.pendingMon()
	return obs
}

// monitor: executable reading of the C14 statement on the implementation's own observations.
func (w *world) monitor(line, method string, halt bool, cid []byte, fam, prevFam string, accepted bool, msg []byte, mtx matrix, sigRaw [][][]byte) {
	v := func(what, detail string) {
		site := "container." + method
		switch what { // the read API whose answer contradicts the statement
		case "roster-mismatch":
			site = "container.nodes"
		case "replicas-mismatch":
			site = "container.replicasNumbers"
		}
		w.run.Violation("C14", site, what, detail+" after "+line)
	}
	mutating := method == "add" || method == "commit"
	// a failed or read-only invocation leaves the roster families alone
	if (!halt || !mutating) && fam != prevFam {
		v("inert-call-changed-roster", "the stored roster changed although the call failed or is read-only")
	}
	// a commit empties the pending roster of its container (raw storage)
	if halt && method == "commit" {
		for _, kv := range w.c.Scan(w.ct) {
			if kv.K[0] == 'u' && bytes.HasPrefix(kv.K[1:], cid) {
				v("pending-not-emptied", fmt.Sprintf("pending roster key %x survives the commit", kv.K))
				break
			}
		}
	}
	// nodes(cid,i) / replicasNumbers(cid) return exactly, in submission order, what the last commit fixed
	check := func(c string) {
		cb := hx.UnHex(c)
		if len(cb) != 32 {
			return
		}
		maxV := -1
		for i := range w.comm[c] {
			if i > maxV {
				maxV = i
			}
		}
		for i := range w.pend[c] {
			if i > maxV {
				maxV = i
			}
		}
		for i := 0; i <= maxV+1 && i < 255; i++ {
			got, err := w.apiNodes(cb, i)
			want := w.comm[c][i]
			if err != nil {
				v("roster-read-failed", fmt.Sprintf("nodes(%s,%d): %v", c, i, err))
				continue
			}
			if len(got) != len(want) {
				v("roster-mismatch", fmt.Sprintf("nodes(%s,%d) returns %d keys, the last commit fixed %d", c, i, len(got), len(want)))
				continue
			}
			for j := range got {
				if !bytes.Equal(got[j], want[j]) {
					v("roster-mismatch", fmt.Sprintf("nodes(%s,%d)[%d] = %x, submitted %x (submission order)", c, i, j, got[j], want[j]))
					break
				}
			}
		}
		got, err := w.apiReps(cb)
		want := w.reps[c]
		if err != nil {
			v("roster-read-failed", fmt.Sprintf("replicasNumbers(%s): %v", c, err))
			return
		}
		if len(got) != len(want) {
			v("replicas-mismatch", fmt.Sprintf("replicasNumbers(%s) returns %d numbers, the last commit fixed %d", c, len(got), len(want)))
			return
		}
		for j := range got {
			if got[j].Cmp(want[j]) != 0 {
				v("replicas-mismatch", fmt.Sprintf("replicasNumbers(%s)[%d] = %s, committed %s", c, j, got[j], want[j]))
				break
			}
		}
	}
	if cid != nil {
		check(hx.Hex(cid))
	}
	if w.nops%8 == 0 {
		for _, c := range hx.SortedKeys(w.cids) {
			check(c)
		}
	}
	// soundness: an accepted matrix has, for every placement vector, REP distinct members with a valid signature
	if accepted && len(cid) == 32 {
		reps, err := w.apiReps(cid)
		if err != nil {
			v("roster-read-failed", err.Error())
			return
		}
		for i, m := range reps {
			if mtx.null || i >= len(mtx.rows) {
				v("missing-vector-accepted", fmt.Sprintf("accepted although no signatures were supplied for placement vector %d of %d", i, len(reps)))
				continue
			}
			members, err := w.apiNodes(cid, i)
			if err != nil {
				v("roster-read-failed", err.Error())
				continue
			}
			distinct := map[string]bool{}
			for _, pub := range members {
				if distinct[string(pub)] {
					continue
				}
				for _, sg := range sigRaw[i] {
					if realVerify(pub, sg, msg) {
						distinct[string(pub)] = true
						break
					}
				}
			}
			if big.NewInt(int64(len(distinct))).Cmp(m) < 0 {
				v("insufficient-signers-accepted", fmt.Sprintf("accepted with %d distinct members of vector %d holding a valid signature among %d supplied, REP is %s",
					len(distinct), i, len(sigRaw[i]), m))
			}
		}
	}
}

// ---- generator -------------------------------------------------------------------------------

type gen struct {
	w       *world
	rng     *rand.Rand
	cids    [][]byte
	nextKey int // next unused key of the universe
	profile string
	msgN    int
}

func (g *gen) fresh(n int) [][]byte {
	var out [][]byte
	for i := 0; i < n; i++ {
		out = append(out, nodePub(g.nextKey%maxUniverse))
		g.nextKey++
	}
	return out
}

func (g *gen) sig() string {
	switch g.rng.IntN(20) {
	case 0:
		return "-"
	case 1:
		return "cmt"
	case 2:
		return "m0"
	case 3:
		return "u0"
	case 4:
		return "alpha,u0"
	}
	return "alpha"
}

func (g *gen) anySig() string {
	return hx.Pick(g.rng, []string{"-", "-", "-", "u0", "alpha", "m0"})
}

func (g *gen) cid() []byte { return hx.Pick(g.rng, g.cids) }

// committedCid prefers a container that has a committed roster with REP numbers (9 of 10 times).
func (g *gen) committedCid(pool [][]byte) []byte {
	var have [][]byte
	for _, c := range pool {
		if len(g.w.reps[hx.Hex(c)]) > 0 {
			have = append(have, c)
		}
	}
	if len(have) == 0 || g.rng.IntN(10) == 0 {
		return hx.Pick(g.rng, pool)
	}
	return hx.Pick(g.rng, have)
}

func (g *gen) badCid() string {
	c := g.cid()
	switch g.rng.IntN(4) {
	case 0:
		return "-"
	case 1:
		return hx.Hex(c[:31])
	case 2:
		return hx.Hex(append(append([]byte{}, c...), 0))
	}
	return hx.Hex(c[:1])
}

// numVectors: how many vectors the pending roster of c has (contiguous from 0)
func (g *gen) pendVectors(c []byte) int {
	n := 0
	for {
		if len(g.w.pend[hx.Hex(c)][n]) == 0 {
			return n
		}
		n++
	}
}

func (g *gen) batch() [][]byte {
	n := 1 + g.rng.IntN(4)
	switch g.rng.IntN(12) {
	case 0:
		n = 0
	case 1:
		n = 7 + g.rng.IntN(6)
	}
	ks := g.fresh(n)
	if len(ks) > 0 {
		switch g.rng.IntN(16) {
		case 0: // a member listed twice
			ks = append(ks, ks[0])
		case 1: // a 33-byte string that is no curve point
			ks[g.rng.IntN(len(ks))] = hx.Pick(g.rng, badKeys())
		}
	}
	return ks
}

func (g *gen) opAdd() string {
	c := g.cid()
	nv := g.pendVectors(c)
	vec := 0
	if nv > 0 {
		vec = g.rng.IntN(nv + 1)
		if vec > 3 && g.rng.IntN(3) != 0 {
			vec = g.rng.IntN(4)
		}
	}
	ks := g.batch()
	// a node submitted again: the same key a second time in this vector, or a key of another vector of the container
	if pend := g.w.pend[hx.Hex(c)]; len(pend) > 0 && g.rng.IntN(6) == 0 {
		from := vec
		if nv > 0 && g.rng.IntN(3) == 0 {
			from = g.rng.IntN(nv)
		}
		if old := pend[from]; len(old) > 0 {
			ks = append(ks, old[g.rng.IntN(len(old))])
			g.rng.Shuffle(len(ks), func(a, b int) { ks[a], ks[b] = ks[b], ks[a] })
		}
	}
	return fmt.Sprintf("op %s add %s %d %s", g.sig(), hx.Hex(c), vec, listOrDash(ks))
}

func listOrDash(ks [][]byte) string {
	if len(ks) == 0 {
		return "-"
	}
	return hexJoin(ks)
}

func (g *gen) opAddMalformed() string {
	c := g.cid()
	nv := g.pendVectors(c)
	ks := g.fresh(1 + g.rng.IntN(3))
	switch g.rng.IntN(9) {
	case 0:
		return fmt.Sprintf("op alpha add %s 0 %s", g.badCid(), hexJoin(ks))
	case 1: // gap in the vector numbering
		return fmt.Sprintf("op alpha add %s %d %s", hx.Hex(c), nv+1+g.rng.IntN(2), hexJoin(ks))
	case 2:
		return fmt.Sprintf("op alpha add %s %s %s", hx.Hex(c), hx.Pick(g.rng, []string{"254", "255", "256", "-1", "-2", "-128", "-129", "65536"}), hexJoin(ks))
	case 3:
		return fmt.Sprintf("op alpha add %s %d null", hx.Hex(c), g.rng.IntN(nv+1))
	case 4, 5: // a key of the wrong length at some position of the batch: the whole batch is refused
		bad := hx.Pick(g.rng, [][]byte{ks[0][:32], append(append([]byte{}, ks[0]...), 1), {}, {2}})
		pos := g.rng.IntN(len(ks) + 1)
		all := append(append(append([][]byte{}, ks[:pos]...), bad), ks[pos:]...)
		return fmt.Sprintf("op alpha add %s %d %s", hx.Hex(c), g.rng.IntN(nv+1), hexJoin(all))
	case 6, 7:
		return fmt.Sprintf("op %s add %s %d %s", hx.Pick(g.rng, []string{"-", "cmt", "m0", "u0", "cmt,u0"}), hx.Hex(c), g.rng.IntN(nv+1), hexJoin(ks))
	}
	return fmt.Sprintf("op - add %s %d %s", g.badCid(), nv+3, hexJoin(ks))
}

func (g *gen) repsFor(nv int) string {
	if nv == 0 && g.rng.IntN(3) != 0 {
		return hx.Pick(g.rng, []string{"null", "null", "b:-", "a:-"})
	}
	n := nv
	switch g.rng.IntN(10) {
	case 0:
		n = nv + 1
	case 1:
		if nv > 1 {
			n = nv - 1
		}
	}
	vals := make([]int, n)
	for i := range vals {
		vals[i] = 1 + g.rng.IntN(4)
		switch g.rng.IntN(24) {
		case 0:
			vals[i] = 0
		case 1:
			vals[i] = 5
		case 2:
			vals[i] = hx.Pick(g.rng, []int{127, 128, 255})
		}
	}
	if n == 0 {
		return hx.Pick(g.rng, []string{"null", "b:-", "a:-"})
	}
	if g.rng.IntN(2) == 0 {
		b := make([]byte, n)
		for i := range vals {
			b[i] = byte(vals[i])
		}
		return "b:" + hex.EncodeToString(b)
	}
	s := make([]string, n)
	for i := range vals {
		s[i] = fmt.Sprint(vals[i])
	}
	return "a:" + strings.Join(s, ",")
}

func (g *gen) opCommit() string {
	c := g.cid()
	return fmt.Sprintf("op %s commit %s %s", g.sig(), hx.Hex(c), g.repsFor(g.pendVectors(c)))
}

func (g *gen) opCommitMalformed() string {
	c := g.cid()
	switch g.rng.IntN(7) {
	case 0:
		return fmt.Sprintf("op alpha commit %s b:01", g.badCid())
	case 1:
		return fmt.Sprintf("op alpha commit %s a:1,256", hx.Hex(c))
	case 2:
		return fmt.Sprintf("op alpha commit %s a:%s", hx.Hex(c), hx.Pick(g.rng, []string{"-1", "2,-3", "300", "1,2,3,4,1000"}))
	case 3: // 257 numbers: the index no longer fits a byte
		return fmt.Sprintf("op alpha commit %s b:%s", hx.Hex(c), strings.Repeat("01", 257))
	case 4:
		return fmt.Sprintf("op alpha commit %s b:%s", hx.Hex(c), strings.Repeat("02", 256))
	}
	return fmt.Sprintf("op %s commit %s %s", hx.Pick(g.rng, []string{"-", "cmt", "m0", "u0"}), hx.Hex(c), g.repsFor(g.pendVectors(c)))
}

func (g *gen) opRead() string {
	c := g.cid()
	cs := hx.Hex(c)
	if g.rng.IntN(12) == 0 {
		cs = g.badCid()
	}
	if g.rng.IntN(3) == 0 {
		return fmt.Sprintf("op %s reps %s", g.anySig(), cs)
	}
	nv := len(g.w.comm[hx.Hex(c)])
	vec := fmt.Sprint(g.rng.IntN(nv + 2))
	if g.rng.IntN(8) == 0 {
		vec = hx.Pick(g.rng, []string{"-1", "-128", "-129", "254", "255", "256", "1000"})
	}
	return fmt.Sprintf("op %s nodes %s %s", g.anySig(), cs, vec)
}

// pickMembers: up to n distinct positions of the vector, preferring the ends and the counter boundaries
func (g *gen) pickMembers(members [][]byte, n int) [][]byte {
	var idx []int
	seen := map[int]bool{}
	add := func(i int) {
		if i >= 0 && i < len(members) && !seen[i] && len(idx) < n {
			seen[i] = true
			idx = append(idx, i)
		}
	}
	if len(members) > 20 {
		for _, i := range []int{len(members) - 1, 0, 126, 127, 128, 254, 255, 256} {
			if g.rng.IntN(2) == 0 {
				add(i)
			}
		}
	}
	for tries := 0; len(idx) < n && tries < 8*n+8; tries++ {
		add(g.rng.IntN(max(len(members), 1)))
	}
	g.rng.Shuffle(len(idx), func(a, b int) { idx[a], idx[b] = idx[b], idx[a] })
	var out [][]byte
	seenKey := map[string]bool{}
	for _, i := range idx {
		if !seenKey[string(members[i])] { // a member listed twice is one member
			seenKey[string(members[i])] = true
			out = append(out, members[i])
		}
	}
	return out
}

// retok: the token of the same signer with another kind.
func retok(kind, t string) string {
	_, arg, _ := strings.Cut(t, ".")
	return kind + "." + arg
}

func tok(kind string, pub []byte) string { return kind + "." + hex.EncodeToString(pub) }

func (g *gen) junk() string {
	switch g.rng.IntN(6) {
	case 0:
		return "em.x"
	case 1:
		return "z.x"
	case 2:
		return tok("ok", nodePub(maxUniverse+g.rng.IntN(4))) // a key that is never a member
	default:
		return fmt.Sprintf("rnd.%d", g.rng.IntN(1000))
	}
}

// sigMatrix builds a signature matrix for the committed roster of c, with one of the defect kinds.
func (g *gen) sigMatrix(c []byte) (string, string) {
	cs := hx.Hex(c)
	reps := g.w.reps[cs]
	comm := g.w.comm[cs]
	defect := hx.Pick(g.rng, []string{"honest", "honest", "honest", "honest-junk", "short", "dup", "maldup", "nonmember", "wrongmsg",
		"missing-vector", "extra-vector", "null-row", "null-matrix", "empty-matrix", "badlen", "surplus", "all-junk", "other-vector",
		"dupkey", "dupkey"})
	if len(reps) == 0 && g.rng.IntN(2) == 0 {
		return hx.Pick(g.rng, []string{"null", "empty", "-", "rnd.1"}), "vacuous"
	}
	switch defect {
	case "null-matrix":
		return "null", defect
	case "empty-matrix":
		return "empty", defect
	}
	big := false
	for _, m := range comm {
		if len(m) > 60 {
			big = true
		}
	}
	target := g.rng.IntN(max(len(reps), 1))
	budget := 1400
	var rows []string
	for i, m := range reps {
		members := comm[i]
		need := 0
		if m.IsInt64() && m.Int64() > 0 {
			need = int(min(m.Int64(), 12))
		}
		chosen := g.pickMembers(members, need)
		var toks []string
		for _, p := range chosen {
			if privOf(hex.EncodeToString(p)) == nil { // a roster entry that is no curve point: nobody can sign for it
				toks = append(toks, g.junk())
				continue
			}
			toks = append(toks, tok("ok", p))
		}
		if i == target || g.rng.IntN(6) == 0 {
			switch defect {
			case "honest-junk":
				if !big {
					toks = append([]string{g.junk(), g.junk()}, toks...)
				} else {
					toks = append([]string{g.junk()}, toks...)
				}
				g.rng.Shuffle(len(toks), func(a, b int) { toks[a], toks[b] = toks[b], toks[a] })
			case "short":
				if len(toks) > 0 {
					toks = toks[:len(toks)-1]
				}
			case "dup": // one member's signature as often as REP asks
				if len(toks) > 0 {
					for j := range toks {
						toks[j] = toks[0]
					}
				}
			case "dupkey": // a key listed at two positions of the vector is still one member
				if k := repeatedKey(members); k != nil {
					toks = g.repeatedKeyRow(members, k, need)
				} else if len(toks) > 0 && strings.HasPrefix(toks[0], "ok.") { // no repeated key here: one member's signatures in the three forms
					first := toks[0]
					for j := range toks {
						toks[j] = retok(hx.Pick(g.rng, []string{"ok", "ok2", "mal"}), first)
					}
				}
			case "maldup": // one member's signature and its (r, n-s) twin
				if len(toks) > 1 && strings.HasPrefix(toks[0], "ok.") {
					toks[1] = retok("mal", toks[0])
				} else if len(toks) == 1 && g.rng.IntN(2) == 0 && strings.HasPrefix(toks[0], "ok.") {
					toks[0] = retok("mal", toks[0])
				}
			case "nonmember":
				if len(toks) > 0 {
					toks[g.rng.IntN(len(toks))] = tok("ok", nodePub(maxUniverse+g.rng.IntN(4)))
				}
			case "other-vector": // a member of another vector signs
				if len(toks) > 0 && len(reps) > 1 {
					o := comm[(i+1)%len(reps)]
					if len(o) > 0 {
						if p := o[g.rng.IntN(len(o))]; privOf(hex.EncodeToString(p)) != nil {
							toks[g.rng.IntN(len(toks))] = tok("ok", p)
						}
					}
				}
			case "wrongmsg":
				if len(toks) > 0 {
					if j := g.rng.IntN(len(toks)); strings.HasPrefix(toks[j], "ok.") {
						toks[j] = retok("wm", toks[j])
					}
				}
			case "badlen":
				if len(toks) > 0 {
					if j := g.rng.IntN(len(toks)); strings.HasPrefix(toks[j], "ok.") {
						toks[j] = retok(hx.Pick(g.rng, []string{"sh", "lg"}), toks[j])
					}
				}
			case "surplus":
				for _, p := range g.pickMembers(members, need+2) {
					if privOf(hex.EncodeToString(p)) == nil {
						continue
					}
					t := tok("ok", p)
					if !contains(toks, t) {
						toks = append(toks, t)
					}
				}
				if g.rng.IntN(2) == 0 && len(toks) > 0 && strings.HasPrefix(toks[0], "ok.") { // the missing one arrives last, after repeats
					toks = append([]string{toks[0], retok("mal", toks[0])}, toks...)
				}
			case "all-junk":
				for j := range toks {
					toks[j] = g.junk()
				}
			case "null-row":
				rows = append(rows, "null")
				continue
			}
		}
		// GAS is not modelled: keep the number of roster entries the contract has to walk through within what
		// the fixed system fee (50 GAS) pays for (Iterator.Next and VerifyWithECDsa cost about 0.01 GAS each)
		for len(toks) > 0 && budget-scanCost(toks, members) < 0 {
			toks = toks[:len(toks)-1]
		}
		budget -= scanCost(toks, members)
		if len(toks) == 0 {
			rows = append(rows, "-")
		} else {
			rows = append(rows, strings.Join(toks, ","))
		}
	}
	switch defect {
	case "missing-vector":
		if len(rows) > 0 {
			rows = rows[:len(rows)-1]
		}
	case "extra-vector":
		rows = append(rows, hx.Pick(g.rng, []string{"-", "null", "rnd.5"}))
	}
	if len(rows) == 0 {
		return "empty", defect
	}
	return strings.Join(rows, "/"), defect
}

// repeatedKey: a key (one we can sign for) that the vector lists at two or more positions.
func repeatedKey(members [][]byte) []byte {
	seen := map[string]bool{}
	for _, m := range members {
		if seen[string(m)] && privOf(hex.EncodeToString(m)) != nil {
			return m
		}
		seen[string(m)] = true
	}
	return nil
}

// repeatedKeyRow: `need` signatures for a vector that lists key k twice. Three of four rows hold two signatures of k
// (the same twice, a signature and its (r, n-s) twin, two signatures with different nonces) plus need-2 other members:
// need signatures, need-1 distinct members. The fourth is the legal one: k once plus need-1 other members.
func (g *gen) repeatedKeyRow(members [][]byte, k []byte, need int) []string {
	var others []string
	seen := map[string]bool{string(k): true}
	for _, m := range members {
		if !seen[string(m)] && privOf(hex.EncodeToString(m)) != nil {
			seen[string(m)] = true
			others = append(others, tok("ok", m))
		}
	}
	g.rng.Shuffle(len(others), func(a, b int) { others[a], others[b] = others[b], others[a] })
	second := hx.Pick(g.rng, []string{"ok", "mal", "ok2", ""})
	toks := []string{tok(hx.Pick(g.rng, []string{"ok", "ok", "ok2", "mal"}), k)}
	n := need - 2
	if second == "" {
		n = need - 1
	} else {
		toks = append(toks, tok(second, k))
	}
	for i := 0; i < n && i < len(others); i++ {
		toks = append(toks, others[i])
	}
	g.rng.Shuffle(len(toks), func(a, b int) { toks[a], toks[b] = toks[b], toks[a] })
	return toks
}

// scanCost: how many roster entries the contract walks through for this row (upper estimate).
func scanCost(toks []string, members [][]byte) int {
	counted := map[string]bool{}
	cost := 0
	for _, t := range toks {
		kind, arg, _ := strings.Cut(t, ".")
		pos := -1
		if verifying(kind) && !counted[arg] {
			for i, m := range members {
				if hex.EncodeToString(m) == arg {
					pos = i
					break
				}
			}
		}
		if pos >= 0 {
			counted[arg] = true
			cost += pos + 1
		} else {
			cost += len(members)
		}
	}
	return cost
}

func contains(xs []string, x string) bool {
	for _, y := range xs {
		if x == y {
			return true
		}
	}
	return false
}

func (g *gen) badAttr() string { return "bad=" + hexJoin(badKeys()) }

func (g *gen) opVerify() string {
	c := g.committedCid(g.cids)
	cs := hx.Hex(c)
	if g.rng.IntN(25) == 0 {
		cs = g.badCid()
	}
	g.msgN++
	msg := sha256.Sum256([]byte(fmt.Sprintf("msg-%d-%d", g.w.run.Seed, g.msgN)))
	m, d := g.sigMatrix(c)
	g.w.run.Count("verify.kind." + d)
	return fmt.Sprintf("op %s verify %s %s %s sigs=%s", g.anySig(), cs, hx.Hex(msg[:8+g.rng.IntN(3)]), g.badAttr(), m)
}

func (g *gen) opSubmit() string {
	w := g.w
	c := g.committedCid(w.meta)
	if g.rng.IntN(8) == 0 {
		c = g.cid()
	}
	g.msgN++
	oid := sha256.Sum256([]byte(fmt.Sprintf("oid-%d", g.msgN)))
	h32 := func(i int) string { x := sha256.Sum256([]byte(fmt.Sprint("obj", i))); return hex.EncodeToString(x[:]) }
	f := map[string]string{"kind": "map", "cid": hx.Hex(c), "oid": hex.EncodeToString(oid[:]), "net": "42", "size": fmt.Sprint(g.rng.IntN(1 << 20)),
		"del": hx.Pick(g.rng, []string{"-", h32(1), h32(2) + "," + h32(3)}), "lock": hx.Pick(g.rng, []string{"-", h32(4)}),
		"vubd": hx.Pick(g.rng, []string{"1", "1", "2", "100", "1000000"})}
	if g.rng.IntN(3) == 0 { // one defect in the meta information
		switch g.rng.IntN(12) {
		case 0:
			f["kind"] = hx.Pick(g.rng, []string{"junk", "notmap"})
		case 1:
			f[hx.Pick(g.rng, []string{"cid", "oid", "net", "size", "del", "lock", "vubd"})] = "absent"
		case 2:
			f["cid"] = g.badCid()
		case 3:
			f["oid"] = hx.Pick(g.rng, []string{"-", "01", f["oid"] + "00", f["oid"][:62]})
		case 4:
			f["net"] = hx.Pick(g.rng, []string{"41", "43", "0", "-42"})
		case 5:
			f["del"] = hx.Pick(g.rng, []string{"01", h32(1) + ",0203", h32(1)[:62]})
		case 6:
			f["lock"] = hx.Pick(g.rng, []string{"01", h32(1) + "," + h32(2) + "00"})
		case 7, 8:
			f["vubd"] = hx.Pick(g.rng, []string{"0", "-1", "-1000"})
		case 9:
			f["cid"] = hx.Hex(w.nom) // a container without meta-on-chain
		case 10:
			x := sha256.Sum256([]byte("no such container"))
			f["cid"] = hex.EncodeToString(x[:])
		case 11:
			f["size"] = "-5"
		}
	}
	m, d := g.sigMatrix(c)
	g.w.run.Count("submit.kind." + d)
	return fmt.Sprintf("op %s submit kind=%s cid=%s oid=%s net=%s magic=42 size=%s del=%s lock=%s vubd=%s %s sigs=%s",
		g.anySig(), f["kind"], f["cid"], f["oid"], f["net"], f["size"], f["del"], f["lock"], f["vubd"], g.badAttr(), m)
}

// script: a roster with the given vector sizes, in batches, then commit and reads
func (g *gen) rosterScript(c []byte, sizes []int, emit func(string)) {
	cs := hx.Hex(c)
	for v, n := range sizes {
		for n > 0 {
			b := n
			if n > 3 && g.rng.IntN(3) != 0 {
				b = 1 + g.rng.IntN(n)
			}
			emit(fmt.Sprintf("op alpha add %s %d %s", cs, v, hexJoin(g.fresh(b))))
			n -= b
		}
	}
}

// repeatedKeyScript: a committed roster in which node A was submitted again in a second batch of vector 0 and is also
// a member of vector 1, then the signature sets that tell "REP signatures" from "REP distinct member keys":
// vector 0 = [A, B, A, C], vector 1 = [D, A].
func (g *gen) repeatedKeyScript(c []byte, emit func(string)) {
	cs := hx.Hex(c)
	k := g.fresh(4)
	a, b, cc, d := k[0], k[1], k[2], k[3]
	emit(fmt.Sprintf("op alpha add %s 0 %s", cs, hexJoin([][]byte{a, b})))
	emit(fmt.Sprintf("op alpha add %s 0 %s", cs, hexJoin([][]byte{a, cc})))
	emit(fmt.Sprintf("op alpha add %s 1 %s", cs, hexJoin([][]byte{d, a})))
	rep0 := 2 + g.rng.IntN(2)
	emit(fmt.Sprintf("op alpha commit %s b:%02x02", cs, rep0))
	emit(fmt.Sprintf("op - nodes %s 0", cs))
	row1 := tok("ok", a) + "," + tok("ok", d)
	fill := ""
	if rep0 == 3 {
		fill = "," + tok("ok", b)
	}
	rows := []string{
		tok("ok", a) + "," + tok("ok", a) + fill,                       // the same signature twice
		tok("ok", a) + "," + tok("mal", a) + fill,                      // a signature and its (r, n-s) twin
		tok("ok", a) + "," + tok("ok2", a) + fill,                      // two different valid signatures of the one node
		tok("ok2", a) + fill + "," + tok("mal", a),                     // ... in another order
		tok("ok", a) + "," + tok("ok", cc) + fill,                      // the node and another member: legal
		tok("ok", a) + "," + tok("ok", a) + "," + tok("ok", cc) + fill, // the repetition is ignored, the third signer counts
	}
	g.rng.Shuffle(len(rows), func(x, y int) { rows[x], rows[y] = rows[y], rows[x] })
	for i, r := range rows {
		g.msgN++
		msg := sha256.Sum256([]byte(fmt.Sprintf("rk-msg-%d-%d", g.w.run.Seed, g.msgN)))
		if i%2 == 0 {
			emit(fmt.Sprintf("op - verify %s %s %s sigs=%s/%s", cs, hx.Hex(msg[:8]), g.badAttr(), r, row1))
		} else {
			oid := sha256.Sum256([]byte(fmt.Sprintf("rk-oid-%d", g.msgN)))
			emit(fmt.Sprintf("op - submit kind=map cid=%s oid=%x net=42 magic=42 size=1 del=- lock=- vubd=1 %s sigs=%s/%s",
				cs, oid, g.badAttr(), r, row1))
		}
	}
	// the same key twice in vector 1 as well: [ok.A, ok2.A] against [D, A] must fail for REP 2
	g.msgN++
	msg := sha256.Sum256([]byte(fmt.Sprintf("rk-msg-%d-%d", g.w.run.Seed, g.msgN)))
	emit(fmt.Sprintf("op - verify %s %s %s sigs=%s/%s", cs, hx.Hex(msg[:8]), g.badAttr(), tok("ok", a)+","+tok("ok", cc)+fill, tok("ok", a)+","+tok("ok2", a)))
}

func (g *gen) next() string {
	r := g.rng.IntN(100)
	switch g.profile {
	case "malformed":
		switch {
		case r < 30:
			return g.opAddMalformed()
		case r < 45:
			return g.opCommitMalformed()
		case r < 55:
			return g.opAdd()
		case r < 62:
			return g.opCommit()
		case r < 72:
			return g.opRead()
		case r < 86:
			return g.opVerify()
		default:
			return g.opSubmit()
		}
	case "signatures":
		switch {
		case r < 10:
			return g.opAdd()
		case r < 15:
			return g.opCommit()
		case r < 20:
			return g.opRead()
		case r < 65:
			return g.opVerify()
		default:
			return g.opSubmit()
		}
	}
	switch {
	case r < 30:
		return g.opAdd()
	case r < 36:
		return g.opAddMalformed()
	case r < 50:
		return g.opCommit()
	case r < 53:
		return g.opCommitMalformed()
	case r < 65:
		return g.opRead()
	case r < 85:
		return g.opVerify()
	default:
		return g.opSubmit()
	}
}

// clip shortens a line for the evidence samples.
func clip(s string) string {
	if len(s) > 220 {
		return s[:220] + "…"
	}
	return s
}

func caseLine(run *hx.Run, id, kind string, w *world) {
	run.Case(id, kind, "meta="+hexJoin(w.meta))
}

func TestRun(t *testing.T) {
	run := hx.Open(t)
	defer run.Close()
	if run.Mode == "replay" {
		var w *world
		var replaySample []string
		for _, l := range run.ReplayLines() {
			if strings.HasPrefix(l, "case ") {
				w = newWorld(t, run)
				f := strings.Fields(l)
				w.wf = len(f) > 2 && f[2] == "wf"
				if m, ok := field(f, "meta"); ok && m != hexJoin(w.meta) {
					t.Fatalf("case line names other meta containers than the set-up creates: %s", m)
				}
				kind := "nonwf"
				if w.wf {
					kind = "wf"
				}
				caseLine(run, f[1], kind, w)
				continue
			}
			if w == nil {
				t.Fatal("op before case")
			}
			obs := w.do(l)
			if len(replaySample) < 4 {
				replaySample = append(replaySample, clip(l)+"  =>  "+clip(obs))
			}
		}
		// a replay also leaves a sample for the evidence file
		run.Sample(strings.Join(replaySample, "\n"))
		return
	}
	profiles := []string{"mixed", "boundary", "signatures", "malformed", "mixed", "signatures", "boundary2", "mixed"}
	cases, nops := 18, 70
	if run.Tier == "thorough" {
		cases, nops = 48, 120
	}
	for ci := 0; ci < cases; ci++ {
		w := newWorld(t, run)
		w.wf = true
		g := &gen{w: w, rng: run.Rand(ci), profile: profiles[ci%len(profiles)]}
		g.nextKey = g.rng.IntN(40)
		x := sha256.Sum256([]byte(fmt.Sprintf("free-cid-%d", g.rng.IntN(1000))))
		g.cids = [][]byte{w.meta[0], w.meta[1], w.nom, x[:]}
		caseLine(run, fmt.Sprintf("s%d.%d.%d.%s", run.Seed, run.Shard, ci, g.profile), "wf", w)
		var first []string
		n := 0
		emit := func(l string) {
			obs := w.do(l)
			if n < 6 {
				first = append(first, clip(l)+"  =>  "+clip(obs))
			}
			n++
		}
		budget := nops
		switch g.profile {
		case "boundary", "boundary2":
			// the two-byte counter crosses 127/128 and 255/256 within and between batches
			c := w.meta[g.rng.IntN(2)]
			cs := hx.Hex(c)
			sizes := hx.Pick(g.rng, [][]int{{300, 2}, {129, 128, 3}, {257, 1}, {127, 1, 256}, {128, 255}, {256, 2, 1}})
			if g.profile == "boundary2" {
				g.rosterScript(c, []int{3, 2}, emit)
				emit(fmt.Sprintf("op alpha commit %s b:0201", cs))
			}
			g.rosterScript(c, sizes, emit)
			emit(fmt.Sprintf("op - nodes %s 0", cs))
			rs := make([]byte, len(sizes))
			for i := range rs {
				rs[i] = byte(1 + g.rng.IntN(min(4, sizes[i])))
			}
			emit(fmt.Sprintf("op alpha commit %s b:%x", cs, rs))
			for v := 0; v <= len(sizes); v++ {
				emit(fmt.Sprintf("op - nodes %s %d", cs, v))
			}
			emit(fmt.Sprintf("op - reps %s", cs))
			g.cids = [][]byte{c}
			for i := 0; i < 8; i++ {
				if i%2 == 0 {
					emit(g.opVerify())
				} else {
					emit(g.opSubmit())
				}
			}
			// the counter starts again after the commit
			g.rosterScript(c, []int{2 + g.rng.IntN(3)}, emit)
			emit(fmt.Sprintf("op alpha commit %s %s", cs, hx.Pick(g.rng, []string{"b:01", "a:2", "null"})))
			emit(fmt.Sprintf("op - nodes %s 0", cs))
			emit(fmt.Sprintf("op - nodes %s 1", cs))
			emit(fmt.Sprintf("op alpha commit %s null", cs)) // empty commit
			emit(fmt.Sprintf("op - nodes %s 0", cs))
			emit(fmt.Sprintf("op - reps %s", cs))
			x2 := sha256.Sum256([]byte("second"))
			g.cids = [][]byte{c, w.meta[1-g.rng.IntN(2)], x2[:]}
			budget = 12
		case "signatures":
			// first a roster with a repeated key on one of the meta-on-chain containers, then random rosters on the others
			rk := g.rng.IntN(2)
			g.repeatedKeyScript(w.meta[rk], emit)
			for _, c := range [][]byte{w.meta[1-rk], g.cids[2], g.cids[3]}[:1+g.rng.IntN(3)] {
				nv := 1 + g.rng.IntN(4)
				sizes := make([]int, nv)
				for i := range sizes {
					sizes[i] = 1 + g.rng.IntN(7)
				}
				g.rosterScript(c, sizes, emit)
				rs := make([]byte, nv)
				for i := range rs {
					rs[i] = byte(1 + g.rng.IntN(min(4, sizes[i])))
				}
				emit(fmt.Sprintf("op alpha commit %s b:%x", hx.Hex(c), rs))
			}
		}
		for i := 0; i < budget; i++ {
			emit(g.next())
		}
		run.Sample(strings.Join(first, "\n"))
	}
}
