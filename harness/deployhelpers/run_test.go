// Correspondence harness for the pure helpers of the deployment procedure (C13, layer 1): executes op
// lines on the real helpers of the repository under test, prints canonical observations for the diff with
// the Lean model NeoFS/Model/DeployHelpers.lean and runs the property monitor on the implementation's own results.
package deployhelpers

import (
	"fmt"
	"strings"
	"testing"

	"verifharness/hx"
)

func TestRun(t *testing.T) {
	run := hx.Open(t)
	defer run.Close()
	if run.Mode == "replay" {
		var w *World
		for _, l := range run.ReplayLines() {
			if strings.HasPrefix(l, "case ") {
				f := strings.Fields(l)
				w = NewWorld(run, len(f) > 2 && f[2] == "wf")
				run.Case(f[1], f[2:]...)
				continue
			}
			if w == nil {
				t.Fatal("op before case")
			}
			run.Op(l, w.Exec(l))
		}
		return
	}
	for _, g := range Groups(run) {
		w := NewWorld(run, true)
		run.Case(fmt.Sprintf("%s.s%d.%d", g.Name, run.Seed, run.Shard), "wf")
		var first []string
		g.Gen(func(l string) {
			obs := w.Exec(l)
			run.Op(l, obs)
			if len(first) < 5 {
				first = append(first, l+"  =>  "+obs)
			}
		})
		run.Sample(strings.Join(first, "\n"))
	}
}
