// Package deployhelpers: the pure helpers of the deployment procedure (C13, layer 1) executed on the repository
// under test through deploy/verif_export.go (build tag verif): op interpreter, property monitor, generators.
// run_test.go drives it standalone; harness/mininode uses Exec to replay helper op lines.
package deployhelpers

import (
	"crypto/sha256"
	"encoding/base64"
	"fmt"
	"math"
	"math/rand/v2"
	"strconv"
	"strings"

	"github.com/nspcc-dev/neo-go/pkg/util"
	"github.com/nspcc-dev/neofs-contract/deploy"

	"verifharness/hx"
)

// World is the per-case state of the helper interpreter.
type World struct {
	Run *hx.Run
	WF  bool // inside the property's quantifier: the monitor is active
	// monitor state: signature domains seen so far in the case (index -> name)
	domains map[int64]string
}

func shared(sender string, vub, nonce string) deploy.VerifSharedTxData {
	var u util.Uint160
	b := hx.UnHex(sender)
	if len(b) != util.Uint160Size {
		panic("sender must be 20 bytes")
	}
	copy(u[:], b) // big-endian order, like BytesBE
	v, err := strconv.ParseUint(vub, 10, 32)
	if err != nil {
		panic(err)
	}
	n, err := strconv.ParseUint(nonce, 10, 32)
	if err != nil {
		panic(err)
	}
	return deploy.VerifSharedTxData{Sender: u, ValidUntilBlock: uint32(v), Nonce: uint32(n)}
}

// NewWorld starts a case.
func NewWorld(run *hx.Run, wf bool) *World {
	return &World{Run: run, WF: wf, domains: map[int64]string{}}
}

// IsHelperOp reports whether the op line belongs to this interpreter.
func IsHelperOp(line string) bool {
	ws := strings.Fields(line)
	if len(ws) < 2 {
		return false
	}
	switch ws[1] {
	case "divide", "window", "windowseq", "encode", "decode", "unshift", "shift", "matches", "sigdomain", "alphadomain":
		return true
	}
	return false
}

// Exec executes one "op ..." line on the implementation and returns the observation line.
func (w *World) Exec(line string) (obs string) {
	ws := strings.Fields(line)
	if len(ws) < 2 || ws[0] != "op" {
		w.Run.T.Fatalf("bad op line %q", line)
	}
	kind, a := ws[1], ws[2:]
	w.Run.Count("op." + kind)
	v := func(what, detail string) {
		if w.WF {
			w.Run.Violation("C13", "deploy."+kind, what, detail+" | op: "+line)
		}
	}
	switch kind {
	case "divide":
		amount, err := strconv.ParseUint(a[0], 10, 64)
		if err != nil {
			w.Run.T.Fatal(err)
		}
		n, err := strconv.ParseInt(a[1], 10, 64)
		if err != nil {
			w.Run.T.Fatal(err)
		}
		inds, amounts, panicked := deploy.VerifDivideFundsEvenly(amount, int(n))
		if panicked {
			w.Run.Count("out.divide.panic")
			if n > 0 {
				v("panic", fmt.Sprintf("divideFundsEvenly(%d, %d) panicked", amount, n))
			}
			return "FAULT"
		}
		var items []string
		for i := range inds {
			items = append(items, fmt.Sprintf("%d:%d", inds[i], amounts[i]))
		}
		// monitor: shares sum to the input and differ by at most one (a receiver that is not called gets 0)
		if n > 0 {
			var sum, mn, mx uint64
			mn = math.MaxUint64
			seen := map[int]bool{}
			for i := range inds {
				if sum+amounts[i] < sum {
					v("sum-overflow", "sum of shares overflows uint64")
				}
				sum += amounts[i]
				mn, mx = min(mn, amounts[i]), max(mx, amounts[i])
				if inds[i] < 0 || int64(inds[i]) >= n || seen[inds[i]] {
					v("bad-receiver", fmt.Sprintf("receiver index %d out of range or repeated", inds[i]))
				}
				seen[inds[i]] = true
				if amounts[i] == 0 {
					v("zero-share", fmt.Sprintf("receiver %d is handed a zero share", inds[i]))
				}
			}
			if int64(len(inds)) < n {
				mn = 0
			}
			if sum != amount {
				v("sum-mismatch", fmt.Sprintf("shares %v sum to %d, input %d", amounts, sum, amount))
			}
			if mx-mn > 1 {
				v("uneven", fmt.Sprintf("shares %v (receivers %d) differ by more than one", amounts, n))
			}
		}
		w.Run.Count(fmt.Sprintf("out.divide.calls%s", bucket(len(inds))))
		return "HALT ret=[" + strings.Join(items, ";") + "]"
	case "window":
		h, err := strconv.ParseUint(a[0], 10, 32)
		if err != nil {
			w.Run.T.Fatal(err)
		}
		st := a[1]
		if st == "-" {
			st = ""
		}
		nonce, vub, err := deploy.VerifRuntimeTxWindow(uint32(h), st)
		if err != nil {
			w.Run.Count("out.window.err")
			if st == "HALT" {
				v("refused-halt", "modifier refused a HALTed invocation: "+err.Error())
			}
			return "FAULT"
		}
		if st != "HALT" {
			v("accepted-nonhalt", "modifier accepted VM state "+st)
		}
		// monitor: 100*N <= height < 100*(N+1), nonce = 100*N, vub = 100*(N+1) or saturated at MaxUint32
		N := h / 100
		if uint64(nonce) != 100*N {
			v("nonce", fmt.Sprintf("nonce %d, expected %d", nonce, 100*N))
		}
		wantVub := 100 * (N + 1)
		if wantVub > math.MaxUint32 {
			wantVub = math.MaxUint32
		}
		if uint64(vub) != wantVub {
			v("vub", fmt.Sprintf("ValidUntilBlock %d, expected %d", vub, wantVub))
		}
		if uint64(vub) < h || (uint64(vub) == h && h != math.MaxUint32) {
			v("vub-expired", fmt.Sprintf("ValidUntilBlock %d is not after the current height %d", vub, h))
		}
		if vub == math.MaxUint32 {
			w.Run.Count("out.window.saturated")
		} else {
			w.Run.Count("out.window.plain")
		}
		return fmt.Sprintf("HALT ret=%d,%d", nonce, vub)
	case "windowseq":
		// ONE modifier (built at the first height, as the sync stages build it before their loop) applied once per height
		st := a[0]
		if st == "-" {
			st = ""
		}
		var hs []uint32
		for _, x := range a[1:] {
			h, err := strconv.ParseUint(x, 10, 32)
			if err != nil {
				w.Run.T.Fatal(err)
			}
			hs = append(hs, uint32(h))
		}
		nonces, vubs, errs := deploy.VerifRuntimeTxWindowSeq(hs, st)
		if len(nonces) != len(hs) || len(vubs) != len(hs) || len(errs) != len(hs) {
			w.Run.T.Fatalf("hook returned %d/%d/%d results for %d heights", len(nonces), len(vubs), len(errs), len(hs))
		}
		items := make([]string, len(hs))
		nerr := 0
		first := uint64(hs[0]) / 100
		for i, h := range hs {
			if errs[i] != nil {
				nerr++
				items[i] = "ERR"
				if st == "HALT" {
					v("refused-halt", fmt.Sprintf("application %d (height %d): modifier refused a HALTed invocation: %v", i, h, errs[i]))
				}
				continue
			}
			if st != "HALT" {
				v("accepted-nonhalt", fmt.Sprintf("application %d: modifier accepted VM state %s", i, st))
			}
			items[i] = fmt.Sprintf("%d:%d", nonces[i], vubs[i])
			// monitor: every transaction gets the window of ITS OWN height: 100*N <= height < 100*(N+1)
			N := uint64(h) / 100
			wantVub := min(100*(N+1), math.MaxUint32)
			if uint64(nonces[i]) != 100*N || uint64(vubs[i]) != wantVub {
				what := "window-wrong"
				if N != first && uint64(nonces[i]) == 100*first {
					what = "window-frozen" // the window of the height at which the modifier was built
				}
				v(what, fmt.Sprintf("application %d at height %d got nonce %d, ValidUntilBlock %d; its own window is nonce %d, ValidUntilBlock %d (modifier built at height %d)",
					i, h, nonces[i], vubs[i], 100*N, wantVub, hs[0]))
			} else if uint64(vubs[i]) < uint64(h) || (uint64(vubs[i]) == uint64(h) && h != math.MaxUint32) {
				v("vub-expired", fmt.Sprintf("application %d: ValidUntilBlock %d is not after the current height %d", i, vubs[i], h))
			}
		}
		if nerr == len(hs) {
			w.Run.Count("out.windowseq.err")
			return "FAULT"
		}
		w.Run.Count("out.windowseq.ok")
		return "HALT ret=[" + strings.Join(items, ";") + "]"
	case "encode":
		x := shared(a[0], a[1], a[2])
		b, s := x.Bytes(), x.EncodeToString()
		// monitor: fixed length, decode(encode x) = x
		if len(b) != 28 {
			v("length", fmt.Sprintf("serialised shared data has %d bytes", len(b)))
		}
		y, err := deploy.VerifDecodeSharedTxData(s)
		if err != nil || y != x {
			v("roundtrip", fmt.Sprintf("decode(encode(%v)) = %v, %v", x, y, err))
		}
		return "HALT ret=" + hx.Hex(b) + "," + hx.Hex([]byte(s))
	case "decode":
		s := string(hx.UnHex(a[0]))
		y, err := deploy.VerifDecodeSharedTxData(s)
		if err != nil {
			w.Run.Count("out.decode.err")
			return "FAULT"
		}
		// monitor: whatever decodes re-encodes to the same 28 bytes
		if raw, e := base64.StdEncoding.DecodeString(s); e != nil || string(raw) != string(y.Bytes()) {
			v("decode-not-inverse", fmt.Sprintf("decoded %v from %q which does not hold these bytes", y, s))
		}
		w.Run.Count("out.decode.ok")
		return fmt.Sprintf("HALT ret=%s,%d,%d", hx.Hex(y.Sender[:]), y.ValidUntilBlock, y.Nonce)
	case "unshift":
		x := shared(a[0], a[1], a[2])
		data := hx.UnHex(a[3])
		out := x.UnshiftChecksum(data)
		ok, back := x.ShiftChecksum(out)
		if !ok || string(back) != string(data) {
			v("checksum-roundtrip", fmt.Sprintf("shiftChecksum(unshiftChecksum(d)) = %v, %x", ok, back))
		}
		return "HALT ret=" + hx.Hex(out)
	case "shift":
		x := shared(a[0], a[1], a[2])
		data := hx.UnHex(a[3])
		dig := sha256.Sum256(x.Bytes())
		ok, rest := x.ShiftChecksum(data)
		// monitor: true exactly when the data begins with the first 4 digest bytes; then the rest is the payload
		has := len(data) >= 4 && string(data[:4]) == string(dig[:4])
		if ok != has {
			v("checksum-verdict", fmt.Sprintf("shiftChecksum says %v, prefix matches: %v", ok, has))
		}
		if ok && string(rest) != string(data[4:]) {
			v("checksum-payload", "payload is not the data after the checksum")
		}
		w.Run.Count(fmt.Sprintf("out.shift.%v", ok))
		return fmt.Sprintf("HALT ret=%v,%s", ok, hx.Hex(rest))
	case "matches":
		x := shared(a[0], a[1], a[2])
		tn, _ := strconv.ParseUint(a[3], 10, 32)
		tv, _ := strconv.ParseUint(a[4], 10, 32)
		var signers []util.Uint160
		if a[5] != "-" {
			for _, s := range strings.Split(a[5], ",") {
				var u util.Uint160
				copy(u[:], hx.UnHex(s))
				signers = append(signers, u)
			}
		}
		ok := x.Matches(uint32(tn), uint32(tv), signers)
		w.Run.Count(fmt.Sprintf("out.matches.%v", ok))
		return fmt.Sprintf("HALT ret=%v", ok)
	case "sigdomain":
		i, err := strconv.ParseInt(a[0], 10, 64)
		if err != nil {
			w.Run.T.Fatal(err)
		}
		name := deploy.VerifDesignateNotarySignatureDomainForMember(int(i))
		// monitor: members publish under pairwise different names, none of which is the shared-data domain
		if name == deploy.VerifDomains()["notaryTx"] {
			v("domain-clash", fmt.Sprintf("signature domain of member %d is the shared-data domain", i))
		}
		for j, other := range w.domains {
			if j != i && other == name {
				if w.WF {
					w.Run.Violation("C13", "deploy.sigdomain", "domain-clash", fmt.Sprintf("members %d and %d share the signature domain %s | op: op sigdomain %d ;; %s", i, j, name, j, line))
				}
			}
		}
		w.domains[i] = name
		return "HALT ret=" + name
	case "alphadomain":
		i, err := strconv.ParseInt(a[0], 10, 64)
		if err != nil {
			w.Run.T.Fatal(err)
		}
		return "HALT ret=" + deploy.VerifAlphabetContractAddressDomain(int(i))
	}
	w.Run.T.Fatalf("bad op kind %q", kind)
	return ""
}

func bucket(n int) string {
	switch {
	case n == 0:
		return "0"
	case n <= 7:
		return "1-7"
	}
	return ">7"
}

// ---- generation ----

var u32Boundary = []uint64{0, 1, 99, 100, 101, 127, 128, 199, 200, 255, 256, 65535, 65536, 1 << 24, 1<<31 - 1, 1 << 31,
	math.MaxUint32 - 300, math.MaxUint32 - 201, math.MaxUint32 - 200, math.MaxUint32 - 199, math.MaxUint32 - 196, math.MaxUint32 - 195,
	math.MaxUint32 - 101, math.MaxUint32 - 100, math.MaxUint32 - 99, math.MaxUint32 - 96, math.MaxUint32 - 95, math.MaxUint32 - 94,
	math.MaxUint32 - 50, math.MaxUint32 - 1, math.MaxUint32}

func u32(rng *rand.Rand) uint64 {
	if rng.IntN(3) == 0 {
		return hx.Pick(rng, u32Boundary)
	}
	return uint64(rng.Uint32())
}

func randBytes(rng *rand.Rand, n int) []byte {
	b := make([]byte, n)
	for i := range b {
		b[i] = byte(rng.UintN(256))
	}
	return b
}

func sender(rng *rand.Rand) string {
	switch rng.IntN(8) {
	case 0:
		return strings.Repeat("00", 20)
	case 1:
		return strings.Repeat("ff", 20)
	}
	return hx.Hex(randBytes(rng, 20))
}

// Emit receives one generated op line.
type Emit func(line string)

func genDivide(rng *rand.Rand, tier string, shard, shards int, out Emit) {
	// exhaustive small scope
	maxA, maxN := 60, 12
	if tier == "thorough" {
		maxA, maxN = 400, 40
	}
	k := 0
	for a := 0; a <= maxA; a++ {
		for n := -2; n <= maxN; n++ {
			if k%shards == shard {
				out(fmt.Sprintf("op divide %d %d", a, n))
			}
			k++
		}
	}
	// boundaries of uint64 and of the n-vs-amount comparison, then random
	big := []uint64{math.MaxUint64, math.MaxUint64 - 1, 1 << 63, 1<<63 - 1, 1<<63 + 1, 1 << 32, 1<<32 - 1, 100_000_000, 705}
	ns := []int64{1, 2, 3, 4, 5, 6, 7, 8, 100, 1000}
	for _, a := range big {
		for _, n := range ns {
			if k%shards == shard {
				out(fmt.Sprintf("op divide %d %d", a, n))
			}
			k++
		}
	}
	for _, n := range []int64{1000, 4096} { // amount around n: the early return and the remainder run-out
		for _, d := range []int64{-2, -1, 0, 1, 2} {
			if k%shards == shard {
				out(fmt.Sprintf("op divide %d %d", n+d, n))
			}
			k++
		}
	}
	for _, n := range []int64{-1, -7, math.MinInt64, math.MinInt64 + 1} {
		out(fmt.Sprintf("op divide %d %d", rng.Uint64(), n))
	}
	cnt := 150
	if tier == "thorough" {
		cnt = 1500
	}
	for i := 0; i < cnt; i++ {
		n := int64(1 + rng.IntN(7))
		if rng.IntN(5) == 0 {
			n = int64(rng.IntN(300)) - 3
		}
		a := rng.Uint64()
		switch rng.IntN(4) {
		case 0:
			a = uint64(rng.IntN(50))
		case 1:
			a = uint64(n)*uint64(rng.IntN(1000)) + uint64(rng.IntN(3))
		}
		out(fmt.Sprintf("op divide %d %d", a, n))
	}
}

func genWindow(rng *rand.Rand, tier string, shard, shards int, out Emit) {
	states := []string{"HALT", "HALT", "HALT", "HALT", "FAULT", "BREAK", "NONE", "-", "halt"}
	k := 0
	for _, h := range u32Boundary {
		out(fmt.Sprintf("op window %d HALT", h))
	}
	// every height of the last three windows: the saturation boundary
	for h := uint64(math.MaxUint32 - 320); h <= math.MaxUint32; h++ {
		if k%shards == shard {
			out(fmt.Sprintf("op window %d HALT", h))
		}
		k++
	}
	for h := uint64(0); h <= 310; h++ {
		if k%shards == shard {
			out(fmt.Sprintf("op window %d HALT", h))
		}
		k++
	}
	cnt := 300
	if tier == "thorough" {
		cnt = 3000
	}
	for i := 0; i < cnt; i++ {
		h := u32(rng)
		if rng.IntN(3) == 0 { // around a multiple of the span
			h = uint64(rng.Uint32())/100*100 + uint64(rng.IntN(3)) - 1
			if h > math.MaxUint32 {
				h = 0
			}
		}
		out(fmt.Sprintf("op window %d %s", h, hx.Pick(rng, states)))
	}
}

// genWindowSeq: one modifier used at several heights — across multiples of the span, at the uint32 saturation
// boundary, decreasing and equal heights, random walks.
func genWindowSeq(rng *rand.Rand, tier string, out Emit) {
	seq := func(st string, hs ...uint64) {
		parts := make([]string, len(hs))
		for i, h := range hs {
			parts[i] = strconv.FormatUint(min(h, math.MaxUint32), 10)
		}
		out("op windowseq " + st + " " + strings.Join(parts, " "))
	}
	const top = uint64(math.MaxUint32)
	// across one and several multiples of 100
	for _, k := range []uint64{1, 2, 7, 1000, 42949671, 42949672} {
		b := 100 * k
		seq("HALT", b-1, b)
		seq("HALT", b-50, b+50)
		seq("HALT", b-1, b, b+1)
		seq("HALT", b-100, b-1, b, b+99, min(b+100, top))
		seq("HALT", b, b-1) // decreasing across the boundary
	}
	seq("HALT", 0, 99, 100, 199, 200, 1000)
	seq("HALT", 50, 150, 250, 350)
	seq("HALT", 350, 250, 150, 50) // decreasing
	seq("HALT", 100, 99, 0)
	// equal heights, single applications
	seq("HALT", 7, 7, 7)
	seq("HALT", 100, 100)
	seq("HALT", top, top)
	seq("HALT", 0)
	seq("HALT", top)
	// the saturation boundary
	seq("HALT", top-196, top-195, top-96, top-95, top-1, top)
	seq("HALT", top-95, top-96) // back out of the saturated window
	seq("HALT", top-300, top-200, top-100, top)
	seq("HALT", 0, top)
	seq("HALT", top, 0)
	// other VM states
	seq("FAULT", 50, 150)
	seq("-", 99, 100)
	seq("BREAK", 5)
	cnt := 200
	if tier == "thorough" {
		cnt = 3000
	}
	for i := 0; i < cnt; i++ {
		n := 1 + rng.IntN(6)
		h := u32(rng)
		if rng.IntN(3) == 0 { // start shortly before a multiple of the span
			h = uint64(rng.Uint32())/100*100 + 90 + uint64(rng.IntN(10))
			if h > top {
				h = top - 5
			}
		}
		hs := []uint64{h}
		for len(hs) < n {
			step := int64(rng.IntN(150))
			switch rng.IntN(8) {
			case 0:
				step = -step // the height source may also go back (another RPC node)
			case 1:
				step = 0
			case 2:
				step = int64(rng.IntN(3))
			}
			nh := int64(h) + step
			if nh < 0 {
				nh = 0
			}
			if nh > int64(top) {
				nh = int64(top)
			}
			h = uint64(nh)
			hs = append(hs, h)
		}
		st := "HALT"
		if rng.IntN(12) == 0 {
			st = hx.Pick(rng, []string{"FAULT", "BREAK", "-", "halt"})
		}
		seq(st, hs...)
	}
}

func genCodec(rng *rand.Rand, tier string, out Emit) {
	cnt := 250
	if tier == "thorough" {
		cnt = 2500
	}
	for i := 0; i < cnt; i++ {
		s, v, n := sender(rng), u32(rng), u32(rng)
		x := shared(s, fmt.Sprint(v), fmt.Sprint(n))
		out(fmt.Sprintf("op encode %s %d %d", s, v, n))
		good := x.EncodeToString()
		out("op decode " + hx.Hex([]byte(good)))
		// malformed stream: mutations of a valid string and foreign payloads
		for m := 0; m < 3; m++ {
			out("op decode " + hx.Hex([]byte(mutate(rng, good))))
		}
		// checksum
		dig := sha256.Sum256(x.Bytes())
		data := randBytes(rng, hx.Pick(rng, []int{0, 1, 3, 4, 5, 64, 64, 64, 70}))
		out(fmt.Sprintf("op unshift %s %d %d %s %s", s, v, n, hx.Hex(data), hx.Hex(dig[:])))
		withSum := x.UnshiftChecksum(data)
		out(fmt.Sprintf("op shift %s %d %d %s %s", s, v, n, hx.Hex(withSum), hx.Hex(dig[:])))
		bad := append([]byte{}, withSum...)
		switch rng.IntN(5) {
		case 0:
			bad[rng.IntN(4)] ^= 1 << rng.UintN(8) // wrong checksum
		case 1:
			bad = bad[:rng.IntN(4)] // shorter than a checksum
		case 2:
			bad = bad[:4] // checksum only
		case 3:
			if len(bad) > 4 {
				bad[4+rng.IntN(len(bad)-4)] ^= 0x80 // payload damage is not the checksum's business
			}
		case 4:
			bad = randBytes(rng, rng.IntN(10))
		}
		out(fmt.Sprintf("op shift %s %d %d %s %s", s, v, n, hx.Hex(bad), hx.Hex(dig[:])))
		// a checksum made for other shared data
		v2 := v ^ 1
		y := shared(s, fmt.Sprint(v2), fmt.Sprint(n))
		dig2 := sha256.Sum256(y.Bytes())
		out(fmt.Sprintf("op shift %s %d %d %s %s", s, v2, n, hx.Hex(withSum), hx.Hex(dig2[:])))
		// sharedTxDataMatches
		tn, tv := n, v
		sg := []string{s}
		switch rng.IntN(7) {
		case 0:
			tn = u32(rng)
		case 1:
			tv = u32(rng)
		case 2:
			sg = nil
		case 3:
			sg = []string{sender(rng), s}
		case 4:
			sg = append(sg, sender(rng))
		}
		sgs := "-"
		if len(sg) > 0 {
			sgs = strings.Join(sg, ",")
		}
		out(fmt.Sprintf("op matches %s %d %d %d %d %s", s, v, n, tn, tv, sgs))
	}
	// payloads of the wrong length and plain garbage
	for _, l := range []int{0, 1, 2, 3, 26, 27, 28, 29, 30, 56} {
		out("op decode " + hx.Hex([]byte(base64.StdEncoding.EncodeToString(randBytes(rng, l)))))
		out("op decode " + hx.Hex([]byte(base64.RawStdEncoding.EncodeToString(randBytes(rng, l)))))
		out("op decode " + hx.Hex([]byte(base64.URLEncoding.EncodeToString(randBytes(rng, l)))))
	}
	for _, s := range []string{"=", "==", "===", "====", "A", "AA", "AAA", "AAAA", "AA==", "AAA=", "AB==", "AAB=", "A===", "=AAA", "AA=A", "AA==AAAA",
		"AAAA\n", "\nAA\r\n==\n", "AA=\n=", "AAAA AAAA", "AAAA=", "AAAAAA", "AAAAAA==", "AAAAAAA=", "AAAAAAA", "****", "\x00\x00\x00\x00", "AAA\xff"} {
		out("op decode " + hx.Hex([]byte(s)))
	}
}

func mutate(rng *rand.Rand, s string) string {
	b := []byte(s)
	alphabet := "ABCDEFGHIJKLMNOPQRSTUVWXYZabcdefghijklmnopqrstuvwxyz0123456789+/=-_ \n\r*"
	switch rng.IntN(9) {
	case 0: // replace one character
		b[rng.IntN(len(b))] = alphabet[rng.IntN(len(alphabet))]
	case 1: // drop one character
		i := rng.IntN(len(b))
		b = append(b[:i], b[i+1:]...)
	case 2: // insert one character
		i := rng.IntN(len(b) + 1)
		b = append(b[:i], append([]byte{alphabet[rng.IntN(len(alphabet))]}, b[i:]...)...)
	case 3: // newline somewhere (Go's decoder skips it)
		i := rng.IntN(len(b) + 1)
		b = append(b[:i], append([]byte{"\n\r"[rng.IntN(2)]}, b[i:]...)...)
	case 4: // cut
		b = b[:rng.IntN(len(b)+1)]
	case 5: // strip padding
		b = []byte(strings.TrimRight(s, "="))
	case 6: // other trailing bits in the last sextet before the padding (non-strict decoding ignores them)
		i := strings.IndexByte(s, '=')
		if i > 0 {
			b[i-1] = alphabet[rng.IntN(64)]
		}
	case 7: // append a whole quantum
		b = append(b, "AAAA"...)
	case 8: // one more or one fewer byte of payload
		raw, _ := base64.StdEncoding.DecodeString(s)
		if rng.IntN(2) == 0 {
			raw = append(raw, 7)
		} else {
			raw = raw[:len(raw)-1]
		}
		b = []byte(base64.StdEncoding.EncodeToString(raw))
	}
	return string(b)
}

func genDomains(out Emit) {
	for i := -3; i <= 24; i++ {
		out(fmt.Sprintf("op sigdomain %d", i))
	}
	for _, i := range []int64{99, 100, 101, 1000, math.MaxInt32, math.MaxInt64, math.MinInt64} {
		out(fmt.Sprintf("op sigdomain %d", i))
	}
	for i := -1; i <= 12; i++ {
		out(fmt.Sprintf("op alphadomain %d", i))
	}
}

// Group is one generated case.
type Group struct {
	Name string
	Gen  func(Emit)
}

// Groups returns the generated cases of one shard.
func Groups(run *hx.Run) []Group {
	rng := run.Rand(0)
	return []Group{
		{"divide", func(o Emit) { genDivide(rng, run.Tier, run.Shard, run.Shards, o) }},
		{"window", func(o Emit) { genWindow(rng, run.Tier, run.Shard, run.Shards, o) }},
		{"windowseq", func(o Emit) { genWindowSeq(rng, run.Tier, o) }},
		{"codec", func(o Emit) { genCodec(rng, run.Tier, o) }},
		{"domains", func(o Emit) { genDomains(o) }},
	}
}
