// Correspondence harness for the NNS string validators (C18): feeds names and record data through
// isAvailable / registerTLD / register / addRecord / setRecord / getRecords of the NNS contract compiled
// from the repository under test, prints canonical observations for the diff with the Lean model
// (NeoFS/Model/NNSSyntax.lean) and runs the property monitor on the implementation's own observations.
//
// Op lines:  op <tx|dry> <sig> <method> <args…>
//
//	tx  = a transaction in its own block, followed by a decoded scan of the contract's storage;
//	dry = a test invocation on the current state (nothing is committed), observation = HALT/FAULT and result;
//	sig = "-" or a comma list of cmt (committee multisignature), u1..u3 (user accounts);
//	methods: avail <name> | tld <name> | reg <name> <owner u#> | add <name> <type> <data> |
//	         set <name> <type> <id> <data> | get <name> <type>;  strings are lower-case hex, "-" = empty.
package nnssyntax

import (
	"fmt"
	"math/rand/v2"
	"net/netip"
	"path/filepath"
	"regexp"
	"sort"
	"strconv"
	"strings"
	"testing"
	"time"

	"github.com/nspcc-dev/neo-go/pkg/crypto/hash"
	"github.com/nspcc-dev/neo-go/pkg/neotest"
	"github.com/nspcc-dev/neo-go/pkg/util"
	"github.com/nspcc-dev/neo-go/pkg/vm/stackitem"

	"verifharness/chainx"
	"verifharness/hx"
)

const (
	typA     = 1
	typCNAME = 5
	typSOA   = 6
	typTXT   = 16
	typAAAA  = 28
	nUsers   = 3
	tenYears = 10 * 365 * 24 * 3600 // seconds: nothing expires during a run
)

// ---------------------------------------------------------------------------------------------
// the property, read independently of the contract and of the model (character level)

var reName = regexp.MustCompile(`^(?:[a-z0-9](?:[a-z0-9-]{0,61}[a-z0-9])?\.)*[a-z](?:[a-z0-9-]{0,14}[a-z0-9])?$`)

// specName: 3..255 bytes, dot-separated labels of 1..63 lower-case letters, digits and inner hyphens, the
// last label at most 16 bytes and starting with a letter.
func specName(b []byte) bool {
	return len(b) >= 3 && len(b) <= 255 && reName.Match(b)
}

// specIPv4: canonical dotted quad (what netip parses and prints back unchanged), public unicast by the
// exclusion list of the code (DESIGN.md section 8, reading of C18).
func specIPv4(b []byte) bool {
	a, err := netip.ParseAddr(string(b))
	if err != nil || !a.Is4() || a.String() != string(b) {
		return false
	}
	o := a.As4()
	switch {
	case o[0] == 0, o[0] == 10, o[0] == 127, o[0] >= 224,
		o[0] == 169 && o[1] == 254,
		o[0] == 172 && o[1] >= 16 && o[1] <= 31,
		o[0] == 192 && o[1] == 168,
		o[3] == 0, o[3] == 255:
		return false
	}
	return true
}

// specIPv6: RFC 4291 section 2.2 forms 1 and 2 (no embedded dotted quad, no zone), global unicast by the
// exclusion list of the code.
func specIPv6(b []byte) bool {
	s := string(b)
	if strings.ContainsAny(s, ".%") {
		return false
	}
	a, err := netip.ParseAddr(s)
	if err != nil || !a.Is6() {
		return false
	}
	g := a.As16()
	f0 := int(g[0])<<8 | int(g[1])
	f1 := int(g[2])<<8 | int(g[3])
	if f0 < 0x2000 || f0 > 0x3fff || f0 == 0x2002 || f0 == 0x3ffe {
		return false
	}
	if f0 == 0x2001 && (f1 < 0x200 || f1 == 0xdb8) {
		return false
	}
	return true
}

func specData(typ int, d []byte) bool {
	switch typ {
	case typA:
		return specIPv4(d)
	case typCNAME:
		return specName(d)
	case typTXT:
		return len(d) <= 255
	case typAAAA:
		return specIPv6(d)
	}
	return false
}

// ---------------------------------------------------------------------------------------------
// world

type nnsState struct {
	roots map[string]bool
	doms  map[string]int      // name -> owner id (0 = committee)
	recs  map[string][]string // token \x00 name \x00 type -> data in id order (non-SOA)
}

type world struct {
	c      *chainx.Chain
	nns    util.Uint160
	run    *hx.Run
	users  []neotest.SingleSigner
	uid    map[util.Uint160]int
	wf     bool
	st     nnsState
	digest string
	// snapshot reuse: a world that has only seen its setup ops and dry runs can serve the next case too
	dirty    bool
	setupKey string
	setupObs []string
	pending  func()
}

func newWorld(t testing.TB, run *hx.Run) *world {
	c := chainx.New(t, 1)
	h := c.DeployNNS()
	w := &world{c: c, nns: h, run: run, uid: map[util.Uint160]int{}}
	for i := 1; i <= nUsers; i++ {
		u := c.User(fmt.Sprintf("N%d", i))
		w.users = append(w.users, u)
		w.uid[u.ScriptHash()] = i
	}
	w.st, w.digest = w.scan()
	return w
}

func itemBytes(it stackitem.Item) []byte {
	if _, ok := it.(stackitem.Null); ok {
		return nil
	}
	b, err := it.TryBytes()
	if err != nil {
		panic(err)
	}
	return b
}

func rkey(token, name string, typ int) string {
	return token + "\x00" + name + "\x00" + strconv.Itoa(typ)
}

// scan decodes roots, name states and non-SOA records from the raw storage of the contract.
func (w *world) scan() (nnsState, string) {
	st := nnsState{roots: map[string]bool{}, doms: map[string]int{}, recs: map[string][]string{}}
	kvs := w.c.Scan(w.nns)
	byHash := map[string]string{}
	for _, kv := range kvs {
		if kv.K[0] == 0x21 {
			it, err := stackitem.Deserialize(kv.V)
			if err != nil {
				w.run.T.Fatalf("bad name state %x", kv.V)
			}
			f := it.Value().([]stackitem.Item)
			name := string(itemBytes(f[1]))
			owner := 0
			if ob := itemBytes(f[0]); len(ob) != 0 {
				owner = 99
				if u, err := util.Uint160DecodeBytesBE(ob); err == nil {
					if id, ok := w.uid[u]; ok {
						owner = id
					}
				}
			}
			st.doms[name] = owner
			byHash[string(hash.RipeMD160([]byte(name)).BytesBE())] = name
		}
	}
	type rec struct {
		key  string
		id   int
		data string
	}
	var rs []rec
	for _, kv := range kvs {
		switch kv.K[0] {
		case 0x20:
			st.roots[string(kv.K[1:])] = true
		case 0x22:
			it, err := stackitem.Deserialize(kv.V)
			if err != nil || len(kv.K) != 43 {
				w.run.T.Fatalf("bad record %x=%x", kv.K, kv.V)
			}
			f := it.Value().([]stackitem.Item)
			typ := int(kv.K[41])
			if typ == typSOA {
				continue
			}
			token, ok := byHash[string(kv.K[1:21])]
			if !ok {
				token = "?" + hx.Hex(kv.K[1:21])
			}
			name := string(itemBytes(f[0]))
			if string(hash.RipeMD160([]byte(name)).BytesBE()) != string(kv.K[21:41]) {
				name = "?" + name
			}
			rs = append(rs, rec{rkey(token, name, typ), int(kv.K[42]), string(itemBytes(f[2]))})
		}
	}
	sort.Slice(rs, func(i, j int) bool {
		if rs[i].key != rs[j].key {
			return rs[i].key < rs[j].key
		}
		return rs[i].id < rs[j].id
	})
	for _, r := range rs {
		if r.id != len(st.recs[r.key]) {
			st.recs[r.key] = append(st.recs[r.key], "!gap")
		}
		st.recs[r.key] = append(st.recs[r.key], r.data)
	}
	return st, w.c.ScanDigest(w.nns)
}

func (st nnsState) String() string {
	var roots, doms, recs []string
	for r := range st.roots {
		roots = append(roots, hx.Hex([]byte(r)))
	}
	for d, o := range st.doms {
		doms = append(doms, fmt.Sprintf("%s:%d", hx.Hex([]byte(d)), o))
	}
	for k, ds := range st.recs {
		p := strings.Split(k, "\x00")
		var hs []string
		for _, d := range ds {
			hs = append(hs, hx.Hex([]byte(d)))
		}
		recs = append(recs, fmt.Sprintf("%s/%s/%s=%s", hx.Hex([]byte(p[0])), hx.Hex([]byte(p[1])), p[2], strings.Join(hs, ",")))
	}
	sort.Strings(roots)
	sort.Strings(doms)
	sort.Strings(recs)
	return fmt.Sprintf("roots=[%s] doms=[%s] recs=[%s]", strings.Join(roots, ","), strings.Join(doms, ","), strings.Join(recs, ";"))
}

func nz(b []byte) []byte {
	if b == nil {
		return []byte{}
	}
	return b
}

type opT struct {
	dry    bool
	sig    string
	method string
	name   []byte
	typ    int
	id     int
	data   []byte
	owner  int
	cmt    bool
	sigs   map[int]bool
}

func (w *world) parse(line string) opT {
	ws := strings.Fields(line)
	if len(ws) < 5 || ws[0] != "op" {
		w.run.T.Fatalf("bad op line %q", line)
	}
	o := opT{dry: ws[1] == "dry", sig: ws[2], method: ws[3], sigs: map[int]bool{}}
	if ws[1] != "dry" && ws[1] != "tx" {
		w.run.T.Fatalf("bad mode in %q", line)
	}
	if o.sig != "-" {
		for _, s := range strings.Split(o.sig, ",") {
			if s == "cmt" {
				o.cmt = true
			} else {
				k, err := strconv.Atoi(strings.TrimPrefix(s, "u"))
				if err != nil || k < 1 || k > nUsers {
					w.run.T.Fatalf("bad signer %q", s)
				}
				o.sigs[k] = true
			}
		}
	}
	a := ws[4:]
	need := map[string]int{"avail": 1, "tld": 1, "reg": 2, "add": 3, "set": 4, "get": 2}[o.method]
	if need == 0 || len(a) != need {
		w.run.T.Fatalf("bad op %q", line)
	}
	num := func(s string) int {
		n, err := strconv.Atoi(s)
		if err != nil {
			w.run.T.Fatalf("bad number in %q", line)
		}
		return n
	}
	o.name = hx.UnHex(a[0])
	switch o.method {
	case "reg":
		o.owner = num(strings.TrimPrefix(a[1], "u"))
	case "add":
		o.typ, o.data = num(a[1]), hx.UnHex(a[2])
	case "set":
		o.typ, o.id, o.data = num(a[1]), num(a[2]), hx.UnHex(a[3])
	case "get":
		o.typ = num(a[1])
	}
	return o
}

// execOp executes one op line and returns the observation line.
func (w *world) execOp(line string) string {
	o := w.parse(line)
	var signers []neotest.Signer
	var hashes []util.Uint160
	if o.cmt {
		signers = append(signers, w.c.Cmt)
		hashes = append(hashes, w.c.Cmt.ScriptHash())
	}
	for k := 1; k <= nUsers; k++ {
		if o.sigs[k] {
			signers = append(signers, w.users[k-1])
			hashes = append(hashes, w.users[k-1].ScriptHash())
		}
	}
	var method string
	var args []any
	switch o.method {
	case "avail":
		method, args = "isAvailable", []any{nz(o.name)}
	case "tld":
		method, args = "registerTLD", []any{nz(o.name), "e@x.y", int64(3600), int64(600), int64(tenYears), int64(3600)}
	case "reg":
		if o.owner < 1 || o.owner > nUsers {
			w.run.T.Fatalf("bad owner in %q", line)
		}
		method, args = "register", []any{nz(o.name), w.users[o.owner-1].ScriptHash(), "e@x.y", int64(3600), int64(600), int64(tenYears), int64(3600)}
	case "add":
		method, args = "addRecord", []any{nz(o.name), int64(o.typ), nz(o.data)}
	case "set":
		method, args = "setRecord", []any{nz(o.name), int64(o.typ), int64(o.id), nz(o.data)}
	case "get":
		method, args = "getRecords", []any{nz(o.name), int64(o.typ)}
	}
	var halt bool
	var stack []stackitem.Item
	if o.dry {
		halt, stack, _ = w.c.NsxDryRun(hashes, w.nns, method, args...)
	} else {
		r := w.c.Invoke(signers, w.nns, method, args...)
		halt, stack = r.Halt, r.Stack
		w.dirty = true
	}
	w.run.Count("op." + o.method)
	ret := "null"
	if halt && len(stack) == 1 {
		switch it := stack[0].(type) {
		case stackitem.Null:
		case *stackitem.Array:
			var hs []string
			for _, e := range it.Value().([]stackitem.Item) {
				hs = append(hs, hx.Hex(itemBytes(e)))
			}
			ret = "[" + strings.Join(hs, ",") + "]"
		default:
			b, err := it.TryBool()
			switch {
			case err != nil:
				ret = "?"
			case b:
				ret = "true"
			default:
				ret = "false"
			}
		}
	}
	obs := "FAULT"
	if halt {
		obs = "HALT ret=" + ret
		w.run.Count("out.halt." + o.method)
	} else {
		w.run.Count("out.fault." + o.method)
	}
	prev, prevDigest := w.st, w.digest
	if o.dry {
		obs += " | ="
	} else {
		w.st, w.digest = w.scan()
		obs += " | " + w.st.String()
	}
	if w.wf {
		// evaluated after the op line has been recorded (so that a reported case contains the failing op)
		w.pending = func() { w.monitor(line, o, halt, ret, prev, prevDigest) }
	}
	return obs
}

// record writes the op and its observation, then lets the monitor look at it
func (w *world) record(line, obs string) {
	w.run.Op(line, obs)
	if w.pending != nil {
		f := w.pending
		w.pending = nil
		f()
	}
}

// ---------------------------------------------------------------------------------------------
// monitor: C18 evaluated on the implementation's observations only

func labelsOf(name string) []string { return strings.Split(name, ".") }

func (w *world) monitor(line string, o opT, halt bool, ret string, prev nnsState, prevDigest string) {
	v := func(what, detail string) {
		site := map[string]string{"avail": "isAvailable", "tld": "registerTLD", "reg": "register", "add": "addRecord", "set": "setRecord", "get": "getRecords"}[o.method]
		w.run.Violation("C18", "nns."+site, what, detail+" after "+line)
	}
	name := string(o.name)
	okName := specName(o.name)
	labels := labelsOf(name)
	// (c) everything rejected leaves the state untouched; also nothing that did not HALT may change it
	if !o.dry {
		rejected := !halt || (o.method == "reg" && ret == "false")
		if rejected && w.digest != prevDigest {
			v("rejected-state-change", "a refused call changed the contract storage")
		}
		inputBad := !okName || ((o.method == "add" || o.method == "set") && !specData(o.typ, o.data))
		if inputBad && w.digest != prevDigest {
			v("malformed-input-state-change", fmt.Sprintf("name %q data %q type %d changed the contract storage", name, o.data, o.typ))
		}
	}
	// (d) nothing malformed is ever stored: everything this transaction added to or changed in the decoded storage
	if !o.dry && w.digest != prevDigest {
		for r := range w.st.roots {
			if !prev.roots[r] && !specName([]byte(r)) {
				v("stored-malformed", fmt.Sprintf("the storage holds the malformed root %q", r))
			}
		}
		for d := range w.st.doms {
			if _, had := prev.doms[d]; !had && !specName([]byte(d)) {
				v("stored-malformed", fmt.Sprintf("the storage holds the malformed name %q", d))
			}
		}
		for k, ds := range w.st.recs {
			p := strings.Split(k, "\x00")
			typ, _ := strconv.Atoi(p[2])
			old := prev.recs[k]
			if len(old) == 0 && !specName([]byte(p[1])) {
				v("stored-malformed", fmt.Sprintf("the storage holds a record of the malformed name %q", p[1]))
			}
			for i, d := range ds {
				if (i >= len(old) || old[i] != d) && !specData(typ, []byte(d)) {
					v("stored-malformed", fmt.Sprintf("the storage holds the malformed type %d record %q of %q", typ, d, p[1]))
				}
			}
		}
	}
	parentsRegistered := func(from int) bool {
		for i := from; i < len(labels); i++ {
			if _, ok := prev.doms[strings.Join(labels[i:], ".")]; !ok {
				return false
			}
		}
		return true
	}
	conflict := func() bool {
		if len(labels) < 2 {
			return false
		}
		parent := strings.Join(labels[1:], ".")
		for k, ds := range prev.recs {
			p := strings.Split(k, "\x00")
			if p[0] == parent && len(ds) > 0 && strings.HasSuffix(p[1], "."+name) {
				return true
			}
		}
		return false
	}
	authorised := func(dom string) bool {
		ow := prev.doms[dom]
		if ow == 0 {
			return o.cmt
		}
		return o.sigs[ow]
	}
	switch o.method {
	case "avail":
		if halt && !okName {
			v("accepts-invalid-name", fmt.Sprintf("isAvailable(%q) answered %s", name, ret))
		}
		if !halt && okName && (len(labels) == 1 || prev.roots[labels[len(labels)-1]]) {
			v("rejects-valid-name", fmt.Sprintf("isAvailable(%q) failed although the name is well-formed and its TLD exists", name))
		}
	case "tld":
		if halt && !(okName && len(labels) == 1) {
			v("accepts-invalid-name", fmt.Sprintf("registerTLD(%q) succeeded", name))
		}
		if !halt && okName && len(labels) == 1 && o.cmt && !prev.roots[name] {
			v("rejects-valid-name", fmt.Sprintf("registerTLD(%q) by the committee failed although the name is a well-formed, unregistered TLD", name))
		}
		if halt && !o.dry && !(w.st.roots[name] && hasDom(w.st, name)) {
			v("accepted-not-stored", fmt.Sprintf("registerTLD(%q) succeeded but the root is not in the storage", name))
		}
	case "reg":
		if halt && !okName {
			v("accepts-invalid-name", fmt.Sprintf("register(%q) answered %s", name, ret))
		}
		if okName && len(labels) >= 2 && prev.roots[labels[len(labels)-1]] && parentsRegistered(1) &&
			(len(labels) == 2 || authorised(strings.Join(labels[1:], "."))) && !conflict() && o.sigs[o.owner] {
			_, taken := prev.doms[name]
			want := "true"
			if taken {
				want = "false"
			}
			if !halt || ret != want {
				v("rejects-valid-name", fmt.Sprintf("register(%q) = %v/%s, expected %s: the name is well-formed and every other precondition holds", name, halt, ret, want))
			}
		}
		if halt && ret == "true" && !o.dry && w.st.doms[name] != o.owner {
			v("accepted-not-stored", fmt.Sprintf("register(%q) succeeded but the name state is not in the storage", name))
		}
	case "add", "set":
		okData := specData(o.typ, o.data)
		if halt && !okName {
			v("accepts-invalid-name", fmt.Sprintf("%sRecord on name %q succeeded", o.method, name))
		}
		if halt && !okData {
			v("accepts-invalid-data", fmt.Sprintf("%sRecord type %d data %q succeeded", o.method, o.typ, o.data))
		}
		// completeness where the harness can see that nothing else stands in the way: the name itself is
		// registered with all its parents, the signer is its owner, the slot is free
		if _, reg := prev.doms[name]; reg && okName && okData && len(labels) >= 2 && parentsRegistered(1) && authorised(name) {
			old := prev.recs[rkey(name, name, o.typ)]
			free := false
			if o.method == "add" {
				free = len(old) < 16 && !contains(old, string(o.data)) && !(o.typ == typCNAME && len(old) != 0)
			} else {
				free = o.id < len(old)
				for i, d := range old {
					if i != o.id && d == string(o.data) {
						free = false
					}
				}
			}
			if free && !halt {
				v("rejects-valid-data", fmt.Sprintf("%sRecord(%q, %d, %q) failed although name and data are well-formed, the signer owns the name and the slot is free", o.method, name, o.typ, o.data))
			}
			if free && halt && !o.dry {
				now := w.st.recs[rkey(name, name, o.typ)]
				idx := o.id
				if o.method == "add" {
					idx = len(old)
				}
				if idx >= len(now) || now[idx] != string(o.data) {
					v("accepted-not-stored", fmt.Sprintf("%sRecord(%q, %d, %q) succeeded but the record is not in the storage", o.method, name, o.typ, o.data))
				}
			}
		}
	case "get":
		if halt && !okName {
			v("accepts-invalid-name", fmt.Sprintf("getRecords(%q) answered %s", name, ret))
		}
	}
}

func hasDom(st nnsState, n string) bool { _, ok := st.doms[n]; return ok }

func contains(xs []string, x string) bool {
	for _, y := range xs {
		if x == y {
			return true
		}
	}
	return false
}

// ---------------------------------------------------------------------------------------------
// generation

type gen struct {
	t     *testing.T
	run   *hx.Run
	w     *world
	ncase int
	first []string
	kind  string
}

func H(s string) string { return hx.Hex([]byte(s)) }

// the state every dry-run case starts from
var baseSetup = []string{
	"op tx cmt tld " + H("aaa"),
	"op tx cmt tld " + H("zz9"),
	"op tx cmt tld " + H("a-z"),
	"op tx cmt tld " + H("tld-of-16-bytes0"),
	"op tx u1 reg " + H("a.aaa") + " u1",
	"op tx u1 reg " + H("z.aaa") + " u1",
	"op tx u1 reg " + H("zz.aaa") + " u1",
	"op tx u1 reg " + H("a.a.aaa") + " u1",
	"op tx u2 reg " + H("9.zz9") + " u2",
	// a record of a name two labels below z.aaa, held by z.aaa: "9.z.aaa" is not registered and cannot be
	// (conflicting record), isAvailable("9.z.aaa") = false
	"op tx u1 add " + H("x.9.z.aaa") + " 16 " + H("sub-name record held by z.aaa"),
	"op tx u1 add " + H("zz.aaa") + " 16 " + H("first"),
	"op tx u1 add " + H("zz.aaa") + " 16 " + H("second"),
	// setBase holds one valid record of every type at id 0: setRecord's data validation is only reachable
	// through an existing record of the same type and id ("invalid record id" otherwise)
	"op tx u1 add " + H(setBase) + " 1 " + H("8.8.8.8"),
	"op tx u1 add " + H(setBase) + " 28 " + H("2a00::1"),
	"op tx u1 add " + H(setBase) + " 5 " + H("zz.aaa"),
	"op tx u1 add " + H(setBase) + " 16 " + H("t0"),
	// TXT records at ids 1..3 whose texts are valid values of the other types: duplicates are a matter of ONE type,
	// setRecord(A/AAAA/CNAME, 0, <that text>) must be accepted
	"op tx u1 add " + H(setBase) + " 16 " + H("8.8.4.4"),
	"op tx u1 add " + H(setBase) + " 16 " + H("2a00::4"),
	"op tx u1 add " + H(setBase) + " 16 " + H("z.aaa"),
}

const recBase = "zz.aaa" // registered to u1; dry addRecord calls never fill its slots (TXT ids 0 and 1 only)
const setBase = "a.aaa"  // registered to u1; holds exactly one A, AAAA and CNAME record (id 0) and TXT records 0..3

// begin starts a case whose state is produced by the setup ops; the chain is reused when the previous case
// had the same setup and executed dry runs only.
func (g *gen) begin(kind string, setup []string) {
	key := strings.Join(setup, "\n")
	g.ncase++
	g.kind = kind
	g.first = nil
	id := fmt.Sprintf("s%d.%d.%d.%s", g.run.Seed, g.run.Shard, g.ncase, kind)
	if g.w != nil && !g.w.dirty && g.w.setupKey == key {
		g.run.Case(id, "wf")
		for i, l := range setup {
			g.run.Op(l, g.w.setupObs[i])
		}
		return
	}
	w := newWorld(g.t, g.run)
	w.wf = true
	g.run.Case(id, "wf")
	for _, l := range setup {
		obs := w.execOp(l)
		w.setupObs = append(w.setupObs, obs)
		w.record(l, obs)
	}
	w.setupKey = key
	w.dirty = false
	g.w = w
}

func (g *gen) op(l string) {
	obs := g.w.execOp(l)
	g.w.record(l, obs)
	if len(g.first) < 6 {
		g.first = append(g.first, l+"  =>  "+obs)
		if len(g.first) == 6 {
			g.run.Sample(g.kind + ":\n" + strings.Join(g.first, "\n"))
		}
	}
}

// chunked feeds items through f in cases of `per` items on the shared base state
func (g *gen) chunked(kind string, per int, n int, f func(i int)) {
	for i := 0; i < n; i++ {
		if i%per == 0 {
			g.begin(kind, baseSetup)
		}
		f(i)
	}
}

// nameOps: one string through every entry point that validates names
func (g *gen) nameOps(s string, all bool) {
	h := H(s)
	g.op("op dry - avail " + h)
	g.op("op dry u1 add " + H(recBase) + " 5 " + h)
	g.op("op dry u1 set " + H(setBase) + " 5 0 " + h)
	if all {
		g.op("op dry cmt tld " + h)
		g.op("op dry u1 reg " + h + " u1")
		g.op("op dry u1 add " + h + " 16 " + H("x"))
	}
}

const alphaName = "az09-.A_+ "

func nthString(alpha string, length, idx int) string {
	b := make([]byte, length)
	for i := length - 1; i >= 0; i-- {
		b[i] = alpha[idx%len(alpha)]
		idx /= len(alpha)
	}
	return string(b)
}

func pow(a, b int) int {
	r := 1
	for ; b > 0; b-- {
		r *= a
	}
	return r
}

// exhaustive: all strings over alpha with lengths lo..hi, sharded by index
func (g *gen) exhaustive(kind, alpha string, lo, hi int, f func(s string)) {
	var todo []string
	flush := func() {
		g.chunked(kind, 400, len(todo), func(i int) { f(todo[i]) })
		todo = todo[:0]
	}
	cnt, mine := 0, 0
	for l := lo; l <= hi; l++ {
		n := pow(len(alpha), l)
		for i := 0; i < n; i++ {
			if cnt%g.run.Shards == g.run.Shard {
				mine++
				todo = append(todo, nthString(alpha, l, i))
				if len(todo) == 4000 {
					flush()
				}
			}
			cnt++
		}
	}
	flush()
	g.run.Stats["exhaustive."+kind] += mine // strings of this shard; the shards together cover all of them
}

func randLabel(rng *rand.Rand, n int, firstLetter bool) string {
	const ln = "abcdefghijklmnopqrstuvwxyz0123456789"
	b := make([]byte, n)
	for i := range b {
		b[i] = ln[rng.IntN(len(ln))]
		if i > 0 && i < n-1 && rng.IntN(6) == 0 {
			b[i] = '-'
		}
	}
	if firstLetter && n > 0 {
		b[0] = ln[rng.IntN(26)]
	}
	return string(b)
}

var labelLens = []int{1, 1, 2, 3, 15, 16, 17, 62, 63, 64}
var tlds = []string{"aaa", "zz9", "a-z", "tld-of-16-bytes0", "neofs", "com", "tld-of-17-bytes00", "9aa", "a"}

// structured names: mostly valid, boundaries of every comparison in checkFragment / safeSplitAndCheck, then mutated
func (g *gen) structuredName(rng *rand.Rand) string {
	var labels []string
	n := 1 + rng.IntN(4)
	switch rng.IntN(12) {
	case 0: // total length at 253..257 with legal labels
		total := 253 + rng.IntN(5)
		tld := "aaa"
		rest := total - len(tld)
		for rest > 0 {
			k := 63
			if rest-1 < k {
				k = rest - 1
			}
			if k <= 0 {
				break
			}
			labels = append(labels, randLabel(rng, k, false))
			rest -= k + 1
		}
		labels = append(labels, tld)
		return strings.Join(labels, ".")
	case 1: // very short
		return hx.Pick(rng, []string{"", "a", "ab", "abc", "a.b", "a.", ".a", "..", "...", "a..", "ab.", "a1", "1ab", "ab1", "a-b", "ab-", "-ab", "a--b", "a.b.c"})
	}
	for i := 0; i < n-1; i++ {
		labels = append(labels, randLabel(rng, hx.Pick(rng, labelLens), false))
	}
	if rng.IntN(4) == 0 {
		labels = append(labels, randLabel(rng, hx.Pick(rng, []int{1, 2, 3, 15, 16, 17}), rng.IntN(5) != 0))
	} else {
		labels = append(labels, hx.Pick(rng, tlds))
	}
	s := strings.Join(labels, ".")
	if rng.IntN(3) != 0 {
		return s
	}
	b := []byte(s)
	if len(b) == 0 {
		return s
	}
	p := rng.IntN(len(b))
	switch rng.IntN(12) {
	case 0:
		b[p] = 'A' + byte(rng.IntN(26))
	case 1:
		b[p] = '-'
	case 2:
		b[p] = '.'
	case 3:
		b[p] = hx.Pick(rng, []byte{'_', ' ', '+', '/', '@', '`', '{', ':', 0, 0x7f})
	case 4:
		b[p] = hx.Pick(rng, []byte{0x80, 0xff, 0xc3})
	case 5:
		b = append(b[:p], append([]byte{0xc3, 0xa9}, b[p:]...)...) // é, valid UTF-8
	case 6:
		b = append(b, '.')
	case 7:
		b = append([]byte{'.'}, b...)
	case 8:
		b = append(b[:p], append([]byte{'-'}, b[p:]...)...)
	case 9:
		b = append(b[:p], b[p+1:]...)
	case 10:
		b[0] = hx.Pick(rng, []byte{'-', '0', '9', 'a'})
	case 11:
		b[len(b)-1] = hx.Pick(rng, []byte{'-', '0', 'z'})
	}
	return string(b)
}

var octets = []string{"0", "1", "2", "9", "10", "11", "99", "100", "126", "127", "128", "168", "169", "170", "171", "172", "173",
	"191", "192", "193", "223", "224", "225", "254", "255", "256", "260", "300", "999", "1000", "00", "01", "001", "010", "0255", "000",
	"+1", "-1", "+0", "-0", "+05", "1a", "a1", " 1", "1 ", "", "0x1", "1e1", "1_0", "1+1", "2-1", "\xff", "\xd9\xa1"}

func (g *gen) ipv4Structured(rng *rand.Rand, emit func(string)) {
	// the exclusion list: every comparison of v4excluded below, at and above its bound
	n0s := []int{0, 1, 9, 10, 11, 126, 127, 128, 168, 169, 170, 171, 172, 173, 191, 192, 193, 223, 224, 225, 254, 255}
	n1s := []int{0, 1, 15, 16, 17, 30, 31, 32, 167, 168, 169, 253, 254, 255}
	n3s := []int{0, 1, 254, 255}
	for _, a := range n0s {
		for _, b := range n1s {
			for _, d := range n3s {
				emit(fmt.Sprintf("%d.%d.%d.%d", a, b, rng.IntN(256), d))
			}
		}
	}
	// every octet shape at every position
	bases := [][]string{{"8", "8", "8", "8"}, {"1", "2", "3", "4"}, {"203", "0", "113", "77"}, {"223", "255", "255", "254"}}
	for _, base := range bases {
		for p := 0; p < 4; p++ {
			for _, o := range octets {
				q := append([]string{}, base...)
				q[p] = o
				emit(strings.Join(q, "."))
			}
		}
	}
	// group counts, separators, total length 6/7/15/16
	for _, s := range []string{"1.1.1.1", "1.1.1.", ".1.1.1", "1.1.1", "1.1.1.1.1", "1..1.1", "1.1..1", "1.1.1.1.", ".1.1.1.1", "1,1,1,1", "1:1:1:1",
		"223.255.255.254", "223.255.255.2540", "0223.255.255.254", "100.100.100.100", "100.100.100.1000", "1.1.1.01", "1.1.1.1 ", " 1.1.1.1",
		"1.2.3.4\n", "1.2.3.4\x00", "1.2.3", "1.2.3.4.5.6.7", "12345678", "....", ".......", "+1.2.3.4", "+05.2.3.4", "-1.2.3.4", "1.2.3.+4", "1.2.+3.4",
		"8.8.8.8", "08.8.8.8", "8.08.8.8", "8.8.08.8", "8.8.8.08", "8.8.8.256", "8.8.8.999999", "99999999.8.8.8", "8.8.8.0", "8.8.8.255", "8.8.0.1", "8.8.255.1",
		"8.8.8.1a", "8.8.8.a1", "8.8.1a.8", "8.1 .8.8", "1e1.8.8.8", "0x8.8.8.8", "8.8.8.8/24", "8.8.8.8:80"} {
		emit(s)
	}
}

var v6groups = []string{"2001", "2a00", "3fff", "2000", "1fff", "4000", "2002", "3ffe", "0", "00", "000", "0000", "1", "ffff", "FFFF", "fFfF", "f00", "F00",
	"200", "1ff", "db8", "0db8", "DB8", "dB8", "db7", "db9", "12345", "00000", "02001", "", "+1", "-1", "+001", "g", "0x1", "1 ", " 1", "fffff", "8000", "ff", "8", "80", "800",
	"abcd", "ABCD", "aBcD", "1.2.3.4", "\xff", "ｆ"}

func (g *gen) ipv6Structured(rng *rand.Rand, emit func(string)) {
	hexg := func() string {
		n := 1 + rng.IntN(4)
		const hd = "0123456789abcdefABCDEF"
		b := make([]byte, n)
		for i := range b {
			b[i] = hd[rng.IntN(len(hd))]
		}
		return string(b)
	}
	groups := func(n int, first string) []string {
		out := make([]string, n)
		for i := range out {
			out[i] = hexg()
		}
		if n > 0 && first != "" {
			out[0] = first
		}
		return out
	}
	firsts := []string{"2001", "2a00", "3fff", "2000", "2003", "3FFD", "2A0f"}
	// "::" at every position with every group count 0..9, well-formed groups
	for m := 0; m <= 9; m++ {
		for n := 0; m+n <= 9; n++ {
			for rep := 0; rep < 2; rep++ {
				f := hx.Pick(rng, firsts)
				a := groups(m, f)
				b := groups(n, "")
				if m == 0 && n > 0 && rep == 0 {
					b[0] = f
				}
				emit(strings.Join(a, ":") + "::" + strings.Join(b, ":"))
			}
		}
	}
	// uncompressed with 1..10 groups
	for n := 1; n <= 10; n++ {
		emit(strings.Join(groups(n, hx.Pick(rng, firsts)), ":"))
	}
	// every group shape at every position of a full and of a compressed address
	for p := 0; p < 8; p++ {
		for _, gs := range v6groups {
			a := groups(8, "2a00")
			a[p] = gs
			emit(strings.Join(a, ":"))
		}
	}
	for p := 0; p < 4; p++ {
		for _, gs := range v6groups {
			a := groups(2, "2a00")
			b := groups(2, "")
			if p < 2 {
				a[p] = gs
			} else {
				b[p-2] = gs
			}
			emit(strings.Join(a, ":") + "::" + strings.Join(b, ":"))
		}
	}
	// the range test: first and second group below, at and above every bound, both forms
	f0s := []string{"0", "1fff", "2000", "2001", "2002", "2003", "3ffd", "3ffe", "3fff", "4000", "8000", "ffff", "3FFE", "3FFF", "02001"}
	f1s := []string{"0", "1", "1ff", "200", "201", "db7", "db8", "db9", "DB8", "0db8", "8000", "ffff", "1FF"}
	for _, a := range f0s {
		for _, b := range f1s {
			emit(a + ":" + b + "::1")
			emit(a + ":" + b + ":0:0:0:0:0:1")
		}
		emit(a + "::")
		emit(a + "::1")
		emit("::" + a)
	}
	for _, s := range []string{"::", ":::", "::::", ":", "", "2a00:", ":2a00", "2a00::", "::2a00", "2a00:::", ":::2a00", "2a00:::1", "2a00::1::2", "2a00::1::", "::2a00::",
		"2a00:1:2:3:4:5:6:7", "2a00:1:2:3:4:5:6:7:", ":2a00:1:2:3:4:5:6:7", "2a00:1:2:3:4:5:6::", "2a00:1:2:3:4:5:6:7::", "::2a00:1:2:3:4:5:6", "::2a00:1:2:3:4:5:6:7",
		"2a00:1:2:3::5:6:7", "2a00:1:2:3::4:5:6:7", "2a00:1:2:3:4::5:6:7:8", "2003:1:2:3:4:5:6::", "2003::1:2:3:4:5:6", "2001:ffff::1", "2001:f00::1", "2001:FFFF::1",
		"2a00:ffff:ffff:ffff:ffff:ffff:ffff:ffff", "2a00:ffff:ffff:ffff:ffff:ffff:ffff:fffff", "2a00:0000:0000:0000:0000:0000:0000:00000",
		"2a00::1.2.3.4", "2a00::ffff:1.2.3.4", "2a00::1%eth0", "2a00::1%1", "[2a00::1]", "2a00::1/64", " 2a00::1", "2a00::1 ", "2a00::1\n", "2a00::\x001",
		"2a00::g", "2a00::+1", "2a00::-1", "2a00::0x1", "2a00:: 1", "2A00::1", "2a00::A", "2a00::a", "2a00.1::", "2a00;1::", "2a00::１",
		"2001:db8::1", "2001:0db8::1", "2001:DB8::1", "2001:200::1", "2001:1ff::1", "2001::1", "2001::", "2001:200::", "2002::1", "3ffe::1", "3fff::1", "4000::1", "1fff::1",
		"2a00:1:2:3:4:5:6:7:8:9", "1:2:3:4:5:6:7::", "::1:2:3:4:5:6:7", "2a00::1:2:3:4:5:6:7", "2a00:1:2:3:4:5:6:7::8"} {
		emit(s)
	}
}

func randBytes(rng *rand.Rand, n int, alpha string) string {
	b := make([]byte, n)
	for i := range b {
		if alpha == "" {
			b[i] = byte(rng.IntN(256))
		} else {
			b[i] = alpha[rng.IntN(len(alpha))]
		}
	}
	return string(b)
}

// dataOp: one datum through addRecord (free slot on recBase) and through setRecord (existing record of the same
// type at id 0 on setBase); both go through checkRecord, but each has its own code after it
func (g *gen) dataOp(typ int, s string) {
	g.op(fmt.Sprintf("op dry u1 add %s %d %s", H(recBase), typ, H(s)))
	g.op(fmt.Sprintf("op dry u1 set %s %d 0 %s", H(setBase), typ, H(s)))
}

// mine: the items of a list this shard is responsible for
func (g *gen) mine(xs []string) []string {
	if g.run.Shards <= 1 {
		return xs
	}
	var out []string
	for i, x := range xs {
		if i%g.run.Shards == g.run.Shard {
			out = append(out, x)
		}
	}
	return out
}

func (g *gen) generate() {
	thorough := g.run.Tier == "thorough"
	rng := g.run.Rand(0)
	// 1. names: exhaustive over the reduced alphabet
	full, more := 4, 0
	if thorough {
		full, more = 5, 7
	}
	// quick: the longest exhaustive stratum goes through isAvailable, CNAME addRecord and CNAME setRecord in full and
	// through registerTLD / register / the name argument of addRecord for every 4th string; thorough: everything
	kq := 0
	g.exhaustive("names-exh", alphaName, 0, full, func(s string) {
		kq++
		g.nameOps(s, thorough || len(s) < full || kq%4 == 0)
	})
	if more > full {
		g.exhaustive("names-exh-long", alphaName, full+1, more-1, func(s string) { g.nameOps(s, false) })
		// the longest stratum (10^7 strings): the CNAME path alone decides the validator; isAvailable for every 8th string
		k := 0
		g.exhaustive("names-exh-7", alphaName, more, more, func(s string) {
			g.op("op dry u1 add " + H(recBase) + " 5 " + H(s))
			if k++; k%8 == 0 {
				g.op("op dry - avail " + H(s))
			}
			if k%8 == 4 {
				g.op("op dry u1 set " + H(setBase) + " 5 0 " + H(s))
			}
		})
	} else {
		g.chunked("names-sample", 400, 1500, func(int) { g.nameOps(randBytes(rng, 5+rng.IntN(3), alphaName), true) })
	}
	// 2. names: structured, mostly valid, boundary lengths, mutated
	n := 1500
	if thorough {
		n = 6000
	}
	g.chunked("names-structured", 300, n, func(int) { g.nameOps(g.structuredName(rng), true) })
	// 3. A records
	var v4 []string
	g.ipv4Structured(rng, func(s string) { v4 = append(v4, s) })
	v4 = g.mine(v4)
	g.chunked("ipv4-structured", 500, len(v4), func(i int) { g.dataOp(typA, v4[i]) })
	const alpha4 = "01259.+-"
	// all "c.c.c.c" over the address alphabet (length 7 is the shortest accepted length)
	var quads []string
	for i := 0; i < pow(len(alpha4), 4); i++ {
		q := nthString(alpha4, 4, i)
		quads = append(quads, string([]byte{q[0], '.', q[1], '.', q[2], '.', q[3]}))
	}
	quads = g.mine(quads)
	g.chunked("ipv4-quads", 512, len(quads), func(i int) { g.dataOp(typA, quads[i]) })
	if thorough {
		g.exhaustive("ipv4-exh", alpha4, 0, 7, func(s string) { g.dataOp(typA, s) })
	}
	nr := 1500
	if thorough {
		nr = 8000
	}
	g.chunked("ipv4-random", 500, nr, func(int) {
		switch rng.IntN(3) {
		case 0:
			g.dataOp(typA, randBytes(rng, 6+rng.IntN(11), alpha4))
		case 1:
			g.dataOp(typA, fmt.Sprintf("%d.%d.%d.%d", rng.IntN(300), rng.IntN(260), rng.IntN(260), rng.IntN(260)))
		default:
			q := []string{hx.Pick(rng, octets), hx.Pick(rng, octets), hx.Pick(rng, octets), hx.Pick(rng, octets)}
			g.dataOp(typA, strings.Join(q, "."))
		}
	})
	// 4. AAAA records
	var v6 []string
	g.ipv6Structured(rng, func(s string) { v6 = append(v6, s) })
	v6 = g.mine(v6)
	g.chunked("ipv6-structured", 500, len(v6), func(i int) { g.dataOp(typAAAA, v6[i]) })
	const alpha6 = "0f:+"
	// every colon layout after a valid first group, short tails
	var tails []string
	for l := 0; l <= 6; l++ {
		for i := 0; i < pow(len(alpha6), l); i++ {
			tails = append(tails, nthString(alpha6, l, i))
		}
	}
	tails = g.mine(tails)
	g.chunked("ipv6-tails", 500, len(tails), func(i int) { g.dataOp(typAAAA, "2a0f"+tails[i]) })
	if thorough {
		g.exhaustive("ipv6-exh", "20aF:+g-", 0, 7, func(s string) { g.dataOp(typAAAA, s) })
	}
	g.chunked("ipv6-random", 500, nr, func(int) {
		switch rng.IntN(3) {
		case 0:
			g.dataOp(typAAAA, randBytes(rng, 2+rng.IntN(40), "0123456789abcdefABCDEF::::g+"))
		case 1:
			k := 3 + rng.IntN(8)
			q := make([]string, k)
			for i := range q {
				q[i] = hx.Pick(rng, v6groups)
			}
			q[0] = hx.Pick(rng, []string{"2001", "2a00", "3fff", "2003", ""})
			g.dataOp(typAAAA, strings.Join(q, ":"))
		default:
			g.dataOp(typAAAA, "2a00:"+randBytes(rng, rng.IntN(35), "0123456789abcdef:::"))
		}
	})
	// 5. TXT, unsupported types, non-UTF-8 data
	if g.run.Shard == 0 {
		g.begin("txt-and-types", baseSetup)
		for _, l := range []int{0, 1, 2, 100, 254, 255, 256, 257, 300, 1024, 1025} {
			g.dataOp(typTXT, randBytes(rng, l, "abc xyz.-"))
			g.dataOp(typTXT, randBytes(rng, l, ""))
		}
		for _, t := range []int{0, 2, 4, 6, 15, 17, 27, 29, 255, 256, 65537} {
			for _, d := range []string{"8.8.8.8", "a.aaa", "2a00::1", "text"} {
				g.dataOp(t, d)
			}
		}
		for _, t := range []int{typA, typCNAME, typTXT, typAAAA} {
			for _, d := range []string{"", "\xff", "\xc3\xa9", "8.8.8.8", "a.aaa", "2a00::1", "text", "8.8.8.8\xff", "a.aaa\xff", "2a00::1\xff", "\xff.aaa", "\xff8.8.8.8", "\xff:2a00::1"} {
				g.dataOp(t, d)
				g.op(fmt.Sprintf("op dry u1 set %s %d 0 %s", H(recBase), t, H(d)))
				g.op(fmt.Sprintf("op dry u1 set %s %d 1 %s", H(recBase), t, H(d)))
				g.op(fmt.Sprintf("op dry u1 set %s %d 2 %s", H(recBase), t, H(d)))
			}
		}
		// the text of a record of ANOTHER type of the same name at a different id is no duplicate (both directions)
		g.crossTypeProbes("dry")
		// setRecord: ids, signer sets, the identical value, the value of another id, a second CNAME
		for _, t := range []int{typA, typCNAME, typTXT, typAAAA} {
			good := map[int]string{typA: "8.8.8.8", typCNAME: "zz.aaa", typTXT: "t0", typAAAA: "2a00::1"}[t]
			other := map[int]string{typA: "1.2.3.4", typCNAME: "z.aaa", typTXT: "t1", typAAAA: "2a00::2"}[t]
			for _, sg := range []string{"-", "u1", "u2", "cmt", "u1,u2"} {
				for _, id := range []int{0, 1, 15, 16, 255} {
					g.op(fmt.Sprintf("op dry %s set %s %d %d %s", sg, H(setBase), t, id, H(good)))
					g.op(fmt.Sprintf("op dry %s set %s %d %d %s", sg, H(setBase), t, id, H(other)))
				}
				g.op(fmt.Sprintf("op dry %s add %s %d %s", sg, H(setBase), t, H(other)))
				g.op(fmt.Sprintf("op dry %s add %s %d %s", sg, H(setBase), t, H(good)))
			}
		}
		g.op(fmt.Sprintf("op dry u1 set %s 16 0 %s", H(recBase), H("second")))
		g.op(fmt.Sprintf("op dry u1 set %s 16 1 %s", H(recBase), H("first")))
		g.op(fmt.Sprintf("op dry u1 set %s 16 1 %s", H(recBase), H("second")))
		for _, nm := range []string{"zz.aaa", "a.aaa", "9.z.aaa", "x.9.z.aaa", "q.zz.aaa", "aaa", "zz9", "9.zz9", "b.zz9", "x.b.zz9", "ZZ.aaa", "zz.aaa.", ""} {
			for _, sg := range []string{"-", "u1", "u2", "cmt", "u1,u2", "cmt,u3"} {
				g.op(fmt.Sprintf("op dry %s add %s 16 %s", sg, H(nm), H("t")))
				g.op(fmt.Sprintf("op dry %s reg %s u1", sg, H(nm)))
				g.op(fmt.Sprintf("op dry %s reg %s u2", sg, H("n."+nm)))
				g.op(fmt.Sprintf("op dry %s tld %s", sg, H(nm)))
			}
			g.op("op dry - get " + H(nm) + " 16")
			g.op("op dry - avail " + H(nm))
			g.op("op dry - avail " + H("9."+nm))
		}
	}
	// 6. committed histories
	nh := 3
	if thorough {
		nh = 6
	}
	for i := 0; i < nh; i++ {
		g.history(g.run.Rand(1000 + i))
	}
	// 7. registered parent chains: the rules on the FULL name (3..255 bytes, every label) where all parents exist
	shapes := [][]int{{63, 63, 63}}
	if thorough {
		all := [][]int{{63, 63, 63}, {63, 63, 61}, {63, 63, 62}, {63, 63, 60}, {62, 62, 62}, {63, 62, 63}, {50, 50, 50, 50}, {40, 40, 40, 40, 40},
			{63, 63, 63, 59}, {63, 63, 1, 63}, {1, 63, 63, 63}, {63, 63, 58}, {30, 63, 63, 33}, {63, 63, 63, 58}, {20, 20, 20, 20, 20, 20, 20, 20, 20}, {63, 1, 63, 1, 63}}
		shapes = nil
		for i, sh := range all {
			if i%g.run.Shards == g.run.Shard {
				shapes = append(shapes, sh)
			}
		}
	}
	for i, sh := range shapes {
		g.chain(g.run.Rand(2000+i), sh)
	}
	// 8. duplicates are per type: committed
	if g.run.Shard == 0 {
		g.begin("cross-type", baseSetup)
		g.crossTypeProbes("tx")
	}
}

// crossTypeProbes: on setBase (A#0 8.8.8.8, AAAA#0 2a00::1, CNAME#0 zz.aaa, TXT#0..3 t0, 8.8.4.4, 2a00::4, z.aaa) set a record to
// the text that a record of another type holds at a different id. "record already exists" speaks of the records of one type
// (addRecord accepts every one of these values); the well-formed data must be accepted.
func (g *gen) crossTypeProbes(mode string) {
	n := H(setBase)
	for _, l := range []string{
		// second records of A and AAAA, so that the mirrored direction has a different id to collide with
		fmt.Sprintf("op %s u1 add %s 1 %s", mode, n, H("9.9.9.9")),
		fmt.Sprintf("op %s u1 add %s 28 %s", mode, n, H("2a00::9")),
		fmt.Sprintf("op %s u1 set %s 1 0 %s", mode, n, H("8.8.4.4")),  // = TXT#1
		fmt.Sprintf("op %s u1 set %s 28 0 %s", mode, n, H("2a00::4")), // = TXT#2
		fmt.Sprintf("op %s u1 set %s 5 0 %s", mode, n, H("z.aaa")),    // = TXT#3
		fmt.Sprintf("op %s u1 set %s 16 1 %s", mode, n, H("8.8.8.8")), // = A#0 (dry) / former A#0
		fmt.Sprintf("op %s u1 set %s 16 0 %s", mode, n, H("9.9.9.9")), // = A#1 when committed
		fmt.Sprintf("op %s u1 set %s 16 2 %s", mode, n, H("2a00::9")), // = AAAA#1 when committed
		fmt.Sprintf("op %s u1 set %s 16 3 %s", mode, n, H("zz.aaa")),  // = CNAME#0 (dry) / former CNAME#0
		fmt.Sprintf("op %s u1 set %s 1 1 %s", mode, n, H("8.8.4.4")),  // committed: now a real duplicate of A#0 -> refused
		fmt.Sprintf("op %s u1 add %s 1 %s", mode, n, H("2.2.2.2")),
		fmt.Sprintf("op %s u1 set %s 16 1 %s", mode, n, H("2.2.2.2")),
	} {
		g.op(l)
	}
	for _, t := range []int{typA, typAAAA, typCNAME, typTXT} {
		g.op(fmt.Sprintf("op dry - get %s %d", n, t))
	}
}

// chain registers com and then, level by level, labels of the given lengths (every level by u1, its parent's owner), and
// probes children of the deepest names: a well-formed label that brings the full name to 254/255 (accepted) and 256/257/…
// bytes (refused, nothing stored), the per-label rules below a registered parent, and the other entry points on the long
// names. Single calls cannot see these cases: without the registered chain register faults on the missing parent.
func (g *gen) chain(rng *rand.Rand, lens []int) {
	g.w = nil
	g.begin("chain", nil)
	w := g.w
	g.op("op tx cmt tld " + H("com"))
	parent := "com"
	var levels []string
	for _, n := range lens {
		nm := randLabel(rng, n, false) + "." + parent
		g.op(fmt.Sprintf("op tx u1 reg %s u1", H(nm)))
		if _, ok := w.st.doms[nm]; !ok {
			break // (refused by the contract: the monitor has spoken)
		}
		parent = nm
		levels = append(levels, nm)
	}
	probe := func(full string) {
		h := H(full)
		g.op("op dry - avail " + h)
		g.op("op dry u1 add " + h + " 16 " + H("t"))
		g.op("op dry u1 set " + h + " 16 0 " + H("t"))
		g.op("op dry - get " + h + " 16")
		g.op("op dry u1 add " + H(levels[0]) + " 5 " + h)
		g.op(fmt.Sprintf("op tx u1 reg %s u1", h))
		if _, ok := w.st.doms[full]; ok {
			g.op("op tx u1 add " + h + " 16 " + H("t"))
			g.op("op dry - get " + h + " 16")
			g.op("op dry - avail " + h)
		}
	}
	// children of the deepest registered name around the 255-byte limit
	children := func(p string) {
		seen := map[int]bool{}
		for _, total := range []int{253, 254, 255, 256, 257, 258, len(p) + 64, len(p) + 65, len(p) + 2} {
			k := total - len(p) - 1
			if k < 1 || k > 64 || seen[k] {
				continue
			}
			seen[k] = true
			probe(randLabel(rng, k, false) + "." + p)
		}
	}
	if len(levels) == 0 {
		return
	}
	children(parent)
	// a registered name of exactly 255 or 254 bytes is a parent, too: its children are 257..319 bytes long
	var long []string
	for d := range w.st.doms {
		if len(d) >= 254 && strings.HasSuffix(d, "."+parent) {
			long = append(long, d)
		}
	}
	sort.Strings(long)
	for _, d := range long {
		for _, k := range []int{1, 2, 63} {
			probe(randLabel(rng, k, false) + "." + d)
		}
	}
	// the per-label rules below a registered parent (total length well inside the limit)
	p := levels[0]
	for _, lab := range []string{"-a", "a-", "-", "A", "aB", "a_b", "a b", "", "a.", randLabel(rng, 64, false), randLabel(rng, 63, false), "a--b", "0", "\xc3\xa9", "a\xff"} {
		probe(lab + "." + p)
	}
	// the same below the deepest name when there is room
	if len(parent)+4 <= 255 {
		for _, lab := range []string{"-a", "A", "a_"} {
			probe(lab + "." + parent)
		}
	}
}

// history: transactions with state scans; valid and invalid arguments, several signer sets
func (g *gen) history(rng *rand.Rand) {
	g.w = nil
	g.begin("history", nil)
	w := g.w
	tpool := []string{"com", "org", "a-b", "x", "Com", "c0m", "0rg", "tld-of-16-bytes0", "tld-of-17-bytes00", "neofs"}
	lpool := []string{"a", "b1", "x-y", "9", "-a", "a-", "A", "a_b", "sixty-three-bytes-label-0123456789-0123456789-0123456789-0123456", "sixty-four-bytes-label-0123456789-0123456789-0123456789-01234567"}
	sigs := []string{"u1", "u1", "u1", "u2", "u2", "cmt", "-", "u1,u2", "cmt,u1", "u3"}
	datas := map[int][]string{
		typA:     {"8.8.8.8", "1.2.3.4", "203.0.113.7", "+1.2.3.4", "+05.2.3.4", "10.0.0.1", "192.168.1.1", "8.8.8.0", "08.8.8.8", "256.1.1.1", "1.2.3", "8.8.8.08", "172.32.0.1", "172.31.0.1", "1.1.1.1a"},
		typCNAME: {"a.com", "b1.org", "x", "com", "A.com", "a..com", "-a.com", "a.c-m", "a.9om", "a.b.c.d.com"},
		typTXT:   {"", "t", "hello world", strings.Repeat("x", 255), strings.Repeat("x", 256), "\xff\xfe", "8.8.8.8", "1.2.3.4", "2a00::1", "a.com", "b1.org"},
		typAAAA:  {"2a00::1", "2001:ffff::1", "2001:f00::1", "2003:1:2:3:4:5:6::", "2003::1:2:3:4:5:6", "2001:db8::1", "::1", "2a00:1:2:3:4:5:6:7:8", "2A00::AbCd", "2a00::12345", "2a00:::1", "fe80::1", "2a00::1.2.3.4"},
	}
	types := []int{typA, typCNAME, typTXT, typAAAA, typTXT, typA, typAAAA, typSOA, 0}
	known := func() []string {
		var ks []string
		for d := range w.st.doms {
			ks = append(ks, d)
		}
		sort.Strings(ks)
		return ks
	}
	nops := 140
	if g.run.Tier == "thorough" {
		nops = 300
	}
	for i := 0; i < nops; i++ {
		sg := hx.Pick(rng, sigs)
		switch r := rng.IntN(100); {
		case r < 12:
			s := "cmt"
			if rng.IntN(4) == 0 {
				s = sg
			}
			g.op(fmt.Sprintf("op tx %s tld %s", s, H(hx.Pick(rng, tpool))))
		case r < 40:
			var nm string
			ks := known()
			if rng.IntN(3) == 0 {
				nm = hx.Pick(rng, lpool) + "." + hx.Pick(rng, tpool)
			} else {
				nm = hx.Pick(rng, lpool) + "." + hx.Pick(rng, ks)
			}
			if rng.IntN(10) == 0 {
				nm = g.structuredName(rng)
			}
			owner := 1 + rng.IntN(nUsers)
			s := fmt.Sprintf("u%d", owner)
			if rng.IntN(4) == 0 {
				s = sg
			}
			if pl := strings.SplitN(nm, ".", 2); len(pl) == 2 && rng.IntN(3) != 0 {
				if ow := w.st.doms[pl[1]]; ow != 0 && ow != owner {
					s = fmt.Sprintf("u%d,u%d", owner, ow)
				}
			}
			g.op(fmt.Sprintf("op tx %s reg %s u%d", s, H(nm), owner))
		case r < 52:
			// setRecord on a record that exists (same type, id in range): the only way to its data validation.
			// Valid and malformed data alike; committed, so an accepted malformed value shows in the storage too.
			var keys []string
			for k, ds := range w.st.recs {
				if p := strings.Split(k, "\x00"); len(ds) > 0 && p[0] == p[1] {
					keys = append(keys, k)
				}
			}
			sort.Strings(keys)
			if len(keys) == 0 {
				ks := known()
				nm := hx.Pick(rng, ks)
				if ow := w.st.doms[nm]; ow != 0 {
					typ := hx.Pick(rng, []int{typA, typCNAME, typTXT, typAAAA})
					g.op(fmt.Sprintf("op tx u%d add %s %d %s", ow, H(nm), typ, H(datas[typ][0])))
				}
				break
			}
			k := hx.Pick(rng, keys)
			p := strings.Split(k, "\x00")
			typ, _ := strconv.Atoi(p[2])
			id := rng.IntN(len(w.st.recs[k]))
			if rng.IntN(8) == 0 {
				id = len(w.st.recs[k])
			}
			s := fmt.Sprintf("u%d", w.st.doms[p[1]])
			if rng.IntN(6) == 0 {
				s = sg
			}
			d := hx.Pick(rng, datas[typ])
			if rng.IntN(5) == 0 {
				d = g.structuredName(rng)
			}
			if rng.IntN(3) == 0 {
				// the text of a record of another type of the same name (duplicates are per type)
				var others []string
				for _, k2 := range keys {
					if p2 := strings.Split(k2, "\x00"); p2[1] == p[1] && p2[2] != p[2] {
						others = append(others, w.st.recs[k2]...)
					}
				}
				if len(others) > 0 {
					d = hx.Pick(rng, others)
				}
			}
			g.op(fmt.Sprintf("op tx %s set %s %d %d %s", s, H(p[1]), typ, id, H(d)))
			g.op(fmt.Sprintf("op dry - get %s %d", H(p[1]), typ))
		case r < 80:
			ks := known()
			nm := hx.Pick(rng, ks)
			switch rng.IntN(8) {
			case 0:
				nm = hx.Pick(rng, lpool) + "." + nm
			case 1:
				nm = g.structuredName(rng)
			}
			typ := hx.Pick(rng, types)
			ds := datas[typ]
			if ds == nil {
				ds = []string{"x"}
			}
			d := hx.Pick(rng, ds)
			if typ == typTXT && rng.IntN(2) == 0 {
				d = fmt.Sprintf("v%d", rng.IntN(40))
			}
			s := sg
			if ow := w.st.doms[nm]; ow != 0 && rng.IntN(4) != 0 {
				s = fmt.Sprintf("u%d", ow)
			}
			if rng.IntN(4) == 0 {
				g.op(fmt.Sprintf("op tx %s set %s %d %d %s", s, H(nm), typ, rng.IntN(4), H(d)))
			} else {
				g.op(fmt.Sprintf("op tx %s add %s %d %s", s, H(nm), typ, H(d)))
			}
			if typ != typSOA { // SOA contents (serial = block time) are outside this model
				g.op(fmt.Sprintf("op dry - get %s %d", H(nm), typ))
			}
		case r < 90:
			ks := known()
			nm := hx.Pick(rng, lpool) + "." + hx.Pick(rng, ks)
			g.op("op dry - avail " + H(nm))
		default:
			// fill one type of one name up to the limit of 16 records
			ks := known()
			nm := hx.Pick(rng, ks)
			if ow := w.st.doms[nm]; ow != 0 {
				for k := 0; k < 17; k++ {
					g.op(fmt.Sprintf("op tx u%d add %s 16 %s", ow, H(nm), H(fmt.Sprintf("fill-%d", k))))
				}
				i += 10
			}
		}
	}
}

func TestRun(t *testing.T) {
	run := hx.Open(t)
	defer run.Close()
	if run.Mode == "replay" {
		var w *world
		var first []string
		for _, l := range run.ReplayLines() {
			if strings.HasPrefix(l, "case ") {
				w = newWorld(t, run)
				f := strings.Fields(l)
				w.wf = len(f) > 2 && f[2] == "wf"
				run.Case(f[1], f[2:]...)
				continue
			}
			if w == nil {
				t.Fatal("op before case")
			}
			obs := w.execOp(l)
			w.record(l, obs)
			first = append(first, l+"  =>  "+obs)
		}
		if len(first) > 8 {
			first = first[:8]
		}
		// (checks/flow.py iterates over the samples of every run: a replay must record one, too)
		run.Sample("replay " + filepath.Base(run.OpsIn) + ":\n" + strings.Join(first, "\n"))
		return
	}
	g := &gen{t: t, run: run}
	t0 := time.Now()
	g.generate()
	// wall seconds of this shard's generation (shows whether the shards are balanced)
	run.Stats[fmt.Sprintf("seconds.shard%02d", run.Shard)] = int(time.Since(t0).Seconds() + 0.5)
}
