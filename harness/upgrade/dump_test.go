package upgrade

// The two recorded network dumps the repository ships (testdata/*-storage.csv) as further pre-upgrade
// storages: the TestNet dump is in the format before 0.16 (node structures without state, `notary` = false),
// the MainNet dump in the 0.16 format with the non-notary flag set and ballots recorded at heights far above
// this chain's (so they count as pending). Each contract's dumped storage is written into an executable with a
// matching version constant; the MainNet storages are used as they are (the upgrade must be refused: pending
// vote) and with the `ballots` item removed (the upgrade must go through and preserve the data).

import (
	"encoding/base64"
	"encoding/csv"
	"fmt"
	"os"
	"path/filepath"
	"sort"
	"testing"

	"github.com/nspcc-dev/neofs-contract/common"

	"verifharness/chainx"
	"verifharness/hx"
)

type dump struct {
	label   string
	file    string
	version int
}

func readDump(file, contract string) []chainx.KV {
	f, err := os.Open(file)
	if err != nil {
		return nil
	}
	defer f.Close()
	rows, err := csv.NewReader(f).ReadAll()
	if err != nil {
		return nil
	}
	var out []chainx.KV
	for _, r := range rows {
		if len(r) != 3 || r[0] != contract {
			continue
		}
		k, err1 := base64.StdEncoding.DecodeString(r[1])
		v, err2 := base64.StdEncoding.DecodeString(r[2])
		if err1 != nil || err2 != nil {
			continue
		}
		out = append(out, chainx.KV{K: k, V: v})
	}
	sort.Slice(out, func(i, j int) bool { return string(out[i].K) < string(out[j].K) })
	return out
}

func capN(bs [][]byte, n int) [][]byte {
	if len(bs) > n {
		return bs[:n]
	}
	return bs
}

// queriesFor picks the accounts / containers / owners of a storage the read API is asked about.
func queriesFor(kind string, kvs []chainx.KV) [][][]byte {
	var a, b [][]byte
	seen := map[string]bool{}
	add := func(l *[][]byte, x []byte) {
		if !seen[string(x)] {
			seen[string(x)] = true
			*l = append(*l, append([]byte{}, x...))
		}
	}
	for _, kv := range kvs {
		switch kind {
		case "balance":
			if len(kv.K) == 20 {
				add(&a, kv.K)
			}
		case "container":
			if len(kv.K) == 32 {
				add(&a, kv.K)
			}
			if len(kv.K) == 57 {
				add(&b, kv.K[:25])
			}
		case "neofsid":
			if len(kv.K) == 59 && kv.K[0] == 'o' {
				add(&a, kv.K[1:26])
			}
		}
	}
	switch kind {
	case "balance":
		return [][][]byte{append(capN(a, 12), bytesOf(20, 0xee))}
	case "container":
		return [][][]byte{append(capN(a, 12), bytesOf(32, 0xee)), append(capN(b, 8), bytesOf(25, 0xee))}
	case "neofsid":
		return [][][]byte{append(capN(a, 12), bytesOf(25, 0xee))}
	}
	return nil
}

func dumpCases(t testing.TB, run *hx.Run, sc *chainx.Scratch) int {
	dir := filepath.Join(chainx.Repo(), "testdata")
	v15 := common.PrevVersion
	if v15 >= 16000 {
		return 0 // the repository no longer supports the versions the dumps were taken from
	}
	dumps := []dump{
		{"testnet", filepath.Join(dir, "testnet-1254789-storage.csv"), v15},
		{"mainnet", filepath.Join(dir, "mainnet-3309907-storage.csv"), 16000},
	}
	ci := 0
	for _, d := range dumps {
		for _, kind := range []string{"balance", "container", "netmap", "neofsid"} {
			kvs := readDump(d.file, kind)
			if len(kvs) == 0 {
				continue
			}
			variants := [][]chainx.KV{kvs}
			if d.label == "mainnet" {
				var nb []chainx.KV
				for _, kv := range kvs {
					if string(kv.K) != "ballots" {
						nb = append(nb, kv)
					}
				}
				variants = append(variants, nb)
			}
			for vi, st := range variants {
				ci++
				rng := run.Rand(1_000_000 + ci)
				cs := caseSpec{id: fmt.Sprintf("dump.%s.%s.%d", d.label, kind, vi), kind: kind, n: hx.Pick(rng, []int{1, 4, 7}), v: d.version, wf: true}
				run.Count("dump")
				runCase(t, run, sc, cs, rng, st, queriesFor(kind, st))
			}
		}
	}
	return ci
}
