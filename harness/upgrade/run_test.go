// Correspondence harness for contract upgrades (property C16).
//
// An "old" contract is the CURRENT source of the repository under test compiled in a scratch copy with a
// patched common.Version and two added raw storage methods (chainx.Scratch). It is deployed, a synthetic
// pre-upgrade storage in the layout documented for that version is written, and `update` is invoked with
// the executable and manifest compiled from the repository under test itself, under different signer sets.
// Every operation prints: VM state, `version`, the whole raw storage, and the contract's read API for the
// accounts / containers / owners present. The Lean driver executes the same lines on the model.
// The monitor is an independent reading of the property on these observations (see monitor.go).
package upgrade

import (
	"fmt"
	"sort"
	"strconv"
	"strings"
	"testing"

	"github.com/nspcc-dev/neo-go/pkg/core/transaction"
	"github.com/nspcc-dev/neo-go/pkg/crypto/keys"
	"github.com/nspcc-dev/neo-go/pkg/io"
	"github.com/nspcc-dev/neo-go/pkg/neotest"
	"github.com/nspcc-dev/neo-go/pkg/smartcontract/callflag"
	"github.com/nspcc-dev/neo-go/pkg/util"
	"github.com/nspcc-dev/neo-go/pkg/vm/emit"
	"github.com/nspcc-dev/neo-go/pkg/vm/stackitem"
	"github.com/nspcc-dev/neo-go/pkg/wallet"
	"github.com/nspcc-dev/neofs-contract/common"

	"verifharness/chainx"
	"verifharness/hx"
)

var allKinds = []string{"balance", "container", "netmap", "nns", "neofsid", "alphabet", "audit", "reputation",
	"proxy", "neofs", "processing"}

// inner version thresholds of the `_deploy` update branches (the values the model compares with)
var innerThresholds = map[string][]int{
	"balance": {17000, 20000}, "container": {17000}, "netmap": {16000, 17000, 19000}, "nns": {18000},
	"neofsid": {17000, 19000}, "alphabet": {17000}, "audit": {17000}, "reputation": {17000},
}

// versionsFor: below / at / above every bound the gate and the contract's migration compare with. The two
// gate bounds are those of the repository under test.
func versionsFor(kind string) []int {
	p, v := common.PrevVersion, common.Version
	set := map[int]bool{p - 1: true, p: true, p + 1: true, v - 1: true, v: true, v + 1: true}
	for _, t := range innerThresholds[kind] {
		set[t-1] = true
		set[t] = true
	}
	var out []int
	for x := range set {
		if x > 0 {
			out = append(out, x)
		}
	}
	sort.Ints(out)
	return out
}

// bigFee: system fee of raw loads and of `update` (the migration of a recorded dump rewrites hundreds of items)
const bigFee = 1500_0000_0000

type world struct {
	t       testing.TB
	run     *hx.Run
	c       *chainx.Chain
	kind    string
	n       int
	v       int
	wf      bool
	h       util.Uint160 // the contract that gets updated
	updated bool
	newNef  []byte
	newMan  []byte
	netmap  util.Uint160
	users   map[int]neotest.Signer
	q       [][][]byte  // current query groups
	alpha   *alphaWorld // Alphabet cases: the contract's surroundings
	gate    bool        // directed gate case (see caseSpec.gate)
	nefOk   bool        // the last update passed a valid executable
	sigLine string      // signer tags of the last update
	// NeoFSAlphabet designations made so far: the list is in force from block `from` on (neo-go stores a designation
	// executed in block N under index N+1; getDesignatedByRole(role, index) answers the latest one stored at or below
	// index, and the contracts ask for CurrentIndex()+1 = the index of the block they execute in)
	desigs     []desig
	lastHeight uint32 // block of the last designation
}

func pubs(c *chainx.Chain, ids []int) [][]byte {
	accs := chainx.MemberAccounts(c.N)
	out := make([][]byte, len(ids))
	for i, id := range ids {
		out[i] = accs[id].PublicKey().Bytes()
	}
	return out
}

func anyBytes(bs [][]byte) []any {
	out := make([]any, len(bs))
	for i := range bs {
		out[i] = bs[i]
	}
	return out
}

// setupAbort ends the set-up of a case that cannot be built because the contracts under test refused a step the
// property itself speaks about (reported through the monitor before the panic); the case is skipped.
type setupAbort struct{}

// setupFailed: a set-up transaction FAULTed. Where the failing call is a committee-gated NNS call and the transaction
// carried the genuine committee-majority witness (the n/2+1 account c.Cmt signs every set-up step) - recognisable
// without ambiguity by the panic text of nns.checkCommittee, the only place that raises it - this is an observation
// about the gate, not a harness problem: it goes to the monitor and the case is skipped. Everything else stays a crash.
func (w *world) setupFailed(site, what string, r chainx.Result) {
	if strings.Contains(r.Fault, "not witnessed by committee") {
		w.run.Violation(prop, site, "committee-majority-rejected", fmt.Sprintf(
			"set-up (%s) with the witness of the %d-of-%d committee-majority account was refused by the NNS committee check: %s",
			what, w.n/2+1, w.n, r.Fault))
		panic(setupAbort{})
	}
	w.t.Fatalf("%s failed: %s", what, r.Fault)
}

func (w *world) mustDeploy(ct *neotest.Contract, data any) util.Uint160 {
	h, r := w.c.DeployFresh(ct, data)
	if !r.Halt {
		// the only committee-gated NNS call a deployment makes is Container's registerTLD
		w.setupFailed("nns.registerTLD", "deployment of "+ct.Manifest.Name, r)
	}
	return h
}

// registerNNS registers <name>.neofs with a TXT record holding the hash; signed by the committee majority (which
// is also the owner of the name), as chainx.RegisterNNS does, but a refusal is classified instead of fatal.
func (w *world) registerNNS(name string, h util.Uint160) {
	const msPerYear = 365 * 24 * 3600 * 1000
	c := w.c
	r := c.Invoke([]neotest.Signer{c.Cmt}, c.NNSHash(), "register", name+".neofs", c.Cmt.ScriptHash(), "ops@nspcc.ru",
		int64(3600), int64(600), int64(10*msPerYear), int64(3600))
	if !r.Halt {
		w.setupFailed("nns.register", "register "+name+".neofs", r)
	}
	r = c.Invoke([]neotest.Signer{c.Cmt}, c.NNSHash(), "addRecord", name+".neofs", int64(16), h.StringLE())
	if !r.Halt {
		w.setupFailed("nns.addRecord", "addRecord "+name+".neofs", r)
	}
}

func (w *world) deployNetmapDep() {
	w.mustDeploy(w.c.Compile("nns"), []any{[]any{[]any{"neofs", "ops@nspcc.io"}}})
	w.netmap = w.mustDeploy(w.c.Compile("netmap"), []any{false, util.Uint160{}, util.Uint160{},
		[]any{w.c.Members[0].Account().PublicKey().Bytes()}, []any{}})
	w.registerNNS("netmap", w.netmap)
}

func newWorld(t testing.TB, run *hx.Run, sc *chainx.Scratch, cs caseSpec) *world {
	kind, n, v, wf := cs.kind, cs.n, cs.v, cs.wf
	w := &world{t: t, run: run, kind: kind, n: n, v: v, wf: wf, users: map[int]neotest.Signer{}, gate: cs.gate}
	if kind == "alphabet" {
		w.c = chainx.New(t, n, notaryChain) // with the native Notary contract
	} else {
		w.c = chainx.New(t, n)
	}
	c := w.c
	old := c.CompileOld(sc, kind, v)
	switch kind {
	case "nns":
		w.h = w.mustDeploy(old, []any{[]any{[]any{"neofs", "ops@nspcc.io"}}})
	case "balance":
		w.deployNetmapDep()
		w.h = w.mustDeploy(old, []any{false, util.Uint160{}, util.Uint160{}})
	case "container":
		w.deployNetmapDep()
		w.h = w.mustDeploy(old, []any{false, w.netmap, util.Uint160{1}, util.Uint160{2}, c.NNSHash(), "container"})
	case "netmap":
		w.h = w.mustDeploy(old, []any{false, util.Uint160{}, util.Uint160{},
			[]any{c.Members[0].Account().PublicKey().Bytes()}, []any{[]byte("ContainerFee"), []byte{0xe8, 0x03}}})
	case "neofsid":
		w.h = w.mustDeploy(old, []any{false, nil, nil, nil, nil})
	case "alphabet":
		w.setupAlphabet(sc, old, cs)
	case "audit", "proxy":
		w.h = w.mustDeploy(old, nil)
	case "reputation":
		w.h = w.mustDeploy(old, []any{false})
	case "neofs":
		w.h = w.mustDeploy(old, []any{false, util.Uint160{5}, anyBytes(pubs(c, []int{0})), []any{}})
	case "processing":
		w.h = w.mustDeploy(old, []any{util.Uint160{6}})
	default:
		t.Fatalf("unknown contract kind %q", kind)
	}
	w.newNef, w.newMan = chainx.NefManifest(t, c.Compile(kind))
	return w
}

// ---------------------------------------------------------------- raw storage

func (w *world) scan() []chainx.KV { return w.c.Scan(w.h) }

// load replaces the whole storage of the contract by kvs (raw methods of the scratch executable).
func (w *world) load(kvs []chainx.KV) bool {
	want := map[string][]byte{}
	for _, kv := range kvs {
		want[string(kv.K)] = kv.V
	}
	var txs []*transaction.Transaction
	bw := io.NewBufBinWriter()
	flush := func() {
		if bw.Len() == 0 {
			return
		}
		txs = append(txs, w.c.NewScriptTxFee(nil, bw.Bytes(), bigFee))
		bw = io.NewBufBinWriter()
	}
	for _, kv := range w.scan() {
		if _, ok := want[string(kv.K)]; !ok {
			emit.AppCall(bw.BinWriter, w.h, "verifDelete", callflag.All, kv.K)
			if bw.Len() > 30000 {
				flush()
			}
		}
	}
	for _, kv := range kvs {
		emit.AppCall(bw.BinWriter, w.h, "verifPut", callflag.All, kv.K, kv.V)
		if bw.Len() > 30000 {
			flush()
		}
	}
	flush()
	if len(txs) == 0 {
		txs = append(txs, w.c.NewScriptTx(nil, []byte{0x21})) // NOP: the op still takes one block
	}
	ok := true
	for _, r := range w.c.Exec(txs...) {
		ok = ok && r.Halt
	}
	return ok
}

// ---------------------------------------------------------------- op line syntax

func attr(fs []string, key string) string {
	for _, f := range fs {
		if strings.HasPrefix(f, key+"=") {
			return f[len(key)+1:]
		}
	}
	return ""
}

func parseKVs(s string) []chainx.KV {
	if s == "-" || s == "" {
		return nil
	}
	var out []chainx.KV
	for _, e := range strings.Split(s, ",") {
		p := strings.SplitN(e, ":", 2)
		out = append(out, chainx.KV{K: hx.UnHex(p[0]), V: hx.UnHex(p[1])})
	}
	return out
}

func fmtKVs(kvs []chainx.KV) string {
	if len(kvs) == 0 {
		return "-"
	}
	parts := make([]string, len(kvs))
	for i, kv := range kvs {
		parts[i] = hx.Hex(kv.K) + ":" + hx.Hex(kv.V)
	}
	return strings.Join(parts, ",")
}

func parseQueries(s string) [][][]byte {
	var out [][][]byte
	for _, g := range strings.Split(s, "/") {
		var grp [][]byte
		if g != "-" && g != "" {
			for _, x := range strings.Split(g, ",") {
				grp = append(grp, hx.UnHex(x))
			}
		}
		out = append(out, grp)
	}
	return out
}

func fmtQueries(q [][][]byte) string {
	if len(q) == 0 {
		return "-"
	}
	gs := make([]string, len(q))
	for i, g := range q {
		if len(g) == 0 {
			gs[i] = "-"
			continue
		}
		xs := make([]string, len(g))
		for j := range g {
			xs[j] = hx.Hex(g[j])
		}
		gs[i] = strings.Join(xs, ",")
	}
	return strings.Join(gs, "/")
}

func parseIDs(s string) []int {
	if s == "-" || s == "" {
		return nil
	}
	var out []int
	for _, x := range strings.Split(s, "-") {
		n, err := strconv.Atoi(x)
		if err != nil {
			panic("bad id list " + s)
		}
		out = append(out, n)
	}
	return out
}

func fmtIDs(ids []int) string {
	if len(ids) == 0 {
		return "-"
	}
	xs := make([]string, len(ids))
	for i := range ids {
		xs[i] = strconv.Itoa(ids[i])
	}
	return strings.Join(xs, "-")
}

// signer tags: m<m>.<id>-<id>… | s<id> | u<id>
func (w *world) signer(tag string) neotest.Signer {
	switch tag[0] {
	case 'm':
		p := strings.SplitN(tag[1:], ".", 2)
		m, _ := strconv.Atoi(p[0])
		return chainx.MultiSigOf(parseIDs(p[1]), w.n, m)
	case 's':
		i, _ := strconv.Atoi(tag[1:])
		return w.c.Members[i]
	case 'u':
		i, _ := strconv.Atoi(tag[1:])
		if _, ok := w.users[i]; !ok { // not funded (the payer pays): using it must not cost a block
			w.users[i] = neotest.NewSingleSigner(wallet.NewAccountFromPrivateKey(chainx.Key(fmt.Sprintf("user-stranger%d", i))))
		}
		return w.users[i]
	}
	panic("bad signer tag " + tag)
}

func parseScalar(s string) any {
	switch {
	case s == "n":
		return nil
	case s == "t":
		return true
	case s == "f":
		return false
	case strings.HasPrefix(s, "i"):
		return hx.Big(s[1:])
	case strings.HasPrefix(s, "b"):
		b := hx.UnHex(s[1:])
		if b == nil {
			b = []byte{}
		}
		return b
	}
	panic("bad item " + s)
}

func parseItem(s string) any {
	if strings.HasPrefix(s, "A(") && strings.HasSuffix(s, ")") {
		inner := s[2 : len(s)-1]
		arr := []any{}
		if inner != "" {
			for _, x := range strings.Split(inner, ";") {
				arr = append(arr, parseScalar(x))
			}
		}
		return arr
	}
	return parseScalar(s)
}

// ---------------------------------------------------------------- rendering (mirrors Driver/Upgrade.lean)

func showItem(it stackitem.Item) string {
	switch v := it.(type) {
	case stackitem.Null:
		return "n"
	case stackitem.Bool:
		if bool(v) {
			return "t"
		}
		return "f"
	case *stackitem.BigInteger:
		return "i" + v.Big().String()
	case *stackitem.ByteArray:
		return "b" + hx.Hex(v.Value().([]byte))
	case *stackitem.Buffer:
		return "u" + hx.Hex(v.Value().([]byte))
	case *stackitem.Array:
		return "A[" + showItems(v.Value().([]stackitem.Item)) + "]"
	case *stackitem.Struct:
		return "S[" + showItems(v.Value().([]stackitem.Item)) + "]"
	}
	return "?"
}

func showItems(l []stackitem.Item) string {
	xs := make([]string, len(l))
	for i := range l {
		xs[i] = showItem(l[i])
	}
	return strings.Join(xs, ",")
}

func fieldsStr(it stackitem.Item) string {
	l, ok := it.Value().([]stackitem.Item)
	if !ok {
		return "?"
	}
	xs := make([]string, len(l))
	for i, f := range l {
		switch v := f.(type) {
		case stackitem.Null:
			xs[i] = "-"
		case *stackitem.ByteArray:
			xs[i] = hx.Hex(v.Value().([]byte))
		case *stackitem.Buffer:
			xs[i] = hx.Hex(v.Value().([]byte))
		default:
			xs[i] = "?"
		}
	}
	return strings.Join(xs, "/")
}

// call test-invokes a getter; ok=false when it FAULTs.
func (w *world) call(method string, args ...any) (stackitem.Item, bool) {
	st, err := w.c.Call(w.h, method, args...)
	if err != nil || len(st) != 1 {
		return nil, false
	}
	return st[0], true
}

func (w *world) callInt(method string, args ...any) string {
	it, ok := w.call(method, args...)
	if !ok {
		return "!"
	}
	z, err := it.TryInteger()
	if err != nil {
		return "!"
	}
	return z.String()
}

func (w *world) callBytesList(method string, args ...any) ([][]byte, bool) {
	it, ok := w.call(method, args...)
	if !ok {
		return nil, false
	}
	if _, isNull := it.(stackitem.Null); isNull {
		return nil, true
	}
	l, isArr := it.Value().([]stackitem.Item)
	if !isArr {
		return nil, false
	}
	out := make([][]byte, len(l))
	for i := range l {
		b, err := l[i].TryBytes()
		if err != nil {
			return nil, false
		}
		out[i] = b
	}
	return out, true
}

func hexList(bs [][]byte) string {
	xs := make([]string, len(bs))
	for i := range bs {
		xs[i] = hx.Hex(bs[i])
	}
	return strings.Join(xs, ";")
}

func grp(q [][][]byte, i int) [][]byte {
	if i < len(q) {
		return q[i]
	}
	return nil
}

func (w *world) view(q [][][]byte) string {
	var sb strings.Builder
	switch w.kind {
	case "balance":
		var bal []string
		for _, a := range grp(q, 0) {
			bal = append(bal, hx.Hex(a)+":"+w.callInt("balanceOf", a))
		}
		fmt.Fprintf(&sb, " sup=%s bal=[%s]", w.callInt("totalSupply"), strings.Join(bal, ";"))
	case "container":
		all, _ := w.callBytesList("list", []byte{})
		var gets, owns, lsts, eacl, alias []string
		for _, cid := range grp(q, 0) {
			g := "!"
			if it, ok := w.call("get", cid); ok {
				g = fieldsStr(it)
			}
			gets = append(gets, hx.Hex(cid)+":"+g)
			o := "!"
			if it, ok := w.call("owner", cid); ok {
				b, _ := it.TryBytes()
				o = hx.Hex(b)
			}
			owns = append(owns, hx.Hex(cid)+":"+o)
			e := "!"
			if it, ok := w.call("eACL", cid); ok {
				e = fieldsStr(it)
			}
			eacl = append(eacl, hx.Hex(cid)+":"+e)
			a := "!"
			if it, ok := w.call("alias", cid); ok {
				if _, isNull := it.(stackitem.Null); isNull {
					a = "null"
				} else {
					b, _ := it.TryBytes()
					a = hx.Hex(b)
				}
			}
			alias = append(alias, hx.Hex(cid)+":"+a)
		}
		for _, o := range grp(q, 1) {
			l, _ := w.callBytesList("list", o)
			lsts = append(lsts, hx.Hex(o)+":["+hexList(l)+"]")
		}
		fmt.Fprintf(&sb, " cnt=%s all=[%s] get=[%s] own=[%s] lst=[%s] eacl=[%s] alias=[%s]", w.callInt("count"),
			hexList(all), strings.Join(gets, ";"), strings.Join(owns, ";"), strings.Join(lsts, ";"),
			strings.Join(eacl, ";"), strings.Join(alias, ";"))
	case "netmap":
		epoch := "!"
		if it, ok := w.call("epoch"); ok {
			if _, isNull := it.(stackitem.Null); isNull {
				epoch = "null"
			} else if z, err := it.TryInteger(); err == nil {
				epoch = z.String()
			}
		}
		item := func(method string, args ...any) string {
			if it, ok := w.call(method, args...); ok {
				return showItem(it)
			}
			return "!"
		}
		cand := "!"
		if it, ok := w.call("netmapCandidates"); ok {
			if l, isArr := it.Value().([]stackitem.Item); isArr {
				cand = "[" + showItems(l) + "]"
			}
		}
		var snaps, cfg, subs []string
		for _, d := range []int{0, 1, 2, 9, 10, 11} {
			snaps = append(snaps, fmt.Sprintf("%d:%s", d, item("snapshot", d)))
		}
		if it, ok := w.call("listConfig"); ok {
			if l, isArr := it.Value().([]stackitem.Item); isArr {
				for _, r := range l {
					f := r.Value().([]stackitem.Item)
					k, _ := f[0].TryBytes()
					v, _ := f[1].TryBytes()
					cfg = append(cfg, hx.Hex(k)+"="+hx.Hex(v))
				}
			}
		}
		for _, kv := range w.scan() { // no getter exists for the subscribers: decoded from raw storage
			if len(kv.K) >= 2 && kv.K[0] == 'e' {
				subs = append(subs, hx.Hex(kv.K[2:]))
			}
		}
		fmt.Fprintf(&sb, " epoch=%s nm=%s cand=%s snap=[%s] cfg=[%s] subs=[%s]", epoch, item("netmap"), cand,
			strings.Join(snaps, ";"), strings.Join(cfg, ";"), strings.Join(subs, ";"))
	case "nns":
		var bal []string
		for _, o := range grp(q, 0) {
			bal = append(bal, hx.Hex(o)+":"+w.callInt("balanceOf", o))
		}
		fmt.Fprintf(&sb, " sup=%s bal=[%s]", w.callInt("totalSupply"), strings.Join(bal, ";"))
	case "neofsid":
		var ks []string
		for _, o := range grp(q, 0) {
			l, _ := w.callBytesList("key", o)
			ks = append(ks, hx.Hex(o)+":["+hexList(l)+"]")
		}
		fmt.Fprintf(&sb, " keys=[%s]", strings.Join(ks, ";"))
	case "alphabet":
		fmt.Fprintf(&sb, " name=%s", w.nameAnswer())
	}
	return sb.String()
}

func (w *world) version() string { return w.callInt("version") }

func showRaw(kvs []chainx.KV) string {
	xs := make([]string, len(kvs))
	for i, kv := range kvs {
		xs[i] = hx.Hex(kv.K) + "=" + hx.Hex(kv.V)
	}
	return strings.Join(xs, ";")
}

func (w *world) obs(halt bool, q [][][]byte) string {
	st := "FAULT"
	if halt {
		st = "HALT"
	}
	ex := ""
	if w.kind == "alphabet" {
		ex = ledgerView(w.ledger(w.alpha.acc))
	}
	return fmt.Sprintf("%s | ver=%s raw=[%s]%s%s", st, w.version(), showRaw(w.scan()), w.view(q), ex)
}

// ---------------------------------------------------------------- execution of one op line

// execOp executes an op line and returns the (possibly completed) op line and the observation.
// The block height the contract sees (`ledger.CurrentIndex()`) is known only after execution, so
// `h=?` is replaced by the real value.
func (w *world) execOp(line string) (string, string) {
	fs := strings.Fields(line)
	q := parseQueries(attr(fs, "q"))
	w.q = q
	switch fs[1] {
	case "load":
		w.run.Count("op.load")
		if w.kind == "alphabet" {
			fs, _, _, _ = w.fillAlpha(fs, nil)
			line = strings.Join(fs, " ")
		}
		if w.updated {
			r := w.c.Invoke(nil, w.h, "verifPut", []byte{1}, []byte{1})
			if r.Halt {
				w.t.Fatalf("raw method still present after update")
			}
			return line, w.obs(false, q)
		}
		if !w.load(parseKVs(attr(fs, "kv"))) {
			w.t.Fatalf("raw load failed")
		}
		return line, w.obs(true, q)
	case "designate":
		// re-designation of the NeoFS Alphabet by the committee, in a block of its own; the next operation goes into
		// the block immediately after it
		w.run.Count("op.designate")
		if w.kind == "alphabet" {
			fs, _, _, _ = w.fillAlpha(fs, nil)
		}
		w.designate(parseIDs(attr(fs, "role")))
		for i, f := range fs {
			if strings.HasPrefix(f, "h=") {
				fs[i] = fmt.Sprintf("h=%d", int(w.lastHeight)-1)
			}
		}
		return strings.Join(fs, " "), w.obs(true, q)
	case "update":
		w.run.Count("op.update")
		var signers []neotest.Signer
		sig := attr(fs, "sig")
		if sig != "-" {
			for _, tag := range strings.Split(sig, ",") {
				signers = append(signers, w.signer(tag))
			}
		}
		nef := w.newNef
		w.nefOk, w.sigLine = attr(fs, "nef") != "bad", sig
		if attr(fs, "nef") == "bad" {
			nef = append([]byte{}, nef[:len(nef)/2]...)
		}
		data := parseItem(attr(fs, "data"))
		var led []ledgerEntry
		var blobs, ir [][]byte
		nameBefore := ""
		if w.kind == "alphabet" {
			fs, led, blobs, ir = w.fillAlpha(fs, data)
			nameBefore = w.nameAnswer()
		}
		pend := w.before()
		r := w.c.InvokeFee(signers, bigFee, w.h, "update", nef, w.newMan, data)
		seen := int(r.Height) - 1 // ledger.CurrentIndex() during the execution of block r.Height
		for i, f := range fs {
			if strings.HasPrefix(f, "h=") {
				fs[i] = fmt.Sprintf("h=%d", seen)
			}
		}
		line = strings.Join(fs, " ")
		if r.Halt {
			w.updated = true
			w.run.Count("out.update.halt")
		} else {
			w.run.Count("out.update.fault")
		}
		// the Alphabet in force for the block the update executed in (not what the op line says)
		role := w.roleInForce(r.Height)
		if w.lastHeight != 0 && r.Height == w.lastHeight+1 {
			w.run.Count("update.right-after-designation")
		}
		w.after(pend, signers, role, r)
		if w.kind == "alphabet" {
			w.alphaMonitor(pend.pre, pend.preVer, data, led, blobs, ir, r, nameBefore)
		}
		return line, w.obs(r.Halt, q)
	}
	w.t.Fatalf("bad op line %q", line)
	return "", ""
}

type desig struct {
	from uint32
	ids  []int
}

// roleInForce: the NeoFS Alphabet a transaction executed in block b has to obey.
func (w *world) roleInForce(b uint32) []int {
	var cur []int
	for _, d := range w.desigs {
		if d.from <= b {
			cur = d.ids
		}
	}
	return cur
}

// designate sets the NeoFSAlphabet role (set-up of main-chain / Alphabet cases, and the `designate` op): one block.
func (w *world) designate(role []int) {
	if len(role) == 0 {
		return
	}
	accs := chainx.MemberAccounts(w.n)
	pk := make(keys.PublicKeys, 0, len(role))
	for _, id := range role {
		if w.kind == "alphabet" {
			// the Inner Ring that receives GAS: keys of their own (committee members earn block rewards and
			// fees with every block, which would blur the GAS observations)
			pk = append(pk, chainx.Key(fmt.Sprintf("inner-ring-%d", id)).PublicKey())
			continue
		}
		pk = append(pk, accs[id].PublicKey())
	}
	r := w.c.DesignateAlphabet(pk)
	if !r.Halt {
		w.t.Fatalf("designateAsRole: %s", r.Fault)
	}
	w.desigs = append(w.desigs, desig{from: r.Height + 1, ids: role})
	w.lastHeight = r.Height
}

// ---------------------------------------------------------------- cases

type caseSpec struct {
	id   string
	kind string
	n    int
	v    int
	wf   bool
	role []int
	// Alphabet cases: GAS on the contract, number of storage nodes in the network map, whether the last node's
	// record is too short to hold a key, whether Proxy is registered in the NNS
	gas      string
	sn       int
	short    bool
	nnsProxy bool
	// directed gate case: version inside the gate, storage as deployed, default data, valid executable - nothing but
	// the witness decides, so `update` must succeed IFF the majority account signed
	gate bool
}

func b01(b bool) string {
	if b {
		return "1"
	}
	return "0"
}

func (cs caseSpec) line() (string, []string) {
	k := "wf"
	if !cs.wf {
		k = "nonwf"
	}
	attrs := []string{k, "k=" + cs.kind, fmt.Sprintf("n=%d", cs.n), fmt.Sprintf("v=%d", cs.v), "role=" + fmtIDs(cs.role)}
	if cs.gate {
		attrs = append(attrs, "gate=1")
	}
	if cs.kind == "alphabet" {
		attrs = append(attrs, "gas="+cs.gas, fmt.Sprintf("sn=%d", cs.sn), "short="+b01(cs.short), "nnsp="+b01(cs.nnsProxy))
	}
	return cs.id, attrs
}

func parseCase(l string) caseSpec {
	fs := strings.Fields(l)
	cs := caseSpec{id: fs[1], wf: len(fs) > 2 && fs[2] == "wf", kind: attr(fs, "k")}
	cs.n, _ = strconv.Atoi(attr(fs, "n"))
	cs.v, _ = strconv.Atoi(attr(fs, "v"))
	cs.role = parseIDs(attr(fs, "role"))
	cs.gas = attr(fs, "gas")
	if cs.gas == "" {
		cs.gas = "0"
	}
	cs.sn, _ = strconv.Atoi(attr(fs, "sn"))
	cs.short = attr(fs, "short") == "1"
	cs.nnsProxy = attr(fs, "nnsp") == "1"
	cs.gate = attr(fs, "gate") == "1"
	return cs
}

// startCase builds the world of a case; nil when the set-up was refused by the contracts under test (reported
// through the monitor, see setupFailed): the case then consists of its `case` line only.
func startCase(t testing.TB, run *hx.Run, sc *chainx.Scratch, cs caseSpec) (w *world) {
	id, attrs := cs.line()
	run.Case(id, attrs...)
	run.Count("kind." + cs.kind)
	run.Count(fmt.Sprintf("from.%d", cs.v))
	defer func() {
		if r := recover(); r != nil {
			if _, ok := r.(setupAbort); !ok {
				panic(r)
			}
			run.Count("setup.refused")
			w = nil
		}
	}()
	w = newWorld(t, run, sc, cs)
	w.designate(cs.role)
	return w
}

func TestRun(t *testing.T) {
	run := hx.Open(t)
	defer run.Close()
	sc, err := chainx.NewScratch()
	if err != nil {
		t.Fatal(err)
	}
	defer sc.Close()
	if run.Mode == "replay" {
		var w *world
		started := false
		for _, l := range run.ReplayLines() {
			if strings.HasPrefix(l, "case ") {
				w = startCase(t, run, sc, parseCase(l))
				started = true
				continue
			}
			if !started {
				t.Fatal("op before case")
			}
			if w == nil {
				continue // the set-up of this case was refused (monitor hit): its operations cannot run
			}
			line, obs := w.execOp(l)
			run.Op(line, obs)
		}
		return
	}
	generate(t, run, sc)
}
