package upgrade

// Seeded generation of upgrade cases: for every contract and every from-version around the bounds the
// gate and the migrations compare with, a synthetic pre-upgrade storage in the layout documented for that
// version, then `update` under several signer sets and caller data. Every 4th case leaves the property's
// quantifier on purpose (malformed values, colliding keys, mixed layouts): compared with the model, the
// data-preservation monitor is off there.

import (
	"fmt"
	"math/big"
	"math/rand/v2"
	"sort"
	"strings"
	"testing"

	"github.com/nspcc-dev/neo-go/pkg/crypto/hash"
	"github.com/nspcc-dev/neo-go/pkg/vm/stackitem"
	"github.com/nspcc-dev/neofs-contract/common"

	"verifharness/chainx"
	"verifharness/hx"
)

type gen struct {
	rng   *rand.Rand
	w     *world
	seen  int // ledger.CurrentIndex() the FIRST update of the case will see
	count int // Netmap: forced snapshot count (0 = drawn)
	// Alphabet, directed cases (> 0): non-notary mode, ballots none / stale / empty list by turns, caller data that
	// names the real Netmap and Proxy contracts (or leaves them to the stored address / the NNS record)
	directed int
}

// snapshotCounts: stored Netmap snapshot counts. updateSnapshotCount (since 0.15.1) allows 1..256; 10 is only the
// default: below, at and above it, and the largest one-byte ring.
var snapshotCounts = []int{1, 3, 7, 10, 11, 12, 20, 255}

// upTo: a count in 0..n-1; three times as many in the thorough tier
func (g *gen) upTo(n int) int {
	if g.w.run.Tier == "thorough" {
		n *= 3
	}
	return g.rng.IntN(n)
}

func ser(it stackitem.Item) []byte {
	b, err := stackitem.Serialize(it)
	if err != nil {
		panic(err)
	}
	return b
}

func bs(b []byte) stackitem.Item { return stackitem.NewByteArray(b) }
func in(x int64) stackitem.Item  { return stackitem.NewBigInteger(big.NewInt(x)) }

func (g *gen) bytesN(n int) []byte {
	b := make([]byte, n)
	for i := range b {
		b[i] = byte(g.rng.IntN(256))
	}
	return b
}

func encInt(z *big.Int) []byte {
	b, err := stackitem.NewBigInteger(z).TryBytes()
	if err != nil {
		panic(err)
	}
	return b
}

type store map[string][]byte

func (s store) kvs() []chainx.KV {
	out := make([]chainx.KV, 0, len(s))
	for k, v := range s {
		out = append(out, chainx.KV{K: []byte(k), V: v})
	}
	sort.Slice(out, func(i, j int) bool { return string(out[i].K) < string(out[j].K) })
	return out
}

func fromScan(kvs []chainx.KV) store {
	s := store{}
	for _, kv := range kvs {
		s[string(kv.K)] = kv.V
	}
	return s
}

// legacy writes the non-notary leftovers of the layouts before 0.17: the `notary` flag, `ballots`
// (with ballots around the blockDiff boundary) and the contract's legacy address keys.
func (g *gen) legacy(s store, addrKeys []string, ballots bool) {
	wf := g.w.wf
	switch r := g.rng.IntN(20); {
	case r < 2: // already notarized
	case r < 11:
		s["notary"] = []byte{1}
	case r < 16:
		s["notary"] = []byte{0}
	case r < 17:
		s["notary"] = []byte{}
	case r < 18:
		s["notary"] = []byte{0, 0}
	case r < 19:
		s["notary"] = []byte{2}
	default:
		if wf {
			s["notary"] = []byte{1}
		} else {
			s["notary"] = make([]byte, 33) // conversion to Boolean FAULTs
		}
	}
	for _, k := range addrKeys {
		if g.rng.IntN(8) != 0 {
			s[k] = g.bytesN(20)
		}
	}
	if !ballots {
		return
	}
	gaps := []int{0, 1, 19, 20, 21, 22, 500}
	mk := func(gap int) stackitem.Item {
		voters := []stackitem.Item{bs(g.bytesN(33))}
		return stackitem.NewStruct([]stackitem.Item{bs(g.bytesN(32)), stackitem.NewArray(voters), in(int64(g.seen - gap))})
	}
	switch r := g.rng.IntN(20); {
	case r < 3:
	case r < 6:
		s["ballots"] = ser(stackitem.NewArray(nil))
	case r < 12:
		s["ballots"] = ser(stackitem.NewArray([]stackitem.Item{mk(hx.Pick(g.rng, gaps))}))
	case r < 15:
		s["ballots"] = ser(stackitem.NewArray([]stackitem.Item{mk(hx.Pick(g.rng, gaps[4:])), mk(hx.Pick(g.rng, gaps))}))
	case r < 17: // any order, also the live ballot first and a stale one last
		l := []stackitem.Item{mk(hx.Pick(g.rng, gaps)), mk(hx.Pick(g.rng, gaps[4:]))}
		if g.rng.IntN(2) == 0 {
			l = append(l, mk(hx.Pick(g.rng, gaps[4:])))
		}
		s["ballots"] = ser(stackitem.NewArray(l))
	default:
		if wf {
			s["ballots"] = ser(stackitem.NewArray([]stackitem.Item{mk(21), mk(20)}))
			break
		}
		switch g.rng.IntN(4) {
		case 0:
			s["ballots"] = []byte{0xff, 0x01}
		case 1:
			s["ballots"] = ser(stackitem.NewArray([]stackitem.Item{in(5)}))
		case 2:
			s["ballots"] = ser(stackitem.NewArray([]stackitem.Item{stackitem.NewStruct([]stackitem.Item{bs([]byte{1}), in(3)})}))
		default:
			s["ballots"] = ser(in(7))
		}
	}
}

func (g *gen) account() []byte {
	bal := hx.Pick(g.rng, []*big.Int{big.NewInt(0), big.NewInt(1), big.NewInt(127), big.NewInt(128), big.NewInt(255),
		big.NewInt(65536), new(big.Int).Lsh(big.NewInt(1), 63), big.NewInt(int64(g.rng.IntN(1_000_000)))})
	var parent stackitem.Item = stackitem.Null{}
	until := int64(0)
	if g.rng.IntN(3) == 0 {
		parent = bs(g.bytesN(20))
		until = int64(g.rng.IntN(300))
	}
	return ser(stackitem.NewStruct([]stackitem.Item{stackitem.NewBigInteger(bal), in(until), parent}))
}

func (g *gen) balance() ([]chainx.KV, [][][]byte) {
	w := g.w
	s := store{}
	if w.v < 17000 {
		g.legacy(s, []string{"netmapScriptHash", "containerScriptHash"}, true)
	}
	n := g.upTo(6)
	var accs [][]byte
	for i := 0; i < n; i++ {
		k := g.bytesN(20)
		switch g.rng.IntN(8) {
		case 0:
			k[0] = 'a'
		case 1:
			k = make([]byte, 20)
		case 2:
			for j := range k {
				k[j] = 0xff
			}
		}
		accs = append(accs, k)
		key := string(k)
		if w.v >= 20000 { // already the prefixed layout
			key = "a" + key
		}
		s[key] = g.account()
	}
	s["MainnetGAS"] = encInt(big.NewInt(int64(g.rng.IntN(1 << 40))))
	if !w.wf {
		switch g.rng.IntN(4) {
		case 0: // a prefixed record next to its bare twin
			if len(accs) > 0 && w.v < 20000 {
				s["a"+string(accs[0])] = g.account()
			}
		case 1: // lengths next to 20
			s[string(g.bytesN(19))] = g.account()
			s[string(g.bytesN(21))] = g.account()
		case 2: // unreadable record
			k := g.bytesN(20)
			accs = append(accs, k)
			s[string(k)] = []byte{0xff}
		default:
			k := g.bytesN(20)
			accs = append(accs, k)
			s[string(k)] = []byte{}
		}
	}
	accs = append(accs, bytesOf(20, 0xee))
	return s.kvs(), [][][]byte{accs}
}

func bytesOf(n int, b byte) []byte {
	out := make([]byte, n)
	for i := range out {
		out[i] = b
	}
	return out
}

// containerBlob is a container in the API's binary format as far as the contract looks into it:
// 0a <len> <version> 12 1b 0a 19 <25-byte owner> …
func (g *gen) containerBlob(owner []byte) []byte {
	ver := g.bytesN(hx.Pick(g.rng, []int{0, 4, 4, 4, 6}))
	b := append([]byte{0x0a, byte(len(ver))}, ver...)
	b = append(b, 0x12, 0x1b, 0x0a, 0x19)
	b = append(b, owner...)
	return append(b, g.bytesN(g.rng.IntN(12))...)
}

func (g *gen) cnrStruct(blob []byte) []byte {
	var tok stackitem.Item = bs(g.bytesN(g.rng.IntN(5)))
	if g.rng.IntN(3) == 0 {
		tok = stackitem.Null{}
	}
	return ser(stackitem.NewStruct([]stackitem.Item{bs(blob), bs(g.bytesN(64)), bs(g.bytesN(33)), tok}))
}

func (g *gen) container() ([]chainx.KV, [][][]byte) {
	w := g.w
	s := fromScan(w.scan()) // the configuration keys written by the deployment
	if w.v < 17000 {
		g.legacy(s, nil, true)
	}
	oldLayout := w.v < 17000
	nOwners := 1 + g.rng.IntN(3)
	owners := make([][]byte, nOwners)
	for i := range owners {
		owners[i] = append([]byte{0x35}, g.bytesN(24)...)
	}
	var cids [][]byte
	n := g.upTo(6)
	for i := 0; i < n; i++ {
		cid := g.bytesN(32)
		if g.rng.IntN(6) == 0 {
			cid[0] = 'x'
		}
		cids = append(cids, cid)
		o := hx.Pick(g.rng, owners)
		blob := g.containerBlob(o)
		layoutOld := oldLayout
		if !w.wf && g.rng.IntN(3) == 0 {
			layoutOld = !layoutOld // mixed layouts
		}
		if layoutOld {
			s[string(cid)] = g.cnrStruct(blob)
			s[string(o)+string(cid)] = cid
		} else {
			s["x"+string(cid)] = g.cnrStruct(blob)
			s["o"+string(o)+string(cid)] = cid
		}
		if g.rng.IntN(2) == 0 {
			s["eACL"+string(cid)] = ser(stackitem.NewStruct([]stackitem.Item{bs(g.bytesN(10)), bs(g.bytesN(64)), bs(g.bytesN(33)), bs(nil)}))
		}
		if g.rng.IntN(3) == 0 {
			s["nnsHasAlias"+string(cid)] = []byte(fmt.Sprintf("name%d.container", i))
		}
		if g.rng.IntN(2) == 0 {
			epoch := encInt(big.NewInt(hx.Pick(g.rng, []int64{0, 1, 127, 128, 300, 70000})))
			k := "cnr" + string(epoch) + string(cid) + string(g.bytesN(10))
			s[k] = ser(stackitem.NewStruct([]stackitem.Item{bs(g.bytesN(33)), in(int64(g.rng.IntN(1000)))}))
			if oldLayout {
				s["est"+string(cid)+string(g.bytesN(20))] = ser(stackitem.NewArray([]stackitem.Item{in(int64(g.rng.IntN(100)))}))
			} else {
				s["est"+string(cid)] = ser(stackitem.NewArray([]stackitem.Item{in(int64(g.rng.IntN(100)))}))
			}
		}
		if w.v >= 19000 && g.rng.IntN(2) == 0 {
			s["n"+string(cid)+"\x00\x00\x01"] = g.bytesN(33)
			s["u"+string(cid)+"\x00\x00\x01"] = g.bytesN(33)
			s["r"+string(cid)+"\x00"] = []byte{2}
			s["m"+string(cid)] = []byte{}
		}
	}
	if w.v >= 17000 && g.rng.IntN(3) == 0 {
		s["d"+string(g.bytesN(32))] = []byte{}
	}
	if !w.wf && len(cids) > 0 {
		switch g.rng.IntN(3) {
		case 0: // both the bare and the prefixed record of one container
			s[string(cids[0])] = g.cnrStruct(g.containerBlob(owners[0]))
			s["x"+string(cids[0])] = g.cnrStruct(g.containerBlob(owners[0]))
		case 1: // lengths next to 32 and 57
			s[string(g.bytesN(31))] = []byte{1}
			s[string(g.bytesN(33))] = []byte{1}
			s[string(g.bytesN(56))] = []byte{1}
			s[string(g.bytesN(58))] = []byte{1}
		default: // unreadable container
			s[string(cids[0])] = []byte{0xff}
		}
	}
	cids = append(cids, bytesOf(32, 0xee))
	owners = append(owners, bytesOf(25, 0xee))
	return s.kvs(), [][][]byte{cids, owners}
}

func (g *gen) nodeInfo() []byte {
	b := append([]byte{0x0a, 0x21}, append([]byte{0x02}, g.bytesN(32)...)...)
	return append(b, g.bytesN(g.rng.IntN(8))...)
}

func (g *gen) netmap() ([]chainx.KV, [][][]byte) {
	w := g.w
	s := fromScan(w.scan())
	count := g.count
	if count == 0 {
		count = hx.Pick(g.rng, append([]int{10, 10}, snapshotCounts...))
	}
	for i := 0; i < 10; i++ {
		delete(s, "snapshot_"+string([]byte{byte(i)}))
	}
	cur := g.rng.IntN(count)
	if count > 10 && g.rng.IntN(2) == 0 {
		cur = 10 + g.rng.IntN(count-10) // the current map itself lives above ring index 9
	}
	s["snapshotCount"] = encInt(big.NewInt(int64(count)))
	s["snapshotCurrent"] = encInt(big.NewInt(int64(cur)))
	s["snapshotEpoch"] = encInt(big.NewInt(int64(g.rng.IntN(70000))))
	s["snapshotBlock"] = encInt(big.NewInt(int64(g.rng.IntN(100000))))
	old := w.v < 16000
	node := func() stackitem.Item {
		if old {
			return stackitem.NewStruct([]stackitem.Item{bs(g.nodeInfo())})
		}
		return stackitem.NewStruct([]stackitem.Item{bs(g.nodeInfo()), in(int64(1 + g.rng.IntN(3)))})
	}
	list := func(k int) []byte {
		var nodes []stackitem.Item
		for j := 0; j < k; j++ {
			nodes = append(nodes, node())
		}
		return ser(stackitem.NewArray(nodes))
	}
	for i := 0; i < count; i++ {
		if i >= 10 && i < 14 {
			// ring indexes above the default count always hold a NON-EMPTY list: a migration that stops at the
			// default count leaves them in the old format, and that must be visible
			s["snapshot_"+string([]byte{byte(i)})] = list(1 + g.rng.IntN(2))
			continue
		}
		if g.rng.IntN(6) == 0 || (count > 20 && g.rng.IntN(4) != 0) {
			continue // never written (large rings are filled sparsely)
		}
		// k = 0: the EMPTY list, also in the pre-0.16 format (finding F20, repaired by f42319b, was about exactly
		// this input: it is generated freely inside the monitored scope; young networks hold it in most slots)
		k := g.rng.IntN(4)
		if g.rng.IntN(4) == 0 {
			k = 0
		}
		s["snapshot_"+string([]byte{byte(i)})] = list(k)
	}
	if count < 10 && g.rng.IntN(2) == 0 {
		// stale slots between the stored count and the default one (left by nothing the contract does, but the
		// `< 0.16` loop is bounded by the stored count: it must not touch them; no getter reaches them)
		for i := count; i < 10; i++ {
			s["snapshot_"+string([]byte{byte(i)})] = list(1)
		}
	}
	for i, n := 0, g.upTo(4); i < n; i++ {
		info := g.nodeInfo()
		st := int64(1 + g.rng.IntN(3))
		var v stackitem.Item
		if old {
			v = stackitem.NewStruct([]stackitem.Item{stackitem.NewStruct([]stackitem.Item{bs(info)}), in(st)})
		} else {
			v = stackitem.NewStruct([]stackitem.Item{bs(info), in(st)})
		}
		s["candidate"+string(info[2:35])] = ser(v)
	}
	if w.v < 17000 {
		g.legacy(s, nil, true)
		if g.rng.IntN(2) == 0 {
			s["innerring"] = ser(stackitem.NewArray([]stackitem.Item{stackitem.NewStruct([]stackitem.Item{bs(g.bytesN(33))})}))
		}
	}
	if w.v < 19000 {
		s["balanceScriptHash"] = g.bytesN(20)
		s["containerScriptHash"] = g.bytesN(20)
		if !w.wf && g.rng.IntN(3) == 0 {
			delete(s, hx.Pick(g.rng, []string{"balanceScriptHash", "containerScriptHash"}))
		}
	} else {
		s["e\x00"+string(g.bytesN(20))] = []byte{}
		s["e\x01"+string(g.bytesN(20))] = []byte{}
	}
	for i, n := 0, g.rng.IntN(3); i < n; i++ {
		s["config"+hx.Pick(g.rng, []string{"AuditFee", "EpochDuration", "BasicIncomeRate", "X"})] = g.bytesN(1 + g.rng.IntN(4))
	}
	if !w.wf && old {
		switch g.rng.IntN(3) {
		case 0:
			s["snapshot_\x00"] = []byte{0x40, 0x01} // truncated: an array of one element that is missing
		case 1:
			s["snapshot_\x00"] = []byte{0xff}
		default:
			s["candidate"+string(g.bytesN(33))] = ser(stackitem.NewStruct([]stackitem.Item{in(1)}))
		}
	}
	return s.kvs(), nil
}

func (g *gen) nns() ([]chainx.KV, [][][]byte) {
	w := g.w
	s := store{}
	s["\x10"] = encInt(big.NewInt(10_0000_0000))
	old := w.v < 18000
	total := 0
	bal := map[string]int{}
	var owners [][]byte
	addName := func(name string, owner []byte) {
		var o stackitem.Item = stackitem.Null{}
		if owner != nil {
			o = bs(owner)
		}
		tk := hash.RipeMD160([]byte(name)).BytesBE()
		s["\x21"+string(tk)] = ser(stackitem.NewStruct([]stackitem.Item{o, bs([]byte(name)),
			stackitem.NewBigInteger(new(big.Int).Lsh(big.NewInt(1), 60)), stackitem.Null{}}))
		total++
		if owner != nil {
			bal[string(owner)]++
			s["\x02"+string(owner)+string(tk)] = []byte(name)
		}
		s["\x22"+string(tk)+string(tk)+"\x10\x00"] = ser(stackitem.NewStruct([]stackitem.Item{bs([]byte(name)), in(16), bs([]byte("data")), in(0)}))
	}
	nOwners := 1 + g.rng.IntN(3)
	for i := 0; i < nOwners; i++ {
		owners = append(owners, g.bytesN(20))
	}
	tlds := []string{"neofs", "container", "org"}[:1+g.rng.IntN(3)]
	for _, t := range tlds {
		s["\x20"+t] = []byte{0}
		var o []byte
		if old {
			o = hx.Pick(g.rng, owners)
			if !w.wf && g.rng.IntN(4) == 0 {
				o = nil // a TLD without owner before 0.18
			}
		}
		addName(t, o)
		for j, n := 0, g.rng.IntN(3); j < n; j++ {
			addName(fmt.Sprintf("sub%d.%s", j, t), hx.Pick(g.rng, owners))
		}
	}
	for o, b := range bal {
		if !w.wf && g.rng.IntN(5) == 0 {
			continue // balance record missing: the drop goes negative
		}
		s["\x01"+o] = encInt(big.NewInt(int64(b)))
	}
	s["\x00"] = encInt(big.NewInt(int64(total)))
	owners = append(owners, bytesOf(20, 0xee))
	return s.kvs(), [][][]byte{owners}
}

func (g *gen) neofsid() ([]chainx.KV, [][][]byte) {
	w := g.w
	s := store{}
	if w.v < 17000 {
		g.legacy(s, []string{"containerScriptHash"}, true)
	}
	if w.v < 19000 && g.rng.IntN(6) != 0 {
		s["netmapScriptHash"] = g.bytesN(20)
	}
	var owners [][]byte
	for i, n := 0, g.upTo(4); i < n; i++ {
		o := append([]byte{0x35}, g.bytesN(24)...)
		owners = append(owners, o)
		for j, m := 0, 1+g.rng.IntN(3); j < m; j++ {
			s["o"+string(o)+string(append([]byte{0x02}, g.bytesN(32)...))] = []byte{1}
		}
	}
	owners = append(owners, bytesOf(25, 0xee))
	return s.kvs(), [][][]byte{owners}
}

func (g *gen) simple(addrKeys []string, ballots bool) ([]chainx.KV, [][][]byte) {
	w := g.w
	s := fromScan(w.scan())
	if w.v < 17000 {
		g.legacy(s, addrKeys, ballots)
	}
	for i, n := 0, g.rng.IntN(3); i < n; i++ {
		s[string(g.bytesN(8+g.rng.IntN(40)))] = g.bytesN(g.rng.IntN(20))
	}
	return s.kvs(), nil
}

// alphabet: the `notary = true` path is generated only where it FAULTs before the GAS distribution
// (pending vote or a malformed Proxy address); the distribution itself is outside the model.
// alphabet: the storage the deployment wrote (Netmap and Proxy addresses, name, index, threshold) plus the non-notary
// leftovers: no flag, a false flag, or - most of the time - a true flag without ballots, with stale ballots or with a
// pending one.
func (g *gen) alphabet() ([]chainx.KV, [][][]byte) {
	w := g.w
	s := fromScan(w.scan())
	ballot := func(gap int) stackitem.Item {
		return stackitem.NewStruct([]stackitem.Item{bs(g.bytesN(32)), stackitem.NewArray(nil), in(int64(g.seen - gap))})
	}
	if g.directed > 0 {
		s["notary"] = []byte{1}
		switch g.directed % 3 {
		case 1:
			s["ballots"] = ser(stackitem.NewArray([]stackitem.Item{ballot(21), ballot(300)}))
		case 2:
			s["ballots"] = ser(stackitem.NewArray(nil))
		}
		return s.kvs(), nil
	}
	if w.v < 17000 {
		switch r := g.rng.IntN(12); {
		case r < 1:
		case r < 2:
			s["notary"] = []byte{0}
		case r < 3:
			s["notary"] = []byte{}
		default:
			s["notary"] = []byte{1}
			switch g.rng.IntN(6) {
			case 0, 1:
			case 2:
				s["ballots"] = ser(stackitem.NewArray(nil))
			case 3:
				s["ballots"] = ser(stackitem.NewArray([]stackitem.Item{ballot(hx.Pick(g.rng, []int{21, 22, 500}))}))
			case 4:
				s["ballots"] = ser(stackitem.NewArray([]stackitem.Item{ballot(21), ballot(hx.Pick(g.rng, []int{0, 1, 19, 20}))}))
			default:
				s["ballots"] = ser(stackitem.NewArray([]stackitem.Item{ballot(hx.Pick(g.rng, []int{0, 20, 21}))}))
			}
		}
	}
	if !w.wf && g.rng.IntN(3) == 0 {
		delete(s, "netmapScriptHash")
	}
	return s.kvs(), nil
}

func (g *gen) store() ([]chainx.KV, [][][]byte) {
	switch g.w.kind {
	case "balance":
		return g.balance()
	case "container":
		return g.container()
	case "netmap":
		return g.netmap()
	case "nns":
		return g.nns()
	case "neofsid":
		return g.neofsid()
	case "audit":
		return g.simple([]string{"netmapScriptHash"}, false)
	case "reputation":
		return g.simple(nil, true)
	case "alphabet":
		return g.alphabet()
	}
	return g.simple(nil, false)
}

// ---------------------------------------------------------------- signer sets and caller data

func ids(n int) []int {
	out := make([]int, n)
	for i := range out {
		out[i] = i
	}
	return out
}

func msig(m int, set []int) string { return fmt.Sprintf("m%d.%s", m, fmtIDs(set)) }

// required: the account whose witness the property asks for
func required(cs caseSpec) string {
	if cs.kind == "neofs" || cs.kind == "processing" {
		if len(cs.role) == 0 {
			return ""
		}
		return msig(len(cs.role)/2+1, cs.role)
	}
	return msig(cs.n/2+1, ids(cs.n))
}

func (g *gen) wrongSigner(cs caseSpec) string {
	n := cs.n
	all := ids(n)
	var opts []string
	opts = append(opts, "-", "s0", "u1", fmt.Sprintf("s%d", n-1))
	if n*2/3+1 != n/2+1 {
		opts = append(opts, msig(n*2/3+1, all)) // the Alphabet (2n/3+1) account is NOT the committee majority account
	}
	if n/2 >= 1 {
		opts = append(opts, msig(n/2, all)) // one signature short
	}
	if n/2+2 <= n {
		opts = append(opts, msig(n/2+2, all))
	}
	if n >= 3 {
		sub := all[:n-1]
		opts = append(opts, msig(len(sub)/2+1, sub)) // majority of a proper subset
		opts = append(opts, "s0,s1")
	}
	if cs.kind == "neofs" || cs.kind == "processing" {
		if req := msig(n/2+1, all); req != required(cs) {
			opts = append(opts, req) // the chain's committee instead of the designated NeoFS Alphabet
		}
		if l := len(cs.role); l > 0 && l*2/3+1 != l/2+1 {
			// the 2/3+1 account of the designated keys (what the Alphabet signs everything else with), twice as likely
			opts = append(opts, msig(l*2/3+1, cs.role), msig(l*2/3+1, cs.role))
		}
	}
	for {
		o := hx.Pick(g.rng, opts)
		if o != required(cs) {
			return o
		}
	}
}

func (g *gen) data(cs caseSpec) string {
	if cs.kind == "alphabet" {
		a := g.w.alpha
		nm := "b" + hx.Hex(a.nm.BytesBE())
		if g.directed > 0 {
			proxy := "b" + hx.Hex(a.proxy.BytesBE())
			if g.directed%2 == 0 {
				nm = "b-"
			}
			if g.directed%4 >= 2 {
				proxy = "b-"
			}
			return "A(f;" + nm + ";" + proxy + ";b617a)"
		}
		switch r := g.rng.IntN(10); {
		case r < 3:
			nm = "b-" // the stored address
		case r < 4:
			nm = "b" + hx.Hex(g.bytesN(20)) // no such contract
		case r < 5 && !g.w.wf:
			nm = "b0102"
		}
		proxy := "b" + hx.Hex(a.proxy.BytesBE())
		switch r := g.rng.IntN(20); {
		case r < 4:
			proxy = "b-" // the NNS record, if any
		case r < 7:
			proxy = "b" + hx.Hex(g.bytesN(20)) // a plain account
		case r < 8:
			proxy = nm // a contract that does not take GAS (or nothing at all)
		case r < 9:
			proxy = "b" + hx.Hex(g.w.h.BytesBE()) // the Alphabet contract itself
		case r < 10:
			proxy = "b" + hx.Hex(a.notary.BytesBE()) // Notary refuses a payment without deposit data
		case r < 11:
			proxy = "b0102"
		}
		switch g.rng.IntN(12) {
		case 0:
			return "n"
		case 1:
			return "A(f;b-)" // too short: args[3] does not exist
		}
		return "A(f;" + nm + ";" + proxy + ";b617a)"
	}
	switch g.rng.IntN(12) {
	case 0:
		return "A()"
	case 1:
		return fmt.Sprintf("A(i%d)", g.w.v+1000) // a version of the caller's choice: must not matter
	case 2:
		return "A(i15004;b00;n;t)"
	case 3:
		return "A(i19999)"
	case 4:
		return "i5" // not a list: append FAULTs
	case 5:
		return "b0102"
	}
	return "n"
}

func (g *gen) updateLine(sig, data, nef string, cs caseSpec) string {
	return fmt.Sprintf("op update q=%s sig=%s role=%s data=%s nef=%s h=?", fmtQueries(g.w.q), sig, fmtIDs(cs.role), data, nef)
}

// roleFor: the designated NeoFS Alphabet of a main-chain case. Sizes 3, 5 and 7 (where n/2+1 and 2n/3+1 differ)
// are preferred; sometimes a proper subset of the chain's committee, sometimes nobody.
func roleFor(rng *rand.Rand, kind string, n int) []int {
	if kind == "alphabet" { // the Inner Ring the GAS is distributed to
		if rng.IntN(6) == 0 {
			return nil
		}
		return ids(n)
	}
	if kind != "neofs" && kind != "processing" {
		return nil
	}
	switch r := rng.IntN(12); {
	case r < 5:
		return ids(n)
	case r < 8 && n >= 3:
		return ids(3)
	case r < 9 && n >= 5:
		return ids(5)
	case r < 10 && n >= 2:
		return []int{0, n - 1}
	case r < 11:
		return []int{0}
	}
	return nil
}

// runCase executes one generated case: raw load of the pre-upgrade storage, then updates.
func runCase(t testing.TB, run *hx.Run, sc *chainx.Scratch, cs caseSpec, rng *rand.Rand, fixed []chainx.KV, fixedQ [][][]byte) {
	runCaseWith(t, run, sc, cs, rng, fixed, fixedQ, 0)
}

func runCaseWith(t testing.TB, run *hx.Run, sc *chainx.Scratch, cs caseSpec, rng *rand.Rand, fixed []chainx.KV, fixedQ [][][]byte, snapCount int) {
	w := startCase(t, run, sc, cs)
	if w == nil {
		return // set-up refused by the contracts under test: reported through the monitor
	}
	g := &gen{rng: rng, w: w}
	if snapCount > 0 {
		g.count = snapCount
	} else if snapCount < 0 {
		g.directed = -snapCount
	}
	// the sequence of the case is fixed before the storage is generated, so that the ballots can be
	// placed relative to the height the first update that can pass the witness test will see
	pre := rng.IntN(3) == 0 // an unauthorised attempt first
	h0 := int(w.c.BC.BlockHeight())
	g.seen = h0 + 1
	if pre {
		g.seen++
	}
	kvs, q := fixed, fixedQ
	if fixed == nil {
		kvs, q = g.store()
	}
	w.q = q
	var first []string
	do := func(l string) {
		line, obs := w.execOp(l)
		run.Op(line, obs)
		if len(first) < 4 {
			o, ll := obs, line
			if len(o) > 300 {
				o = o[:300] + "…"
			}
			if len(ll) > 300 {
				ll = ll[:300] + "…"
			}
			first = append(first, ll+"  =>  "+o)
		}
	}
	do(fmt.Sprintf("op load q=%s kv=%s", fmtQueries(q), fmtKVs(kvs)))
	req := required(cs)
	if pre {
		do(g.updateLine(g.wrongSigner(cs), g.data(cs), "ok", cs))
	}
	sig := req
	if rng.IntN(5) == 0 || req == "" {
		sig = g.wrongSigner(cs)
	} else if rng.IntN(6) == 0 {
		sig = "u2," + req + ",s0" // more witnesses than needed
	}
	nef := "ok"
	if rng.IntN(14) == 0 {
		nef = "bad"
	}
	do(g.updateLine(sig, g.data(cs), nef, cs))
	if req != "" {
		d := "n"
		if cs.kind == "alphabet" || rng.IntN(4) == 0 {
			d = g.data(cs)
		}
		do(g.updateLine(req, d, "ok", cs))
	}
	if rng.IntN(3) == 0 {
		do(fmt.Sprintf("op load q=%s kv=-", fmtQueries(q)))
	}
	run.Sample(strings.Join(first, "\n"))
}

var mainKinds = map[string]bool{"balance": true, "container": true, "netmap": true, "nns": true}

// gateSizes: committee sizes of the directed gate cases: 1, odd, even (where "exactly half" exists), 7
var gateSizes = []int{1, 3, 4, 6, 7}

// gateCases: the `update` gate on its own. Every contract kind whose Update carries its OWN copy of the gate logic -
// NNS (checkCommittee), NeoFS and Processing (majority of the designated NeoFS Alphabet) - and the contracts behind
// common.HasUpdateAccess, from a version inside the gate with the storage as deployed, default data and a valid
// executable, so that nothing but the witness decides: a stranger, a single member, the account one signature short of
// the majority (for even n: EXACTLY HALF of the committee), the 2n/3+1 account where it differs, and finally the
// n/2+1 majority account, which must be the first and only one to get through. `mem=` on the op line is the number of
// signing members (the model decides by the account `m<mem>.<members>` against n/2+1 of `n=` of the case line).
// Quick tier: NNS x all sizes, NeoFS / Processing / Proxy x {4, 6}; thorough tier (first shard): every contract x all sizes.
func gateCases(t testing.TB, run *hx.Run, sc *chainx.Scratch, ci int) int {
	if common.Version-1 < common.PrevVersion {
		return ci
	}
	type kn struct {
		kind string
		n    int
	}
	var todo []kn
	if run.Tier == "thorough" {
		if run.Shard != 0 {
			return ci
		}
		for _, k := range allKinds {
			for _, n := range gateSizes {
				todo = append(todo, kn{k, n})
			}
		}
	} else {
		for _, n := range gateSizes {
			todo = append(todo, kn{"nns", n})
		}
		for _, k := range []string{"neofs", "processing", "proxy"} {
			todo = append(todo, kn{k, 4}, kn{k, 6})
		}
	}
	// contracts with their own copy of the gate get a second case in which the majority account comes FIRST (in the
	// other one a wrongly accepted earlier signer would have updated the contract already)
	var both []kn
	for _, x := range todo {
		both = append(both, x)
		if x.kind == "nns" || x.kind == "neofs" || x.kind == "processing" {
			both = append(both, kn{x.kind, -x.n})
		}
	}
	for _, x := range both {
		ci++
		n, majOnly := x.n, false
		if n < 0 {
			n, majOnly = -n, true
		}
		cs := caseSpec{id: fmt.Sprintf("gate.%s.n%d", x.kind, n), kind: x.kind, n: n, v: common.Version - 1, wf: true, gate: true}
		if majOnly {
			cs.id += ".majority"
		}
		if x.kind == "neofs" || x.kind == "processing" {
			cs.role = ids(n) // the designated NeoFS Alphabet = all members: its majority is the n/2+1 account too
		}
		if x.kind == "alphabet" {
			cs.gas, cs.nnsProxy, cs.role = "0", true, ids(n)
		}
		w := startCase(t, run, sc, cs)
		if w == nil {
			continue
		}
		all := ids(n)
		sigs := []string{"u1", "s0"}
		if n >= 2 {
			sigs = append(sigs, msig(n/2, all)) // majority - 1; for even n exactly half
		}
		if n*2/3+1 != n/2+1 {
			sigs = append(sigs, msig(n*2/3+1, all))
		}
		sigs = append(sigs, msig(n/2+1, all), msig(n/2+1, all)) // the majority; once more: already updated
		if majOnly {
			sigs = []string{msig(n/2+1, all)}
		}
		data := "n"
		if x.kind == "alphabet" {
			data = "A(f;b-;b-;b617a)"
		}
		// the storage as deployed, handed to the model as a raw load of itself
		line, obs := w.execOp(fmt.Sprintf("op load q=- kv=%s", fmtKVs(w.scan())))
		run.Op(line, obs)
		for _, sig := range sigs {
			mem := 1
			if sig[0] == 'm' {
				fmt.Sscanf(sig, "m%d.", &mem)
			}
			line, obs := w.execOp(fmt.Sprintf("op update q=- sig=%s mem=%d role=%s data=%s nef=ok h=?", sig, mem, fmtIDs(cs.role), data))
			run.Op(line, obs)
		}
	}
	return ci
}

// votePatterns: ballot lists of 0..4 entries, a = alive (at most blockDiff = 20 blocks old), s = stale: none, one,
// all alive, all stale, alive-then-stale (the live one FIRST: what common.Vote leaves behind when an older voting gets
// a fresh vote after a newer one was opened), stale-then-alive, alive in the middle, alive at both ends
var votePatterns = []string{"", "a", "s", "aa", "ss", "as", "sa", "ass", "sas", "ssa", "asa", "aaa", "sss", "asss", "ssas", "sssa", "aaaa", "ssss"}

// voteKinds: the contracts whose switchToNotary purges votes (Audit's does not look at ballots)
var voteKinds = []string{"reputation", "neofsid", "balance", "container", "netmap", "alphabet"}

// voteCases: a notary-disabled contract from below 0.17 with the `notary` flag set and a ballot list of every
// alive/stale pattern; the heights sit at the boundary (alive: exactly 20 blocks back, also 19 and 0; stale: exactly 21,
// also 22 and 500). The committee majority sends the upgrade: it must be refused iff ANY ballot is alive, wherever it
// stands in the list. Quick: Reputation and NeoFSID (cheap worlds) x all patterns; thorough (first shard): all six.
func voteCases(t testing.TB, run *hx.Run, sc *chainx.Scratch, ci int) int {
	if common.PrevVersion >= 17000 {
		return ci
	}
	kinds := voteKinds[:2]
	if run.Tier == "thorough" {
		if run.Shard != 0 {
			return ci
		}
		kinds = voteKinds
	}
	for ki, kind := range kinds {
		for pi, pat := range votePatterns {
			ci++
			rng := run.Rand(4_000_000 + ci)
			n := []int{1, 4, 3, 7}[(ki+pi)%4]
			cs := caseSpec{id: fmt.Sprintf("s%d.votes.%s.%s", run.Seed, kind, "p"+pat), kind: kind, n: n,
				v: hx.Pick(rng, []int{common.PrevVersion, 16999}), wf: true}
			if kind == "alphabet" {
				cs.gas, cs.sn, cs.nnsProxy, cs.role = "100000000000", 1, true, ids(n)
			}
			w := startCase(t, run, sc, cs)
			if w == nil {
				continue
			}
			g := &gen{rng: rng, w: w, directed: 1}
			seen := int(w.c.BC.BlockHeight()) + 1 // load in the next block, the update in the one after
			st := fromScan(w.scan())
			if kind == "netmap" {
				st["balanceScriptHash"], st["containerScriptHash"] = g.bytesN(20), g.bytesN(20)
				for i := 0; i < 10; i++ {
					delete(st, "snapshot_"+string([]byte{byte(i)}))
				}
			}
			st["notary"] = []byte{1}
			var ballots []stackitem.Item
			for i, c := range pat {
				gap := []int{20, 19, 0, 20}[(i+pi)%4]
				if c == 's' {
					gap = []int{21, 22, 500, 21}[(i+pi)%4]
				}
				ballots = append(ballots, stackitem.NewStruct([]stackitem.Item{bs(g.bytesN(32)),
					stackitem.NewArray([]stackitem.Item{bs(g.bytesN(33))}), in(int64(seen - gap))}))
			}
			if pat != "" || pi%2 == 0 {
				st["ballots"] = ser(stackitem.NewArray(ballots))
			}
			line, obs := w.execOp(fmt.Sprintf("op load q=- kv=%s", fmtKVs(st.kvs())))
			run.Op(line, obs)
			data := "n"
			if kind == "alphabet" {
				data = g.data(cs)
			}
			line, obs = w.execOp(g.updateLine(required(cs), data, "ok", cs))
			run.Op(line, obs)
		}
	}
	return ci
}

// redesignations: old -> new NeoFS Alphabet (ids of the 7 chain members): disjoint, overlapping, larger, smaller,
// one key replaced, a single key handing over to three
var redesignations = [][2][]int{
	{{0, 1, 2}, {3, 4, 5}}, {{0, 1, 2}, {1, 2, 3}}, {{0, 1, 2}, {0, 1, 2, 3, 4}},
	{{0, 1, 2, 3, 4}, {0, 1}}, {{0, 1, 2, 3}, {0, 1, 2, 6}}, {{5}, {0, 1, 2}}, {{0, 1, 2, 3, 4, 5, 6}, {2, 4, 6}},
}

// redesignCases: the main-chain contracts obey the NeoFS Alphabet IN FORCE: the committee re-designates the role in
// block N and `update` goes into block N+1 (the harness adds nothing in between), signed by the majority of the
// DISMISSED Alphabet (must be refused; afterwards the new majority updates) and, in a second case, by the majority of
// the NEW Alphabet (must be accepted in that very block). Gate cases: nothing but the witness decides.
// Quick: NeoFS x 3 shapes; thorough (first shard): NeoFS and Processing x all shapes.
func redesignCases(t testing.TB, run *hx.Run, sc *chainx.Scratch, ci int) int {
	if common.Version-1 < common.PrevVersion {
		return ci
	}
	kinds, shapes := []string{"neofs"}, redesignations[:3]
	if run.Tier == "thorough" {
		if run.Shard != 0 {
			return ci
		}
		kinds, shapes = []string{"neofs", "processing"}, redesignations
	}
	maj := func(ids []int) string { return msig(len(ids)/2+1, ids) }
	for _, kind := range kinds {
		for si, sh := range shapes {
			for variant := 0; variant < 2; variant++ {
				ci++
				cs := caseSpec{id: fmt.Sprintf("redesign.%s.%d.%s", kind, si, []string{"old", "new"}[variant]), kind: kind,
					n: 7, v: common.Version - 1, wf: true, gate: true, role: sh[0]}
				w := startCase(t, run, sc, cs)
				if w == nil {
					continue
				}
				do := func(l string) {
					line, obs := w.execOp(l)
					run.Op(line, obs)
				}
				upd := func(sig string, ids []int) string {
					mem := 1
					fmt.Sscanf(sig, "m%d.", &mem)
					return fmt.Sprintf("op update q=- sig=%s mem=%d role=%s data=n nef=ok h=?", sig, mem, fmtIDs(ids))
				}
				do(fmt.Sprintf("op load q=- kv=%s", fmtKVs(w.scan())))
				do(fmt.Sprintf("op designate q=- role=%s h=?", fmtIDs(sh[1])))
				if variant == 0 {
					do(upd(maj(sh[0]), sh[1])) // block N+1: the dismissed majority
					do(upd(maj(sh[1]), sh[1])) // block N+2: the new one
				} else {
					do(upd(maj(sh[1]), sh[1])) // block N+1: the new majority at once
				}
			}
		}
	}
	return ci
}

// netmapCountCases: one in-quantifier Netmap case per stored snapshot count, from the oldest supported version (the
// node structures are converted below 0.16 only), in every tier, shard and seed.
func netmapCountCases(t testing.TB, run *hx.Run, sc *chainx.Scratch, ci int) int {
	if common.PrevVersion >= 16000 {
		return ci
	}
	for _, cnt := range snapshotCounts {
		ci++
		rng := run.Rand(2_000_000 + ci)
		cs := caseSpec{id: fmt.Sprintf("s%d.%d.count%d", run.Seed, run.Shard, cnt), kind: "netmap",
			n: hx.Pick(rng, []int{1, 3, 4, 7}), v: common.PrevVersion + rng.IntN(2), wf: true}
		runCaseWith(t, run, sc, cs, rng, nil, nil, cnt)
	}
	return ci
}

// alphaGas: GAS on the Alphabet contract: nothing, one unit (3/4 of it is nothing), a few units, just under 1 GAS
// (odd; the Notary share is below the minimal first deposit), 50 GAS + 1 unit, 1000 GAS (the 20 GAS cap of the
// deposits applies for few nodes), 1 234 567.89012345 GAS
var alphaGas = []string{"0", "1", "3", "99999999", "5000000001", "100000000000", "123456789012345"}

func alphaAttrsFor(rng *rand.Rand, cs *caseSpec) {
	cs.gas = hx.Pick(rng, alphaGas)
	cs.sn = rng.IntN(4)
	cs.short = !cs.wf && cs.sn > 0 && rng.IntN(3) == 0
	cs.nnsProxy = rng.IntN(3) != 0
}

// alphabetGasCases: one in-quantifier non-notary Alphabet case per balance, committee sizes 1/4/7, in every tier,
// shard and seed.
func alphabetGasCases(t testing.TB, run *hx.Run, sc *chainx.Scratch, ci int) int {
	if common.PrevVersion >= 17000 {
		return ci
	}
	for i, gas := range alphaGas {
		ci++
		rng := run.Rand(3_000_000 + ci)
		cs := caseSpec{id: fmt.Sprintf("s%d.%d.gas%s", run.Seed, run.Shard, gas), kind: "alphabet",
			n: []int{1, 4, 7}[i%3], v: hx.Pick(rng, []int{common.PrevVersion, 16999}), wf: true,
			gas: gas, sn: (i + int(run.Seed)) % 4, nnsProxy: true}
		cs.role = ids(cs.n)
		runCaseWith(t, run, sc, cs, rng, nil, nil, -(i + 1))
	}
	return ci
}

func generate(t testing.TB, run *hx.Run, sc *chainx.Scratch) {
	ci := 0
	if run.Shard == 0 {
		ci = dumpCases(t, run, sc)
	}
	ci = gateCases(t, run, sc, ci)
	ci = voteCases(t, run, sc, ci)
	ci = redesignCases(t, run, sc, ci)
	ci = netmapCountCases(t, run, sc, ci)
	ci = alphabetGasCases(t, run, sc, ci)
	for _, k := range allKinds {
		reps := 1
		if k == "neofs" || k == "processing" || k == "alphabet" {
			reps = 2 // signer sets over the designated NeoFS Alphabet / GAS balances need more than one draw
		}
		if mainKinds[k] {
			reps = 2
		}
		if run.Tier == "thorough" {
			reps *= 4
			if mainKinds[k] {
				reps *= 2
			}
		}
		for _, v := range versionsFor(k) {
			for rep := 0; rep < reps; rep++ {
				ci++
				rng := run.Rand(ci)
				n := hx.Pick(rng, []int{1, 2, 3, 4, 4, 5, 6, 7})
				if k == "neofs" || k == "processing" {
					n = hx.Pick(rng, []int{3, 4, 5, 7, 7})
				}
				cs := caseSpec{id: fmt.Sprintf("s%d.%d.%d", run.Seed, run.Shard, ci), kind: k, n: n, v: v, wf: ci%4 != 3}
				if k == "alphabet" {
					cs.n = hx.Pick(rng, []int{1, 4, 7})
					alphaAttrsFor(rng, &cs)
				}
				cs.role = roleFor(rng, k, cs.n)
				runCase(t, run, sc, cs, rng, nil, nil)
			}
		}
	}
}
