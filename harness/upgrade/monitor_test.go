package upgrade

// Property monitor of C16, evaluated on the implementation's own observations only:
//   (a) a HALTed update was witnessed by the committee-majority account (n/2+1 multi-signature of
//       neo.GetCommittee(); for the main-chain contracts neofs/processing: of the designated NeoFS Alphabet);
//   (b) it happened only from a version v with oldest-supported <= v < new version, and the version grew;
//   (c) a FAULTed update changed neither the storage nor the version;
//   (d) a HALTed update preserved everything the read API answers: the answers expected from the
//       pre-upgrade storage (decoded by the layout documented for the old version where the layout
//       changes, asked through the getters before the update where it does not) equal the getters'
//       answers afterwards. (d) is evaluated for cases inside the property's quantifier only.
// Nothing here looks at the Lean model.

import (
	"fmt"
	"math/big"
	"sort"
	"strconv"
	"strings"

	"github.com/nspcc-dev/neo-go/pkg/crypto/hash"
	"github.com/nspcc-dev/neo-go/pkg/crypto/keys"
	"github.com/nspcc-dev/neo-go/pkg/neotest"
	"github.com/nspcc-dev/neo-go/pkg/smartcontract"
	"github.com/nspcc-dev/neo-go/pkg/util"
	"github.com/nspcc-dev/neo-go/pkg/vm/stackitem"
	"github.com/nspcc-dev/neofs-contract/common"

	"verifharness/chainx"
	"verifharness/hx"
)

const prop = "C16"

// requiredAccount: script hash of the account the property names for this contract.
func (w *world) requiredAccount(role []int) (util.Uint160, bool) {
	accs := chainx.MemberAccounts(w.n)
	var set []int
	if w.kind == "neofs" || w.kind == "processing" {
		set = role
	} else {
		set = ids(w.n)
	}
	if len(set) == 0 {
		return util.Uint160{}, false
	}
	pubs := make(keys.PublicKeys, len(set))
	for i, id := range set {
		pubs[i] = accs[id].PublicKey()
	}
	script, err := smartcontract.CreateMultiSigRedeemScript(len(set)/2+1, pubs)
	if err != nil {
		return util.Uint160{}, false
	}
	return hash.Hash160(script), true
}

type question struct{ q, want string }

func sortedJoin(xs []string) string {
	ys := append([]string{}, xs...)
	sort.Strings(ys)
	return strings.Join(ys, ";")
}

func deserFields(v []byte) ([]stackitem.Item, bool) {
	it, err := stackitem.Deserialize(v)
	if err != nil {
		return nil, false
	}
	l, ok := it.Value().([]stackitem.Item)
	return l, ok
}

// expectations computes, BEFORE the update, what the read API has to answer after it.
func (w *world) expectations(pre []chainx.KV, vb int) []question {
	var out []question
	add := func(q, want string) { out = append(out, question{q, want}) }
	m := map[string][]byte{}
	for _, kv := range pre {
		m[string(kv.K)] = kv.V
	}
	switch w.kind {
	case "balance":
		sup := "0"
		if v, ok := m["MainnetGAS"]; ok {
			sup = bytesInt(v)
		}
		add("totalSupply", sup)
		for _, kv := range pre {
			var acc []byte
			if vb < 20000 && len(kv.K) == 20 {
				acc = kv.K
			} else if vb >= 20000 && len(kv.K) == 21 && kv.K[0] == 'a' {
				acc = kv.K[1:]
			} else {
				continue
			}
			f, ok := deserFields(kv.V)
			if !ok || len(f) < 1 {
				continue
			}
			z, err := f[0].TryInteger()
			if err != nil {
				continue
			}
			add("balanceOf:"+hx.Hex(acc), z.String())
		}
		add("balanceOf:"+hx.Hex(bytesOf(20, 0xee)), "0")
	case "container":
		old := vb < 17000
		var cids []string
		byOwner := map[string][]string{}
		for _, kv := range pre {
			switch {
			case old && len(kv.K) == 32, !old && len(kv.K) == 33 && kv.K[0] == 'x':
				cid := kv.K
				if !old {
					cid = kv.K[1:]
				}
				cids = append(cids, hx.Hex(cid))
				f, ok := deserFields(kv.V)
				if !ok || len(f) < 1 {
					continue
				}
				add("get:"+hx.Hex(cid), fieldsStr(stackitem.NewStruct(f)))
				blob, _ := f[0].TryBytes()
				if len(blob) > 1 && len(blob) >= int(blob[1])+6+25 {
					off := int(blob[1]) + 6
					add("owner:"+hx.Hex(cid), hx.Hex(blob[off:off+25]))
				}
				e := "-/-/-/-"
				if ev, ok := m["eACL"+string(cid)]; ok {
					if ef, ok := deserFields(ev); ok {
						e = fieldsStr(stackitem.NewStruct(ef))
					}
				}
				add("eACL:"+hx.Hex(cid), e)
				a := "null"
				if av, ok := m["nnsHasAlias"+string(cid)]; ok {
					a = hx.Hex(av)
				}
				add("alias:"+hx.Hex(cid), a)
			case old && len(kv.K) == 57, !old && len(kv.K) == 58 && kv.K[0] == 'o':
				k := kv.K
				if !old {
					k = kv.K[1:]
				}
				o := hx.Hex(k[:25])
				byOwner[o] = append(byOwner[o], hx.Hex(kv.V))
			}
		}
		add("count", strconv.Itoa(len(cids)))
		add("list:", sortedJoin(cids))
		for o, l := range byOwner {
			add("list:"+o, sortedJoin(l))
		}
		add("list:"+hx.Hex(bytesOf(25, 0xee)), "")
		// estimations: same layout before and after, asked through the getter before the update
		seen := map[string]bool{}
		for _, kv := range pre {
			if len(kv.K) >= 45 && string(kv.K[:3]) == "cnr" {
				e := bytesInt(kv.K[3 : len(kv.K)-42])
				if !seen[e] {
					seen[e] = true
					add("sizes:"+e, w.answer("sizes:"+e))
				}
			}
		}
	case "netmap":
		for _, q := range []string{"epoch", "lastEpochBlock", "listConfig"} {
			add(q, w.answer(q))
		}
		count := 0
		if v, ok := m["snapshotCount"]; ok {
			count, _ = strconv.Atoi(bytesInt(v))
		}
		cur := 0
		if v, ok := m["snapshotCurrent"]; ok {
			cur, _ = strconv.Atoi(bytesInt(v))
		}
		nodes := func(v []byte) string { // the node list as the new structure renders it
			l, ok := deserFields(v)
			if !ok {
				return "?"
			}
			var xs []string
			for _, n := range l {
				f, _ := n.Value().([]stackitem.Item)
				if vb < 16000 { // {BLOB} with an implicit Online state
					xs = append(xs, "S["+showItem(f[0])+",i1]")
				} else {
					xs = append(xs, showItem(n))
				}
			}
			return "A[" + strings.Join(xs, ",") + "]"
		}
		// every retained network map, through both getters that reach it: snapshot(d) for ALL d < count (the ring may
		// be longer or shorter than the default 10) and snapshotByEpoch(current epoch - d)
		epoch, epochOK := new(big.Int), false
		if v, ok := m["snapshotEpoch"]; ok {
			if z, err := stackitem.NewByteArray(v).TryInteger(); err == nil {
				epoch, epochOK = z, true
			}
		}
		for d := 0; d < count; d++ {
			id := ((cur-d)%count + count) % count
			want := "A[]"
			if v, ok := m["snapshot_"+string([]byte{byte(id)})]; ok {
				want = nodes(v)
			}
			add(fmt.Sprintf("snapshot:%d", d), want)
			if epochOK {
				add("snapshotByEpoch:"+new(big.Int).Sub(epoch, big.NewInt(int64(d))).String(), want)
			}
			if d == 0 {
				add("netmap", want)
			}
		}
		var cands []string
		for _, kv := range pre {
			if strings.HasPrefix(string(kv.K), "candidate") {
				f, ok := deserFields(kv.V)
				if !ok || len(f) < 2 {
					continue
				}
				if vb < 16000 {
					inner, _ := f[0].Value().([]stackitem.Item)
					cands = append(cands, "S["+showItem(inner[0])+","+showItem(f[1])+"]")
				} else {
					cands = append(cands, showItem(stackitem.NewStruct(f)))
				}
			}
		}
		add("candidates", strings.Join(cands, ","))
		var subs []string
		if vb < 19000 {
			subs = []string{hx.Hex(m["balanceScriptHash"]), hx.Hex(m["containerScriptHash"])}
		} else {
			for _, kv := range pre {
				if len(kv.K) >= 2 && kv.K[0] == 'e' {
					subs = append(subs, hx.Hex(kv.K[2:]))
				}
			}
		}
		add("subscribers", strings.Join(subs, ";"))
	case "nns":
		add("totalSupply", w.answer("totalSupply"))
		tldOwned := map[string]int{}
		owners := map[string]bool{}
		for _, kv := range pre {
			if len(kv.K) == 21 && kv.K[0] == 0x21 {
				f, ok := deserFields(kv.V)
				if !ok || len(f) < 4 {
					continue
				}
				name, _ := f[1].TryBytes()
				isTLD := !strings.Contains(string(name), ".")
				if o, err := f[0].TryBytes(); err == nil && len(o) == 20 {
					owners[string(o)] = true
					if isTLD && vb < 18000 {
						tldOwned[string(o)]++ // documented intent of 0.18: TLDs leave their owner's balance
					}
				}
				if !isTLD {
					add("ownerOf:"+hx.Hex(name), w.answer("ownerOf:"+hx.Hex(name)))
					add("getRecords:"+hx.Hex(name), w.answer("getRecords:"+hx.Hex(name)))
				}
			}
		}
		tldNames := map[string][]string{}
		for _, kv := range pre {
			if len(kv.K) == 21 && kv.K[0] == 0x21 && vb < 18000 {
				if f, ok := deserFields(kv.V); ok && len(f) >= 4 {
					name, _ := f[1].TryBytes()
					if o, err := f[0].TryBytes(); err == nil && len(o) == 20 && !strings.Contains(string(name), ".") {
						tldNames[string(o)] = append(tldNames[string(o)], hx.Hex(name))
					}
				}
			}
		}
		for o := range owners {
			before, err := strconv.Atoi(w.answer("balanceOf:" + hx.Hex([]byte(o))))
			if err != nil {
				continue
			}
			add("balanceOf:"+hx.Hex([]byte(o)), strconv.Itoa(before-tldOwned[o]))
			// tokensOf(owner): the same names minus the TLDs that left the owner
			if tb := w.answer("tokensOf:" + hx.Hex([]byte(o))); tb != "!" {
				drop := map[string]bool{}
				for _, n := range tldNames[o] {
					drop[n] = true
				}
				var keep []string
				for _, n := range strings.Split(tb, ";") {
					if n != "" && !drop[n] {
						keep = append(keep, n)
					}
				}
				add("tokensOf:"+hx.Hex([]byte(o)), sortedJoin(keep))
			}
		}
	case "neofsid":
		seen := map[string]bool{}
		for _, kv := range pre {
			if len(kv.K) == 59 && kv.K[0] == 'o' {
				o := hx.Hex(kv.K[1:26])
				if !seen[o] {
					seen[o] = true
					add("key:"+o, w.answer("key:"+o))
				}
			}
		}
	}
	return out
}

func bytesInt(b []byte) string {
	z, err := stackitem.NewByteArray(b).TryInteger()
	if err != nil {
		return "!"
	}
	return z.String()
}

// answer asks the deployed executable one question through its read API (raw storage only for the
// NewEpoch subscribers, which have no getter).
func (w *world) answer(q string) string {
	p := strings.SplitN(q, ":", 2)
	arg := ""
	if len(p) > 1 {
		arg = p[1]
	}
	list := func(method string, a ...any) string {
		l, ok := w.callBytesList(method, a...)
		if !ok {
			return "!"
		}
		xs := make([]string, len(l))
		for i := range l {
			xs[i] = hx.Hex(l[i])
		}
		return sortedJoin(xs)
	}
	item := func(method string, a ...any) string {
		if it, ok := w.call(method, a...); ok {
			return showItem(it)
		}
		return "!"
	}
	fields := func(method string, a ...any) string {
		if it, ok := w.call(method, a...); ok {
			return fieldsStr(it)
		}
		return "!"
	}
	switch w.kind + "." + p[0] {
	case "balance.totalSupply", "nns.totalSupply", "netmap.epoch", "netmap.lastEpochBlock", "container.count":
		return w.callInt(p[0])
	case "balance.balanceOf", "nns.balanceOf":
		return w.callInt("balanceOf", hx.UnHex(arg))
	case "container.get":
		return fields("get", hx.UnHex(arg))
	case "container.eACL":
		return fields("eACL", hx.UnHex(arg))
	case "container.owner":
		if it, ok := w.call("owner", hx.UnHex(arg)); ok {
			b, _ := it.TryBytes()
			return hx.Hex(b)
		}
		return "!"
	case "container.alias":
		if it, ok := w.call("alias", hx.UnHex(arg)); ok {
			if _, isNull := it.(stackitem.Null); isNull {
				return "null"
			}
			b, _ := it.TryBytes()
			return hx.Hex(b)
		}
		return "!"
	case "container.list":
		if arg == "" {
			return list("list", []byte{})
		}
		return list("list", hx.UnHex(arg))
	case "container.sizes":
		return list("listContainerSizes", hx.Big(arg))
	case "netmap.listConfig":
		return item("listConfig")
	case "netmap.netmap":
		return item("netmap")
	case "netmap.snapshot":
		d, _ := strconv.Atoi(arg)
		return item("snapshot", d)
	case "netmap.snapshotByEpoch":
		return item("snapshotByEpoch", hx.Big(arg))
	case "netmap.candidates":
		if it, ok := w.call("netmapCandidates"); ok {
			if l, isArr := it.Value().([]stackitem.Item); isArr {
				return showItems(l)
			}
		}
		return "!"
	case "netmap.subscribers":
		var subs []string
		for _, kv := range w.scan() {
			if len(kv.K) >= 2 && kv.K[0] == 'e' {
				subs = append(subs, hx.Hex(kv.K[2:]))
			}
		}
		return strings.Join(subs, ";")
	case "nns.tokensOf":
		// the iterator is unwrapped inside the VM (a returned iterator is dead once the test invocation is finalized)
		script, err := smartcontract.CreateCallAndUnwrapIteratorScript(w.h, "tokensOf", 200, hx.UnHex(arg))
		if err != nil {
			return "!"
		}
		tx := w.c.NewScriptTx(nil, script)
		tx.ValidUntilBlock = w.c.BC.BlockHeight() + 2
		v, err := w.c.TestInvoke(tx)
		if err != nil || v.Estack().Len() != 1 {
			return "!"
		}
		l, ok := v.Estack().Pop().Item().Value().([]stackitem.Item)
		if !ok {
			return "!"
		}
		var names []string
		for _, it := range l {
			b, _ := it.TryBytes()
			names = append(names, hx.Hex(b))
		}
		return sortedJoin(names)
	case "nns.ownerOf":
		return item("ownerOf", hx.UnHex(arg))
	case "nns.getRecords":
		return item("getRecords", string(hx.UnHex(arg)), 16)
	case "neofsid.key":
		return list("key", hx.UnHex(arg))
	}
	return "?"
}

type pending struct {
	pre    []chainx.KV
	preVer string
	expect []question
}

// before is called right before the update transaction.
func (w *world) before() pending {
	p := pending{pre: w.scan(), preVer: w.version()}
	if vb, err := strconv.Atoi(p.preVer); err == nil && w.wf && !w.updated {
		p.expect = w.expectations(p.pre, vb)
	}
	return p
}

func sameKVs(a, b []chainx.KV) bool {
	if len(a) != len(b) {
		return false
	}
	for i := range a {
		if string(a[i].K) != string(b[i].K) || string(a[i].V) != string(b[i].V) {
			return false
		}
	}
	return true
}

// after is called with the result of the update transaction.
func (w *world) after(p pending, signers []neotest.Signer, role []int, r chainx.Result) {
	site := w.kind + ".update"
	post := w.scan()
	postVer := w.version()
	// (a) witness: is the account the property names among the signers?
	req, ok := w.requiredAccount(role)
	has := false
	for _, s := range signers {
		if ok && s.ScriptHash() == req {
			has = true
		}
	}
	w.voteMonitor(p, r, site)
	if !r.Halt {
		if !sameKVs(p.pre, post) || p.preVer != postVer {
			w.run.Violation(prop, site, "fault-changed-state", fmt.Sprintf("update FAULTed (%s) but version %s -> %s, storage items %d -> %d",
				r.Fault, p.preVer, postVer, len(p.pre), len(post)))
		}
		// directed gate cases: version inside the gate, storage as deployed, default data, valid executable - there
		// the witness alone decides, so a refusal of the genuine majority account is the gate asking for another one
		if vb, err := strconv.Atoi(p.preVer); err == nil && w.gate && w.nefOk && has && vb >= common.PrevVersion && vb < common.Version {
			w.run.Violation(prop, site, "update-rejected-with-majority", fmt.Sprintf(
				"update from version %d signed by the required majority account (%s; n=%d role=%v) FAULTed: %s", vb, w.sigLine, w.n, role, r.Fault))
		}
		return
	}
	if !has {
		w.run.Violation(prop, site, "update-accepted-without-majority", fmt.Sprintf("update HALTed; signers %s, none is the required majority account (n=%d role=%v)", w.sigLine, w.n, role))
	}
	// (b) gate and monotonicity; the bounds are the ones the repository under test declares
	vb, err1 := strconv.Atoi(p.preVer)
	va, err2 := strconv.Atoi(postVer)
	if err1 != nil || err2 != nil {
		w.run.Violation(prop, site, "version-unreadable", p.preVer+" -> "+postVer)
		return
	}
	if vb < common.PrevVersion || vb >= va {
		w.run.Violation(prop, site, "halt-outside-gate", fmt.Sprintf("update HALTed from version %d to %d (oldest supported %d)", vb, va, common.PrevVersion))
	}
	// (d) data preservation
	for _, e := range p.expect {
		got := w.answer(e.q)
		if got != e.want {
			kind := strings.SplitN(e.q, ":", 2)[0]
			if kind == "netmap" { // netmap() is snapshot(0)
				kind = "snapshot"
			}
			w.run.Violation(prop, site, "read-api:"+kind, fmt.Sprintf("from version %d: %s expected %s got %s", vb, e.q, e.want, got))
		}
	}
}

// voteKindsSet: contracts whose switchToNotary looks at the ballots
var voteKindsSet = map[string]bool{"reputation": true, "neofsid": true, "balance": true, "container": true, "netmap": true, "alphabet": true}

// voteMonitor: a notary-disabled contract (flag reads true, version below 0.17) must refuse the upgrade exactly while a
// vote is in progress, i.e. while ANY stored ballot is at most 20 blocks old at the height the update executes at,
// wherever it stands in the list. Decoded from the pre-upgrade storage; in-quantifier cases with a readable list only.
func (w *world) voteMonitor(p pending, r chainx.Result, site string) {
	vb, err := strconv.Atoi(p.preVer)
	if err != nil || !w.wf || !voteKindsSet[w.kind] || vb >= 17000 || vb < common.PrevVersion {
		return
	}
	var flag, raw []byte
	hasFlag, hasBallots := false, false
	for _, kv := range p.pre {
		switch string(kv.K) {
		case "notary":
			flag, hasFlag = kv.V, true
		case "ballots":
			raw, hasBallots = kv.V, true
		}
	}
	if !hasFlag || !truthy(flag) {
		return
	}
	seen := int64(r.Height) - 1 // ledger.CurrentIndex() during the execution
	alive, desc := false, "no ballots"
	if hasBallots {
		l, ok := deserFields(raw)
		if !ok {
			return
		}
		var ds []string
		for _, b := range l {
			f, ok := b.Value().([]stackitem.Item)
			if !ok || len(f) < 3 {
				return
			}
			h, err := f[2].TryInteger()
			if err != nil {
				return
			}
			gap := seen - h.Int64()
			ds = append(ds, strconv.FormatInt(gap, 10))
			if gap <= 20 {
				alive = true
			}
		}
		desc = "ballot ages in list order [" + strings.Join(ds, " ") + "] blocks"
	}
	changed := !sameKVs(p.pre, w.scan()) || p.preVer != w.version()
	if alive && (r.Halt || changed) {
		w.run.Violation(prop, site, "update-with-pending-vote-accepted", fmt.Sprintf(
			"from version %d, notary flag set, %s: a vote is in progress but the update went through (halt=%v, state changed=%v)", vb, desc, r.Halt, changed))
	}
	if !alive && !r.Halt && strings.Contains(r.Fault, "pending vote detected") {
		w.run.Violation(prop, site, "update-refused-without-pending-vote", fmt.Sprintf(
			"from version %d, notary flag set, %s: no vote is in progress but the update was refused: %s", vb, desc, r.Fault))
	}
}
