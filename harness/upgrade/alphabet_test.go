package upgrade

// Alphabet cases: a pre-0.17 Alphabet contract in NON-notary mode distributes three quarters of its GAS when it is
// upgraded (contracts/alphabet switchToNotary): half of that to the Proxy contract, the rest evenly to the Inner
// Ring and storage nodes, each node's share split between its account and its Notary deposit (capped at 20 GAS).
// The world therefore has the native Notary contract (P2PSigExtensions), NNS, a Proxy contract, a Netmap contract
// (current sources + raw storage methods) whose current network map holds the storage nodes, the NeoFSAlphabet
// role as the Inner Ring, and GAS on the Alphabet contract. Every op line carries what the contract sees of the
// chain (filled in by the harness right before execution) so that the model computes on the same inputs; the
// observation carries the GAS balances and Notary deposits of every account involved.

import (
	"fmt"
	"math/big"
	"strings"

	"github.com/nspcc-dev/neo-go/pkg/config"
	"github.com/nspcc-dev/neo-go/pkg/core/native/nativenames"
	"github.com/nspcc-dev/neo-go/pkg/crypto/keys"
	"github.com/nspcc-dev/neo-go/pkg/neotest"
	"github.com/nspcc-dev/neo-go/pkg/util"
	"github.com/nspcc-dev/neo-go/pkg/vm/stackitem"
	"github.com/nspcc-dev/neofs-contract/common"

	"verifharness/chainx"
	"verifharness/hx"
)

type alphaWorld struct {
	proxy, nm, notary, policy util.Uint160
	acc                       [][]byte // accounts of the last executed line (observed after it)
}

func notaryChain(cfg *config.Blockchain) { cfg.P2PSigExtensions = true }

// snKey is the deterministic key of storage node i.
func snKey(i int) *keys.PublicKey { return chainx.Key(fmt.Sprintf("storage-node-%d", i)).PublicKey() }

func nodeBlob(pub []byte, extra int) []byte {
	b := append([]byte{0x0a, 0x21}, pub...)
	for i := 0; i < extra; i++ {
		b = append(b, byte(0x12+i))
	}
	return b
}

// setupAlphabet deploys the surroundings of an Alphabet case and the contract itself.
func (w *world) setupAlphabet(sc *chainx.Scratch, old *neotest.Contract, cs caseSpec) {
	c := w.c
	a := &alphaWorld{}
	w.alpha = a
	a.notary = c.E.NativeHash(w.t, nativenames.Notary)
	a.policy = c.E.NativeHash(w.t, nativenames.Policy)
	w.mustDeploy(c.Compile("nns"), []any{[]any{[]any{"neofs", "ops@nspcc.io"}}})
	a.proxy = w.mustDeploy(c.Compile("proxy"), nil)
	if cs.nnsProxy {
		w.registerNNS("proxy", a.proxy)
	}
	a.nm = w.mustDeploy(c.CompileOld(sc, "netmap", common.Version), []any{false, util.Uint160{}, util.Uint160{},
		[]any{c.Members[0].Account().PublicKey().Bytes()}, []any{}})
	var nodes []stackitem.Item
	for i := 0; i < cs.sn; i++ {
		blob := nodeBlob(snKey(i).Bytes(), 2+i)
		if cs.short && i == cs.sn-1 {
			blob = blob[:20] // too short to hold a public key
		}
		nodes = append(nodes, stackitem.NewStruct([]stackitem.Item{bs(blob), in(1)}))
	}
	if r := c.Invoke(nil, a.nm, "verifPut", []byte("snapshot_\x00"), ser(stackitem.NewArray(nodes))); !r.Halt {
		w.t.Fatalf("writing the network map: %s", r.Fault)
	}
	w.h = w.mustDeploy(old, []any{false, a.nm, a.proxy, "az", int64(0), int64(1)})
	if amt := hx.Big(cs.gas); amt.Sign() > 0 {
		r := c.Invoke([]neotest.Signer{c.Alpha}, c.GAS, "transfer", c.Alpha.ScriptHash(), w.h, amt, nil)
		if !r.Halt {
			w.t.Fatalf("funding the Alphabet contract: %s", r.Fault)
		}
	}
}

func (w *world) accountHash(id []byte) (util.Uint160, bool) {
	switch len(id) {
	case 20:
		h, err := util.Uint160DecodeBytesBE(id)
		return h, err == nil
	case 33:
		k, err := keys.NewPublicKeyFromBytes(id, nil)
		if err != nil {
			return util.Uint160{}, false
		}
		return k.GetScriptHash(), true
	}
	return util.Uint160{}, false
}

func (w *world) nativeInt(h util.Uint160, method string, args ...any) *big.Int {
	st, err := w.c.Call(h, method, args...)
	if err != nil || len(st) != 1 {
		return big.NewInt(0)
	}
	z, err := st[0].TryInteger()
	if err != nil {
		return big.NewInt(0)
	}
	return z
}

type ledgerEntry struct {
	id        []byte
	gas       *big.Int
	dep, till *big.Int // Notary deposit (keys only); till = 0: none
}

func (w *world) ledger(acc [][]byte) []ledgerEntry {
	out := make([]ledgerEntry, 0, len(acc))
	for _, id := range acc {
		e := ledgerEntry{id: id, gas: big.NewInt(0), dep: big.NewInt(0), till: big.NewInt(0)}
		if h, ok := w.accountHash(id); ok {
			e.gas = w.c.BC.GetUtilityTokenBalance(h)
			if len(id) == 33 {
				e.dep = w.nativeInt(w.alpha.notary, "balanceOf", h)
				e.till = w.nativeInt(w.alpha.notary, "expirationOf", h)
			}
		}
		out = append(out, e)
	}
	return out
}

func ledgerView(l []ledgerEntry) string {
	var gas, dep []string
	for _, e := range l {
		gas = append(gas, hx.Hex(e.id)+":"+e.gas.String())
		if len(e.id) == 33 {
			t := "-"
			if e.till.Sign() != 0 {
				t = e.till.String()
			}
			dep = append(dep, hx.Hex(e.id)+":"+e.dep.String()+":"+t)
		}
	}
	return fmt.Sprintf(" gas=[%s] dep=[%s]", strings.Join(gas, ";"), strings.Join(dep, ";"))
}

// chainView: what netmap() and innerRingList() of the Netmap contract answer right now.
func (w *world) chainView() (blobs [][]byte, ir [][]byte) {
	if st, err := w.c.Call(w.alpha.nm, "netmap"); err == nil && len(st) == 1 {
		if l, ok := st[0].Value().([]stackitem.Item); ok {
			for _, n := range l {
				f, _ := n.Value().([]stackitem.Item)
				b, _ := f[0].TryBytes()
				blobs = append(blobs, b)
			}
		}
	}
	if st, err := w.c.Call(w.alpha.nm, "innerRingList"); err == nil && len(st) == 1 {
		if l, ok := st[0].Value().([]stackitem.Item); ok {
			for _, n := range l {
				f, _ := n.Value().([]stackitem.Item)
				b, _ := f[0].TryBytes()
				ir = append(ir, b)
			}
		}
	}
	return
}

var alphaAttrs = []string{"self", "ntr", "nmc", "nns", "rej", "fee", "nodes", "irk", "acc", "led", "dpt"}

func hexCSV(bs [][]byte) string {
	if len(bs) == 0 {
		return "-"
	}
	xs := make([]string, len(bs))
	for i := range bs {
		xs[i] = hx.Hex(bs[i])
	}
	return strings.Join(xs, ",")
}

// fillAlpha replaces the environment attributes of an Alphabet op line by what the chain holds right now.
func (w *world) fillAlpha(fs []string, data any) ([]string, []ledgerEntry, [][]byte, [][]byte) {
	a := w.alpha
	var out []string
	for _, f := range fs {
		keep := true
		for _, k := range alphaAttrs {
			if strings.HasPrefix(f, k+"=") {
				keep = false
			}
		}
		if keep {
			out = append(out, f)
		}
	}
	blobs, ir := w.chainView()
	seen := map[string]bool{}
	var acc [][]byte
	add := func(id []byte) {
		if (len(id) == 20 || len(id) == 33) && !seen[string(id)] {
			seen[string(id)] = true
			acc = append(acc, append([]byte{}, id...))
		}
	}
	add(w.h.BytesBE())
	add(a.proxy.BytesBE())
	add(a.notary.BytesBE())
	add(a.nm.BytesBE())
	if l, ok := data.([]any); ok && len(l) > 2 {
		if p, ok := l[2].([]byte); ok {
			add(p)
		}
	}
	for _, k := range ir {
		add(k)
	}
	for _, b := range blobs {
		if len(b) >= 35 {
			add(b[2:35])
		}
	}
	led := w.ledger(acc)
	var ls, ds []string
	for _, e := range led {
		ls = append(ls, hx.Hex(e.id)+":"+e.gas.String())
		if len(e.id) == 33 && e.till.Sign() != 0 {
			ds = append(ds, hx.Hex(e.id)+":"+e.dep.String()+":"+e.till.String())
		}
	}
	nns := "-"
	if st, err := w.c.Call(w.c.NNSHash(), "resolve", "proxy.neofs", int64(16)); err == nil && len(st) == 1 {
		if l, ok := st[0].Value().([]stackitem.Item); ok && len(l) > 0 {
			if rec, err := l[0].TryBytes(); err == nil {
				if h, err := util.Uint160DecodeStringLE(string(rec)); err == nil {
					nns = hx.Hex(h.BytesBE())
				}
			}
		}
	}
	csv := func(xs []string) string {
		if len(xs) == 0 {
			return "-"
		}
		return strings.Join(xs, ",")
	}
	out = append(out, "self="+hx.Hex(w.h.BytesBE()), "ntr="+hx.Hex(a.notary.BytesBE()), "nmc="+hx.Hex(a.nm.BytesBE()),
		"nns="+nns, "rej="+hexCSV([][]byte{a.nm.BytesBE(), w.c.NNSHash().BytesBE()}),
		"fee="+w.nativeInt(a.policy, "getAttributeFee", int64(0x22)).String(),
		"nodes="+hexCSV(blobs), "irk="+hexCSV(ir), "acc="+hexCSV(acc), "led="+csv(ls), "dpt="+csv(ds))
	a.acc = acc
	return out, led, blobs, ir
}

func truthy(b []byte) bool {
	for _, x := range b {
		if x != 0 {
			return true
		}
	}
	return false
}

// alphaMonitor: the GAS part of the property for an Alphabet update, on the contract's own observations. What the
// code documents: "distribute 75% of available GAS: 50% to Proxy contract, the rest is evenly distributed between
// Inner Ring and storage nodes; half of GAS goes to node contract, the rest to its notary deposit" (at most 20 GAS
// per deposit). A FAULT moves nothing; so does every upgrade of a contract that is not in non-notary mode.
func (w *world) alphaMonitor(pre []chainx.KV, preVer string, data any, led []ledgerEntry, blobs, ir [][]byte, r chainx.Result, nameBefore string) {
	site := "alphabet.update"
	post := w.ledger(w.alpha.acc)
	want := map[string]*big.Int{}
	wantDep := map[string]*big.Int{}
	for _, e := range led {
		want[string(e.id)] = new(big.Int).Set(e.gas)
		wantDep[string(e.id)] = new(big.Int).Set(e.dep)
	}
	var flag []byte
	hasFlag := false
	for _, kv := range pre {
		if string(kv.K) == "notary" {
			flag, hasFlag = kv.V, true
		}
	}
	var vb int
	fmt.Sscan(preVer, &vb)
	distributed := r.Halt && vb < 17000 && hasFlag && truthy(flag)
	if distributed {
		self := string(w.h.BytesBE())
		b := want[self]
		cur := new(big.Int).Div(new(big.Int).Mul(b, big.NewInt(3)), big.NewInt(4))
		toProxy := new(big.Int).Div(cur, big.NewInt(2))
		rest := new(big.Int).Sub(cur, toProxy)
		n := int64(len(ir) + len(blobs))
		perNode := new(big.Int).Div(rest, big.NewInt(n))
		part := new(big.Int).Div(perNode, big.NewInt(2))
		if part.Cmp(big.NewInt(20_0000_0000)) > 0 {
			part = big.NewInt(20_0000_0000)
		}
		simple := new(big.Int).Sub(perNode, part)
		var proxy []byte
		if l, ok := data.([]any); ok && len(l) > 2 {
			proxy, _ = l[2].([]byte)
		}
		if len(proxy) == 0 {
			proxy = w.alpha.proxy.BytesBE() // the NNS record
		}
		credit := func(m map[string]*big.Int, id []byte, x *big.Int) {
			if _, ok := m[string(id)]; ok {
				m[string(id)].Add(m[string(id)], x)
			}
		}
		credit(want, proxy, toProxy)
		credit(want, []byte(self), new(big.Int).Neg(toProxy))
		pay := func(k []byte) {
			credit(want, k, simple)
			credit(wantDep, k, part)
			credit(want, w.alpha.notary.BytesBE(), part)
			credit(want, []byte(self), new(big.Int).Neg(perNode))
		}
		for _, k := range ir {
			pay(k)
		}
		for _, bl := range blobs {
			pay(bl[2:35])
		}
	}
	total := new(big.Int)
	for i, e := range post {
		total.Add(total, new(big.Int).Sub(e.gas, led[i].gas))
		if e.gas.Cmp(want[string(e.id)]) != 0 {
			w.run.Violation(prop, site, "gas-balance", fmt.Sprintf("from version %s (halt=%v, non-notary=%v): GAS of %s expected %s got %s (before %s)",
				preVer, r.Halt, distributed, hx.Hex(e.id), want[string(e.id)], e.gas, led[i].gas))
		}
		if len(e.id) == 33 && e.dep.Cmp(wantDep[string(e.id)]) != 0 {
			w.run.Violation(prop, site, "notary-deposit", fmt.Sprintf("from version %s: deposit of %s expected %s got %s",
				preVer, hx.Hex(e.id), wantDep[string(e.id)], e.dep))
		}
	}
	if total.Sign() != 0 {
		w.run.Violation(prop, site, "gas-not-conserved", "sum of the balance changes of all accounts involved: "+total.String())
	}
	if r.Halt {
		if got := w.callInt("gas"); got != post[0].gas.String() {
			w.run.Violation(prop, site, "read-api:gas", "gas() answers "+got+", the contract holds "+post[0].gas.String())
		}
		if got := w.nameAnswer(); got != nameBefore {
			w.run.Violation(prop, site, "read-api:name", "name() expected "+nameBefore+" got "+got)
		}
	}
}

func (w *world) nameAnswer() string {
	it, ok := w.call("name")
	if !ok {
		return "!"
	}
	if _, isNull := it.(stackitem.Null); isNull {
		return "null"
	}
	b, _ := it.TryBytes()
	return hx.Hex(b)
}
