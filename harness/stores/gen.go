package stores

// Seeded generation for C20: one contract family per case, structured mostly-valid operations with the
// boundary values of the model's own comparisons (epoch encodings of different length sharing prefixes,
// cleanup deltas 3/4 +-1, lengths 24/25/26, 32/33/34, key length 64/65), a malformed stream, and several
// signer sets (Alphabet, the right key, another key, nobody).

import (
	"bytes"
	"crypto/sha256"
	"fmt"
	"math/big"
	"math/rand/v2"
	"strings"
	"testing"

	"verifharness/hx"
)

var boundaryEpochs = []int64{0, 1, 2, 127, 128, 129, 255, 256, 257, 258, 511, 512, 513, 65535, 65536, 65537, 65793,
	16777215, 16777216, 4294967296}

type gen struct {
	w   *world
	rng *rand.Rand
	fam string
	// bookkeeping for picking interesting arguments (not a spec: only steers generation)
	epochs  []int64
	peers   [][]byte
	ids     [][]byte
	cids    [][]byte
	tags    []string
	owners  [][]byte
	keys    [][]byte
	cfgKeys [][]byte
	cur     int64    // netmap epoch as the generator believes it
	pending []string // directed lines to be issued before the random stream continues
	ntag    int
}

func rbytes(rng *rand.Rand, n int) []byte {
	b := make([]byte, n)
	for i := range b {
		b[i] = byte(rng.IntN(256))
	}
	return b
}

func tagBytes(tag string, n int) []byte {
	var b []byte
	for i := 0; len(b) < n; i++ {
		h := sha256.Sum256([]byte(fmt.Sprintf("verif-bytes|%s|%d", tag, i)))
		b = append(b, h[:]...)
	}
	return b[:n]
}

func (g *gen) epoch() int64 {
	r := g.rng.IntN(10)
	switch {
	case r < 4 && len(g.epochs) > 0:
		return hx.Pick(g.rng, g.epochs)
	case r < 9:
		return hx.Pick(g.rng, boundaryEpochs)
	}
	return g.rng.Int64N(70000)
}

// shorter returns an epoch whose encoding is a proper prefix of enc(e), if there is one in the boundary set
func shorterPrefix(e int64) (int64, bool) {
	be := encInt(big.NewInt(e))
	for _, c := range boundaryEpochs {
		bc := encInt(big.NewInt(c))
		if c != e && len(bc) < len(be) && bytes.HasPrefix(be, bc) {
			return c, true
		}
	}
	return 0, false
}

func (g *gen) sigAlpha() string {
	switch g.rng.IntN(14) {
	case 0:
		return "-"
	case 1:
		return hx.Hex(g.w.pool[7])
	}
	return "alpha"
}

func (g *gen) negEpoch() (int64, bool) { // outside the quantifier: only in nonwf cases
	if !g.w.wf && g.rng.IntN(12) == 0 {
		return -hx.Pick(g.rng, []int64{1, 2, 128, 129, 256}), true
	}
	return 0, false
}

// ---------------------------------------------------------------- reputation

func (g *gen) peer() []byte {
	if !g.w.wf && g.rng.IntN(4) == 0 { // variable-length peers (as in the repository's tests)
		return hx.Pick(g.rng, [][]byte{[]byte("peer1"), []byte("peer12"), []byte("peer"), nil, {1}, tagBytes("longpeer", 60)})
	}
	if len(g.peers) > 0 && g.rng.IntN(3) > 0 {
		return hx.Pick(g.rng, g.peers)
	}
	return g.w.pool[g.rng.IntN(5)]
}

func (g *gen) nextRep() string {
	r := g.rng.IntN(100)
	switch {
	case r < 45:
		e := g.epoch()
		if ne, ok := g.negEpoch(); ok {
			e = ne
		}
		p := g.peer()
		// crafted peer: make enc(short)‖p a prefix of enc(e)‖peer' for an existing longer-encoded epoch
		if g.rng.IntN(12) == 0 && len(g.ids) > 0 {
			le := hx.Pick(g.rng, g.epochs)
			if se, ok := shorterPrefix(le); ok {
				d := len(encInt(big.NewInt(le))) - len(encInt(big.NewInt(se)))
				pp := hx.Pick(g.rng, g.peers)
				if len(pp) > d {
					p = cat(encInt(big.NewInt(le))[len(encInt(big.NewInt(se))):], pp[:len(pp)-d])
					e = se
				}
			}
		}
		v := rbytes(g.rng, g.rng.IntN(5))
		sig := g.sigAlpha()
		if sig == "alpha" {
			g.epochs = append(g.epochs, e)
			g.peers = append(g.peers, p)
			g.ids = append(g.ids, cat(encInt(big.NewInt(e)), p))
		}
		return fmt.Sprintf("op %s rput %d %s %s", sig, e, hx.Hex(p), hx.Hex(v))
	case r < 65:
		return fmt.Sprintf("op - rget %d %s", g.epoch(), hx.Hex(g.peer()))
	case r < 75:
		id := rbytes(g.rng, 3)
		if len(g.ids) > 0 && g.rng.IntN(8) > 0 {
			id = hx.Pick(g.rng, g.ids)
			if cut := 1 + g.rng.IntN(3); g.rng.IntN(6) == 0 && len(id) > cut {
				id = id[:len(id)-cut]
			}
		}
		return fmt.Sprintf("op - rgetid %s", hx.Hex(id))
	}
	e := g.epoch()
	if len(g.epochs) > 0 && g.rng.IntN(3) == 0 {
		if se, ok := shorterPrefix(hx.Pick(g.rng, g.epochs)); ok {
			e = se
		}
	}
	return fmt.Sprintf("op - rlist %d", e)
}

// ---------------------------------------------------------------- audit

func (g *gen) cid() []byte {
	if len(g.cids) == 0 {
		for i := 0; i < 3; i++ {
			g.cids = append(g.cids, tagBytes(fmt.Sprintf("cid-%d", i), 32))
		}
	}
	if !g.w.wf && g.rng.IntN(5) == 0 {
		return hx.Pick(g.rng, [][]byte{tagBytes("c31", 31), tagBytes("c33", 33), nil, tagBytes("c40", 40)})
	}
	return hx.Pick(g.rng, g.cids)
}

// audTwoSigners: directed multi-signer puts right after a designation. The admission rule speaks of the key recorded
// in the result, not of the transaction's signers: {member A + outsider X, key X} and {outsiders X + Y, key X} must be
// refused, {members A + B, key B} and {member A + outsider X, key A} are legal. pool[6], pool[7] are never designated.
func (g *gen) audTwoSigners() []string {
	if len(g.keys) == 0 {
		return nil
	}
	a, b := g.keys[0], g.keys[len(g.keys)-1]
	x, y := g.w.pool[6], g.w.pool[7]
	e := hx.Pick(g.rng, []int64{1, 257, 65536})
	cid := g.cid()
	put := func(sig string, key []byte, tail byte) string {
		g.epochs = append(g.epochs, e)
		h := sha256.Sum256(key)
		g.ids = append(g.ids, cat(encInt(big.NewInt(e)), cid, h[:24]))
		return fmt.Sprintf("op %s aput %s ? ?", sig, hx.Hex(mkAudit(0, uint64(e), cid, key, []byte{tail})))
	}
	hxs := func(ks ...[]byte) string {
		var out []string
		for i, k := range ks {
			if i > 0 && bytes.Equal(k, ks[0]) {
				continue
			}
			out = append(out, hx.Hex(k))
		}
		return strings.Join(out, ",")
	}
	return []string{
		put(hxs(a, x), x, 1),
		put(hxs(a, b), b, 2),
		put(hxs(x, y), x, 3),
		put(hxs(a, x), a, 4),
		fmt.Sprintf("op - alistN %d %s %s ?", e, hx.Hex(cid), hx.Hex(x)),
		fmt.Sprintf("op - alistE %d", e),
		"op - alist",
	}
}

func (g *gen) nextAud(i int) string {
	if i == 0 || g.rng.IntN(40) == 0 {
		n := 1 + g.rng.IntN(4)
		off := g.rng.IntN(3)
		sig := "cmt"
		if i > 0 && g.rng.IntN(4) == 0 {
			sig = "-"
		}
		if sig == "cmt" {
			g.keys = g.w.pool[off : off+n]
			g.pending = append(g.pending, g.audTwoSigners()...)
		}
		return fmt.Sprintf("env %s designate %s", sig, hexList(g.w.pool[off:off+n]))
	}
	if len(g.pending) > 0 {
		l := g.pending[0]
		g.pending = g.pending[1:]
		return l
	}
	r := g.rng.IntN(100)
	switch {
	case r < 45:
		e := g.epoch()
		cid := g.cid()
		if g.rng.IntN(12) == 0 && len(g.epochs) > 0 { // crafted container id, see nextRep
			le := hx.Pick(g.rng, g.epochs)
			if se, ok := shorterPrefix(le); ok {
				d := len(encInt(big.NewInt(le))) - len(encInt(big.NewInt(se)))
				cc := hx.Pick(g.rng, g.cids)
				if len(cc) > d {
					cid = cat(encInt(big.NewInt(le))[len(encInt(big.NewInt(se))):], cc[:len(cc)-d])
					e = se
					g.cids = append(g.cids, cid)
				}
			}
		}
		from := g.w.pool[g.rng.IntN(6)]
		if len(g.keys) > 0 && g.rng.IntN(5) > 0 {
			from = hx.Pick(g.rng, g.keys) // an Inner Ring member
		}
		sig := hx.Hex(from)
		switch g.rng.IntN(12) {
		case 0:
			sig = "-"
		case 1:
			sig = hx.Hex(g.w.pool[g.rng.IntN(6)])
		case 2:
			sig = "alpha"
		case 3, 4: // two signers: the reporter and somebody else (a member or an outsider)
			other := g.w.pool[g.rng.IntN(nPool)]
			if !bytes.Equal(other, from) {
				if g.rng.IntN(2) == 0 {
					sig = hx.Hex(from) + "," + hx.Hex(other)
				} else {
					sig = hx.Hex(other) + "," + hx.Hex(from)
				}
			}
		case 5: // an Inner Ring member co-signs a result reported under an outsider's key
			if len(g.keys) > 0 {
				from = g.w.pool[6+g.rng.IntN(2)]
				sig = hx.Hex(hx.Pick(g.rng, g.keys)) + "," + hx.Hex(from)
			}
		}
		key := from
		if g.rng.IntN(25) == 0 {
			key = hx.Pick(g.rng, [][]byte{from[:32], from[:20], cat(from, []byte{1}), nil})
		}
		raw := mkAudit(hx.Pick(g.rng, []int{0, 4, 6}), uint64(e), cid, key, rbytes(g.rng, g.rng.IntN(8)))
		switch g.rng.IntN(30) { // malformed stream
		case 0:
			raw = raw[:g.rng.IntN(len(raw))]
		case 1:
			raw[1] = byte(g.rng.IntN(256))
		case 2:
			raw = mkAudit(0, uint64(e)|1<<63, cid, key, nil) // negative as a VM integer
		}
		g.epochs = append(g.epochs, e)
		if len(key) == 33 {
			h := sha256.Sum256(key)
			g.ids = append(g.ids, cat(encInt(big.NewInt(e)), cid, h[:24]))
		}
		return fmt.Sprintf("op %s aput %s ? ?", sig, hx.Hex(raw))
	case r < 55:
		id := rbytes(g.rng, 8)
		if len(g.ids) > 0 && g.rng.IntN(4) > 0 {
			id = hx.Pick(g.rng, g.ids)
		} else if len(g.epochs) > 0 {
			h := sha256.Sum256(g.w.pool[g.rng.IntN(4)])
			id = cat(encInt(big.NewInt(hx.Pick(g.rng, g.epochs))), g.cid(), h[:24])
		}
		return fmt.Sprintf("op - aget %s", hx.Hex(id))
	case r < 62:
		return "op - alist"
	case r < 77:
		e := g.epoch()
		if len(g.epochs) > 0 && g.rng.IntN(3) == 0 {
			if se, ok := shorterPrefix(hx.Pick(g.rng, g.epochs)); ok {
				e = se
			}
		}
		return fmt.Sprintf("op - alistE %d", e)
	case r < 90:
		return fmt.Sprintf("op - alistC %d %s", g.epoch(), hx.Hex(g.cid()))
	}
	return fmt.Sprintf("op - alistN %d %s %s ?", g.epoch(), hx.Hex(g.cid()), hx.Hex(g.w.pool[g.rng.IntN(6)]))
}

// ---------------------------------------------------------------- container size estimations

func (g *gen) estSetup() []string {
	out := []string{"op alpha nset - " + hx.Hex([]byte("ContainerFee")) + " -"}
	for i := 0; i < 3; i++ {
		tag := fmt.Sprintf("c%d", i)
		g.tags = append(g.tags, tag)
		g.cids = append(g.cids, containerID(tag))
		out = append(out, fmt.Sprintf("op alpha cmk %s ?", tag))
	}
	for i := 0; i < 3; i++ {
		out = append(out, fmt.Sprintf("env alpha,%s nadd %s", hx.Hex(g.w.pool[i]), hx.Hex(g.w.pool[i])))
	}
	start := hx.Pick(g.rng, []int64{1, 1, 1, 124, 252, 65532})
	out = append(out, fmt.Sprintf("op alpha tick %d ?", start), fmt.Sprintf("op alpha tick %d ?", start+1))
	g.cur = start + 1
	// directed: the read path list -> get at the epochs where the encoding changes length (0 = empty encoding, so the
	// listed id is exactly "cnr"‖cid; 1; 127/128; 255/256), each read right after the put (before any cleanup)
	for i, e := range []int64{0, 1, 127, 128, 255, 256} {
		node := g.w.pool[i%3]
		cid := g.cids[i%2]
		out = append(out,
			fmt.Sprintf("op %s cput %d %s %d %s ? ?", hx.Hex(node), e, hx.Hex(cid), 10+i, hx.Hex(node)),
			fmt.Sprintf("op - clist %d", e),
			fmt.Sprintf("op - cget %s", hx.Hex(cat([]byte("cnr"), encInt(big.NewInt(e)), cid))),
			fmt.Sprintf("op - citer %d %s", e, hx.Hex(cid)))
		g.epochs = append(g.epochs, e)
	}
	// directed: two signers. The admission rule speaks of the reporter key of the estimation: {node A + stranger X,
	// reporter X} and {strangers X + Y, reporter X} must be refused, {nodes A + B, reporter B} and {node A + stranger X,
	// reporter A} are legal. pool[5..7] never join the network map.
	a, b, x, y := g.w.pool[0], g.w.pool[1], g.w.pool[6], g.w.pool[7]
	two := func(s1, s2, rep []byte, size int) string {
		return fmt.Sprintf("op %s,%s cput %d %s %d %s ? ?", hx.Hex(s1), hx.Hex(s2), g.cur, hx.Hex(g.cids[2]), size, hx.Hex(rep))
	}
	out = append(out, two(a, x, x, 31), two(a, b, b, 32), two(x, y, x, 33), two(a, x, a, 34),
		fmt.Sprintf("op - citer %d %s", g.cur, hx.Hex(g.cids[2])))
	g.epochs = append(g.epochs, g.cur)
	return out
}

func (g *gen) estEpoch() int64 {
	r := g.rng.IntN(20)
	switch {
	case r < 12:
		e := g.cur + int64(g.rng.IntN(9)) - 6 // cur-6 .. cur+2: both cleanup deltas and their neighbours
		if e < 0 && g.w.wf {
			e = 0
		}
		return e
	case r < 15 && len(g.epochs) > 0:
		return hx.Pick(g.rng, g.epochs)
	case r < 19:
		return hx.Pick(g.rng, boundaryEpochs)
	}
	return g.rng.Int64N(70000)
}

func (g *gen) nextEst() string {
	r := g.rng.IntN(100)
	switch {
	case r < 36:
		e := g.estEpoch()
		if ne, ok := g.negEpoch(); ok {
			e = ne
		}
		if e < 0 && g.w.wf {
			e = 0
		}
		cid := hx.Pick(g.rng, g.cids)
		if g.rng.IntN(20) == 0 {
			cid = tagBytes("nocontainer", 32)
		}
		node := g.w.pool[g.rng.IntN(4)]
		sig := hx.Hex(node)
		switch g.rng.IntN(14) {
		case 0:
			sig = "-"
		case 1:
			sig = hx.Hex(g.w.pool[g.rng.IntN(5)])
		case 2:
			sig = "alpha"
		case 3:
			sig = "alpha," + hx.Hex(node)
		case 4: // the reporter and somebody else
			other := g.w.pool[g.rng.IntN(nPool)]
			if !bytes.Equal(other, node) {
				sig = hx.Hex(other) + "," + hx.Hex(node)
			}
		case 5: // a node of the map co-signs an estimation reported under a stranger's key
			node = g.w.pool[5+g.rng.IntN(3)]
			sig = hx.Hex(g.w.pool[g.rng.IntN(3)]) + "," + hx.Hex(node)
		}
		pub := node
		if g.rng.IntN(30) == 0 {
			pub = hx.Pick(g.rng, [][]byte{node[:32], node[:20], cat(node, []byte{0})})
		}
		g.epochs = append(g.epochs, e)
		return fmt.Sprintf("op %s cput %d %s %d %s ? ?", sig, e, hx.Hex(cid), g.rng.IntN(1000)-100, hx.Hex(pub))
	case r < 50:
		e := g.cur + 1
		switch g.rng.IntN(10) {
		case 0:
			e = g.cur
		case 1:
			e = g.cur - 1
		case 2:
			e = g.cur + 2 + int64(g.rng.IntN(4))
		case 3:
			for _, b := range boundaryEpochs {
				if b > g.cur && b < 70000 {
					e = b - 2
					break
				}
			}
			if e <= g.cur {
				e = g.cur + 1
			}
		}
		sig := g.sigAlpha()
		if sig == "alpha" && e > g.cur {
			g.cur = e
		}
		return fmt.Sprintf("op %s tick %d ?", sig, e)
	case r < 57:
		e := g.cur + int64(g.rng.IntN(12)) - 3
		if g.rng.IntN(4) == 0 {
			e = hx.Pick(g.rng, boundaryEpochs)
		}
		if ne, ok := g.negEpoch(); ok {
			e = ne
		}
		if e < 0 && g.w.wf {
			e = 0
		}
		return fmt.Sprintf("op %s ctick %d", g.sigAlpha(), e)
	case r < 61:
		k := g.w.pool[g.rng.IntN(5)]
		if g.rng.IntN(3) == 0 {
			return fmt.Sprintf("env alpha nrm %s", hx.Hex(k))
		}
		sig := "alpha," + hx.Hex(k)
		if g.rng.IntN(6) == 0 {
			sig = hx.Hex(k)
		}
		return fmt.Sprintf("env %s nadd %s", sig, hx.Hex(k))
	case r < 64:
		if g.rng.IntN(2) == 0 {
			return fmt.Sprintf("op %s crm %s", g.sigAlpha(), hx.Hex(hx.Pick(g.rng, g.cids)))
		}
		g.ntag++
		tag := fmt.Sprintf("c%d", 2+g.ntag)
		if g.rng.IntN(2) == 0 {
			tag = hx.Pick(g.rng, g.tags) // re-creating a deleted container FAULTs ("previously deleted")
		} else {
			g.tags = append(g.tags, tag)
			g.cids = append(g.cids, containerID(tag))
		}
		return fmt.Sprintf("op alpha cmk %s ?", tag)
	case r < 72:
		e := g.estEpoch()
		if len(g.epochs) > 0 && g.rng.IntN(3) == 0 {
			if se, ok := shorterPrefix(hx.Pick(g.rng, g.epochs)); ok {
				e = se
			}
		}
		return fmt.Sprintf("op - clist %d", e)
	case r < 80:
		e := g.estEpoch()
		if len(g.epochs) > 0 && g.rng.IntN(3) == 0 {
			if se, ok := shorterPrefix(hx.Pick(g.rng, g.epochs)); ok {
				e = se
			}
		}
		return fmt.Sprintf("op - citerall %d", e)
	case r < 90:
		cid := hx.Pick(g.rng, g.cids)
		if g.rng.IntN(15) == 0 {
			cid = hx.Pick(g.rng, [][]byte{cid[:31], cat(cid, []byte{0}), nil})
		}
		return fmt.Sprintf("op - citer %d %s", g.estEpoch(), hx.Hex(cid))
	}
	ge := g.estEpoch()
	if len(g.epochs) > 0 && g.rng.IntN(2) == 0 {
		ge = hx.Pick(g.rng, g.epochs)
	}
	id := cat([]byte("cnr"), encInt(big.NewInt(ge)), hx.Pick(g.rng, g.cids))
	switch g.rng.IntN(12) {
	case 0:
		id = id[3:]
	case 1:
		id = id[:30]
	case 2:
		id = cat([]byte("cnx"), id[3:])
	}
	return fmt.Sprintf("op - cget %s", hx.Hex(id))
}

// ---------------------------------------------------------------- neofsid

func (g *gen) fsidInit() {
	o0 := cat([]byte{0x35}, tagBytes("owner0", 24))
	o1 := cat(o0[:24], []byte{o0[24] ^ 1}) // shares a 24-byte prefix with o0
	o2 := cat([]byte{0x35}, tagBytes("owner2", 24))
	g.owners = [][]byte{o0, o1, o2}
	for i := 0; i < 5; i++ {
		g.keys = append(g.keys, g.w.pool[i])
	}
	g.keys = append(g.keys, cat(g.w.pool[0][:32], []byte{g.w.pool[0][32] ^ 1}))
}

func (g *gen) nextFsid() string {
	owner := hx.Pick(g.rng, g.owners)
	if g.rng.IntN(14) == 0 {
		owner = hx.Pick(g.rng, [][]byte{owner[:24], cat(owner, []byte{7}), nil, g.owners[0][:20]})
	}
	r := g.rng.IntN(100)
	if r >= 70 {
		return fmt.Sprintf("op - ikey %s", hx.Hex(owner))
	}
	n := g.rng.IntN(4)
	var ks [][]byte
	for i := 0; i < n; i++ {
		k := hx.Pick(g.rng, g.keys)
		if g.rng.IntN(25) == 0 {
			k = hx.Pick(g.rng, [][]byte{k[:32], cat(k, []byte{1}), nil})
		}
		ks = append(ks, k)
	}
	m := "iadd"
	if r >= 42 {
		m = "irm"
	}
	if len(ks) == 0 {
		return fmt.Sprintf("op %s %s %s -", g.sigAlpha(), m, hx.Hex(owner))
	}
	var s []string
	for _, k := range ks {
		s = append(s, hx.Hex(k))
	}
	return fmt.Sprintf("op %s %s %s %s", g.sigAlpha(), m, hx.Hex(owner), strings.Join(s, ","))
}

// ---------------------------------------------------------------- configuration

func (g *gen) cfgInit() {
	g.cfgKeys = [][]byte{nil, []byte("a"), []byte("ab"), []byte("abc"), []byte("b"), []byte("config"), []byte("configa"),
		[]byte("ContainerFee"), []byte("ContainerFe"), []byte("ContainerFeeX"), {0}, {0, 0}, {0, 1}, {255}, {1}, {1, 1},
		tagBytes("k58", 58), tagBytes("k58", 57), tagBytes("k58", 59)}
}

func (g *gen) nextCfg(pfx string) string {
	k := hx.Pick(g.rng, g.cfgKeys)
	if g.rng.IntN(10) == 0 {
		k = rbytes(g.rng, 1+g.rng.IntN(3))
	}
	r := g.rng.IntN(100)
	switch {
	case r < 45:
		v := rbytes(g.rng, g.rng.IntN(5))
		if g.rng.IntN(6) == 0 {
			v = encInt(big.NewInt(hx.Pick(g.rng, boundaryEpochs)))
		}
		return fmt.Sprintf("op %s %sset %s %s %s", g.sigAlpha(), pfx, hx.Hex(rbytes(g.rng, g.rng.IntN(3))), hx.Hex(k), hx.Hex(v))
	case r < 80:
		return fmt.Sprintf("op - %sget %s", pfx, hx.Hex(k))
	}
	return fmt.Sprintf("op - %slist", pfx)
}

// ---------------------------------------------------------------- driver of the generation

var famOrder = []string{"rep", "aud", "est", "fsid", "ncfg", "fcfg"}

func generate(t *testing.T, run *hx.Run) {
	rounds, nops := 5, 70
	if run.Tier == "thorough" {
		rounds, nops = 15, 180
	}
	ci := 0
	for round := 0; round < rounds; round++ {
		for _, fam := range famOrder {
			n := []int{1, 4, 7}[(ci+run.Shard)%3]
			w := newWorld(t, run, n)
			w.wf = round%3 != 2
			kind := "wf"
			if !w.wf {
				kind = "nonwf"
			}
			run.Case(fmt.Sprintf("s%d.%d.%d.%s", run.Seed, run.Shard, ci, fam), kind, fmt.Sprintf("n=%d", n))
			g := &gen{w: w, rng: run.Rand(ci), fam: fam}
			var first []string
			do := func(l string) {
				ol, obs, post := w.execOp(l)
				run.Op(ol, obs)
				post()
				if len(first) < 6 {
					if len(obs) > 300 {
						obs = obs[:300] + "…"
					}
					first = append(first, ol+"  =>  "+obs)
				}
			}
			switch fam {
			case "est":
				for _, l := range g.estSetup() {
					do(l)
				}
			case "fsid":
				g.fsidInit()
			case "ncfg", "fcfg":
				g.cfgInit()
			}
			for i := 0; i < nops; i++ {
				var l string
				switch fam {
				case "rep":
					l = g.nextRep()
				case "aud":
					l = g.nextAud(i)
				case "est":
					l = g.nextEst()
				case "fsid":
					l = g.nextFsid()
				case "ncfg":
					l = g.nextCfg("n")
				case "fcfg":
					l = g.nextCfg("f")
				}
				do(l)
			}
			run.Sample(strings.Join(first, "\n"))
			ci++
		}
	}
	if run.Shard%4 == 0 {
		// a long run of puts under one id: the stored counter's encoding grows to two bytes at 128, so the
		// value keys stop being ordered like the puts (the results are compared in storage order)
		w := newWorld(t, run, 1)
		w.wf = true
		run.Case(fmt.Sprintf("s%d.%d.%d.repmany", run.Seed, run.Shard, ci), "wf", "n=1")
		rng := run.Rand(ci)
		e := hx.Pick(rng, boundaryEpochs)
		peer := w.pool[rng.IntN(4)]
		do := func(l string) {
			ol, obs, post := w.execOp(l)
			run.Op(ol, obs)
			post()
		}
		for i := 0; i < 131; i++ {
			do(fmt.Sprintf("op alpha rput %d %s %s", e, hx.Hex(peer), hx.Hex([]byte{byte(i), byte(rng.IntN(3))})))
			if i == 126 || i == 127 || i == 128 {
				do(fmt.Sprintf("op - rget %d %s", e, hx.Hex(peer)))
			}
		}
		do(fmt.Sprintf("op - rgetid %s", hx.Hex(cat(encInt(big.NewInt(e)), peer))))
		do(fmt.Sprintf("op - rlist %d", e))
	}
}
