package stores

// Property monitor for C20, evaluated on the implementation's own observations only.
//
// The monitor keeps, per contract family, a TYPED map in the property's vocabulary
// ((epoch, peer) -> values, (epoch, container, auditor) -> result, (epoch, container, node) -> size,
// owner -> key set, configuration key -> value) that is updated by the operations which the contract
// accepted (HALT), with the cleanup rules as the property states them (older than 3 epochs on a put of
// the same node, older than 4 epochs on a tick), and compares every read/list result and the decoded raw
// storage with that map. It never looks at the Lean model's output.
//
// Failure classes (`what`):
//   foreign-epoch-entries  a listing returned, besides the right entries, entries stored under ANOTHER
//                          epoch whose key bytes begin with the queried prefix (variable-length epoch
//                          encodings: the known finding F10, one known_findings entry per call site)
//   foreign-entries        returned entries not stored under the queried key that the above does not explain
//   missing-entries        an entry that was put and not cleaned up is not returned / not stored
//   stale-entries          an entry that the documented cleanup deltas remove is still stored
//   wrong-value            a single-value read returns something else than the last value put
//   unadmitted-estimation / unadmitted-result   a put was accepted without the required membership+witness
//   audit-from-non-ir      an audit result whose recorded key is not a current Inner Ring member was accepted (whoever signed)
//   failed-call-effect     a FAULTed invocation changed the store
//   listed-id-unreadable   an id that listContainerSizes hands out for a stored estimation is refused by getContainerSize
//   wrong-estimation       getContainerSize(listed id) names another container than the one the id was listed for

import (
	"bytes"
	"fmt"
	"math/big"
	"sort"
	"strings"

	"github.com/nspcc-dev/neo-go/pkg/crypto/hash"
	"github.com/nspcc-dev/neo-go/pkg/vm/stackitem"

	"verifharness/hx"
)

type repKey struct{ epoch, peer string } // decimal epoch, hex peer
type audKey struct{ epoch, cid, from string }
type estKey struct{ epoch, cid, node string }

type monitor struct {
	w     *world
	rep   map[repKey][][]byte
	aud   map[audKey][]byte
	ir    map[string]bool
	est   map[estKey]*big.Int
	live  map[string]bool
	cands map[string]bool
	pub   []map[string]bool // network maps published by successful netmap ticks, oldest first
	fsid  map[string]map[string]bool
	ncfg  map[string][]byte
	fcfg  map[string][]byte
	prev  map[string]string
}

func newMonitor(w *world) *monitor {
	return &monitor{w: w, rep: map[repKey][][]byte{}, aud: map[audKey][]byte{}, ir: map[string]bool{},
		est: map[estKey]*big.Int{}, live: map[string]bool{}, cands: map[string]bool{},
		fsid: map[string]map[string]bool{}, ncfg: map[string][]byte{}, fcfg: map[string][]byte{}, prev: map[string]string{}}
}

const prop = "C20"

func (m *monitor) v(site, what, detail string) {
	m.w.run.Violation(prop, site, what, detail)
}

func big10(s string) *big.Int { return hx.Big(s) }

func encS(epoch string) []byte { return encInt(big10(epoch)) }

// env: environment operations (network map candidates, Inner Ring designation)
func (m *monitor) env(sig, method string, args []string, halt bool) {
	if !halt {
		return
	}
	switch method {
	case "nadd":
		m.cands[args[0]] = true
	case "nrm":
		delete(m.cands, args[0])
	case "designate":
		m.ir = map[string]bool{}
		for _, k := range unHexList(args[0]) {
			m.ir[hx.Hex(k)] = true
		}
	}
}

// prevNetmap: the network map of the previous epoch = the one published by the last but one tick
func (m *monitor) prevNetmap() map[string]bool {
	if len(m.pub) < 2 {
		return map[string]bool{}
	}
	return m.pub[len(m.pub)-2]
}

type entry struct {
	val   []byte // what the read returns for this entry
	epoch string // epoch it was stored under
	key   []byte // its storage key bytes after the family prefix (for the classification only)
}

// compare got with the entries stored under the query (want); all = every stored entry of the family.
// An extra element is "foreign-epoch" when it is the value of an entry of another epoch whose key bytes
// start with the query's bytes.
func (m *monitor) compare(site, query string, qepoch string, qprefix []byte, got [][]byte, want []entry, all []entry) {
	cnt := map[string]int{}
	for _, g := range got {
		cnt[string(g)]++
	}
	var missing []string
	for _, e := range want {
		if cnt[string(e.val)] > 0 {
			cnt[string(e.val)]--
		} else {
			missing = append(missing, disp(e.val))
		}
	}
	if len(missing) > 0 {
		sort.Strings(missing)
		m.v(site, "missing-entries", fmt.Sprintf("query %s: %d entries put under it and not cleaned up are not returned: %s",
			query, len(missing), strings.Join(missing, ",")))
	}
	var extra [][]byte
	for _, g := range got { // leftovers, in result order
		if cnt[string(g)] > 0 {
			cnt[string(g)]--
			extra = append(extra, g)
		}
	}
	if len(extra) == 0 {
		return
	}
	// classification
	epochs := map[string]bool{}
	unexplained := 0
	used := map[int]bool{}
	for _, x := range extra {
		found := false
		for i := range all {
			e := &all[i]
			if used[i] || e.epoch == qepoch || !bytes.Equal(e.val, x) || !bytes.HasPrefix(e.key, qprefix) {
				continue
			}
			used[i], found = true, true
			epochs[e.epoch] = true
			break
		}
		if !found {
			unexplained++
		}
	}
	var xs []string
	for _, x := range extra {
		xs = append(xs, disp(x))
	}
	if unexplained == 0 {
		m.v(site, "foreign-epoch-entries", fmt.Sprintf("query %s returned %d entries stored under other epochs %v whose key bytes begin with the query's: %s",
			query, len(extra), hx.SortedKeys(epochs), strings.Join(xs, ",")))
	} else {
		m.v(site, "foreign-entries", fmt.Sprintf("query %s returned %d entries that were not put under it (%d not explained by a key prefix): %s",
			query, len(extra), unexplained, strings.Join(xs, ",")))
	}
}

// disp prints an entry: estimations are carried as the text "from:size", everything else as hex
func disp(x []byte) string {
	if i := bytes.IndexByte(x, ':'); i == 66 {
		return string(x)
	}
	return hx.Hex(x)
}

// ---- reputation

func (m *monitor) repValues() []entry { // every stored value with its value-key bytes
	var all []entry
	for k, vs := range m.rep {
		for i, v := range vs {
			key := cat(encS(k.epoch), hx.UnHex(k.peer), encInt(big.NewInt(int64(i+1))))
			all = append(all, entry{v, k.epoch, key})
		}
	}
	return all
}

func (m *monitor) checkRepGet(site, epoch, peer string, got [][]byte) {
	var want []entry
	for _, v := range m.rep[repKey{epoch, peer}] {
		want = append(want, entry{val: v, epoch: epoch})
	}
	m.compare(site, fmt.Sprintf("(epoch %s, peer %s)", epoch, peer), epoch, cat(encS(epoch), hx.UnHex(peer)), got, want, m.repValues())
}

func (m *monitor) checkRepList(epoch string, got [][]byte) {
	var want, all []entry
	for k := range m.rep {
		id := cat(encS(k.epoch), hx.UnHex(k.peer))
		e := entry{id, k.epoch, id}
		all = append(all, e)
		if k.epoch == epoch {
			want = append(want, e)
		}
	}
	m.compare("reputation.listByEpoch", "epoch "+epoch, epoch, encS(epoch), got, want, all)
}

// ---- audit

func (m *monitor) audID(k audKey) []byte {
	h := hash.Sha256(hx.UnHex(k.from)).BytesBE()
	return cat(encS(k.epoch), hx.UnHex(k.cid), h[:24])
}

func (m *monitor) checkAudList(site, query, qepoch string, qprefix []byte, sel func(audKey) bool, got [][]byte) {
	var want, all []entry
	for k := range m.aud {
		id := m.audID(k)
		e := entry{id, k.epoch, id}
		all = append(all, e)
		if sel(k) {
			want = append(want, e)
		}
	}
	m.compare(site, query, qepoch, qprefix, got, want, all)
}

// ---- estimations

func h10(node string) []byte { return hash.RipeMD160(hx.UnHex(node)).BytesBE()[:10] }

func estVal(from []byte, size *big.Int) []byte { return []byte(hx.Hex(from) + ":" + size.String()) }

func (m *monitor) estEntries(val func(k estKey, size *big.Int) []byte) []entry {
	var all []entry
	for k, sz := range m.est {
		all = append(all, entry{val(k, sz), k.epoch, cat(encS(k.epoch), hx.UnHex(k.cid), h10(k.node))})
	}
	return all
}

// checkEstStorage: the decoded raw storage holds exactly the estimations that were put and not cleaned up
func (m *monitor) checkEstStorage(site string) {
	type rec struct{ from, size string }
	stored := map[string]rec{}
	for _, kv := range m.w.c.Scan(m.w.need("container")) {
		if !bytes.HasPrefix(kv.K, []byte("cnr")) {
			continue
		}
		it, err := stackitem.Deserialize(kv.V)
		if err != nil {
			m.v(site, "wrong-value", fmt.Sprintf("estimation record %x does not deserialize", kv.K))
			continue
		}
		e := itemEst(it)
		stored[string(kv.K[3:])] = rec{hx.Hex(e.from), e.size.String()}
	}
	var missing, wrong []string
	for k, sz := range m.est {
		sk := string(cat(encS(k.epoch), hx.UnHex(k.cid), h10(k.node)))
		r, ok := stored[sk]
		if !ok {
			missing = append(missing, fmt.Sprintf("(epoch %s, container %s, node %s)", k.epoch, k.cid[:8], k.node[:8]))
			continue
		}
		if r.from != k.node || r.size != sz.String() {
			wrong = append(wrong, fmt.Sprintf("(epoch %s, container %s, node %s): stored %s:%s, put %s", k.epoch, k.cid[:8], k.node[:8], r.from[:8], r.size, sz))
		}
		delete(stored, sk)
	}
	sort.Strings(missing)
	sort.Strings(wrong)
	if len(missing) > 0 {
		m.v(site, "missing-entries", fmt.Sprintf("%d estimations that were put and are not older than the cleanup deltas are no longer stored: %s", len(missing), strings.Join(missing, " ")))
	}
	if len(wrong) > 0 {
		m.v(site, "wrong-value", strings.Join(wrong, " "))
	}
	if len(stored) > 0 {
		var ks []string
		for k := range stored {
			ks = append(ks, hx.Hex([]byte(k)))
		}
		sort.Strings(ks)
		m.v(site, "stale-entries", fmt.Sprintf("%d stored estimations should have been removed by the cleanup deltas (or were never put): %s", len(ks), strings.Join(ks, " ")))
	}
}

func (m *monitor) cleanupOlderThan(epoch *big.Int, delta int64, sel func(estKey) bool) {
	for k := range m.est {
		if sel != nil && !sel(k) {
			continue
		}
		d := new(big.Int).Sub(epoch, big10(k.epoch))
		if d.Cmp(big.NewInt(delta)) > 0 {
			delete(m.est, k)
		}
	}
}

// estIDOwner: which (epoch, container) of the reference table does a listed id `cnr‖enc epoch‖cid` denote?
func (m *monitor) estIDOwner(id []byte) (epoch, cid string, ok bool) {
	for k := range m.est {
		if bytes.Equal(cat([]byte("cnr"), encS(k.epoch), hx.UnHex(k.cid)), id) {
			return k.epoch, k.cid, true
		}
	}
	return "", "", false
}

// checkEstGet judges one getContainerSize(id) result for an id of the reference table: the named container and
// exactly the estimations put under (epoch, container) and not cleaned up.
func (m *monitor) checkEstGet(id []byte, qe, qc string, gotCid []byte, ests []est) {
	const site = "container.getContainerSize"
	if hx.Hex(gotCid) != qc {
		m.v(site, "wrong-estimation", fmt.Sprintf("getContainerSize(%s) names container %s, the id was listed for container %s", hx.Hex(id), hx.Hex(gotCid), qc))
	}
	var got [][]byte
	for _, e := range ests {
		got = append(got, estVal(e.from, e.size))
	}
	var want []entry
	all := m.estEntries(func(k estKey, sz *big.Int) []byte { return estVal(hx.UnHex(k.node), sz) })
	for k, sz := range m.est {
		if k.epoch == qe && k.cid == qc {
			want = append(want, entry{val: estVal(hx.UnHex(k.node), sz), epoch: qe})
		}
	}
	m.compare(site, fmt.Sprintf("(epoch %s, container %s)", qe, qc), qe, id[3:], got, want, all)
}

// probeListedIDs: the read path list -> get. Every id that a listing hands out for an entry of the reference table
// must be readable through getContainerSize and yield exactly what was put under it. (Ids that the listing returns
// for a foreign epoch through the known prefix behaviour F10 are ids of the table too and are probed as well.)
func (m *monitor) probeListedIDs(origin string, ids [][]byte) {
	w := m.w
	seen := map[string]bool{}
	for _, id := range ids {
		if seen[string(id)] {
			continue
		}
		seen[string(id)] = true
		qe, qc, ok := m.estIDOwner(id)
		if !ok {
			continue // not an id of the table: already judged by the comparison of the listing itself
		}
		st, err := w.c.Call(w.need("container"), "getContainerSize", id)
		if err != nil {
			m.v("container.getContainerSize", "listed-id-unreadable", fmt.Sprintf(
				"id %s returned by %s for the estimations of (epoch %s, container %s) is refused by getContainerSize: %s",
				hx.Hex(id), origin, qe, qc, shortErr(err)))
			continue
		}
		f := itemArr(st[0])
		var ests []est
		for _, x := range itemArr(f[1]) {
			ests = append(ests, itemEst(x))
		}
		m.checkEstGet(id, qe, qc, itemBytes(f[0]), ests)
	}
}

func shortErr(err error) string {
	s := err.Error()
	if i := strings.LastIndex(s, "exception: "); i >= 0 {
		s = s[i+len("exception: "):]
	}
	if len(s) > 80 {
		s = s[:80]
	}
	return s
}

// ---- generic

func (m *monitor) checkSet(site, query string, got [][]byte, want map[string]bool) {
	g := map[string]int{}
	for _, x := range got {
		g[hx.Hex(x)]++
	}
	var missing, extra []string
	for k := range want {
		if g[k] == 0 {
			missing = append(missing, k)
		}
	}
	for k, n := range g {
		if !want[k] || n > 1 {
			extra = append(extra, k)
		}
	}
	sort.Strings(missing)
	sort.Strings(extra)
	if len(missing) > 0 {
		m.v(site, "missing-entries", fmt.Sprintf("query %s: not returned: %s", query, strings.Join(missing, ",")))
	}
	if len(extra) > 0 {
		m.v(site, "foreign-entries", fmt.Sprintf("query %s returned entries that are not stored under it: %s", query, strings.Join(extra, ",")))
	}
}

// observe is called after every operation of a case inside the property's quantifier.
func (m *monitor) observe(line, sig, method string, args []string, o *outcome, fam, st string) {
	if !reads[method] {
		if p, ok := m.prev[fam]; ok && !o.halt && p != st {
			m.v(siteOf(method), "failed-call-effect", "a FAULTed invocation changed the stored data: "+line)
		}
		m.prev[fam] = st
	}
	switch method {
	// ------------------------------------------------ reputation
	case "rput":
		if !o.halt {
			return
		}
		k := repKey{args[0], args[1]}
		m.rep[k] = append(m.rep[k], hx.UnHex(args[2]))
		// probe the read API right away
		w := m.w
		if st, err := w.c.Call(w.need("reputation"), "get", hx.Big(args[0]), nb(hx.UnHex(args[1]))); err == nil {
			m.checkRepGet("reputation.get", args[0], args[1], bytesList(st[0]))
		} else {
			m.v("reputation.get", "missing-entries", "get FAULTs after "+line)
		}
		if st, err := w.c.Call(w.need("reputation"), "listByEpoch", hx.Big(args[0])); err == nil {
			m.checkRepList(args[0], bytesList(st[0]))
		}
	case "rget":
		if o.halt {
			m.checkRepGet("reputation.get", args[0], args[1], o.list)
		}
	case "rgetid":
		if !o.halt {
			return
		}
		id := hx.UnHex(args[0])
		var want []entry
		qe := "?"
		for k, vs := range m.rep {
			if bytes.Equal(cat(encS(k.epoch), hx.UnHex(k.peer)), id) {
				qe = k.epoch
				for _, v := range vs {
					want = append(want, entry{val: v, epoch: k.epoch})
				}
			}
		}
		if qe == "?" {
			return // not an id handed out for something that was put: the property says nothing
		}
		m.compare("reputation.getByID", "id "+args[0], qe, id, o.list, want, m.repValues())
	case "rlist":
		if o.halt {
			m.checkRepList(args[0], o.list)
		}
	// ------------------------------------------------ audit
	case "aput":
		if !o.halt {
			return
		}
		epoch, cid, key, ok := parseAudit(hx.UnHex(args[0]))
		if !ok {
			m.v("audit.put", "unadmitted-result", "a result whose header cannot be read was stored: "+line)
			return
		}
		from := hx.Hex(key)
		if !m.ir[from] {
			// "audit results only from Inner Ring members": the key recorded in the result, whoever signed
			m.v("audit.put", "audit-from-non-ir", fmt.Sprintf("result reported under key %s accepted and stored, but this key is not a current Inner Ring member; signers %s",
				from, sig))
		} else if !sigHas(sig, from) {
			m.v("audit.put", "unadmitted-result", fmt.Sprintf("result from Inner Ring member %s accepted without the witness of this key; signers %s",
				from, sig))
		}
		k := audKey{epoch.String(), hx.Hex(cid), from}
		m.aud[k] = hx.UnHex(args[0])
		w := m.w
		if st, err := w.c.Call(w.need("audit"), "get", m.audID(k)); err != nil || !bytes.Equal(itemBytes(st[0]), m.aud[k]) {
			m.v("audit.get", "wrong-value", "get(id) does not return the result just put: "+line)
		}
	case "aget":
		if !o.halt {
			return
		}
		id := hx.UnHex(args[0])
		for k, raw := range m.aud {
			if bytes.Equal(m.audID(k), id) {
				if o.isNil || !bytes.Equal(o.opt, raw) {
					m.v("audit.get", "wrong-value", fmt.Sprintf("get(%s) = %s, last result put under it: %s", args[0], o.ret, hx.Hex(raw)))
				}
				return
			}
		}
		if !o.isNil {
			m.v("audit.get", "foreign-entries", fmt.Sprintf("get(%s) = %s but nothing was put under this id", args[0], o.ret))
		}
	case "alist":
		if o.halt {
			m.checkAudList("audit.list", "all", "", nil, func(audKey) bool { return true }, o.list)
		}
	case "alistE":
		if o.halt {
			m.checkAudList("audit.listByEpoch", "epoch "+args[0], args[0], encS(args[0]),
				func(k audKey) bool { return k.epoch == args[0] }, o.list)
		}
	case "alistC":
		if o.halt {
			m.checkAudList("audit.listByCID", fmt.Sprintf("(epoch %s, container %s)", args[0], args[1]), args[0],
				cat(encS(args[0]), hx.UnHex(args[1])), func(k audKey) bool { return k.epoch == args[0] && k.cid == args[1] }, o.list)
		}
	case "alistN":
		if o.halt {
			q := audKey{args[0], args[1], args[2]}
			m.checkAudList("audit.listByNode", fmt.Sprintf("(epoch %s, container %s, node %s)", args[0], args[1], args[2]), args[0],
				m.audID(q), func(k audKey) bool { return k == q }, o.list)
		}
	// ------------------------------------------------ container size estimations
	case "cmk":
		if o.halt {
			m.live[args[1]] = true
		}
	case "crm":
		if o.halt {
			delete(m.live, args[0])
		}
	case "cput":
		if !o.halt {
			return
		}
		epoch, cid, size, node := args[0], args[1], big10(args[2]), args[3]
		if !m.prevNetmap()[node] || !sigHas(sig, node) || !m.live[cid] {
			m.v("container.putContainerSize", "unadmitted-estimation", fmt.Sprintf(
				"estimation from %s accepted; in the previous epoch's network map: %v, witnessed by its key: %v, container exists: %v; signers %s",
				node, m.prevNetmap()[node], sigHas(sig, node), m.live[cid], sig))
		}
		m.cleanupOlderThan(big10(epoch), 3, func(k estKey) bool { return k.cid == cid && k.node == node })
		m.est[estKey{epoch, cid, node}] = size
		m.checkEstStorage("container.putContainerSize")
		// read path list -> get for the epoch just written
		if st, err := m.w.c.Call(m.w.need("container"), "listContainerSizes", big10(epoch)); err == nil {
			ids := bytesList(st[0])
			found := false
			for _, id := range ids {
				if bytes.Equal(id, cat([]byte("cnr"), encS(epoch), hx.UnHex(cid))) {
					found = true
				}
			}
			if !found {
				m.v("container.listContainerSizes", "missing-entries", fmt.Sprintf("query epoch %s: the id of the estimation just put for container %s is not listed", epoch, cid))
			}
			m.probeListedIDs("listContainerSizes("+epoch+")", ids)
		} else {
			m.v("container.listContainerSizes", "missing-entries", "listContainerSizes("+epoch+") FAULTs after "+line)
		}
	case "tick", "ctick":
		if !o.halt {
			return
		}
		if method == "tick" {
			cp := map[string]bool{}
			for k := range m.cands {
				cp[k] = true
			}
			m.pub = append(m.pub, cp)
		}
		m.cleanupOlderThan(big10(args[0]), 4, nil)
		m.checkEstStorage("container.newEpoch")
	case "clist":
		if !o.halt {
			return
		}
		var want, all []entry
		seen := map[string]bool{}
		for k := range m.est {
			id := cat([]byte("cnr"), encS(k.epoch), hx.UnHex(k.cid))
			if seen[string(id)] {
				continue
			}
			seen[string(id)] = true
			e := entry{id, k.epoch, id[3:]}
			all = append(all, e)
			if k.epoch == args[0] {
				want = append(want, e)
			}
		}
		m.compare("container.listContainerSizes", "epoch "+args[0], args[0], encS(args[0]), o.list, want, all)
		m.probeListedIDs("listContainerSizes("+args[0]+")", o.list)
	case "citerall":
		if !o.halt {
			return
		}
		var got [][]byte
		for _, ke := range o.kests {
			got = append(got, estVal(ke.e.from, ke.e.size))
		}
		var want []entry
		all := m.estEntries(func(k estKey, sz *big.Int) []byte { return estVal(hx.UnHex(k.node), sz) })
		for _, e := range all {
			if e.epoch == args[0] {
				want = append(want, e)
			}
		}
		m.compare("container.iterateAllContainerSizes", "epoch "+args[0], args[0], encS(args[0]), got, want, all)
	case "cget":
		id := hx.UnHex(args[0])
		qe, qc, found := m.estIDOwner(id)
		if !found {
			return // not an id of something stored: the property says nothing
		}
		if !o.halt {
			m.v("container.getContainerSize", "listed-id-unreadable", fmt.Sprintf(
				"id %s, the id listContainerSizes hands out for the estimations of (epoch %s, container %s), is refused by getContainerSize", args[0], qe, qc))
			return
		}
		m.checkEstGet(id, qe, qc, o.cid, o.ests)
	case "citer":
		if !o.halt {
			if len(hx.UnHex(args[1])) == 32 && len(encS(args[0]))+35 <= 64 {
				m.v("container.iterateContainerSizes", "missing-entries", "iterateContainerSizes FAULTs for a 32-byte container id: "+line)
			}
			return
		}
		qe, qc := args[0], args[1]
		var got [][]byte
		for _, e := range o.ests {
			got = append(got, estVal(e.from, e.size))
		}
		var want []entry
		all := m.estEntries(func(k estKey, sz *big.Int) []byte { return estVal(hx.UnHex(k.node), sz) })
		for k, sz := range m.est {
			if k.epoch == qe && k.cid == qc {
				want = append(want, entry{val: estVal(hx.UnHex(k.node), sz), epoch: qe})
			}
		}
		m.compare("container.iterateContainerSizes", fmt.Sprintf("(epoch %s, container %s)", qe, qc), qe, cat(encS(qe), hx.UnHex(qc)), got, want, all)
	// ------------------------------------------------ neofsid
	case "iadd", "irm":
		if !o.halt {
			return
		}
		owner := args[0]
		if m.fsid[owner] == nil {
			m.fsid[owner] = map[string]bool{}
		}
		for _, k := range unHexList(args[1]) {
			if method == "iadd" {
				m.fsid[owner][hx.Hex(k)] = true
			} else {
				delete(m.fsid[owner], hx.Hex(k))
			}
		}
		// probe every known owner: keys of one owner never show up under another
		w := m.w
		for _, ow := range hx.SortedKeys(m.fsid) {
			if st, err := w.c.Call(w.need("neofsid"), "key", hx.UnHex(ow)); err == nil {
				m.checkSet("neofsid.key", "owner "+ow, bytesList(st[0]), m.fsid[ow])
			} else {
				m.v("neofsid.key", "missing-entries", "key("+ow+") FAULTs")
			}
		}
	case "ikey":
		if o.halt {
			want := m.fsid[args[0]]
			if want == nil {
				want = map[string]bool{}
			}
			m.checkSet("neofsid.key", "owner "+args[0], o.list, want)
		}
	// ------------------------------------------------ configuration
	case "nset", "fset":
		if !o.halt {
			return
		}
		cfg, name := m.ncfg, "netmap"
		if method == "fset" {
			cfg, name = m.fcfg, "neofs"
		}
		cfg[args[1]] = hx.UnHex(args[2])
		m.probeConfig(name, cfg)
	case "nget", "fget":
		if !o.halt {
			return
		}
		cfg, name := m.ncfg, "netmap"
		if method == "fget" {
			cfg, name = m.fcfg, "neofs"
		}
		m.checkCfgGet(name, args[0], cfg, o.isNil, o.opt)
	case "nlist", "flist":
		if !o.halt {
			return
		}
		cfg, name := m.ncfg, "netmap"
		if method == "flist" {
			cfg, name = m.fcfg, "neofs"
		}
		m.checkCfgList(name, cfg, o.kvs)
	}
}

func (m *monitor) checkCfgGet(name, key string, cfg map[string][]byte, isNil bool, val []byte) {
	want, ok := cfg[key]
	switch {
	case ok && (isNil || !bytes.Equal(want, val)):
		m.v(name+".config", "wrong-value", fmt.Sprintf("config(%s) = %s (null: %v), last value set: %s", key, hx.Hex(val), isNil, hx.Hex(want)))
	case !ok && !isNil:
		m.v(name+".config", "foreign-entries", fmt.Sprintf("config(%s) = %s but the key was never set", key, hx.Hex(val)))
	}
}

func (m *monitor) checkCfgList(name string, cfg map[string][]byte, kvs [][2][]byte) {
	want := map[string]bool{}
	for k, v := range cfg {
		want[k+":"+hx.Hex(v)] = true
	}
	var got [][]byte
	for _, kv := range kvs {
		got = append(got, []byte(hx.Hex(kv[0])+":"+hx.Hex(kv[1])))
	}
	g := map[string]int{}
	for _, x := range got {
		g[string(x)]++
	}
	var missing, extra []string
	for k := range want {
		if g[k] == 0 {
			missing = append(missing, k)
		}
	}
	for k, n := range g {
		if !want[k] || n > 1 {
			extra = append(extra, k)
		}
	}
	sort.Strings(missing)
	sort.Strings(extra)
	if len(missing) > 0 {
		m.v(name+".listConfig", "missing-entries", "not listed: "+strings.Join(missing, ","))
	}
	if len(extra) > 0 {
		m.v(name+".listConfig", "foreign-entries", "listed but never set (or listed twice): "+strings.Join(extra, ","))
	}
}

// probeConfig: after a set, every key ever set (including prefixes/extensions of the one just set) reads back
func (m *monitor) probeConfig(name string, cfg map[string][]byte) {
	w := m.w
	for _, k := range hx.SortedKeys(cfg) {
		st, err := w.c.Call(w.need(name), "config", nb(hx.UnHex(k)))
		if err != nil {
			m.v(name+".config", "missing-entries", "config("+k+") FAULTs")
			continue
		}
		m.checkCfgGet(name, k, cfg, isNull(st[0]), itemBytes(st[0]))
	}
}

func siteOf(method string) string {
	switch method {
	case "rput":
		return "reputation.put"
	case "aput":
		return "audit.put"
	case "cput":
		return "container.putContainerSize"
	case "tick", "ctick":
		return "container.newEpoch"
	case "cmk":
		return "container.put"
	case "crm":
		return "container.delete"
	case "iadd":
		return "neofsid.addKey"
	case "irm":
		return "neofsid.removeKey"
	case "nset":
		return "netmap.setConfig"
	case "fset":
		return "neofs.setConfig"
	}
	return method
}
