// Correspondence harness for property C20 (epoch-keyed, per-owner and configuration stores):
// Reputation, Audit, container size estimations (Container + Netmap), NeoFSID and the configuration
// maps of Netmap and NeoFS. Executes operation lines on the contracts compiled from the repository
// under test, prints canonical observations (read API results + decoded raw storage) for the diff with
// the Lean model (lean/NeoFS/Model/EpochStores.lean) and runs the property monitor (monitor.go) on the
// implementation's own observations.
package stores

import (
	"bytes"
	"crypto/sha256"
	"encoding/binary"
	"fmt"
	"math/big"
	"os"
	"sort"
	"strings"
	"testing"

	"github.com/nspcc-dev/neo-go/pkg/core/native/nativenames"
	"github.com/nspcc-dev/neo-go/pkg/core/native/noderoles"
	"github.com/nspcc-dev/neo-go/pkg/core/state"
	"github.com/nspcc-dev/neo-go/pkg/crypto/hash"
	"github.com/nspcc-dev/neo-go/pkg/encoding/bigint"
	"github.com/nspcc-dev/neo-go/pkg/neotest"
	"github.com/nspcc-dev/neo-go/pkg/util"
	"github.com/nspcc-dev/neo-go/pkg/vm/stackitem"
	"github.com/nspcc-dev/neo-go/pkg/wallet"

	"verifharness/chainx"
	"verifharness/hx"
)

const nPool = 8 // single-key accounts: storage nodes, Inner Ring members, strangers

type world struct {
	c       *chainx.Chain
	run     *hx.Run
	wf      bool
	dep     map[string]util.Uint160
	signers map[string]neotest.SingleSigner // hex(public key) -> signer
	pool    [][]byte                        // public keys of the pool, index = tag number
	mon     *monitor
	lastDig map[string]string
}

func newWorld(t testing.TB, run *hx.Run, n int) *world {
	c := chainx.New(t, n)
	c.DeployNNS()
	w := &world{c: c, run: run, dep: map[string]util.Uint160{}, signers: map[string]neotest.SingleSigner{},
		lastDig: map[string]string{}}
	for i := 0; i < nPool; i++ {
		s := neotest.NewSingleSigner(wallet.NewAccountFromPrivateKey(chainx.Key(fmt.Sprintf("pool-%d", i))))
		pk := s.Account().PublicKey().Bytes()
		w.signers[hx.Hex(pk)] = s
		w.pool = append(w.pool, pk)
	}
	w.mon = newMonitor(w)
	return w
}

// PoolKey is the public key of pool account i (no chain needed).
func PoolKey(i int) []byte {
	return wallet.NewAccountFromPrivateKey(chainx.Key(fmt.Sprintf("pool-%d", i))).PublicKey().Bytes()
}

// need deploys a contract family on first use, the way the repository's tests do.
func (w *world) need(name string) util.Uint160 {
	if h, ok := w.dep[name]; ok {
		return h
	}
	c := w.c
	var h util.Uint160
	// neotest caches compiled contracts per path, so ct.Hash may belong to another committee: recompute
	deploy := func(cname string, data any) util.Uint160 {
		ct := c.Compile(cname)
		c.Deploy(ct, data)
		return state.CreateContractHash(c.Cmt.ScriptHash(), ct.NEF.Checksum, ct.Manifest.Name)
	}
	switch name {
	case "reputation":
		h = deploy("reputation", []any{false})
	case "audit":
		h = deploy("audit", []any{false})
	case "neofsid":
		h = deploy("neofsid", []any{false, nil, nil, nil, nil})
	case "netmap":
		h = deploy("netmap", []any{false, util.Uint160{}, util.Uint160{},
			[]any{c.Members[0].Account().PublicKey().Bytes()}, []any{}})
		c.RegisterNNS("netmap", h)
	case "balance":
		w.need("netmap")
		h = deploy("balance", []any{false, util.Uint160{}, util.Uint160{}})
		c.RegisterNNS("balance", h)
	case "container":
		nm := w.need("netmap")
		bal := w.need("balance")
		h = deploy("container", []any{int64(0), nm, bal, util.Uint160{}, c.NNSHash()})
		c.RegisterNNS("container", h)
	case "neofs":
		var ks []any
		for _, m := range c.Members {
			ks = append(ks, m.Account().PublicKey().Bytes())
		}
		h = deploy("neofs", []any{false, util.Uint160{}, ks, []any{}})
	default:
		w.run.T.Fatalf("unknown contract %s", name)
	}
	w.dep[name] = h
	return h
}

// ---------------------------------------------------------------- helpers

func encInt(z *big.Int) []byte { return bigint.ToBytes(z) }

func decInt(b []byte) *big.Int { return bigint.FromBytes(b) }

func cat(bs ...[]byte) []byte {
	var out []byte
	for _, b := range bs {
		out = append(out, b...)
	}
	return out
}

func hexList(bs [][]byte) string {
	if len(bs) == 0 {
		return "-"
	}
	s := make([]string, len(bs))
	for i, b := range bs {
		s[i] = hx.Hex(b)
	}
	return strings.Join(s, ",")
}

func unHexList(s string) [][]byte {
	if s == "-" {
		return nil
	}
	var out [][]byte
	for _, x := range strings.Split(s, ",") {
		out = append(out, hx.UnHex(x))
	}
	return out
}

func nb(b []byte) []byte { // never nil: an empty byte string argument, not Null
	if b == nil {
		return []byte{}
	}
	return b
}

func anyList(bs [][]byte) []any {
	out := make([]any, len(bs))
	for i, b := range bs {
		out[i] = nb(b)
	}
	return out
}

func isNull(it stackitem.Item) bool {
	_, ok := it.(stackitem.Null)
	return ok
}

func itemBytes(it stackitem.Item) []byte {
	if isNull(it) {
		return nil
	}
	b, err := it.TryBytes()
	if err != nil {
		panic(err)
	}
	return b
}

func itemArr(it stackitem.Item) []stackitem.Item {
	if isNull(it) {
		return nil
	}
	a, ok := it.Value().([]stackitem.Item)
	if !ok {
		panic(fmt.Sprintf("not an array: %v", it))
	}
	return a
}

func bytesList(it stackitem.Item) [][]byte {
	var out [][]byte
	for _, x := range itemArr(it) {
		out = append(out, itemBytes(x))
	}
	return out
}

type est struct {
	from []byte
	size *big.Int
}

func itemEst(it stackitem.Item) est {
	f := itemArr(it)
	z, err := f[1].TryInteger()
	if err != nil {
		panic(err)
	}
	return est{itemBytes(f[0]), z}
}

func (e est) String() string { return fmt.Sprintf("%s:%s", hx.Hex(e.from), e.size) }

func estsStr(es []est) string {
	s := make([]string, len(es))
	for i, e := range es {
		s[i] = e.String()
	}
	return "[" + strings.Join(s, ",") + "]"
}

func listStr(bs [][]byte) string {
	s := make([]string, len(bs))
	for i, b := range bs {
		s[i] = hx.Hex(b)
	}
	return "[" + strings.Join(s, ",") + "]"
}

func sortBytes(bs [][]byte) {
	sort.Slice(bs, func(i, j int) bool { return bytes.Compare(bs[i], bs[j]) < 0 })
}

// parseAudit is a transliteration of newAuditHeader, used ONLY to find the bytes whose SHA-256 the
// model needs as an opaque digest (the model never hashes).
func parseAudit(in []byte) (epoch *big.Int, cid, key []byte, ok bool) {
	defer func() {
		if recover() != nil {
			ok = false
		}
	}()
	off := 2 + int(in[1]) + 1
	epoch = decInt(in[off : off+8])
	off += 8
	rd := func(b []byte) ([]byte, int) { ln := int(b[0]); return b[1 : 1+ln], 1 + ln }
	cid, co := rd(in[off+3:])
	key, _ = rd(in[off+3+co+1:])
	return epoch, cid, key, true
}

// mkAudit builds a DataAuditResult-like blob with the V2 layout the contract reads.
func mkAudit(verLen int, epoch uint64, cid, key, tail []byte) []byte {
	b := []byte{0x0a, byte(verLen)}
	for i := 0; i < verLen; i++ {
		b = append(b, byte(0x10+i))
	}
	b = append(b, 0x11) // epoch field prefix
	var e8 [8]byte
	binary.LittleEndian.PutUint64(e8[:], epoch)
	b = append(b, e8[:]...)
	b = append(b, 0x1a, byte(len(cid)+2), 0x0a, byte(len(cid)))
	b = append(b, cid...)
	b = append(b, 0x22, byte(len(key)))
	b = append(b, key...)
	return append(b, tail...)
}

// container blob for a tag: 100 bytes, version length 0, owner (25 bytes) at offset 6
func containerBlob(tag string) []byte {
	var b []byte
	for i := 0; len(b) < 100; i++ {
		h := sha256.Sum256([]byte(fmt.Sprintf("verif-container|%s|%d", tag, i)))
		b = append(b, h[:]...)
	}
	b = b[:100]
	b[1] = 0
	b[6] = 0x35
	return b
}

func containerID(tag string) []byte {
	h := sha256.Sum256(containerBlob(tag))
	return h[:]
}

func nodeInfo(key []byte) []byte {
	ni := make([]byte, 66)
	ni[0] = 7
	copy(ni[2:], key)
	return ni
}

// ---------------------------------------------------------------- raw storage, decoded

func (w *world) kvStr(h util.Uint160, keep func(k []byte) bool, val func(k, v []byte) string) string {
	var items []string
	for _, kv := range w.c.Scan(h) {
		if keep != nil && !keep(kv.K) {
			continue
		}
		items = append(items, hx.Hex(kv.K)+":"+val(kv.K, kv.V))
	}
	return "[" + strings.Join(items, ";") + "]"
}

func hexVal(_, v []byte) string { return hx.Hex(v) }

func hasPrefix(p string) func([]byte) bool {
	return func(k []byte) bool { return bytes.HasPrefix(k, []byte(p)) }
}

func (w *world) famState(fam string) string {
	switch fam {
	case "rep":
		return "rep=" + w.kvStr(w.need("reputation"), nil, hexVal)
	case "aud":
		return "aud=" + w.kvStr(w.need("audit"), nil, hexVal)
	case "fsid":
		return "fsid=" + w.kvStr(w.need("neofsid"), nil, hexVal)
	case "nmc":
		return "cfg=" + w.kvStr(w.need("netmap"), hasPrefix("config"), hexVal)
	case "fsc":
		return "cfg=" + w.kvStr(w.need("neofs"), hasPrefix("config"), hexVal)
	case "cnt":
		h := w.need("container")
		a := w.kvStr(h, hasPrefix("cnr"), func(_, v []byte) string {
			it, err := stackitem.Deserialize(v)
			if err != nil {
				return "?" + hx.Hex(v)
			}
			return itemEst(it).String()
		})
		// The `est‖cid‖h20 -> []epoch` records are internal bookkeeping of updateEstimations: no read method exposes
		// them, and repeated or dead epochs in the list change nothing that can be observed (deleting an absent key
		// is a no-op). They are therefore printed in a canonical form: the sorted set of the listed epochs for
		// which this node's estimation of this container is still stored; records with nothing left are omitted.
		// (A listed epoch that is missing although its estimation is stored — the thing that would break the
		// put-time cleanup — still shows.)
		stored := map[string]bool{} // cid ‖ h10 ‖ "/" ‖ epoch
		scan := w.c.Scan(h)
		for _, kv := range scan {
			if bytes.HasPrefix(kv.K, []byte("cnr")) && len(kv.K) >= 45 {
				n := len(kv.K)
				stored[string(kv.K[n-42:])+"/"+decInt(kv.K[3:n-42]).String()] = true
			}
		}
		var recs []string
		for _, kv := range scan {
			if !bytes.HasPrefix(kv.K, []byte("est")) {
				continue
			}
			it, err := stackitem.Deserialize(kv.V)
			if err != nil {
				recs = append(recs, hx.Hex(kv.K)+":?"+hx.Hex(kv.V))
				continue
			}
			var eps []*big.Int
			for _, x := range itemArr(it) {
				z, _ := x.TryInteger()
				dup := false
				for _, y := range eps {
					dup = dup || y.Cmp(z) == 0
				}
				if dup {
					continue
				}
				if len(kv.K) == 55 && !stored[string(kv.K[3:45])+"/"+z.String()] {
					continue
				}
				eps = append(eps, z)
			}
			if len(eps) == 0 {
				continue
			}
			sort.Slice(eps, func(i, j int) bool { return eps[i].Cmp(eps[j]) < 0 })
			var s []string
			for _, z := range eps {
				s = append(s, z.String())
			}
			recs = append(recs, hx.Hex(kv.K)+":"+strings.Join(s, ","))
		}
		b := "[" + strings.Join(recs, ";") + "]"
		var live []string
		for _, kv := range w.c.Scan(h) {
			if len(kv.K) == 33 && kv.K[0] == 'x' {
				live = append(live, hx.Hex(kv.K[1:]))
			}
		}
		return fmt.Sprintf("cnr=%s est=%s live=[%s]", a, b, strings.Join(live, ";"))
	}
	panic("bad family " + fam)
}

// ---------------------------------------------------------------- operations

var families = map[string]string{
	"rput": "rep", "rget": "rep", "rgetid": "rep", "rlist": "rep",
	"aput": "aud", "aget": "aud", "alist": "aud", "alistE": "aud", "alistC": "aud", "alistN": "aud",
	"cmk": "cnt", "crm": "cnt", "cput": "cnt", "ctick": "cnt", "tick": "cnt", "cget": "cnt", "clist": "cnt",
	"citer": "cnt", "citerall": "cnt",
	"iadd": "fsid", "irm": "fsid", "ikey": "fsid",
	"nset": "nmc", "nget": "nmc", "nlist": "nmc", "fset": "fsc", "fget": "fsc", "flist": "fsc",
}

var reads = map[string]bool{"rget": true, "rgetid": true, "rlist": true, "aget": true, "alist": true, "alistE": true,
	"alistC": true, "alistN": true, "cget": true, "clist": true, "citer": true, "citerall": true, "ikey": true,
	"nget": true, "nlist": true, "fget": true, "flist": true}

func (w *world) signersOf(sig string) []neotest.Signer {
	var out []neotest.Signer
	if sig == "-" {
		return nil
	}
	for _, s := range strings.Split(sig, ",") {
		switch s {
		case "alpha":
			out = append(out, w.c.Alpha)
		case "cmt":
			out = append(out, w.c.Cmt)
		default:
			u, ok := w.signers[s]
			if !ok {
				w.run.T.Fatalf("unknown signer %s", s)
			}
			out = append(out, u)
		}
	}
	return out
}

func sigHas(sig, item string) bool {
	for _, s := range strings.Split(sig, ",") {
		if s == item {
			return true
		}
	}
	return false
}

func (w *world) irList() [][]byte {
	h := w.c.E.NativeHash(w.run.T, nativenames.Designation)
	st, err := w.c.Call(h, "getDesignatedByRole", int64(noderoles.NeoFSAlphabet), int64(w.c.BC.BlockHeight()+1))
	if err != nil {
		w.run.T.Fatalf("getDesignatedByRole: %v", err)
	}
	return bytesList(st[0])
}

// snapshot1 returns the node keys of netmap.snapshot(1), the way isStorageNode reads them.
func (w *world) snapshot1() (keys [][]byte, ok bool) {
	st, err := w.c.Call(w.need("netmap"), "snapshot", int64(1))
	if err != nil {
		return nil, false
	}
	for _, n := range itemArr(st[0]) {
		blob := itemBytes(itemArr(n)[0])
		keys = append(keys, blob[2:35])
	}
	return keys, true
}

func (w *world) netmapEpoch() *big.Int {
	st, err := w.c.Call(w.need("netmap"), "epoch")
	if err != nil {
		w.run.T.Fatalf("netmap.epoch: %v", err)
	}
	z, _ := st[0].TryInteger()
	return z
}

type outcome struct {
	halt bool
	ret  string
	ev   []string
	// decoded results for the monitor
	list  [][]byte
	opt   []byte
	isNil bool
	kvs   [][2][]byte
	ests  []est
	kests []struct {
		k []byte
		e est
	}
	cid []byte
}

// execEnv executes an environment line (not modelled: other contracts' state the model receives as
// parameters of later operations).
func (w *world) execEnv(line string) string {
	ws := strings.Fields(line)
	if len(ws) < 3 {
		w.run.T.Fatalf("bad env line %q", line)
	}
	sig, method, args := ws[1], ws[2], ws[3:]
	var res chainx.Result
	switch method {
	case "nadd": // netmap.addPeer(nodeInfo(key))
		res = w.c.Invoke(w.signersOf(sig), w.need("netmap"), "addPeer", nodeInfo(hx.UnHex(args[0])))
	case "nrm": // netmap.deleteNode(key)
		res = w.c.Invoke(w.signersOf(sig), w.need("netmap"), "deleteNode", hx.UnHex(args[0]))
	case "designate":
		h := w.c.E.NativeHash(w.run.T, nativenames.Designation)
		res = w.c.Invoke(w.signersOf(sig), h, "designateAsRole", int64(noderoles.NeoFSAlphabet), anyList(unHexList(args[0])))
	default:
		w.run.T.Fatalf("bad env method %q", method)
	}
	w.run.Count("env." + method)
	w.mon.env(sig, method, args, res.Halt)
	return "ENV"
}

// execOp executes one "op ..." line; environment parameters of the line (digests, Inner Ring list,
// previous netmap snapshot, netmap epoch) are recomputed from the chain, so the returned line is what
// the model has to be given.
func (w *world) execOp(line string) (string, string, func()) {
	ws := strings.Fields(line)
	if len(ws) >= 3 && ws[0] == "env" {
		return line, w.execEnv(line), func() {}
	}
	if len(ws) < 3 || ws[0] != "op" {
		w.run.T.Fatalf("bad op line %q", line)
	}
	sig, method, args := ws[1], ws[2], ws[3:]
	fam, ok := families[method]
	if !ok {
		w.run.T.Fatalf("bad method %q", method)
	}
	signers := w.signersOf(sig)
	var o outcome
	invoke := func(h util.Uint160, name string, cargs ...any) {
		res := w.c.Invoke(signers, h, name, cargs...)
		if !res.Halt && os.Getenv("VERIF_DEBUG") != "" {
			fmt.Println("invoke", name, "fault:", res.Fault)
		}
		o.halt = res.Halt
		o.ret = "null"
		if res.Halt && len(res.Stack) == 1 && !isNull(res.Stack[0]) {
			o.ret = "?"
		}
		for _, e := range res.Events {
			if e.ScriptHash != h {
				continue
			}
			it := e.Item.Value().([]stackitem.Item)
			if e.Name == "SetConfig" {
				o.ev = append(o.ev, fmt.Sprintf("SetConfig(%s,%s,%s)", hx.Hex(itemBytes(it[0])), hx.Hex(itemBytes(it[1])), hx.Hex(itemBytes(it[2]))))
			} // other notifications (PutSuccess, DeleteSuccess, NewEpoch, ...) belong to other properties
		}
	}
	call := func(h util.Uint160, name string, dec func(stackitem.Item), cargs ...any) {
		st, err := w.c.Call(h, name, cargs...)
		if err != nil {
			o.halt = false
			if os.Getenv("VERIF_DEBUG") != "" {
				fmt.Println("call", name, "error:", err)
			}
			return
		}
		o.halt = true
		dec(st[0])
	}
	decList := func(strip int) func(stackitem.Item) {
		return func(it stackitem.Item) {
			o.list = bytesList(it)
			o.ret = listStr(o.list)
		}
	}
	decOpt := func(it stackitem.Item) {
		if isNull(it) {
			o.isNil, o.ret = true, "null"
			return
		}
		o.opt = itemBytes(it)
		o.ret = hx.Hex(o.opt)
	}
	switch method {
	// ---- reputation
	case "rput":
		invoke(w.need("reputation"), "put", hx.Big(args[0]), nb(hx.UnHex(args[1])), nb(hx.UnHex(args[2])))
	case "rget":
		call(w.need("reputation"), "get", decList(0), hx.Big(args[0]), nb(hx.UnHex(args[1])))
	case "rgetid":
		call(w.need("reputation"), "getByID", decList(0), nb(hx.UnHex(args[0])))
	case "rlist":
		call(w.need("reputation"), "listByEpoch", decList(0), hx.Big(args[0]))
	// ---- audit
	case "aput":
		raw := hx.UnHex(args[0])
		h := "-"
		if _, _, key, ok := parseAudit(raw); ok {
			d := sha256.Sum256(key)
			h = hx.Hex(d[:])
		}
		w.need("audit")
		args = []string{args[0], h, hexList(w.irList())}
		invoke(w.need("audit"), "put", nb(raw))
	case "aget":
		call(w.need("audit"), "get", decOpt, nb(hx.UnHex(args[0])))
	case "alist":
		call(w.need("audit"), "list", decList(0))
	case "alistE":
		call(w.need("audit"), "listByEpoch", decList(0), hx.Big(args[0]))
	case "alistC":
		call(w.need("audit"), "listByCID", decList(0), hx.Big(args[0]), nb(hx.UnHex(args[1])))
	case "alistN":
		key := hx.UnHex(args[2])
		d := sha256.Sum256(key)
		args = []string{args[0], args[1], args[2], hx.Hex(d[:])}
		call(w.need("audit"), "listByNode", decList(0), hx.Big(args[0]), nb(hx.UnHex(args[1])), nb(key))
	// ---- container size estimations
	case "cmk":
		tag := args[0]
		cid := containerID(tag)
		args = []string{tag, hx.Hex(cid)}
		invoke(w.need("container"), "put", containerBlob(tag), bytes.Repeat([]byte{1}, 64), PoolKey(0), []byte("token"))
	case "crm":
		invoke(w.need("container"), "delete", nb(hx.UnHex(args[0])), bytes.Repeat([]byte{1}, 64), []byte("token"))
	case "cput":
		pub := hx.UnHex(args[3])
		h := hash.RipeMD160(pub)
		snap := "FAULT"
		w.need("container")
		if ks, ok := w.snapshot1(); ok {
			snap = hexList(ks)
		}
		args = []string{args[0], args[1], args[2], args[3], hx.Hex(h.BytesBE()), snap}
		invoke(w.need("container"), "putContainerSize", hx.Big(args[0]), nb(hx.UnHex(args[1])), hx.Big(args[2]), nb(pub))
	case "ctick":
		invoke(w.need("container"), "newEpoch", hx.Big(args[0]))
	case "tick":
		w.need("container")
		args = []string{args[0], w.netmapEpoch().String()}
		invoke(w.need("netmap"), "newEpoch", hx.Big(args[0]))
	case "cget":
		call(w.need("container"), "getContainerSize", func(it stackitem.Item) {
			f := itemArr(it)
			o.cid = itemBytes(f[0])
			for _, x := range itemArr(f[1]) {
				o.ests = append(o.ests, itemEst(x))
			}
			o.ret = "(" + hx.Hex(o.cid) + "," + estsStr(o.ests) + ")"
		}, nb(hx.UnHex(args[0])))
	case "clist":
		call(w.need("container"), "listContainerSizes", func(it stackitem.Item) {
			o.list = bytesList(it)
			sortBytes(o.list) // the contract builds the result from a VM map
			o.ret = listStr(o.list)
		}, hx.Big(args[0]))
	case "citer":
		if items, err := w.c.StoresCallIter(w.need("container"), "iterateContainerSizes", 1000, hx.Big(args[0]), nb(hx.UnHex(args[1]))); err == nil {
			o.halt = true
			for _, x := range items {
				o.ests = append(o.ests, itemEst(x))
			}
			o.ret = estsStr(o.ests)
		}
	case "citerall":
		if items, err := w.c.StoresCallIter(w.need("container"), "iterateAllContainerSizes", 1000, hx.Big(args[0])); err == nil {
			o.halt = true
			var s []string
			for _, x := range items {
				f := itemArr(x)
				k, e := itemBytes(f[0]), itemEst(f[1])
				o.kests = append(o.kests, struct {
					k []byte
					e est
				}{k, e})
				s = append(s, hx.Hex(k)+"="+e.String())
			}
			o.ret = "[" + strings.Join(s, ",") + "]"
		}
	// ---- neofsid
	case "iadd":
		invoke(w.need("neofsid"), "addKey", nb(hx.UnHex(args[0])), anyList(unHexList(args[1])))
	case "irm":
		invoke(w.need("neofsid"), "removeKey", nb(hx.UnHex(args[0])), anyList(unHexList(args[1])))
	case "ikey":
		call(w.need("neofsid"), "key", decList(0), nb(hx.UnHex(args[0])))
	// ---- configuration
	case "nset":
		invoke(w.need("netmap"), "setConfig", nb(hx.UnHex(args[0])), nb(hx.UnHex(args[1])), nb(hx.UnHex(args[2])))
	case "nget":
		call(w.need("netmap"), "config", decOpt, nb(hx.UnHex(args[0])))
	case "fset":
		invoke(w.need("neofs"), "setConfig", nb(hx.UnHex(args[0])), nb(hx.UnHex(args[1])), nb(hx.UnHex(args[2])))
	case "fget":
		call(w.need("neofs"), "config", decOpt, nb(hx.UnHex(args[0])))
	case "nlist", "flist":
		name := "netmap"
		if method == "flist" {
			name = "neofs"
		}
		call(w.need(name), "listConfig", func(it stackitem.Item) {
			var s []string
			for _, x := range itemArr(it) {
				f := itemArr(x)
				k, v := itemBytes(f[0]), itemBytes(f[1])
				o.kvs = append(o.kvs, [2][]byte{k, v})
				s = append(s, hx.Hex(k)+":"+hx.Hex(v))
			}
			o.ret = "[" + strings.Join(s, ",") + "]"
		})
	}
	outLine := "op " + sig + " " + method
	if len(args) > 0 {
		outLine += " " + strings.Join(args, " ")
	}
	w.run.Count("op." + method)
	var sb strings.Builder
	if !o.halt {
		sb.WriteString("FAULT")
		w.run.Count("out.fault." + method)
	} else {
		fmt.Fprintf(&sb, "HALT ret=%s ev=[%s]", o.ret, strings.Join(o.ev, ";"))
		w.run.Count("out.halt." + method)
	}
	st := "="
	if !reads[method] {
		st = w.famState(fam)
	}
	sb.WriteString(" | " + st)
	post := func() {}
	if w.wf {
		// the monitor runs after the line has been recorded, so that a violation's op list includes it
		post = func() { w.mon.observe(outLine, sig, method, args, &o, fam, st) }
	}
	return outLine, sb.String(), post
}

func TestRun(t *testing.T) {
	run := hx.Open(t)
	defer run.Close()
	if run.Mode == "replay" {
		var w *world
		for _, l := range run.ReplayLines() {
			if strings.HasPrefix(l, "case ") {
				f := strings.Fields(l)
				n := 1
				for _, a := range f[2:] {
					if strings.HasPrefix(a, "n=") {
						fmt.Sscanf(a, "n=%d", &n)
					}
				}
				w = newWorld(t, run, n)
				w.wf = len(f) > 2 && f[2] == "wf"
				run.Case(f[1], f[2:]...)
				continue
			}
			if w == nil {
				t.Fatal("op before case")
			}
			ol, obs, post := w.execOp(l)
			run.Op(ol, obs)
			post()
		}
		return
	}
	generate(t, run)
}
