// Correspondence harness for the Container contract (C04, C05): executes operation lines on the
// Container, Balance, Netmap, NNS and NeoFSID contracts compiled from the repository under test, prints
// canonical observations (result, notifications, decoded raw storage of all four stateful contracts) for
// the diff with the Lean model, and runs the property monitors on the implementation's own observations.
package container

import (
	"bytes"
	"crypto/sha256"
	"fmt"
	"math/big"
	"math/rand/v2"
	"regexp"
	"sort"
	"strings"
	"testing"

	"github.com/nspcc-dev/neo-go/pkg/encoding/address"
	"github.com/nspcc-dev/neo-go/pkg/neotest"
	"github.com/nspcc-dev/neo-go/pkg/util"
	"github.com/nspcc-dev/neo-go/pkg/vm/stackitem"

	"verifharness/chainx"
	"verifharness/hx"
)

const (
	feeKey      = "ContainerFee"
	aliasFeeKey = "ContainerAliasFee"
)

// ---------------------------------------------------------------- decoded storage view

type cnr struct{ value, sig, pub, token []byte }

func (c cnr) String() string {
	return fmt.Sprintf("%s:%s:%s:%s", hx.Hex(c.value), hx.Hex(c.sig), hx.Hex(c.pub), hx.Hex(c.token))
}

type oEntry struct{ owner, cid, val []byte }

type domain struct {
	owner []byte
	txt   []string // hex of the Base58-decoded record data (or "raw"+hex when it is not Base58)
}

type view struct {
	x     map[string]cnr // hex(cid)
	o     []oEntry
	d, m  []string
	eacl  map[string]cnr
	alias map[string][]byte
	unk   []string
	doms  map[string]*domain // hex(name)
	cfg   map[string][]byte  // hex(key)
	bal   map[string]*big.Int
	sup   *big.Int
	// digests of the raw storages (for "nothing changed")
	dig [5]string
	// every raw key of the Container contract and every TXT datum of NNS (trace search)
	cntKeys [][]byte
	nnsTXT  map[string][]string // record data (text) -> names
}

type world struct {
	c       *chainx.Chain
	run     *hx.Run
	n       int
	cnt     util.Uint160
	bal     util.Uint160
	nm      util.Uint160
	nns     util.Uint160
	id      util.Uint160
	signers map[string]neotest.Signer // hex(script hash BE) -> signer
	users   []neotest.SingleSigner
	alphaAc []string // hex of the Alphabet nodes' standard accounts, committee order
	v       int      // number of consensus nodes (validators); the Alphabet is the whole committee of n >= v members
	mon     bool
	prev    *view
	// monitor state (independent reading of the property)
	live     map[string]*liveInfo
	tomb     map[string]bool
	fees     map[string]*big.Int
	reported map[string]bool
}

type liveInfo struct {
	c     cnr
	owner []byte
	eacl  *cnr
	alias []byte // nil = none
	meta  bool
}

func itemBytes(it stackitem.Item) []byte {
	if _, ok := it.(stackitem.Null); ok {
		return nil
	}
	b, err := it.TryBytes()
	if err != nil {
		panic(err)
	}
	return b
}

func bytesToInt(b []byte) *big.Int {
	z, err := stackitem.NewByteArray(b).TryInteger()
	if err != nil {
		panic(err)
	}
	return z
}

func decodeCnr(v []byte) (cnr, bool) {
	it, err := stackitem.Deserialize(v)
	if err != nil {
		return cnr{}, false
	}
	f, ok := it.Value().([]stackitem.Item)
	if !ok || len(f) != 4 {
		return cnr{}, false
	}
	return cnr{itemBytes(f[0]), itemBytes(f[1]), itemBytes(f[2]), itemBytes(f[3])}, true
}

var cntConstKeys = map[string]bool{"identityScriptHash": true, "balanceScriptHash": true, "netmapScriptHash": true,
	"nnsScriptHash": true, "nnsRoot": true}

func (w *world) scan() *view {
	v := &view{x: map[string]cnr{}, eacl: map[string]cnr{}, alias: map[string][]byte{}, doms: map[string]*domain{},
		cfg: map[string][]byte{}, bal: map[string]*big.Int{}, sup: new(big.Int), nnsTXT: map[string][]string{}}
	for _, kv := range w.c.Scan(w.cnt) {
		k := kv.K
		v.cntKeys = append(v.cntKeys, k)
		switch {
		case cntConstKeys[string(k)]:
		case len(k) == 33 && k[0] == 'x':
			if c, ok := decodeCnr(kv.V); ok {
				v.x[hx.Hex(k[1:])] = c
			} else {
				v.unk = append(v.unk, hx.Hex(k)+"="+hx.Hex(kv.V))
			}
		case len(k) == 58 && k[0] == 'o':
			v.o = append(v.o, oEntry{k[1:26], k[26:], kv.V})
		case len(k) == 33 && k[0] == 'd' && len(kv.V) == 0:
			v.d = append(v.d, hx.Hex(k[1:]))
		case len(k) == 33 && k[0] == 'm' && len(kv.V) == 0:
			v.m = append(v.m, hx.Hex(k[1:]))
		case len(k) == 36 && string(k[:4]) == "eACL":
			if c, ok := decodeCnr(kv.V); ok {
				v.eacl[hx.Hex(k[4:])] = c
			} else {
				v.unk = append(v.unk, hx.Hex(k)+"="+hx.Hex(kv.V))
			}
		case len(k) == 43 && string(k[:11]) == "nnsHasAlias":
			v.alias[hx.Hex(k[11:])] = kv.V
		default:
			v.unk = append(v.unk, hx.Hex(k)+"="+hx.Hex(kv.V))
		}
	}
	for _, kv := range w.c.Scan(w.nns) {
		switch kv.K[0] {
		case 0x21: // NameState{Owner, Name, Admin, Expiration}
			it, err := stackitem.Deserialize(kv.V)
			if err != nil {
				continue
			}
			f := it.Value().([]stackitem.Item)
			name := itemBytes(f[1])
			if !bytes.Contains(name, []byte(".")) || bytes.HasSuffix(name, []byte(".neofs")) {
				continue
			}
			dm := v.dom(name)
			dm.owner = itemBytes(f[0])
		case 0x22: // RecordState{Name, Type, Data, ID}
			it, err := stackitem.Deserialize(kv.V)
			if err != nil {
				continue
			}
			f := it.Value().([]stackitem.Item)
			name, data := itemBytes(f[0]), itemBytes(f[2])
			typ, _ := f[1].TryInteger()
			if typ.Int64() != 16 {
				continue
			}
			v.nnsTXT[string(data)] = append(v.nnsTXT[string(data)], string(name))
			if bytes.HasSuffix(name, []byte(".neofs")) {
				continue
			}
			dm := v.dom(name)
			if raw, err := b58Decode(string(data)); err == nil {
				dm.txt = append(dm.txt, hx.Hex(raw))
			} else {
				dm.txt = append(dm.txt, "raw"+hx.Hex(data))
			}
		}
	}
	for _, kv := range w.c.Scan(w.nm) {
		if bytes.HasPrefix(kv.K, []byte("config")) {
			v.cfg[hx.Hex(kv.K[6:])] = kv.V
		}
	}
	for _, kv := range w.c.Scan(w.bal) {
		if kv.K[0] == 'a' {
			it, err := stackitem.Deserialize(kv.V)
			if err != nil {
				w.run.T.Fatalf("bad account record %x", kv.V)
			}
			b, _ := it.Value().([]stackitem.Item)[0].TryInteger()
			v.bal[hx.Hex(kv.K[1:])] = b
		} else if string(kv.K) == "MainnetGAS" {
			v.sup = bytesToInt(kv.V)
		}
	}
	for i, h := range []util.Uint160{w.cnt, w.bal, w.nm, w.nns, w.id} {
		v.dig[i] = w.c.ScanDigest(h)
	}
	return v
}

func (v *view) dom(name []byte) *domain {
	k := hx.Hex(name)
	if v.doms[k] == nil {
		v.doms[k] = &domain{owner: []byte("?")}
	}
	return v.doms[k]
}

func sortHex(ks []string) []string {
	out := append([]string{}, ks...)
	sort.Slice(out, func(i, j int) bool { return string(hx.UnHex(out[i])) < string(hx.UnHex(out[j])) })
	return out
}

func (v *view) String() string {
	var xs, os, es, as, ds, cs, bs []string
	for _, k := range sortHex(hx.SortedKeys(v.x)) {
		xs = append(xs, k+":"+v.x[k].String())
	}
	oo := append([]oEntry{}, v.o...)
	sort.Slice(oo, func(i, j int) bool {
		return string(oo[i].owner)+string(oo[i].cid) < string(oo[j].owner)+string(oo[j].cid)
	})
	for _, e := range oo {
		os = append(os, fmt.Sprintf("%s:%s:%s", hx.Hex(e.owner), hx.Hex(e.cid), hx.Hex(e.val)))
	}
	for _, k := range sortHex(hx.SortedKeys(v.eacl)) {
		es = append(es, k+":"+v.eacl[k].String())
	}
	for _, k := range sortHex(hx.SortedKeys(v.alias)) {
		as = append(as, k+":"+hx.Hex(v.alias[k]))
	}
	for _, k := range sortHex(hx.SortedKeys(v.doms)) {
		ds = append(ds, fmt.Sprintf("%s:%s:%s", k, hx.Hex(v.doms[k].owner), joinOrDash(sortHexLoose(v.doms[k].txt))))
	}
	for _, k := range sortHex(hx.SortedKeys(v.cfg)) {
		cs = append(cs, k+":"+hx.Hex(v.cfg[k]))
	}
	for _, k := range sortHex(hx.SortedKeys(v.bal)) {
		bs = append(bs, k+":"+v.bal[k].String())
	}
	return fmt.Sprintf("x=[%s] o=[%s] d=[%s] m=[%s] eacl=[%s] alias=[%s] unk=[%s] doms=[%s] cfg=[%s] bal=[%s] supply=%s",
		strings.Join(xs, ";"), strings.Join(os, ";"), strings.Join(sortHex(v.d), ","), strings.Join(sortHex(v.m), ","),
		strings.Join(es, ";"), strings.Join(as, ";"), strings.Join(v.unk, ";"), strings.Join(ds, ";"),
		strings.Join(cs, ";"), strings.Join(bs, ";"), v.sup)
}

func sortHexLoose(ks []string) []string {
	out := append([]string{}, ks...)
	sort.Strings(out)
	return out
}

func joinOrDash(l []string) string { return strings.Join(l, ",") }

// ---------------------------------------------------------------- Base58 (Bitcoin alphabet, as std.Base58Encode)

const b58Alphabet = "123456789ABCDEFGHJKLMNPQRSTUVWXYZabcdefghijkmnopqrstuvwxyz"

func b58Encode(b []byte) string {
	x := new(big.Int).SetBytes(b)
	radix, mod := big.NewInt(58), new(big.Int)
	var out []byte
	for x.Sign() > 0 {
		x.DivMod(x, radix, mod)
		out = append(out, b58Alphabet[mod.Int64()])
	}
	for _, c := range b {
		if c != 0 {
			break
		}
		out = append(out, b58Alphabet[0])
	}
	for i, j := 0, len(out)-1; i < j; i, j = i+1, j-1 {
		out[i], out[j] = out[j], out[i]
	}
	return string(out)
}

func b58Decode(s string) ([]byte, error) {
	x := new(big.Int)
	radix := big.NewInt(58)
	for _, c := range []byte(s) {
		i := strings.IndexByte(b58Alphabet, c)
		if i < 0 {
			return nil, fmt.Errorf("not Base58")
		}
		x.Mul(x, radix)
		x.Add(x, big.NewInt(int64(i)))
	}
	out := x.Bytes()
	for _, c := range []byte(s) {
		if c != b58Alphabet[0] {
			break
		}
		out = append([]byte{0}, out...)
	}
	return out, nil
}

// ---------------------------------------------------------------- world

func ownerID(h util.Uint160) []byte {
	b, err := b58Decode(address.Uint160ToString(h))
	if err != nil {
		panic(err)
	}
	return b
}

// newWorld: chain with an n-member committee (= Alphabet) of which v <= n members are validators.
func newWorld(t testing.TB, run *hx.Run, n, v int) (*world, string) {
	if v <= 0 || v > n {
		v = n
	}
	c := chainx.NewCV(t, n, v)
	c.DeployNNS()
	var pubs []any
	for _, m := range c.Members {
		pubs = append(pubs, m.Account().PublicKey().Bytes())
	}
	nm := c.Compile("netmap")
	c.Deploy(nm, []any{false, util.Uint160{}, util.Uint160{}, pubs[:1], []any{}})
	c.RegisterNNS("netmap", nm.Hash)
	b := c.Compile("balance")
	c.Deploy(b, []any{false, util.Uint160{}, util.Uint160{}})
	c.RegisterNNS("balance", b.Hash)
	id := c.Compile("neofsid")
	c.Deploy(id, []any{false, util.Uint160{}, util.Uint160{}, util.Uint160{}, util.Uint160{}})
	c.RegisterNNS("neofsid", id.Hash)
	ct := c.Compile("container")
	c.Deploy(ct, []any{int64(0), nm.Hash, b.Hash, id.Hash, c.NNSHash(), "container"})
	c.RegisterNNS("container", ct.Hash)
	r := c.Invoke([]neotest.Signer{c.Cmt}, c.NNSHash(), "registerTLD", "cdn", "ops@nspcc.ru", int64(3600), int64(600), int64(315360000), int64(3600))
	if !r.Halt {
		t.Fatalf("registerTLD: %s", r.Fault)
	}
	w := &world{c: c, run: run, n: n, v: v, cnt: ct.Hash, bal: b.Hash, nm: nm.Hash, nns: c.NNSHash(), id: id.Hash,
		signers: map[string]neotest.Signer{}, mon: true,
		live: map[string]*liveInfo{}, tomb: map[string]bool{}, fees: map[string]*big.Int{}, reported: map[string]bool{}}
	w.signers[hx.Hex(c.Alpha.ScriptHash().BytesBE())] = c.Alpha
	w.signers[hx.Hex(c.Cmt.ScriptHash().BytesBE())] = c.Cmt
	for i := 0; i < 2; i++ {
		u := c.User(fmt.Sprintf("U%d", i))
		w.users = append(w.users, u)
		w.signers[hx.Hex(u.ScriptHash().BytesBE())] = u
	}
	for _, m := range c.Members {
		w.alphaAc = append(w.alphaAc, hx.Hex(m.ScriptHash().BytesBE()))
	}
	// the consensus nodes' own multisignature account: on a chain with fewer validators than Alphabet nodes it is
	// one more account that is not the Alphabet
	w.signers[hx.Hex(c.ValidatorsSigner().ScriptHash().BytesBE())] = c.ValidatorsSigner()
	w.prev = w.scan()
	init := fmt.Sprintf("op init %s %s %s %s %s %s", hx.Hex(ct.Hash.BytesBE()), hx.Hex(c.Alpha.ScriptHash().BytesBE()),
		hx.Hex(c.Cmt.ScriptHash().BytesBE()), strings.Join(w.alphaAc, ","), hx.Hex([]byte("container")),
		hx.Hex([]byte("container"))+","+hx.Hex([]byte("cdn")))
	if v < n {
		// the model charges the Alphabet = the whole committee (the accounts listed above); the validator count is
		// carried for the replay only (chain shape)
		init += fmt.Sprintf(" vals=%d", v)
	}
	return w, init
}

func (w *world) sigs(wit string) []neotest.Signer {
	var out []neotest.Signer
	if wit == "-" {
		return nil
	}
	for _, h := range strings.Split(wit, ",") {
		s, ok := w.signers[h]
		if !ok {
			w.run.T.Fatalf("unknown signer %s", h)
		}
		out = append(out, s)
	}
	return chainx.CntDedupSigners(out)
}

func bz(s string) []byte {
	b := hx.UnHex(s)
	if b == nil {
		return []byte{}
	}
	return b
}

var faultTable = map[string]string{"container does not exist": "FAULT:notfound", "container was previously deleted": "FAULT:deleted"}

func faultKind(msg string) string {
	for sub, k := range faultTable {
		if strings.Contains(msg, sub) {
			return k
		}
	}
	return "FAULT"
}

var reasonRe = regexp.MustCompile(`[^a-zA-Z]+`)

// faultReason: a short tag of the innermost fault text, for the statistics only (never compared).
func faultReason(msg string) string {
	if i := strings.LastIndex(msg, "unhandled exception: "); i >= 0 {
		msg = msg[i+len("unhandled exception: "):]
	} else if i := strings.LastIndex(msg, "): "); i >= 0 {
		msg = msg[i+3:]
	}
	msg = strings.Trim(reasonRe.ReplaceAllString(msg, "_"), "_")
	if len(msg) > 44 {
		msg = msg[:44]
	}
	return msg
}

type event struct {
	name string
	args [][]byte
	str  string
}

// execOp executes one "op ..." line and returns the observation line.
func (w *world) execOp(line string) string {
	ws := strings.Fields(line)
	if len(ws) < 2 || ws[0] != "op" {
		w.run.T.Fatalf("bad op line %q", line)
	}
	method, a := ws[1], ws[2:]
	w.run.Count("op." + method)
	switch method {
	case "get", "owner", "alias", "eacl", "count", "list", "cof":
		return w.execRead(line, method, a)
	}
	var res chainx.Result
	switch method {
	case "setcfg":
		res = w.c.Invoke(w.sigs(a[0]), w.nm, "setConfig", []byte{}, bz(a[1]), bz(a[2]))
	case "mint":
		res = w.c.Invoke(w.sigs(a[0]), w.bal, "mint", bz(a[1]), hx.Big(a[2]), bz(a[3]))
	case "burn":
		res = w.c.Invoke(w.sigs(a[0]), w.bal, "burn", bz(a[1]), hx.Big(a[2]), bz(a[3]))
	case "prereg":
		owner := bz(a[1])
		sg := []neotest.Signer{w.c.Cmt}
		if s, ok := w.signers[a[1]]; ok {
			sg = append(sg, s)
		}
		res = w.c.CntInvokeDedup(sg, w.nns, "register", string(bz(a[0])), owner, "ops@nspcc.ru", int64(3600), int64(600), int64(315360000), int64(3600))
		if res.Halt && len(res.Stack) == 1 {
			if ok, err := res.Stack[0].TryBool(); err == nil && !ok {
				// register returned false (name exists): the model treats a refused registration as a failure
				res.Halt = false
				res.Fault = "register returned false"
			}
		}
	case "put":
		res = w.c.Invoke(w.sigs(a[0]), w.cnt, "put", bz(a[2]), bz(a[3]), bz(a[4]), bz(a[5]))
	case "putn":
		res = w.c.Invoke(w.sigs(a[0]), w.cnt, "putNamed", bz(a[2]), bz(a[3]), bz(a[4]), bz(a[5]), string(bz(a[6])), string(bz(a[7])))
	case "putm":
		res = w.c.Invoke(w.sigs(a[0]), w.cnt, "put", bz(a[2]), bz(a[3]), bz(a[4]), bz(a[5]), a[6] == "1")
	case "del":
		res = w.c.Invoke(w.sigs(a[0]), w.cnt, "delete", bz(a[1]), bz(a[2]), bz(a[3]))
	case "seteacl":
		res = w.c.Invoke(w.sigs(a[0]), w.cnt, "setEACL", bz(a[1]), bz(a[2]), bz(a[3]), bz(a[4]))
	default:
		w.run.T.Fatalf("bad method %q", method)
	}
	var sb strings.Builder
	var evs []event
	if !res.Halt {
		k := faultKind(res.Fault)
		sb.WriteString(k)
		w.run.Count("out." + method + "." + k)
		w.run.Count("why." + method + "." + faultReason(res.Fault))
	} else {
		w.run.Count("out." + method + ".HALT")
		var es []string
		for _, e := range res.Events {
			if e.ScriptHash != w.cnt && e.ScriptHash != w.bal {
				continue
			}
			it := e.Item.Value().([]stackitem.Item)
			ev := event{name: e.Name}
			switch {
			case e.ScriptHash == w.bal && e.Name == "Transfer":
				ev.str = fmt.Sprintf("Transfer(%s,%s,%s)", hx.Hex(itemBytes(it[0])), hx.Hex(itemBytes(it[1])), mustInt(it[2]))
			case e.ScriptHash == w.bal && e.Name == "TransferX":
				ev.str = fmt.Sprintf("TransferX(%s,%s,%s,%s)", hx.Hex(itemBytes(it[0])), hx.Hex(itemBytes(it[1])), mustInt(it[2]), hx.Hex(itemBytes(it[3])))
			case e.ScriptHash == w.cnt:
				var as []string
				for _, x := range it {
					b := itemBytes(x)
					ev.args = append(ev.args, b)
					as = append(as, hx.Hex(b))
				}
				ev.str = fmt.Sprintf("%s(%s)", e.Name, strings.Join(as, ","))
				evs = append(evs, ev)
			default:
				ev.str = "?" + e.Name
			}
			es = append(es, ev.str)
		}
		fmt.Fprintf(&sb, "HALT ev=[%s]", strings.Join(es, ";"))
	}
	cur := w.scan()
	sb.WriteString(" | ")
	sb.WriteString(cur.String())
	if w.mon {
		w.monitor(line, method, a, res, evs, cur)
	}
	w.prev = cur
	return sb.String()
}

func mustInt(it stackitem.Item) *big.Int {
	z, err := it.TryInteger()
	if err != nil {
		panic(err)
	}
	return z
}

// execRead runs a getter as a test invocation; the observation is the result only.
func (w *world) execRead(line, method string, a []string) string {
	name := map[string]string{"get": "get", "owner": "owner", "alias": "alias", "eacl": "eACL", "count": "count",
		"list": "list", "cof": "containersOf"}[method]
	var args []any
	if method != "count" {
		args = append(args, bz(a[0]))
	}
	var st []stackitem.Item
	var err error
	if method == "cof" {
		st, err = w.c.CntCallIter(w.cnt, name, args...)
	} else {
		st, err = w.c.Call(w.cnt, name, args...)
	}
	var obs string
	var ret any
	if err != nil {
		obs = faultKind(err.Error())
		w.run.Count("out." + method + "." + obs)
	} else {
		w.run.Count("out." + method + ".HALT")
		var it stackitem.Item
		if method != "cof" {
			it = st[0]
		}
		switch method {
		case "get", "eacl":
			f := it.Value().([]stackitem.Item)
			c := cnr{itemBytes(f[0]), itemBytes(f[1]), itemBytes(f[2]), itemBytes(f[3])}
			ret = c
			obs = "HALT ret=(" + c.String() + ")"
		case "owner":
			ret = itemBytes(it)
			obs = "HALT ret=" + hx.Hex(itemBytes(it))
		case "alias":
			if _, isNull := it.(stackitem.Null); isNull {
				ret = []byte(nil)
				obs = "HALT ret=null"
			} else {
				ret = itemBytes(it)
				obs = "HALT ret=" + hx.Hex(itemBytes(it))
			}
		case "count":
			ret = mustInt(it)
			obs = "HALT ret=" + mustInt(it).String()
		case "list":
			var ids []string
			if _, isNull := it.(stackitem.Null); !isNull {
				for _, x := range it.Value().([]stackitem.Item) {
					ids = append(ids, hx.Hex(itemBytes(x)))
				}
			}
			ids = sortHex(ids)
			ret = ids
			obs = "HALT ret=[" + strings.Join(ids, ",") + "]"
		case "cof":
			var ids []string
			for _, x := range st {
				ids = append(ids, hx.Hex(itemBytes(x)))
			}
			ids = sortHex(ids)
			ret = ids
			obs = "HALT ret=[" + strings.Join(ids, ",") + "]"
		}
	}
	if w.mon {
		w.monitorRead(line, method, a, obs, ret)
	}
	return obs
}

// ---------------------------------------------------------------- monitors (C04, C05)

// specOwner: "owner(id) is the owner encoded in it" — the 25 bytes after the version field
// (byte 1 = length of the version field, 2 bytes header, 4 bytes owner field header).
func specOwner(blob []byte) []byte {
	if len(blob) < 2 {
		return nil
	}
	off := 2 + int(blob[1]) + 4
	if len(blob) < off+25 {
		return nil
	}
	return blob[off : off+25]
}

func specEACLCid(t []byte) []byte {
	if len(t) < 2 {
		return nil
	}
	off := 2 + int(t[1]) + 4
	if len(t) < off+32 {
		return nil
	}
	return t[off : off+32]
}

func eqCnr(a, b cnr) bool {
	return bytes.Equal(a.value, b.value) && bytes.Equal(a.sig, b.sig) && bytes.Equal(a.pub, b.pub) && bytes.Equal(a.token, b.token)
}

func (w *world) monitor(line, method string, a []string, res chainx.Result, evs []event, cur *view) {
	short := line
	if len(short) > 300 {
		short = short[:300] + "…"
	}
	// a state-level finding (something left behind) stays visible after every later operation: report it once
	// per case, at the operation after which it first shows
	v4 := func(what, detail string) {
		if w.reported[what+"|"+detail] {
			return
		}
		w.reported[what+"|"+detail] = true
		w.run.Violation("C04", "container."+method, what, detail+" after "+short)
	}
	v5 := func(what, detail string) { w.run.Violation("C05", "container."+method, what, detail+" after "+short) }
	halted := res.Halt
	isPut := method == "put" || method == "putn" || method == "putm"
	// --- a failed invocation changes nothing anywhere (C05: "neither balances nor the registry change")
	if !halted && cur.dig != w.prev.dig {
		v5("fault-not-inert", fmt.Sprintf("FAULTed invocation changed storage: %v -> %v", w.prev.dig, cur.dig))
	}
	// --- update the independent spec state from the operation and its outcome
	var cid string
	wantEv := ""
	switch {
	case method == "setcfg" && halted:
		w.fees[string(bz(a[1]))] = bytesToIntLoose(bz(a[2]))
	case isPut && halted:
		blob := bz(a[2])
		h := sha256.Sum256(blob)
		cid = hx.Hex(h[:])
		if w.tomb[cid] {
			v4("deleted-id-registered-again", "put of the deleted container "+cid+" succeeded")
		}
		li := w.live[cid]
		if li == nil {
			li = &liveInfo{}
			w.live[cid] = li
		}
		li.c = cnr{blob, bz(a[3]), bz(a[4]), bz(a[5])}
		li.owner = specOwner(blob)
		if method == "putn" {
			zone := string(bz(a[7]))
			if zone == "" {
				zone = "container"
			}
			li.alias = []byte(string(bz(a[6])) + "." + zone)
		}
		if method == "putm" && a[6] == "1" {
			li.meta = true
		}
		wantEv = fmt.Sprintf("PutSuccess(%s,%s)", cid, hx.Hex(bz(a[4])))
		if li.owner == nil {
			v4("blob-without-owner-registered", "container "+cid+" registered although its blob is too short to hold an owner")
		} else {
			w.checkFee(v5, method, li.owner, cid, cur)
		}
	case method == "del" && halted:
		cid = a[1]
		if w.live[cid] != nil {
			delete(w.live, cid)
			w.tomb[cid] = true
			wantEv = fmt.Sprintf("DeleteSuccess(%s)", cid)
		}
	case method == "seteacl" && halted:
		c := specEACLCid(bz(a[1]))
		cid = hx.Hex(c)
		if li := w.live[cid]; li != nil {
			li.eacl = &cnr{bz(a[1]), bz(a[2]), bz(a[3]), bz(a[4])}
		} else {
			v4("eacl-for-missing-container", "setEACL succeeded for the container "+cid+" which is not live")
		}
		wantEv = fmt.Sprintf("SetEACLSuccess(%s,%s)", cid, hx.Hex(bz(a[3])))
	}
	// --- notifications: exactly one naming the container per success, nothing else emits them
	var got []string
	for _, e := range evs {
		if e.name == "PutSuccess" || e.name == "DeleteSuccess" || e.name == "SetEACLSuccess" {
			got = append(got, e.str)
		}
	}
	var want []string
	if wantEv != "" {
		want = []string{wantEv}
	}
	if strings.Join(got, ";") != strings.Join(want, ";") {
		v4("notification", fmt.Sprintf("emitted [%s], the property asks for [%s]", strings.Join(got, ";"), strings.Join(want, ";")))
	}
	// --- the stored registry is exactly the live set (all five index families) and tombstones
	w.checkRegistry(v4, cur)
}

func bytesToIntLoose(b []byte) *big.Int {
	if len(b) > 32 {
		return nil
	}
	return bytesToInt(b)
}

// checkFee: a HALTed put moved exactly fee*N from the owner, fee to each Alphabet account, nothing else.
func (w *world) checkFee(v5 func(string, string), method string, owner []byte, cid string, cur *view) {
	f := w.fees[feeKey]
	if method == "putn" {
		af := w.fees[aliasFeeKey]
		if f != nil && af != nil {
			f = new(big.Int).Add(f, af)
		} else {
			f = nil
		}
	}
	if f == nil {
		v5("fee-not-configured", "container registered although the fee is not configured")
		return
	}
	from := hx.Hex(owner[1:21])
	total := new(big.Int).Mul(f, big.NewInt(int64(w.n)))
	if balOf(w.prev.bal, from).Cmp(total) < 0 {
		v5("underfunded-put-succeeded", fmt.Sprintf("owner account %s held %s < %s = fee %s x %d nodes", from, balOf(w.prev.bal, from), total, f, w.n))
	}
	want := map[string]*big.Int{}
	add := func(k string, d *big.Int) {
		if want[k] == nil {
			want[k] = new(big.Int).Set(balOf(w.prev.bal, k))
		}
		want[k].Add(want[k], d)
	}
	add(from, new(big.Int).Neg(total))
	for _, ac := range w.alphaAc {
		add(ac, f)
	}
	keys := map[string]bool{}
	for k := range w.prev.bal {
		keys[k] = true
	}
	for k := range cur.bal {
		keys[k] = true
	}
	for k := range want {
		keys[k] = true
	}
	for k := range keys {
		exp := balOf(w.prev.bal, k)
		if z, ok := want[k]; ok {
			exp = z
		}
		if balOf(cur.bal, k).Cmp(exp) != 0 {
			who := "account"
			for i, ac := range w.alphaAc {
				if ac == k {
					who = fmt.Sprintf("Alphabet node %d of %d (validators: the first %d), account", i+1, w.n, w.v)
				}
			}
			v5("wrong-fee", fmt.Sprintf("%s %s: %s -> %s, expected %s (fee %s, %d Alphabet nodes, owner account %s)", who, k, balOf(w.prev.bal, k), balOf(cur.bal, k), exp, f, w.n, from))
		}
	}
	if cur.sup.Cmp(w.prev.sup) != 0 {
		v5("wrong-fee", fmt.Sprintf("supply changed %s -> %s", w.prev.sup, cur.sup))
	}
	if _, ok := cur.x[cid]; !ok {
		v5("paid-but-not-stored", "fee paid but container "+cid+" is not stored")
	}
}

func balOf(m map[string]*big.Int, k string) *big.Int {
	if z, ok := m[k]; ok {
		return z
	}
	return new(big.Int)
}

func (w *world) checkRegistry(v4 func(string, string), cur *view) {
	// x == live
	for cid, li := range w.live {
		c, ok := cur.x[cid]
		if !ok {
			v4("live-container-missing", "live container "+cid+" is not stored")
			continue
		}
		if !eqCnr(c, li.c) {
			v4("stored-blob-differs", "container "+cid+" stored as "+c.String())
		}
		h := sha256.Sum256(c.value)
		if hx.Hex(h[:]) != cid {
			v4("id-not-sha256", "container "+cid+" holds a blob with another digest")
		}
	}
	for cid := range cur.x {
		if w.live[cid] == nil {
			v4("trace-of-dead-container", "blob stored for "+cid+" which is not live")
		}
	}
	// o == {(owner, cid)}
	seen := map[string]bool{}
	for _, e := range cur.o {
		cid := hx.Hex(e.cid)
		li := w.live[cid]
		if li == nil {
			v4("trace-of-dead-container", "owner index entry for "+cid+" which is not live")
			continue
		}
		if !bytes.Equal(e.owner, li.owner) || !bytes.Equal(e.val, e.cid) {
			v4("owner-index-wrong", fmt.Sprintf("owner index entry %x/%s -> %x, owner in blob %x", e.owner, cid, e.val, li.owner))
		}
		seen[cid] = true
	}
	for cid := range w.live {
		if !seen[cid] {
			v4("owner-index-missing", "no owner index entry for live container "+cid)
		}
	}
	// satellites
	for cid, c := range cur.eacl {
		li := w.live[cid]
		if li == nil {
			v4("trace-of-dead-container", "eACL stored for "+cid+" which is not live")
		} else if li.eacl == nil || !eqCnr(*li.eacl, c) {
			v4("eacl-not-last-set", "eACL of "+cid+" is not the last table set")
		}
	}
	for cid, al := range cur.alias {
		li := w.live[cid]
		if li == nil {
			v4("trace-of-dead-container", "alias stored for "+cid+" which is not live")
		} else if li.alias == nil || !bytes.Equal(li.alias, al) {
			v4("alias-not-last-set", fmt.Sprintf("alias of %s is %q, last set %q", cid, al, li.alias))
		}
	}
	for _, cid := range cur.m {
		if li := w.live[cid]; li == nil {
			v4("trace-of-dead-container", "meta flag stored for "+cid+" which is not live")
		} else if !li.meta {
			v4("meta-flag-wrong", "meta flag stored for "+cid+" which never asked for it")
		}
	}
	for cid, li := range w.live {
		if li.eacl != nil {
			if _, ok := cur.eacl[cid]; !ok {
				v4("eacl-not-last-set", "eACL of "+cid+" lost")
			}
		}
		if li.alias != nil {
			if _, ok := cur.alias[cid]; !ok {
				v4("alias-not-last-set", "alias of "+cid+" lost")
			}
		}
		if li.meta && !contains(cur.m, cid) {
			v4("meta-flag-wrong", "meta flag of "+cid+" lost")
		}
	}
	// tombstones: every deleted id is remembered, and nothing else of it is left anywhere
	for cid := range w.tomb {
		if !contains(cur.d, cid) {
			v4("tombstone-missing", "no tombstone for deleted container "+cid)
		}
		raw := hx.UnHex(cid)
		for _, k := range cur.cntKeys {
			if bytes.Contains(k, raw) && !(len(k) == 33 && k[0] == 'd') {
				v4("trace-of-dead-container", fmt.Sprintf("key %x still mentions deleted container %s", k, cid))
			}
		}
		if names := cur.nnsTXT[b58Encode(raw)]; len(names) > 0 {
			v4("nns-record-left", fmt.Sprintf("NNS still holds a TXT record of %v pointing at deleted container %s", names, cid))
		}
	}
	for _, cid := range cur.d {
		if !w.tomb[cid] {
			v4("tombstone-for-undeleted", "tombstone for "+cid+" which was never deleted")
		}
	}
}

func contains(l []string, x string) bool {
	for _, y := range l {
		if x == y {
			return true
		}
	}
	return false
}

// monitorRead: the read API describes exactly the live containers.
func (w *world) monitorRead(line, method string, a []string, obs string, ret any) {
	v4 := func(what, detail string) { w.run.Violation("C04", "container."+method, what, detail+" after "+line) }
	nf := obs == "FAULT:notfound"
	halted := strings.HasPrefix(obs, "HALT")
	switch method {
	case "get", "owner", "alias", "eacl":
		li := w.live[a[0]]
		if li == nil {
			if !nf {
				v4("getter-not-notfound", "getter on "+a[0]+" (not live) answered "+obs)
			}
			return
		}
		if !halted {
			v4("getter-fails-on-live", "getter on live "+a[0]+" answered "+obs)
			return
		}
		switch method {
		case "get":
			if !eqCnr(ret.(cnr), li.c) {
				v4("get-wrong", "get("+a[0]+") = "+obs)
			}
		case "owner":
			if !bytes.Equal(ret.([]byte), li.owner) {
				v4("owner-wrong", fmt.Sprintf("owner(%s) = %s, blob says %x", a[0], obs, li.owner))
			}
		case "alias":
			if !bytes.Equal(ret.([]byte), li.alias) || (ret.([]byte) == nil) != (li.alias == nil) {
				v4("alias-not-last-set", fmt.Sprintf("alias(%s) = %s, last set %q", a[0], obs, li.alias))
			}
		case "eacl":
			want := cnr{}
			if li.eacl != nil {
				want = *li.eacl
			}
			if !eqCnr(ret.(cnr), want) {
				v4("eacl-not-last-set", "eACL("+a[0]+") = "+obs)
			}
		}
	case "count":
		if !halted || ret.(*big.Int).Cmp(big.NewInt(int64(len(w.live)))) != 0 {
			v4("count-wrong", fmt.Sprintf("count = %s, live containers %d", obs, len(w.live)))
		}
	case "list", "cof":
		owner := bz(a[0])
		if len(owner) != 0 && len(owner) != 25 {
			return // not an owner id: outside the property
		}
		var want []string
		for cid, li := range w.live {
			if len(owner) == 0 || bytes.Equal(owner, li.owner) {
				want = append(want, cid)
			}
		}
		want = sortHex(want)
		if !halted || strings.Join(ret.([]string), ",") != strings.Join(want, ",") {
			v4("listing-wrong", fmt.Sprintf("%s(%s) = %s, live ids of that owner [%s]", method, a[0], obs, strings.Join(want, ",")))
		}
	}
}

// ---------------------------------------------------------------- generator

type pooled struct {
	blob  []byte
	cid   string
	owner []byte
}

type gen struct {
	w      *world
	rng    *rand.Rand
	chaos  bool // malformed stream: bad blobs, ids, keys, names, tables, configuration values and odd witness sets dominate
	pool   []pooled
	owners [][]byte
	bad    []pooled // malformed blobs
}

func randBytes(rng *rand.Rand, n int) []byte {
	b := make([]byte, n)
	for i := range b {
		b[i] = byte(rng.IntN(256))
	}
	return b
}

func mkBlob(rng *rand.Rand, owner []byte, verLen int, tail int) []byte {
	b := []byte{byte(rng.IntN(256)), byte(verLen)}
	b = append(b, randBytes(rng, verLen+4)...)
	b = append(b, owner...)
	b = append(b, randBytes(rng, tail)...)
	return b
}

func newGen(w *world, rng *rand.Rand) *gen {
	g := &gen{w: w, rng: rng}
	g.owners = [][]byte{ownerID(chainx.UserHash("O0")), ownerID(chainx.UserHash("O1")), ownerID(w.c.Members[0].ScriptHash())}
	if rng.IntN(3) == 0 { // an owner id that is not a valid address (the contract does not care)
		g.owners[1] = randBytes(rng, 25)
	}
	verLens := []int{0, 0, 1, 2, 5, 8, 20, 200}
	for _, o := range g.owners {
		for i := 0; i < 6; i++ {
			vl := verLens[rng.IntN(len(verLens))]
			tail := rng.IntN(12)
			if i == 0 {
				tail = 0 // the owner is the very end of the blob: boundary of the slice check
			}
			b := mkBlob(rng, o, vl, tail)
			h := sha256.Sum256(b)
			g.pool = append(g.pool, pooled{b, hx.Hex(h[:]), o})
		}
	}
	for _, b := range [][]byte{{}, {7}, {1, 0, 0, 0, 0, 0}, append([]byte{0, 3}, randBytes(rng, 3+4+24)...), append([]byte{0, 255}, randBytes(rng, 40)...)} {
		h := sha256.Sum256(b)
		g.bad = append(g.bad, pooled{b, hx.Hex(h[:]), nil})
	}
	return g
}

// odd: true once in n draws, once in 3 in the malformed stream
func (g *gen) odd(n int) bool {
	if g.chaos {
		n = 3
	}
	return g.rng.IntN(n) == 0
}

func (g *gen) alpha() string { return hx.Hex(g.w.c.Alpha.ScriptHash().BytesBE()) }
func (g *gen) cmt() string   { return hx.Hex(g.w.c.Cmt.ScriptHash().BytesBE()) }

// wit: the witnesses of a mutating call: mostly the Alphabet, sometimes Alphabet+committee, rarely others.
func (g *gen) wit() string {
	if g.w.v < g.w.n && g.rng.IntN(25) == 0 {
		return hx.Hex(g.w.c.ValidatorsSigner().ScriptHash().BytesBE()) // the validators' multisig is not the Alphabet
	}
	r := g.rng.IntN(40)
	if g.chaos && g.rng.IntN(2) == 0 {
		r = 28 + g.rng.IntN(12)
	}
	switch {
	case r < 28:
		return g.alpha()
	case r < 34:
		return g.alpha() + "," + g.cmt()
	case r < 36:
		return g.cmt()
	case r < 38:
		return hx.Hex(g.w.users[0].ScriptHash().BytesBE())
	case r < 39:
		return g.alpha() + "," + hx.Hex(g.w.users[1].ScriptHash().BytesBE())
	}
	return "-"
}

func (g *gen) pub() string {
	k := g.rng.IntN(30)
	if g.chaos && g.rng.IntN(4) == 0 {
		k = g.rng.IntN(3)
	}
	switch k {
	case 0:
		return hx.Hex(randBytes(g.rng, 32))
	case 1:
		return hx.Hex(randBytes(g.rng, 34))
	case 2:
		return "-"
	}
	return hx.Hex(randBytes(g.rng, 33))
}

func (g *gen) token() string {
	if g.rng.IntN(4) == 0 {
		return "-"
	}
	return hx.Hex(randBytes(g.rng, 1+g.rng.IntN(3)))
}

func (g *gen) sigb() string { return hx.Hex(randBytes(g.rng, 1+g.rng.IntN(2))) }

func (g *gen) pick() pooled {
	if g.odd(25) {
		return hx.Pick(g.rng, g.bad)
	}
	// prefer a state class: fresh / live / deleted
	want := g.rng.IntN(10)
	for try := 0; try < 12; try++ {
		p := hx.Pick(g.rng, g.pool)
		_, live := g.w.prev.x[p.cid]
		dead := contains(g.w.prev.d, p.cid)
		switch {
		case want < 5 && !live && !dead:
			return p
		case want >= 5 && want < 8 && live:
			return p
		case want >= 8 && dead:
			return p
		}
	}
	return hx.Pick(g.rng, g.pool)
}

// liveCid: an id that is stored right now (if any)
func (g *gen) liveCid() (string, bool) {
	ks := sortHex(hx.SortedKeys(g.w.prev.x))
	if len(ks) == 0 {
		return "", false
	}
	return hx.Pick(g.rng, ks), true
}

func (g *gen) anyCid() string {
	if g.rng.IntN(2) == 0 {
		if c, ok := g.liveCid(); ok {
			return c
		}
	}
	switch g.rng.IntN(12) {
	case 0:
		return hx.Hex(randBytes(g.rng, 32))
	case 1:
		return hx.Hex(randBytes(g.rng, 31))
	case 2:
		return "-"
	case 3:
		return hx.Hex(randBytes(g.rng, 33))
	}
	return g.pick().cid
}

var names = []string{"aaa", "aaa", "bbb", "bbb", "c-1", "x9", "q"}
var badNames = []string{"-a", "A", "a_", "a-", strings.Repeat("z", 64), "a.b", "aaa.bbb"}

func (g *gen) name() string {
	if g.odd(14) {
		return hx.Pick(g.rng, badNames)
	}
	return hx.Pick(g.rng, names)
}

func (g *gen) zone() string {
	switch g.rng.IntN(12) {
	case 0, 1, 2:
		return "cdn"
	case 3:
		return "nope"
	case 4:
		return "container"
	}
	return ""
}

// fee of the next put as the implementation's configuration says (nil when not configured / not decodable)
func (g *gen) curFee(named bool) *big.Int {
	get := func(k string) *big.Int {
		v, ok := g.w.prev.cfg[hx.Hex([]byte(k))]
		if !ok {
			return nil
		}
		return bytesToIntLoose(v)
	}
	f := get(feeKey)
	if f == nil {
		return nil
	}
	if named {
		a := get(aliasFeeKey)
		if a == nil {
			return nil
		}
		return new(big.Int).Add(f, a)
	}
	return f
}

// fund: bring the owner's balance to fee*N + delta with a mint or a burn.
func (g *gen) fund(owner []byte, named bool) (string, bool) {
	f := g.curFee(named)
	if f == nil || len(owner) != 25 {
		return "", false
	}
	acct := hx.Hex(owner[1:21])
	target := new(big.Int).Mul(f, big.NewInt(int64(g.w.n)))
	k := g.rng.IntN(8)
	if g.w.v < g.w.n && g.rng.IntN(3) == 0 {
		// fewer validators than Alphabet nodes: the owner holds exactly enough for the validators only (must be
		// refused: every Alphabet node is paid), or one more
		target.Mul(f, big.NewInt(int64(g.w.v)))
		if g.rng.IntN(3) == 0 {
			target.Add(target, big.NewInt(1))
		}
		k = 7
	}
	switch k {
	case 0:
		target.Sub(target, big.NewInt(1))
	case 1:
		target.Add(target, big.NewInt(1))
	case 2:
		target.Add(target, f) // enough for one more node
	case 3:
		target.Mul(target, big.NewInt(3))
	}
	if target.Sign() < 0 {
		target.SetInt64(0)
	}
	cur := balOf(g.w.prev.bal, acct)
	diff := new(big.Int).Sub(target, cur)
	switch diff.Sign() {
	case 1:
		return fmt.Sprintf("op mint %s %s %s %s", g.alpha(), acct, diff, "-"), true
	case -1:
		return fmt.Sprintf("op burn %s %s %s %s", g.alpha(), acct, diff.Neg(diff), "-"), true
	}
	return "", false
}

func encInt(z int64) string {
	b := stackitem.NewBigInteger(big.NewInt(z))
	bs, _ := b.TryBytes()
	return hx.Hex(bs)
}

func (g *gen) setcfg() string {
	key := feeKey
	if g.rng.IntN(3) == 0 {
		key = aliasFeeKey
	}
	if g.rng.IntN(20) == 0 {
		key = "Other"
	}
	vals := []int64{0, 0, 1, 1, 2, 7, 100, 100, 1000, 127, 128, 255, 256, 1 << 40}
	v := encInt(hx.Pick(g.rng, vals))
	k := g.rng.IntN(40)
	if g.chaos && g.rng.IntN(3) == 0 {
		k = g.rng.IntN(4)
	}
	switch k {
	case 3:
		v = "-"
	case 0:
		v = encInt(-1)
	case 1:
		v = hx.Hex(randBytes(g.rng, 33))
	case 2:
		v = "0100" // non-minimal encoding of 1
	}
	w := g.alpha()
	switch g.rng.IntN(12) {
	case 0:
		w = g.wit()
	case 1:
		w = hx.Pick(g.rng, []string{"-", g.cmt(), hx.Hex(g.w.users[0].ScriptHash().BytesBE())})
	}
	return fmt.Sprintf("op setcfg %s %s %s", w, hx.Hex([]byte(key)), v)
}

func (g *gen) eaclTable(cid string) string {
	vl := hx.Pick(g.rng, []int{0, 0, 1, 4, 20})
	t := []byte{byte(g.rng.IntN(256)), byte(vl)}
	t = append(t, randBytes(g.rng, vl+4)...)
	raw := hx.UnHex(cid)
	k := g.rng.IntN(16)
	if g.chaos && g.rng.IntN(3) == 0 {
		k = g.rng.IntN(3)
	}
	switch k {
	case 0:
		if len(raw) > 0 {
			raw = raw[:len(raw)-1] // one byte short
		}
	case 1:
		return hx.Hex(t[:1])
	case 2:
		return "-"
	}
	t = append(t, raw...)
	t = append(t, randBytes(g.rng, g.rng.IntN(6))...)
	return hx.Hex(t)
}

// reads: getter calls on the ids / owners an operation touched
func (g *gen) reads(cid string, owner []byte) []string {
	var out []string
	if cid != "" {
		for _, m := range []string{"get", "owner", "alias", "eacl"} {
			if g.rng.IntN(3) != 0 {
				out = append(out, fmt.Sprintf("op %s %s", m, cid))
			}
		}
	}
	if owner != nil && g.rng.IntN(2) == 0 {
		out = append(out, "op list "+hx.Hex(owner), "op cof "+hx.Hex(owner))
	}
	switch g.rng.IntN(6) {
	case 0:
		out = append(out, "op count")
	case 1:
		out = append(out, "op list -")
	case 2:
		out = append(out, "op cof -")
	}
	return out
}

func (g *gen) sweep() []string {
	var out []string
	for _, p := range g.pool {
		for _, m := range []string{"get", "owner", "alias", "eacl"} {
			out = append(out, fmt.Sprintf("op %s %s", m, p.cid))
		}
	}
	for _, o := range g.owners {
		out = append(out, "op list "+hx.Hex(o), "op cof "+hx.Hex(o))
	}
	out = append(out, "op count", "op list -", "op cof -")
	return out
}

// fresh: a pooled container that was never put
func (g *gen) fresh() (pooled, bool) {
	for try := 0; try < 30; try++ {
		p := hx.Pick(g.rng, g.pool)
		if _, live := g.w.prev.x[p.cid]; !live && !contains(g.w.prev.d, p.cid) {
			return p, true
		}
	}
	return pooled{}, false
}

func (g *gen) putLine(kind string, wit string, p pooled, name, zone string) string {
	switch kind {
	case "putn":
		return fmt.Sprintf("op putn %s %s %s %s %s %s %s %s", wit, p.cid, hx.Hex(p.blob), g.sigb(), hx.Hex(randBytes(g.rng, 33)), g.token(),
			hx.Hex([]byte(name)), hx.Hex([]byte(zone)))
	case "putm":
		return fmt.Sprintf("op putm %s %s %s %s %s %s 1", wit, p.cid, hx.Hex(p.blob), g.sigb(), hx.Hex(randBytes(g.rng, 33)), g.token())
	}
	return fmt.Sprintf("op put %s %s %s %s %s %s", wit, p.cid, hx.Hex(p.blob), g.sigb(), hx.Hex(randBytes(g.rng, 33)), g.token())
}

func (g *gen) rich(owner []byte) string {
	return fmt.Sprintf("op mint %s %s %d -", g.alpha(), hx.Hex(owner[1:21]), 1<<44)
}

// scenario: a short directed interleaving from the property's quantifier (re-put under another name, name
// reuse after deletion, put after delete, committee-owned alias domain, fee change between puts, eACL and
// meta flag surviving a re-put); the lines go through the same execution path as the random ones and are
// generated one at a time, so every line sees the state the previous one left.
func (g *gen) scenario(k int, emit func(string)) {
	p, ok := g.fresh()
	if !ok {
		return
	}
	both := g.alpha() + "," + g.cmt()
	nm := hx.Pick(g.rng, names)
	zone := hx.Pick(g.rng, []string{"", "", "cdn"})
	switch k {
	case 0: // F13 shape: alias, re-alias, delete, the first name goes to another container
		q, ok2 := g.fresh()
		emit(g.rich(p.owner))
		emit(g.putLine("putn", g.alpha(), p, nm, zone))
		emit(g.putLine("putn", g.alpha(), p, nm+"2", zone))
		emit("op alias " + p.cid)
		emit(fmt.Sprintf("op del %s %s %s %s", g.alpha(), p.cid, g.sigb(), g.token()))
		if ok2 && q.cid != p.cid {
			emit(g.rich(q.owner))
			emit(g.putLine("putn", g.alpha(), q, nm, zone))
			emit("op alias " + q.cid)
		}
	case 1: // replay of a deleted container, in all three put flavours
		emit(g.rich(p.owner))
		emit(g.putLine(hx.Pick(g.rng, []string{"put", "putn", "putm"}), g.alpha(), p, nm+"r", ""))
		emit(fmt.Sprintf("op del %s %s %s %s", g.alpha(), p.cid, g.sigb(), g.token()))
		emit(g.putLine("put", g.alpha(), p, "", ""))
		emit(g.putLine("putn", g.alpha(), p, nm+"s", ""))
		emit(g.putLine("putm", g.alpha(), p, "", ""))
		emit(fmt.Sprintf("op del %s %s %s %s", g.alpha(), p.cid, g.sigb(), g.token()))
	case 2: // alias domain registered in advance by the committee: needs the committee's witness to write and to clean
		dom := nm + "c.cdn"
		emit(fmt.Sprintf("op prereg %s %s", hx.Hex([]byte(dom)), g.cmt()))
		emit(g.rich(p.owner))
		emit(g.putLine("putn", g.alpha(), p, nm+"c", "cdn"))
		emit(g.putLine("putn", both, p, nm+"c", "cdn"))
		emit(fmt.Sprintf("op seteacl %s %s %s %s %s", g.alpha(), g.eaclTableOK(p.cid), g.sigb(), hx.Hex(randBytes(g.rng, 33)), g.token()))
		emit(fmt.Sprintf("op del %s %s %s %s", g.alpha(), p.cid, g.sigb(), g.token()))
		emit(fmt.Sprintf("op del %s %s %s %s", both, p.cid, g.sigb(), g.token()))
		emit("op eacl " + p.cid)
	case 3: // domain owned by somebody else
		dom := nm + "u.cdn"
		emit(fmt.Sprintf("op prereg %s %s", hx.Hex([]byte(dom)), hx.Hex(g.w.users[0].ScriptHash().BytesBE())))
		emit(g.rich(p.owner))
		emit(g.putLine("putn", both, p, nm+"u", "cdn"))
	case 4: // fee changes between puts; eACL and meta flag survive a re-put
		emit(g.rich(p.owner))
		emit(g.putLine("putm", g.alpha(), p, "", ""))
		emit(fmt.Sprintf("op seteacl %s %s %s %s %s", g.alpha(), g.eaclTableOK(p.cid), g.sigb(), hx.Hex(randBytes(g.rng, 33)), g.token()))
		emit(g.setcfg())
		emit(g.putLine("put", g.alpha(), p, "", ""))
		emit(g.setcfg())
		emit(g.putLine("putn", g.alpha(), p, nm+"f", zone))
		for _, m := range []string{"get", "owner", "alias", "eacl"} {
			emit(fmt.Sprintf("op %s %s", m, p.cid))
		}
	}
}

// cvBoundaries: on a chain with fewer validators (v) than Alphabet nodes (n) the fee is owed to all n Alphabet
// nodes: an owner holding fee*v or fee*n-1 is refused, one holding fee*n pays every node. Unnamed and named.
func (g *gen) cvBoundaries(emit func(string)) {
	n, v := int64(g.w.n), int64(g.w.v)
	fee, afee := int64(100), int64(50)
	emit(fmt.Sprintf("op setcfg %s %s %s", g.alpha(), hx.Hex([]byte(feeKey)), encInt(fee)))
	emit(fmt.Sprintf("op setcfg %s %s %s", g.alpha(), hx.Hex([]byte(aliasFeeKey)), encInt(afee)))
	to := func(owner []byte, target int64) {
		acct := hx.Hex(owner[1:21])
		diff := target - balOf(g.w.prev.bal, acct).Int64()
		if diff > 0 {
			emit(fmt.Sprintf("op mint %s %s %d -", g.alpha(), acct, diff))
		} else if diff < 0 {
			emit(fmt.Sprintf("op burn %s %s %d -", g.alpha(), acct, -diff))
		}
	}
	for _, named := range []bool{false, true} {
		p, ok := g.fresh()
		if !ok {
			return
		}
		f := fee
		kind, name := "put", ""
		if named {
			f, kind, name = fee+afee, "putn", hx.Pick(g.rng, names)+"v"
		}
		for _, target := range []int64{f * v, f*n - 1, f * n} {
			to(p.owner, target)
			emit(g.putLine(kind, g.alpha(), p, name, ""))
		}
		emit("op get " + p.cid)
	}
}

func (g *gen) eaclTableOK(cid string) string {
	vl := hx.Pick(g.rng, []int{0, 1, 4, 20})
	t := []byte{byte(g.rng.IntN(256)), byte(vl)}
	t = append(t, randBytes(g.rng, vl+4)...)
	t = append(t, hx.UnHex(cid)...)
	return hx.Hex(append(t, randBytes(g.rng, g.rng.IntN(4))...))
}

// next returns the next operation lines (a mutation, possibly preceded by funding and followed by reads).
func (g *gen) next() []string {
	r := g.rng.IntN(100)
	switch {
	case r < 8:
		return []string{g.setcfg()}
	case r < 48: // put variants
		p := g.pick()
		kind := g.rng.IntN(10)
		named := kind >= 4 && kind < 8
		var out []string
		if g.rng.IntN(5) != 0 {
			if l, ok := g.fund(p.owner, named); ok {
				out = append(out, l)
			}
		}
		cidOnLine := p.cid
		var l string
		switch {
		case kind < 4:
			l = fmt.Sprintf("op put %s %s %s %s %s %s", g.wit(), cidOnLine, hx.Hex(p.blob), g.sigb(), g.pub(), g.token())
		case kind < 8:
			l = fmt.Sprintf("op putn %s %s %s %s %s %s %s %s", g.wit(), cidOnLine, hx.Hex(p.blob), g.sigb(), g.pub(), g.token(),
				hx.Hex([]byte(g.name())), hx.Hex([]byte(g.zone())))
		default:
			l = fmt.Sprintf("op putm %s %s %s %s %s %s %d", g.wit(), cidOnLine, hx.Hex(p.blob), g.sigb(), g.pub(), g.token(), g.rng.IntN(2))
		}
		out = append(out, l)
		return append(out, g.reads(p.cid, p.owner)...)
	case r < 66:
		cid := g.anyCid()
		l := fmt.Sprintf("op del %s %s %s %s", g.wit(), cid, g.sigb(), g.token())
		return append([]string{l}, g.reads(cid, nil)...)
	case r < 78:
		cid := g.anyCid()
		l := fmt.Sprintf("op seteacl %s %s %s %s %s", g.wit(), g.eaclTable(cid), g.sigb(), g.pub(), g.token())
		return append([]string{l}, g.reads(cid, nil)...)
	case r < 82:
		owner := hx.Pick(g.rng, []string{g.cmt(), g.cmt(), hx.Hex(g.w.users[0].ScriptHash().BytesBE())})
		dom := hx.Pick(g.rng, names) + "." + hx.Pick(g.rng, []string{"container", "cdn", "cdn"})
		if g.rng.IntN(10) == 0 {
			dom = hx.Pick(g.rng, []string{"-a", "A", "a_"}) + ".cdn"
		}
		return []string{fmt.Sprintf("op prereg %s %s", hx.Hex([]byte(dom)), owner)}
	case r < 86:
		o := hx.Pick(g.rng, g.owners)
		amt := hx.Pick(g.rng, []int64{0, 1, 5, 1000})
		return []string{fmt.Sprintf("op mint %s %s %d -", g.alpha(), hx.Hex(o[1:21]), amt)}
	default:
		// free reads, including malformed arguments
		switch g.rng.IntN(8) {
		case 0:
			return []string{"op list " + hx.Hex(hx.Pick(g.rng, g.owners)[:g.rng.IntN(25)])}
		case 1:
			o := hx.Pick(g.rng, g.owners)
			return []string{"op cof " + hx.Hex(append(append([]byte{}, o...), randBytes(g.rng, 1)...))}
		case 2:
			return []string{"op count", "op list -", "op cof -"}
		}
		return g.reads(g.anyCid(), hx.Pick(g.rng, g.owners))
	}
}

// ---------------------------------------------------------------- driver of the run

// subst replaces the account placeholders of hand-written corpus files (@ALPHA@, @CMT@, @U0@, @U1@) by the
// script hashes of the case's chain; generated and recorded lines carry the hashes themselves.
func (w *world) subst(l string) string {
	if !strings.Contains(l, "@") {
		return l
	}
	r := strings.NewReplacer("@ALPHA@", hx.Hex(w.c.Alpha.ScriptHash().BytesBE()), "@CMT@", hx.Hex(w.c.Cmt.ScriptHash().BytesBE()),
		"@U0@", hx.Hex(w.users[0].ScriptHash().BytesBE()), "@U1@", hx.Hex(w.users[1].ScriptHash().BytesBE()),
		"@SELF@", hx.Hex(w.cnt.BytesBE()))
	return r.Replace(l)
}

func runLines(t *testing.T, run *hx.Run, lines []string) {
	var w *world
	var sample []string
	defer func() { run.Sample(strings.Join(sample, "\n")) }()
	ensure := func(n, v int) {
		if w == nil {
			var init string
			w, init = newWorld(t, run, n, v)
			run.Op(init, "INIT | "+w.prev.String())
		}
	}
	dn, dv := 1, 1 // shape of the case when its init line is missing (e.g. shrunk away): from the case attribute cv=n/v
	for _, l := range lines {
		if strings.HasPrefix(l, "case ") {
			w = nil
			f := strings.Fields(l)
			dn, dv = 1, 1
			for _, a := range f[2:] {
				if strings.HasPrefix(a, "cv=") {
					fmt.Sscanf(a, "cv=%d/%d", &dn, &dv)
				}
			}
			run.Case(f[1], f[2:]...)
			continue
		}
		f := strings.Fields(l)
		if len(f) >= 2 && f[1] == "init" {
			// "op init <n> [<v>]" in a corpus file, or the full init line of a recorded case: the committee size is
			// the number of Alphabet accounts, the validator count the trailing vals=<v> (default: all of them)
			n, v := 1, 0
			if len(f) == 3 || len(f) == 4 {
				fmt.Sscan(f[2], &n)
				if len(f) == 4 {
					fmt.Sscan(f[3], &v)
				}
			} else if len(f) >= 6 {
				n = len(strings.Split(f[5], ","))
				if strings.HasPrefix(f[len(f)-1], "vals=") {
					fmt.Sscanf(f[len(f)-1], "vals=%d", &v)
				}
			}
			if w != nil {
				t.Fatal("init in the middle of a case")
			}
			ensure(n, v)
			continue
		}
		ensure(dn, dv)
		l = w.subst(l)
		obs := w.execOp(l)
		run.Op(l, obs)
		if len(sample) < 8 && len(l) < 400 {
			o := obs
			if len(o) > 200 {
				o = o[:200] + "…"
			}
			sample = append(sample, l+"  =>  "+o)
		}
	}
}

func TestRun(t *testing.T) {
	run := hx.Open(t)
	defer run.Close()
	if run.Mode == "replay" {
		runLines(t, run, run.ReplayLines())
		return
	}
	cases, nops := 12, 80
	if run.Tier == "thorough" {
		cases, nops = 40, 140
	}
	// chain shapes committee/validators: the Alphabet is the committee; 6/4 (neotest's stock multi-node shape), 4/1
	// and 7/4 have fewer consensus nodes than Alphabet nodes, so the two key lists differ
	shapes := [][2]int{{1, 1}, {4, 4}, {7, 7}, {6, 4}}
	if run.Tier == "thorough" {
		shapes = [][2]int{{1, 1}, {4, 4}, {7, 7}, {6, 4}, {4, 1}, {7, 4}}
	}
	for ci := 0; ci < cases; ci++ {
		// the extra ci/len rotation keeps the malformed stream (every 4th case) from always meeting the same shape
		sh := shapes[(ci+ci/len(shapes)+run.Shard)%len(shapes)]
		n, v := sh[0], sh[1]
		w, init := newWorld(t, run, n, v)
		kind := "wf"
		if ci%4 == 3 {
			kind = "wf-malformed" // still inside the properties' quantifier (they speak of all inputs): monitors stay on
		}
		run.Case(fmt.Sprintf("s%d.%d.%d", run.Seed, run.Shard, ci), kind, fmt.Sprintf("cv=%d/%d", n, v))
		run.Op(init, "INIT | "+w.prev.String())
		g := newGen(w, run.Rand(ci))
		g.chaos = ci%4 == 3
		var first []string
		emit := func(l string) {
			obs := w.execOp(l)
			run.Op(l, obs)
			if len(first) < 8 && len(l) < 400 {
				o := obs
				if len(o) > 200 {
					o = o[:200] + "…"
				}
				first = append(first, l+"  =>  "+o)
			}
		}
		// most cases start with both fees configured; some leave one or both unset for a while
		if g.rng.IntN(5) != 0 {
			emit(fmt.Sprintf("op setcfg %s %s %s", g.alpha(), hx.Hex([]byte(feeKey)), encInt(hx.Pick(g.rng, []int64{0, 1, 100, 1000}))))
		}
		if g.rng.IntN(5) != 0 {
			emit(fmt.Sprintf("op setcfg %s %s %s", g.alpha(), hx.Hex([]byte(aliasFeeKey)), encInt(hx.Pick(g.rng, []int64{0, 1, 50, 500}))))
		}
		if v < n {
			g.cvBoundaries(emit)
		}
		for i := 0; i < nops; i++ {
			if i%16 == 5 {
				g.scenario(g.rng.IntN(5), emit)
				continue
			}
			for _, l := range g.next() {
				emit(l)
			}
		}
		for _, l := range g.sweep() {
			emit(l)
		}
		run.Sample(strings.Join(first, "\n"))
	}
}
