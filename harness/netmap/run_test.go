// Correspondence harness for the Netmap contract (C06, C07): executes operation lines on the contracts
// compiled from the repository under test (Netmap, probe subscribers, in some cases the real Balance and
// Container contracts), prints canonical observations (decoded raw storage + read API) for the diff with the
// Lean model, and runs the property monitors on the implementation's own observations.
//
// Op line:  op <g> h=<H> <sig> <method> <args…>
//
//	g      "." = last transaction of its block, "+" = the next op line shares the block
//	H      ledger.CurrentIndex() as the transaction sees it (stamped by the harness after execution)
//	sig    "-" or comma separated: alpha | cmt | <hex public key of a pool node>
//	method addPeer <blob> | addPeerIR <blob> | addNode <key> <state> <addrs> <attrs> | updateState <st> <key>
//	       | updateStateIR <st> <key> | deleteNode <key> | tick <e> | subscribe <hash> | setrej <probe> <0|1>
//	       | setcount <n>   (updateSnapshotCount; only refused values are generated: resizing is C08's)
package netmap

import (
	"bytes"
	"fmt"
	"math/big"
	"math/rand/v2"
	"path/filepath"
	"runtime"
	"sort"
	"strings"
	"testing"

	"github.com/nspcc-dev/neo-go/pkg/core/transaction"
	"github.com/nspcc-dev/neo-go/pkg/neotest"
	"github.com/nspcc-dev/neo-go/pkg/smartcontract"
	"github.com/nspcc-dev/neo-go/pkg/util"
	"github.com/nspcc-dev/neo-go/pkg/vm/stackitem"

	"verifharness/chainx"
	"verifharness/hx"
)

const (
	nNodes  = 5 // independent node keys; the pool holds one more: the parity partner of N0
	nProbes = 4
)

type node struct {
	blob  []byte
	state *big.Int
}

type node2 struct {
	addrs [][]byte
	attrs [][2][]byte
	key   []byte
	state *big.Int
}

func (n node) String() string { return hx.Hex(n.blob) + ":" + n.state.String() }

func hexList(l [][]byte) string {
	if len(l) == 0 {
		return "-"
	}
	s := make([]string, len(l))
	for i := range l {
		s[i] = hx.Hex(l[i])
	}
	return strings.Join(s, ",")
}

func attrList(l [][2][]byte) string {
	if len(l) == 0 {
		return "-"
	}
	s := make([]string, len(l))
	for i := range l {
		s[i] = hx.Hex(l[i][0]) + "=" + hx.Hex(l[i][1])
	}
	return strings.Join(s, ",")
}

func (n node2) String() string {
	return hx.Hex(n.key) + ":" + n.state.String() + ":" + hexList(n.addrs) + ":" + attrList(n.attrs)
}

// fp is the checksum both sides print instead of long contents (Adler-32 over the canonical rendering).
func fp(s string) uint32 {
	a, b := uint32(1), uint32(0)
	for i := 0; i < len(s); i++ {
		a = (a + uint32(s[i])) % 65521
		b = (b + a) % 65521
	}
	return b*65536 + a
}

func nodesStr(l []node) string {
	s := make([]string, len(l))
	for i := range l {
		s[i] = l[i].String()
	}
	return strings.Join(s, ",")
}

type kv2 struct {
	k []byte
	n node2
}

func kv2Str(l []kv2) string {
	s := make([]string, len(l))
	for i := range l {
		s[i] = hx.Hex(l[i].k) + "=" + l[i].n.String()
	}
	return strings.Join(s, ",")
}

func node2sStr(l []node2) string {
	s := make([]string, len(l))
	for i := range l {
		s[i] = l[i].String()
	}
	return strings.Join(s, ",")
}

// observation: decoded raw storage of the Netmap contract and its read API
type observation struct {
	epoch, block, count, curID *big.Int
	cands                      []struct {
		k []byte
		n node
	}
	cands2 []kv2
	snaps  map[int][]node
	nm2    []kv2 // key = BE4(epoch)‖node key
	subs   [][]byte
	other  []string
	// read API
	apiEpoch, apiBlock *big.Int
	apiNetmap, apiNC   []node
	apiLC, apiLN       []node2
	apiErr             string
	probeCalls         map[string][2]int64 // probe hash -> (number of recorded calls, epoch of the last)
	digest             string
}

type candEntry struct {
	legacy     *node
	structured *node2
}

type world struct {
	c       *chainx.Chain
	run     *hx.Run
	nm      util.Uint160
	n       int
	cnt     int // 0, or the snapshot count set by updateSnapshotCount(cnt) as the very first invocation
	wf      bool
	nodes   []neotest.SingleSigner
	nodeKey [][]byte
	byKey   map[string]neotest.SingleSigner
	probes  []util.Uint160
	isProbe map[string]bool
	hasNE   map[string]bool // hex hash -> has newEpoch/1
	noMeth  []util.Uint160  // deployed contracts without newEpoch/1
	real    []util.Uint160  // real Balance, Container (pre-subscribed by their deployment)
	prev    *observation
	// monitor's own reading of the properties (never shown to the model)
	spEpoch  *big.Int
	spCand   map[string]*candEntry
	spSubs   []string
	spRej    map[string]bool
	spCalls  map[string]int64
	spLastE  map[string]int64
	alphaEqC bool
	muted    map[string]bool // property -> a violation was reported in this case (later ones would be its echoes)
}

func thisDir() string {
	_, f, _, _ := runtime.Caller(0)
	return filepath.Dir(f)
}

func newWorld(t testing.TB, run *hx.Run, n int, real bool, np int, cnt int) *world {
	c := chainx.New(t, n)
	w := &world{c: c, run: run, n: n, byKey: map[string]neotest.SingleSigner{}, isProbe: map[string]bool{},
		hasNE: map[string]bool{}, spEpoch: new(big.Int), spCand: map[string]*candEntry{}, spRej: map[string]bool{},
		spCalls: map[string]int64{}, spLastE: map[string]int64{}}
	w.alphaEqC = c.Alpha.ScriptHash() == c.Cmt.ScriptHash()
	// every contract is deployed in a transaction paid by Payer: its hash does not depend on the committee
	// (neotest caches compiled contracts per path together with the hash for the first committee it saw)
	both := []neotest.Signer{c.Alpha}
	if !w.alphaEqC {
		both = append(both, c.Cmt)
	}
	var nns util.Uint160
	if real {
		nns = c.DeployAs(both, c.Compile("nns"), "", []any{[]any{[]any{"neofs", "ops@nspcc.io"}}})
		if nns != c.NNSHash() {
			t.Fatalf("NNS must be the contract with id 1")
		}
	}
	nmc := c.Compile("netmap")
	w.nm = c.DeployAs(both, nmc, "", []any{false, util.Uint160{}, util.Uint160{}, []any{c.Members[0].Account().PublicKey().Bytes()}, []any{}})
	w.hasNE[hx.Hex(w.nm.BytesBE())] = true // the Netmap contract has newEpoch/1 itself (and refuses the nested call)
	if real {
		c.RegisterNNS("netmap", w.nm)
		// Balance and Container subscribe in their _deploy: indices 0 and 1
		bal := c.DeployAs(both, c.Compile("balance"), "", []any{false, w.nm, util.Uint160{}})
		c.RegisterNNS("balance", bal)
		cnr := c.DeployAs(both, c.Compile("container"), "", []any{int64(0), w.nm, bal, util.Uint160{}, nns, ""})
		c.RegisterNNS("container", cnr)
		w.real = []util.Uint160{bal, cnr}
		for _, h := range w.real {
			w.hasNE[hx.Hex(h.BytesBE())] = true
			w.spSubs = append(w.spSubs, hx.Hex(h.BytesBE()))
		}
		w.noMeth = append(w.noMeth, nns)
	}
	pr := c.CompileDir(filepath.Join(thisDir(), "..", "probes", "epochsub"))
	for i := 0; i < np; i++ {
		h := c.DeployAs(nil, pr, fmt.Sprintf("VerifEpochSubscriberProbe-%d", i), nil)
		w.probes = append(w.probes, h)
		w.isProbe[hx.Hex(h.BytesBE())] = true
		w.hasNE[hx.Hex(h.BytesBE())] = true
	}
	w.noMeth = append(w.noMeth, c.DeployAs(nil, c.CompileDir(filepath.Join(thisDir(), "..", "probes", "caller")), "", nil))
	w.noMeth = append(w.noMeth, c.DeployAs(nil, c.CompileDir(filepath.Join(thisDir(), "..", "probes", "epochsub2")), "", nil))
	for i := 0; i < nNodes; i++ {
		u := c.User(fmt.Sprintf("N%d", i))
		w.nodes = append(w.nodes, u)
	}
	// N5 = −N0: the two compressed public keys differ only in the leading 02/03 parity byte (private keys d and
	// n−d); both are ordinary node keys. Key handling that drops or ignores that byte collides on this pair.
	_, neg := c.ParityPair("N0")
	w.nodes = append(w.nodes, neg)
	for _, u := range w.nodes {
		k := u.Account().PublicKey().Bytes()
		w.nodeKey = append(w.nodeKey, k)
		w.byKey[hx.Hex(k)] = u
	}
	if !bytes.Equal(w.nodeKey[0][1:], w.nodeKey[nNodes][1:]) || w.nodeKey[0][0] == w.nodeKey[nNodes][0] {
		t.Fatalf("N0/N5 are not a parity pair: %x %x", w.nodeKey[0], w.nodeKey[nNodes])
	}
	if cnt != 0 {
		// the deployment whose snapshot count is changed ONCE, before any other invocation of the Netmap contract
		// (every ring slot still empty, current id 0, epoch 0): a further root of the histories (model: initWith cnt).
		// Not an operation of the case; its effect is compared with the model through the first observation.
		w.cnt = cnt
		res := c.Invoke([]neotest.Signer{c.Alpha}, w.nm, "updateSnapshotCount", int64(cnt))
		if !res.Halt {
			run.Count("resize.fault")
			t.Logf("updateSnapshotCount(%d) on the fresh deployment FAULTed: %s", cnt, res.Fault)
		}
	}
	w.prev = w.observe()
	return w
}

// caseAttrs: what the model needs to know about the world (contracts with newEpoch/1, probes, pre-subscribed)
func (w *world) caseAttrs(kind string) []string {
	var has, probes, pre []string
	for _, k := range hx.SortedKeys(w.hasNE) {
		has = append(has, k)
	}
	for _, p := range w.probes {
		probes = append(probes, hx.Hex(p.BytesBE()))
	}
	for _, p := range w.real {
		pre = append(pre, hx.Hex(p.BytesBE()))
	}
	j := func(l []string) string {
		if len(l) == 0 {
			return "-"
		}
		return strings.Join(l, ",")
	}
	at := []string{kind, fmt.Sprintf("n=%d", w.n), fmt.Sprintf("np=%d", len(w.probes)), "self=" + hx.Hex(w.nm.BytesBE()), "has=" + j(has), "probes=" + j(probes), "presub=" + j(pre)}
	if w.cnt != 0 {
		at = append(at, fmt.Sprintf("count=%d", w.cnt))
	}
	return at
}

func itemInt(it stackitem.Item) *big.Int {
	z, err := it.TryInteger()
	if err != nil {
		panic(err)
	}
	return z
}

func itemBytes(it stackitem.Item) []byte {
	if _, ok := it.(stackitem.Null); ok {
		return nil
	}
	b, err := it.TryBytes()
	if err != nil {
		panic(err)
	}
	return b
}

func bytesToInt(b []byte) *big.Int { return itemInt(stackitem.NewByteArray(b)) }

func decodeNode(it stackitem.Item) node {
	f := it.Value().([]stackitem.Item)
	return node{itemBytes(f[0]), itemInt(f[1])}
}

func decodeNode2(it stackitem.Item) node2 {
	f := it.Value().([]stackitem.Item)
	var n node2
	for _, a := range f[0].Value().([]stackitem.Item) {
		n.addrs = append(n.addrs, itemBytes(a))
	}
	for _, e := range f[1].Value().([]stackitem.MapElement) {
		n.attrs = append(n.attrs, [2][]byte{itemBytes(e.Key), itemBytes(e.Value)})
	}
	n.key = itemBytes(f[2])
	n.state = itemInt(f[3])
	return n
}

func deser(b []byte) stackitem.Item {
	it, err := stackitem.Deserialize(b)
	if err != nil {
		panic(fmt.Sprintf("bad serialized value %x: %v", b, err))
	}
	return it
}

// callIter test-invokes an iterator-returning method and unwraps the iterator inside the VM.
func (w *world) callIter(method string, args ...any) ([]stackitem.Item, error) {
	script, err := smartcontract.CreateCallAndUnwrapIteratorScript(w.nm, method, 2000, args...)
	if err != nil {
		return nil, err
	}
	tx := w.c.NewScriptTx(nil, script)
	tx.ValidUntilBlock = w.c.BC.BlockHeight() + 2
	v, err := w.c.TestInvoke(tx)
	if err != nil {
		return nil, err
	}
	st := v.Estack().ToArray()
	if len(st) != 1 {
		return nil, fmt.Errorf("%s: %d items on the stack", method, len(st))
	}
	l, ok := st[0].Value().([]stackitem.Item)
	if !ok {
		return nil, fmt.Errorf("%s: not an array", method)
	}
	return l, nil
}

// observe decodes the raw storage of the Netmap contract by key family and evaluates the read API.
func (w *world) observe() *observation {
	o := &observation{snaps: map[int][]node{}, probeCalls: map[string][2]int64{}}
	o.epoch, o.block, o.count, o.curID = big.NewInt(-1), big.NewInt(-1), big.NewInt(-1), big.NewInt(-1)
	for _, kv := range w.c.Scan(w.nm) {
		k := string(kv.K)
		switch {
		case k == "snapshotEpoch":
			o.epoch = bytesToInt(kv.V)
		case k == "snapshotBlock":
			o.block = bytesToInt(kv.V)
		case k == "snapshotCount":
			o.count = bytesToInt(kv.V)
		case k == "snapshotCurrent":
			o.curID = bytesToInt(kv.V)
		case strings.HasPrefix(k, "snapshot_") && len(k) == 10:
			var l []node
			for _, it := range deser(kv.V).Value().([]stackitem.Item) {
				l = append(l, decodeNode(it))
			}
			o.snaps[int(kv.K[9])] = l
		case strings.HasPrefix(k, "candidate"):
			o.cands = append(o.cands, struct {
				k []byte
				n node
			}{kv.K[9:], decodeNode(deser(kv.V))})
		case k[0] == '2':
			o.cands2 = append(o.cands2, kv2{kv.K[1:], decodeNode2(deser(kv.V))})
		case k[0] == 'p' && len(k) >= 5:
			o.nm2 = append(o.nm2, kv2{kv.K[1:], decodeNode2(deser(kv.V))})
		case k[0] == 'e' && len(kv.V) == 0:
			o.subs = append(o.subs, kv.K[1:])
		default:
			o.other = append(o.other, fmt.Sprintf("%x=%x", kv.K, kv.V))
		}
	}
	o.digest = w.c.ScanDigest(w.nm)
	fail := func(m string, err error) { o.apiErr += fmt.Sprintf("%s: %v; ", m, err) }
	if st, err := w.c.Call(w.nm, "epoch"); err == nil {
		o.apiEpoch = itemInt(st[0])
	} else {
		fail("epoch", err)
		o.apiEpoch = big.NewInt(-1)
	}
	if st, err := w.c.Call(w.nm, "lastEpochBlock"); err == nil {
		o.apiBlock = itemInt(st[0])
	} else {
		fail("lastEpochBlock", err)
		o.apiBlock = big.NewInt(-1)
	}
	for _, m := range []string{"netmap", "netmapCandidates"} {
		st, err := w.c.Call(w.nm, m)
		if err != nil {
			fail(m, err)
			continue
		}
		var l []node
		for _, it := range st[0].Value().([]stackitem.Item) {
			l = append(l, decodeNode(it))
		}
		if m == "netmap" {
			o.apiNetmap = l
		} else {
			o.apiNC = l
		}
	}
	for _, m := range []string{"listCandidates", "listNodes"} {
		its, err := w.callIter(m)
		if err != nil {
			fail(m, err)
			continue
		}
		var l []node2
		for _, it := range its {
			l = append(l, decodeNode2(it))
		}
		if m == "listNodes" {
			o.apiLN = l
		} else {
			o.apiLC = l
		}
	}
	for _, p := range w.probes {
		st, err := w.c.Call(p, "calls")
		if err != nil {
			fail("probe.calls", err)
			continue
		}
		f := st[0].Value().([]stackitem.Item)
		o.probeCalls[hx.Hex(p.BytesBE())] = [2]int64{itemInt(f[0]).Int64(), itemInt(f[1]).Int64()}
	}
	return o
}

func be4hex(e *big.Int) string {
	m := new(big.Int).And(e, big.NewInt(0xffffffff))
	return fmt.Sprintf("%08x", m.Uint64())
}

// render prints the canonical state observation (the model prints the same from its own state).
func (o *observation) render() string {
	var sb strings.Builder
	fmt.Fprintf(&sb, "ep=%s blk=%s cnt=%s id=%s", o.epoch, o.block, o.count, o.curID)
	var cs []string
	for _, c := range o.cands {
		cs = append(cs, hx.Hex(c.k)+"="+c.n.String())
	}
	fmt.Fprintf(&sb, " cand=[%s]", strings.Join(cs, ";"))
	cs = cs[:0]
	for _, c := range o.cands2 {
		cs = append(cs, hx.Hex(c.k)+"="+c.n.String())
	}
	fmt.Fprintf(&sb, " cand2=[%s]", strings.Join(cs, ";"))
	var ids []int
	for i := range o.snaps {
		ids = append(ids, i)
	}
	sort.Ints(ids)
	cs = cs[:0]
	for _, i := range ids {
		cs = append(cs, fmt.Sprintf("%d:%d:%d", i, len(o.snaps[i]), fp(nodesStr(o.snaps[i]))))
	}
	fmt.Fprintf(&sb, " snap=[%s]", strings.Join(cs, ";"))
	cur := "none"
	if o.curID.IsInt64() {
		if l, ok := o.snaps[int(o.curID.Int64())]; ok {
			cur = "[" + nodesStr(l) + "]"
		}
	}
	fmt.Fprintf(&sb, " cur=%s", cur)
	// structured lists grouped by the 4-byte epoch part of the key
	cs = cs[:0]
	var now []kv2
	nowKey := be4hex(o.epoch)
	for i := 0; i < len(o.nm2); {
		j := i
		g := hx.Hex(o.nm2[i].k[:4])
		var grp []kv2
		for j < len(o.nm2) && hx.Hex(o.nm2[j].k[:4]) == g {
			grp = append(grp, kv2{o.nm2[j].k[4:], o.nm2[j].n})
			j++
		}
		cs = append(cs, fmt.Sprintf("%s:%d:%d", g, len(grp), fp(kv2Str(grp))))
		if g == nowKey {
			now = grp
		}
		i = j
	}
	fmt.Fprintf(&sb, " nm=[%s] now=[%s]", strings.Join(cs, ";"), kv2Str(now))
	cs = cs[:0]
	for _, s := range o.subs {
		cs = append(cs, fmt.Sprintf("%d:%s", s[0], hx.Hex(s[1:])))
	}
	fmt.Fprintf(&sb, " subs=[%s]", strings.Join(cs, ";"))
	if len(o.other) > 0 {
		fmt.Fprintf(&sb, " other=[%s]", strings.Join(o.other, ";"))
	}
	if o.apiErr != "" {
		fmt.Fprintf(&sb, " api=ERROR")
	} else {
		fmt.Fprintf(&sb, " api=%s,%s,%d:%d,%d:%d,%d:%d,%d:%d", o.apiEpoch, o.apiBlock,
			len(o.apiNetmap), fp(nodesStr(o.apiNetmap)), len(o.apiNC), fp(nodesStr(o.apiNC)),
			len(o.apiLC), fp(node2sStr(o.apiLC)), len(o.apiLN), fp(node2sStr(o.apiLN)))
	}
	return sb.String()
}

// ---------------------------------------------------------------- op execution

type parsedOp struct {
	line    string
	g       string
	sig     []string
	method  string
	args    []string
	signers []neotest.Signer
	alpha   bool            // the Alphabet multisignature account signs
	nodeW   map[string]bool // hex public keys whose single-signature accounts sign
}

func (w *world) parse(line string) *parsedOp {
	ws := strings.Fields(line)
	if len(ws) < 5 || ws[0] != "op" || !strings.HasPrefix(ws[2], "h=") {
		w.run.T.Fatalf("bad op line %q", line)
	}
	p := &parsedOp{line: line, g: ws[1], method: ws[4], args: ws[5:], nodeW: map[string]bool{}}
	if ws[3] != "-" {
		p.sig = strings.Split(ws[3], ",")
	}
	for _, s := range p.sig {
		switch s {
		case "alpha":
			p.signers = append(p.signers, w.c.Alpha)
			p.alpha = true
		case "cmt":
			if w.alphaEqC {
				if !p.alpha {
					p.signers = append(p.signers, w.c.Alpha)
				}
				p.alpha = true
			} else {
				p.signers = append(p.signers, w.c.Cmt)
			}
		default:
			u, ok := w.byKey[s]
			if !ok {
				w.run.T.Fatalf("unknown signer %s", s)
			}
			p.signers = append(p.signers, u)
			p.nodeW[s] = true
		}
	}
	// a signer must not be listed twice in a transaction
	seen := map[util.Uint160]bool{}
	var us []neotest.Signer
	for _, s := range p.signers {
		if !seen[s.ScriptHash()] {
			seen[s.ScriptHash()] = true
			us = append(us, s)
		}
	}
	p.signers = us
	return p
}

func bigArg(s string) *big.Int { return hx.Big(s) }

func splitHexList(s string) [][]byte {
	if s == "-" {
		return nil
	}
	var out [][]byte
	for _, x := range strings.Split(s, ",") {
		out = append(out, hx.UnHex(x))
	}
	return out
}

func splitAttrs(s string) [][2][]byte {
	if s == "-" {
		return nil
	}
	var out [][2][]byte
	for _, x := range strings.Split(s, ",") {
		kv := strings.SplitN(x, "=", 2)
		out = append(out, [2][]byte{hx.UnHex(kv[0]), hx.UnHex(kv[1])})
	}
	return out
}

func nz(b []byte) []byte {
	if b == nil {
		return []byte{}
	}
	return b
}

func (w *world) buildTx(p *parsedOp) *transaction.Transaction {
	a := p.args
	switch p.method {
	case "addPeer", "addPeerIR":
		return w.c.NewTx(p.signers, w.nm, p.method, nz(hx.UnHex(a[0])))
	case "addNode":
		var addrs []stackitem.Item
		for _, x := range splitHexList(a[2]) {
			addrs = append(addrs, stackitem.NewByteArray(x))
		}
		m := stackitem.NewMap()
		for _, kv := range splitAttrs(a[3]) {
			m.Add(stackitem.NewByteArray(kv[0]), stackitem.NewByteArray(kv[1]))
		}
		st := stackitem.NewStruct([]stackitem.Item{stackitem.NewArray(addrs), m,
			stackitem.NewByteArray(nz(hx.UnHex(a[0]))), stackitem.NewBigInteger(bigArg(a[1]))})
		return w.c.NewTx(p.signers, w.nm, "addNode", st)
	case "updateState", "updateStateIR":
		return w.c.NewTx(p.signers, w.nm, p.method, bigArg(a[0]), nz(hx.UnHex(a[1])))
	case "deleteNode":
		return w.c.NewTx(p.signers, w.nm, "deleteNode", nz(hx.UnHex(a[0])))
	case "tick":
		return w.c.NewTx(p.signers, w.nm, "newEpoch", bigArg(a[0]))
	case "subscribe":
		return w.c.NewTx(p.signers, w.nm, "subscribeForNewEpoch", nz(hx.UnHex(a[0])))
	case "setcount":
		return w.c.NewTx(p.signers, w.nm, "updateSnapshotCount", bigArg(a[0]))
	case "setrej":
		h, err := util.Uint160DecodeBytesBE(hx.UnHex(a[0]))
		if err != nil || !w.isProbe[a[0]] {
			w.run.T.Fatalf("setrej: %s is not a probe", a[0])
		}
		return w.c.NewTx(p.signers, h, "setReject", a[1] == "1")
	}
	w.run.T.Fatalf("bad method %q", p.method)
	return nil
}

func (w *world) events(res chainx.Result) []string {
	var es []string
	for _, e := range res.Events {
		it := e.Item.Value().([]stackitem.Item)
		hh := hx.Hex(e.ScriptHash.BytesBE())
		switch {
		case e.ScriptHash == w.nm:
			switch e.Name {
			case "AddPeerSuccess":
				es = append(es, fmt.Sprintf("AddPeerSuccess(%s)", hx.Hex(itemBytes(it[0]))))
			case "AddNode":
				var n node2
				for _, a := range it[1].Value().([]stackitem.Item) {
					n.addrs = append(n.addrs, itemBytes(a))
				}
				for _, el := range it[2].Value().([]stackitem.MapElement) {
					n.attrs = append(n.attrs, [2][]byte{itemBytes(el.Key), itemBytes(el.Value)})
				}
				es = append(es, fmt.Sprintf("AddNode(%s,%s,%s)", hx.Hex(itemBytes(it[0])), hexList(n.addrs), attrList(n.attrs)))
			case "UpdateStateSuccess":
				es = append(es, fmt.Sprintf("UpdateStateSuccess(%s,%s)", hx.Hex(itemBytes(it[0])), itemInt(it[1])))
			case "NewEpoch":
				es = append(es, fmt.Sprintf("NewEpoch(%s)", itemInt(it[0])))
			case "NewEpochSubscription":
				es = append(es, fmt.Sprintf("NewEpochSubscription(%s)", hx.Hex(itemBytes(it[0]))))
			default:
				es = append(es, "?"+e.Name)
			}
		case w.isProbe[hh] && e.Name == "EpochCall":
			es = append(es, fmt.Sprintf("Call(%s,%s)", hh, itemInt(it[0])))
		}
	}
	return es
}

// execBlock executes a group of op lines as the transactions of one block, records the stamped op lines and the
// observation lines (run.Op) and returns them.
func (w *world) execBlock(lines []string) (stamped, obs []string) {
	ps := make([]*parsedOp, len(lines))
	txs := make([]*transaction.Transaction, len(lines))
	for i, l := range lines {
		ps[i] = w.parse(l)
		txs[i] = w.buildTx(ps[i])
	}
	results := w.c.Exec(txs...)
	cur := w.observe()
	for i, p := range ps {
		res := results[i]
		ws := strings.Fields(p.line)
		ws[1] = "+"
		if i == len(ps)-1 {
			ws[1] = "."
		}
		ws[2] = fmt.Sprintf("h=%d", res.Height-1)
		st := strings.Join(ws, " ")
		stamped = append(stamped, st)
		w.run.Count("op." + p.method)
		var sb strings.Builder
		var evs []string
		if !res.Halt {
			sb.WriteString("FAULT")
			w.run.Count("out.fault." + p.method)
		} else {
			evs = w.events(res)
			fmt.Fprintf(&sb, "HALT ev=[%s]", strings.Join(evs, ";"))
			w.run.Count("out.halt." + p.method)
		}
		last := i == len(ps)-1
		if last {
			sb.WriteString(" | " + cur.render())
		} else {
			sb.WriteString(" | ~")
		}
		obs = append(obs, sb.String())
		// recorded before the monitor looks at it, so that a reported violation carries the op that caused it
		w.run.Op(st, sb.String())
		if w.wf {
			var o *observation
			if last {
				o = cur
			}
			w.monitor(st, p, res, evs, o, len(ps) == 1)
		}
	}
	if len(ps) > 1 {
		w.run.Count("blocks.multi")
	}
	w.checkReadAPI(cur, stamped[len(stamped)-1])
	w.prev = cur
	return
}

// checkReadAPI: the read API must agree with the decoded records (ties netmap/netmapCandidates/
// listCandidates/listNodes/epoch/lastEpochBlock to the storage view the model is compared with).
func (w *world) checkReadAPI(o *observation, line string) {
	bad := func(what, detail string) {
		w.run.Violation("C06", "netmap."+what, "read-api", detail+" after "+line)
	}
	if o.apiErr != "" {
		bad("read", o.apiErr)
		return
	}
	if o.apiEpoch.Cmp(o.epoch) != 0 {
		bad("epoch", fmt.Sprintf("epoch()=%s stored=%s", o.apiEpoch, o.epoch))
	}
	if o.apiBlock.Cmp(o.block) != 0 {
		bad("lastEpochBlock", fmt.Sprintf("lastEpochBlock()=%s stored=%s", o.apiBlock, o.block))
	}
	var nc []node
	for _, c := range o.cands {
		nc = append(nc, c.n)
	}
	if nodesStr(nc) != nodesStr(o.apiNC) {
		bad("netmapCandidates", fmt.Sprintf("api [%s] stored [%s]", nodesStr(o.apiNC), nodesStr(nc)))
	}
	var lc []node2
	for _, c := range o.cands2 {
		lc = append(lc, c.n)
	}
	if node2sStr(lc) != node2sStr(o.apiLC) {
		bad("listCandidates", fmt.Sprintf("api [%s] stored [%s]", node2sStr(o.apiLC), node2sStr(lc)))
	}
	if o.curID.IsInt64() {
		if nodesStr(o.snaps[int(o.curID.Int64())]) != nodesStr(o.apiNetmap) {
			bad("netmap", fmt.Sprintf("api [%s] stored [%s]", nodesStr(o.apiNetmap), nodesStr(o.snaps[int(o.curID.Int64())])))
		}
	}
	var ln []node2
	for _, e := range o.nm2 {
		if hx.Hex(e.k[:4]) == be4hex(o.epoch) {
			ln = append(ln, e.n)
		}
	}
	if node2sStr(ln) != node2sStr(o.apiLN) {
		bad("listNodes", fmt.Sprintf("api [%s] stored [%s]", node2sStr(o.apiLN), node2sStr(ln)))
	}
}

// ---------------------------------------------------------------- monitors
//
// The monitors read the property statements directly: they keep (a) the candidate table the accepted requests
// imply, (b) the list of subscribed contracts in subscription order, (c) the reject switches of the probes,
// (d) the last accepted epoch — and compare every outcome and every observation of the implementation with them.

func sortedNodes(l []node) string {
	s := make([]string, len(l))
	for i := range l {
		s[i] = l[i].String()
	}
	sort.Strings(s)
	return strings.Join(s, ",")
}

func sortedNode2s(l []node2) string {
	s := make([]string, len(l))
	for i := range l {
		s[i] = l[i].String()
	}
	sort.Strings(s)
	return strings.Join(s, ",")
}

var (
	stOnline      = big.NewInt(1)
	stOffline     = big.NewInt(2)
	stMaintenance = big.NewInt(3)
)

// c07Expect evaluates one candidate request against the property statement: returns whether it has to be
// accepted, the reason when not, and applies the implied change to a copy of the table.
func (w *world) c07Expect(p *parsedOp) (ok bool, why string, apply func()) {
	a := p.args
	entry := func(k string) *candEntry {
		e := w.spCand[k]
		if e == nil {
			e = &candEntry{}
			w.spCand[k] = e
		}
		return e
	}
	switch p.method {
	case "addPeer", "addPeerIR":
		blob := hx.UnHex(a[0])
		if len(blob) < 35 {
			return false, "malformed", nil
		}
		k := hx.Hex(blob[2:35])
		if p.method == "addPeer" && !p.nodeW[k] {
			return false, "witness", nil
		}
		if !p.alpha {
			return false, "witness", nil
		}
		return true, "", func() { entry(k).legacy = &node{blob, stOnline} }
	case "addNode":
		key := hx.UnHex(a[0])
		st := bigArg(a[1])
		if st.Cmp(stOnline) != 0 || len(key) != 33 {
			return false, "malformed", nil
		}
		if !p.nodeW[a[0]] || !p.alpha {
			return false, "witness", nil
		}
		n := node2{splitHexList(a[2]), splitAttrs(a[3]), key, st}
		return true, "", func() { entry(a[0]).structured = &n }
	case "updateState", "updateStateIR", "deleteNode":
		var st *big.Int
		var ks string
		if p.method == "deleteNode" {
			st, ks = stOffline, a[0]
		} else {
			st, ks = bigArg(a[0]), a[1]
		}
		if len(hx.UnHex(ks)) != 33 {
			return false, "malformed", nil
		}
		if p.method == "updateState" && !p.nodeW[ks] {
			return false, "witness", nil
		}
		if !p.alpha {
			return false, "witness", nil
		}
		switch {
		case st.Cmp(stOffline) == 0:
			return true, "", func() { delete(w.spCand, ks) }
		case st.Cmp(stOnline) == 0 || st.Cmp(stMaintenance) == 0:
			e := w.spCand[ks]
			if e == nil || (e.legacy == nil && e.structured == nil) {
				return false, "unknown-candidate", nil
			}
			return true, "", func() {
				if e.legacy != nil {
					e.legacy = &node{e.legacy.blob, st}
				}
				if e.structured != nil {
					n := *e.structured
					n.state = st
					e.structured = &n
				}
			}
		default:
			return false, "unknown-state", nil
		}
	}
	return false, "", nil
}

func (w *world) specLegacy() []node {
	var l []node
	for _, e := range w.spCand {
		if e.legacy != nil {
			l = append(l, *e.legacy)
		}
	}
	return l
}

func (w *world) specStructured() []node2 {
	var l []node2
	for _, e := range w.spCand {
		if e.structured != nil {
			l = append(l, *e.structured)
		}
	}
	return l
}

func (w *world) monitor(line string, p *parsedOp, res chainx.Result, evs []string, o *observation, alone bool) {
	v := func(prop, what, detail string) {
		if w.muted[prop] {
			return
		}
		if w.muted == nil {
			w.muted = map[string]bool{}
		}
		w.muted[prop] = true
		m := p.method
		switch m {
		case "tick":
			m = "newEpoch"
		case "subscribe":
			m = "subscribeForNewEpoch"
		case "setcount":
			m = "updateSnapshotCount"
		}
		w.run.Violation(prop, "netmap."+m, what, detail+" after "+line)
	}
	isCand := false
	switch p.method {
	case "addPeer", "addPeerIR", "addNode", "updateState", "updateStateIR", "deleteNode":
		isCand = true
	}
	prop := "C06"
	if isCand {
		prop = "C07"
	}
	// a failed invocation changes nothing (checked when it is alone in its block)
	if !res.Halt && alone && o != nil && o.digest != w.prev.digest {
		v(prop, "failed-call-effect", "storage of the Netmap contract changed although the invocation FAULTed")
	}
	// ---- C07
	if isCand {
		ok, why, apply := w.c07Expect(p)
		if res.Halt && !ok {
			what := "invalid-request-accepted"
			if why == "witness" {
				what = "unwitnessed-request-accepted"
			}
			v("C07", what, fmt.Sprintf("request has to fail (%s) but HALTed, signers %v", why, p.sig))
		}
		if !res.Halt && ok {
			v("C07", "valid-request-refused", "request has to take effect but FAULTed: "+res.Fault)
		}
		if res.Halt && ok {
			apply()
		}
	}
	// ---- C06: tick
	var expLegacy []node
	var expStructured []node2
	tickHalted := false
	if p.method == "tick" {
		e := bigArg(p.args[0])
		rejecting := ""
		for _, s := range w.spSubs {
			// the Netmap contract subscribed to itself refuses the nested newEpoch(e): e is already current
			if w.spRej[s] || s == hx.Hex(w.nm.BytesBE()) {
				rejecting = s
			}
		}
		ok := p.alpha && e.Cmp(w.spEpoch) > 0 && rejecting == ""
		if res.Halt && !ok {
			v("C06", "tick-accepted", fmt.Sprintf("newEpoch(%s) HALTed: alphabet=%v current epoch %s rejecting subscriber %q", e, p.alpha, w.spEpoch, rejecting))
		}
		if !res.Halt && ok {
			v("C06", "tick-refused", fmt.Sprintf("newEpoch(%s) FAULTed (%s): alphabet witness present, current epoch %s, no subscriber rejects", e, res.Fault, w.spEpoch))
		}
		if res.Halt {
			tickHalted = true
			// fan-out: every subscribed contract exactly once, in subscription order (visible for the probes)
			var want, got []string
			for _, s := range w.spSubs {
				if w.isProbe[s] {
					want = append(want, fmt.Sprintf("Call(%s,%s)", s, e))
					w.spCalls[s]++
					w.spLastE[s] = e.Int64()
				}
			}
			for _, x := range evs {
				if strings.HasPrefix(x, "Call(") {
					got = append(got, x)
				}
			}
			if strings.Join(want, ";") != strings.Join(got, ";") {
				v("C06", "fanout-mismatch", fmt.Sprintf("calls [%s], subscribed in this order [%s]", strings.Join(got, ";"), strings.Join(want, ";")))
			}
			w.spEpoch = e
			if alone {
				expLegacy = nil
				for _, n := range w.prev.apiNC {
					if n.state.Cmp(stOffline) != 0 {
						expLegacy = append(expLegacy, n)
					}
				}
				expStructured = w.prev.apiLC
			}
		}
	}
	// ---- C06: subscription
	if p.method == "subscribe" && res.Halt {
		known := false
		for _, s := range w.spSubs {
			if s == p.args[0] {
				known = true
			}
		}
		if known {
			if alone && o != nil && o.digest != w.prev.digest {
				v("C06", "double-subscription-effect", "subscribing an already subscribed contract changed the storage")
			}
		} else {
			w.spSubs = append(w.spSubs, p.args[0])
		}
	}
	if p.method == "setrej" && res.Halt {
		w.spRej[p.args[0]] = p.args[1] == "1"
	}
	if o == nil {
		return
	}
	// ---- observations at the end of the block
	if o.apiEpoch.Cmp(w.prev.apiEpoch) < 0 {
		v("C06", "epoch-decreased", fmt.Sprintf("epoch %s -> %s", w.prev.apiEpoch, o.apiEpoch))
	}
	if o.apiEpoch.Cmp(w.spEpoch) != 0 {
		v("C06", "epoch-mismatch", fmt.Sprintf("epoch() = %s, last accepted tick %s", o.apiEpoch, w.spEpoch))
	}
	if tickHalted && alone {
		if sortedNodes(o.apiNetmap) != sortedNodes(expLegacy) {
			v("C06", "legacy-publication", fmt.Sprintf("netmap() = [%s], non-offline candidates before the tick [%s]", sortedNodes(o.apiNetmap), sortedNodes(expLegacy)))
		}
		if sortedNode2s(o.apiLN) != sortedNode2s(expStructured) {
			v("C06", "structured-publication", fmt.Sprintf("listNodes(%s) = [%s], structured candidates before the tick [%s]", o.apiEpoch, sortedNode2s(o.apiLN), sortedNode2s(expStructured)))
		}
		if o.apiBlock.Int64() != int64(res.Height)-1 {
			v("C06", "tick-height", fmt.Sprintf("lastEpochBlock() = %s, the tick ran at chain height %d", o.apiBlock, res.Height-1))
		}
		if sortedNodes(o.apiNC) != sortedNodes(w.prev.apiNC) || sortedNode2s(o.apiLC) != sortedNode2s(w.prev.apiLC) {
			v("C06", "candidates-changed-by-tick", "the candidate set differs before and after the tick")
		}
	}
	if !tickHalted && alone && p.method != "tick" {
		// nothing but a successful tick publishes
		if nodesStr(o.apiNetmap) != nodesStr(w.prev.apiNetmap) || o.apiBlock.Cmp(w.prev.apiBlock) != 0 {
			v("C06", "publication-without-tick", "netmap()/lastEpochBlock() changed without a successful newEpoch")
		}
	}
	for _, ph := range w.probes {
		s := hx.Hex(ph.BytesBE())
		got := o.probeCalls[s]
		wantLast := int64(-1)
		if w.spCalls[s] > 0 {
			wantLast = w.spLastE[s]
		}
		if got[0] != w.spCalls[s] || got[1] != wantLast {
			v("C06", "subscriber-call-count", fmt.Sprintf("probe %s recorded %d calls (last epoch %d), expected %d (last %d)", s, got[0], got[1], w.spCalls[s], wantLast))
		}
	}
	// ---- C07: the candidate set is what the accepted requests imply, in both lists, API and raw storage
	if sortedNodes(o.apiNC) != sortedNodes(w.specLegacy()) {
		v("C07", "legacy-candidates-mismatch", fmt.Sprintf("netmapCandidates() = [%s], accepted requests imply [%s]", sortedNodes(o.apiNC), sortedNodes(w.specLegacy())))
	}
	if sortedNode2s(o.apiLC) != sortedNode2s(w.specStructured()) {
		v("C07", "structured-candidates-mismatch", fmt.Sprintf("listCandidates() = [%s], accepted requests imply [%s]", sortedNode2s(o.apiLC), sortedNode2s(w.specStructured())))
	}
	for _, c := range o.cands {
		e := w.spCand[hx.Hex(c.k)]
		if e == nil || e.legacy == nil || e.legacy.String() != c.n.String() {
			v("C07", "legacy-record-mismatch", fmt.Sprintf("record candidate‖%x = %s is not implied by the accepted requests", c.k, c.n))
		}
	}
	for _, c := range o.cands2 {
		e := w.spCand[hx.Hex(c.k)]
		if e == nil || e.structured == nil || e.structured.String() != c.n.String() || !bytes.Equal(c.k, c.n.key) {
			v("C07", "structured-record-mismatch", fmt.Sprintf("record 2‖%x = %s is not implied by the accepted requests", c.k, c.n))
		}
	}
}

// ---------------------------------------------------------------- generator

type gen struct {
	w   *world
	rng *rand.Rand
	mal bool // malformed stream
	big bool // epochs around 2^31..2^32 and beyond (outside the quantifier when ≥ 2^32)
	ser int
}

func (g *gen) key() string {
	if g.mal && g.rng.IntN(3) == 0 || g.rng.IntN(25) == 0 {
		k := hx.Pick(g.rng, g.w.nodeKey)
		switch g.rng.IntN(6) {
		case 0:
			return "-"
		case 1:
			return hx.Hex(k[:32])
		case 2:
			return hx.Hex(append(append([]byte{}, k...), 7))
		case 3:
			b := append([]byte{}, k...)
			b[0] = 5 // 33 bytes, not a point encoding
			return hx.Hex(b)
		case 4:
			return hx.Hex(k[:20])
		default:
			b := append([]byte{}, k...)
			b[32] ^= 1 // 33 bytes, most likely not on the curve, never a pool key
			return hx.Hex(b)
		}
	}
	return hx.Hex(hx.Pick(g.rng, g.w.nodeKey))
}

func (g *gen) blob() string {
	k := hx.UnHex(g.key())
	g.ser++
	b := []byte{byte(g.ser), byte(g.rng.IntN(256))}
	b = append(b, k...)
	switch g.rng.IntN(4) {
	case 0:
	case 1:
		b = append(b, byte(g.rng.IntN(256)))
	default:
		b = append(b, byte(g.ser), 0xaa, byte(g.rng.IntN(3)))
	}
	if g.mal && g.rng.IntN(4) == 0 || g.rng.IntN(50) == 0 {
		switch g.rng.IntN(5) {
		case 0:
			return "-"
		case 1:
			return hx.Hex(b[:2])
		case 2:
			if len(b) >= 34 {
				return hx.Hex(b[:34]) // one byte short of the key's end
			}
		case 3:
			if len(b) > 35 {
				return hx.Hex(b[:35]) // exactly up to the key's end
			}
		}
	}
	return hx.Hex(b)
}

func (g *gen) state() string {
	r := g.rng.IntN(100)
	switch {
	case r < 28:
		return "1"
	case r < 56:
		return "3"
	case r < 84:
		return "2"
	}
	return hx.Pick(g.rng, []string{"0", "4", "-1", "255", "256", "42"})
}

// signer set for a request of node `key`; needNode: the method checks the node's witness
func (g *gen) sig(key string, needNode bool) string {
	_, isPool := g.w.byKey[key]
	other := hx.Hex(hx.Pick(g.rng, g.w.nodeKey))
	r := g.rng.IntN(100)
	with := func(parts ...string) string {
		var out []string
		for _, p := range parts {
			if p == "" {
				continue
			}
			if _, ok := g.w.byKey[p]; !ok && p != "alpha" && p != "cmt" {
				continue
			}
			dup := false
			for _, o := range out {
				dup = dup || o == p
			}
			if !dup {
				out = append(out, p)
			}
		}
		if len(out) == 0 {
			return "-"
		}
		return strings.Join(out, ",")
	}
	if !isPool {
		key = ""
	}
	if needNode {
		switch {
		case r < 72:
			return with(key, "alpha")
		case r < 78:
			return with(key)
		case r < 84:
			return with("alpha")
		case r < 90:
			return with(other, "alpha")
		case r < 94:
			return with(key, "cmt")
		case r < 97:
			return with(key, other, "alpha")
		}
		return "-"
	}
	switch {
	case r < 82:
		return with("alpha")
	case r < 86:
		return with(key)
	case r < 90:
		return with("cmt")
	case r < 94:
		return with(key, "alpha")
	case r < 97:
		return with("cmt", "alpha")
	}
	return "-"
}

func (g *gen) bytesList() string {
	n := g.rng.IntN(3)
	if n == 0 {
		return "-"
	}
	var s []string
	for i := 0; i < n; i++ {
		s = append(s, hx.Hex([]byte{byte('a' + g.rng.IntN(26)), byte('0' + g.rng.IntN(10))}[:1+g.rng.IntN(2)]))
	}
	return strings.Join(s, ",")
}

func (g *gen) attrs() string {
	n := g.rng.IntN(3)
	if n == 0 {
		return "-"
	}
	var s []string
	used := map[string]bool{}
	for i := 0; i < n; i++ {
		k := hx.Hex([]byte{byte('A' + g.rng.IntN(26))})
		if used[k] {
			continue
		}
		used[k] = true
		s = append(s, k+"="+hx.Hex([]byte{byte('0' + g.rng.IntN(10)), byte(g.rng.IntN(256))}[:1+g.rng.IntN(2)]))
	}
	return strings.Join(s, ",")
}

func (g *gen) epochArg() string {
	cur := g.w.spEpoch
	if !g.w.wf {
		cur = g.w.prev.apiEpoch
	}
	add := func(d int64) string { return new(big.Int).Add(cur, big.NewInt(d)).String() }
	r := g.rng.IntN(100)
	switch {
	case r < 55:
		return add(1)
	case r < 63:
		return cur.String()
	case r < 69:
		return add(-1)
	case r < 75:
		return add(2)
	case r < 79:
		return add(int64(3 + g.rng.IntN(9))) // around the snapshot count
	case r < 82:
		return add(int64(10 + g.rng.IntN(3)))
	case r < 85:
		return "0"
	case r < 87:
		return "-1"
	case r < 89:
		return fmt.Sprint(g.rng.IntN(14))
	}
	if g.big {
		return hx.Pick(g.rng, []string{"2147483647", "2147483648", "4294967295", "4294967296", "4294967297",
			new(big.Int).Add(cur, big.NewInt(1<<32)).String(), new(big.Int).Add(cur, big.NewInt(1<<32+1)).String(),
			"18446744073709551617", add(1), add(1)})
	}
	if g.rng.IntN(3) == 0 {
		return hx.Pick(g.rng, []string{"127", "128", "129", "255", "256", "257", "65535", "65536"})
	}
	return add(1)
}

func (g *gen) subTarget() string {
	w := g.w
	r := g.rng.IntN(100)
	switch {
	case r < 70:
		return hx.Hex(hx.Pick(g.rng, w.probes).BytesBE())
	case r < 78 && len(w.real) > 0:
		return hx.Hex(hx.Pick(g.rng, w.real).BytesBE())
	case r < 88:
		return hx.Hex(hx.Pick(g.rng, w.noMeth).BytesBE())
	case r < 89:
		return hx.Hex(w.nm.BytesBE()) // the Netmap contract itself has newEpoch/1 and will refuse the nested call
	case r < 95:
		return strings.Repeat("ab", 20) // not a contract
	case r < 97:
		return strings.Repeat("cd", 19)
	case r < 99:
		return strings.Repeat("ef", 21)
	}
	return "-"
}

func (g *gen) next() string {
	w := g.w
	r := g.rng.IntN(100)
	switch {
	case r < 10:
		b := g.blob()
		k := ""
		if bb := hx.UnHex(b); len(bb) >= 35 {
			k = hx.Hex(bb[2:35])
		}
		return fmt.Sprintf("op . h=0 %s addPeer %s", g.sig(k, true), b)
	case r < 20:
		b := g.blob()
		k := ""
		if bb := hx.UnHex(b); len(bb) >= 35 {
			k = hx.Hex(bb[2:35])
		}
		return fmt.Sprintf("op . h=0 %s addPeerIR %s", g.sig(k, false), b)
	case r < 36:
		k := g.key()
		st := "1"
		if g.mal && g.rng.IntN(4) == 0 || g.rng.IntN(25) == 0 {
			st = g.state()
		}
		return fmt.Sprintf("op . h=0 %s addNode %s %s %s %s", g.sig(k, true), k, st, g.bytesList(), g.attrs())
	case r < 48:
		k := g.key()
		return fmt.Sprintf("op . h=0 %s updateState %s %s", g.sig(k, true), g.state(), k)
	case r < 58:
		k := g.key()
		return fmt.Sprintf("op . h=0 %s updateStateIR %s %s", g.sig(k, false), g.state(), k)
	case r < 64:
		k := g.key()
		return fmt.Sprintf("op . h=0 %s deleteNode %s", g.sig(k, false), k)
	case r < 74:
		sig := "alpha"
		if g.rng.IntN(10) == 0 {
			sig = hx.Pick(g.rng, []string{"-", "cmt", hx.Hex(w.nodeKey[0])})
		}
		return fmt.Sprintf("op . h=0 %s subscribe %s", sig, g.subTarget())
	case r < 78:
		on := "1"
		if g.rng.IntN(3) > 0 {
			on = "0"
		}
		return fmt.Sprintf("op . h=0 - setrej %s %s", hx.Hex(hx.Pick(g.rng, w.probes).BytesBE()), on)
	case r < 79:
		// updateSnapshotCount with the values the contract refuses (0 was accepted before the repair of F3)
		sig := "alpha"
		n := hx.Pick(g.rng, []string{"0", "0", "-1", w.prev.count.String()})
		if g.rng.IntN(6) == 0 {
			sig, n = "-", "5"
		}
		return fmt.Sprintf("op . h=0 %s setcount %s", sig, n)
	default:
		sig := "alpha"
		if g.rng.IntN(9) == 0 {
			sig = hx.Pick(g.rng, []string{"-", "cmt", hx.Hex(w.nodeKey[1]), "cmt," + hx.Hex(w.nodeKey[2])})
		}
		return fmt.Sprintf("op . h=0 %s tick %s", sig, g.epochArg())
	}
}

// ---------------------------------------------------------------- driver of the run

// caseID carries the parameters of the world in the case id itself ("name@n=4,real,np=4"), because replay files
// written by the check keep the id but not the attributes of the case line.
func caseID(name string, n int, real bool, np int, cnt ...int) string {
	id := fmt.Sprintf("%s@n=%d", name, n)
	if len(cnt) > 0 && cnt[0] != 0 {
		id += fmt.Sprintf(",count=%d", cnt[0])
	}
	if real {
		id += ",real"
	}
	if np != nProbes {
		id += fmt.Sprintf(",np=%d", np)
	}
	return id
}

func parseCase(l string) (id string, attrs []string, n int, real bool, wf bool, np int, cnt int) {
	f := strings.Fields(l)
	id, attrs = f[1], f[2:]
	n, np = 1, nProbes
	if i := strings.IndexByte(id, '@'); i >= 0 {
		for _, a := range strings.Split(id[i+1:], ",") {
			switch {
			case strings.HasPrefix(a, "n="):
				fmt.Sscanf(a, "n=%d", &n)
			case strings.HasPrefix(a, "np="):
				fmt.Sscanf(a, "np=%d", &np)
			case strings.HasPrefix(a, "count="):
				fmt.Sscanf(a, "count=%d", &cnt)
			case a == "real":
				real = true
			}
		}
	}
	wf = len(attrs) > 0 && attrs[0] == "wf"
	return
}

func TestRun(t *testing.T) {
	run := hx.Open(t)
	defer run.Close()
	if run.Mode == "replay" {
		var w *world
		var pending []string
		flush := func() {
			if len(pending) == 0 {
				return
			}
			w.execBlock(pending)
			pending = nil
		}
		for _, l := range run.ReplayLines() {
			if strings.HasPrefix(l, "case ") {
				if w != nil {
					flush()
				}
				id, attrs, n, real, wf, np, cnt := parseCase(l)
				w = newWorld(t, run, n, real, np, cnt)
				w.wf = wf
				kind := "nonwf"
				if len(attrs) > 0 {
					kind = attrs[0]
				}
				// contract hashes are a function of the sources: the attributes are recomputed, hashes in the
				// op lines of a stored replay stay valid as long as the probes and the contracts are unchanged
				run.Case(id, w.caseAttrs(kind)...)
				continue
			}
			if w == nil {
				t.Fatal("op before case")
			}
			l = w.substitute(l)
			pending = append(pending, l)
			if strings.Fields(l)[1] != "+" {
				flush()
			}
		}
		if w != nil {
			flush()
		}
		return
	}
	cases, nops := 16, 90
	if run.Tier == "thorough" {
		cases, nops = 90, 170
	}
	for ci := 0; ci < cases; ci++ {
		rng := run.Rand(ci)
		n := []int{1, 4, 7, 1}[ci%4]
		real := ci%4 == 1 || ci%8 == 3
		w := newWorld(t, run, n, real, nProbes, 0)
		g := &gen{w: w, rng: rng, mal: ci%5 == 4, big: ci%8 == 6}
		w.wf = !g.big
		kind := "wf"
		if !w.wf {
			kind = "nonwf"
		}
		run.Case(caseID(fmt.Sprintf("s%d.%d.%d", run.Seed, run.Shard, ci), n, real, nProbes), w.caseAttrs(kind)...)
		var first []string
		for i := 0; i < nops; {
			k := 1
			if rng.IntN(7) == 0 {
				k = 2 + rng.IntN(2)
			}
			var lines []string
			for j := 0; j < k; j++ {
				lines = append(lines, g.next())
			}
			st, obs := w.execBlock(lines)
			for j := range st {
				if len(first) < 8 {
					o := obs[j]
					if len(o) > 300 {
						o = o[:300] + "…"
					}
					first = append(first, st[j]+"  =>  "+o)
				}
			}
			i += k
		}
		run.Sample(strings.Join(first, "\n"))
	}
	// directed long cases: cross the wrap of the snapshot ring while both candidate sets go from non-empty to
	// empty and back (every tick alone in its block, so the monitor judges both publications at every tick)
	rings := 4
	if run.Tier == "thorough" {
		rings = 10
	}
	for ri := 0; ri < rings; ri++ {
		rng := run.Rand(1000 + ri)
		n := []int{1, 7, 4, 1}[ri%4]
		real := ri%4 == 2
		w := newWorld(t, run, n, real, nProbes, 0)
		w.wf = true
		g := &gen{w: w, rng: rng}
		run.Case(caseID(fmt.Sprintf("s%d.%d.r%d", run.Seed, run.Shard, ri), n, real, nProbes), w.caseAttrs("wf")...)
		g.ringCase()
	}
	// directed resized-ring cases (both tiers): the snapshot count is changed once on the fresh deployment, then
	// candidates in both lists and ticks that walk over and jump into the epochs around 128 and 256, where the
	// one-byte / two-byte encodings of e and of e - count change shape
	for ki, k := range []int{1, 2, 255, 256} {
		rng := run.Rand(2000 + ki)
		n := []int{1, 4, 1, 7}[(ki+int(run.Seed))%4]
		w := newWorld(t, run, n, false, nProbes, k)
		w.wf = true
		g := &gen{w: w, rng: rng}
		run.Case(caseID(fmt.Sprintf("s%d.%d.k%d", run.Seed, run.Shard, k), n, false, nProbes, k), w.caseAttrs("wf")...)
		g.countCase()
	}
}

// countCase: a refused call first (shows the resized deployment as it is), candidates in both lists, then ticks
// 126..130 and 254..258, one stretch walked epoch by epoch, the other entered by jumps; every tick alone in its block.
func (g *gen) countCase() {
	w := g.w
	g.one("op . h=0 - tick 1")
	if g.rng.IntN(2) == 0 {
		g.one(fmt.Sprintf("op . h=0 alpha subscribe %s", hx.Hex(w.probes[0].BytesBE())))
	}
	g.addSome(2)
	tick := func(e int) { g.one(fmt.Sprintf("op . h=0 alpha tick %d", e)) }
	stretch := func(lo int, walk bool) {
		if walk {
			for e := lo; e <= lo+4; e++ {
				tick(e)
			}
			return
		}
		// jumps: into the stretch, inside it and out of it
		es := [][]int{{lo + 2, lo + 4}, {lo + 1, lo + 3}, {lo, lo + 2, lo + 3}, {lo + 2, lo + 3, lo + 4}}[g.rng.IntN(4)]
		for _, e := range es {
			tick(e)
		}
	}
	walkFirst := g.rng.IntN(2) == 0
	stretch(126, walkFirst)
	if g.rng.IntN(2) == 0 {
		// change the candidate sets between the stretches
		g.removeAll(g.rng.IntN(2) == 0, true)
		g.addSome(1)
	}
	stretch(254, !walkFirst)
}

// ---------------------------------------------------------------- directed ring-wrap cases

func (g *gen) one(line string) {
	g.w.execBlock([]string{line})
	g.w.run.Count("ring.ops")
}

// presentKeys: keys that currently sit in the legacy list, the structured list or both (from the last observation)
func (g *gen) presentKeys() (legacy, structured []string) {
	for _, c := range g.w.prev.cands {
		legacy = append(legacy, hx.Hex(c.k))
	}
	for _, c := range g.w.prev.cands2 {
		structured = append(structured, hx.Hex(c.k))
	}
	return
}

func (g *gen) tickOK() {
	d := int64(1)
	switch g.rng.IntN(6) {
	case 0:
		d = 2
	case 1:
		d = int64(2 + g.rng.IntN(12)) // a jump counts as one step of the ring
	}
	g.one(fmt.Sprintf("op . h=0 alpha tick %s", new(big.Int).Add(g.w.spEpoch, big.NewInt(d))))
}

func (g *gen) addSome(min int) {
	w := g.w
	// the parity pair is always among the chosen keys
	idx := []int{0, nNodes}
	for _, i := range g.rng.Perm(nNodes - 1) {
		if len(idx) < min || g.rng.IntN(3) == 0 {
			idx = append(idx, i+1)
		}
	}
	for _, i := range idx {
		k := hx.Hex(w.nodeKey[i])
		mode := g.rng.IntN(5) // 0,1: both lists  2: legacy  3: structured  4: structured, then maintenance
		if mode <= 2 {
			g.ser++
			b := append([]byte{byte(g.ser), 0}, w.nodeKey[i]...)
			b = append(b, byte(g.ser))
			if g.rng.IntN(2) == 0 {
				g.one(fmt.Sprintf("op . h=0 %s,alpha addPeer %s", k, hx.Hex(b)))
			} else {
				g.one(fmt.Sprintf("op . h=0 alpha addPeerIR %s", hx.Hex(b)))
			}
		}
		if mode != 2 {
			g.one(fmt.Sprintf("op . h=0 %s,alpha addNode %s 1 %s %s", k, k, g.bytesList(), g.attrs()))
		}
		if mode == 4 {
			g.one(fmt.Sprintf("op . h=0 alpha updateStateIR 3 %s", k))
		}
	}
}

// removeAll empties the chosen candidate lists with every removing method
func (g *gen) removeAll(legacyToo, structuredToo bool) {
	l, s2 := g.presentKeys()
	seen := map[string]bool{}
	var ks []string
	if legacyToo {
		ks = append(ks, l...)
	}
	if structuredToo {
		ks = append(ks, s2...)
	}
	for _, k := range ks {
		if seen[k] {
			continue
		}
		seen[k] = true
		switch g.rng.IntN(3) {
		case 0:
			g.one(fmt.Sprintf("op . h=0 alpha deleteNode %s", k))
		case 1:
			g.one(fmt.Sprintf("op . h=0 alpha updateStateIR 2 %s", k))
		default:
			g.one(fmt.Sprintf("op . h=0 %s,alpha updateState 2 %s", k, k))
		}
	}
}

func (g *gen) noise() {
	switch g.rng.IntN(8) {
	case 0:
		g.one(fmt.Sprintf("op . h=0 alpha tick %s", g.w.spEpoch)) // equal epoch: refused
	case 1:
		g.one(fmt.Sprintf("op . h=0 alpha updateStateIR 3 %s", hx.Hex(hx.Pick(g.rng, g.w.nodeKey))))
	case 2:
		g.one(fmt.Sprintf("op . h=0 - tick %s", new(big.Int).Add(g.w.spEpoch, big.NewInt(1))))
	}
}

func (g *gen) ringCase() {
	w := g.w
	for i, ns := 0, g.rng.IntN(3); i < ns; i++ {
		g.one(fmt.Sprintf("op . h=0 alpha subscribe %s", hx.Hex(w.probes[i].BytesBE())))
	}
	// a few ticks on the deployed (empty) ring first, so that the wrap position differs between cases
	for i := g.rng.IntN(4); i > 0; i-- {
		g.tickOK()
	}
	rounds := 1 + g.rng.IntN(2)
	for r := 0; r < rounds; r++ {
		g.addSome(2)
		for i := 1 + g.rng.IntN(2); i > 0; i-- {
			g.tickOK() // non-empty maps go into one or two ring slots
		}
		switch g.rng.IntN(4) {
		case 0:
			g.removeAll(true, false) // only the legacy list is emptied
		case 1:
			g.removeAll(false, true)
		default:
			g.removeAll(true, true)
		}
		// keep ticking until the ring index has passed the slots that held the non-empty maps
		for i := int(w.prev.count.Int64()) + 1 + g.rng.IntN(3); i > 0; i-- {
			g.tickOK()
			g.noise()
		}
		if g.rng.IntN(2) == 0 {
			// re-add after the wrap, publish, empty again
			g.addSome(1)
			g.tickOK()
			g.removeAll(true, true)
			g.tickOK()
		}
	}
}

// substitute replaces symbolic names in corpus files: $N<i> = public key of pool node i, $P<i> = probe i,
// $BAL/$CNR = real Balance/Container, $NM = the Netmap contract, $NOM<i> = contracts without newEpoch/1,
// $BLOB<i>.<tag> = a 37-byte node info of pool node i. Node 5 is the parity partner of node 0 (same X, 02↔03).
func (w *world) substitute(l string) string {
	if !strings.Contains(l, "$") {
		return l
	}
	for i := len(w.nodeKey) - 1; i >= 0; i-- {
		for tag := 0; tag < 4; tag++ {
			b := append([]byte{byte(tag), 0}, w.nodeKey[i]...)
			b = append(b, byte(tag), 0xaa)
			l = strings.ReplaceAll(l, fmt.Sprintf("$BLOB%d.%d", i, tag), hx.Hex(b))
		}
		l = strings.ReplaceAll(l, fmt.Sprintf("$N%d", i), hx.Hex(w.nodeKey[i]))
	}
	for i := len(w.probes) - 1; i >= 0; i-- {
		l = strings.ReplaceAll(l, fmt.Sprintf("$P%d", i), hx.Hex(w.probes[i].BytesBE()))
	}
	for i := len(w.noMeth) - 1; i >= 0; i-- {
		l = strings.ReplaceAll(l, fmt.Sprintf("$NOM%d", i), hx.Hex(w.noMeth[i].BytesBE()))
	}
	if len(w.real) == 2 {
		l = strings.ReplaceAll(l, "$BAL", hx.Hex(w.real[0].BytesBE()))
		l = strings.ReplaceAll(l, "$CNR", hx.Hex(w.real[1].BytesBE()))
	}
	l = strings.ReplaceAll(l, "$NM", hx.Hex(w.nm.BytesBE()))
	return l
}
