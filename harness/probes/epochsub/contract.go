// Package epochsub is a probe contract: a NewEpoch subscriber that records every newEpoch(e)
// call in its own storage, announces it with a notification (the notifications of one
// transaction are globally ordered, which yields the fan-out call log) and can be told to reject.
package epochsub

import (
	"github.com/nspcc-dev/neo-go/pkg/interop/iterator"
	"github.com/nspcc-dev/neo-go/pkg/interop/runtime"
	"github.com/nspcc-dev/neo-go/pkg/interop/storage"
)

const (
	rejectKey = "reject"
	countKey  = "n"
	callPref  = "c"
)

// NewEpoch records the call; panics when the probe was told to reject.
func NewEpoch(e int) {
	ctx := storage.GetContext()
	if storage.Get(ctx, rejectKey) != nil {
		panic("probe rejects newEpoch")
	}
	n := 0
	if v := storage.Get(ctx, countKey); v != nil {
		n = v.(int)
	}
	storage.Put(ctx, countKey, n+1)
	storage.Put(ctx, append([]byte(callPref), byte(n%256), byte(n/256)), e)
	runtime.Notify("EpochCall", e)
}

// SetReject switches the rejecting mode.
func SetReject(on bool) {
	ctx := storage.GetContext()
	if on {
		storage.Put(ctx, rejectKey, 1)
	} else {
		storage.Delete(ctx, rejectKey)
	}
}

// Calls returns the number of recorded calls and the epoch of the last one.
func Calls() []int {
	ctx := storage.GetReadOnlyContext()
	n := 0
	if v := storage.Get(ctx, countKey); v != nil {
		n = v.(int)
	}
	last := -1
	it := storage.Find(ctx, []byte(callPref), storage.ValuesOnly)
	for iterator.Next(it) {
		last = iterator.Value(it).(int)
	}
	return []int{n, last}
}
