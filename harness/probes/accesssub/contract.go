// Package accesssub is a probe contract with the `newEpoch(epoch)` method the Netmap contract requires of
// a NewEpoch subscriber; it records nothing (C03: netmap.subscribeForNewEpoch needs something to subscribe).
package accesssub

// NewEpoch is the callback invoked by netmap.newEpoch for every subscriber.
func NewEpoch(epoch int) {}
