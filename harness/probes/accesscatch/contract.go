// Package accesscatch is a probe contract: it forwards a call inside a recover block, so that an exception
// thrown by the callee does not FAULT the transaction (C03: a witness check placed after an effect is inert
// only if the VM discards the callee's changes when the caller catches the exception).
package accesscatch

import (
	"github.com/nspcc-dev/neo-go/pkg/interop"
	"github.com/nspcc-dev/neo-go/pkg/interop/contract"
)

// TryCall forwards the call with all call flags; answers false when the callee threw.
func TryCall(h interop.Hash160, method string, args []any) (ok bool) {
	defer func() {
		if r := recover(); r != nil {
			ok = false
		}
	}()
	contract.Call(h, method, contract.All, args...)
	return true
}
