// Package epochsub2 is a probe contract whose newEpoch method takes TWO parameters, so that
// management.HasMethod(h, "newEpoch", 1) is false although a method of that name exists.
package epochsub2

// NewEpoch has the wrong arity for a NewEpoch subscriber.
func NewEpoch(e int, extra int) {}
