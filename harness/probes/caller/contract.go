// Package caller is a probe contract: it forwards a call so that the callee sees
// this contract as the calling script hash (contracts as token holders / callers).
package caller

import (
	"github.com/nspcc-dev/neo-go/pkg/interop"
	"github.com/nspcc-dev/neo-go/pkg/interop/contract"
)

// Call forwards the call with all call flags.
func Call(h interop.Hash160, method string, args []any) any {
	return contract.Call(h, method, contract.All, args...)
}

// OnNEP17Payment accepts any token.
func OnNEP17Payment(from interop.Hash160, amount int, data any) {}

// OnNEP11Payment accepts any token.
func OnNEP11Payment(from interop.Hash160, amount int, tokenID []byte, data any) {}
