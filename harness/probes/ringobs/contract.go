// Package ringobs is a probe contract for the C08 harness: it evaluates a batch of read-API calls of
// the Netmap contract in one invocation. A call that throws is reported as Null (the read methods
// never return Null themselves); iterators are drained into arrays.
package ringobs

import (
	"github.com/nspcc-dev/neo-go/pkg/interop"
	"github.com/nspcc-dev/neo-go/pkg/interop/contract"
	"github.com/nspcc-dev/neo-go/pkg/interop/iterator"
)

// Ints calls method(x) for every x and returns the results in order (Null = the call threw).
func Ints(nm interop.Hash160, method string, xs []int) []any {
	out := []any{}
	for _, x := range xs {
		out = append(out, one(nm, method, x))
	}
	return out
}

func one(nm interop.Hash160, method string, x int) (r any) {
	defer func() {
		if e := recover(); e != nil {
			r = nil
		}
	}()
	r = contract.Call(nm, method, contract.ReadOnly, x)
	return r
}

// Observe evaluates the whole read API in one invocation: snapshot(d) for ds, snapshotByEpoch(e) and
// listNodes(e) for es, then netmap() and epoch().
func Observe(nm interop.Hash160, ds []int, es []int) []any {
	out := []any{}
	for _, d := range ds {
		out = append(out, one(nm, "snapshot", d))
	}
	for _, e := range es {
		out = append(out, one(nm, "snapshotByEpoch", e))
	}
	for _, e := range es {
		out = append(out, list(nm, "listNodes", e))
	}
	out = append(out, zero(nm, "netmap"))
	out = append(out, zero(nm, "epoch"))
	return out
}

func zero(nm interop.Hash160, method string) (r any) {
	defer func() {
		if e := recover(); e != nil {
			r = nil
		}
	}()
	r = contract.Call(nm, method, contract.ReadOnly)
	return r
}

// Lists calls the iterator-returning method(x) for every x and drains each iterator.
func Lists(nm interop.Hash160, method string, xs []int) []any {
	out := []any{}
	for _, x := range xs {
		out = append(out, list(nm, method, x))
	}
	return out
}

func list(nm interop.Hash160, method string, x int) (r any) {
	defer func() {
		if e := recover(); e != nil {
			r = nil
		}
	}()
	it := contract.Call(nm, method, contract.ReadOnly, x).(iterator.Iterator)
	res := []any{}
	for iterator.Next(it) {
		res = append(res, iterator.Value(it))
	}
	r = res
	return r
}
