// Correspondence harness for the Balance contract (C01, C02, C09): executes operation lines on the
// contract compiled from the repository under test, prints canonical observations for the diff with
// the Lean model, and runs the property monitors on the implementation's own observations.
package balance

import (
	"fmt"
	"math/big"
	"math/rand/v2"
	"path/filepath"
	"runtime"
	"sort"
	"strings"
	"testing"

	"github.com/nspcc-dev/neo-go/pkg/neotest"
	"github.com/nspcc-dev/neo-go/pkg/util"
	"github.com/nspcc-dev/neo-go/pkg/vm/stackitem"

	"verifharness/chainx"
	"verifharness/hx"
)

const nUsers = 5

type acct struct {
	bal    *big.Int
	till   *big.Int
	parent []byte
}

type world struct {
	c         *chainx.Chain
	bal       util.Uint160
	probe     util.Uint160
	users     map[string]neotest.SingleSigner // hex(script hash) -> signer
	uhash     []util.Uint160
	run       *hx.Run
	n         int
	special   []util.Uint160 // contract addresses used as holders: the Balance contract itself, Netmap
	wf        bool           // case stays inside the properties' quantifier: monitors are active
	prev      map[string]acct
	supply    *big.Int
	nlock     int
	zeroAddrs []string // keyless addresses that received a zero-amount transfer (candidates for "existing empty record" lock targets)
	// C09 spec state: lock account -> (parent, until)
	locks map[string]lockSpec
}

type lockSpec struct {
	parent string
	until  *big.Int
}

func thisDir() string {
	_, f, _, _ := runtime.Caller(0)
	return filepath.Dir(f)
}

func newWorld(t testing.TB, run *hx.Run, n int) *world {
	c := chainx.New(t, n)
	c.DeployNNS()
	nm := c.Compile("netmap")
	c.Deploy(nm, []any{false, util.Uint160{}, util.Uint160{}, []any{c.Members[0].Account().PublicKey().Bytes()}, []any{}})
	c.RegisterNNS("netmap", nm.Hash)
	b := c.Compile("balance")
	c.Deploy(b, []any{false, util.Uint160{}, util.Uint160{}})
	c.RegisterNNS("balance", b.Hash)
	pr := c.CompileDir(filepath.Join(thisDir(), "..", "probes", "caller"))
	c.Deploy(pr, nil)
	w := &world{c: c, n: n, bal: b.Hash, probe: pr.Hash, special: []util.Uint160{b.Hash, nm.Hash}, users: map[string]neotest.SingleSigner{}, run: run,
		prev: map[string]acct{}, supply: new(big.Int), locks: map[string]lockSpec{}}
	for i := 0; i < nUsers; i++ {
		u := c.User(fmt.Sprintf("U%d", i))
		w.users[hx.Hex(u.ScriptHash().BytesBE())] = u
		w.uhash = append(w.uhash, u.ScriptHash())
	}
	return w
}

// scan decodes all account records and the supply from raw storage.
func (w *world) scan() (map[string]acct, *big.Int) {
	m := map[string]acct{}
	sup := new(big.Int)
	for _, kv := range w.c.Scan(w.bal) {
		if kv.K[0] == 'a' {
			it, err := stackitem.Deserialize(kv.V)
			if err != nil {
				w.run.T.Fatalf("bad account record %x", kv.V)
			}
			f := it.Value().([]stackitem.Item)
			b, _ := f[0].TryInteger()
			u, _ := f[1].TryInteger()
			var p []byte
			if _, isNull := f[2].(stackitem.Null); !isNull {
				p, _ = f[2].TryBytes()
			}
			m[hx.Hex(kv.K[1:])] = acct{b, u, p}
		} else if string(kv.K) == "MainnetGAS" {
			sup = new(big.Int).Set(bytesToInt(kv.V))
		}
	}
	return m, sup
}

func bytesToInt(b []byte) *big.Int {
	it := stackitem.NewByteArray(b)
	z, err := it.TryInteger()
	if err != nil {
		panic(err)
	}
	return z
}

func itemBytes(it stackitem.Item) []byte {
	if _, ok := it.(stackitem.Null); ok {
		return nil
	}
	b, err := it.TryBytes()
	if err != nil {
		panic(err)
	}
	return b
}

func itemInt(it stackitem.Item) *big.Int {
	z, err := it.TryInteger()
	if err != nil {
		panic(err)
	}
	return z
}

type event struct {
	name     string
	from, to []byte
	amt      *big.Int
	details  []byte
	str      string
}

func hashArg(b []byte) any {
	if b == nil {
		return nil
	}
	return b
}

// execOp executes one "op ..." line and returns the observation line.
func (w *world) execOp(line string) string {
	ws := strings.Fields(line)
	if len(ws) < 4 || ws[0] != "op" {
		w.run.T.Fatalf("bad op line %q", line)
	}
	sig, caller, method, args := ws[1], ws[2], ws[3], ws[4:]
	var signers []neotest.Signer
	if sig == "alpha" {
		signers = append(signers, w.c.Alpha)
	} else if sig == "cmt" {
		signers = append(signers, w.c.Cmt) // committee majority n/2+1: NOT the Alphabet account when n >= 3
	} else if sig != "-" {
		for _, h := range strings.Split(sig, ",") {
			u, ok := w.users[h]
			if !ok {
				w.run.T.Fatalf("unknown signer %s", h)
			}
			signers = append(signers, u)
		}
	}
	var cargs []any
	var name string
	switch method {
	case "transfer":
		name = "transfer"
		cargs = []any{hashArg(hx.UnHex(args[0])), hashArg(hx.UnHex(args[1])), hx.Big(args[2]), nil}
	case "transferX":
		name = "transferX"
		cargs = []any{hashArg(hx.UnHex(args[0])), hashArg(hx.UnHex(args[1])), hx.Big(args[2]), hx.UnHex(args[3])}
	case "mint":
		name = "mint"
		cargs = []any{hashArg(hx.UnHex(args[0])), hx.Big(args[1]), hx.UnHex(args[2])}
	case "burn":
		name = "burn"
		cargs = []any{hashArg(hx.UnHex(args[0])), hx.Big(args[1]), hx.UnHex(args[2])}
	case "lock":
		name = "lock"
		cargs = []any{hx.UnHex(args[0]), hashArg(hx.UnHex(args[1])), hashArg(hx.UnHex(args[2])), hx.Big(args[3]), hx.Big(args[4])}
	case "tick":
		name = "newEpoch"
		cargs = []any{hx.Big(args[0])}
	case "nmtick": // the tick as the Inner Ring delivers it: Netmap.newEpoch fans out to its subscribers
		name = "newEpoch"
		cargs = []any{hx.Big(args[0])}
	default:
		w.run.T.Fatalf("bad method %q", method)
	}
	for i, a := range cargs {
		if b, ok := a.([]byte); ok && b == nil {
			cargs[i] = []byte{}
		}
	}
	var res chainx.Result
	if method == "nmtick" {
		res = w.c.Invoke(signers, w.special[1], name, cargs...)
		method = "tick" // judged like a direct tick by the monitors
	} else if caller == "-" {
		res = w.c.Invoke(signers, w.bal, name, cargs...)
	} else {
		if caller != hx.Hex(w.probe.BytesBE()) {
			w.run.T.Fatalf("unknown caller %s", caller)
		}
		res = w.c.Invoke(signers, w.probe, "call", w.bal, name, cargs)
	}
	w.run.Count("op." + method)
	// canonical observation
	var sb strings.Builder
	var evs []event
	if !res.Halt {
		sb.WriteString("FAULT")
		w.run.Count("out.fault")
	} else {
		ret := "null"
		if len(res.Stack) == 1 {
			if _, isNull := res.Stack[0].(stackitem.Null); !isNull {
				b, err := res.Stack[0].TryBool()
				if err != nil {
					ret = "?"
				} else if b {
					ret = "true"
				} else {
					ret = "false"
				}
			}
		}
		w.run.Count("out.halt." + ret)
		var es []string
		for _, e := range res.Events {
			if e.ScriptHash != w.bal {
				continue
			}
			it := e.Item.Value().([]stackitem.Item)
			var ev event
			ev.name = e.Name
			switch e.Name {
			case "Transfer":
				ev.from, ev.to, ev.amt = itemBytes(it[0]), itemBytes(it[1]), itemInt(it[2])
				ev.str = fmt.Sprintf("Transfer(%s,%s,%s)", hx.Hex(ev.from), hx.Hex(ev.to), ev.amt)
			case "TransferX":
				ev.from, ev.to, ev.amt, ev.details = itemBytes(it[0]), itemBytes(it[1]), itemInt(it[2]), itemBytes(it[3])
				ev.str = fmt.Sprintf("TransferX(%s,%s,%s,%s)", hx.Hex(ev.from), hx.Hex(ev.to), ev.amt, hx.Hex(ev.details))
			case "Lock":
				ev.str = fmt.Sprintf("Lock(%s,%s,%s,%s,%s)", hx.Hex(itemBytes(it[0])), hx.Hex(itemBytes(it[1])), hx.Hex(itemBytes(it[2])), itemInt(it[3]), itemInt(it[4]))
			default:
				ev.str = "?" + e.Name
			}
			evs = append(evs, ev)
			es = append(es, ev.str)
		}
		fmt.Fprintf(&sb, "HALT ret=%s ev=[%s]", ret, strings.Join(es, ";"))
	}
	cur, sup := w.scan()
	keys := hx.SortedKeys(cur)
	// sort like the model: lexicographic on bytes == lexicographic on lower-case hex of equal... not for
	// different lengths ("-" never occurs as key since the prefix is stripped only for non-empty), so sort on bytes.
	sort.Slice(keys, func(i, j int) bool { return string(hx.UnHex(keys[i])) < string(hx.UnHex(keys[j])) })
	var items []string
	for _, k := range keys {
		a := cur[k]
		// an empty record (balance 0, no lock) reads exactly like a missing one through every API of the contract: whether the
		// contract keeps or drops it is not observable, so neither side prints it
		if a.bal.Sign() == 0 && a.till.Sign() == 0 && len(a.parent) == 0 {
			continue
		}
		items = append(items, fmt.Sprintf("%s:%s:%s:%s", k, a.bal, a.till, hx.Hex(a.parent)))
	}
	fmt.Fprintf(&sb, " | supply=%s accts=[%s]", sup, strings.Join(items, ";"))
	// the read API must agree with the raw records (ties totalSupply/balanceOf to the storage view)
	w.checkReadAPI(cur, sup, args)
	if w.wf {
		w.monitor(line, sig, caller, method, args, res, evs, cur, sup)
	}
	w.prev, w.supply = cur, sup
	return sb.String()
}

func (w *world) checkReadAPI(cur map[string]acct, sup *big.Int, args []string) {
	st, err := w.c.Call(w.bal, "totalSupply")
	if err != nil || itemInt(st[0]).Cmp(sup) != 0 {
		w.run.Violation("C01", "balance.totalSupply", "read-api", fmt.Sprintf("totalSupply=%v err=%v stored=%s", st, err, sup))
	}
	probe := map[string]bool{}
	for _, a := range args {
		if len(a) == 40 {
			probe[a] = true
		}
	}
	for k := range probe {
		st, err := w.c.Call(w.bal, "balanceOf", hx.UnHex(k))
		want := new(big.Int)
		if a, ok := cur[k]; ok {
			want = a.bal
		}
		if err != nil || itemInt(st[0]).Cmp(want) != 0 {
			w.run.Violation("C01", "balance.balanceOf", "read-api", fmt.Sprintf("balanceOf(%s)=%v err=%v stored=%s", k, st, err, want))
		}
	}
}

func balOf(m map[string]acct, k string) *big.Int {
	if a, ok := m[k]; ok {
		return a.bal
	}
	return new(big.Int)
}

// monitor: executable form of the C01 / C02 / C09 statements, evaluated on the implementation only.
func (w *world) monitor(line, sig, caller, method string, args []string, res chainx.Result, evs []event, cur map[string]acct, sup *big.Int) {
	v := func(prop, what, detail string) {
		w.run.Violation(prop, "balance."+method, what, detail+" after "+line)
	}
	// C01: sheet
	sum := new(big.Int)
	for k, a := range cur {
		sum.Add(sum, a.bal)
		if a.bal.Sign() < 0 {
			v("C01", "negative-balance", fmt.Sprintf("account %s has balance %s", k, a.bal))
		}
	}
	if sum.Cmp(sup) != 0 {
		v("C01", "supply-mismatch", fmt.Sprintf("totalSupply %s != sum of balances %s", sup, sum))
	}
	halted := res.Halt
	refused := halted && method == "transfer" && len(res.Stack) == 1 && !mustBool(res.Stack[0])
	// C01: supply delta
	wantSup := new(big.Int).Set(w.supply)
	if halted && method == "mint" {
		wantSup.Add(wantSup, hx.Big(args[1]))
	}
	if halted && method == "burn" {
		wantSup.Sub(wantSup, hx.Big(args[1]))
	}
	if wantSup.Cmp(sup) != 0 {
		v("C01", "supply-delta", fmt.Sprintf("supply %s -> %s", w.supply, sup))
	}
	// C01: failed / refused invocations change nothing and announce nothing
	changed := map[string]bool{}
	for k := range cur {
		if balOf(w.prev, k).Cmp(balOf(cur, k)) != 0 {
			changed[k] = true
		}
	}
	for k := range w.prev {
		if balOf(w.prev, k).Cmp(balOf(cur, k)) != 0 {
			changed[k] = true
		}
	}
	if (!halted || refused) && (len(changed) > 0 || len(evs) > 0) {
		v("C01", "failed-call-effect", fmt.Sprintf("failed/refused call changed %v, events %d", hx.SortedKeys(changed), len(evs)))
	}
	// C01: notification replay
	rep := map[string]*big.Int{}
	get := func(k string) *big.Int {
		if z, ok := rep[k]; ok {
			return z
		}
		z := new(big.Int).Set(balOf(w.prev, k))
		rep[k] = z
		return z
	}
	nT, nX := 0, 0
	var lastT event
	for _, e := range evs {
		switch e.name {
		case "Transfer":
			nT++
			lastT = e
			if len(e.from) == 20 {
				get(hx.Hex(e.from)).Sub(get(hx.Hex(e.from)), e.amt)
			}
			if len(e.to) == 20 {
				get(hx.Hex(e.to)).Add(get(hx.Hex(e.to)), e.amt)
			}
		case "TransferX":
			nX++
			if nX != nT || string(e.from) != string(lastT.from) || string(e.to) != string(lastT.to) || e.amt.Cmp(lastT.amt) != 0 {
				v("C01", "event-pairing", "TransferX does not repeat the preceding Transfer: "+e.str)
			}
		}
	}
	if nT != nX {
		v("C01", "event-pairing", fmt.Sprintf("%d Transfer vs %d TransferX", nT, nX))
	}
	for k := range changed {
		get(k)
	}
	for k, z := range rep {
		if z.Cmp(balOf(cur, k)) != 0 {
			v("C01", "event-replay", fmt.Sprintf("replaying notifications gives %s for %s, contract says %s", z, k, balOf(cur, k)))
		}
	}
	// C02: every decrease is authorised
	for k := range changed {
		if balOf(cur, k).Cmp(balOf(w.prev, k)) < 0 {
			ok := sig == "alpha" || caller == k
			for _, s := range strings.Split(sig, ",") {
				if s == k {
					ok = true
				}
			}
			if !ok {
				v("C02", "unauthorised-debit", fmt.Sprintf("balance of %s fell %s -> %s, signers %s caller %s", k, balOf(w.prev, k), balOf(cur, k), sig, caller))
			}
		}
	}
	// C09: lock life cycle
	if halted && method == "lock" && args[1] != args[2] { // locking an account onto itself is not a lock in the property's sense
		w.locks[args[2]] = lockSpec{args[1], hx.Big(args[4])}
		// the lock account carries the owner and the expiry it was created with
		if a, ok := cur[args[2]]; args[1] != args[2] && (!ok || hx.Hex(a.parent) != args[1] || a.till.Cmp(hx.Big(args[4])) != 0) {
			v("C09", "lock-without-owner", fmt.Sprintf("lock account %s does not record owner %s / until %s", args[2], args[1], args[4]))
		}
	}
	if halted && method == "tick" {
		e := hx.Big(args[0])
		credit := map[string]*big.Int{}
		expiring := map[string]bool{}
		for l, sp := range w.locks {
			if sp.until.Cmp(e) <= 0 {
				expiring[l] = true
			}
		}
		for l, sp := range w.locks {
			if _, had := w.prev[l]; !had {
				delete(w.locks, l) // already burnt completely or released
				continue
			}
			if expiring[l] {
				if _, still := cur[l]; still {
					v("C09", "lock-not-released", fmt.Sprintf("lock account %s (until %s) still exists after tick %s", l, sp.until, e))
				}
				if credit[sp.parent] == nil {
					credit[sp.parent] = new(big.Int)
				}
				credit[sp.parent].Add(credit[sp.parent], balOf(w.prev, l))
				delete(w.locks, l)
			} else if balOf(cur, l).Cmp(balOf(w.prev, l)) != 0 {
				v("C09", "early-release", fmt.Sprintf("lock account %s (until %s) changed at tick %s", l, sp.until, e))
			}
		}
		for k := range changed {
			if expiring[k] {
				continue
			}
			want := new(big.Int).Set(balOf(w.prev, k))
			if c := credit[k]; c != nil {
				want.Add(want, c)
			}
			if want.Cmp(balOf(cur, k)) != 0 {
				v("C09", "wrong-refund", fmt.Sprintf("account %s: %s -> %s at tick %s, expected %s", k, balOf(w.prev, k), balOf(cur, k), e, want))
			}
		}
		for p, c := range credit {
			if expiring[p] || c.Sign() == 0 {
				continue
			}
			want := new(big.Int).Add(balOf(w.prev, p), c)
			if want.Cmp(balOf(cur, p)) != 0 {
				v("C09", "wrong-refund", fmt.Sprintf("owner %s: %s -> %s at tick %s, expected %s", p, balOf(w.prev, p), balOf(cur, p), e, want))
			}
		}
	}
	// C09: a burn takes exactly its amount from a lock account ("partial burns reduce what is returned")
	if halted && method == "burn" {
		if _, isLock := w.locks[args[0]]; isLock {
			want := new(big.Int).Sub(balOf(w.prev, args[0]), hx.Big(args[1]))
			if want.Cmp(balOf(cur, args[0])) != 0 {
				v("C09", "burn-wrong-amount", fmt.Sprintf("lock account %s: %s -> %s after burning %s", args[0], balOf(w.prev, args[0]), balOf(cur, args[0]), args[1]))
			}
			if a, ok := cur[args[0]]; ok && want.Sign() > 0 && (len(a.parent) == 0 || a.till.Cmp(w.locks[args[0]].until) != 0) {
				v("C09", "burn-drops-lock", fmt.Sprintf("lock account %s lost its owner/expiry by a partial burn", args[0]))
			}
		}
	}
	// C09: a lock account loses funds only by burn or the releasing tick
	if halted && method == "transfer" {
		for l := range w.locks {
			if balOf(cur, l).Cmp(balOf(w.prev, l)) < 0 {
				v("C09", "lock-drained", fmt.Sprintf("lock account %s lost funds by %s", l, method))
			}
		}
	}
}

func mustBool(it stackitem.Item) bool {
	b, err := it.TryBool()
	return err == nil && b
}

// ---- generator ----

type gen struct {
	w   *world
	rng *rand.Rand
}

func (g *gen) addr20() string { // a user, the probe or an existing/lock account
	r := g.rng.IntN(10)
	switch {
	case r < 5:
		return hx.Hex(hx.Pick(g.rng, g.w.uhash).BytesBE())
	case r < 6:
		return hx.Hex(hx.Pick(g.rng, g.w.special).BytesBE())
	case r < 7:
		return hx.Hex(g.w.probe.BytesBE())
	default:
		ks := hx.SortedKeys(g.w.prev)
		if len(ks) == 0 {
			return hx.Hex(g.w.uhash[0].BytesBE())
		}
		k := hx.Pick(g.rng, ks)
		if len(k) != 40 {
			return hx.Hex(g.w.uhash[0].BytesBE())
		}
		return k
	}
}

// src20: a 20-byte source address; inside the quantifier (wf) the Alphabet never moves funds out of a
// lock account with transferX/lock (C09 speaks of lock/burn/transfer/newEpoch only).
func (g *gen) src20() string {
	for i := 0; i < 20; i++ {
		a := g.addr20()
		if _, isLock := g.w.locks[a]; !isLock || !g.w.wf {
			return a
		}
	}
	return hx.Hex(g.w.uhash[0].BytesBE())
}

func (g *gen) anyAddr() string { // for the public transfer: also malformed lengths
	r := g.rng.IntN(12)
	switch r {
	case 0:
		return "-"
	case 1:
		return "0102"
	case 2:
		return strings.Repeat("ab", 21)
	case 3:
		return strings.Repeat("cd", 19)
	}
	return g.addr20()
}

func (g *gen) amount(of string) string {
	b := balOf(g.w.prev, of)
	one := big.NewInt(1)
	switch g.rng.IntN(14) {
	case 0:
		return "0"
	case 1:
		return "1"
	case 2, 3:
		return b.String()
	case 4:
		return new(big.Int).Add(b, one).String()
	case 5:
		return new(big.Int).Sub(b, one).String()
	case 6:
		return new(big.Int).Rsh(b, 1).String()
	case 7:
		return "-1"
	case 8:
		return new(big.Int).Neg(b).String()
	case 9:
		return new(big.Int).Lsh(one, 63).String()
	case 10:
		return new(big.Int).Lsh(one, 70).String()
	case 11:
		return "-700"
	}
	return fmt.Sprint(g.rng.IntN(2000))
}

func (g *gen) freshLock() string {
	g.w.nlock++
	h := chainx.UserHash(fmt.Sprintf("lock-%d-%d", g.w.run.Seed, g.w.nlock))
	return hx.Hex(h.BytesBE())
}

func (g *gen) details() string {
	return hx.Pick(g.rng, []string{"-", "01", "aabbcc", "00"})
}

func (g *gen) next(epoch *int64) string {
	w := g.w
	r := g.rng.IntN(100)
	switch {
	case r < 18: // mint
		amt := g.amount(g.addr20())
		if g.rng.IntN(2) == 0 {
			amt = fmt.Sprint(1 + g.rng.IntN(5000))
		}
		sig := "alpha"
		if g.rng.IntN(12) == 0 {
			sig = "-"
		}
		return fmt.Sprintf("op %s - mint %s %s %s", sig, g.addr20(), amt, g.details())
	case r < 48: // public transfer with various signers
		if g.rng.IntN(10) == 0 { // leave an empty record at a fresh keyless address
			u := hx.Hex(hx.Pick(g.rng, w.uhash).BytesBE())
			z := g.freshLock()
			w.zeroAddrs = append(w.zeroAddrs, z)
			return fmt.Sprintf("op %s - transfer %s %s 0", u, u, z)
		}
		from := g.anyAddr()
		to := g.anyAddr()
		if g.rng.IntN(8) == 0 {
			to = from
		}
		sig := "-"
		caller := "-"
		switch g.rng.IntN(10) {
		case 0, 1, 2, 3, 4, 5:
			if _, ok := w.users[from]; ok {
				sig = from
			}
		case 6:
			sig = hx.Hex(hx.Pick(g.rng, w.uhash).BytesBE()) // possibly somebody else
		case 7:
			sig = "alpha"
		case 8:
			caller = hx.Hex(w.probe.BytesBE())
			if g.rng.IntN(2) == 0 {
				from = caller
			}
		}
		return fmt.Sprintf("op %s %s transfer %s %s %s", sig, caller, from, to, g.amount(from))
	case r < 58:
		f := g.src20()
		sig := "alpha"
		if g.rng.IntN(6) == 0 {
			sig = f
			if _, ok := w.users[f]; !ok {
				sig = "-"
			}
		}
		return fmt.Sprintf("op %s - transferX %s %s %s %s", sig, f, g.addr20(), g.amount(f), g.details())
	case r < 68:
		f := g.addr20()
		amt := g.amount(f)
		// C09 "partial and full burns": a third of the burns target a live lock account with a partial or the full amount
		if ls := hx.SortedKeys(w.locks); len(ls) > 0 && g.rng.IntN(3) == 0 {
			f = hx.Pick(g.rng, ls)
			b := balOf(w.prev, f)
			switch g.rng.IntN(4) {
			case 0:
				amt = new(big.Int).Rsh(b, 1).String()
			case 1:
				amt = new(big.Int).Sub(b, big.NewInt(1)).String()
			case 2:
				amt = "1"
			default:
				amt = b.String()
			}
		}
		sig := "alpha"
		if g.rng.IntN(8) == 0 {
			sig = "-"
		}
		return fmt.Sprintf("op %s - burn %s %s %s", sig, f, amt, g.details())
	case r < 86:
		f := g.src20()
		to := g.freshLock()
		if !w.wf && g.rng.IntN(3) == 0 {
			to = g.addr20() // outside the quantifier: existing lock target
		} else if g.rng.IntN(6) == 0 {
			// a lock address that already has an (empty, non-lock) record left by somebody's zero-amount transfer
			// (a keyless address, like every lock address): legal, and the lock must still carry its owner and expiry
			var zs []string
			for _, k := range w.zeroAddrs {
				if a, ok := w.prev[k]; ok && a.bal.Sign() == 0 && len(a.parent) == 0 {
					if _, isLock := w.locks[k]; !isLock && k != f {
						zs = append(zs, k)
					}
				}
			}
			if len(zs) > 0 {
				to = hx.Pick(g.rng, zs)
			}
		}
		until := *epoch + int64(g.rng.IntN(5)) - 1
		if g.rng.IntN(6) == 0 {
			until = 0
		}
		sig := "alpha"
		if g.rng.IntN(10) == 0 {
			sig = "-"
		}
		return fmt.Sprintf("op %s - lock %s %s %s %s %d", sig, g.details(), f, to, g.amount(f), until)
	default:
		e := *epoch + 1
		switch g.rng.IntN(8) {
		case 0:
			e = *epoch
		case 1:
			e = *epoch + 3
		case 2:
			e = *epoch - 1
		}
		sig := "alpha"
		if g.rng.IntN(10) == 0 {
			sig = "-"
		}
		if sig == "alpha" && e > *epoch {
			*epoch = e
		}
		if g.rng.IntN(3) == 0 {
			return fmt.Sprintf("op %s - nmtick %d", sig, e)
		}
		return fmt.Sprintf("op %s - tick %d", sig, e)
	}
}

func TestRun(t *testing.T) {
	run := hx.Open(t)
	defer run.Close()
	if run.Mode == "replay" {
		var w *world
		for _, l := range run.ReplayLines() {
			if strings.HasPrefix(l, "case ") {
				f := strings.Fields(l)
				n := 1
				for _, a := range f[2:] {
					if strings.HasPrefix(a, "n=") {
						fmt.Sscanf(a, "n=%d", &n)
					}
				}
				w = newWorld(t, run, n)
				w.wf = len(f) > 2 && f[2] == "wf"
				run.Case(f[1], f[2:]...)
				continue
			}
			if w == nil {
				t.Fatal("op before case")
			}
			run.Op(l, w.execOp(l))
		}
		return
	}
	cases, nops := 12, 160
	if run.Tier == "thorough" {
		cases, nops = 60, 300
	}
	for ci := 0; ci < cases; ci++ {
		n := 1
		switch ci % 6 {
		case 2:
			n = 3 // Alphabet 3-of-3, committee majority 2-of-3
		case 4:
			n = 6 // Alphabet 5-of-6, committee majority 4-of-6
		case 5:
			n = 5 // n ≡ 2 (mod 3): Alphabet 4-of-5, committee majority 3-of-5 = floor(n/3)*2+1, the threshold a wrong operator order gives
		}
		w := newWorld(t, run, n)
		w.wf = ci%4 != 3
		kind := "wf"
		if !w.wf {
			kind = "nonwf"
		}
		run.Case(fmt.Sprintf("s%d.%d.%d", run.Seed, run.Shard, ci), kind, fmt.Sprintf("n=%d", n))
		g := &gen{w, run.Rand(ci)}
		var epoch int64 = 1
		var first []string
		for i := 0; i < nops; i++ {
			l := g.next(&epoch)
			if w.n > 1 && strings.HasPrefix(l, "op alpha ") && g.rng.IntN(5) == 0 {
				l = "op cmt " + strings.TrimPrefix(l, "op alpha ") // the majority account must not pass for the Alphabet
			}
			obs := w.execOp(l)
			run.Op(l, obs)
			if i < 6 {
				first = append(first, l+"  =>  "+obs)
			}
		}
		run.Sample(strings.Join(first, "\n"))
	}
}
