package chainx

// Extra helpers for the main-chain governance harness (harness/neofs): multisignature signers over
// arbitrary single-key accounts, deployment of a renamed copy of a compiled contract, role designation.

import (
	"encoding/json"

	"github.com/nspcc-dev/neo-go/pkg/core/native/nativenames"
	"github.com/nspcc-dev/neo-go/pkg/core/state"
	"github.com/nspcc-dev/neo-go/pkg/crypto/keys"
	"github.com/nspcc-dev/neo-go/pkg/neotest"
	"github.com/nspcc-dev/neo-go/pkg/smartcontract/manifest"
	"github.com/nspcc-dev/neo-go/pkg/util"
	"github.com/nspcc-dev/neo-go/pkg/wallet"
	"github.com/stretchr/testify/require"
)

// MultisigOf returns the m-of-len(signers) multisignature signer over the keys of the given single signers.
func MultisigOf(m int, signers []neotest.SingleSigner) neotest.Signer {
	pubs := make(keys.PublicKeys, len(signers))
	for i := range signers {
		pubs[i] = signers[i].Account().PublicKey()
	}
	out := make([]*wallet.Account, len(signers))
	for i := range signers {
		out[i] = wallet.NewAccountFromPrivateKey(signers[i].Account().PrivateKey())
		if err := out[i].ConvertMultisig(m, pubs); err != nil {
			panic(err)
		}
	}
	return neotest.NewMultiSigner(out...)
}

// Renamed returns a copy of a compiled contract whose manifest carries another name (hence another
// contract hash), so that several instances of one contract can be deployed by the same sender.
func (c *Chain) Renamed(ct *neotest.Contract, name string) *neotest.Contract {
	raw, err := json.Marshal(ct.Manifest)
	require.NoError(c.T, err)
	m := new(manifest.Manifest)
	require.NoError(c.T, json.Unmarshal(raw, m))
	m.Name = name
	r := &neotest.Contract{Hash: state.CreateContractHash(c.Cmt.ScriptHash(), ct.NEF.Checksum, name),
		NEF: ct.NEF, Manifest: m, DebugInfo: ct.DebugInfo}
	coverTrack(ct.Manifest.Name, r)
	return r
}

// CompileFor compiles contracts/<name> and returns a descriptor whose Hash is the one the contract gets
// when THIS chain's committee deploys it. (neotest caches compiled contracts per process together with
// the hash computed for the first sender, so Compile's Hash is only right for chains that share the
// committee of the first chain of the process.)
func (c *Chain) CompileFor(name string) *neotest.Contract {
	ct := c.Compile(name)
	return c.Renamed(ct, ct.Manifest.Name)
}

// CompileDirFor is CompileFor for an arbitrary contract directory.
func (c *Chain) CompileDirFor(dir string) *neotest.Contract {
	ct := c.CompileDir(dir)
	return c.Renamed(ct, ct.Manifest.Name)
}

// NativeHash returns the hash of a native contract.
func (c *Chain) NativeHash(name string) util.Uint160 {
	return c.E.NativeHash(c.T, name)
}

// DesignateNeoFSAlphabet designates the NeoFSAlphabet role (the Inner Ring list the contracts read with
// roles.GetDesignatedByRole) to the given keys, signed by the committee; effective from the next block.
func (c *Chain) DesignateNeoFSAlphabet(pubs [][]byte) Result {
	arg := make([]any, len(pubs))
	for i := range pubs {
		arg[i] = pubs[i]
	}
	return c.Invoke([]neotest.Signer{c.Cmt}, c.NativeHash(nativenames.Designation), "designateAsRole", int64(16), arg)
}

// NEOOf returns the NEO balance of an account.
func (c *Chain) NEOOf(h util.Uint160) int64 {
	b, _ := c.BC.GetGoverningTokenBalance(h)
	return b.Int64()
}
