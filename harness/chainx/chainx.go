// Package chainx: in-process neo-go chain with an n-member committee for the
// correspondence harnesses. Everything is deterministic: keys are derived from
// fixed strings, block timestamps are set by the harness.
package chainx

import (
	"crypto/sha256"
	"encoding/hex"
	"encoding/json"
	"fmt"
	"os"
	"path/filepath"
	"sort"
	"strings"
	"testing"

	"github.com/nspcc-dev/neo-go/pkg/config"
	"github.com/nspcc-dev/neo-go/pkg/config/netmode"
	"github.com/nspcc-dev/neo-go/pkg/core"
	"github.com/nspcc-dev/neo-go/pkg/core/block"
	"github.com/nspcc-dev/neo-go/pkg/core/native/nativenames"
	"github.com/nspcc-dev/neo-go/pkg/core/state"
	"github.com/nspcc-dev/neo-go/pkg/core/storage"
	"github.com/nspcc-dev/neo-go/pkg/core/transaction"
	"github.com/nspcc-dev/neo-go/pkg/crypto/keys"
	"github.com/nspcc-dev/neo-go/pkg/neotest"
	"github.com/nspcc-dev/neo-go/pkg/smartcontract"
	"github.com/nspcc-dev/neo-go/pkg/smartcontract/trigger"
	"github.com/nspcc-dev/neo-go/pkg/util"
	"github.com/nspcc-dev/neo-go/pkg/vm/stackitem"
	"github.com/nspcc-dev/neo-go/pkg/vm/vmstate"
	"github.com/nspcc-dev/neo-go/pkg/wallet"
	"github.com/stretchr/testify/require"
	"go.uber.org/zap"
)

// Repo is the repository whose contracts are compiled (VERIF_REPO, default /repo).
func Repo() string {
	if r := os.Getenv("VERIF_REPO"); r != "" {
		return r
	}
	return "/repo"
}

// Key returns the deterministic private key for a tag.
func Key(tag string) *keys.PrivateKey {
	for i := 0; ; i++ {
		h := sha256.Sum256([]byte(fmt.Sprintf("verif-key|%s|%d", tag, i)))
		k, err := keys.NewPrivateKeyFromBytes(h[:])
		if err == nil {
			return k
		}
	}
}

// Chain is an in-process chain with an n-member committee (all of them validators).
type Chain struct {
	T       testing.TB
	E       *neotest.Executor
	BC      *core.Blockchain
	N       int
	Alpha   neotest.Signer         // 2n/3+1 multisig of the committee == validators == NeoFS Alphabet account
	Cmt     neotest.Signer         // n/2+1 multisig of the committee
	Members []neotest.SingleSigner // committee members, sorted by public key; funded
	Payer   neotest.SingleSigner   // pays fees with scope None (carries no witness into contracts)
	users   map[string]neotest.SingleSigner
	Step    uint64 // ms added to the timestamp of each new block
	nonce   uint32
	GAS     util.Uint160
	NEO     util.Uint160
}

// MemberAccounts returns n committee accounts sorted by public key.
func MemberAccounts(n int) []*wallet.Account {
	accs := make([]*wallet.Account, n)
	for i := range accs {
		accs[i] = wallet.NewAccountFromPrivateKey(Key(fmt.Sprintf("committee-%d", i)))
	}
	sort.Slice(accs, func(i, j int) bool { return accs[i].PublicKey().Cmp(accs[j].PublicKey()) < 0 })
	return accs
}

func multisig(accs []*wallet.Account, m int) neotest.Signer {
	pubs := make(keys.PublicKeys, len(accs))
	for i := range accs {
		pubs[i] = accs[i].PublicKey()
	}
	out := make([]*wallet.Account, len(accs))
	for i := range accs {
		out[i] = wallet.NewAccountFromPrivateKey(accs[i].PrivateKey())
		if err := out[i].ConvertMultisig(m, pubs); err != nil {
			panic(err)
		}
	}
	return neotest.NewMultiSigner(out...)
}

// New creates a chain with an n-member committee. hook may adjust the protocol configuration.
func New(t testing.TB, n int, hook ...func(*config.Blockchain)) *Chain {
	accs := MemberAccounts(n)
	sc := make([]string, n)
	for i := range accs {
		sc[i] = hex.EncodeToString(accs[i].PublicKey().Bytes())
	}
	cfg := config.Blockchain{
		ProtocolConfiguration: config.ProtocolConfiguration{
			Magic:              netmode.UnitTestNet,
			MaxTraceableBlocks: 1000,
			TimePerBlock:       1,
			StandbyCommittee:   sc,
			ValidatorsCount:    uint32(n),
			VerifyTransactions: true,
		},
	}
	for _, h := range hook {
		h(&cfg)
	}
	bc, err := core.NewBlockchain(storage.NewMemoryStore(), cfg, zap.NewNop())
	require.NoError(t, err)
	go bc.Run()
	t.Cleanup(bc.Close)
	alpha := multisig(accs, smartcontract.GetDefaultHonestNodeCount(n))
	cmt := multisig(accs, smartcontract.GetMajorityHonestNodeCount(n))
	c := &Chain{T: t, BC: bc, N: n, Alpha: alpha, Cmt: cmt, users: map[string]neotest.SingleSigner{}, Step: 1}
	c.E = neotest.NewExecutor(t, bc, alpha, cmt)
	c.GAS = c.E.NativeHash(t, nativenames.Gas)
	c.NEO = c.E.NativeHash(t, nativenames.Neo)
	c.Members = make([]neotest.SingleSigner, n)
	var fund []util.Uint160
	for i := range accs {
		c.Members[i] = neotest.NewSingleSigner(wallet.NewAccountFromPrivateKey(accs[i].PrivateKey()))
		fund = append(fund, c.Members[i].ScriptHash())
	}
	c.Payer = neotest.NewSingleSigner(wallet.NewAccountFromPrivateKey(Key("payer")))
	fund = append(fund, c.Payer.ScriptHash(), cmt.ScriptHash())
	c.FundGAS(1_000_000_0000_0000, fund...)
	return c
}

// FundGAS transfers amount GAS (in fractions) from the validators' account to every listed account, one block.
func (c *Chain) FundGAS(amount int64, to ...util.Uint160) {
	var txs []*transaction.Transaction
	for _, h := range to {
		if h == c.Alpha.ScriptHash() {
			continue
		}
		txs = append(txs, c.E.NewTx(c.T, []neotest.Signer{c.Alpha}, c.GAS, "transfer", c.Alpha.ScriptHash(), h, amount, nil))
	}
	c.AddBlock(txs...)
	for _, tx := range txs {
		c.E.CheckHalt(c.T, tx.Hash())
	}
}

// User returns the deterministic single-key account for a tag, funding it with GAS on first use.
func (c *Chain) User(tag string) neotest.SingleSigner {
	if u, ok := c.users[tag]; ok {
		return u
	}
	u := neotest.NewSingleSigner(wallet.NewAccountFromPrivateKey(Key("user-" + tag)))
	c.users[tag] = u
	c.FundGAS(100_000_0000_0000, u.ScriptHash())
	return u
}

// UserHash is the script hash User(tag) would have (no chain access).
func UserHash(tag string) util.Uint160 {
	return wallet.NewAccountFromPrivateKey(Key("user-" + tag)).ScriptHash()
}

// AddBlock adds a block with the given transactions; timestamp = previous + Step.
func (c *Chain) AddBlock(txs ...*transaction.Transaction) *block.Block {
	c.coverBlockTxs(c.E.TopBlock(c.T).Timestamp+c.Step, txs)
	b := c.E.NewUnsignedBlock(c.T, txs...)
	b.Timestamp = c.E.TopBlock(c.T).Timestamp + c.Step
	c.E.SignBlock(b)
	require.NoError(c.T, c.BC.AddBlock(b))
	return b
}

// AddBlockAt adds an empty block whose timestamp is ts (must exceed the previous one).
func (c *Chain) AddBlockAt(ts uint64, txs ...*transaction.Transaction) *block.Block {
	c.coverBlockTxs(ts, txs)
	b := c.E.NewUnsignedBlock(c.T, txs...)
	b.Timestamp = ts
	c.E.SignBlock(b)
	require.NoError(c.T, c.BC.AddBlock(b))
	return b
}

// Compile compiles contracts/<name> of the repository under test (cached per process by neotest).
func (c *Chain) Compile(name string) *neotest.Contract {
	if UseEmbedded() {
		return c.LoadEmbedded(name)
	}
	p := filepath.Join(Repo(), "contracts", name)
	return c.rehash(neotest.CompileFile(c.T, c.Cmt.ScriptHash(), p, filepath.Join(p, "config.yml")))
}

// rehash: neotest caches compiled contracts per path including the hash computed for the FIRST sender; chains with
// different committees deploy from different senders, so the hash is recomputed for this chain's deployer.
func (c *Chain) rehash(ct *neotest.Contract) *neotest.Contract {
	cp := *ct
	cp.Hash = state.CreateContractHash(c.Cmt.ScriptHash(), ct.NEF.Checksum, ct.Manifest.Name)
	coverTrack(ct.Manifest.Name, &cp)
	return &cp
}

// CompileDir compiles an arbitrary contract directory (probe contracts).
func (c *Chain) CompileDir(dir string) *neotest.Contract {
	return c.rehash(neotest.CompileFile(c.T, c.Cmt.ScriptHash(), dir, filepath.Join(dir, "config.yml")))
}

// Deploy deploys a compiled contract signed by the committee majority; the deployment must HALT.
func (c *Chain) Deploy(ct *neotest.Contract, data any) util.Uint160 {
	tx := c.NewDeployTx(ct, data)
	c.AddBlock(tx)
	c.E.CheckHalt(c.T, tx.Hash())
	return ct.Hash
}

// NewDeployTx builds a deployment transaction sent by the committee-majority account (which fixes the contract
// hash) and additionally witnessed by the Alphabet account (some _deploy methods check the Alphabet witness; on a
// single-node chain both accounts coincide, as in the repository's own tests).
func (c *Chain) NewDeployTx(ct *neotest.Contract, data any) *transaction.Transaction {
	rawManifest, err := json.Marshal(ct.Manifest)
	require.NoError(c.T, err)
	neb, err := ct.NEF.Bytes()
	require.NoError(c.T, err)
	mgmt := c.E.NativeHash(c.T, nativenames.Management)
	script, err := smartcontract.CreateCallScript(mgmt, "deploy", neb, rawManifest, data)
	require.NoError(c.T, err)
	tx := transaction.New(script, 200_0000_0000)
	c.nonce++
	tx.Nonce = c.nonce
	tx.ValidUntilBlock = c.BC.BlockHeight() + 1
	signers := []neotest.Signer{c.Cmt}
	if c.Alpha.ScriptHash() != c.Cmt.ScriptHash() {
		signers = append(signers, c.Alpha)
	}
	for _, s := range signers {
		tx.Signers = append(tx.Signers, transaction.Signer{Account: s.ScriptHash(), Scopes: transaction.Global})
	}
	neotest.AddNetworkFee(c.T, c.BC, tx, signers...)
	for _, s := range signers {
		require.NoError(c.T, s.SignTx(c.BC.GetConfig().Magic, tx))
	}
	return tx
}

// DeployNNS deploys the NNS contract with the "neofs" TLD (it gets contract id 1 if deployed first).
func (c *Chain) DeployNNS() util.Uint160 {
	return c.Deploy(c.Compile("nns"), []any{[]any{[]any{"neofs", "ops@nspcc.io"}}})
}

// NNSHash returns the hash of the contract with id 1.
func (c *Chain) NNSHash() util.Uint160 {
	h, err := c.BC.GetContractScriptHash(1)
	require.NoError(c.T, err)
	return h
}

// RegisterNNS registers <name>.neofs with a TXT record holding the little-endian hex hash.
func (c *Chain) RegisterNNS(name string, h util.Uint160) {
	const msPerYear = 365 * 24 * 3600 * 1000
	r := c.Invoke([]neotest.Signer{c.Cmt}, c.NNSHash(), "register", name+".neofs", c.Cmt.ScriptHash(), "ops@nspcc.ru", int64(3600), int64(600), int64(10*msPerYear), int64(3600))
	require.True(c.T, r.Halt, r.Fault)
	r = c.Invoke([]neotest.Signer{c.Cmt}, c.NNSHash(), "addRecord", name+".neofs", int64(16), h.StringLE())
	require.True(c.T, r.Halt, r.Fault)
}

// Result of one transaction.
type Result struct {
	Halt   bool
	Fault  string
	Stack  []stackitem.Item
	Events []state.NotificationEvent
	Height uint32
	Time   uint64
	Tx     util.Uint256
}

// NewTx builds a transaction paid by Payer (scope None: no witness visible to contracts) and signed by
// the given signers with Global scope. sysFee is fixed (50 GAS) to avoid a test invocation per transaction.
func (c *Chain) NewTx(signers []neotest.Signer, h util.Uint160, method string, args ...any) *transaction.Transaction {
	script, err := smartcontract.CreateCallScript(h, method, args...)
	require.NoError(c.T, err)
	return c.NewScriptTx(signers, script)
}

// NewScriptTx is NewTx for an arbitrary entry script.
func (c *Chain) NewScriptTx(signers []neotest.Signer, script []byte) *transaction.Transaction {
	tx := transaction.New(script, 0)
	c.nonce++
	tx.Nonce = c.nonce
	tx.ValidUntilBlock = c.BC.BlockHeight() + 1
	all := []neotest.Signer{c.Payer}
	tx.Signers = append(tx.Signers, transaction.Signer{Account: c.Payer.ScriptHash(), Scopes: transaction.None})
	for _, s := range signers {
		if s.ScriptHash() == c.Payer.ScriptHash() {
			continue
		}
		all = append(all, s)
		tx.Signers = append(tx.Signers, transaction.Signer{Account: s.ScriptHash(), Scopes: transaction.Global})
	}
	neotest.AddNetworkFee(c.T, c.BC, tx, all...)
	tx.SystemFee = 50_0000_0000
	for _, s := range all {
		require.NoError(c.T, s.SignTx(c.BC.GetConfig().Magic, tx))
	}
	return tx
}

// Exec adds one block with the transactions and returns their results.
func (c *Chain) Exec(txs ...*transaction.Transaction) []Result {
	b := c.AddBlock(txs...)
	out := make([]Result, len(txs))
	for i, tx := range txs {
		out[i] = c.result(tx.Hash(), b)
	}
	return out
}

// OutOfGas counts executed transactions that FAULTed because the system fee the harness put on them ran out. Such a fault is
// an artefact of the harness's fee, not an observation of the contract: hx marks the case and the check does not judge it.
var OutOfGas int64

func (c *Chain) result(h util.Uint256, b *block.Block) Result {
	aer, err := c.BC.GetAppExecResults(h, trigger.Application)
	require.NoError(c.T, err)
	require.Equal(c.T, 1, len(aer))
	if aer[0].VMState != vmstate.Halt && (strings.Contains(aer[0].FaultException, "gas limit is exceeded") || strings.Contains(aer[0].FaultException, "insufficient amount of gas")) {
		OutOfGas++
	}
	r := Result{Halt: aer[0].VMState == vmstate.Halt, Fault: aer[0].FaultException, Stack: aer[0].Stack,
		Events: aer[0].Events, Height: b.Index, Time: b.Timestamp, Tx: h}
	return r
}

// Invoke runs one transaction in its own block.
func (c *Chain) Invoke(signers []neotest.Signer, h util.Uint160, method string, args ...any) Result {
	return c.Exec(c.NewTx(signers, h, method, args...))[0]
}

// Call test-invokes a method (no state change); returns the stack or the error text.
func (c *Chain) Call(h util.Uint160, method string, args ...any) ([]stackitem.Item, error) {
	return c.CallAs(nil, h, method, args...)
}

// CallAs test-invokes with signers.
func (c *Chain) CallAs(signers []neotest.Signer, h util.Uint160, method string, args ...any) ([]stackitem.Item, error) {
	tx := c.NewTx(signers, h, method, args...)
	tx.ValidUntilBlock = c.BC.BlockHeight() + 2
	v, err := c.TestInvoke(tx)
	if err != nil {
		return nil, err
	}
	return v.Estack().ToArray(), nil
}

// KV is one storage item.
type KV struct{ K, V []byte }

// Scan returns the whole storage of a contract, sorted by key.
func (c *Chain) Scan(h util.Uint160) []KV {
	cs := c.BC.GetContractState(h)
	if cs == nil {
		return nil
	}
	var out []KV
	c.BC.SeekStorage(cs.ID, nil, func(k, v []byte) bool {
		out = append(out, KV{append([]byte{}, k...), append([]byte{}, v...)})
		return true
	})
	sort.Slice(out, func(i, j int) bool { return string(out[i].K) < string(out[j].K) })
	return out
}

// ScanDigest is a short canonical digest of a contract's storage (for "nothing changed" checks).
func (c *Chain) ScanDigest(h util.Uint160) string {
	s := sha256.New()
	for _, kv := range c.Scan(h) {
		fmt.Fprintf(s, "%x=%x;", kv.K, kv.V)
	}
	return hex.EncodeToString(s.Sum(nil))[:16]
}

// GASOf returns the GAS balance of an account.
func (c *Chain) GASOf(h util.Uint160) int64 {
	return c.BC.GetUtilityTokenBalance(h).Int64()
}

// FaultKind maps a fault text to a small enum; texts themselves are never compared.
func FaultKind(msg string, table map[string]string) string {
	for sub, kind := range table {
		if strings.Contains(msg, sub) {
			return kind
		}
	}
	return "fault"
}
