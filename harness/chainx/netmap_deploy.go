package chainx

import (
	"encoding/json"

	"github.com/nspcc-dev/neo-go/pkg/core/native/nativenames"
	"github.com/nspcc-dev/neo-go/pkg/core/state"
	"github.com/nspcc-dev/neo-go/pkg/neotest"
	"github.com/nspcc-dev/neo-go/pkg/util"
	"github.com/stretchr/testify/require"
)

// DeployAs deploys a compiled contract under another manifest name (so that several instances of one
// probe get distinct hashes) in a transaction that carries the given signers' witnesses with Global
// scope (visible to _deploy and to the contracts it calls). The transaction is paid by Payer, hence
// the contract hash is derived from Payer's account. name == "" keeps the manifest name.
func (c *Chain) DeployAs(signers []neotest.Signer, ct *neotest.Contract, name string, data any) util.Uint160 {
	m := *ct.Manifest
	if name != "" {
		m.Name = name
	}
	nefb, err := ct.NEF.Bytes()
	require.NoError(c.T, err)
	mb, err := json.Marshal(&m)
	require.NoError(c.T, err)
	mgmt := c.E.NativeHash(c.T, nativenames.Management)
	res := c.Exec(c.NewTx(signers, mgmt, "deploy", nefb, mb, data))[0]
	require.True(c.T, res.Halt, "deployment of %s: %s", m.Name, res.Fault)
	h := state.CreateContractHash(c.Payer.ScriptHash(), ct.NEF.Checksum, m.Name)
	cp := *ct
	cp.Hash = h
	coverTrack(ct.Manifest.Name, &cp)
	return h
}
