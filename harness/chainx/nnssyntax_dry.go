package chainx

import (
	"github.com/nspcc-dev/neo-go/pkg/core/transaction"
	"github.com/nspcc-dev/neo-go/pkg/smartcontract"
	"github.com/nspcc-dev/neo-go/pkg/util"
	"github.com/nspcc-dev/neo-go/pkg/vm/stackitem"
	"github.com/stretchr/testify/require"
)

// NsxDryRun test-invokes a method on the current state with the given accounts as Global-scope signers.
// No transaction is signed and nothing is committed (about 10x cheaper than CallAs, which signs a
// transaction first). Returns whether the VM HALTed, the result stack and the fault text.
func (c *Chain) NsxDryRun(signers []util.Uint160, h util.Uint160, method string, args ...any) (bool, []stackitem.Item, string) {
	script, err := smartcontract.CreateCallScript(h, method, args...)
	require.NoError(c.T, err)
	tx := transaction.New(script, 0)
	tx.ValidUntilBlock = c.BC.BlockHeight() + 2
	tx.Signers = append(tx.Signers, transaction.Signer{Account: c.Payer.ScriptHash(), Scopes: transaction.None})
	for _, s := range signers {
		tx.Signers = append(tx.Signers, transaction.Signer{Account: s, Scopes: transaction.Global})
	}
	v, err := c.TestInvoke(tx)
	if err != nil {
		return false, nil, err.Error()
	}
	return true, v.Estack().ToArray(), ""
}
