package chainx

import (
	"github.com/nspcc-dev/neo-go/pkg/core/block"
	"github.com/nspcc-dev/neo-go/pkg/core/transaction"
	"github.com/nspcc-dev/neo-go/pkg/crypto/hash"
	"github.com/nspcc-dev/neo-go/pkg/smartcontract"
	"github.com/nspcc-dev/neo-go/pkg/smartcontract/callflag"
	"github.com/nspcc-dev/neo-go/pkg/smartcontract/trigger"
	"github.com/nspcc-dev/neo-go/pkg/util"
	"github.com/nspcc-dev/neo-go/pkg/vm/opcode"
	"github.com/nspcc-dev/neo-go/pkg/vm/stackitem"
	"github.com/stretchr/testify/require"
)

// NsxDryRun test-invokes a method on the current state with the given accounts as Global-scope signers.
// No transaction is signed and nothing is committed (about 10x cheaper than CallAs, which signs a
// transaction first). Returns whether the VM HALTed, the result stack and the fault text.
//
// Coverage: the same measurement as Chain.TestInvoke, but the instructions of the entry script are not
// recorded. Every probe has its own entry script (the arguments are part of it), so recording them adds one
// never-resolvable script hash per probe to the coverage table, and coverResolve — which walks the whole table
// after every invocation — turns a run of n probes into n²/2 contract look-ups (88 779 probes: ~390 s instead
// of ~15 s). Only deployed contracts are resolved to source statements anyway.
func (c *Chain) NsxDryRun(signers []util.Uint160, h util.Uint160, method string, args ...any) (bool, []stackitem.Item, string) {
	script, err := smartcontract.CreateCallScript(h, method, args...)
	require.NoError(c.T, err)
	tx := transaction.New(script, 0)
	tx.ValidUntilBlock = c.BC.BlockHeight() + 2
	tx.Signers = append(tx.Signers, transaction.Signer{Account: c.Payer.ScriptHash(), Scopes: transaction.None})
	for _, s := range signers {
		tx.Signers = append(tx.Signers, transaction.Signer{Account: s, Scopes: transaction.Global})
	}
	last := c.E.TopBlock(c.T)
	b := &block.Block{Header: block.Header{Index: c.BC.BlockHeight() + 1, Timestamp: last.Timestamp + 1}}
	ic, _ := c.BC.GetTestVM(trigger.Application, tx, b)
	defer ic.Finalize()
	cover := CoverFile() != ""
	if cover {
		entry := hash.Hash160(script)
		ic.VM.SetOnExecHook(func(sh util.Uint160, offset int, op opcode.Opcode) {
			if sh != entry {
				coverHook(sh, offset, op)
			}
		})
	}
	ic.VM.LoadWithFlags(script, callflag.All)
	err = ic.VM.Run()
	if cover {
		c.coverResolve()
	}
	if err != nil {
		return false, nil, err.Error()
	}
	return true, ic.VM.Estack().ToArray(), ""
}
