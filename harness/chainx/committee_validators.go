package chainx

import (
	"encoding/hex"
	"testing"

	"github.com/nspcc-dev/neo-go/pkg/config"
	"github.com/nspcc-dev/neo-go/pkg/config/netmode"
	"github.com/nspcc-dev/neo-go/pkg/core"
	"github.com/nspcc-dev/neo-go/pkg/core/native/nativenames"
	"github.com/nspcc-dev/neo-go/pkg/core/storage"
	"github.com/nspcc-dev/neo-go/pkg/core/transaction"
	"github.com/nspcc-dev/neo-go/pkg/neotest"
	"github.com/nspcc-dev/neo-go/pkg/smartcontract"
	"github.com/nspcc-dev/neo-go/pkg/util"
	"github.com/nspcc-dev/neo-go/pkg/wallet"
	"github.com/stretchr/testify/require"
	"go.uber.org/zap"
)

// NewCV creates a chain whose committee is LARGER than its validator set: `committee` standby committee members
// (= the NeoFS Alphabet: neo.GetCommittee(), the keys behind common.AlphabetAddress / CommitteeAddress) of which
// only the first `validators` (in public-key order) are consensus nodes (neo.GetNextBlockValidators()). This is a
// legal protocol configuration (neotest's stock multi-node chain is 6/4) on which "the committee" and "the
// validators" are different key lists, so code that confuses the two becomes observable.
//
// Built like New: Alpha = 2n/3+1 and Cmt = n/2+1 multisignature accounts over the WHOLE committee, Members = all
// committee members (sorted by key, funded), Payer as in New. Blocks are signed by the validators' own
// multisignature account (m-of-v), which also holds the genesis GAS; Alpha is funded from it so that
// FundGAS / User keep working unchanged. With validators == committee the result equals New(t, committee).
func NewCV(t testing.TB, committee, validators int, hook ...func(*config.Blockchain)) *Chain {
	if validators >= committee {
		return New(t, committee, hook...)
	}
	require.True(t, validators >= 1)
	accs := MemberAccounts(committee)
	sc := make([]string, committee)
	for i := range accs {
		sc[i] = hex.EncodeToString(accs[i].PublicKey().Bytes())
	}
	cfg := config.Blockchain{
		ProtocolConfiguration: config.ProtocolConfiguration{
			Magic:              netmode.UnitTestNet,
			MaxTraceableBlocks: 1000,
			TimePerBlock:       1,
			StandbyCommittee:   sc,
			ValidatorsCount:    uint32(validators),
			VerifyTransactions: true,
		},
	}
	for _, h := range hook {
		h(&cfg)
	}
	bc, err := core.NewBlockchain(storage.NewMemoryStore(), cfg, zap.NewNop())
	require.NoError(t, err)
	go bc.Run()
	t.Cleanup(bc.Close)
	val := multisig(accs[:validators], smartcontract.GetDefaultHonestNodeCount(validators))
	alpha := multisig(accs, smartcontract.GetDefaultHonestNodeCount(committee))
	cmt := multisig(accs, smartcontract.GetMajorityHonestNodeCount(committee))
	c := &Chain{T: t, BC: bc, N: committee, Alpha: alpha, Cmt: cmt, users: map[string]neotest.SingleSigner{}, Step: 1}
	c.E = neotest.NewExecutor(t, bc, val, cmt)
	c.GAS = c.E.NativeHash(t, nativenames.Gas)
	c.NEO = c.E.NativeHash(t, nativenames.Neo)
	c.Members = make([]neotest.SingleSigner, committee)
	fund := []util.Uint160{alpha.ScriptHash()}
	for i := range accs {
		c.Members[i] = neotest.NewSingleSigner(wallet.NewAccountFromPrivateKey(accs[i].PrivateKey()))
		fund = append(fund, c.Members[i].ScriptHash())
	}
	c.Payer = neotest.NewSingleSigner(wallet.NewAccountFromPrivateKey(Key("payer")))
	fund = append(fund, c.Payer.ScriptHash())
	if cmt.ScriptHash() != alpha.ScriptHash() {
		fund = append(fund, cmt.ScriptHash())
	}
	// genesis GAS sits on the validators' account
	var txs []*transaction.Transaction
	for i, h := range fund {
		amount := int64(1_000_000_0000_0000)
		if i == 0 {
			amount = 20_000_000_0000_0000 // Alpha funds the users later (FundGAS)
		}
		txs = append(txs, c.E.NewTx(t, []neotest.Signer{val}, c.GAS, "transfer", val.ScriptHash(), h, amount, nil))
	}
	c.AddBlock(txs...)
	for _, tx := range txs {
		c.E.CheckHalt(t, tx.Hash())
	}
	return c
}

// ValidatorCount is the number of consensus nodes of the chain (== len(c.Members) for chains made by New).
func (c *Chain) ValidatorCount() int {
	return int(c.BC.GetConfig().ValidatorsCount)
}

// ValidatorsSigner is the consensus nodes' own m-of-v multisignature account (the block signer). On a NewCV chain
// it is NOT the Alphabet account (2n/3+1 over the committee) and must not be accepted where the Alphabet's or the
// committee's witness is required; on chains made by New it coincides with Alpha.
func (c *Chain) ValidatorsSigner() neotest.Signer {
	return c.E.Validator
}
