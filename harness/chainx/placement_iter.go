package chainx

import (
	"errors"
	"fmt"

	istorage "github.com/nspcc-dev/neo-go/pkg/core/interop/storage"
	"github.com/nspcc-dev/neo-go/pkg/smartcontract/callflag"
	"github.com/nspcc-dev/neo-go/pkg/smartcontract/trigger"
	"github.com/nspcc-dev/neo-go/pkg/util"
	"github.com/nspcc-dev/neo-go/pkg/vm/stackitem"
)

// CallIter test-invokes a method that returns a storage iterator and drains the iterator completely
// before the interop context is finalized (Executor.TestInvoke finalizes the context on return, which
// closes the iterator; the repository's own tests keep the context alive the same way).
func (c *Chain) CallIter(h util.Uint160, method string, args ...any) ([]stackitem.Item, error) {
	tx := c.NewTx(nil, h, method, args...)
	tx.ValidUntilBlock = c.BC.BlockHeight() + 2
	b := c.E.NewUnsignedBlock(c.T, tx)
	ic, err := c.BC.GetTestVM(trigger.Application, tx, b)
	if err != nil {
		return nil, err
	}
	c.CoverVM(ic.VM)
	defer ic.Finalize()
	ic.VM.LoadWithFlags(tx.Script, callflag.All)
	if err = ic.VM.Run(); err != nil {
		return nil, err
	}
	if ic.VM.Estack().Len() != 1 {
		return nil, fmt.Errorf("stack has %d items", ic.VM.Estack().Len())
	}
	it, ok := ic.VM.Estack().Pop().Value().(*istorage.Iterator)
	if !ok {
		return nil, errors.New("result is not an iterator")
	}
	var out []stackitem.Item
	for it.Next() {
		out = append(out, it.Value())
	}
	return out, nil
}
