package chainx

import (
	"github.com/nspcc-dev/neo-go/pkg/smartcontract"
	"github.com/nspcc-dev/neo-go/pkg/util"
	"github.com/nspcc-dev/neo-go/pkg/vm/stackitem"
	"github.com/stretchr/testify/require"
)

// StoresCallIter test-invokes a method that returns an iterator and unwraps it INSIDE the VM (at most max
// items): an iterator handed out by a finished test invocation is backed by a cancelled storage seek
// and may lose items.
func (c *Chain) StoresCallIter(h util.Uint160, method string, max int, args ...any) ([]stackitem.Item, error) {
	script, err := smartcontract.CreateCallAndUnwrapIteratorScript(h, method, max, args...)
	require.NoError(c.T, err)
	tx := c.NewScriptTx(nil, script)
	tx.ValidUntilBlock = c.BC.BlockHeight() + 2
	v, err := c.TestInvoke(tx)
	if err != nil {
		return nil, err
	}
	st := v.Estack().ToArray()
	require.Equal(c.T, 1, len(st))
	arr, ok := st[0].Value().([]stackitem.Item)
	require.True(c.T, ok)
	return arr, nil
}
