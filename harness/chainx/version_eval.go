package chainx

import (
	"fmt"
	"go/ast"
	"go/parser"
	"go/token"
	"path/filepath"
	"strconv"
	"strings"
)

// SourceVersion evaluates the exported constant `Version` of common/version.go under root from its declaration
// (integer literals, identifiers of the same file, + - *, parentheses), whatever the unexported components are called.
func SourceVersion(root string) (int64, error) {
	fset := token.NewFileSet()
	f, err := parser.ParseFile(fset, filepath.Join(root, "common", "version.go"), nil, 0)
	if err != nil {
		return 0, err
	}
	decl := map[string]ast.Expr{}
	for _, d := range f.Decls {
		gd, ok := d.(*ast.GenDecl)
		if !ok || gd.Tok != token.CONST {
			continue
		}
		for _, sp := range gd.Specs {
			vs := sp.(*ast.ValueSpec)
			for i, n := range vs.Names {
				if i < len(vs.Values) {
					decl[n.Name] = vs.Values[i]
				}
			}
		}
	}
	var eval func(e ast.Expr, depth int) (int64, error)
	eval = func(e ast.Expr, depth int) (int64, error) {
		if depth > 20 {
			return 0, fmt.Errorf("constant cycle")
		}
		switch x := e.(type) {
		case *ast.BasicLit:
			return strconv.ParseInt(strings.ReplaceAll(x.Value, "_", ""), 0, 64)
		case *ast.ParenExpr:
			return eval(x.X, depth)
		case *ast.Ident:
			d, ok := decl[x.Name]
			if !ok {
				return 0, fmt.Errorf("constant %s not declared in common/version.go", x.Name)
			}
			return eval(d, depth+1)
		case *ast.CallExpr: // int(..), int64(..)
			if len(x.Args) == 1 {
				return eval(x.Args[0], depth)
			}
		case *ast.BinaryExpr:
			a, err := eval(x.X, depth)
			if err != nil {
				return 0, err
			}
			b, err := eval(x.Y, depth)
			if err != nil {
				return 0, err
			}
			switch x.Op {
			case token.ADD:
				return a + b, nil
			case token.SUB:
				return a - b, nil
			case token.MUL:
				return a * b, nil
			}
		}
		return 0, fmt.Errorf("unsupported constant expression in common/version.go")
	}
	v, ok := decl["Version"]
	if !ok {
		return 0, fmt.Errorf("common/version.go declares no constant Version")
	}
	return eval(v, 0)
}
