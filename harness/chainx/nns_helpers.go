package chainx

// Helpers added for the NNS harness (C10–C12): transactions in a block with a chosen timestamp and a
// chosen system fee (register/renew burn GAS), and test invocations at a chosen block time with
// iterators unrolled into arrays.

import (
	"fmt"

	"github.com/nspcc-dev/neo-go/pkg/core/block"
	"github.com/nspcc-dev/neo-go/pkg/core/interop/storage"
	"github.com/nspcc-dev/neo-go/pkg/core/transaction"
	"github.com/nspcc-dev/neo-go/pkg/neotest"
	"github.com/nspcc-dev/neo-go/pkg/smartcontract"
	"github.com/nspcc-dev/neo-go/pkg/smartcontract/callflag"
	"github.com/nspcc-dev/neo-go/pkg/smartcontract/trigger"
	"github.com/nspcc-dev/neo-go/pkg/util"
	"github.com/nspcc-dev/neo-go/pkg/vm/stackitem"
	"github.com/stretchr/testify/require"
)

// NNSTopTime is the timestamp of the last block.
func (c *Chain) NNSTopTime() uint64 { return c.E.TopBlock(c.T).Timestamp }

// NNSNewTxFee is NewTx with an explicit system fee (fractions of GAS).
func (c *Chain) NNSNewTxFee(sysfee int64, signers []neotest.Signer, h util.Uint160, method string, args ...any) *transaction.Transaction {
	script, err := smartcontract.CreateCallScript(h, method, args...)
	require.NoError(c.T, err)
	tx := transaction.New(script, 0)
	c.nonce++
	tx.Nonce = c.nonce
	tx.ValidUntilBlock = c.BC.BlockHeight() + 1
	all := []neotest.Signer{c.Payer}
	tx.Signers = append(tx.Signers, transaction.Signer{Account: c.Payer.ScriptHash(), Scopes: transaction.None})
	for _, s := range signers {
		if s.ScriptHash() == c.Payer.ScriptHash() {
			continue
		}
		all = append(all, s)
		tx.Signers = append(tx.Signers, transaction.Signer{Account: s.ScriptHash(), Scopes: transaction.Global})
	}
	neotest.AddNetworkFee(c.T, c.BC, tx, all...)
	tx.SystemFee = sysfee
	for _, s := range all {
		require.NoError(c.T, s.SignTx(c.BC.GetConfig().Magic, tx))
	}
	return tx
}

// NNSExecAt adds one block with timestamp ts (must exceed the previous one) holding tx and returns its result.
func (c *Chain) NNSExecAt(ts uint64, tx *transaction.Transaction) Result {
	b := c.AddBlockAt(ts, tx)
	return c.result(tx.Hash(), b)
}

// NNSCallAt test-invokes a method as if it ran in a block with timestamp ts (no state change). Iterators on
// the result stack are unrolled (at most max items) into arrays of their values.
func (c *Chain) NNSCallAt(ts uint64, signers []neotest.Signer, h util.Uint160, method string, args ...any) (out []stackitem.Item, err error) {
	tx := c.NewTx(signers, h, method, args...)
	tx.ValidUntilBlock = c.BC.BlockHeight() + 2
	b := &block.Block{Header: block.Header{Index: c.BC.BlockHeight() + 1, Timestamp: ts}}
	ttx := *tx
	ic, _ := c.BC.GetTestVM(trigger.Application, &ttx, b)
	c.CoverVM(ic.VM)
	defer ic.Finalize()
	defer func() {
		if r := recover(); r != nil {
			out, err = nil, fmt.Errorf("panic: %v", r)
		}
	}()
	ic.VM.LoadWithFlags(tx.Script, callflag.All)
	if err = ic.VM.Run(); err != nil {
		return nil, err
	}
	for _, it := range ic.VM.Estack().ToArray() {
		if ii, ok := it.Value().(*storage.Iterator); ok {
			var vals []stackitem.Item
			for n := 0; n < 4096 && ii.Next(); n++ {
				vals = append(vals, ii.Value())
			}
			it = stackitem.NewArray(vals)
		}
		out = append(out, it)
	}
	return out, nil
}
