package chainx

// Contract statement coverage of the correspondence runs (VERIF_COVER=<file>): which sequence points (source
// statements) of the contracts compiled from the repository under test were executed by the operations of a
// harness run. It shows which parts of the modelled code the generated and corpus cases actually reach.
//
// Transactions are executed once more as test invocations (on the state before their block) with a VM hook that
// records the visited instruction offsets per contract; read-only invocations go through TestInvoke below.

import (
	"encoding/json"
	"os"
	"sort"
	"sync"

	"github.com/nspcc-dev/neo-go/pkg/compiler"
	"github.com/nspcc-dev/neo-go/pkg/core/block"
	"github.com/nspcc-dev/neo-go/pkg/core/transaction"
	"github.com/nspcc-dev/neo-go/pkg/neotest"
	"github.com/nspcc-dev/neo-go/pkg/smartcontract/callflag"
	"github.com/nspcc-dev/neo-go/pkg/smartcontract/trigger"
	"github.com/nspcc-dev/neo-go/pkg/util"
	"github.com/nspcc-dev/neo-go/pkg/vm"
	"github.com/nspcc-dev/neo-go/pkg/vm/opcode"
)

type covContract struct {
	name    string
	di      *compiler.DebugInfo
	visited map[int]int
}

var cov struct {
	sync.Mutex
	byChecksum map[uint32]*covContract      // compiled contracts by NEF checksum
	raw        map[util.Uint160]map[int]int // visited offsets per executed script hash
	checksumOf map[util.Uint160]uint32      // deployed contract hash -> NEF checksum (resolved from the chain)
}

// CoverFile is the output file of the coverage measurement ("" = off).
func CoverFile() string { return os.Getenv("VERIF_COVER") }

// coverTrack registers a compiled contract (its debug information) under its NEF checksum; whatever hash an
// instance of it is deployed under (renamed manifests, other senders) is resolved from the chain later.
func coverTrack(name string, ct *neotest.Contract) {
	if CoverFile() == "" || ct.DebugInfo == nil || ct.NEF == nil {
		return
	}
	cov.Lock()
	defer cov.Unlock()
	if cov.byChecksum == nil {
		cov.byChecksum = map[uint32]*covContract{}
	}
	if _, ok := cov.byChecksum[ct.NEF.Checksum]; !ok {
		cov.byChecksum[ct.NEF.Checksum] = &covContract{name: name, di: ct.DebugInfo, visited: map[int]int{}}
	}
}

func coverHook(h util.Uint160, offset int, _ opcode.Opcode) {
	cov.Lock()
	if cov.raw == nil {
		cov.raw = map[util.Uint160]map[int]int{}
	}
	m := cov.raw[h]
	if m == nil {
		m = map[int]int{}
		cov.raw[h] = m
	}
	m[offset]++
	cov.Unlock()
}

// coverResolve looks up, on this chain, which compiled contract each executed script hash is an instance of.
func (c *Chain) coverResolve() {
	cov.Lock()
	defer cov.Unlock()
	if cov.checksumOf == nil {
		cov.checksumOf = map[util.Uint160]uint32{}
	}
	for h := range cov.raw {
		if _, ok := cov.checksumOf[h]; ok {
			continue
		}
		if cs := c.BC.GetContractState(h); cs != nil {
			cov.checksumOf[h] = cs.NEF.Checksum
		}
	}
}

// CoverTrack registers a contract compiled outside Chain.Compile (harnesses with their own compile path).
func CoverTrack(ct *neotest.Contract) {
	if ct != nil && ct.Manifest != nil {
		coverTrack(ct.Manifest.Name, ct)
	}
}

// CoverVM installs the coverage hook on a VM about to run (no-op when coverage is off).
func (c *Chain) CoverVM(v *vm.VM) {
	if CoverFile() != "" {
		v.SetOnExecHook(coverHook)
	}
}

// TestInvoke is neotest's Executor.TestInvoke with the coverage hook: the transaction's script is run on the
// current state in a block one above the top; nothing is persisted.
func (c *Chain) TestInvoke(tx *transaction.Transaction) (*vm.VM, error) {
	last := c.E.TopBlock(c.T)
	b := &block.Block{Header: block.Header{Index: c.BC.BlockHeight() + 1, Timestamp: last.Timestamp + 1}}
	ttx := *tx
	ic, _ := c.BC.GetTestVM(trigger.Application, &ttx, b)
	c.CoverVM(ic.VM)
	defer ic.Finalize()
	ic.VM.LoadWithFlags(tx.Script, callflag.All)
	err := ic.VM.Run()
	if CoverFile() != "" {
		c.coverResolve()
	}
	return ic.VM, err
}

// coverBlockTxs re-executes the transactions of a block about to be added as test invocations with the hook.
func (c *Chain) coverBlockTxs(ts uint64, txs []*transaction.Transaction) {
	if CoverFile() == "" {
		return
	}
	for _, tx := range txs {
		b := &block.Block{Header: block.Header{Index: c.BC.BlockHeight() + 1, Timestamp: ts}}
		ttx := *tx
		ic, _ := c.BC.GetTestVM(trigger.Application, &ttx, b)
		ic.VM.SetOnExecHook(coverHook)
		ic.VM.LoadWithFlags(tx.Script, callflag.All)
		ic.VM.GasLimit = tx.SystemFee
		_ = ic.VM.Run()
		ic.Finalize()
	}
	c.coverResolve()
}

type covPoint struct {
	File  string `json:"file"`
	Start int    `json:"start"`
	End   int    `json:"end"`
	Func  string `json:"func"`
	Hits  int    `json:"hits"`
}

// WriteCover writes the collected coverage (one record per sequence point) to CoverFile().
func WriteCover() {
	if CoverFile() == "" {
		return
	}
	cov.Lock()
	defer cov.Unlock()
	for h, m := range cov.raw {
		if sum, ok := cov.checksumOf[h]; ok {
			if cc, ok := cov.byChecksum[sum]; ok {
				for off, n := range m {
					cc.visited[off] += n
				}
			}
		}
	}
	out := map[string][]covPoint{}
	for _, cc := range cov.byChecksum {
		name := cc.name
		var pts []covPoint
		for _, m := range cc.di.Methods {
			for _, sp := range m.SeqPoints {
				doc := ""
				if sp.Document < len(cc.di.Documents) {
					doc = cc.di.Documents[sp.Document]
				}
				pts = append(pts, covPoint{File: doc, Start: sp.StartLine, End: sp.EndLine, Func: m.Name.Name, Hits: cc.visited[sp.Opcode]})
			}
		}
		sort.Slice(pts, func(i, j int) bool {
			if pts[i].File != pts[j].File {
				return pts[i].File < pts[j].File
			}
			return pts[i].Start < pts[j].Start
		})
		out[name] = append(out[name], pts...)
	}
	b, _ := json.Marshal(out)
	_ = os.WriteFile(CoverFile(), b, 0o644)
}
