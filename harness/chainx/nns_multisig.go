package chainx

import "github.com/nspcc-dev/neo-go/pkg/neotest"

// NNSCommitteeMultisig returns the k-of-n multisignature account built from the n committee keys of this chain
// (k = n/2+1 is Chain.Cmt). Its script hash depends on k, so each k is a different account: the NNS harness uses
// them as the signer classes "half of the committee", "majority minus one", "majority", "majority plus one".
func (c *Chain) NNSCommitteeMultisig(k int) neotest.Signer {
	if k < 1 || k > c.N {
		panic("NNSCommitteeMultisig: k out of range")
	}
	return multisig(MemberAccounts(c.N), k)
}
