package chainx

import (
	"github.com/nspcc-dev/neo-go/pkg/neotest"
	"github.com/nspcc-dev/neo-go/pkg/wallet"
)

// AccessMultisig returns the m-of-len(accs) multi-signature account over the keys of the given single-key accounts;
// its witness carries exactly m signatures. (C03: accounts that are one signature short of the documented
// 2n/3+1 and n/2+1 ones must not be accepted anywhere.)
func AccessMultisig(accs []*wallet.Account, m int) neotest.Signer {
	return multisig(accs, m)
}

// AccessCommitteeMultisig returns the m-of-n multi-signature account over the committee keys of this chain.
func (c *Chain) AccessCommitteeMultisig(m int) neotest.Signer {
	accs := make([]*wallet.Account, len(c.Members))
	for i := range c.Members {
		accs[i] = c.Members[i].Account()
	}
	return multisig(accs, m)
}
