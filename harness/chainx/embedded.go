package chainx

import (
	"encoding/json"
	"os"
	"path/filepath"

	"github.com/nspcc-dev/neo-go/pkg/core/state"
	"github.com/nspcc-dev/neo-go/pkg/neotest"
	"github.com/nspcc-dev/neo-go/pkg/smartcontract/manifest"
	"github.com/nspcc-dev/neo-go/pkg/smartcontract/nef"
	"github.com/stretchr/testify/require"
)

// UseEmbedded reports whether contracts are to be taken from the shipped contract.nef / manifest.json
// instead of being compiled from source (VERIF_USE_EMBEDDED=1; used by the C15 check to look for an input
// on which a stale executable behaves differently from the sources' model).
func UseEmbedded() bool { return os.Getenv("VERIF_USE_EMBEDDED") == "1" }

// LoadEmbedded reads contracts/<name>/contract.nef and manifest.json of the repository under test.
func (c *Chain) LoadEmbedded(name string) *neotest.Contract {
	dir := filepath.Join(Repo(), "contracts", name)
	nb, err := os.ReadFile(filepath.Join(dir, "contract.nef"))
	require.NoError(c.T, err)
	nf, err := nef.FileFromBytes(nb)
	require.NoError(c.T, err)
	mb, err := os.ReadFile(filepath.Join(dir, "manifest.json"))
	require.NoError(c.T, err)
	m := new(manifest.Manifest)
	require.NoError(c.T, json.Unmarshal(mb, m))
	return &neotest.Contract{Hash: state.CreateContractHash(c.Cmt.ScriptHash(), nf.Checksum, m.Name), NEF: &nf, Manifest: m}
}
