package chainx

import (
	"fmt"

	"github.com/nspcc-dev/neo-go/pkg/core/block"
	istorage "github.com/nspcc-dev/neo-go/pkg/core/interop/storage"
	"github.com/nspcc-dev/neo-go/pkg/neotest"
	"github.com/nspcc-dev/neo-go/pkg/smartcontract/callflag"
	"github.com/nspcc-dev/neo-go/pkg/smartcontract/trigger"
	"github.com/nspcc-dev/neo-go/pkg/util"
	"github.com/nspcc-dev/neo-go/pkg/vm/stackitem"
)

// Helpers added for the Container harness (C04, C05).

// CntInvokeDedup is Invoke with signers of equal script hash merged (for committees of 1 and 4 members the
// Alphabet and the committee accounts coincide).
func (c *Chain) CntInvokeDedup(signers []neotest.Signer, h util.Uint160, method string, args ...any) Result {
	return c.Invoke(CntDedupSigners(signers), h, method, args...)
}

// CntDedupSigners drops signers whose script hash already occurred.
func CntDedupSigners(signers []neotest.Signer) []neotest.Signer {
	seen := map[util.Uint160]bool{}
	var out []neotest.Signer
	for _, s := range signers {
		if !seen[s.ScriptHash()] {
			seen[s.ScriptHash()] = true
			out = append(out, s)
		}
	}
	return out
}

// CntCallIter test-invokes a method that returns a storage iterator and drains it before the interop context is
// finalized (Executor.TestInvoke finalizes on return, which cancels the iterator).
func (c *Chain) CntCallIter(h util.Uint160, method string, args ...any) ([]stackitem.Item, error) {
	tx := c.NewTx(nil, h, method, args...)
	tx.ValidUntilBlock = c.BC.BlockHeight() + 2
	last, err := c.BC.GetBlock(c.BC.GetHeaderHash(c.BC.BlockHeight()))
	if err != nil {
		return nil, err
	}
	b := &block.Block{Header: block.Header{Index: c.BC.BlockHeight() + 1, Timestamp: last.Timestamp + 1}}
	ttx := *tx
	ic, err := c.BC.GetTestVM(trigger.Application, &ttx, b)
	if err != nil {
		return nil, err
	}
	c.CoverVM(ic.VM)
	defer ic.Finalize()
	ic.VM.LoadWithFlags(tx.Script, callflag.All)
	if err := ic.VM.Run(); err != nil {
		return nil, err
	}
	st := ic.VM.Estack().ToArray()
	if len(st) != 1 {
		return nil, fmt.Errorf("iterator call left %d items", len(st))
	}
	iter, ok := st[0].Value().(*istorage.Iterator)
	if !ok {
		return nil, fmt.Errorf("not an iterator: %T", st[0].Value())
	}
	var out []stackitem.Item
	for iter.Next() {
		out = append(out, iter.Value())
	}
	return out, nil
}
