package chainx

import (
	"crypto/elliptic"
	"math/big"

	"github.com/nspcc-dev/neo-go/pkg/crypto/keys"
	"github.com/nspcc-dev/neo-go/pkg/neotest"
	"github.com/nspcc-dev/neo-go/pkg/wallet"
)

// NegKey returns the private key n−d for the private key d (secp256r1): its public key is −P, i.e. the same
// X coordinate with the opposite Y parity, so the two compressed public keys are 02‖X and 03‖X. Both are
// ordinary keys, each signs its own witness. Storage keys that drop or ignore the parity byte collide on such a pair.
func NegKey(k *keys.PrivateKey) *keys.PrivateKey {
	n := elliptic.P256().Params().N
	d := new(big.Int).SetBytes(k.Bytes())
	nd := new(big.Int).Sub(n, d)
	b := nd.FillBytes(make([]byte, 32))
	out, err := keys.NewPrivateKeyFromBytes(b)
	if err != nil {
		panic(err)
	}
	return out
}

// UserOfKey returns the funded single-key account of an explicitly given private key (cached under tag).
func (c *Chain) UserOfKey(tag string, k *keys.PrivateKey) neotest.SingleSigner {
	if u, ok := c.users[tag]; ok {
		return u
	}
	u := neotest.NewSingleSigner(wallet.NewAccountFromPrivateKey(k))
	c.users[tag] = u
	c.FundGAS(100_000_0000_0000, u.ScriptHash())
	return u
}

// ParityPair returns two funded accounts whose compressed public keys differ only in the leading parity byte:
// User(tag) and the account of the negated private key.
func (c *Chain) ParityPair(tag string) (neotest.SingleSigner, neotest.SingleSigner) {
	a := c.User(tag)
	b := c.UserOfKey(tag+"-neg", NegKey(Key("user-"+tag)))
	return a, b
}
