package chainx

// Helpers of the upgrade harness (property C16): "old" contracts are the CURRENT sources of the repository
// under test compiled in a scratch copy with a patched version constant and two added raw storage
// methods, so that a storage in an old layout can be written before the contract is updated to the
// executable compiled from the repository under test itself.

import (
	"encoding/json"
	"fmt"
	"io/fs"
	"os"
	"path/filepath"
	"regexp"
	"strings"

	"github.com/nspcc-dev/neo-go/pkg/core/native/nativenames"
	"github.com/nspcc-dev/neo-go/pkg/core/state"
	"github.com/nspcc-dev/neo-go/pkg/core/transaction"
	"github.com/nspcc-dev/neo-go/pkg/crypto/keys"
	"github.com/nspcc-dev/neo-go/pkg/neotest"
	"github.com/nspcc-dev/neo-go/pkg/smartcontract"
	"github.com/nspcc-dev/neo-go/pkg/util"
	"github.com/stretchr/testify/require"
)

// Scratch is a temporary directory OUTSIDE the repository and the verification tree that holds one reduced
// copy of the contract sources per patched version. Close removes it.
type Scratch struct {
	Root string
	made map[int]string
}

// NewScratch creates the temporary root directory.
func NewScratch() (*Scratch, error) {
	d, err := os.MkdirTemp("", "verif-upgrade-")
	if err != nil {
		return nil, err
	}
	return &Scratch{Root: d, made: map[int]string{}}, nil
}

// Close removes everything that was generated.
func (s *Scratch) Close() { _ = os.RemoveAll(s.Root) }

var versionLine = regexp.MustCompile(`(?m)^(\s*)Version\s*=.*$`)

const rawMethods = `package %s

import "github.com/nspcc-dev/neo-go/pkg/interop/storage"

// VerifPut writes a raw storage item (verification harness only; exists only in the scratch copy).
func VerifPut(key, value []byte) { storage.Put(storage.GetContext(), key, value) }

// VerifDelete removes a raw storage item (verification harness only; exists only in the scratch copy).
func VerifDelete(key []byte) { storage.Delete(storage.GetContext(), key) }
`

var pkgLine = regexp.MustCompile(`(?m)^package\s+(\w+)`)

// Dir returns the scratch module directory whose common.Version is `version`, creating it on first use:
// go.mod, go.sum, common/ and contracts/ (Go sources and config.yml only) of Repo(); common/version.go gets
// `Version = <version>`; every contract package gets VerifPut / VerifDelete.
func (s *Scratch) Dir(version int) (string, error) {
	if d, ok := s.made[version]; ok {
		return d, nil
	}
	root := filepath.Join(s.Root, fmt.Sprintf("v%d", version))
	repo := Repo()
	for _, f := range []string{"go.mod", "go.sum"} {
		b, err := os.ReadFile(filepath.Join(repo, f))
		if err != nil {
			return "", err
		}
		if err := os.MkdirAll(root, 0o755); err != nil {
			return "", err
		}
		if err := os.WriteFile(filepath.Join(root, f), b, 0o644); err != nil {
			return "", err
		}
	}
	for _, sub := range []string{"common", "contracts"} {
		err := filepath.WalkDir(filepath.Join(repo, sub), func(p string, d fs.DirEntry, err error) error {
			if err != nil {
				return err
			}
			rel, _ := filepath.Rel(repo, p)
			if d.IsDir() {
				if d.Name() == "testdata" {
					return filepath.SkipDir
				}
				return os.MkdirAll(filepath.Join(root, rel), 0o755)
			}
			n := d.Name()
			if strings.HasSuffix(n, "_test.go") || !(strings.HasSuffix(n, ".go") || strings.HasSuffix(n, ".yml")) {
				return nil
			}
			b, err := os.ReadFile(p)
			if err != nil {
				return err
			}
			if rel == filepath.Join("common", "version.go") {
				if !versionLine.Match(b) {
					return fmt.Errorf("common/version.go: no `Version = …` line to patch")
				}
				b = versionLine.ReplaceAll(b, []byte(fmt.Sprintf("${1}Version = %d", version)))
			}
			return os.WriteFile(filepath.Join(root, rel), b, 0o644)
		})
		if err != nil {
			return "", err
		}
	}
	// raw storage access for every contract package
	ents, err := os.ReadDir(filepath.Join(root, "contracts"))
	if err != nil {
		return "", err
	}
	for _, e := range ents {
		if !e.IsDir() {
			continue
		}
		src, err := os.ReadFile(filepath.Join(root, "contracts", e.Name(), "contract.go"))
		if err != nil {
			continue
		}
		m := pkgLine.FindSubmatch(src)
		if m == nil {
			continue
		}
		if err := os.WriteFile(filepath.Join(root, "contracts", e.Name(), "verif_raw.go"),
			[]byte(fmt.Sprintf(rawMethods, m[1])), 0o644); err != nil {
			return "", err
		}
	}
	s.made[version] = root
	return root, nil
}

// CompileOld compiles contracts/<name> of the scratch copy with the given version (cached per process).
func (c *Chain) CompileOld(s *Scratch, name string, version int) *neotest.Contract {
	root, err := s.Dir(version)
	require.NoError(c.T, err)
	p := filepath.Join(root, "contracts", name)
	return neotest.CompileFile(c.T, c.Cmt.ScriptHash(), p, filepath.Join(p, "config.yml"))
}

// DeployFresh deploys a compiled contract in a transaction sent by Payer and witnessed by the committee
// majority AND the Alphabet account (deployments that subscribe to Netmap's NewEpoch need the latter), and
// returns the contract's real hash (neotest caches compiled contracts together with the hash computed for
// the first sender it saw, which is useless across committee sizes) and the result.
func (c *Chain) DeployFresh(ct *neotest.Contract, data any) (util.Uint160, Result) {
	nb, mb := NefManifest(c.T, ct)
	signers := []neotest.Signer{c.Cmt}
	if c.Alpha.ScriptHash() != c.Cmt.ScriptHash() {
		signers = append(signers, c.Alpha)
	}
	mgmt := c.E.NativeHash(c.T, nativenames.Management)
	r := c.InvokeFee(signers, 200_0000_0000, mgmt, "deploy", nb, mb, data)
	h := state.CreateContractHash(c.Payer.ScriptHash(), ct.NEF.Checksum, ct.Manifest.Name)
	cp := *ct
	cp.Hash = h
	coverTrack(ct.Manifest.Name, &cp)
	return h, r
}

// NewScriptTxFee is NewScriptTx with a caller-chosen system fee (migrations of large storages and the raw
// writes that prepare them need more than NewScriptTx's fixed 50 GAS).
func (c *Chain) NewScriptTxFee(signers []neotest.Signer, script []byte, sysFee int64) *transaction.Transaction {
	tx := transaction.New(script, 0)
	c.nonce++
	tx.Nonce = c.nonce
	tx.ValidUntilBlock = c.BC.BlockHeight() + 1
	all := []neotest.Signer{c.Payer}
	tx.Signers = append(tx.Signers, transaction.Signer{Account: c.Payer.ScriptHash(), Scopes: transaction.None})
	for _, s := range signers {
		if s.ScriptHash() == c.Payer.ScriptHash() {
			continue
		}
		all = append(all, s)
		tx.Signers = append(tx.Signers, transaction.Signer{Account: s.ScriptHash(), Scopes: transaction.Global})
	}
	neotest.AddNetworkFee(c.T, c.BC, tx, all...)
	tx.SystemFee = sysFee
	for _, s := range all {
		require.NoError(c.T, s.SignTx(c.BC.GetConfig().Magic, tx))
	}
	return tx
}

// InvokeFee is Invoke with a caller-chosen system fee.
func (c *Chain) InvokeFee(signers []neotest.Signer, sysFee int64, h util.Uint160, method string, args ...any) Result {
	script, err := smartcontract.CreateCallScript(h, method, args...)
	require.NoError(c.T, err)
	return c.Exec(c.NewScriptTxFee(signers, script, sysFee))[0]
}

// NefManifest returns the serialized executable and manifest (the arguments of `update`).
func NefManifest(t require.TestingT, ct *neotest.Contract) ([]byte, []byte) {
	nb, err := ct.NEF.Bytes()
	require.NoError(t, err)
	mb, err := json.Marshal(ct.Manifest)
	require.NoError(t, err)
	return nb, mb
}

// DesignateAlphabet sets the NeoFSAlphabet role (RoleManagement) to the given keys; signed by the committee.
func (c *Chain) DesignateAlphabet(pubs keys.PublicKeys) Result {
	h := c.E.NativeHash(c.T, nativenames.Designation)
	arr := make([]any, len(pubs))
	for i := range pubs {
		arr[i] = pubs[i].Bytes()
	}
	return c.Invoke([]neotest.Signer{c.Cmt}, h, "designateAsRole", int64(16) /* noderoles.NeoFSAlphabet */, arr)
}

// MultiSigOf builds the m-of-n multi-signature signer of the given member accounts (sorted by key as
// MemberAccounts returns them).
func MultiSigOf(idx []int, n, m int) neotest.Signer {
	all := MemberAccounts(n)
	sub := all[:0:0]
	for _, i := range idx {
		sub = append(sub, all[i])
	}
	return multisig(sub, m)
}
