// Package hx: shared plumbing of the correspondence harnesses: environment, PRNG, output files,
// monitor reports and statistics.
package hx

import (
	"bufio"
	"encoding/hex"
	"encoding/json"
	"fmt"
	"math/big"
	"math/rand/v2"
	"os"
	"path/filepath"
	"sort"
	"strconv"
	"strings"
	"testing"

	"verifharness/chainx"
)

// Run holds the files of one harness run.
type Run struct {
	T       testing.TB
	Seed    uint64
	Tier    string // quick | thorough
	Shard   int
	Shards  int
	Mode    string // gen | replay
	OpsIn   string // replay input
	OutDir  string
	ops     *bufio.Writer
	impl    *bufio.Writer
	mon     *bufio.Writer
	files   []*os.File
	Stats   map[string]int
	Samples []string
	curCase string
	caseOps []string
	Viol    int
	seen    map[string]struct{}
	lastOOG int64
}

func env(k, d string) string {
	if v := os.Getenv(k); v != "" {
		return v
	}
	return d
}

// Open reads the VERIF_* environment and opens the output files.
func Open(t testing.TB) *Run {
	r := &Run{T: t, Stats: map[string]int{}}
	r.Seed, _ = strconv.ParseUint(env("VERIF_SEED", "1"), 10, 64)
	r.Tier = env("VERIF_TIER", "quick")
	r.Mode = env("VERIF_MODE", "gen")
	r.OpsIn = os.Getenv("VERIF_OPS")
	r.OutDir = env("VERIF_OUT", ".")
	sh := strings.Split(env("VERIF_SHARD", "0/1"), "/")
	r.Shard, _ = strconv.Atoi(sh[0])
	r.Shards, _ = strconv.Atoi(sh[1])
	if r.Shards < 1 {
		r.Shards = 1
	}
	mk := func(name string) *bufio.Writer {
		f, err := os.Create(filepath.Join(r.OutDir, name))
		if err != nil {
			t.Fatal(err)
		}
		r.files = append(r.files, f)
		return bufio.NewWriterSize(f, 1<<16)
	}
	r.ops, r.impl, r.mon = mk("ops.txt"), mk("impl.txt"), mk("monitor.jsonl")
	return r
}

// Close flushes everything and writes stats.json.
func (r *Run) Close() {
	r.ops.Flush()
	r.impl.Flush()
	r.mon.Flush()
	for _, f := range r.files {
		f.Close()
	}
	chainx.WriteCover()
	b, _ := json.MarshalIndent(map[string]any{"stats": r.Stats, "samples": r.Samples, "violations": r.Viol}, "", " ")
	_ = os.WriteFile(filepath.Join(r.OutDir, "stats.json"), b, 0o644)
}

// Rand returns the PRNG for a case: everything random in a case derives from (seed, shard, case index).
func (r *Run) Rand(caseIdx int) *rand.Rand {
	return rand.New(rand.NewPCG(r.Seed, uint64(r.Shard)<<32|uint64(caseIdx)))
}

// Case starts a new case: both sides reset their state. attrs are echoed to the model.
func (r *Run) Case(id string, attrs ...string) {
	line := "case " + id
	if len(attrs) > 0 {
		line += " " + strings.Join(attrs, " ")
	}
	r.curCase = id
	r.caseOps = r.caseOps[:0]
	fmt.Fprintln(r.ops, line)
	fmt.Fprintln(r.impl, line)
	r.Stats["cases"]++
}

// Op records one operation line (input of the model) and the implementation's observation line.
func (r *Run) Op(opLine, obs string) {
	if n := chainx.OutOfGas; n != r.lastOOG {
		// a transaction of this case ran out of the system fee the harness chose: the case is listed and not judged
		r.lastOOG = n
		r.Stats["resource.out-of-gas"]++
		if f, err := os.OpenFile(filepath.Join(r.OutDir, "resource_limited.txt"), os.O_APPEND|os.O_CREATE|os.O_WRONLY, 0o644); err == nil {
			fmt.Fprintln(f, r.curCase)
			f.Close()
		}
	}
	fmt.Fprintln(r.ops, opLine)
	fmt.Fprintln(r.impl, obs)
	r.caseOps = append(r.caseOps, opLine)
	r.Stats["ops"]++
	if !strings.HasPrefix(obs, "FAULT") {
		// distinct non-trivial evaluations: distinct (operation, observation) pairs of HALTed invocations
		if r.seen == nil {
			r.seen = map[string]struct{}{}
		}
		k := opLine + "\x00" + obs
		if _, ok := r.seen[k]; !ok {
			r.seen[k] = struct{}{}
			r.Stats["distinct"]++
		}
	}
	r.ops.Flush()
	r.impl.Flush()
}

// CaseOps returns the op lines of the current case so far.
func (r *Run) CaseOps() []string { return append([]string{}, r.caseOps...) }

// Count increments a named statistic (op kinds, outcome kinds, branch classes).
func (r *Run) Count(k string) { r.Stats[k]++ }

// Sample keeps up to 5 sample cases for the evidence file.
func (r *Run) Sample(s string) {
	if len(r.Samples) < 5 {
		r.Samples = append(r.Samples, s)
	}
}

// Violation reports that the property monitor fired on the implementation's own observations.
// what: short class of the failure (used to match known findings); detail: free text.
func (r *Run) Violation(property, site, what, detail string) {
	r.Viol++
	rec := map[string]any{"property": property, "site": site, "what": what, "detail": detail,
		"case": r.curCase, "ops": r.CaseOps(), "seed": r.Seed, "shard": r.Shard}
	b, _ := json.Marshal(rec)
	fmt.Fprintln(r.mon, string(b))
	r.mon.Flush()
}

// ReplayLines returns the lines of the VERIF_OPS file.
func (r *Run) ReplayLines() []string {
	b, err := os.ReadFile(r.OpsIn)
	if err != nil {
		r.T.Fatal(err)
	}
	var out []string
	for _, l := range strings.Split(string(b), "\n") {
		l = strings.TrimSpace(l)
		if l != "" && !strings.HasPrefix(l, "#") {
			out = append(out, l)
		}
	}
	return out
}

// Hex prints bytes the way the model does ("-" for empty).
func Hex(b []byte) string {
	if len(b) == 0 {
		return "-"
	}
	return hex.EncodeToString(b)
}

// UnHex parses Hex output.
func UnHex(s string) []byte {
	if s == "-" {
		return nil
	}
	b, err := hex.DecodeString(s)
	if err != nil {
		panic("bad hex " + s)
	}
	return b
}

// Big parses a decimal integer.
func Big(s string) *big.Int {
	z, ok := new(big.Int).SetString(s, 10)
	if !ok {
		panic("bad int " + s)
	}
	return z
}

// SortedKeys returns the sorted keys of a map.
func SortedKeys[V any](m map[string]V) []string {
	ks := make([]string, 0, len(m))
	for k := range m {
		ks = append(ks, k)
	}
	sort.Strings(ks)
	return ks
}

// Pick returns a random element.
func Pick[T any](rng *rand.Rand, xs []T) T { return xs[rng.IntN(len(xs))] }
