package main

// Go → witness-inertness IR (property C03). See lean/NeoFS/Model/Access.lean for the IR and DESIGN.md
// appendix K for the translation table. Anything the translator does not recognise becomes
// `choice effect skip`, which can only make the inertness check fail, never pass.

import (
	"encoding/json"
	"fmt"
	"go/ast"
	"go/constant"
	"go/parser"
	"go/token"
	"go/types"
	"os"
	"regexp"
	"sort"
	"strconv"
	"strings"

	"golang.org/x/tools/go/packages"
	"gopkg.in/yaml.v3"
)

type St struct {
	K       string // skip effect fault ret retT retF brk guard seq ifW choice loop try scope callIf
	W       string
	A, B, C *St
	Note    string
}

func sk() *St         { return &St{K: "skip"} }
func mk(k string) *St { return &St{K: k} }
func seq(a, b *St) *St {
	if a.K == "skip" {
		return b
	}
	if b.K == "skip" {
		return a
	}
	return &St{K: "seq", A: a, B: b}
}
func seqs(xs ...*St) *St {
	r := sk()
	for i := len(xs) - 1; i >= 0; i-- {
		r = seq(xs[i], r)
	}
	return r
}
func choice(a, b *St) *St {
	if a.K == "skip" && b.K == "skip" {
		return sk()
	}
	return &St{K: "choice", A: a, B: b}
}

func hasEffect(s *St) bool {
	if s == nil {
		return false
	}
	return s.K == "effect" || hasEffect(s.A) || hasEffect(s.B) || hasEffect(s.C)
}
func hasKind(s *St, k string) bool {
	if s == nil {
		return false
	}
	return s.K == k || hasKind(s.A, k) || hasKind(s.B, k) || hasKind(s.C, k)
}
func atomsOf(s *St, m map[string]bool) {
	if s == nil {
		return
	}
	if s.W != "" {
		m[s.W] = true
	}
	atomsOf(s.A, m)
	atomsOf(s.B, m)
	atomsOf(s.C, m)
}
func size(s *St) int {
	if s == nil {
		return 0
	}
	return 1 + size(s.A) + size(s.B) + size(s.C)
}

type tr struct {
	decls    map[*types.Func]*ast.FuncDecl
	dpkg     map[*types.Func]*packages.Package
	stack    []*types.Func
	subst    map[types.Object]string   // parameters of inlined functions -> argument text
	locals   map[types.Object]ast.Expr // single-assignment local initialisers
	localPkg map[types.Object]*packages.Package
	nassign  map[types.Object]int
	rangeOf  map[types.Object]ast.Expr // value variable of `for _, v := range X` -> X
	effMemo  map[*types.Func]int // 0 unknown, 1 computing, 2 no, 3 yes
	unknown  map[string]int
}

func pshort(p string) string { return p[strings.LastIndex(p, "/")+1:] }

func (t *tr) fn(p *packages.Package, e ast.Expr) *types.Func {
	switch f := e.(type) {
	case *ast.SelectorExpr:
		if o, ok := p.TypesInfo.Uses[f.Sel].(*types.Func); ok {
			return o
		}
	case *ast.Ident:
		if o, ok := p.TypesInfo.Uses[f].(*types.Func); ok {
			return o
		}
	case *ast.ParenExpr:
		return t.fn(p, f.X)
	}
	return nil
}

func qname(f *types.Func) string {
	if f == nil || f.Pkg() == nil {
		return ""
	}
	return pshort(f.Pkg().Path()) + "." + f.Name()
}

// render prints an expression with inlined-call parameters replaced by the caller's argument text and
// single-assignment locals replaced by their initialiser (two levels deep).
func (t *tr) render(p *packages.Package, e ast.Expr, depth int) string {
	// anything with a constant value (named constants of any spelling, literals, constant arithmetic) is rendered as its VALUE:
	// the witness subject must not depend on how a constant is called or spelled
	if tv, ok := p.TypesInfo.Types[e]; ok && tv.Value != nil && repoConstExpr(p, e) {
		switch tv.Value.Kind() {
		case constant.Int, constant.String, constant.Bool:
			return tv.Value.ExactString()
		}
	}
	switch x := e.(type) {
	case *ast.Ident:
		o := p.TypesInfo.Uses[x]
		if o == nil {
			o = p.TypesInfo.Defs[x]
		}
		if o != nil {
			if s, ok := t.subst[o]; ok {
				return s
			}
			if c, ok := o.(*types.Const); ok && c.Pkg() != nil && strings.Contains(c.Pkg().Path(), "neofs-contract") {
				switch c.Val().Kind() {
				case constant.Int, constant.String, constant.Bool:
					return c.Val().ExactString()
				}
			}
			if rx, ok := t.rangeOf[o]; ok && depth < 3 {
				return "elem(" + t.render(t.localPkg[o], rx, depth+1) + ")"
			}
			if init, ok := t.locals[o]; ok && t.nassign[o] == 1 && depth < 3 {
				return t.render(t.localPkg[o], init, depth+1)
			}
			if f, ok := o.(*types.Func); ok && f.Pkg() != nil {
				return qname(f)
			}
		}
		return x.Name
	case *ast.ParenExpr:
		return "(" + t.render(p, x.X, depth) + ")"
	case *ast.SelectorExpr:
		if f, ok := p.TypesInfo.Uses[x.Sel].(*types.Func); ok && f.Pkg() != nil {
			if sel, ok := p.TypesInfo.Selections[x]; ok && sel.Kind() == types.MethodVal {
				return t.render(p, x.X, depth) + "." + x.Sel.Name
			}
			return qname(f)
		}
		if id, ok := x.X.(*ast.Ident); ok {
			if _, isPkg := p.TypesInfo.Uses[id].(*types.PkgName); isPkg {
				return id.Name + "." + x.Sel.Name
			}
		}
		return t.render(p, x.X, depth) + "." + x.Sel.Name
	case *ast.CallExpr:
		// a zero-argument helper that only computes an address (`x := <expr>; return f(x, ..)`, result []byte) is rendered as
		// what it returns, so that the witness subject does not depend on the helper's NAME (common.AlphabetAddress,
		// common.CommitteeAddress, neofs.AlphabetAddress)
		if len(x.Args) == 0 && depth < 3 {
			if f := t.fn(p, x.Fun); f != nil {
				if fd, ok := t.decls[f]; ok && fd.Body != nil && fd.Recv == nil && fd.Type.Params.NumFields() == 0 && returnsBytes(f) {
					if ret := addressHelperResult(fd); ret != nil {
						if cp := t.dpkg[f]; cp != nil {
							return t.render(cp, ret, depth+1)
						}
					}
				}
			}
		}
		// an UNEXPORTED helper of the repository whose body is `return <expr>` is rendered as that expression with the
		// arguments in place of the parameters (alphabet.index(ctx)): its name is not part of the witness subject
		if depth < 3 {
			if f := t.fn(p, x.Fun); f != nil && !f.Exported() {
				if fd, ok := t.decls[f]; ok && fd.Body != nil && fd.Recv == nil && len(fd.Body.List) == 1 {
					if rs, ok := fd.Body.List[0].(*ast.ReturnStmt); ok && len(rs.Results) == 1 {
						if cp := t.dpkg[f]; cp != nil {
							var params []types.Object
							for _, fl := range fd.Type.Params.List {
								for _, nm := range fl.Names {
									params = append(params, cp.TypesInfo.Defs[nm])
								}
							}
							if len(params) == len(x.Args) {
								saved := map[types.Object]*string{}
								for i, po := range params {
									if po == nil {
										continue
									}
									if old, had := t.subst[po]; had {
										o2 := old
										saved[po] = &o2
									} else {
										saved[po] = nil
									}
									t.subst[po] = t.render(p, x.Args[i], depth)
								}
								out := t.render(cp, rs.Results[0], depth+1)
								for po, old := range saved {
									if old == nil {
										delete(t.subst, po)
									} else {
										t.subst[po] = *old
									}
								}
								return out
							}
						}
					}
				}
			}
		}
		var as []string
		for _, a := range x.Args {
			as = append(as, t.render(p, a, depth))
		}
		return t.render(p, x.Fun, depth) + "(" + strings.Join(as, ", ") + ")"
	case *ast.IndexExpr:
		return t.render(p, x.X, depth) + "[" + t.render(p, x.Index, depth) + "]"
	case *ast.SliceExpr:
		lo, hi := "", ""
		if x.Low != nil {
			lo = t.render(p, x.Low, depth)
		}
		if x.High != nil {
			hi = t.render(p, x.High, depth)
		}
		return t.render(p, x.X, depth) + "[" + lo + ":" + hi + "]"
	case *ast.BinaryExpr:
		return t.render(p, x.X, depth) + x.Op.String() + t.render(p, x.Y, depth)
	case *ast.UnaryExpr:
		return x.Op.String() + t.render(p, x.X, depth)
	case *ast.StarExpr:
		return "*" + t.render(p, x.X, depth)
	case *ast.TypeAssertExpr:
		return t.render(p, x.X, depth)
	}
	return types.ExprString(e)
}

// repoConstExpr: a constant expression built only from literals and constants declared in the repository under test
// (constants of neo-go's interop packages such as gas.Hash or roles.NeoFSAlphabet keep their qualified names)
func repoConstExpr(p *packages.Package, e ast.Expr) bool {
	switch x := e.(type) {
	case *ast.BasicLit:
		return true
	case *ast.ParenExpr:
		return repoConstExpr(p, x.X)
	case *ast.UnaryExpr:
		return repoConstExpr(p, x.X)
	case *ast.BinaryExpr:
		return repoConstExpr(p, x.X) && repoConstExpr(p, x.Y)
	case *ast.Ident:
		c, ok := p.TypesInfo.Uses[x].(*types.Const)
		return ok && c.Pkg() != nil && strings.Contains(c.Pkg().Path(), "neofs-contract")
	case *ast.SelectorExpr:
		c, ok := p.TypesInfo.Uses[x.Sel].(*types.Const)
		return ok && c.Pkg() != nil && strings.Contains(c.Pkg().Path(), "neofs-contract")
	case *ast.CallExpr: // conversions such as byte(97), int64(5)
		if tv, ok := p.TypesInfo.Types[x.Fun]; ok && tv.IsType() && len(x.Args) == 1 {
			return repoConstExpr(p, x.Args[0])
		}
	}
	return false
}

var reMultisig = regexp.MustCompile(`^contract\.CreateMultisigAccount\((.+),neo\.GetCommittee\(\)\)$`)
var siteThresholds = map[string]bool{}
var reNeofsAlpha = regexp.MustCompile(`^(neofs\.[a-z][A-Za-z0-9]*\(|common\.Multiaddress\()neofs\.[a-z][A-Za-z0-9]*\([a-zA-Z.]*(\(\))?\)(,false)?\)$`)

func returnsBytes(f *types.Func) bool {
	sig, ok := f.Type().(*types.Signature)
	if !ok || sig.Results().Len() != 1 {
		return false
	}
	sl, ok := sig.Results().At(0).Type().Underlying().(*types.Slice)
	if !ok {
		return false
	}
	b, ok := sl.Elem().Underlying().(*types.Basic)
	return ok && b.Kind() == types.Uint8
}

// addressHelperResult: the body is `v1 := e1; ...; return e` with plain single definitions before one final return
func addressHelperResult(fd *ast.FuncDecl) ast.Expr {
	n := len(fd.Body.List)
	if n == 0 {
		return nil
	}
	for _, st := range fd.Body.List[:n-1] {
		as, ok := st.(*ast.AssignStmt)
		if !ok || as.Tok != token.DEFINE || len(as.Lhs) != 1 || len(as.Rhs) != 1 {
			return nil
		}
	}
	rs, ok := fd.Body.List[n-1].(*ast.ReturnStmt)
	if !ok || len(rs.Results) != 1 {
		return nil
	}
	return rs.Results[0]
}

// canonical names of the recurring witness subjects
func canon(s string) string {
	s = strings.ReplaceAll(s, " ", "")
	switch s {
	case "common.AlphabetAddress()", "common.Multiaddress(neo.GetCommittee(),false)", "common.Multiaddress(common.AlphabetNodes(),false)":
		return "alphabet"
	case "common.CommitteeAddress()", "common.Multiaddress(neo.GetCommittee(),true)", "common.Multiaddress(common.AlphabetNodes(),true)":
		return "committee"
	case "common.Multiaddress(common.InnerRingNodes(),true)":
		return "irMajority"
	case "common.Multiaddress(common.InnerRingNodes(),false)":
		return "irAlphabet"
	case "common.Multiaddress(roles.GetDesignatedByRole(roles.NeoFSAlphabet,uint32(ledger.CurrentIndex()+1)),true)":
		return "irMajority"
	case `common.AlphabetNodes()[storage.Get(storage.GetReadOnlyContext(),"index")]`:
		return "ownAlphabetNode"
	case `contract.Call(storage.Get(storage.GetContext(),"neofsScriptHash"),"alphabetAddress",contract.ReadOnly)`:
		return "neofsAlphabetAddress"
	}
	// a multi-signature account over the committee keys built in place (nns.checkCommittee): the committee atom, provided the
	// threshold is an arithmetic expression of the number of keys; every such expression is emitted into
	// `committeeMultisigThresholds` and must be proved to be the majority (Props/C03 threshold theorems)
	if m := reMultisig.FindStringSubmatch(s); m != nil {
		if pe, err := parser.ParseExpr(strings.ReplaceAll(m[1], "len(neo.GetCommittee())", "n")); err == nil {
			if r := texprOpt(pe, nil); r != "none" {
				siteThresholds[r] = true
				return "committee"
			}
		}
	}
	// the main-chain NeoFS contract computes its Alphabet address from its OWN stored key list: AlphabetAddress() is
	// multiaddress(getAlphabetNodes(ctx)); the body written out, or the common helper applied to the same list, is the same account
	// (the threshold of every function that builds a multi-signature account is covered by the threshold theorems)
	if reNeofsAlpha.MatchString(s) {
		return "neofs.AlphabetAddress()"
	}
	if strings.HasSuffix(s, ").Owner") {
		return "state.Owner"
	}
	if strings.HasSuffix(s, ").Admin") {
		return "state.Admin"
	}
	return s
}

func isCallingHash(t *tr, p *packages.Package, e ast.Expr) bool {
	switch x := e.(type) {
	case *ast.ParenExpr:
		return isCallingHash(t, p, x.X)
	case *ast.CallExpr:
		return qname(t.fn(p, x.Fun)) == "runtime.GetCallingScriptHash"
	case *ast.Ident:
		if o := p.TypesInfo.Uses[x]; o != nil {
			if init, ok := t.locals[o]; ok && t.nassign[o] == 1 {
				return isCallingHash(t, t.localPkg[o], init)
			}
		}
	}
	return false
}

// wit: is the boolean expression a witness test? returns (atom, negated, ok)
func (t *tr) wit(p *packages.Package, e ast.Expr) (string, bool, bool) {
	switch x := e.(type) {
	case *ast.ParenExpr:
		return t.wit(p, x.X)
	case *ast.CallExpr:
		f := t.fn(p, x.Fun)
		if qname(f) == "runtime.CheckWitness" && len(x.Args) == 1 {
			return "W:" + canon(t.render(p, x.Args[0], 0)), false, true
		}
		// caller.Equals(y) / y.Equals(caller) with caller = runtime.GetCallingScriptHash()
		if se, ok := x.Fun.(*ast.SelectorExpr); ok && se.Sel.Name == "Equals" && len(x.Args) == 1 {
			if isCallingHash(t, p, se.X) {
				return "CALLER:" + canon(t.render(p, x.Args[0], 0)), false, true
			}
			if isCallingHash(t, p, x.Args[0]) {
				return "CALLER:" + canon(t.render(p, se.X, 0)), false, true
			}
		}
	case *ast.Ident:
		if o := p.TypesInfo.Uses[x]; o != nil {
			if init, ok := t.locals[o]; ok && t.nassign[o] == 1 {
				if _, isCall := init.(*ast.CallExpr); isCall {
					return t.wit(t.localPkg[o], init)
				}
			}
		}
	case *ast.BinaryExpr:
		// len(v) == 0 / != 0 with v := common.InnerRingInvoker(..): v is the stored key whose witness is present
		if (x.Op == token.EQL || x.Op == token.NEQ) && isZero(x.Y) {
			if c, ok := x.X.(*ast.CallExpr); ok && len(c.Args) == 1 {
				if id, ok := c.Fun.(*ast.Ident); ok && id.Name == "len" {
					if vid, ok := c.Args[0].(*ast.Ident); ok {
						if o := p.TypesInfo.Uses[vid]; o != nil {
							if init, ok := t.locals[o]; ok && t.nassign[o] == 1 {
								if ic, ok := init.(*ast.CallExpr); ok && qname(t.fn(t.localPkg[o], ic.Fun)) == "common.InnerRingInvoker" {
									return "W:storedAlphabetKey", x.Op == token.EQL, true
								}
							}
						}
					}
				}
			}
		}
		// callingScriptHash == x is not used in the tree; bytes are compared with Equals
	}
	return "", false, false
}

func isZero(e ast.Expr) bool {
	l, ok := e.(*ast.BasicLit)
	return ok && l.Value == "0"
}

func isBoolFunc(f *types.Func) bool {
	sig, ok := f.Type().(*types.Signature)
	if !ok || sig.Results().Len() < 1 {
		return false
	}
	// single boolean result, or several results the last of which is the boolean "ok"
	b, ok := sig.Results().At(sig.Results().Len() - 1).Type().Underlying().(*types.Basic)
	return ok && b.Kind() == types.Bool
}

// cond translates `if c {A} else {B}`.
func (t *tr) cond(p *packages.Package, c ast.Expr, A, B *St) *St {
	switch x := c.(type) {
	case *ast.ParenExpr:
		return t.cond(p, x.X, A, B)
	case *ast.UnaryExpr:
		if x.Op == token.NOT {
			return t.cond(p, x.X, B, A)
		}
	case *ast.BinaryExpr:
		if x.Op == token.LAND {
			return t.cond(p, x.X, t.cond(p, x.Y, A, B), B)
		}
		if x.Op == token.LOR {
			return t.cond(p, x.X, A, t.cond(p, x.Y, A, B))
		}
	case *ast.Ident:
		if x.Name == "true" {
			return A
		}
		if x.Name == "false" {
			return B
		}
		// a boolean parameter of an inlined helper bound to a literal at this call site
		if o := p.TypesInfo.Uses[x]; o != nil {
			if v, ok := t.subst[o]; ok {
				if v == "true" {
					return A
				}
				if v == "false" {
					return B
				}
			}
		}
	}
	if w, neg, ok := t.wit(p, c); ok {
		if neg {
			return &St{K: "ifW", W: w, A: B, B: A}
		}
		return &St{K: "ifW", W: w, A: A, B: B}
	}
	// call of a boolean helper with a body: inline it and branch on its result
	if ce, ok := unparen(c).(*ast.CallExpr); ok {
		if f := t.fn(p, ce.Fun); f != nil && isBoolFunc(f) {
			if body, pre, ok := t.inline(p, ce, f); ok {
				return seq(pre, &St{K: "callIf", C: body, A: A, B: B})
			}
		}
	}
	// a boolean local assigned once from an effect-free boolean helper: evaluate the helper here
	if id, ok := unparen(c).(*ast.Ident); ok {
		if o := p.TypesInfo.Uses[id]; o != nil {
			if init, ok := t.locals[o]; ok && t.nassign[o] == 1 {
				if ce, ok := init.(*ast.CallExpr); ok {
					lp := t.localPkg[o]
					if f := t.fn(lp, ce.Fun); f != nil && isBoolFunc(f) && !t.reaches(f) {
						if body, pre, ok := t.inline(lp, ce, f); ok {
							return seq(pre, &St{K: "callIf", C: body, A: A, B: B})
						}
					}
				}
			}
		}
	}
	pre := t.exprCalls(p, c)
	return seq(pre, choice(A, B))
}

func unparen(e ast.Expr) ast.Expr {
	for {
		pe, ok := e.(*ast.ParenExpr)
		if !ok {
			return e
		}
		e = pe.X
	}
}

var effectFns = map[string]bool{
	"storage.Put": true, "storage.Delete": true, "runtime.Notify": true, "gas.Transfer": true, "neo.Transfer": true,
	"neo.Vote": true, "runtime.BurnGas": true, "neo.RegisterCandidate": true, "neo.UnregisterCandidate": true,
	"management.Deploy": true, "management.Update": true, "management.Destroy": true, "management.DeployWithData": true,
	"management.UpdateWithData": true, "roles.DesignateAsRole": true, "policy.SetFeePerByte": true,
}

var readOnlyFlags = map[string]bool{
	"contract.ReadOnly": true, "contract.ReadStates": true, "contract.ReadStates|contract.AllowCall": true,
	"contract.AllowCall|contract.ReadStates": true, "contract.NoneFlag": true, "contract.AllowCall": true,
}

// reaches: can the function (transitively) reach an effect? (syntactic, over the call graph)
func (t *tr) reaches(f *types.Func) bool {
	switch t.effMemo[f] {
	case 1:
		return false // recursion: decided by the other members of the cycle
	case 2:
		return false
	case 3:
		return true
	}
	d, ok := t.decls[f]
	if !ok || d.Body == nil {
		q := qname(f)
		if effectFns[q] || q == "contract.Call" {
			return true
		}
		return false
	}
	t.effMemo[f] = 1
	p := t.dpkg[f]
	res := false
	ast.Inspect(d.Body, func(n ast.Node) bool {
		ce, ok := n.(*ast.CallExpr)
		if !ok || res {
			return !res
		}
		g := t.fn(p, ce.Fun)
		if g == nil {
			if _, isConv := p.TypesInfo.Types[ce.Fun]; !isConv {
				res = true
			}
			return true
		}
		q := qname(g)
		if effectFns[q] {
			res = true
		} else if q == "contract.Call" {
			if len(ce.Args) < 3 || !readOnlyFlags[strings.ReplaceAll(types.ExprString(ce.Args[2]), " ", "")] {
				res = true
			}
		} else if g != f && t.reaches(g) {
			res = true
		}
		return true
	})
	if res {
		t.effMemo[f] = 3
	} else {
		t.effMemo[f] = 2
	}
	return res
}

// inline returns the translated body of the callee with parameters bound to the argument texts, plus the
// translation of the calls nested in the arguments (evaluated before the call).
func (t *tr) inline(p *packages.Package, c *ast.CallExpr, f *types.Func) (body, pre *St, ok bool) {
	d, has := t.decls[f]
	if !has || d.Body == nil {
		return nil, nil, false
	}
	for _, s := range t.stack {
		if s == f {
			return nil, nil, false
		}
	}
	var pres []*St
	for _, a := range c.Args {
		pres = append(pres, t.exprCalls(p, a))
	}
	fp := t.dpkg[f]
	saved := map[types.Object]string{}
	had := map[types.Object]bool{}
	bind := func(id *ast.Ident, text string) {
		o := fp.TypesInfo.Defs[id]
		if o == nil || t.nassign[o] > 0 {
			return // a parameter that is assigned inside the callee keeps its own name
		}
		if old, ok := t.subst[o]; ok {
			saved[o], had[o] = old, true
		} else {
			had[o] = false
		}
		t.subst[o] = text
	}
	// receiver
	if d.Recv != nil && len(d.Recv.List) == 1 && len(d.Recv.List[0].Names) == 1 {
		if se, ok := c.Fun.(*ast.SelectorExpr); ok {
			pres = append(pres, t.exprCalls(p, se.X))
			bind(d.Recv.List[0].Names[0], t.render(p, se.X, 0))
		}
	}
	i := 0
	for _, fl := range d.Type.Params.List {
		for _, n := range fl.Names {
			if i < len(c.Args) {
				if _, variadic := fl.Type.(*ast.Ellipsis); !variadic {
					bind(n, t.render(p, c.Args[i], 0))
				}
			}
			i++
		}
	}
	t.stack = append(t.stack, f)
	body = t.block(fp, d.Body.List)
	t.stack = t.stack[:len(t.stack)-1]
	for o, h := range had {
		if h {
			t.subst[o] = saved[o]
		} else {
			delete(t.subst, o)
		}
	}
	return body, seqs(pres...), true
}

func (t *tr) call(p *packages.Package, c *ast.CallExpr) *St {
	if id, ok := c.Fun.(*ast.Ident); ok {
		if id.Name == "panic" {
			var pre []*St
			for _, a := range c.Args {
				pre = append(pre, t.exprCalls(p, a))
			}
			return seq(seqs(pre...), mk("fault"))
		}
		if _, isBuiltin := p.TypesInfo.Uses[id].(*types.Builtin); isBuiltin {
			var pre []*St
			for _, a := range c.Args {
				pre = append(pre, t.exprCalls(p, a))
			}
			return seqs(pre...)
		}
	}
	if tv, ok := p.TypesInfo.Types[c.Fun]; ok && tv.IsType() { // conversion
		var pre []*St
		for _, a := range c.Args {
			pre = append(pre, t.exprCalls(p, a))
		}
		return seqs(pre...)
	}
	f := t.fn(p, c.Fun)
	argsPre := func() *St {
		var pre []*St
		for _, a := range c.Args {
			pre = append(pre, t.exprCalls(p, a))
		}
		if sel, ok := c.Fun.(*ast.SelectorExpr); ok {
			pre = append(pre, t.exprCalls(p, sel.X))
		}
		return seqs(pre...)
	}
	if f == nil || f.Pkg() == nil {
		t.unknown[types.ExprString(c.Fun)]++
		return seq(argsPre(), choice(&St{K: "effect", Note: "unknown:" + types.ExprString(c.Fun)}, sk()))
	}
	q := qname(f)
	switch q {
	case "util.Abort":
		return seq(argsPre(), mk("fault"))
	case "contract.Call":
		fl := ""
		if len(c.Args) >= 3 {
			fl = strings.ReplaceAll(types.ExprString(c.Args[2]), " ", "")
		}
		if readOnlyFlags[fl] {
			// a read-only call cannot change state; it may FAULT
			return seq(argsPre(), choice(mk("fault"), sk()))
		}
		return seq(argsPre(), seq(choice(mk("fault"), sk()), &St{K: "effect", Note: "call"}))
	case "runtime.CheckWitness":
		return argsPre() // result unused here
	}
	if effectFns[q] {
		return seq(argsPre(), &St{K: "effect", Note: q})
	}
	if body, pre, ok := t.inline(p, c, f); ok {
		return seq(pre, &St{K: "scope", A: body})
	}
	if _, has := t.decls[f]; has {
		// recursion
		if t.reaches(f) {
			return seq(argsPre(), choice(&St{K: "effect", Note: "rec:" + q}, sk()))
		}
		return argsPre()
	}
	// interop / native without body: reads (may FAULT on bad input, which is inert)
	return argsPre()
}

func (t *tr) exprCalls(p *packages.Package, e ast.Expr) *St {
	if e == nil {
		return sk()
	}
	var out []*St
	ast.Inspect(e, func(n ast.Node) bool {
		switch x := n.(type) {
		case *ast.CallExpr:
			out = append(out, t.call(p, x))
			return false
		case *ast.FuncLit:
			out = append(out, choice(&St{K: "effect", Note: "funclit"}, sk()))
			return false
		}
		return true
	})
	return seqs(out...)
}

func containsFallthrough(n ast.Node) bool {
	found := false
	ast.Inspect(n, func(nd ast.Node) bool {
		if b, ok := nd.(*ast.BranchStmt); ok && b.Tok == token.FALLTHROUGH {
			found = true
		}
		return true
	})
	return found
}

func containsLabelJump(n ast.Node) bool {
	found := false
	ast.Inspect(n, func(m ast.Node) bool {
		if b, ok := m.(*ast.BranchStmt); ok && b.Label != nil {
			found = true
		}
		return !found
	})
	return found
}

func (t *tr) block(p *packages.Package, list []ast.Stmt) *St {
	if len(list) == 0 {
		return sk()
	}
	s := list[0]
	rest := list[1:]
	if d, ok := s.(*ast.DeferStmt); ok {
		if fl, ok := d.Call.Fun.(*ast.FuncLit); ok {
			h := t.block(p, fl.Body.List)
			// the handler runs when the rest panics; recover() swallows the panic only if the handler says so,
			// so after the handler both "recovered" and "still faulting" are possible
			return &St{K: "try", A: t.block(p, rest), B: seq(h, choice(mk("fault"), sk()))}
		}
		return seq(choice(&St{K: "effect", Note: "defer"}, sk()), t.block(p, rest))
	}
	return seq(t.stmt(p, s), t.block(p, rest))
}

func (t *tr) stmt(p *packages.Package, s ast.Stmt) *St {
	switch x := s.(type) {
	case *ast.ExprStmt:
		return t.exprCalls(p, x.X)
	case *ast.AssignStmt:
		var out []*St
		skipInline := false
		// `b := helper(..)` with an effect-free boolean helper is evaluated where b is tested
		if len(x.Rhs) == 1 {
			if ce, ok := x.Rhs[0].(*ast.CallExpr); ok {
				if f := t.fn(p, ce.Fun); f != nil && isBoolFunc(f) && !t.reaches(f) {
					if _, has := t.decls[f]; has {
						skipInline = true
					}
				}
			}
		}
		for _, r := range x.Rhs {
			if skipInline {
				if ce, ok := r.(*ast.CallExpr); ok {
					for _, a := range ce.Args {
						out = append(out, t.exprCalls(p, a))
					}
					continue
				}
			}
			out = append(out, t.exprCalls(p, r))
		}
		for _, l := range x.Lhs {
			if _, isIdent := l.(*ast.Ident); !isIdent {
				out = append(out, t.exprCalls(p, l))
			}
		}
		return seqs(out...)
	case *ast.DeclStmt:
		var out []*St
		if gd, ok := x.Decl.(*ast.GenDecl); ok {
			for _, sp := range gd.Specs {
				if vs, ok := sp.(*ast.ValueSpec); ok {
					for _, v := range vs.Values {
						out = append(out, t.exprCalls(p, v))
					}
				}
			}
		}
		return seqs(out...)
	case *ast.IfStmt:
		init := sk()
		if x.Init != nil {
			init = t.stmt(p, x.Init)
		}
		A := t.block(p, x.Body.List)
		B := sk()
		if x.Else != nil {
			switch e := x.Else.(type) {
			case *ast.BlockStmt:
				B = t.block(p, e.List)
			case *ast.IfStmt:
				B = t.stmt(p, e)
			}
		}
		return seq(init, t.cond(p, x.Cond, A, B))
	case *ast.BlockStmt:
		return t.block(p, x.List)
	case *ast.ForStmt:
		init := sk()
		if x.Init != nil {
			init = t.stmt(p, x.Init)
		}
		body := t.block(p, x.Body.List)
		if x.Cond != nil {
			body = seq(t.exprCalls(p, x.Cond), body)
		}
		if x.Post != nil {
			body = seq(body, t.stmt(p, x.Post))
		}
		l := seq(init, &St{K: "loop", A: body})
		if containsLabelJump(x.Body) {
			l = seq(l, choice(sk(), mk("brk"))) // a labelled jump may leave the enclosing iteration
		}
		return l
	case *ast.RangeStmt:
		l := seq(t.exprCalls(p, x.X), seq(choice(mk("fault"), sk()), &St{K: "loop", A: t.block(p, x.Body.List)}))
		if containsLabelJump(x.Body) {
			l = seq(l, choice(sk(), mk("brk")))
		}
		return l
	case *ast.SwitchStmt:
		pre := sk()
		if x.Init != nil {
			pre = t.stmt(p, x.Init)
		}
		hasDefault := false
		var cases []*St
		var conds []*St
		for _, c := range x.Body.List {
			cc := c.(*ast.CaseClause)
			if cc.List == nil {
				hasDefault = true
			}
			for _, e := range cc.List {
				conds = append(conds, t.exprCalls(p, e))
			}
			cases = append(cases, t.block(p, cc.Body))
		}
		var r *St
		if x.Tag == nil && !containsFallthrough(x.Body) {
			// tagless switch = if / else-if chain: keep the guards (a clause with several expressions is their disjunction;
			// the default clause, wherever it stands, is the final else)
			r = sk()
			for _, c := range x.Body.List {
				if cc := c.(*ast.CaseClause); cc.List == nil {
					r = t.block(p, cc.Body)
				}
			}
			for i := len(x.Body.List) - 1; i >= 0; i-- {
				cc := x.Body.List[i].(*ast.CaseClause)
				if cc.List == nil {
					continue
				}
				var c ast.Expr = cc.List[0]
				for _, e := range cc.List[1:] {
					c = &ast.BinaryExpr{X: c, Op: token.LOR, Y: e}
				}
				r = t.cond(p, c, t.block(p, cc.Body), r)
			}
			if hasKind(r, "brk") {
				r = &St{K: "loop", A: seq(r, mk("brk"))}
			}
			return seqs(pre, r)
		}
		if !hasDefault {
			cases = append(cases, sk())
		}
		r = cases[len(cases)-1]
		for i := len(cases) - 2; i >= 0; i-- {
			r = &St{K: "choice", A: cases[i], B: r}
		}
		// `break` inside a switch leaves the switch only: turn brk into normal completion
		if hasKind(r, "brk") {
			r = &St{K: "loop", A: seq(r, mk("brk"))} // executes the switch body at most... (over-approximation: 0..n times)
		}
		return seqs(pre, t.exprCalls(p, x.Tag), seqs(conds...), r)
	case *ast.TypeSwitchStmt:
		var cases []*St
		for _, c := range x.Body.List {
			cases = append(cases, t.block(p, c.(*ast.CaseClause).Body))
		}
		cases = append(cases, sk())
		r := cases[len(cases)-1]
		for i := len(cases) - 2; i >= 0; i-- {
			r = &St{K: "choice", A: cases[i], B: r}
		}
		return r
	case *ast.ReturnStmt:
		if n := len(x.Results); n >= 1 {
			last := x.Results[n-1]
			if tv, ok := p.TypesInfo.Types[last]; ok {
				if b, ok := tv.Type.Underlying().(*types.Basic); ok && b.Kind() == types.Bool || isUntypedBool(tv.Type) {
					var pre []*St
					for _, r := range x.Results[:n-1] {
						pre = append(pre, t.exprCalls(p, r))
					}
					return seq(seqs(pre...), t.cond(p, last, mk("retT"), mk("retF")))
				}
			}
		}
		var out []*St
		for _, r := range x.Results {
			out = append(out, t.exprCalls(p, r))
		}
		out = append(out, mk("ret"))
		return seqs(out...)
	case *ast.BranchStmt:
		if x.Tok == token.CONTINUE || x.Tok == token.BREAK {
			return mk("brk")
		}
		return choice(&St{K: "effect", Note: "goto"}, sk())
	case *ast.IncDecStmt:
		return t.exprCalls(p, x.X)
	case *ast.EmptyStmt:
		return sk()
	case *ast.LabeledStmt:
		return t.stmt(p, x.Stmt)
	case *ast.GoStmt, *ast.SelectStmt, *ast.SendStmt:
		return choice(&St{K: "effect", Note: "concurrency"}, sk())
	case *ast.DeferStmt:
		return choice(&St{K: "effect", Note: "defer"}, sk())
	}
	return choice(&St{K: "effect", Note: fmt.Sprintf("stmt %T", s)}, sk())
}

func isUntypedBool(t types.Type) bool {
	b, ok := t.(*types.Basic)
	return ok && b.Kind() == types.UntypedBool
}

// ---- output ----

func (s *St) lean(idx map[string]int) string {
	switch s.K {
	case "skip", "effect", "fault", "ret", "retT", "retF", "brk":
		return "." + s.K
	case "guard":
		return fmt.Sprintf("(.guard %d)", idx[s.W])
	case "seq", "choice", "try":
		return fmt.Sprintf("(.%s %s %s)", s.K, s.A.lean(idx), s.B.lean(idx))
	case "ifW":
		return fmt.Sprintf("(.ifW %d %s %s)", idx[s.W], s.A.lean(idx), s.B.lean(idx))
	case "loop", "scope":
		return fmt.Sprintf("(.%s %s)", s.K, s.A.lean(idx))
	case "callIf":
		return fmt.Sprintf("(.callIf %s %s %s)", s.C.lean(idx), s.A.lean(idx), s.B.lean(idx))
	}
	panic("lean: " + s.K)
}

// simplify: drop scopes around bodies that cannot return, collapse trivial nodes (keeps terms small for `decide`)
func simplify(s *St) *St {
	if s == nil {
		return nil
	}
	s.A, s.B, s.C = simplify(s.A), simplify(s.B), simplify(s.C)
	switch s.K {
	case "scope":
		if !hasKind(s.A, "ret") && !hasKind(s.A, "retT") && !hasKind(s.A, "retF") {
			return s.A
		}
		if s.A.K == "ret" || s.A.K == "retT" || s.A.K == "retF" {
			return sk()
		}
	case "seq":
		if s.A.K == "skip" {
			return s.B
		}
		if s.B.K == "skip" {
			return s.A
		}
		// nothing after an unconditional stop
		switch s.A.K {
		case "fault", "ret", "retT", "retF", "brk":
			return s.A
		}
	case "choice":
		if s.A.K == "skip" && s.B.K == "skip" {
			return sk()
		}
		if s.A.K == s.B.K && s.A.A == nil && s.A.W == "" {
			return s.A
		}
	case "loop":
		if s.A.K == "skip" {
			return sk()
		}
	case "callIf":
		if s.A.K == "skip" && s.B.K == "skip" && !hasEffect(s.C) && !hasKind(s.C, "fault") && !hasKind(s.C, "guard") {
			return sk()
		}
	}
	return s
}

type methodOut struct {
	Contract string   `json:"contract"`
	Method   string   `json:"method"`
	GoName   string   `json:"go"`
	NParams  int      `json:"nparams"`
	Params   []string `json:"params"`
	Atoms    []string `json:"atoms"`
	Size     int      `json:"size"`
	HasEff   bool     `json:"has_effect"`
	Safe     bool     `json:"safe"`
	lean     string
}

func lowerFirst(s string) string {
	if s == "" {
		return s
	}
	return strings.ToLower(s[:1]) + s[1:]
}

func accessMain(repo, outLean, outJSON string) {
	cfg := &packages.Config{Mode: packages.NeedName | packages.NeedFiles | packages.NeedSyntax | packages.NeedTypes | packages.NeedTypesInfo | packages.NeedImports | packages.NeedDeps, Dir: repo,
		Env: append(os.Environ(), "GOFLAGS=-mod=mod", "GOPROXY=off", "GOSUMDB=off", "GOTOOLCHAIN=local")}
	names := []string{"alphabet", "audit", "balance", "container", "neofs", "neofsid", "netmap", "nns", "processing", "proxy", "reputation"}
	pats := []string{"./common"}
	for _, n := range names {
		pats = append(pats, "./contracts/"+n)
	}
	pkgs, err := packages.Load(cfg, pats...)
	if err != nil {
		die(err)
	}
	t := &tr{decls: map[*types.Func]*ast.FuncDecl{}, dpkg: map[*types.Func]*packages.Package{}, subst: map[types.Object]string{},
		locals: map[types.Object]ast.Expr{}, localPkg: map[types.Object]*packages.Package{}, nassign: map[types.Object]int{}, rangeOf: map[types.Object]ast.Expr{},
		effMemo: map[*types.Func]int{}, unknown: map[string]int{}}
	for _, p := range pkgs {
		if len(p.Errors) > 0 {
			die(fmt.Errorf("package %s: %v", p.PkgPath, p.Errors[0]))
		}
		for _, f := range p.Syntax {
			for _, d := range f.Decls {
				if fd, ok := d.(*ast.FuncDecl); ok {
					if o, ok := p.TypesInfo.Defs[fd.Name].(*types.Func); ok {
						t.decls[o] = fd
						t.dpkg[o] = p
					}
				}
			}
		}
	}
	// pre-pass: count assignments of every local (so that "single assignment" is known before translation)
	for _, p := range pkgs {
		for _, f := range p.Syntax {
			ast.Inspect(f, func(n ast.Node) bool {
				switch x := n.(type) {
				case *ast.AssignStmt:
					for _, l := range x.Lhs {
						if id, ok := l.(*ast.Ident); ok {
							o := p.TypesInfo.Defs[id]
							if o == nil {
								o = p.TypesInfo.Uses[id]
							}
							if o != nil {
								t.nassign[o]++
							}
						}
					}
				case *ast.IncDecStmt:
					if id, ok := x.X.(*ast.Ident); ok {
						if o := p.TypesInfo.Uses[id]; o != nil {
							t.nassign[o] += 2
						}
					}
				case *ast.RangeStmt:
					for _, kv := range []ast.Expr{x.Key, x.Value} {
						if id, ok := kv.(*ast.Ident); ok {
							o := p.TypesInfo.Defs[id]
							if o == nil {
								o = p.TypesInfo.Uses[id]
							}
							if o != nil {
								t.nassign[o] += 2
							}
						}
					}
				case *ast.UnaryExpr:
					if x.Op == token.AND {
						if id, ok := x.X.(*ast.Ident); ok {
							if o := p.TypesInfo.Uses[id]; o != nil {
								t.nassign[o] += 2 // address taken
							}
						}
					}
				}
				return true
			})
		}
	}
	pre := t.nassign
	var outs []methodOut
	for _, p := range pkgs {
		if !strings.Contains(p.PkgPath, "/contracts/") {
			continue
		}
		cname := pshort(p.PkgPath)
		safe := readSafe(repo, cname)
		over := readOverloads(repo, cname)
		for _, f := range p.Syntax {
			for _, d := range f.Decls {
				fd, ok := d.(*ast.FuncDecl)
				if !ok || fd.Body == nil || fd.Recv != nil || !(fd.Name.IsExported() || fd.Name.Name == "_deploy") {
					continue
				}
				// fresh per-method state; assignment counts come from the pre-pass (recordAssign must not double count)
				t.nassign = map[types.Object]int{}
				for k, v := range pre {
					t.nassign[k] = v
				}
				t.locals = map[types.Object]ast.Expr{}
				t.localPkg = map[types.Object]*packages.Package{}
				t.rangeOf = map[types.Object]ast.Expr{}
				collectInits(t, pkgs)
				ir := simplify(t.block(p, fd.Body.List))
				am := map[string]bool{}
				atomsOf(ir, am)
				var as []string
				for a := range am {
					as = append(as, a)
				}
				sort.Strings(as)
				idx := map[string]int{}
				for i, a := range as {
					idx[a] = i
				}
				mname := lowerFirst(fd.Name.Name)
				if fd.Name.Name == "_deploy" {
					mname = "_deploy"
				}
				if o, ok := over[fd.Name.Name]; ok {
					mname = o
				}
				var params []string
				for _, fl := range fd.Type.Params.List {
					for _, n := range fl.Names {
						params = append(params, n.Name)
					}
				}
				outs = append(outs, methodOut{Contract: cname, Method: mname, GoName: fd.Name.Name, NParams: len(params), Params: params,
					Atoms: as, Size: size(ir), HasEff: hasEffect(ir), Safe: safe[mname], lean: ir.lean(idx)})
			}
		}
	}
	sort.Slice(outs, func(i, j int) bool {
		if outs[i].Contract != outs[j].Contract {
			return outs[i].Contract < outs[j].Contract
		}
		if outs[i].Method != outs[j].Method {
			return outs[i].Method < outs[j].Method
		}
		return outs[i].NParams < outs[j].NParams
	})
	var b strings.Builder
	b.WriteString("import NeoFS.Model.Access\nimport NeoFS.Model.Threshold\n/-! GENERATED by /verif/extract (access) from the contract sources of the repository under test. Do not edit. -/\nnamespace NeoFS.Generated.Access\nopen NeoFS.Access\n\n")
	b.WriteString("structure MethodIR where\n  contract : String\n  method : String\n  nparams : Nat\n  params : List String\n  atoms : List String\n  safe : Bool\n  prog : Stmt\n\n")
	var ids []string
	for i, m := range outs {
		id := fmt.Sprintf("m%d_%s_%s_%d", i, m.Contract, strings.TrimPrefix(m.Method, "_"), m.NParams)
		ids = append(ids, id)
		fmt.Fprintf(&b, "def %s_prog : Stmt :=\n  %s\n", id, m.lean)
		fmt.Fprintf(&b, "def %s : MethodIR := ⟨%s, %s, %d, %s, %s, %v, %s_prog⟩\n\n", id, leanStr(m.Contract), leanStr(m.Method), m.NParams, strList(m.Params), strList(m.Atoms), m.Safe, id)
	}
	fmt.Fprintf(&b, "def methods : List MethodIR := [%s]\n\n", strings.Join(ids, ", "))
	// the threshold expressions of common.Multiaddress and nns.checkCommittee: the first argument of their
	// CreateMultisigAccount call, as text (for the reader) and as a TExpr value (for the theorems)
	var otherSites []string
	thrText, thrExpr := map[string]string{}, map[string]string{}
	emitThr := func(name string, e ast.Expr, fd *ast.FuncDecl) {
		thrText[name] = strings.ReplaceAll(types.ExprString(e), " ", "")
		thrExpr[name] = texprOpt(e, fd)
	}
	nnsUsesCommon := false
	for _, p := range pkgs {
		for _, f := range p.Syntax {
			for _, d := range f.Decls {
				fd, ok := d.(*ast.FuncDecl)
				if !ok || fd.Body == nil {
					continue
				}
				isMA := pshort(p.PkgPath) == "common" && fd.Name.Name == "Multiaddress"
				// the NNS committee gate is recognised by what it does, not by its name: a function of package nns that builds a
				// multi-signature account in place, or that asks the common helper for the committee account
				isNNS := pshort(p.PkgPath) == "nns" && (fd.Name.Name == "checkCommittee" || buildsMultisig(fd) || (!fd.Name.IsExported() && asksCommitteeAddress(t, p, fd)))
				if !isMA && !isNNS {
					// any other function that builds a multi-signature account from a key list (neofs.multiaddress): listed with its
					// threshold; Props/C03 demands that each of them is the Alphabet threshold 2n/3+1
					ast.Inspect(fd.Body, func(nd ast.Node) bool {
						if ce, ok := nd.(*ast.CallExpr); ok && len(ce.Args) == 2 {
							if se, ok := ce.Fun.(*ast.SelectorExpr); ok && se.Sel.Name == "CreateMultisigAccount" {
								otherSites = append(otherSites, fmt.Sprintf("(%s, %s)", leanStr(pshort(p.PkgPath)+"."+fd.Name.Name), texprOpt(ce.Args[0], fd)))
							}
						}
						return true
					})
					continue
				}
				var arg ast.Expr
				ast.Inspect(fd.Body, func(nd ast.Node) bool {
					if ce, ok := nd.(*ast.CallExpr); ok && len(ce.Args) == 2 {
						if se, ok := ce.Fun.(*ast.SelectorExpr); ok && se.Sel.Name == "CreateMultisigAccount" && arg == nil {
							arg = ce.Args[0]
						}
					}
					return true
				})
				if arg == nil {
					if isNNS {
						// no multi-signature account built in place: does checkCommittee ask the common helper for the committee account?
						ast.Inspect(fd.Body, func(nd ast.Node) bool {
							if ce, ok := nd.(*ast.CallExpr); ok {
								switch strings.ReplaceAll(t.render(p, ce, 0), " ", "") {
								case "common.CommitteeAddress()", "common.Multiaddress(neo.GetCommittee(),true)":
									nnsUsesCommon = true
								}
							}
							return true
						})
					}
					continue
				}
				if isNNS {
					emitThr("nnsCommitteeThreshold", arg, fd)
					continue
				}
				// Multiaddress: the threshold variable is defined with the Alphabet expression and reassigned under `if committee`
				id, ok := arg.(*ast.Ident)
				if !ok {
					continue
				}
				var plain, underIf, underElse []ast.Expr
				negated := false
				var walk func(n ast.Node, inIf bool)
				walk = func(n ast.Node, inIf bool) {
					ast.Inspect(n, func(nd ast.Node) bool {
						switch x := nd.(type) {
						case *ast.IfStmt:
							if x.Init != nil {
								walk(x.Init, inIf)
							}
							if x.Else != nil {
								// `if committee {t = A} else {t = B}` (or with the negated condition): both branches assign
								nb := len(underIf)
								walk(x.Body, true)
								mid := append([]ast.Expr{}, underIf[nb:]...)
								underIf = append([]ast.Expr{}, underIf[:nb]...)
								walk(x.Else, true)
								els := append([]ast.Expr{}, underIf[nb:]...)
								underIf = append(append([]ast.Expr{}, underIf[:nb]...), mid...)
								underElse = append(underElse, els...)
								if u, ok := x.Cond.(*ast.UnaryExpr); ok && u.Op == token.NOT {
									negated = true
								}
								return false
							}
							walk(x.Body, true)
							return false
						case *ast.AssignStmt:
							if len(x.Lhs) == 1 && len(x.Rhs) == 1 {
								if l, ok := x.Lhs[0].(*ast.Ident); ok && l.Name == id.Name {
									if inIf {
										underIf = append(underIf, x.Rhs[0])
									} else {
										plain = append(plain, x.Rhs[0])
									}
								}
							}
						}
						return true
					})
				}
				walk(fd.Body, false)
				if len(plain) == 1 && len(underIf) == 1 && len(underElse) == 0 {
					emitThr("multiaddressDefaultThreshold", plain[0], fd)
					emitThr("multiaddressCommitteeThreshold", underIf[0], fd)
				} else if len(plain) == 0 && len(underIf) == 1 && len(underElse) == 1 {
					cm, df := underIf[0], underElse[0]
					if negated {
						cm, df = df, cm
					}
					emitThr("multiaddressDefaultThreshold", df, fd)
					emitThr("multiaddressCommitteeThreshold", cm, fd)
				}
			}
		}
	}
	// NNS either builds the committee account itself or delegates to the common helper: then its threshold is the helper's
	if _, ok := thrExpr["nnsCommitteeThreshold"]; !ok && nnsUsesCommon {
		thrText["nnsCommitteeThreshold"] = "common.CommitteeAddress():" + thrText["multiaddressCommitteeThreshold"]
		thrExpr["nnsCommitteeThreshold"] = thrExpr["multiaddressCommitteeThreshold"]
	}
	for _, name := range []string{"multiaddressDefaultThreshold", "multiaddressCommitteeThreshold", "nnsCommitteeThreshold"} {
		e := thrExpr[name]
		if e == "" {
			e = "none"
		}
		fmt.Fprintf(&b, "def %s : String := %s\n", name, leanStr(thrText[name]))
		fmt.Fprintf(&b, "def %sE : Option NeoFS.TExpr := %s\n", name, e)
	}
	var sts []string
	for k := range siteThresholds {
		sts = append(sts, k)
	}
	sort.Strings(sts)
	fmt.Fprintf(&b, "def committeeMultisigThresholds : List (Option NeoFS.TExpr) := [%s]\n", strings.Join(sts, ", "))
	sort.Strings(otherSites)
	fmt.Fprintf(&b, "def otherMultisigSites : List (String × Option NeoFS.TExpr) := [%s]\n", strings.Join(otherSites, ", "))
	b.WriteString("\nend NeoFS.Generated.Access\n")
	writeIfChanged(outLean, b.String())
	js, _ := json.MarshalIndent(map[string]any{"methods": outs, "unknown_calls": t.unknown}, "", " ")
	if outJSON != "" {
		_ = os.WriteFile(outJSON, js, 0o644)
	}
}

func buildsMultisig(fd *ast.FuncDecl) bool {
	found := false
	ast.Inspect(fd.Body, func(nd ast.Node) bool {
		if ce, ok := nd.(*ast.CallExpr); ok && len(ce.Args) == 2 {
			if se, ok := ce.Fun.(*ast.SelectorExpr); ok && se.Sel.Name == "CreateMultisigAccount" {
				found = true
			}
		}
		return true
	})
	return found
}

func asksCommitteeAddress(t *tr, p *packages.Package, fd *ast.FuncDecl) bool {
	found := false
	ast.Inspect(fd.Body, func(nd ast.Node) bool {
		if ce, ok := nd.(*ast.CallExpr); ok {
			if f := t.fn(p, ce.Fun); f != nil && qname(f) == "common.CommitteeAddress" {
				found = true
			}
		}
		return true
	})
	return found
}

// collectInits records the initialisers of single-assignment locals of all functions (used by render/wit).
func collectInits(t *tr, pkgs []*packages.Package) {
	for _, p := range pkgs {
		for _, f := range p.Syntax {
			ast.Inspect(f, func(n ast.Node) bool {
				switch x := n.(type) {
				case *ast.AssignStmt:
					if len(x.Lhs) > 1 && len(x.Rhs) == 1 {
						// `v, ok := helper(..)`: ok stands for the helper's boolean result
						if ce, isCall := x.Rhs[0].(*ast.CallExpr); isCall {
							if f := t.fn(p, ce.Fun); f != nil && isBoolFunc(f) {
								if id, ok := x.Lhs[len(x.Lhs)-1].(*ast.Ident); ok {
									o := p.TypesInfo.Defs[id]
									if o == nil {
										o = p.TypesInfo.Uses[id]
									}
									if o != nil && t.nassign[o] == 1 {
										t.locals[o] = x.Rhs[0]
										t.localPkg[o] = p
									}
								}
							}
						}
					}
					if len(x.Lhs) == len(x.Rhs) {
						for i, l := range x.Lhs {
							if id, ok := l.(*ast.Ident); ok {
								o := p.TypesInfo.Defs[id]
								if o == nil {
									o = p.TypesInfo.Uses[id]
								}
								if o != nil && t.nassign[o] == 1 {
									t.locals[o] = x.Rhs[i]
									t.localPkg[o] = p
								}
							}
						}
					}
				case *ast.RangeStmt:
					if id, ok := x.Value.(*ast.Ident); ok && x.Tok == token.DEFINE {
						if o := p.TypesInfo.Defs[id]; o != nil {
							t.rangeOf[o] = x.X
							t.localPkg[o] = p
						}
					}
				case *ast.ValueSpec:
					for i, id := range x.Names {
						if o := p.TypesInfo.Defs[id]; o != nil && i < len(x.Values) && t.nassign[o] == 0 {
							if _, isVar := o.(*types.Var); isVar && o.Parent() != o.Pkg().Scope() {
								t.nassign[o] = 1
								t.locals[o] = x.Values[i]
								t.localPkg[o] = p
							}
						}
					}
				}
				return true
			})
		}
	}
}

func strList(xs []string) string {
	var ps []string
	for _, x := range xs {
		ps = append(ps, leanStr(x))
	}
	return "[" + strings.Join(ps, ", ") + "]"
}

func writeIfChanged(path, content string) {
	old, _ := os.ReadFile(path)
	if string(old) == content {
		return
	}
	if err := os.WriteFile(path+".tmp", []byte(content), 0o644); err != nil {
		die(err)
	}
	if err := os.Rename(path+".tmp", path); err != nil {
		die(err)
	}
}

type cfgYAML struct {
	SafeMethods []string          `yaml:"safemethods"`
	Overloads   map[string]string `yaml:"overloads"`
}

func readCfg(repo, c string) cfgYAML {
	var cfg cfgYAML
	b, err := os.ReadFile(repo + "/contracts/" + c + "/config.yml")
	if err != nil {
		die(err)
	}
	if err := yaml.Unmarshal(b, &cfg); err != nil {
		die(fmt.Errorf("%s/config.yml: %w", c, err))
	}
	return cfg
}

func readSafe(repo, c string) map[string]bool {
	out := map[string]bool{}
	for _, m := range readCfg(repo, c).SafeMethods {
		out[m] = true
	}
	return out
}

// readOverloads: Go function name -> manifest method name
func readOverloads(repo, c string) map[string]string {
	res := map[string]string{}
	for k, v := range readCfg(repo, c).Overloads {
		res[strings.ToUpper(k[:1])+k[1:]] = v
	}
	return res
}


// texprOpt renders an integer expression over ONE quantity (the number of keys: an identifier or a len(...) call, the same
// text everywhere) as a NeoFS.TExpr value; locals defined once by an arithmetic expression are unfolded; anything else is none.
func texprOpt(e ast.Expr, fd *ast.FuncDecl) string {
	defs := map[string]ast.Expr{}
	count := map[string]int{}
	var body ast.Node = &ast.BlockStmt{}
	if fd != nil {
		body = fd.Body
	}
	ast.Inspect(body, func(nd ast.Node) bool {
		if as, ok := nd.(*ast.AssignStmt); ok && len(as.Lhs) == 1 && len(as.Rhs) == 1 {
			if l, ok := as.Lhs[0].(*ast.Ident); ok {
				count[l.Name]++
				defs[l.Name] = as.Rhs[0]
			}
		}
		return true
	})
	atom := ""
	var rec func(e ast.Expr, depth int) (string, bool)
	rec = func(e ast.Expr, depth int) (string, bool) {
		if depth > 8 {
			return "", false
		}
		switch x := e.(type) {
		case *ast.ParenExpr:
			return rec(x.X, depth)
		case *ast.BasicLit:
			if x.Kind == token.INT {
				if _, err := strconv.ParseUint(x.Value, 10, 32); err == nil {
					return "(.lit " + x.Value + ")", true
				}
			}
			return "", false
		case *ast.BinaryExpr:
			op := map[token.Token]string{token.ADD: ".add", token.SUB: ".sub", token.MUL: ".mul", token.QUO: ".div"}[x.Op]
			if op == "" {
				return "", false
			}
			l, ok1 := rec(x.X, depth+1)
			r, ok2 := rec(x.Y, depth+1)
			if !ok1 || !ok2 {
				return "", false
			}
			return "(" + op + " " + l + " " + r + ")", true
		case *ast.Ident:
			if d, ok := defs[x.Name]; ok && count[x.Name] == 1 {
				if _, isBin := d.(*ast.BinaryExpr); isBin {
					return rec(d, depth+1)
				}
				if c, isCall := d.(*ast.CallExpr); isCall {
					if f, ok := c.Fun.(*ast.Ident); ok && f.Name == "len" {
						return rec(d, depth+1)
					}
				}
			}
			t := x.Name
			if atom == "" {
				atom = t
			}
			if atom != t {
				return "", false
			}
			return ".var", true
		case *ast.CallExpr:
			if f, ok := x.Fun.(*ast.Ident); ok && f.Name == "len" && len(x.Args) == 1 {
				t := types.ExprString(x)
				if atom == "" {
					atom = t
				}
				if atom != t {
					return "", false
				}
				return ".var", true
			}
		}
		return "", false
	}
	if r, ok := rec(e, 0); ok {
		return "some " + r
	}
	return "none"
}
