package main

// footprint: `extract footprint <repo> <out.lean> [out.json]`
//
// For every exported (manifest) method of every contract under contracts/* a MAY-WRITE over-approximation of what the method can
// do to the outside world: storage writes (op put / delete, keyed by the FAMILY of the key = its leading constant bytes), calls of
// other contracts and of native contracts, notifications. The closure is taken over the static call graph of the module
// (contracts/*, common/ and every other package of the same module), flow-insensitively: every call expression anywhere in a
// function body (closures included) counts, whatever the control flow around it. Helper extraction, inlining and statement
// reordering therefore do not change the result.
//
// Key abstraction. A key expression is evaluated to a SET of abstract values `bytes ‖ tail`, `bytes` = the constant bytes the
// key starts with, `tail` ∈ {nothing, something opaque, the i-th parameter of the enclosing function [followed by more]}:
//   constants (go/types), []byte{c…}, []byte(x), string(x), x + y, append(x, y…), append(x, c, …), parenthesised / asserted
//   expressions, package variables and local variables (the union over ALL their assignments — no flow), parameters (symbolic,
//   bound at every call site), calls of module functions (the union of the abstract values of all their return statements with
//   the parameters bound). Anything else is opaque. A key that starts with no constant is the family `?<function>`: "unknown",
//   it may be any key.
//
// Summaries (effects and return values per function) are computed as a least fixpoint over all functions of the module, so
// recursion needs no special care.

import (
	"encoding/hex"
	"encoding/json"
	"fmt"
	"go/ast"
	"go/constant"
	"go/token"
	"go/types"
	"os"
	"sort"
	"strings"

	"golang.org/x/tools/go/packages"
)

const (
	tNone   = 0 // the key is exactly the bytes
	tOpaque = 1 // the bytes are followed by data
	tParam  = 2 // the bytes are followed by the value of parameter pi (and by more data when `more`)
	tSelf   = 3 // the bytes are followed by the value of the variable under evaluation (recursive definition)
)

type aval struct {
	b    string
	tail int
	pi   int
	more bool
	self types.Object
}

func (a aval) key() string {
	s := hex.EncodeToString([]byte(a.b))
	switch a.tail {
	case tOpaque:
		return s + "*"
	case tParam:
		if a.more {
			return fmt.Sprintf("%s+p%d*", s, a.pi)
		}
		return fmt.Sprintf("%s+p%d", s, a.pi)
	case tSelf:
		return fmt.Sprintf("%s+self%p%v", s, a.self, a.more)
	}
	return s
}

type aset map[string]aval

func (s aset) add(a aval) {
	if len(a.b) > 80 {
		a = aval{b: a.b[:80], tail: tOpaque}
	}
	s[a.key()] = a
}
func (s aset) addAll(o aset) {
	for _, a := range o {
		s.add(a)
	}
}
func single(a aval) aset { s := aset{}; s.add(a); return s }

var opaque = aval{tail: tOpaque}

func limit(s aset) aset {
	if len(s) > 48 {
		return single(opaque)
	}
	return s
}

// concat1: a followed by b
func concat1(a, b aval) aval {
	switch a.tail {
	case tNone:
		r := b
		r.b = a.b + b.b
		return r
	case tOpaque:
		return a
	default: // param / self followed by something
		r := a
		r.more = true
		return r
	}
}

func concat(x, y aset) aset {
	r := aset{}
	for _, a := range x {
		if a.tail == tOpaque {
			r.add(a)
			continue
		}
		for _, b := range y {
			if a.tail != tNone && b.tail == tNone && b.b == "" {
				r.add(a) // followed by the empty string
				continue
			}
			r.add(concat1(a, b))
		}
	}
	return limit(r)
}

type effect struct {
	Kind string // put delete call callro notify
	Key  aval   // put / delete
	Name string // call: target.method, notify: event name
	Site string // function that contains the primitive
}

func (e effect) id() string { return e.Kind + "|" + e.Key.key() + "|" + e.Name + "|" + e.Site }

type summary struct {
	effects map[string]effect
	rets    []aset
}

type rhs struct {
	e      ast.Expr // nil: opaque
	idx    int      // -1: the value itself; >= 0: i-th result of the call e
	p      *packages.Package
	op     bool // op-assignment: old value followed by e
	zero   bool
	blk    ast.Node // the statement list (block / case clause) the assignment is a direct statement of; nil otherwise
	si     int      // its index there
	elem   bool     // v[ie] = ve: an element of the value is overwritten
	ie, ve ast.Expr
}

type pcall struct {
	p *packages.Package
	c *ast.CallExpr
}

type fpx struct {
	module       string
	decls        map[*types.Func]*ast.FuncDecl
	dpkg         map[*types.Func]*packages.Package
	params       map[types.Object]int // parameter object -> index (receiver first)
	assigns      map[types.Object][]rhs
	sums         map[*types.Func]*summary
	stack        map[types.Object]bool
	opaqueT      map[types.Type]bool   // struct types whose values may come from outside (assertion, deserialisation, method arguments)
	zeroT        map[types.Type]bool   // struct types of which a zero value is created somewhere
	initSet      map[types.Object]bool // package variables assigned at the top level of an init() function
	curBlk       ast.Node
	curSi        int
	pendingCalls []pcall
	alias        map[types.Object][]types.Object // plain copies v := w, argument / parameter pairs: the values may share one buffer
	poison       map[types.Object]bool           // some alias of the variable has an element overwritten: nothing is known about it
	refOK        map[types.Object]int            // 0 unknown, 1 straight-line refinement applies, 2 it does not
	depth        int
	dyn          map[string]int
}

func (x *fpx) inModule(p *types.Package) bool {
	return p != nil && (p.Path() == x.module || strings.HasPrefix(p.Path(), x.module+"/"))
}

func (x *fpx) callee(p *packages.Package, e ast.Expr) *types.Func {
	switch f := e.(type) {
	case *ast.SelectorExpr:
		if o, ok := p.TypesInfo.Uses[f.Sel].(*types.Func); ok {
			return o.Origin()
		}
	case *ast.Ident:
		if o, ok := p.TypesInfo.Uses[f].(*types.Func); ok {
			return o.Origin()
		}
	case *ast.ParenExpr:
		return x.callee(p, f.X)
	case *ast.IndexExpr: // explicit instantiation f[T]
		return x.callee(p, f.X)
	case *ast.IndexListExpr:
		return x.callee(p, f.X)
	}
	return nil
}

func constBytes(tv types.TypeAndValue) (string, bool) {
	if tv.Value == nil {
		return "", false
	}
	switch tv.Value.Kind() {
	case constant.String:
		return constant.StringVal(tv.Value), true
	}
	return "", false
}

func constByte(tv types.TypeAndValue) (byte, bool) {
	if tv.Value == nil || tv.Value.Kind() != constant.Int {
		return 0, false
	}
	n, ok := constant.Int64Val(tv.Value)
	if !ok || n < 0 || n > 255 {
		return 0, false
	}
	return byte(n), true
}

func isByteSliceOrString(t types.Type) bool {
	if t == nil {
		return false
	}
	switch u := t.Underlying().(type) {
	case *types.Basic:
		return u.Info()&types.IsString != 0
	case *types.Slice:
		b, ok := u.Elem().Underlying().(*types.Basic)
		return ok && (b.Kind() == types.Uint8)
	}
	return false
}

// eval: abstract value set of a key-typed expression
func (x *fpx) eval(p *packages.Package, e ast.Expr) aset {
	x.depth++
	defer func() { x.depth-- }()
	if x.depth > 60 {
		return single(opaque)
	}
	tv := p.TypesInfo.Types[e]
	if s, ok := constBytes(tv); ok {
		return single(aval{b: s})
	}
	if tv.Type != nil {
		if b, ok := tv.Type.Underlying().(*types.Basic); ok && b.Info()&types.IsInteger != 0 {
			return x.evalByte(p, e)
		}
	}
	switch v := e.(type) {
	case *ast.ParenExpr:
		return x.eval(p, v.X)
	case *ast.TypeAssertExpr:
		return x.eval(p, v.X)
	case *ast.BinaryExpr:
		if v.Op == token.ADD {
			return concat(x.eval(p, v.X), x.eval(p, v.Y))
		}
	case *ast.CompositeLit:
		if !isByteSliceOrString(tv.Type) {
			return single(opaque)
		}
		r := single(aval{})
		for _, el := range v.Elts {
			if _, isKV := el.(*ast.KeyValueExpr); isKV {
				return concat(r, single(opaque))
			}
			r = concat(r, x.evalByte(p, el))
		}
		return r
	case *ast.Ident:
		if v.Name == "nil" {
			return single(aval{})
		}
		o := p.TypesInfo.Uses[v]
		if o == nil {
			o = p.TypesInfo.Defs[v]
		}
		if o == nil {
			return single(opaque)
		}
		return x.evalObjAt(o, v.Pos())
	case *ast.SelectorExpr:
		// pkg.Var, or a struct field (field-based: the union of everything ever stored into that field of that type)
		if sel, ok := p.TypesInfo.Selections[v]; ok {
			if sel.Kind() == types.FieldVal {
				// first field of the (key, value) element of a storage.Find iterator: `kv := iterator.Value(it).(T); kv.k`
				if len(sel.Index()) == 1 && sel.Index()[0] == 0 {
					if bo := x.baseObj(p, v.X); bo != nil && !x.poison[bo] {
						if bv, isVar := bo.(*types.Var); isVar && !bv.IsField() {
							if _, isParam := x.params[bo]; !isParam && len(x.assigns[bo]) > 0 {
								all := aset{}
								good := true
								for _, a := range x.assigns[bo] {
									if a.e == nil || a.idx >= 0 || a.op || a.elem || a.zero {
										good = false
										break
									}
									ks, pair, ok := x.findKey(a.p, a.e)
									if !ok || !pair {
										good = false
										break
									}
									all.addAll(ks)
								}
								if good {
									return limit(all)
								}
							}
						}
					}
				}
				return x.evalObj(sel.Obj())
			}
			return single(opaque)
		}
		if o := p.TypesInfo.Uses[v.Sel]; o != nil {
			return x.evalObj(o)
		}
		return single(opaque)
	case *ast.StarExpr:
		return x.eval(p, v.X)
	case *ast.CallExpr:
		// conversion []byte(x) / string(x) / T(x)
		if ftv, ok := p.TypesInfo.Types[v.Fun]; ok && ftv.IsType() && len(v.Args) == 1 {
			at := p.TypesInfo.Types[v.Args[0]]
			if isByteSliceOrString(at.Type) || at.Value != nil && at.Value.Kind() == constant.String {
				return x.eval(p, v.Args[0])
			}
			// string(rune const) / []byte{…} handled elsewhere; a conversion from a number is data
			return single(opaque)
		}
		if id, ok := unparen(v.Fun).(*ast.Ident); ok {
			if _, isB := p.TypesInfo.Uses[id].(*types.Builtin); isB && id.Name == "append" && len(v.Args) >= 1 {
				r := x.eval(p, v.Args[0])
				if v.Ellipsis != token.NoPos && len(v.Args) == 2 {
					return concat(r, x.eval(p, v.Args[1]))
				}
				for _, a := range v.Args[1:] {
					r = concat(r, x.evalByte(p, a))
				}
				return r
			}
		}
		if f := x.callee(p, v.Fun); f != nil {
			if _, has := x.decls[f]; has {
				return x.callRets(p, v, f, 0)
			}
		}
		if ks, pair, ok := x.findKey(p, v); ok && !pair {
			return ks
		}
		return single(opaque)
	}
	return single(opaque)
}

// findKey: e = iterator.Value(it) where every assignment of `it` is storage.Find(ctx, P, <constant flags>): the element is a key
// that starts with P (KeysOnly; pair = false) or a (key, value) structure whose first field is such a key (no KeysOnly / ValuesOnly /
// DeserializeValues / PickField; pair = true). With RemovePrefix the key has lost P: opaque. Runtime fact of System.Storage.Find.
func (x *fpx) findKey(p *packages.Package, e ast.Expr) (aset, bool, bool) {
	for {
		switch v := e.(type) {
		case *ast.ParenExpr:
			e = v.X
			continue
		case *ast.TypeAssertExpr:
			e = v.X
			continue
		}
		break
	}
	c, ok := e.(*ast.CallExpr)
	if !ok || len(c.Args) != 1 || qname(x.callee(p, c.Fun)) != "iterator.Value" {
		return nil, false, false
	}
	o := x.baseObj(p, c.Args[0])
	if o == nil || x.poison[o] || len(x.assigns[o]) == 0 {
		return nil, false, false
	}
	if _, isParam := x.params[o]; isParam {
		return nil, false, false
	}
	if v, isVar := o.(*types.Var); !isVar || v.IsField() {
		return nil, false, false
	}
	res := aset{}
	pair, first := false, true
	for _, a := range x.assigns[o] {
		if a.e == nil || a.idx >= 0 || a.op || a.elem || a.zero {
			return nil, false, false
		}
		fc, ok := unparen(a.e).(*ast.CallExpr)
		if !ok || len(fc.Args) != 3 || qname(x.callee(a.p, fc.Fun)) != "storage.Find" {
			return nil, false, false
		}
		tv := a.p.TypesInfo.Types[fc.Args[2]]
		if tv.Value == nil {
			return nil, false, false
		}
		fl, ok := constant.Int64Val(tv.Value)
		if !ok {
			return nil, false, false
		}
		var isPair bool
		switch {
		case fl&^3 == 0 && fl&1 == 1: // KeysOnly [| RemovePrefix]
			isPair = false
		case fl&^2 == 0: // None [| RemovePrefix]
			isPair = true
		default:
			return nil, false, false
		}
		if !first && isPair != pair {
			return nil, false, false
		}
		pair, first = isPair, false
		if fl&2 != 0 {
			res.add(opaque)
		} else {
			res.addAll(concat(x.eval(a.p, fc.Args[1]), single(opaque)))
		}
	}
	return limit(res), pair, true
}

// evalByte: one byte-sized element: a constant, or a variable / parameter holding one (bound to a constant at the call sites)
func (x *fpx) evalByte(p *packages.Package, e ast.Expr) aset {
	if c, ok := constByte(p.TypesInfo.Types[e]); ok {
		return single(aval{b: string([]byte{c})})
	}
	switch v := e.(type) {
	case *ast.ParenExpr:
		return x.evalByte(p, v.X)
	case *ast.CallExpr:
		if ftv, ok := p.TypesInfo.Types[v.Fun]; ok && ftv.IsType() && len(v.Args) == 1 {
			if b, ok := ftv.Type.Underlying().(*types.Basic); ok && b.Info()&types.IsInteger != 0 {
				if ab, ok := p.TypesInfo.Types[v.Args[0]].Type.Underlying().(*types.Basic); ok && ab.Info()&types.IsInteger != 0 {
					return x.evalByte(p, v.Args[0])
				}
			}
		}
	case *ast.Ident:
		o := p.TypesInfo.Uses[v]
		if vo, ok := o.(*types.Var); ok {
			if b, ok := vo.Type().Underlying().(*types.Basic); ok && b.Info()&types.IsInteger != 0 {
				r := aset{}
				for _, a := range x.evalObjAt(o, v.Pos()) {
					if a.tail == tNone && len(a.b) != 1 {
						r.add(opaque) // not a byte-sized constant
					} else {
						r.add(a)
					}
				}
				return r
			}
		}
	}
	return single(opaque)
}

// args of a call incl. the receiver (first) when the callee is a method
func (x *fpx) callArgs(p *packages.Package, c *ast.CallExpr, f *types.Func) []ast.Expr {
	var args []ast.Expr
	if sig, ok := f.Type().(*types.Signature); ok && sig.Recv() != nil {
		if se, ok := unparen(c.Fun).(*ast.SelectorExpr); ok {
			args = append(args, se.X)
		} else {
			args = append(args, nil)
		}
	}
	return append(args, c.Args...)
}

func (x *fpx) bind(p *packages.Package, c *ast.CallExpr, f *types.Func) func(int) aset {
	args := x.callArgs(p, c, f)
	sig, _ := f.Type().(*types.Signature)
	nfix := -1
	if sig != nil && sig.Variadic() {
		nfix = sig.Params().Len() - 1
		if sig.Recv() != nil {
			nfix++
		}
	}
	// f(g()) with a multi-value g: no positional binding
	spread := false
	if len(c.Args) == 1 {
		if tup, ok := p.TypesInfo.Types[c.Args[0]].Type.(*types.Tuple); ok && tup.Len() > 1 {
			spread = true
		}
	}
	memo := map[int]aset{}
	return func(i int) aset {
		if r, ok := memo[i]; ok {
			return r
		}
		var r aset
		switch {
		case spread, i < 0, i >= len(args), args[i] == nil, nfix >= 0 && i >= nfix:
			r = single(opaque)
		default:
			r = x.eval(p, args[i])
		}
		memo[i] = r
		return r
	}
}

func substAval(a aval, arg func(int) aset) aset {
	if a.tail != tParam {
		return single(a)
	}
	r := concat(single(aval{b: a.b}), arg(a.pi))
	if a.more {
		r = concat(r, single(opaque))
	}
	return r
}

func (x *fpx) callRets(p *packages.Package, c *ast.CallExpr, f *types.Func, idx int) aset {
	s := x.sums[f]
	if s == nil || idx >= len(s.rets) {
		return aset{} // not computed yet (fixpoint iteration) — grows in later rounds
	}
	arg := x.bind(p, c, f)
	r := aset{}
	for _, a := range s.rets[idx] {
		r.addAll(substAval(a, arg))
	}
	return limit(r)
}

// refinable: a local variable all of whose assignments are direct statements of ONE statement list (the one that declares it),
// never address-taken, never a loop variable: its value at a use is the value given by the last of them before the use
func (x *fpx) refinable(o types.Object) bool {
	if r := x.refOK[o]; r != 0 {
		return r == 1
	}
	ok := true
	v, isVar := o.(*types.Var)
	if !isVar || v.IsField() || v.Pkg() == nil || v.Parent() == v.Pkg().Scope() || x.poison[o] {
		ok = false
	}
	if _, isParam := x.params[o]; isParam {
		ok = false
	}
	as := x.assigns[o]
	if len(as) == 0 {
		ok = false
	}
	for _, a := range as {
		if a.blk == nil || a.blk != as[0].blk {
			ok = false
		}
	}
	if ok {
		x.refOK[o] = 1
	} else {
		x.refOK[o] = 2
	}
	return ok
}

func inFuncLit(st ast.Node, pos token.Pos) bool {
	in := false
	ast.Inspect(st, func(n ast.Node) bool {
		if fl, ok := n.(*ast.FuncLit); ok && fl.Pos() <= pos && pos < fl.End() {
			in = true
		}
		return !in
	})
	return in
}

// setElem: the value after v[i] = c
func (x *fpx) setElem(prev aset, a rhs) aset {
	out := aset{}
	k := -1
	if a.ie != nil {
		if tv := a.p.TypesInfo.Types[a.ie]; tv.Value != nil {
			if n, ok := constant.Int64Val(tv.Value); ok && n >= 0 && n < 64 {
				k = int(n)
			}
		}
	}
	var c byte
	hasC := false
	if a.ve != nil {
		c, hasC = constByte(a.p.TypesInfo.Types[a.ve])
	}
	for _, v := range prev {
		switch {
		case k < 0 || v.tail == tParam || v.tail == tSelf:
			out.add(opaque)
		case k < len(v.b):
			if hasC {
				b := []byte(v.b)
				b[k] = c
				out.add(aval{b: string(b), tail: v.tail})
			} else {
				out.add(aval{b: v.b[:k], tail: tOpaque})
			}
		case k == len(v.b) && v.tail == tOpaque && hasC:
			out.add(aval{b: v.b + string([]byte{c}), tail: tOpaque})
		case v.tail == tOpaque:
			out.add(v) // an element of the data part
		default:
			// index beyond an exact key: the VM faults; nothing is written under this value
		}
	}
	return limit(out)
}

func (x *fpx) evalObjAt(o types.Object, pos token.Pos) aset {
	if x.poison[o] {
		return single(opaque)
	}
	if pos == token.NoPos || !x.refinable(o) {
		return x.evalObj(o)
	}
	as := x.assigns[o]
	stmts := listOf(as[0].blk)
	j := -1
	for i, st := range stmts {
		if st.Pos() <= pos && pos < st.End() {
			j = i
		}
	}
	if j < 0 || inFuncLit(stmts[j], pos) {
		return x.evalObj(o)
	}
	k := -1
	for _, a := range as {
		if a.si < j && a.si > k {
			k = a.si
		}
	}
	if k < 0 {
		return x.evalObj(o)
	}
	x.depth++
	defer func() { x.depth-- }()
	if x.depth > 60 {
		return single(opaque)
	}
	r := aset{}
	for _, a := range as {
		if a.si != k {
			continue
		}
		switch {
		case a.elem:
			r.addAll(x.setElem(x.evalObjAt(o, stmts[k].Pos()), a))
		case a.zero:
			r.add(aval{})
		case a.e == nil:
			r.add(opaque)
		case a.op:
			r.addAll(concat(x.evalObjAt(o, stmts[k].Pos()), x.eval(a.p, a.e)))
		case a.idx >= 0:
			done := false
			if c, ok := unparen(a.e).(*ast.CallExpr); ok {
				if f := x.callee(a.p, c.Fun); f != nil {
					if _, has := x.decls[f]; has {
						r.addAll(x.callRets(a.p, c, f, a.idx))
						done = true
					}
				}
			}
			if !done {
				r.add(opaque)
			}
		default:
			r.addAll(x.eval(a.p, a.e))
		}
	}
	return limit(r)
}

func (x *fpx) evalObj(o types.Object) aset {
	if x.poison[o] {
		return single(opaque)
	}
	for _, a := range x.assigns[o] {
		if a.elem {
			return single(opaque) // an element is overwritten somewhere and the order is not known
		}
	}
	if c, ok := o.(*types.Const); ok {
		if c.Val().Kind() == constant.String {
			return single(aval{b: constant.StringVal(c.Val())})
		}
		return single(opaque)
	}
	if _, ok := o.(*types.Var); !ok {
		return single(opaque)
	}
	if x.stack[o] {
		return single(aval{tail: tSelf, self: o})
	}
	x.stack[o] = true
	defer delete(x.stack, o)
	r := aset{}
	if i, ok := x.params[o]; ok {
		r.add(aval{tail: tParam, pi: i})
	}
	as, known := x.assigns[o]
	if v, ok := o.(*types.Var); ok && v.IsField() {
		if x.fieldOpaque(v) {
			return single(opaque)
		}
		if x.fieldZero(v) {
			r.add(aval{})
		}
		known = true
	}
	if !known && len(r) == 0 {
		return single(opaque)
	}
	for _, a := range as {
		switch {
		case a.zero:
			r.add(aval{})
		case a.e == nil:
			r.add(opaque)
		case a.op:
			r.addAll(concat(single(aval{tail: tSelf, self: o}), x.eval(a.p, a.e)))
		case a.idx >= 0:
			if c, ok := unparen(a.e).(*ast.CallExpr); ok {
				if f := x.callee(a.p, c.Fun); f != nil {
					if _, has := x.decls[f]; has {
						r.addAll(x.callRets(a.p, c, f, a.idx))
						continue
					}
				}
			}
			r.add(opaque)
		default:
			r.addAll(x.eval(a.p, a.e))
		}
	}
	// resolve the recursive references to o: `k = append(k, d…)` contributes every base value followed by data
	out, selfMore, selfPre := aset{}, false, false
	for _, a := range r {
		if a.tail == tSelf && a.self == o {
			if a.b != "" {
				out.add(aval{b: a.b, tail: tOpaque})
				selfPre = true
			} else if a.more {
				selfMore = true
			}
			continue
		}
		out.add(a)
	}
	_ = selfPre
	if selfMore {
		for _, a := range r {
			if a.tail == tSelf && a.self == o {
				continue
			}
			out.addAll(concat(single(a), single(opaque)))
		}
	}
	return limit(out)
}

func (x *fpx) fieldIn(v *types.Var, set map[types.Type]bool) bool {
	for st := range set {
		s := st.(*types.Struct)
		for i := 0; i < s.NumFields(); i++ {
			if s.Field(i) == v {
				return true
			}
		}
	}
	return false
}
func (x *fpx) fieldOpaque(v *types.Var) bool { return x.fieldIn(v, x.opaqueT) }
func (x *fpx) fieldZero(v *types.Var) bool   { return x.fieldIn(v, x.zeroT) }

var nativeMutators = map[string]string{
	"gas.Transfer": "gas.transfer", "neo.Transfer": "neo.transfer", "neo.Vote": "neo.vote", "runtime.BurnGas": "runtime.burnGas",
	"neo.RegisterCandidate": "neo.registerCandidate", "neo.UnregisterCandidate": "neo.unregisterCandidate",
	"management.Deploy": "management.deploy", "management.Update": "management.update", "management.Destroy": "management.destroy",
	"management.DeployWithData": "management.deploy", "management.UpdateWithData": "management.update",
	"roles.DesignateAsRole": "roles.designateAsRole", "policy.SetFeePerByte": "policy.setFeePerByte",
	"policy.SetExecFeeFactor": "policy.setExecFeeFactor", "policy.SetStoragePrice": "policy.setStoragePrice",
	"policy.BlockAccount": "policy.blockAccount", "policy.UnblockAccount": "policy.unblockAccount",
	"notary.LockDepositUntil": "notary.lockDepositUntil", "notary.Withdraw": "notary.withdraw",
	"oracle.Request": "oracle.request",
}

// target of a contract.Call: the constant storage key the hash is read from, a native contract, or "?"
func (x *fpx) target(p *packages.Package, e ast.Expr, depth int) string {
	if depth > 6 {
		return "?"
	}
	switch v := e.(type) {
	case *ast.ParenExpr:
		return x.target(p, v.X, depth)
	case *ast.TypeAssertExpr:
		return x.target(p, v.X, depth)
	case *ast.SelectorExpr:
		if id, ok := v.X.(*ast.Ident); ok {
			if pn, ok := p.TypesInfo.Uses[id].(*types.PkgName); ok && v.Sel.Name == "Hash" {
				return pshort(pn.Imported().Path())
			}
		}
	case *ast.Ident:
		o := p.TypesInfo.Uses[v]
		if o == nil {
			return "?"
		}
		if _, isParam := x.params[o]; isParam {
			return "?"
		}
		if as := x.assigns[o]; len(as) == 1 && as[0].e != nil && as[0].idx < 0 && !as[0].op {
			return x.target(as[0].p, as[0].e, depth+1)
		}
	case *ast.CallExpr:
		if ftv, ok := p.TypesInfo.Types[v.Fun]; ok && ftv.IsType() && len(v.Args) == 1 {
			return x.target(p, v.Args[0], depth)
		}
		f := x.callee(p, v.Fun)
		if f == nil {
			return "?"
		}
		switch qname(f) {
		case "storage.Get":
			if len(v.Args) == 2 {
				ks := x.eval(p, v.Args[1])
				if len(ks) == 1 {
					for _, k := range ks {
						if k.tail == tNone {
							return "@" + k.b
						}
					}
				}
			}
			return "?"
		case "runtime.GetExecutingScriptHash":
			return "self"
		case "runtime.GetCallingScriptHash":
			return "caller"
		}
		if fd, has := x.decls[f]; has && fd.Body != nil {
			// a helper that returns the hash: `return <expr>` as its only return, or resolution through NNS by a constant name
			if qname(f) == "common.ResolveFSContract" && len(v.Args) == 1 {
				if s, ok := constBytes(p.TypesInfo.Types[v.Args[0]]); ok {
					return "nns:" + s
				}
			}
			var rets []ast.Expr
			ast.Inspect(fd.Body, func(n ast.Node) bool {
				if _, isLit := n.(*ast.FuncLit); isLit {
					return false
				}
				if rs, ok := n.(*ast.ReturnStmt); ok && len(rs.Results) == 1 {
					rets = append(rets, rs.Results[0])
				}
				return true
			})
			if len(rets) == 1 {
				return x.target(x.dpkg[f], rets[0], depth+1)
			}
		}
	}
	return "?"
}

func (x *fpx) recordAssign(p *packages.Package, lhs ast.Expr, r rhs) {
	var o types.Object
	switch l := unparen(lhs).(type) {
	case *ast.Ident:
		if l.Name == "_" {
			return
		}
		o = p.TypesInfo.Defs[l]
		if o == nil {
			o = p.TypesInfo.Uses[l]
		}
	case *ast.SelectorExpr:
		if sel, ok := p.TypesInfo.Selections[l]; ok && sel.Kind() == types.FieldVal {
			o = sel.Obj() // x.f = e: field-based
		} else {
			o = p.TypesInfo.Uses[l.Sel] // pkg.Var = e
		}
	case *ast.StarExpr:
		// *p = e: p's targets had their address taken and are opaque already; a whole struct stored through a pointer
		x.markOpaque(p.TypesInfo.Types[l].Type)
		return
	case *ast.IndexExpr:
		// v[i] = e: an element of v is overwritten (reads of elements are opaque anyway, but v itself changes)
		bo := x.baseObj(p, l.X)
		if bo == nil {
			return
		}
		if _, isMap := p.TypesInfo.Types[l.X].Type.Underlying().(*types.Map); isMap {
			return
		}
		x.assigns[bo] = append(x.assigns[bo], rhs{elem: true, ie: l.Index, ve: r.e, p: p, blk: x.curBlk, si: x.curSi, idx: -1})
		return
	}
	if o == nil {
		return
	}
	r.p = p
	r.blk, r.si = x.curBlk, x.curSi
	if r.e != nil && r.idx < 0 && !r.op {
		if so := x.baseObj(p, r.e); so != nil {
			x.alias[o] = append(x.alias[o], so)
			x.alias[so] = append(x.alias[so], o)
		}
	}
	x.assigns[o] = append(x.assigns[o], r)
}

// baseObj: the variable / field an expression denotes without copying (v, (v), v[:], v[a:b], x.f)
func (x *fpx) baseObj(p *packages.Package, e ast.Expr) types.Object {
	switch v := e.(type) {
	case *ast.ParenExpr:
		return x.baseObj(p, v.X)
	case *ast.SliceExpr:
		return x.baseObj(p, v.X)
	case *ast.Ident:
		if o, ok := p.TypesInfo.Uses[v].(*types.Var); ok {
			return o
		}
		if o, ok := p.TypesInfo.Defs[v].(*types.Var); ok {
			return o
		}
	case *ast.SelectorExpr:
		if sel, ok := p.TypesInfo.Selections[v]; ok && sel.Kind() == types.FieldVal {
			return sel.Obj()
		}
		if o, ok := p.TypesInfo.Uses[v.Sel].(*types.Var); ok {
			return o
		}
	}
	return nil
}

func listOf(blk ast.Node) []ast.Stmt {
	switch b := blk.(type) {
	case *ast.BlockStmt:
		return b.List
	case *ast.CaseClause:
		return b.Body
	case *ast.CommClause:
		return b.Body
	}
	return nil
}

// setCur: is the statement a direct member of a statement list? (stack = path from the file to the statement, inclusive)
func (x *fpx) setCur(stack []ast.Node, st ast.Node) {
	x.curBlk, x.curSi = nil, 0
	for i := len(stack) - 1; i > 0; i-- {
		if stack[i] == st {
			for j, s := range listOf(stack[i-1]) {
				if ast.Node(s) == st {
					x.curBlk, x.curSi = stack[i-1], j
				}
			}
			return
		}
	}
}

func structOf(t types.Type) (*types.Struct, bool) {
	if t == nil {
		return nil, false
	}
	if pt, ok := t.Underlying().(*types.Pointer); ok {
		t = pt.Elem()
	}
	st, ok := t.Underlying().(*types.Struct)
	return st, ok
}

// markOpaque / markZero: a value of this type (and of every type inside it) may come from outside / may be a zero value
func (x *fpx) markOpaque(t types.Type) { x.markT(t, x.opaqueT, 0) }
func (x *fpx) markZero(t types.Type)   { x.markT(t, x.zeroT, 0) }
func (x *fpx) markT(t types.Type, set map[types.Type]bool, d int) {
	if t == nil || d > 8 {
		return
	}
	switch u := t.Underlying().(type) {
	case *types.Struct:
		if set[u] {
			return
		}
		set[u] = true
		for i := 0; i < u.NumFields(); i++ {
			x.markT(u.Field(i).Type(), set, d+1)
		}
	case *types.Pointer:
		x.markT(u.Elem(), set, d+1)
	case *types.Slice:
		x.markT(u.Elem(), set, d+1)
	case *types.Array:
		x.markT(u.Elem(), set, d+1)
	case *types.Map:
		x.markT(u.Key(), set, d+1)
		x.markT(u.Elem(), set, d+1)
	}
}

// collect: every definition / assignment of every variable of the package (flow-insensitive)
func (x *fpx) collect(p *packages.Package) {
	for _, f := range p.Syntax {
		for _, d := range f.Decls {
			if fd, ok := d.(*ast.FuncDecl); ok && fd.Recv == nil && fd.Name.Name == "init" && fd.Body != nil {
				for _, st := range fd.Body.List {
					if as, ok := st.(*ast.AssignStmt); ok && as.Tok == token.ASSIGN {
						for _, l := range as.Lhs {
							if id, ok := l.(*ast.Ident); ok {
								if o := p.TypesInfo.Uses[id]; o != nil && o.Parent() == p.Types.Scope() {
									x.initSet[o] = true
								}
							}
						}
					}
				}
			}
		}
	}
	for _, f := range p.Syntax {
		if strings.HasSuffix(p.Fset.File(f.Pos()).Name(), "_test.go") {
			continue
		}
		var stack []ast.Node
		ast.Inspect(f, func(n ast.Node) bool {
			if n == nil {
				stack = stack[:len(stack)-1]
				return true
			}
			stack = append(stack, n)
			x.curBlk = nil
			switch v := n.(type) {
			case *ast.FuncDecl:
				if v.Recv == nil && (v.Name.IsExported() || v.Name.Name == "_deploy") {
					// arguments of a method callable from outside are built by the VM from the caller's data
					for _, fld := range v.Type.Params.List {
						x.markOpaque(p.TypesInfo.Types[fld.Type].Type)
					}
				}
				i := 0
				reg := func(fl *ast.FieldList, isParam bool) {
					if fl == nil {
						return
					}
					for _, fld := range fl.List {
						if len(fld.Names) == 0 {
							if isParam {
								i++
							}
							continue
						}
						for _, nm := range fld.Names {
							if o := p.TypesInfo.Defs[nm]; o != nil {
								if isParam {
									x.params[o] = i
								} else {
									x.assigns[o] = append(x.assigns[o], rhs{zero: true, p: p})
								}
							}
							if isParam {
								i++
							}
						}
					}
				}
				reg(v.Recv, true)
				reg(v.Type.Params, true)
				reg(v.Type.Results, false)
			case *ast.FuncLit:
				// parameters of a closure: bound by whoever calls it — data
				for _, fld := range v.Type.Params.List {
					for _, nm := range fld.Names {
						if o := p.TypesInfo.Defs[nm]; o != nil {
							x.assigns[o] = append(x.assigns[o], rhs{p: p})
						}
					}
				}
				if v.Type.Results != nil {
					for _, fld := range v.Type.Results.List {
						for _, nm := range fld.Names {
							if o := p.TypesInfo.Defs[nm]; o != nil {
								x.assigns[o] = append(x.assigns[o], rhs{zero: true, p: p})
							}
						}
					}
				}
			case *ast.AssignStmt:
				x.setCur(stack, v)
				switch {
				case v.Tok != token.DEFINE && v.Tok != token.ASSIGN:
					for _, l := range v.Lhs {
						if v.Tok == token.ADD_ASSIGN && len(v.Rhs) == 1 {
							x.recordAssign(p, l, rhs{e: v.Rhs[0], idx: -1, op: true})
						} else {
							x.recordAssign(p, l, rhs{})
						}
					}
				case len(v.Lhs) == len(v.Rhs):
					for i, l := range v.Lhs {
						x.recordAssign(p, l, rhs{e: v.Rhs[i], idx: -1})
					}
				case len(v.Rhs) == 1:
					for i, l := range v.Lhs {
						if _, isCall := unparen(v.Rhs[0]).(*ast.CallExpr); isCall {
							x.recordAssign(p, l, rhs{e: v.Rhs[0], idx: i})
						} else {
							x.recordAssign(p, l, rhs{}) // v, ok := m[k] / x.(T) / <-ch
						}
					}
				}
			case *ast.ValueSpec:
				if len(stack) >= 3 {
					if ds, ok := stack[len(stack)-3].(*ast.DeclStmt); ok {
						x.setCur(stack, ds)
					}
				}
				for i, nm := range v.Names {
					switch {
					case len(v.Values) == len(v.Names):
						x.recordAssign(p, nm, rhs{e: v.Values[i], idx: -1})
					case len(v.Values) == 1:
						x.recordAssign(p, nm, rhs{e: v.Values[0], idx: i})
					default:
						o := p.TypesInfo.Defs[nm]
						if o != nil && x.initSet[o] {
							continue // a package variable set by init(): init() runs before every method, the zero value is never read
						}
						x.recordAssign(p, nm, rhs{zero: true})
						if o != nil {
							x.markZero(o.Type())
						}
					}
				}
			case *ast.CompositeLit:
				tv := p.TypesInfo.Types[v]
				st, ok := structOf(tv.Type)
				if !ok {
					if tv.Type != nil {
						if _, isArr := tv.Type.Underlying().(*types.Array); isArr {
							x.markZero(tv.Type) // [n]T{…} may leave elements zero
						}
					}
					return true
				}
				set := map[int]bool{}
				for i, el := range v.Elts {
					if kv, ok := el.(*ast.KeyValueExpr); ok {
						if id, ok := kv.Key.(*ast.Ident); ok {
							if fo, ok := p.TypesInfo.Uses[id].(*types.Var); ok && fo.IsField() {
								x.assigns[fo] = append(x.assigns[fo], rhs{e: kv.Value, idx: -1, p: p})
								for j := 0; j < st.NumFields(); j++ {
									if st.Field(j) == fo {
										set[j] = true
									}
								}
							}
						}
					} else if i < st.NumFields() {
						fo := st.Field(i)
						x.assigns[fo] = append(x.assigns[fo], rhs{e: el, idx: -1, p: p})
						set[i] = true
					}
				}
				for j := 0; j < st.NumFields(); j++ {
					if !set[j] {
						fo := st.Field(j)
						x.assigns[fo] = append(x.assigns[fo], rhs{zero: true, p: p})
						x.markZero(fo.Type())
					}
				}
			case *ast.TypeAssertExpr:
				if v.Type != nil {
					x.markOpaque(p.TypesInfo.Types[v.Type].Type)
				}
			case *ast.CaseClause:
				for _, e := range v.List {
					if tv, ok := p.TypesInfo.Types[e]; ok && tv.IsType() {
						x.markOpaque(tv.Type)
					}
				}
			case *ast.CallExpr:
				if ftv, ok := p.TypesInfo.Types[v.Fun]; ok && ftv.IsType() {
					if _, isS := structOf(ftv.Type); isS {
						x.markOpaque(ftv.Type) // conversion between struct types
					}
				}
				if id, ok := unparen(v.Fun).(*ast.Ident); ok {
					if _, isB := p.TypesInfo.Uses[id].(*types.Builtin); isB && (id.Name == "new" || id.Name == "make") && len(v.Args) > 0 {
						x.markZero(p.TypesInfo.Types[v.Args[0]].Type)
					}
					if _, isB := p.TypesInfo.Uses[id].(*types.Builtin); isB && id.Name == "copy" && len(v.Args) == 2 {
						if bo := x.baseObj(p, v.Args[0]); bo != nil {
							x.assigns[bo] = append(x.assigns[bo], rhs{elem: true, p: p, idx: -1}) // unknown elements overwritten
						}
					}
				}
				x.pendingCalls = append(x.pendingCalls, pcall{p, v})
			case *ast.RangeStmt:
				if v.Key != nil {
					x.recordAssign(p, v.Key, rhs{})
				}
				if v.Value != nil {
					x.recordAssign(p, v.Value, rhs{})
				}
			case *ast.UnaryExpr:
				if v.Op == token.AND { // address taken: may be written through the pointer
					x.recordAssign(p, v.X, rhs{})
				}
			case *ast.IncDecStmt:
				x.recordAssign(p, v.X, rhs{})
			case *ast.TypeSwitchStmt:
				// `switch v := x.(type)`: the per-clause objects are implicit; they have no Defs entry → unknown → opaque
			}
			return true
		})
	}
}

// finishAliases: argument/parameter pairs join the alias graph; a variable that shares its buffer with another one (a plain copy,
// an argument) is poisoned when any member of its alias component has an element overwritten: its value is then unknown everywhere
func (x *fpx) finishAliases() {
	paramAt := map[*types.Func]map[int]types.Object{}
	for o, i := range x.params {
		if v, ok := o.(*types.Var); ok {
			for f, fd := range x.decls {
				if fd.Pos() <= v.Pos() && v.Pos() < fd.End() && x.dpkg[f].Types == v.Pkg() {
					if paramAt[f] == nil {
						paramAt[f] = map[int]types.Object{}
					}
					paramAt[f][i] = o
				}
			}
		}
	}
	for _, pc := range x.pendingCalls {
		f := x.callee(pc.p, pc.c.Fun)
		if f == nil || paramAt[f] == nil {
			continue
		}
		for i, a := range x.callArgs(pc.p, pc.c, f) {
			if a == nil {
				continue
			}
			if so := x.baseObj(pc.p, a); so != nil {
				if po := paramAt[f][i]; po != nil {
					x.alias[so] = append(x.alias[so], po)
					x.alias[po] = append(x.alias[po], so)
				}
			}
		}
	}
	x.pendingCalls = nil
	var work []types.Object
	for o, as := range x.assigns {
		if len(x.alias[o]) == 0 {
			continue
		}
		for _, a := range as {
			if a.elem {
				work = append(work, o)
				break
			}
		}
	}
	for len(work) > 0 {
		o := work[len(work)-1]
		work = work[:len(work)-1]
		if x.poison[o] {
			continue
		}
		x.poison[o] = true
		work = append(work, x.alias[o]...)
	}
}

func (x *fpx) isInterfaceMethod(f *types.Func) bool {
	sig, ok := f.Type().(*types.Signature)
	if !ok || sig.Recv() == nil {
		return false
	}
	_, isI := sig.Recv().Type().Underlying().(*types.Interface)
	return isI
}

// summarise one function with the current summaries of the others; reports whether its summary grew
func (x *fpx) summarise(f *types.Func) bool {
	fd, p := x.decls[f], x.dpkg[f]
	old := x.sums[f]
	s := &summary{effects: map[string]effect{}}
	fname := pshort(f.Pkg().Path()) + "." + f.Name()
	add := func(e effect) { e.Site = ifEmpty(e.Site, fname); s.effects[e.id()] = e }
	var visit func(n ast.Node, top bool)
	visit = func(n ast.Node, top bool) {
		ast.Inspect(n, func(n ast.Node) bool {
			switch v := n.(type) {
			case *ast.ReturnStmt:
				if !top {
					return true
				}
				x.addReturn(s, p, fd, v)
			case *ast.FuncLit:
				visit(v.Body, false) // effects of the closure count for the enclosing function; its returns do not
				return false
			case *ast.GoStmt, *ast.DeferStmt:
				return true
			case *ast.CallExpr:
				x.callEffects(p, v, add, fname)
			}
			return true
		})
	}
	visit(fd.Body, true)
	// named results returned by a bare `return` / functions whose results are only assigned
	if fd.Type.Results != nil {
		i := 0
		for _, fld := range fd.Type.Results.List {
			if len(fld.Names) == 0 {
				i++
				continue
			}
			for _, nm := range fld.Names {
				if o := p.TypesInfo.Defs[nm]; o != nil {
					for len(s.rets) <= i {
						s.rets = append(s.rets, aset{})
					}
					s.rets[i].addAll(x.evalObj(o))
				}
				i++
			}
		}
	}
	for i := range s.rets {
		s.rets[i] = limit(s.rets[i])
	}
	if old != nil {
		// monotone: keep what was there
		for k, e := range old.effects {
			s.effects[k] = e
		}
		for i, r := range old.rets {
			for len(s.rets) <= i {
				s.rets = append(s.rets, aset{})
			}
			s.rets[i].addAll(r)
			s.rets[i] = limit(s.rets[i])
		}
	}
	x.sums[f] = s
	if old == nil {
		return true
	}
	if len(old.effects) != len(s.effects) || len(old.rets) != len(s.rets) {
		return true
	}
	for i := range s.rets {
		if len(old.rets[i]) != len(s.rets[i]) {
			return true
		}
		for k := range s.rets[i] {
			if _, ok := old.rets[i][k]; !ok {
				return true
			}
		}
	}
	return false
}

func ifEmpty(a, b string) string {
	if a == "" {
		return b
	}
	return a
}

func (x *fpx) addReturn(s *summary, p *packages.Package, fd *ast.FuncDecl, r *ast.ReturnStmt) {
	if len(r.Results) == 0 {
		return
	}
	n := 0
	if fd.Type.Results != nil {
		n = fd.Type.Results.NumFields()
	}
	for len(s.rets) < n {
		s.rets = append(s.rets, aset{})
	}
	if len(r.Results) == 1 && n > 1 {
		// return g(...) passing several values through
		if c, ok := unparen(r.Results[0]).(*ast.CallExpr); ok {
			if g := x.callee(p, c.Fun); g != nil {
				if _, has := x.decls[g]; has {
					for i := 0; i < n; i++ {
						s.rets[i].addAll(x.callRets(p, c, g, i))
					}
					return
				}
			}
		}
		for i := 0; i < n; i++ {
			s.rets[i].add(opaque)
		}
		return
	}
	for i, e := range r.Results {
		if i < n {
			if isKeyLike(p.TypesInfo.Types[e].Type) {
				s.rets[i].addAll(x.eval(p, e))
			} else {
				s.rets[i].add(opaque)
			}
		}
	}
}

func isKeyLike(t types.Type) bool {
	if t == nil {
		return true
	}
	if isByteSliceOrString(t) {
		return true
	}
	switch u := t.Underlying().(type) {
	case *types.Interface:
		return true
	case *types.Basic:
		return u.Kind() == types.UntypedNil || u.Kind() == types.UntypedString
	}
	return false
}

func (x *fpx) callEffects(p *packages.Package, c *ast.CallExpr, add func(effect), fname string) {
	if ftv, ok := p.TypesInfo.Types[c.Fun]; ok && ftv.IsType() {
		return // conversion
	}
	if id, ok := unparen(c.Fun).(*ast.Ident); ok {
		if _, isB := p.TypesInfo.Uses[id].(*types.Builtin); isB {
			return
		}
	}
	f := x.callee(p, c.Fun)
	if f == nil {
		if _, isLit := unparen(c.Fun).(*ast.FuncLit); isLit {
			return // called in place; its body is visited as part of the enclosing function
		}
		// a call through a function value: whatever it is, it is not in the static call graph
		x.dyn[fname]++
		add(effect{Kind: "put", Key: opaque, Site: fname + "#dynamic"})
		add(effect{Kind: "delete", Key: opaque, Site: fname + "#dynamic"})
		add(effect{Kind: "call", Name: "?.?", Site: fname + "#dynamic"})
		add(effect{Kind: "notify", Name: "?", Site: fname + "#dynamic"})
		return
	}
	q := qname(f)
	switch q {
	case "storage.Put", "storage.Delete":
		kind := "put"
		if q == "storage.Delete" {
			kind = "delete"
		}
		if len(c.Args) < 2 {
			add(effect{Kind: kind, Key: opaque})
			return
		}
		for _, k := range x.eval(p, c.Args[1]) {
			if k.tail == tSelf {
				k = aval{b: k.b, tail: tOpaque}
			}
			add(effect{Kind: kind, Key: k})
		}
		return
	case "runtime.Notify":
		name := "?"
		if len(c.Args) > 0 {
			if s, ok := constBytes(p.TypesInfo.Types[c.Args[0]]); ok {
				name = s
			}
		}
		add(effect{Kind: "notify", Name: name})
		return
	case "contract.Call":
		kind, m, tgt := "call", "?", "?"
		if len(c.Args) >= 3 {
			if tv := p.TypesInfo.Types[c.Args[2]]; tv.Value != nil {
				if n, ok := constant.Int64Val(tv.Value); ok && n&(0x02|0x08) == 0 { // neither WriteStates nor AllowNotify
					kind = "callro"
				}
			}
		}
		if len(c.Args) >= 2 {
			if s, ok := constBytes(p.TypesInfo.Types[c.Args[1]]); ok {
				m = s
			}
		}
		if len(c.Args) >= 1 {
			tgt = x.target(p, c.Args[0], 0)
		}
		add(effect{Kind: kind, Name: tgt + "." + m})
		return
	}
	if n, ok := nativeMutators[q]; ok {
		add(effect{Kind: "call", Name: n})
		return
	}
	if _, has := x.decls[f]; has {
		s := x.sums[f]
		if s == nil {
			return
		}
		arg := x.bind(p, c, f)
		for _, e := range s.effects {
			if (e.Kind == "put" || e.Kind == "delete") && e.Key.tail == tParam {
				for _, k := range substAval(e.Key, arg) {
					if k.tail == tSelf {
						k = aval{b: k.b, tail: tOpaque}
					}
					add(effect{Kind: e.Kind, Key: k, Site: e.Site})
				}
				continue
			}
			add(e)
		}
		return
	}
	if x.inModule(f.Pkg()) {
		// a module function without a body here: an interface method (dynamic dispatch) or an external declaration
		x.dyn[fname]++
		add(effect{Kind: "put", Key: opaque, Site: fname + "#dynamic"})
		add(effect{Kind: "delete", Key: opaque, Site: fname + "#dynamic"})
		add(effect{Kind: "call", Name: "?.?", Site: fname + "#dynamic"})
		add(effect{Kind: "notify", Name: "?", Site: fname + "#dynamic"})
		return
	}
	if x.isInterfaceMethod(f) {
		x.dyn[fname]++
		add(effect{Kind: "put", Key: opaque, Site: fname + "#dynamic"})
		add(effect{Kind: "delete", Key: opaque, Site: fname + "#dynamic"})
		add(effect{Kind: "call", Name: "?.?", Site: fname + "#dynamic"})
		add(effect{Kind: "notify", Name: "?", Site: fname + "#dynamic"})
	}
	// any other function of another module (neo-go interop: storage.Get/Find, std.*, crypto.*, runtime.*, iterator.*, …) neither writes
	// this contract's storage, nor notifies, nor calls a contract with write permission: trusted list, see reports/footprint.md
}

type fpEntry struct {
	Contract string `json:"contract"`
	Method   string `json:"method"`
	Kind     string `json:"kind"`
	Family   string `json:"family"`
	Name     string `json:"name"`
	Bytes    []byte `json:"-"`
	Exact    bool   `json:"exact"`
	Site     string `json:"site"`
}

func footprintMain(repo, outLean, outJSON string) {
	cfg := &packages.Config{Mode: packages.NeedName | packages.NeedFiles | packages.NeedSyntax | packages.NeedTypes | packages.NeedTypesInfo | packages.NeedImports | packages.NeedDeps | packages.NeedModule, Dir: repo,
		Env: append(os.Environ(), "GOFLAGS=-mod=mod", "GOPROXY=off", "GOSUMDB=off", "GOTOOLCHAIN=local")}
	ents, err := os.ReadDir(repo + "/contracts")
	if err != nil {
		die(err)
	}
	var names []string
	for _, e := range ents {
		if e.IsDir() {
			if _, err := os.Stat(repo + "/contracts/" + e.Name() + "/config.yml"); err == nil {
				names = append(names, e.Name())
			}
		}
	}
	sort.Strings(names)
	pats := []string{"./common"}
	for _, n := range names {
		pats = append(pats, "./contracts/"+n)
	}
	roots, err := packages.Load(cfg, pats...)
	if err != nil {
		die(err)
	}
	x := &fpx{decls: map[*types.Func]*ast.FuncDecl{}, dpkg: map[*types.Func]*packages.Package{}, params: map[types.Object]int{},
		assigns: map[types.Object][]rhs{}, sums: map[*types.Func]*summary{}, stack: map[types.Object]bool{}, dyn: map[string]int{},
		opaqueT: map[types.Type]bool{}, zeroT: map[types.Type]bool{}, initSet: map[types.Object]bool{},
		alias: map[types.Object][]types.Object{}, poison: map[types.Object]bool{}, refOK: map[types.Object]int{}}
	for _, p := range roots {
		if len(p.Errors) > 0 {
			die(fmt.Errorf("package %s: %v", p.PkgPath, p.Errors[0]))
		}
		if p.Module != nil && x.module == "" {
			x.module = p.Module.Path
		}
	}
	if x.module == "" {
		x.module = "github.com/nspcc-dev/neofs-contract"
	}
	var mods []*packages.Package
	packages.Visit(roots, nil, func(p *packages.Package) {
		if p.Types != nil && x.inModule(p.Types) {
			mods = append(mods, p)
		}
	})
	sort.Slice(mods, func(i, j int) bool { return mods[i].PkgPath < mods[j].PkgPath })
	var funcs []*types.Func
	for _, p := range mods {
		for _, f := range p.Syntax {
			if strings.HasSuffix(p.Fset.File(f.Pos()).Name(), "_test.go") {
				continue
			}
			for _, d := range f.Decls {
				if fd, ok := d.(*ast.FuncDecl); ok && fd.Body != nil {
					if o, ok := p.TypesInfo.Defs[fd.Name].(*types.Func); ok {
						x.decls[o] = fd
						x.dpkg[o] = p
						funcs = append(funcs, o)
					}
				}
			}
		}
		x.collect(p)
	}
	x.finishAliases()
	sort.Slice(funcs, func(i, j int) bool {
		if funcs[i].Pkg().Path() != funcs[j].Pkg().Path() {
			return funcs[i].Pkg().Path() < funcs[j].Pkg().Path()
		}
		return funcs[i].FullName() < funcs[j].FullName()
	})
	rounds := 0
	for ; rounds < 40; rounds++ {
		changed := false
		for _, f := range funcs {
			if x.summarise(f) {
				changed = true
			}
		}
		if !changed {
			break
		}
	}
	var table []fpEntry
	for _, p := range roots {
		if !strings.Contains(p.PkgPath, "/contracts/") {
			continue
		}
		cname := pshort(p.PkgPath)
		over := readOverloads(repo, cname)
		seen := map[string]bool{}
		for _, f := range funcs {
			if f.Pkg() != p.Types {
				continue
			}
			fd := x.decls[f]
			if fd.Recv != nil || !(fd.Name.IsExported() || fd.Name.Name == "_deploy") {
				continue
			}
			mname := lowerFirst(fd.Name.Name)
			if fd.Name.Name == "_deploy" {
				mname = "_deploy"
			}
			if o, ok := over[fd.Name.Name]; ok {
				mname = o
			}
			for _, e := range x.sums[f].effects {
				ent := fpEntry{Contract: cname, Method: mname, Kind: e.Kind, Site: e.Site}
				switch e.Kind {
				case "put", "delete":
					k := e.Key
					ent.Bytes = []byte(k.b)
					ent.Exact = k.tail == tNone
					ent.Family = hex.EncodeToString(ent.Bytes)
					if !ent.Exact {
						ent.Family += "*"
						if len(ent.Bytes) == 0 {
							ent.Family = "?" + e.Site
						}
					}
				default:
					ent.Family = e.Name
					ent.Name = e.Name
					if e.Kind != "notify" {
						ent.Name = e.Name[strings.LastIndex(e.Name, ".")+1:]
					}
				}
				id := ent.Method + "|" + ent.Kind + "|" + ent.Family
				if seen[id] {
					continue
				}
				seen[id] = true
				table = append(table, ent)
			}
			// a method with an empty footprint is still a row of `methods`
			table = append(table, fpEntry{Contract: cname, Method: mname, Kind: "method"})
		}
	}
	sort.Slice(table, func(i, j int) bool {
		a, b := table[i], table[j]
		if a.Contract != b.Contract {
			return a.Contract < b.Contract
		}
		if a.Method != b.Method {
			return a.Method < b.Method
		}
		if a.Kind != b.Kind {
			return a.Kind < b.Kind
		}
		return a.Family < b.Family
	})
	var b strings.Builder
	b.WriteString("import NeoFS.Model.Footprint\n/-! GENERATED by /verif/extract (footprint) from the contract sources of the repository under test. Do not edit.\n" +
		"One row per (contract, manifest method, kind, family): kind put/delete = the method MAY write/delete a storage key of the family\n" +
		"(`bytes` = the constant bytes the key starts with, `exact` = the key is exactly these bytes; family text = hex, `*` when data follows,\n" +
		"`?site` when the key starts with no constant); call/callro = contract.Call with/without write or notify permission and native\n" +
		"mutators, family = target.method, name = method; notify = runtime.Notify, family = name = event name. -/\nnamespace NeoFS.Generated.Footprint\nopen NeoFS.Footprint\n\n")
	// one definition per contract (keeps kernel evaluation of the per-contract theorems small), `table` is their concatenation
	var cdefs []string
	methods := map[string][]string{}
	for _, cn := range names {
		var rows []string
		mseen := map[string]bool{}
		for _, e := range table {
			if e.Contract != cn {
				continue
			}
			if e.Kind == "method" {
				if !mseen[e.Method] {
					mseen[e.Method] = true
					methods[cn] = append(methods[cn], e.Method)
				}
				continue
			}
			rows = append(rows, fmt.Sprintf("  ⟨%s, %s, %s, %s, %s, %s, %v⟩", leanStr(e.Contract), leanStr(e.Method), leanStr(e.Kind), leanStr(e.Family), leanStr(e.Name), bytesList(e.Bytes), e.Exact))
		}
		fmt.Fprintf(&b, "def %s : List Entry := [\n%s]\n\n", "t_"+cn, strings.Join(rows, ",\n"))
		cdefs = append(cdefs, "t_"+cn)
	}
	var groups []string
	for _, cn := range names {
		groups = append(groups, fmt.Sprintf("(%s, t_%s)", leanStr(cn), cn))
	}
	fmt.Fprintf(&b, "/-- the rows grouped by contract; the checkers of `Model/Footprint.lean` work on this -/\ndef contracts : Table := [%s]\n\n", strings.Join(groups, ", "))
	fmt.Fprintf(&b, "/-- all rows -/\ndef table : List Entry := flat contracts\n\n")
	_ = cdefs
	var ms []string
	for _, cn := range names {
		ms = append(ms, fmt.Sprintf("(%s, %s)", leanStr(cn), strList(methods[cn])))
	}
	fmt.Fprintf(&b, "/-- every manifest method (also those with an empty footprint) -/\ndef methods : List (String × List String) := [\n  %s]\n", strings.Join(ms, ",\n  "))
	b.WriteString("\nend NeoFS.Generated.Footprint\n")
	writeIfChanged(outLean, b.String())
	if outJSON != "" {
		js, _ := json.MarshalIndent(map[string]any{"table": table, "rounds": rounds, "dynamic_calls": x.dyn}, "", " ")
		_ = os.WriteFile(outJSON, js, 0o644)
	}
}
