package main

import (
	"os"
	"sort"
	"strings"
)

// renameAliases makes the regenerated constants tolerant to pure RENAMES in the sources. The hand-written Lean models
// refer to constants by the name they had when the models were written (the baseline: Consts.lean as generated from
// the pinned tree, committed as extract/consts_baseline.lean). For a baseline name that no longer exists, a constant
// of the SAME package with the SAME Lean type and the SAME value that did not exist in the baseline is taken to be
// the renamed one, and `def <old> : T := <current value of new>` is emitted. Values always come from the current sources: a constant
// whose value changed (or that disappeared without an equal-valued successor) gets no alias, the models that use it
// stop building and the check reports that. Among several equal-valued candidates any choice gives the same value.
func renameAliases(defs []def, baselinePath string) []def {
	raw, err := os.ReadFile(baselinePath)
	if err != nil {
		return nil
	}
	parse := func(line string) (name, typ, val string, ok bool) {
		if !strings.HasPrefix(line, "def ") {
			return
		}
		rest := line[4:]
		i := strings.Index(rest, " : ")
		j := strings.Index(rest, " := ")
		if i < 0 || j < i {
			return
		}
		return rest[:i], rest[i+3 : j], rest[j+4:], true
	}
	type tv struct{ typ, val string }
	base := map[string]tv{}
	var baseNames []string
	for _, l := range strings.Split(string(raw), "\n") {
		if n, t, v, ok := parse(l); ok {
			base[n] = tv{t, v}
			baseNames = append(baseNames, n)
		}
	}
	cur := map[string]tv{}
	var newOnly []string
	for _, d := range defs {
		if n, t, v, ok := parse(d.body); ok {
			cur[n] = tv{t, v}
			if _, was := base[n]; !was {
				newOnly = append(newOnly, n)
			}
		}
	}
	sort.Strings(newOnly)
	sort.Strings(baseNames)
	pkgOf := func(n string) string {
		if i := strings.Index(n, "_"); i > 0 {
			return n[:i]
		}
		return n
	}
	used := map[string]bool{}
	var out []def
	for _, old := range baseNames {
		if _, still := cur[old]; still {
			continue
		}
		b := base[old]
		for _, cand := range newOnly {
			if used[cand] || pkgOf(cand) != pkgOf(old) || strings.HasSuffix(cand, "_bytes") != strings.HasSuffix(old, "_bytes") {
				continue
			}
			if c := cur[cand]; c.typ == b.typ && c.val == b.val {
				used[cand] = true
				// the value is written out (it IS the current value of cand: types and values were compared above), so that proofs
				// which unfold the constant see the same literal as before the rename
				out = append(out, def{old, "def " + old + " : " + b.typ + " := " + c.val + "  -- alias: renamed in the sources to " + cand})
				break
			}
		}
	}
	return out
}
