// extract: regenerates Lean facts from the sources of the repository under test.
//
//	extract footprint <repo> <out.lean> [out.json]   storage write footprint of every manifest method (footprint.go)
//	extract consts <repo> <out.lean>   every constant (package level and function level) and every simple
//	                                   byte-slice / string package variable of common/ and contracts/*,
//	                                   deploy/ and rpc/nns as Lean definitions in namespace NeoFS.Generated
//
// The Lean models use these definitions; property files relate them to the literals of the property
// statements by small bridge lemmas, so a changed constant breaks a named lemma.
package main

import (
	"fmt"
	"go/ast"
	"go/constant"
	"go/token"
	"go/types"
	"os"
	"sort"
	"strings"

	"golang.org/x/tools/go/packages"
)

func die(err error) {
	fmt.Fprintln(os.Stderr, "extract:", err)
	os.Exit(2)
}

func short(p string) string { return p[strings.LastIndex(p, "/")+1:] }

func leanStr(s string) string {
	var b strings.Builder
	b.WriteByte('"')
	for _, r := range s {
		switch {
		case r == '"':
			b.WriteString("\\\"")
		case r == '\\':
			b.WriteString("\\\\")
		case r == '\n':
			b.WriteString("\\n")
		case r < 32 || (r > 126 && r < 256):
			fmt.Fprintf(&b, "\\x%02x", r)
		case r > 126 && r <= 0xffff:
			fmt.Fprintf(&b, "\\u%04x", r)
		default:
			b.WriteRune(r)
		}
	}
	b.WriteByte('"')
	return b.String()
}

func bytesList(bs []byte) string {
	parts := make([]string, len(bs))
	for i, c := range bs {
		parts[i] = fmt.Sprint(c)
	}
	return "[" + strings.Join(parts, ", ") + "]"
}

func ident(s string) string {
	s = strings.NewReplacer(".", "_", "-", "_", "/", "_").Replace(s)
	return s
}

type def struct{ name, body string }

func main() {
	if len(os.Args) >= 4 && os.Args[1] == "access" {
		js := ""
		if len(os.Args) > 4 {
			js = os.Args[4]
		}
		accessMain(os.Args[2], os.Args[3], js)
		return
	}
	if len(os.Args) >= 4 && os.Args[1] == "footprint" {
		js := ""
		if len(os.Args) > 4 {
			js = os.Args[4]
		}
		footprintMain(os.Args[2], os.Args[3], js)
		return
	}
	if (len(os.Args) != 4 && len(os.Args) != 5) || os.Args[1] != "consts" {
		die(fmt.Errorf("usage: extract consts <repo> <out.lean> | extract access <repo> <out.lean> [out.json] | extract footprint <repo> <out.lean> [out.json]"))
	}
	repo, out := os.Args[2], os.Args[3]
	cfg := &packages.Config{Mode: packages.NeedName | packages.NeedFiles | packages.NeedSyntax | packages.NeedTypes | packages.NeedTypesInfo | packages.NeedImports | packages.NeedDeps, Dir: repo,
		Env: append(os.Environ(), "GOFLAGS=-mod=mod", "GOPROXY=off", "GOSUMDB=off", "GOTOOLCHAIN=local")}
	pats := []string{"./common", "./contracts/...", "./deploy", "./rpc/nns"}
	pkgs, err := packages.Load(cfg, pats...)
	if err != nil {
		die(err)
	}
	var defs []def
	seen := map[string]bool{}
	add := func(name, body string) {
		if seen[name] {
			return
		}
		seen[name] = true
		defs = append(defs, def{name, body})
	}
	emitConst := func(name string, c *types.Const) {
		v := c.Val()
		switch v.Kind() {
		case constant.Int:
			add(name, fmt.Sprintf("def %s : Int := %s", name, v.ExactString()))
			// a byte-sized integer (rune/byte constants used as storage prefixes) also gets the byte-string form, which is the same
			// for `'a'` and `"a"`: models and theorems that mean "the prefix bytes" use <name>_bytes
			if n, ok := constant.Int64Val(v); ok && n >= 0 && n < 256 {
				add(name+"_bytes", fmt.Sprintf("def %s_bytes : List Nat := [%d]", name, n))
			}
		case constant.String:
			s := constant.StringVal(v)
			add(name, fmt.Sprintf("def %s : String := %s", name, leanStr(s)))
			add(name+"_bytes", fmt.Sprintf("def %s_bytes : List Nat := %s", name, bytesList([]byte(s))))
		case constant.Bool:
			add(name, fmt.Sprintf("def %s : Bool := %v", name, constant.BoolVal(v)))
		}
	}
	for _, p := range pkgs {
		if len(p.Errors) > 0 {
			die(fmt.Errorf("package %s: %v", p.PkgPath, p.Errors[0]))
		}
		pk := short(p.PkgPath)
		if strings.Contains(p.PkgPath, "/rpc/") {
			pk = "rpc" + pk
		}
		if strings.Contains(p.PkgPath, "/contracts/") && strings.Count(p.PkgPath[strings.Index(p.PkgPath, "/contracts/"):], "/") > 2 {
			// sub-packages such as contracts/netmap/nodestate
			parts := strings.Split(p.PkgPath, "/")
			pk = parts[len(parts)-2] + "_" + parts[len(parts)-1]
		}
		for _, f := range p.Syntax {
			if strings.HasSuffix(p.Fset.File(f.Pos()).Name(), "_test.go") {
				continue
			}
			for _, d := range f.Decls {
				switch dd := d.(type) {
				case *ast.GenDecl:
					for _, sp := range dd.Specs {
						vs, ok := sp.(*ast.ValueSpec)
						if !ok {
							continue
						}
						for i, id := range vs.Names {
							if id.Name == "_" {
								continue
							}
							obj := p.TypesInfo.Defs[id]
							name := ident(pk + "_" + id.Name)
							if c, ok := obj.(*types.Const); ok {
								emitConst(name, c)
							} else if dd.Tok == token.VAR && i < len(vs.Values) {
								if bs, ok := byteLit(p, vs.Values[i]); ok {
									add(name, fmt.Sprintf("def %s : List Nat := %s", name, bytesList(bs)))
									// the same bytes under the name a string constant of that name would get: `var p = []byte("x")` and
									// `const p = "x"` give the same <name>_bytes
									add(name+"_bytes", fmt.Sprintf("def %s_bytes : List Nat := %s", name, bytesList(bs)))
								}
							}
						}
					}
				case *ast.FuncDecl:
					if dd.Body == nil {
						continue
					}
					fn := dd.Name.Name
					ast.Inspect(dd.Body, func(n ast.Node) bool {
						gd, ok := n.(*ast.GenDecl)
						if !ok || gd.Tok != token.CONST {
							return true
						}
						for _, sp := range gd.Specs {
							vs := sp.(*ast.ValueSpec)
							for _, id := range vs.Names {
								if c, ok := p.TypesInfo.Defs[id].(*types.Const); ok {
									emitConst(ident(pk+"_"+fn+"_"+id.Name), c)
								}
							}
						}
						return true
					})
				}
			}
		}
	}
	sort.Slice(defs, func(i, j int) bool { return defs[i].name < defs[j].name })
	if len(os.Args) == 5 {
		defs = append(defs, renameAliases(defs, os.Args[4])...)
	}
	var b strings.Builder
	b.WriteString("/-! GENERATED by /verif/extract from the sources of the repository under test. Do not edit. -/\nnamespace NeoFS.Generated\n\n")
	for _, d := range defs {
		b.WriteString(d.body + "\n")
	}
	b.WriteString("\nend NeoFS.Generated\n")
	old, _ := os.ReadFile(out)
	if string(old) == b.String() {
		return
	}
	tmp := out + ".tmp"
	if err := os.WriteFile(tmp, []byte(b.String()), 0o644); err != nil {
		die(err)
	}
	if err := os.Rename(tmp, out); err != nil {
		die(err)
	}
}

// byteLit evaluates []byte{...} of constants, []byte("const") and plain constant expressions of string type.
func byteLit(p *packages.Package, e ast.Expr) ([]byte, bool) {
	switch x := e.(type) {
	case *ast.CompositeLit:
		t, ok := p.TypesInfo.Types[x].Type.Underlying().(*types.Slice)
		if !ok {
			return nil, false
		}
		if b, ok := t.Elem().Underlying().(*types.Basic); !ok || b.Kind() != types.Byte && b.Kind() != types.Uint8 {
			return nil, false
		}
		var out []byte
		for _, el := range x.Elts {
			tv := p.TypesInfo.Types[el]
			if tv.Value == nil {
				return nil, false
			}
			n, ok := constant.Int64Val(tv.Value)
			if !ok {
				return nil, false
			}
			out = append(out, byte(n))
		}
		return out, true
	case *ast.CallExpr:
		if len(x.Args) == 1 {
			if tv, ok := p.TypesInfo.Types[x.Fun]; ok && tv.IsType() {
				if av := p.TypesInfo.Types[x.Args[0]]; av.Value != nil && av.Value.Kind() == constant.String {
					return []byte(constant.StringVal(av.Value)), true
				}
			}
		}
	}
	return nil, false
}
