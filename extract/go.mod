module verifextract

go 1.22

require (
	github.com/nspcc-dev/neofs-contract v0.0.0
	golang.org/x/tools v0.24.0
	gopkg.in/yaml.v3 v3.0.1
)

require (
	golang.org/x/mod v0.20.0 // indirect
	golang.org/x/sync v0.8.0 // indirect
)

replace github.com/nspcc-dev/neofs-contract => /repo
